/-
Lemmas/PcrWidthFix.lean — from the invariant of the size loop (`pcrLoop_width`) to addresses and to what
`fix_addresses` stores (property C03, width of the 8-bit PCR form).

* `Stages.pcr_pre`: the statement that enters `fix_addresses` for a final PCR statement, with the side
  conditions of `fixOne_pcr` discharged from `StmtOK`.
* `Stages.pcr8_dist`: for a statement settled on the 8-bit form, the signed distance `D = y − x − size` from the
  end of the statement to the statement the operand names satisfies `−128 ≤ D − k` and `D + k ≤ 127`
  (`k = exprExtra`, the constant of `label ± k`), when no ORG lies in between.
* `fixRel_target_plain` / `fixRel_target_expr`: the target `fix_addresses` computes.
-/
import CoCoVerif.Lemmas.PcrWidthInv
import CoCoVerif.Lemmas.LayoutEval

namespace CoCo.Asm
open CoCo

/-! ### values -/

theorem numericOfInt_int {z : Int} {h : Option Nat} {m : Mode} {v : Value} (hv : numericOfInt z h m = .ok v) :
    v.int? = some z.natAbs ∧ z ≤ 65535 := by
  unfold numericOfInt at hv
  split at hv
  · cases hv
  · rename_i hle
    simp only [Except.ok.injEq] at hv
    subst hv
    exact ⟨rfl, by omega⟩

theorem relIndex_plain {v : Value} (he : v.isAddrExpr = false) : relIndex v = v.int? := by
  cases v with
  | expr l r op m ae =>
    cases ae with
    | false => rfl
    | true => simp [Value.isAddrExpr] at he
  | _ => rfl

theorem exprExtra_plain {v : Value} (he : v.isAddrExpr = false) : exprExtra v = 0 := by
  cases v with
  | expr l r op m ae =>
    cases ae with
    | false => rfl
    | true => simp [Value.isAddrExpr] at he
  | _ => rfl

/-! ### the target of a PCR operand -/

/-- plain label (the offset is not an address expression): the address of the statement `relIndex` names -/
theorem fixRel_target_plain {ss : List Stmt} {s2 : Stmt} {b target : Nat}
    (he : s2.pkg.additional.isAddrExpr = false) (hr : relIndex s2.pkg.additional = some b)
    (h : fixRel ss s2 = .ok target) : addrIntOf ss b = some target := by
  rw [relIndex_plain he] at hr
  rw [fixRel_plain he hr] at h
  cases ha : addrIntOf ss b with
  | none => rw [ha] at h; cases h
  | some y => rw [ha] at h; cases h; rfl

/-- what `exprForces = false` says of an address expression: `+` or `-`, and the other operand is a number -/
theorem exprForces_false {l r : Value} {op : Char} {m : Mode}
    (hf : exprForces (.expr l r op m true) = false) :
    (op = '+' ∨ op = '-') ∧ ∃ k hh mm nn, (if l.isAddress then r else l) = .numeric k hh mm nn := by
  unfold exprForces at hf
  simp only [Bool.or_eq_false_iff, Bool.not_eq_false'] at hf
  obtain ⟨⟨h1, h2⟩, _⟩ := hf
  refine ⟨?_, ?_⟩
  · rcases (Bool.or_eq_true _ _).mp h1 with h | h
    · exact .inl (by simpa using h)
    · exact .inr (by simpa using h)
  · generalize (if l.isAddress = true then r else l) = oth at h2
    cases oth <;> simp [Value.isNumeric] at h2
    exact ⟨_, _, _, _, rfl⟩

/-- batch 4, the third disjunct of `exprForces`: `number - label` is forced to the 16-bit form, so on an expression
that is NOT forced a `-` has no label on its right -/
theorem exprForces_false_minus {l r : Value} {m : Mode}
    (hf : exprForces (.expr l r '-' m true) = false) : r.isAddress = false := by
  unfold exprForces at hf
  simp only [Bool.or_eq_false_iff] at hf
  simpa using hf.2

theorem signedK_bound (k : Nat) (nn : Bool) : -(k : Int) ≤ signedK k nn ∧ signedK k nn ≤ k := by
  unfold signedK; split <;> omega

/-- (batch B3) the arithmetic of `calculate_address_offset` for `+` and `-`: left `op` right in ℤ, at most 65535, and
the value is that number modulo 65536 (a result below zero is reduced, one in range is itself) -/
theorem addrCombine_pm {op : Char} (hop : op = '+' ∨ op = '-') {a b : Int} {v : Value} {t : Nat}
    (h : addrCombine op a b = .ok v) (ht : v.int? = some t) :
    (t : Int) = (if op = '+' then a + b else a - b) % 65536 ∧ (if op = '+' then a + b else a - b) ≤ 65535 := by
  have hne : ('-' == '+') = false := by decide
  have hne' : ¬ ('-' = '+') := by decide
  unfold addrCombine at h
  have key : ∀ z : Int, (match numericOfInt (if z < 0 then z % 65536 else z) (some 4) .extended with
        | .ok nv => Outcome.ok nv | .error _ => .diag) = .ok v → (t : Int) = z % 65536 ∧ z ≤ 65535 := by
    intro z hz
    cases hn : numericOfInt (if z < 0 then z % 65536 else z) (some 4) .extended with
    | error e => rw [hn] at hz; cases hz
    | ok w =>
      rw [hn] at hz
      cases hz
      obtain ⟨hi, hle⟩ := numericOfInt_int hn
      rw [hi] at ht
      have : t = (if z < 0 then z % 65536 else z).natAbs := (Option.some.inj ht).symm
      subst this
      split at hle <;> rename_i hz0
      · rw [if_pos hz0]; omega
      · rw [if_neg hz0]; omega
  rcases hop with rfl | rfl
  · simp only [beq_self_eq_true, if_true] at h ⊢
    exact key _ h
  · simp only [hne, Bool.false_eq_true, if_false, beq_self_eq_true, if_true, hne'] at h ⊢
    exact key _ h

/-- `fixRel_target_expr` from what it really uses: the operator is `+` or `-` and the other side is a number (batch 4:
`exprForces = false` is no longer implied by that — `number - label` is forced to the 16-bit form — but the target
`fix_addresses` computes is the same) -/
theorem fixRel_target_expr_pm {ss : List Stmt} {s2 : Stmt} {l r : Value} {op : Char} {m : Mode} {b target k : Nat}
    {hh : Option Nat} {mm : Mode} {nn : Bool}
    (hidx : (s2.operand.kind == .indexed || s2.operand.kind == .extIndirect) = true)
    (ha : s2.pkg.additional = .expr l r op m true) (hlr : l.isAddress = true ∨ r.isAddress = true)
    (hop : op = '+' ∨ op = '-') (hoth : (if l.isAddress then r else l) = .numeric k hh mm nn)
    (hr : relIndex s2.pkg.additional = some b) (h : fixRel ss s2 = .ok target) :
    ∃ y, addrIntOf ss b = some y ∧ exprExtra s2.pkg.additional = k ∧
      ((op = '+' ∧ (target : Int) = ((y : Int) + signedK k nn) % 65536) ∨
       (op = '-' ∧ l.isAddress = true ∧ (target : Int) = ((y : Int) - signedK k nn) % 65536) ∨
       (op = '-' ∧ l.isAddress = false ∧ (target : Int) = (signedK k nn - (y : Int)) % 65536)) := by
  rw [ha] at hr
  have hrel : (if l.isAddress = true then l.int? else r.int?) = some b := hr
  have hx : exprExtra s2.pkg.additional = k := by
    rw [ha]
    show ((if l.isAddress = true then r.int? else l.int?).getD 0) = k
    by_cases hl : l.isAddress = true
    · rw [if_pos hl] at hoth ⊢; rw [hoth]; rfl
    · rw [if_neg hl] at hoth ⊢; rw [hoth]; rfl
  unfold fixRel at h
  simp only [hidx, ha] at h
  cases ho : addrOffset ss (.expr l r op m true) with
  | ok v =>
    rw [ho] at h
    dsimp only at h
    cases hv : v.int? with
    | none => rw [hv] at h; cases h
    | some t =>
      rw [hv] at h
      cases h
      obtain ⟨a, c, h1, h2, h3⟩ := addrOffset_ok.1 ho
      obtain ⟨hval, _⟩ := addrCombine_pm hop h3 hv
      by_cases hl : l.isAddress = true
      · -- the label stands on the left
        rw [if_pos hl] at hoth hrel
        subst hoth
        cases l <;> simp [Value.isAddress] at hl
        rename_i j mj
        have hj : j = b := by simpa [Value.int?] using hrel
        subst hj
        rw [addrOperand_address] at h1
        rw [addrOperand_numeric] at h2
        cases hy : addrIntOf ss j with
        | none => rw [hy] at h1; cases h1
        | some y =>
          rw [hy] at h1
          cases h1; cases h2
          refine ⟨y, rfl, hx, ?_⟩
          rcases hop with rfl | rfl
          · left; exact ⟨rfl, by simpa [signedK] using hval⟩
          · right; left
            have hne : ¬ ('-' = '+') := by decide
            exact ⟨rfl, rfl, by simpa [signedK, hne] using hval⟩
      · -- the label stands on the right
        have hl' : l.isAddress = false := by simpa using hl
        have hra : r.isAddress = true := by rcases hlr with h | h; exact absurd h hl; exact h
        rw [if_neg hl] at hoth hrel
        subst hoth
        cases r <;> simp [Value.isAddress] at hra
        rename_i j mj
        have hj : j = b := by simpa [Value.int?] using hrel
        subst hj
        rw [addrOperand_numeric] at h1
        rw [addrOperand_address] at h2
        cases hy : addrIntOf ss j with
        | none => rw [hy] at h2; cases h2
        | some y =>
          rw [hy] at h2
          cases h1; cases h2
          refine ⟨y, rfl, hx, ?_⟩
          rcases hop with rfl | rfl
          · left
            refine ⟨rfl, ?_⟩
            have : (target : Int) = ((if nn = true then -(k : Int) else k) + y) % 65536 := by simpa using hval
            rw [this]; unfold signedK; congr 1; omega
          · right; right
            have hne : ¬ ('-' = '+') := by decide
            exact ⟨rfl, rfl, by simpa [signedK, hne] using hval⟩
  | diag => rw [ho] at h; cases h
  | internal => rw [ho] at h; cases h
  | diverged => rw [ho] at h; cases h

/-- `label ± c`, `c ± label` (batch B3: left `op` right in the written order, reduced modulo 65536): for `+` the target is
`(address(label) + c) mod 65536`; for `-` it is `(address(label) − c) mod 65536` when the label stands on the left, and
`(c − address(label)) mod 65536` when it stands on the right (`5-L`).  `c` is the SIGNED constant (`exprExtra`, which
widens the estimates of the size loop, is its magnitude).  `hlr`: one of the two sides is a label (true of every value
the front end builds with the address-expression flag) -/
theorem fixRel_target_expr {ss : List Stmt} {s2 : Stmt} {l r : Value} {op : Char} {m : Mode} {b target : Nat}
    (hidx : (s2.operand.kind == .indexed || s2.operand.kind == .extIndirect) = true)
    (ha : s2.pkg.additional = .expr l r op m true) (hlr : l.isAddress = true ∨ r.isAddress = true)
    (hf : exprForces s2.pkg.additional = false)
    (hr : relIndex s2.pkg.additional = some b) (h : fixRel ss s2 = .ok target) :
    ∃ y k hh mm nn, addrIntOf ss b = some y ∧ (if l.isAddress then r else l) = .numeric k hh mm nn ∧
      exprExtra s2.pkg.additional = k ∧
      ((op = '+' ∧ (target : Int) = ((y : Int) + signedK k nn) % 65536) ∨
       (op = '-' ∧ l.isAddress = true ∧ (target : Int) = ((y : Int) - signedK k nn) % 65536) ∨
       (op = '-' ∧ l.isAddress = false ∧ (target : Int) = (signedK k nn - (y : Int)) % 65536)) := by
  have hf' := hf
  rw [ha] at hf'
  obtain ⟨hop, k, hh, mm, nn, hoth⟩ := exprForces_false hf'
  obtain ⟨y, h1, h2, h3⟩ := fixRel_target_expr_pm hidx ha hlr hop hoth hr h
  exact ⟨y, k, hh, mm, nn, h1, hoth, h2, h3⟩

/-! ### the statement that enters `fix_addresses` -/

/-- what is known of a final PCR statement `s` (index `i`) of an accepted program -/
structure PcrPre {fs : Files} {lines : List Str} {a : Assembly} (st : Stages fs lines a) (i : Nat) (s s3 s4 : Stmt) :
    Prop where
  h3 : st.ss3[i]? = some s3
  h4 : st.ss4[i]? = some s4
  rel34 : AddrRel s3 s4
  rel4 : SameButAdditional s4 s
  /-- `fix_addresses` (giving `s1`), then `fit_operand_width` -/
  fix : ∃ s1, fixOne st.ss4 i s4 = .ok s1 ∧ fitWidth s1 = .ok s
  idx : (s4.operand.kind == .indexed || s4.operand.kind == .extIndirect) = true
  left : LeftOK s4.operand s4.pkg
  choices : s4.pkg.choices ≠ []
  needs : s4.pkg.needsRes = true
  /-- an address expression has a label on one side -/
  lr : ∀ l r op m, s4.pkg.additional = .expr l r op m true → l.isAddress = true ∨ r.isAddress = true
  stored : ∃ target start v, fixRel st.ss4 s4 = .ok target ∧ addrIntOf st.ss4 i = some start ∧
      numericOfInt (pcrJump s4 target start) (some s4.pcrHint) .none = .ok v ∧
      fitWidth (withAdditional s4 v) = .ok s ∧ ¬ pcrOut s4 target start
  /-- the row is a row of the instruction table -/
  row : s4.row ∈ Gen.instructions
  /-- op code and post byte: the indexed op code of the row, and one byte -/
  codes : opVal s4.row.ind = .ok s4.pkg.opCode ∧ s4.pkg.postByte.hexLen? = some 2
  /-- on the 8-bit form the statement is one byte longer than the indexed base size -/
  size8 : s4.pcrHint = 2 → s4.pkg.size = s4.row.indSz + 1

theorem Stages.pcr_pre {fs : Files} {lines : List Str} {a : Assembly} (st : Stages fs lines a)
    {i : Nat} {s : Stmt} (hs : a.stmts[i]? = some s) (hc : s.pkg.choices ≠ []) :
    ∃ s3 s4, PcrPre st i s s3 s4 := by
  obtain ⟨s4, hs4, hsame⟩ := (fixAllL_pw st.hfix).get' hs
  -- (batch 8) `fixAll`, then the pass over the FCB / FDB lists: `sw` is the statement between the two
  obtain ⟨x5, hx5, hl5⟩ := st.fix_split
  obtain ⟨sw, hsw, hlist⟩ := evalLists_get hl5 hs
  obtain ⟨s1, s', hs', hfix, hfit⟩ := (fixAll_ok2 hx5).2 i s4 hs4
  rw [hsw] at hs'; cases hs'
  rw [Nat.zero_add] at hfix
  obtain ⟨s3, hs3, hrel34⟩ := (assignAddrs_pw st.haddr).get' hs4
  obtain ⟨s2, hs2, hrel23⟩ := (pcrLoop_pw _ _ st.hpcr).get' hs3
  -- the C13 invariant
  have hpar := expand_parsed st.hparse st.hexpand
  obtain ⟨_, hlen2, hall2⟩ := translated_good hpar st.hsym st.hresolve st.htranslate
  obtain ⟨_, hok3⟩ := pcrLoop_good (st.ss2.length + 1) st.ss2 hlen2 hall2
  obtain ⟨_, hfix3, hall3⟩ := hok3 st.ss3 st.hpcr
  have hok : StmtOK st.ss0.length s3 := hall3 s3 (List.mem_of_getElem? hs3)
  have hfx : s3.fixedSize = true := by
    simp only [allFixed, List.all_eq_true] at hfix3
    exact hfix3 s3 (List.mem_of_getElem? hs3)
  have hch4 : s4.pkg.choices ≠ [] := by obtain ⟨v, rfl⟩ := hsame; exact hc
  have hch3 : s3.pkg.choices ≠ [] := by obtain ⟨v, rfl⟩ := hrel34; exact hch4
  -- a statement with post byte choices came out of the translation undecided, with `needsRes`
  have hn3 : s3.pkg.needsRes = true := by
    have h23' : s3.pkg.choices = s2.pkg.choices ∧ s3.pkg.needsRes = s2.pkg.needsRes := by
      obtain ⟨_, _, _, _, _, rfl⟩ := hrel23; exact ⟨rfl, rfl⟩
    have hch2 : s2.pkg.choices ≠ [] := by rw [← h23'.1]; exact hch3
    obtain ⟨hok2, hiff, _⟩ := translateAll_winv st.htranslate i s2 hs2
    have hf2 : s2.fixedSize = false := by
      cases hf : s2.fixedSize with
      | false => rfl
      | true => exact absurd (hiff.1 hf) hch2
    rw [h23'.2]; exact (hok2.und hf2 hch2).2.2
  have hn4 : s4.pkg.needsRes = true := by obtain ⟨v, rfl⟩ := hrel34; exact hn3
  obtain ⟨hlr, hkind⟩ := hok.needs hn3
  have hgood3 := (hok.addl hn3).1
  -- the width facts of the translated statement
  have hleft2 := (translateAll_winv st.htranslate i s2 hs2).2.2
  have hop4 : s4.operand = s3.operand := by obtain ⟨v, rfl⟩ := hrel34; rfl
  have hpk4 : s4.pkg.choices = s3.pkg.choices ∧ s4.pkg.additional = s3.pkg.additional := by
    obtain ⟨v, rfl⟩ := hrel34; exact ⟨rfl, rfl⟩
  have h23 : s3.operand = s2.operand ∧ s3.pkg.choices = s2.pkg.choices ∧ s3.pkg.additional = s2.pkg.additional := by
    obtain ⟨_, _, _, _, _, rfl⟩ := hrel23; exact ⟨rfl, rfl, rfl⟩
  have hleft4 : LeftOK s4.operand s4.pkg := by
    intro _ v hv
    rw [hpk4.2, h23.2.2]
    have hn2 : s2.pkg.needsRes = true := by
      obtain ⟨_, _, _, _, _, rfl⟩ := hrel23; exact hn3
    exact hleft2 hn2 v (by rw [← h23.1, ← hop4]; exact hv)
  have hidx : (s4.operand.kind == .indexed || s4.operand.kind == .extIndirect) = true := by
    rw [hop4]; rcases hkind with h | h <;> simp [h]
  have hk : (s4.operand.kind == .relative) = false := by
    rw [hop4]; rcases hkind with h | h <;> simp [h]
  have hval : s4.operand.value.isLeftRight = true := by rw [hop4]; exact hlr
  have hv1 : s4.operand.value.isAddrExpr = false := by
    cases hv : s4.operand.value <;> rw [hv] at hval <;> first | rfl | cases hval
  have hv2 : s4.operand.value.isAddress = false := by
    cases hv : s4.operand.value <;> rw [hv] at hval <;> first | rfl | cases hval
  have hv3 : s4.operand.value ≠ .pyNone := by
    intro hv; rw [hv] at hval; cases hval
  -- op code, post byte and size of the settled statement
  obtain ⟨hop3, hsz3⟩ := pcrLoop_width8 st.htranslate st.hpcr i s3 hs3 hch3
  have hpb3 : s3.pkg.postByte.hexLen? = some 2 := by
    rcases hok.choices with h0 | ⟨_, _, _, _, _, ⟨_, _, _, hl⟩, _⟩
    · exact absurd h0 hch3
    · exact hl
  have h34 : s4.row = s3.row ∧ s4.pkg.opCode = s3.pkg.opCode ∧ s4.pkg.postByte = s3.pkg.postByte ∧
      s4.pkg.size = s3.pkg.size ∧ s4.pcrHint = s3.pcrHint := by
    obtain ⟨v, rfl⟩ := hrel34; exact ⟨rfl, rfl, rfl, rfl, rfl⟩
  have hrow3 : s3.row ∈ Gen.instructions := by
    obtain ⟨s0, hs0, hk0⟩ := ((st.keep01.trans st.keep12 (fun _ _ _ => KeepRel.trans)).trans st.keep23
      (fun _ _ _ => KeepRel.trans)).get' hs3
    rw [hk0.2]
    exact (hpar s0 (List.mem_of_getElem? hs0)).1
  obtain ⟨target, start, v, q1, q2, q3, rfl, q5⟩ :=
    fixOne_pcr_in hk hv1 hv2 hv3 hn4 (by cases hcc : s4.pkg.choices with
      | nil => exact absurd hcc hch4
      | cons _ _ => rfl) hfix
  -- (batch 8) the stored field is a number: the list pass leaves the statement alone
  have hsw' : sw = s := by
    have hnum := fitWidth_isNumeric hfit
      (show (withAdditional s4 v).pkg.additional.isNumeric = true from EL.numericOfInt_isNumeric q3)
    have := hlist
    rw [evalList1_numeric _ _ hnum] at this
    exact Outcome.ok.inj this
  subst hsw'
  have hlr4 : ∀ l r op m, s4.pkg.additional = .expr l r op m true → l.isAddress = true ∨ r.isAddress = true := by
    intro l r op m he
    rw [hpk4.2] at he
    rw [he] at hgood3
    exact hgood3.2.2 rfl
  exact ⟨s3, s4, ⟨hs3, hs4, hrel34, hsame, ⟨_, hfix, hfit⟩, hidx, hleft4, hch4, hn4, hlr4,
    ⟨target, start, v, q1, q2, q3, hfit, q5⟩, by rw [h34.1]; exact hrow3,
    ⟨by rw [h34.1, h34.2.1]; exact hop3, by rw [h34.2.2.1]; exact hpb3⟩,
    fun hh => by rw [h34.2.2.2.1, h34.1]; exact hsz3 (by rw [← h34.2.2.2.2]; exact hh)⟩⟩

/-! ### the distance bound of a statement settled on the 8-bit form -/

/-- **the 8-bit decision is sound with respect to the final layout**: a PCR statement `s` (index `i`) of an accepted
program that ended on the 8-bit form names (through `relIndex`) a statement `b`; when no ORG lies between the
two, the signed distance `D = address(b) − address(s) − size(s)` satisfies `−128 ≤ D − k` and `D + k ≤ 127`,
`k = exprExtra` being the constant of `label ± k` (0 for a plain label) -/
theorem Stages.pcr8_dist {fs : Files} {lines : List Str} {a : Assembly} (st : Stages fs lines a)
    {i : Nat} {s s3 s4 : Stmt} (hs : a.stmts[i]? = some s) (hh : s.pcrHint = 2)
    (pre : PcrPre st i s s3 s4) :
    ∃ b, relIndex s4.pkg.additional = some b ∧ exprForces s4.pkg.additional = false ∧
      ∀ t, a.stmts[b]? = some t →
        (∀ j u, min b i < j → j ≤ max b i → a.stmts[j]? = some u → u.row.mnemonic ≠ "ORG") →
        ∃ x y, addrNat s = some x ∧ addrNat t = some y ∧
          -128 ≤ (y : Int) - x - s.pkg.size - exprExtra s4.pkg.additional ∧
          (y : Int) - x - s.pkg.size + exprExtra s4.pkg.additional ≤ 127 := by
  have hch4 := pre.choices
  obtain ⟨hs3, hs4, hrel34, hrel4, _, _, _, _, _⟩ := pre
  have e4 : s.pkg.size = s4.pkg.size ∧ s.pcrHint = s4.pcrHint := by
    obtain ⟨v, rfl⟩ := hrel4; exact ⟨rfl, rfl⟩
  have e3 : s4.pkg.size = s3.pkg.size ∧ s4.pcrHint = s3.pcrHint ∧ s4.pkg.choices = s3.pkg.choices ∧
      s4.pkg.additional = s3.pkg.additional := by
    obtain ⟨v, rfl⟩ := hrel34; exact ⟨rfl, rfl, rfl, rfl⟩
  obtain ⟨_, hfin, _⟩ := pcrLoop_width st.htranslate st.hpcr
  obtain ⟨b, hb1, hb2, hb3, hpos, hback, hfwd⟩ :=
    hfin i s3 hs3 (by rw [← e3.2.2.1]; exact hch4) (by rw [← e3.2.1, ← e4.2]; exact hh)
  refine ⟨b, by rw [e3.2.2.2]; exact hb1, by rw [e3.2.2.2]; exact hb3, ?_⟩
  intro t ht hno
  rw [e3.2.2.2]
  -- sizes of the final list are those of `ss3`
  have hpw : PW (fun s s' : Stmt => s'.pkg.size = s.pkg.size) st.ss3 a.stmts :=
    ((assignAddrs_pw st.haddr).trans (fixAllL_pw st.hfix)
      (T := fun s s' : Stmt => s'.pkg.size = s.pkg.size)
      (by rintro x y z ⟨_, rfl⟩ ⟨_, rfl⟩; rfl))
  have hsum : ∀ lo hi, sumSize a.stmts lo hi = sumSize st.ss3 lo hi := fun lo hi =>
    sumSize_congr hpw lo hi
  have hsz : s.pkg.size = s3.pkg.size := by rw [e4.1, e3.1]
  have hc := st.chained
  obtain ⟨x, hx⟩ := hc.isSome hs
  obtain ⟨y, hy⟩ := hc.isSome ht
  have hflag : ∀ j, min b i < j → j ≤ max b i → (st.ss3.map Stmt.preset)[j]? = some false := by
    intro j h1 h2
    have hlen : j < a.stmts.length := by
      have h3 : i < a.stmts.length := by
        rcases Nat.lt_or_ge i a.stmts.length with h' | h'
        · exact h'
        · rw [List.getElem?_eq_none_iff.mpr h'] at hs; cases hs
      have h4 : b < a.stmts.length := by
        rcases Nat.lt_or_ge b a.stmts.length with h' | h'
        · exact h'
        · rw [List.getElem?_eq_none_iff.mpr h'] at ht; cases ht
      omega
    have hu := List.getElem?_eq_getElem hlen
    exact st.flag_false hu (hno j _ h1 h2 hu)
  refine ⟨x, y, hx, hy, ?_⟩
  by_cases hbi : b ≤ i
  · -- backward (the statement's own label included): x = y + Σ size(b..i-1)
    have htel := hc.telescope hbi ht hs
      (fun j h1 h2 => hflag j (by rw [Nat.min_def]; split <;> omega) (by rw [Nat.max_def]; split <;> omega)) hy
    rw [hx] at htel
    have hxe : x = y + sumSize a.stmts b i := Option.some.inj htel
    have := hback hbi
    rw [hsum] at hxe
    omega
  · -- forward: y = x + size(s) + Σ size(i+1..b-1)
    have hib : i < b := by omega
    have htel := hc.telescope (Nat.le_of_lt hib) hs ht
      (fun j h1 h2 => hflag j (by rw [Nat.min_def]; split <;> omega) (by rw [Nat.max_def]; split <;> omega)) hx
    rw [hy] at htel
    have hye : y = x + sumSize a.stmts i b := Option.some.inj htel
    have hhead := sumSize_head hib hs
    have := hfwd hib
    rw [hsum] at hye
    rw [hsum, hsum] at hhead
    omega

/-! ### what is stored for a statement settled on the 8-bit form -/

theorem Stages.addrIntOf4 {fs : Files} {lines : List Str} {a : Assembly} (st : Stages fs lines a)
    {j : Nat} {t : Stmt} (ht : a.stmts[j]? = some t) : addrIntOf st.ss4 j = addrNat t := by
  obtain ⟨t4, ht4, v, rfl⟩ := (fixAllL_pw st.hfix).get' ht
  unfold addrIntOf addrOf
  rw [ht4]
  rfl

theorem pcrJump_hint2 {s : Stmt} (hh : s.pcrHint = 2) (r start : Nat) :
    pcrJump s r start = ((r : Int) - start - s.pkg.size + 32768) % 65536 - 32768 := by
  unfold pcrJump
  simp [hh]

/-- the signed 16-bit reading of an integer distance -/
def sdist16 (z : Int) : Int := (z + 0x8000) % 0x10000 - 0x8000

theorem pcrDist_eq (s : Stmt) (t x : Nat) : pcrDist s t x = sdist16 ((t : Int) - x - s.pkg.size) := rfl

theorem sdist16_of_range {z : Int} (h1 : -32768 ≤ z) (h2 : z ≤ 32767) : sdist16 z = z := by
  unfold sdist16; omega

theorem sdist16_mod (z : Int) : sdist16 (z % 65536) = sdist16 z := by
  unfold sdist16; omega

theorem sdist16_range (z : Int) : -32768 ≤ sdist16 z ∧ sdist16 z ≤ 32767 ∧ (sdist16 z - z) % 65536 = 0 := by
  unfold sdist16; omega

/-- the range check of `fix_addresses` passed on the 8-bit form: the signed 16-bit distance is a signed byte -/
theorem pcrOut_range {s : Stmt} {t x : Nat} (hh : s.pcrHint = 2) (h : ¬ pcrOut s t x) :
    -128 ≤ pcrDist s t x ∧ pcrDist s t x ≤ 127 := by
  unfold pcrOut at h
  rw [hh] at h
  generalize pcrDist s t x = d at h
  have h24 : (2 : Nat) ≠ 4 := by decide
  by_cases h1 : d < -128
  · exact absurd ⟨h24, Or.inl h1⟩ h
  · by_cases h2 : d > 127
    · exact absurd ⟨h24, Or.inr h2⟩ h
    · omega

/-- the shape of the offset of an 8-bit PCR statement and the signed distance `d` it denotes: a plain label
(`d = y − x − size`) or `label ± c` / `c + label` with a signed numeric constant `c = signedK k nn`
(`d = y + c − x − size`, resp. `d = y − c − x − size`, computed in ℤ without wrap); batch B3: `c − label` (the label on
the RIGHT of a minus sign) denotes `c − y`, nowhere near the label, and `d` is the signed 16-bit reading of the distance
to it (in range because `fix_addresses` checks the range, not because the size loop estimated it) -/
def Dist8 (addl : Value) (x y size : Nat) (d : Int) : Prop :=
  (addl.isAddrExpr = false ∧ d = (y : Int) - x - size) ∨
  (∃ l r op m k hh mm nn, addl = .expr l r op m true ∧ (if l.isAddress then r else l) = .numeric k hh mm nn ∧
    ((op = '+' ∧ d = (y : Int) + signedK k nn - x - size) ∨
     (op = '-' ∧ l.isAddress = true ∧ d = (y : Int) - signedK k nn - x - size) ∨
     (op = '-' ∧ l.isAddress = false ∧ d = sdist16 (signedK k nn - (y : Int) - x - size))))

/-- the instruction table: a row with an indexed op code is neither pseudo nor special, and its indexed base
size is the op code plus one byte (the post byte) -/
def indRowOk (r : Gen.InstrRow) : Bool :=
  match opVal r.ind with
  | .ok v => !r.isPseudo && !r.isSpecial &&
      (match v.hexLen? with | some a => 2 * r.indSz == a + 2 | none => false)
  | .error _ => true

theorem indRowOk_all : ∀ r ∈ Gen.instructions, indRowOk r = true := by decide +kernel

/-- `NumericValue(d, size_hint=2)` for a signed byte -/
theorem numericOfInt_signed {d : Int} {hint : Option Nat} {md : Mode} {v : Value}
    (h : numericOfInt d hint md = .ok v) : ∃ hh mm, v = .numeric d.natAbs hh mm (decide (d < 0)) := by
  unfold numericOfInt at h
  split at h
  · cases h
  · simp only [Except.ok.injEq] at h
    exact ⟨_, _, h.symm⟩

theorem fitInt_natAbs (d : Int) : fitInt d.natAbs (decide (d < 0)) = d := by
  unfold fitInt
  by_cases hd : d < 0
  · simp only [hd, decide_true, if_true]; omega
  · simp only [hd, decide_false, Bool.false_eq_true, if_false]; omega

/-- **the field of the 8-bit PCR form after `fit_operand_width`**: `fix_addresses` stored
`NumericValue(d, size_hint=2)` for a signed byte `d`; the statement is op code + post byte + ONE byte, so
`fit_operand_width` renders the field at two hex digits, a negative `d` in two's complement -/
theorem PcrPre.field8 {fs : Files} {lines : List Str} {a : Assembly} {st : Stages fs lines a}
    {i : Nat} {s s3 s4 : Stmt} (pre : PcrPre st i s s3 s4) (hh : s4.pcrHint = 2) {d : Int} {v : Value}
    (hnum : numericOfInt d (some 2) .none = .ok v) (hfit : fitWidth (withAdditional s4 v) = .ok s) :
    fitWidth (withAdditional s v) = .ok s ∧ -128 ≤ d ∧ d < 256 ∧
      s.pkg.additional = .numeric (d % 256).toNat (some 2) .extended false := by
  have hw : withAdditional s v = withAdditional s4 v := by
    obtain ⟨w, hw⟩ := pre.rel4; rw [hw]; rfl
  obtain ⟨hh', mm, rfl⟩ := numericOfInt_signed hnum
  have htab := indRowOk_all _ pre.row
  unfold indRowOk at htab
  rw [pre.codes.1] at htab
  simp only [Bool.and_eq_true, Bool.not_eq_true'] at htab
  obtain ⟨⟨hp, hsp⟩, hlen⟩ := htab
  have hskip : fitSkipped (withAdditional s4 (.numeric d.natAbs hh' mm (decide (d < 0)))).row = false := by
    show fitSkipped s4.row = false
    unfold fitSkipped; rw [hp, hsp]; rfl
  obtain ⟨a', b', w, ha, hb, hw24, hsz, hlo, hhi, hs⟩ := fitWidth_numeric hfit hskip rfl
  have ha' : s4.pkg.opCode.hexLen? = some a' := ha
  have hb' : s4.pkg.postByte.hexLen? = some b' := hb
  rw [ha'] at hlen
  simp only [beq_iff_eq] at hlen
  rw [pre.codes.2] at hb'
  have hb2 : b' = 2 := (Option.some.inj hb').symm
  have hsz' : 2 * s4.pkg.size = a' + b' + w := hsz
  rw [pre.size8 hh] at hsz'
  have hw2 : w = 2 := by omega
  subst hw2
  rw [fitInt_natAbs] at hs hlo hhi
  have e1 : (2 : Int) ^ (4 * 2) = 256 := by decide
  have e2 : (2 : Int) ^ (4 * 2 - 1) = 128 := by decide
  rw [e1] at hs hhi
  rw [e2] at hlo
  refine ⟨by rw [hw]; exact hfit, hlo, hhi, ?_⟩
  rw [hs]; rfl

/-- the final statement differs from the one that entered `fix_addresses` in `additional` only -/
theorem PcrPre.same {fs : Files} {lines : List Str} {a : Assembly} {st : Stages fs lines a}
    {i : Nat} {s s3 s4 : Stmt} (pre : PcrPre st i s s3 s4) :
    s.pcrHint = s4.pcrHint ∧ s.pkg.size = s4.pkg.size ∧ (∀ v, withAdditional s v = withAdditional s4 v) ∧
      (∀ t x, pcrJump s t x = pcrJump s4 t x) ∧ s.operand = s4.operand := by
  obtain ⟨w, hw⟩ := pre.rel4
  rw [hw]
  exact ⟨rfl, rfl, fun _ => rfl, fun _ _ => rfl, rfl⟩

/-- **width of the 8-bit PCR form**: for a PCR statement `s` of an accepted program settled on the 8-bit form,
with no ORG between it and the statement `t` its operand names, the signed distance `d` from the end of `s` to
the target (`address(t)`, `address(t) + k` or `address(t) − k`, computed in ℤ without wrap) lies in `−128 .. 127`;
`fix_addresses` computes `NumericValue(d, size_hint=2)`, `fit_operand_width` accepts it, and the final field is
the two's complement byte of `d` -/
theorem Stages.pcr8_stored {fs : Files} {lines : List Str} {a : Assembly} (st : Stages fs lines a)
    {i : Nat} {s s3 s4 : Stmt} (hs : a.stmts[i]? = some s) (hh : s.pcrHint = 2)
    (pre : PcrPre st i s s3 s4) :
    ∃ b, relIndex s4.pkg.additional = some b ∧ exprForces s4.pkg.additional = false ∧
      ∀ t, a.stmts[b]? = some t →
        (∀ j u, min b i < j → j ≤ max b i → a.stmts[j]? = some u → u.row.mnemonic ≠ "ORG") →
        ∃ x y v, ∃ d : Int, addrNat s = some x ∧ addrNat t = some y ∧ -128 ≤ d ∧ d ≤ 127 ∧
          numericOfInt d (some 2) .none = .ok v ∧ fitWidth (withAdditional s v) = .ok s ∧
          s.pkg.additional = .numeric (d % 256).toNat (some 2) .extended false ∧
          Dist8 s4.pkg.additional x y s.pkg.size d := by
  obtain ⟨b, hb, hf, hdist⟩ := st.pcr8_dist hs hh pre
  refine ⟨b, hb, hf, ?_⟩
  intro t ht hno
  obtain ⟨x, y, hx, hy, hlo, hhi⟩ := hdist t ht hno
  obtain ⟨target, start, v, htgt, hstart, hnum, hsv, hin⟩ := pre.stored
  have hstart' : start = x := by
    rw [st.addrIntOf4 hs, hx] at hstart; exact (Option.some.inj hstart).symm
  subst hstart'
  have e4 : s.pcrHint = s4.pcrHint ∧ s.pkg.size = s4.pkg.size := by
    obtain ⟨w, hw⟩ := pre.rel4; rw [hw]; exact ⟨rfl, rfl⟩
  have hh4 : s4.pcrHint = 2 := by rw [← e4.1]; exact hh
  have hsz : s.pkg.size = s4.pkg.size := e4.2
  rw [pcrJump_hint2 hh4, hh4] at hnum
  rw [hsz] at hlo hhi ⊢
  cases he : s4.pkg.additional.isAddrExpr with
  | false =>
    have hy' := fixRel_target_plain he hb htgt
    rw [st.addrIntOf4 ht, hy] at hy'
    have : y = target := Option.some.inj hy'
    subst this
    rw [exprExtra_plain he] at hlo hhi
    have hd : ((y : Int) - start - s4.pkg.size + 32768) % 65536 - 32768 = (y : Int) - start - s4.pkg.size := by
      omega
    rw [hd] at hnum
    obtain ⟨f1, _, _, f2⟩ := pre.field8 hh4 hnum hsv
    exact ⟨start, y, v, _, hx, hy, by omega, by omega, hnum, f1, f2, .inl ⟨he, rfl⟩⟩
  | true =>
    cases hav : s4.pkg.additional with
    | expr l r op m ae =>
      cases ae with
      | false => rw [hav] at he; simp [Value.isAddrExpr] at he
      | true =>
        obtain ⟨y', k, hk1, hk2, hk3, hy', hoth, hx', hcase⟩ :=
          fixRel_target_expr pre.idx hav (pre.lr _ _ _ _ hav) hf hb htgt
        rw [st.addrIntOf4 ht, hy] at hy'
        have : y = y' := Option.some.inj hy'
        subst this
        rw [hx'] at hlo hhi
        have hkb := signedK_bound k hk3
        rcases hcase with ⟨rfl, htg⟩ | ⟨rfl, hla, htg⟩ | ⟨rfl, hla, htg⟩
        · have hd : ((target : Int) - start - s4.pkg.size + 32768) % 65536 - 32768 =
              (y : Int) + signedK k hk3 - start - s4.pkg.size := by omega
          rw [hd] at hnum
          obtain ⟨f1, _, _, f2⟩ := pre.field8 hh4 hnum hsv
          exact ⟨start, y, v, _, hx, hy, by omega, by omega, hnum, f1, f2,
            .inr ⟨l, r, '+', m, k, hk1, hk2, hk3, rfl, hoth, .inl ⟨rfl, rfl⟩⟩⟩
        · have hd : ((target : Int) - start - s4.pkg.size + 32768) % 65536 - 32768 =
              (y : Int) - signedK k hk3 - start - s4.pkg.size := by omega
          rw [hd] at hnum
          obtain ⟨f1, _, _, f2⟩ := pre.field8 hh4 hnum hsv
          exact ⟨start, y, v, _, hx, hy, by omega, by omega, hnum, f1, f2,
            .inr ⟨l, r, '-', m, k, hk1, hk2, hk3, rfl, hoth, .inr (.inl ⟨rfl, hla, rfl⟩)⟩⟩
        · -- `c − label`: the range comes from the check of `fix_addresses`
          obtain ⟨r1, r2⟩ := pcrOut_range hh4 hin
          rw [pcrDist_eq] at r1 r2
          have hd : ((target : Int) - start - s4.pkg.size + 32768) % 65536 - 32768 =
              sdist16 (signedK k hk3 - (y : Int) - start - s4.pkg.size) := by
            unfold sdist16; omega
          have hd' : sdist16 ((target : Int) - start - s4.pkg.size) =
              sdist16 (signedK k hk3 - (y : Int) - start - s4.pkg.size) := by
            unfold sdist16; omega
          rw [hd] at hnum
          rw [hd'] at r1 r2
          obtain ⟨f1, _, _, f2⟩ := pre.field8 hh4 hnum hsv
          exact ⟨start, y, v, _, hx, hy, r1, r2, hnum, f1, f2,
            .inr ⟨l, r, '-', m, k, hk1, hk2, hk3, rfl, hoth, .inr (.inr ⟨rfl, hla, rfl⟩)⟩⟩
    | _ => rw [hav] at he; simp [Value.isAddrExpr] at he

/-! ### batch B2: the 8-bit form is range-checked by `fix_addresses` itself (ORG or not) -/

theorem pcrDist_same {fs : Files} {lines : List Str} {a : Assembly} {st : Stages fs lines a}
    {i : Nat} {s s3 s4 : Stmt} (pre : PcrPre st i s s3 s4) (t x : Nat) : pcrDist s t x = pcrDist s4 t x := by
  unfold pcrDist; rw [pre.same.2.1]

/-- an address looked up in the list that enters `fix_addresses` is the address of the final statement -/
theorem Stages.addrIntOf4_some {fs : Files} {lines : List Str} {a : Assembly} (st : Stages fs lines a)
    {j y : Nat} (h : addrIntOf st.ss4 j = some y) : ∃ t, a.stmts[j]? = some t ∧ addrNat t = some y := by
  cases h4 : st.ss4[j]? with
  | none => simp [addrIntOf, addrOf, h4] at h
  | some t4 =>
    obtain ⟨t, ht, _⟩ := (fixAllL_pw st.hfix).get h4
    exact ⟨t, ht, by rw [← st.addrIntOf4 ht]; exact h⟩

/-- **the 8-bit PCR form, for EVERY accepted program** (no hypothesis on ORGs): `fix_addresses` computed the target
(`fixRel`), the signed 16-bit distance `d = pcrDist` from the end of the statement to it lies in `−128 .. 127`
(otherwise the program is rejected: "out of range of the 8-bit offset"), and the final field is the two's complement
byte of `d` -/
theorem Stages.pcr8_any {fs : Files} {lines : List Str} {a : Assembly} (st : Stages fs lines a)
    {i : Nat} {s s3 s4 : Stmt} (hs : a.stmts[i]? = some s) (hh : s.pcrHint = 2) (pre : PcrPre st i s s3 s4) :
    ∃ target x v, fixRel st.ss4 s4 = .ok target ∧ addrNat s = some x ∧
      -128 ≤ pcrDist s target x ∧ pcrDist s target x ≤ 127 ∧
      numericOfInt (pcrDist s target x) (some 2) .none = .ok v ∧ fitWidth (withAdditional s v) = .ok s ∧
      s.pkg.additional = .numeric (pcrDist s target x % 256).toNat (some 2) .extended false := by
  obtain ⟨target, start, v, htgt, hstart, hnum, hsv, hin⟩ := pre.stored
  have hx : addrNat s = some start := by rw [← st.addrIntOf4 hs]; exact hstart
  have hh4 : s4.pcrHint = 2 := by rw [← pre.same.1]; exact hh
  have hd : pcrJump s4 target start = pcrDist s4 target start := by rw [pcrJump_hint2 hh4]; rfl
  rw [hd, hh4] at hnum
  have hr : -128 ≤ pcrDist s4 target start ∧ pcrDist s4 target start ≤ 127 := pcrOut_range hh4 hin
  obtain ⟨f1, _, _, f2⟩ := pre.field8 hh4 hnum hsv
  refine ⟨target, start, v, htgt, hx, ?_⟩
  rw [pcrDist_same pre]
  exact ⟨hr.1, hr.2, hnum, f1, f2⟩

/-- the target of a PCR statement in terms of the final statements: the address `y` of the statement `t` the
operand names; `(y + c) mod 65536` for `label + c` and `c + label`, `(y − c) mod 65536` for `label − c`, and (batch B3)
`(c − y) mod 65536` for `c − label` (`c = signedK k nn` the signed constant).  Batch B3: no exception for a negative
sum any more (`calculate_address_offset` reduces a result below zero modulo 65536 for every operator) -/
def Target8 (addl : Value) (y target : Nat) : Prop :=
  (addl.isAddrExpr = false ∧ target = y) ∨
  (∃ l r op m k hh mm nn, addl = .expr l r op m true ∧ (if l.isAddress then r else l) = .numeric k hh mm nn ∧
    ((op = '+' ∧ (target : Int) = ((y : Int) + signedK k nn) % 65536) ∨
     (op = '-' ∧ l.isAddress = true ∧ (target : Int) = ((y : Int) - signedK k nn) % 65536) ∨
     (op = '-' ∧ l.isAddress = false ∧ (target : Int) = (signedK k nn - (y : Int)) % 65536)))

/-- **the 8-bit PCR form of every accepted program, with the target spelt out**: the operand names a statement
`b` (`relIndex`), is a plain label or `label ± number`, `b` exists with address `y`, and the field is the two's
complement byte of the signed 16-bit distance `d` from the end of `s` to the target (`Target8`), `−128 ≤ d ≤ 127` -/
theorem Stages.pcr8_any_target {fs : Files} {lines : List Str} {a : Assembly} (st : Stages fs lines a)
    {i : Nat} {s s3 s4 : Stmt} (hs : a.stmts[i]? = some s) (hh : s.pcrHint = 2)
    (pre : PcrPre st i s s3 s4) :
    ∃ b t x y target v, relIndex s4.pkg.additional = some b ∧ exprForces s4.pkg.additional = false ∧
      a.stmts[b]? = some t ∧ addrNat s = some x ∧ addrNat t = some y ∧ Target8 s4.pkg.additional y target ∧
      -128 ≤ sdist16 ((target : Int) - x - s.pkg.size) ∧ sdist16 ((target : Int) - x - s.pkg.size) ≤ 127 ∧
      numericOfInt (sdist16 ((target : Int) - x - s.pkg.size)) (some 2) .none = .ok v ∧
      fitWidth (withAdditional s v) = .ok s ∧
      s.pkg.additional = .numeric (sdist16 ((target : Int) - x - s.pkg.size) % 256).toNat (some 2) .extended false := by
  obtain ⟨b, hb, hf, _⟩ := st.pcr8_dist hs hh pre
  obtain ⟨target, x, v, htgt, hx, hlo, hhi, hnum, hfit, hadd⟩ := st.pcr8_any hs hh pre
  rw [pcrDist_eq] at hlo hhi hnum hadd
  cases he : s4.pkg.additional.isAddrExpr with
  | false =>
    have hy' := fixRel_target_plain he hb htgt
    obtain ⟨t, ht, hy⟩ := st.addrIntOf4_some hy'
    exact ⟨b, t, x, target, target, v, hb, hf, ht, hx, hy, .inl ⟨he, rfl⟩, hlo, hhi, hnum, hfit, hadd⟩
  | true =>
    cases hav : s4.pkg.additional with
    | expr l r op m ae =>
      cases ae with
      | false => rw [hav] at he; simp [Value.isAddrExpr] at he
      | true =>
        obtain ⟨y, k, hk1, hk2, hk3, hy', hoth, _, hcase⟩ :=
          fixRel_target_expr pre.idx hav (pre.lr _ _ _ _ hav) hf hb htgt
        obtain ⟨t, ht, hy⟩ := st.addrIntOf4_some hy'
        rw [← hav]
        exact ⟨b, t, x, y, target, v, hb, hf, ht, hx, hy,
          .inr ⟨l, r, op, m, k, hk1, hk2, hk3, hav, hoth, hcase⟩, hlo, hhi, hnum, hfit, hadd⟩
    | _ => rw [hav] at he; simp [Value.isAddrExpr] at he

/-! ### batch B3: the field of EVERY PCR statement (8-bit or 16-bit form), with the target spelt out -/

/-- the stored field of a PCR statement `s` that aims at the address `target`: `fix_addresses` computes
`NumericValue(pcrJump, size_hint = pcrHint)`, `pcrJump` the signed 16-bit distance from the end of `s` to `target`
(reduced modulo 65536 on the 16-bit form), `fit_operand_width` accepts it, and on the 8-bit form the distance is a
signed byte -/
def PcrFieldAt (s : Stmt) (target : Nat) : Prop :=
  ∃ x v, addrNat s = some x ∧
    numericOfInt (pcrJump s target x) (some s.pcrHint) .none = .ok v ∧ fitWidth (withAdditional s v) = .ok s ∧
    (s.pcrHint = 2 → -128 ≤ pcrJump s target x ∧ pcrJump s target x ≤ 127)

/-- every PCR statement of an accepted program, either width: the field aims at what `fixRel` computed -/
theorem Stages.pcr_field {fs : Files} {lines : List Str} {a : Assembly} (st : Stages fs lines a)
    {i : Nat} {s s3 s4 : Stmt} (hs : a.stmts[i]? = some s) (pre : PcrPre st i s s3 s4) :
    ∃ target, fixRel st.ss4 s4 = .ok target ∧ PcrFieldAt s target := by
  obtain ⟨target, start, v, htgt, hstart, hnum, hsv, hin⟩ := pre.stored
  have hx : addrNat s = some start := by rw [← st.addrIntOf4 hs]; exact hstart
  obtain ⟨hhint, _, hwa, hj', _⟩ := pre.same
  refine ⟨target, htgt, start, v, hx, by rw [hj', hhint]; exact hnum, by rw [hwa]; exact hsv, ?_⟩
  intro hh
  have hh4 : s4.pcrHint = 2 := by rw [← hhint]; exact hh
  obtain ⟨r1, r2⟩ := pcrOut_range hh4 hin
  rw [hj', pcrJump_hint2 hh4]
  exact ⟨r1, r2⟩

/-- the target `fix_addresses` computes for a plain label or `label ± number` / `number ± label` (`exprForces = false`),
in terms of the final statements (`Target8`); either width -/
theorem Stages.fixRel_target8 {fs : Files} {lines : List Str} {a : Assembly} (st : Stages fs lines a)
    {s4 : Stmt} {target : Nat}
    (hidx : (s4.operand.kind == .indexed || s4.operand.kind == .extIndirect) = true)
    (hlr' : ∀ l r op m, s4.pkg.additional = .expr l r op m true → l.isAddress = true ∨ r.isAddress = true)
    (htgt : fixRel st.ss4 s4 = .ok target) (hf : exprForces s4.pkg.additional = false) :
    ∃ b t y, relIndex s4.pkg.additional = some b ∧ a.stmts[b]? = some t ∧ addrNat t = some y ∧
      Target8 s4.pkg.additional y target := by
  cases he : s4.pkg.additional.isAddrExpr with
  | false =>
    cases hi : s4.pkg.additional.int? with
    | none =>
      exfalso
      unfold fixRel at htgt
      dsimp only at htgt
      split at htgt
      · rename_i e _ heq
        split at heq
        · rename_i h2; rw [h2] at he; simp [Value.isAddrExpr] at he
        · cases heq
      · rw [hi] at htgt; cases htgt
    | some b =>
      have hb : relIndex s4.pkg.additional = some b := by rw [relIndex_plain he]; exact hi
      have hy' := fixRel_target_plain he hb htgt
      obtain ⟨t, ht, hy⟩ := st.addrIntOf4_some hy'
      exact ⟨b, t, target, hb, ht, hy, .inl ⟨he, rfl⟩⟩
  | true =>
    cases hav : s4.pkg.additional with
    | expr l r op m ae =>
      cases ae with
      | false => rw [hav] at he; simp [Value.isAddrExpr] at he
      | true =>
        have hlr := hlr' _ _ _ _ hav
        have hb : ∃ b, relIndex s4.pkg.additional = some b := by
          rw [hav]
          show ∃ b, (if l.isAddress = true then l.int? else r.int?) = some b
          by_cases hl : l.isAddress = true
          · rw [if_pos hl]; cases l <;> simp [Value.isAddress] at hl; exact ⟨_, rfl⟩
          · rw [if_neg hl]
            have hr : r.isAddress = true := by rcases hlr with h | h; exact absurd h hl; exact h
            cases r <;> simp [Value.isAddress] at hr; exact ⟨_, rfl⟩
        obtain ⟨b, hb⟩ := hb
        obtain ⟨y, k, hk1, hk2, hk3, hy', hoth, _, hcase⟩ := fixRel_target_expr hidx hav hlr hf hb htgt
        obtain ⟨t, ht, hy⟩ := st.addrIntOf4_some hy'
        rw [← hav]
        exact ⟨b, t, y, hb, ht, hy, .inr ⟨l, r, op, m, k, hk1, hk2, hk3, hav, hoth, hcase⟩⟩
    | _ => rw [hav] at he; simp [Value.isAddrExpr] at he

theorem PcrPre.target {fs : Files} {lines : List Str} {a : Assembly} {st : Stages fs lines a}
    {i : Nat} {s s3 s4 : Stmt} (pre : PcrPre st i s s3 s4) {target : Nat}
    (htgt : fixRel st.ss4 s4 = .ok target) (hf : exprForces s4.pkg.additional = false) :
    ∃ b t y, relIndex s4.pkg.additional = some b ∧ a.stmts[b]? = some t ∧ addrNat t = some y ∧
      Target8 s4.pkg.additional y target :=
  st.fixRel_target8 pre.idx pre.lr htgt hf

/-! ### batch B3: the label offset of a pointer register (`needsRes` without post byte choices) -/

/-- what is known of a final label-offset statement `s` (index `i`) of an accepted program -/
structure AbsPre {fs : Files} {lines : List Str} {a : Assembly} (st : Stages fs lines a) (i : Nat) (s s4 : Stmt) :
    Prop where
  h4 : st.ss4[i]? = some s4
  rel4 : SameButAdditional s4 s
  idx : (s4.operand.kind == .indexed || s4.operand.kind == .extIndirect) = true
  left : LeftOK s4.operand s4.pkg
  needs : s4.pkg.needsRes = true
  /-- an address expression has a label on one side -/
  lr : ∀ l r op m, s4.pkg.additional = .expr l r op m true → l.isAddress = true ∨ r.isAddress = true
  /-- `fix_addresses` stores the target ADDRESS in the 16-bit offset field, `fit_operand_width` accepts it -/
  stored : ∃ target v, fixRel st.ss4 s4 = .ok target ∧ numericOfInt (target : Int) (some 4) .none = .ok v ∧
      fitWidth (withAdditional s4 v) = .ok s

theorem Stages.abs_pre {fs : Files} {lines : List Str} {a : Assembly} (st : Stages fs lines a)
    {i : Nat} {s : Stmt} (hs : a.stmts[i]? = some s) (hn : s.pkg.needsRes = true) (hc : s.pkg.choices = []) :
    ∃ s4, AbsPre st i s s4 := by
  obtain ⟨s4, hs4, hsame⟩ := (fixAllL_pw st.hfix).get' hs
  -- (batch 8) `fixAll`, then the pass over the FCB / FDB lists: `sw` is the statement between the two
  obtain ⟨x5, hx5, hl5⟩ := st.fix_split
  obtain ⟨sw, hsw, hlist⟩ := evalLists_get hl5 hs
  obtain ⟨s1, s', hs', hfix, hfit⟩ := (fixAll_ok2 hx5).2 i s4 hs4
  rw [hsw] at hs'; cases hs'
  rw [Nat.zero_add] at hfix
  obtain ⟨s3, hs3, hrel34⟩ := (assignAddrs_pw st.haddr).get' hs4
  obtain ⟨s2, hs2, hrel23⟩ := (pcrLoop_pw _ _ st.hpcr).get' hs3
  have hpar := expand_parsed st.hparse st.hexpand
  obtain ⟨_, hlen2, hall2⟩ := translated_good hpar st.hsym st.hresolve st.htranslate
  obtain ⟨_, hok3⟩ := pcrLoop_good (st.ss2.length + 1) st.ss2 hlen2 hall2
  obtain ⟨_, hfix3, hall3⟩ := hok3 st.ss3 st.hpcr
  have hok : StmtOK st.ss0.length s3 := hall3 s3 (List.mem_of_getElem? hs3)
  have hn4 : s4.pkg.needsRes = true := by obtain ⟨v, rfl⟩ := hsame; exact hn
  have hc4 : s4.pkg.choices = [] := by obtain ⟨v, rfl⟩ := hsame; exact hc
  have hn3 : s3.pkg.needsRes = true := by obtain ⟨v, rfl⟩ := hrel34; exact hn4
  obtain ⟨hlr, hkind⟩ := hok.needs hn3
  have hgood3 := (hok.addl hn3).1
  have hleft2 := (translateAll_winv st.htranslate i s2 hs2).2.2
  have hop4 : s4.operand = s3.operand := by obtain ⟨v, rfl⟩ := hrel34; rfl
  have hpk4 : s4.pkg.additional = s3.pkg.additional := by obtain ⟨v, rfl⟩ := hrel34; rfl
  have h23 : s3.operand = s2.operand ∧ s3.pkg.additional = s2.pkg.additional ∧ s3.pkg.needsRes = s2.pkg.needsRes := by
    obtain ⟨_, _, _, _, _, rfl⟩ := hrel23; exact ⟨rfl, rfl, rfl⟩
  have hleft4 : LeftOK s4.operand s4.pkg := by
    intro _ v hv
    rw [hpk4, h23.2.1]
    exact hleft2 (by rw [← h23.2.2]; exact hn3) v (by rw [← h23.1, ← hop4]; exact hv)
  have hidx : (s4.operand.kind == .indexed || s4.operand.kind == .extIndirect) = true := by
    rw [hop4]; rcases hkind with h | h <;> simp [h]
  have hk : (s4.operand.kind == .relative) = false := by
    rw [hop4]; rcases hkind with h | h <;> simp [h]
  have hval : s4.operand.value.isLeftRight = true := by rw [hop4]; exact hlr
  have hv1 : s4.operand.value.isAddrExpr = false := by
    cases hv : s4.operand.value <;> rw [hv] at hval <;> first | rfl | cases hval
  have hv2 : s4.operand.value.isAddress = false := by
    cases hv : s4.operand.value <;> rw [hv] at hval <;> first | rfl | cases hval
  have hv3 : s4.operand.value ≠ .pyNone := by
    intro hv; rw [hv] at hval; cases hval
  rw [fixOne_nonrel st.ss4 i s4 hk hv3] at hfix
  have h1 : fixStep1 st.ss4 s4 = .ok s4 := by unfold fixStep1; simp [hv1]
  have h2 : fixStep2 st.ss4 s4.operand.value s4 = .ok s4 := by unfold fixStep2; simp [hv2]
  rw [h1] at hfix
  simp only [Outcome.bind] at hfix
  rw [h2] at hfix
  obtain ⟨target, v, q1, q2, rfl⟩ := fixStep3_abs hn4 (by rw [hc4]; rfl) hfix
  -- (batch 8) the stored field is a number: the list pass leaves the statement alone
  have hsw' : sw = s := by
    have hnum := fitWidth_isNumeric hfit
      (show (withAdditional s4 v).pkg.additional.isNumeric = true from EL.numericOfInt_isNumeric q2)
    have := hlist
    rw [evalList1_numeric _ _ hnum] at this
    exact Outcome.ok.inj this
  subst hsw'
  have hlr4 : ∀ l r op m, s4.pkg.additional = .expr l r op m true → l.isAddress = true ∨ r.isAddress = true := by
    intro l r op m he
    rw [hpk4] at he
    rw [he] at hgood3
    exact hgood3.2.2 rfl
  exact ⟨s4, hs4, hsame, hidx, hleft4, hn4, hlr4, target, v, q1, q2, hfit⟩

/-- the final 16-bit field of a label-offset statement is the target itself: `fit_operand_width` leaves a number in
`0 .. 65535` as it is when it renders it at four hex digits -/
theorem fitWidth_abs_field {s4 s : Stmt} {t n : Nat} {h : Option Nat} {m md : Mode}
    (hfit : fitWidth (withAdditional s4 (.numeric t h m false)) = .ok s) (ht : t ≤ 65535)
    (hadd : s.pkg.additional = .numeric n (some 4) md false) : n = t := by
  cases hsk : fitSkipped s4.row with
  | true =>
    unfold fitWidth at hfit
    unfold fitSkipped at hsk
    rw [if_pos (by simpa [withAdditional] using hsk)] at hfit
    cases hfit
    have : Value.numeric t h m false = .numeric n (some 4) md false := hadd
    cases this; rfl
  | false =>
    obtain ⟨a', b', w, _, _, hw24, _, _, _, hs⟩ := fitWidth_numeric hfit (by exact hsk) rfl
    rw [hs] at hadd
    have hadd' : Value.numeric (fitInt t false % (2 : Int) ^ (4 * w)).toNat (some w) .extended false =
        .numeric n (some 4) md false := hadd
    have hw : w = 4 := by
      have := congrArg (fun v => match v with | Value.numeric _ hh _ _ => hh | _ => none) hadd'
      simpa using this
    subst hw
    have hn : (fitInt t false % (2 : Int) ^ (4 * 4)).toNat = n := by
      have := congrArg (fun v => match v with | Value.numeric k _ _ _ => k | _ => 0) hadd'
      simpa using this
    rw [← hn]
    have e1 : (2 : Int) ^ (4 * 4) = 65536 := by decide
    rw [e1]
    unfold fitInt
    simp only [Bool.false_eq_true, if_false]
    omega

end CoCo.Asm
