/-
Lemmas/OrgFirst.lean — batch 5 (fix f9c374f, finding B1): the check `orgOK` made in the address loop, and what it
gives for an accepted program: every statement before an ORG emits nothing and carries no address label; hence after a
statement that emits bytes or carries an address label there is no ORG (`no_org_after_laid`).
Also: where the statement indices inside operands come from (`Stages.address_entry`: the symbol table binds
`.address b` only to a labelled statement that is not an EQU), the value of `Assembly.origin` (the address of the last
ORG), and "the last index with a property".
-/
import CoCoVerif.Lemmas.LayoutEmit

namespace CoCo.Asm
open CoCo
open CoCo.Gen (InstrRow)

/-! ### `orgOK` -/

/-- the statement emits bytes or carries a label that stands for an address -/
def Stmt.lays (s : Stmt) : Bool := decide (0 < s.pkg.size) || (!s.label.isEmpty && !s.row.isPseudoDefine)

theorem orgOK_cons (s : Stmt) (rest : List Stmt) (laid : Bool) :
    orgOK (s :: rest) laid = (!(s.row.isOrigin && laid) && orgOK rest (laid || s.lays)) := by
  rw [orgOK]
  unfold Stmt.lays
  rw [Bool.or_assoc]

/-- once something is laid no ORG follows -/
theorem orgOK_laid {ss : List Stmt} (h : orgOK ss true = true) {k : Nat} {s : Stmt} (hs : ss[k]? = some s) :
    s.row.isOrigin = false := by
  induction ss generalizing k with
  | nil => simp at hs
  | cons s0 rest ih =>
    rw [orgOK_cons] at h
    simp only [Bool.and_true, Bool.true_or, Bool.and_eq_true, Bool.not_eq_true'] at h
    cases k with
    | zero => simp at hs; subst hs; exact h.1
    | succ k => simp at hs; exact ih h.2 hs

/-- a statement that comes before an ORG lays nothing -/
theorem orgOK_before {ss : List Stmt} {laid : Bool} (h : orgOK ss laid = true) {j k : Nat} {sj sk : Stmt}
    (hjk : j < k) (hj : ss[j]? = some sj) (hk : ss[k]? = some sk) (ho : sk.row.isOrigin = true) :
    sj.lays = false := by
  induction ss generalizing laid j k with
  | nil => simp at hj
  | cons s0 rest ih =>
    rw [orgOK_cons] at h
    simp only [Bool.and_eq_true] at h
    cases k with
    | zero => omega
    | succ k =>
      simp at hk
      cases j with
      | zero =>
        simp at hj; subst hj
        cases hl : s0.lays with
        | false => rfl
        | true =>
          rw [hl, Bool.or_true] at h
          have := orgOK_laid h.2 hk
          rw [ho] at this; cases this
      | succ j =>
        simp at hj
        exact ih h.2 (by omega) hj hk

theorem Stmt.lays_false {s : Stmt} (h : s.lays = false) :
    s.pkg.size = 0 ∧ (s.label.isEmpty = true ∨ s.row.isPseudoDefine = true) := by
  unfold Stmt.lays at h
  simp only [Bool.or_eq_false_iff, decide_eq_false_iff_not, Bool.and_eq_false_iff, Bool.not_eq_false'] at h
  exact ⟨by omega, h.2⟩

/-- `orgOK ss false = true`, spelt out: a statement that comes before an ORG row has size 0 and carries no address label -/
theorem orgOK_spec {ss : List Stmt} (h : orgOK ss false = true) {j k : Nat} {sj sk : Stmt}
    (hjk : j < k) (hj : ss[j]? = some sj) (hk : ss[k]? = some sk) (ho : sk.row.isOrigin = true) :
    sj.pkg.size = 0 ∧ (sj.label.isEmpty = true ∨ sj.row.isPseudoDefine = true) :=
  Stmt.lays_false (orgOK_before h hjk hj hk ho)

/-! ### the instruction table: the ORG row -/

theorem table_isOrigin : ∀ r ∈ Gen.instructions, (r.isOrigin == (r.mnemonic == "ORG")) = true := by decide +kernel

theorem isOrigin_iff {r : InstrRow} (h : r ∈ Gen.instructions) : r.isOrigin = true ↔ r.mnemonic = "ORG" := by
  have := table_isOrigin r h
  simp only [beq_iff_eq] at this
  rw [this]
  simp

/-- an EQU-like row is a pseudo row -/
theorem table_pseudoDefine_pseudo : ∀ r ∈ Gen.instructions, r.isPseudoDefine = true → r.isPseudo = true := by
  decide +kernel

/-! ### transfer to the final statements -/

/-- label, row and size are those of `s` -/
def LayRel (s s' : Stmt) : Prop := s'.label = s.label ∧ s'.row = s.row ∧ s'.pkg.size = s.pkg.size

theorem LayRel.trans {a b c : Stmt} (h1 : LayRel a b) (h2 : LayRel b c) : LayRel a c :=
  ⟨h2.1.trans h1.1, h2.2.1.trans h1.2.1, h2.2.2.trans h1.2.2⟩

namespace Stages
variable {fs : Files} {lines : List Str} {a : Assembly}

theorem lay35 (st : Stages fs lines a) : PW LayRel st.ss3 a.stmts := by
  have h34 : PW LayRel st.ss3 st.ss4 :=
    (assignAddrs_pw st.haddr).mono (by rintro s s' ⟨_, rfl⟩; exact ⟨rfl, rfl, rfl⟩)
  have h45 : PW LayRel st.ss4 a.stmts :=
    (fixAllL_pw st.hfix).mono (by rintro s s' ⟨_, rfl⟩; exact ⟨rfl, rfl, rfl⟩)
  exact h34.trans h45 (fun _ _ _ => LayRel.trans)

/-- **an ORG comes before the first label and the first byte**: in an accepted program, a statement that comes before
an ORG has size 0 and carries no address label -/
theorem org_before (st : Stages fs lines a) {j k : Nat} {sj sk : Stmt} (hjk : j < k)
    (hj : a.stmts[j]? = some sj) (hk : a.stmts[k]? = some sk) (ho : sk.row.isOrigin = true) :
    sj.pkg.size = 0 ∧ (sj.label.isEmpty = true ∨ sj.row.isPseudoDefine = true) := by
  obtain ⟨tj, htj, hrj⟩ := st.lay35.get' hj
  obtain ⟨tk, htk, hrk⟩ := st.lay35.get' hk
  have hl := orgOK_before st.horg hjk htj htk (by rw [← hrk.2.1]; exact ho)
  obtain ⟨h1, h2⟩ := Stmt.lays_false hl
  rw [hrj.1, hrj.2.1, hrj.2.2]
  exact ⟨h1, h2⟩

theorem isOrigin_iff (st : Stages fs lines a) {k : Nat} {s : Stmt} (hs : a.stmts[k]? = some s) :
    s.row.isOrigin = true ↔ s.row.mnemonic = "ORG" :=
  CoCo.Asm.isOrigin_iff (st.row_mem hs)

end Stages

/-- in an accepted program, a statement that comes before an ORG has size 0 and carries no address label -/
theorem org_before_laid {fs : Files} {lines : List Str} {a : Assembly} (h : assemble fs lines = .ok a)
    {j k : Nat} {sj sk : Stmt} (hjk : j < k) (hj : a.stmts[j]? = some sj) (hk : a.stmts[k]? = some sk)
    (ho : sk.row.mnemonic = "ORG") :
    sj.pkg.size = 0 ∧ (sj.label.isEmpty = true ∨ sj.row.isPseudoDefine = true) := by
  obtain ⟨st⟩ := assemble_stages h
  exact st.org_before hjk hj hk ((st.isOrigin_iff hk).2 ho)

/-- **main corollary**: in an accepted program, after a statement that emits bytes (`size > 0`) or carries an address
label (a label, on a statement that is not an EQU) there is no ORG -/
theorem no_org_after_laid {fs : Files} {lines : List Str} {a : Assembly} (h : assemble fs lines = .ok a)
    {j : Nat} {s : Stmt} (hs : a.stmts[j]? = some s)
    (hl : 0 < s.pkg.size ∨ (s.label.isEmpty = false ∧ s.row.isPseudoDefine = false)) :
    ∀ k u, j < k → a.stmts[k]? = some u → u.row.mnemonic ≠ "ORG" := by
  intro k u hjk hu ho
  obtain ⟨h1, h2⟩ := org_before_laid h hjk hs hu ho
  rcases hl with hl | ⟨hl1, hl2⟩
  · omega
  · rcases h2 with h2 | h2
    · rw [hl1] at h2; cases h2
    · rw [hl2] at h2; cases h2

/-! ### statement indices inside operands name statements that carry an address label -/

/-- an `.address` entry among the entries `buildSymTab` makes was made for a labelled statement that is not an EQU
(the operand values of parsed statements are never addresses) -/
theorem symEntries_address {ss : List Stmt} (hna : ∀ s ∈ ss, s.operand.value.isAddress = false) {i0 : Nat}
    {k : Str} {i : Nat} {m : Mode} (h : (k, Value.address i m) ∈ symEntries ss i0) :
    ∃ j s, i = i0 + j ∧ ss[j]? = some s ∧ s.label.isEmpty = false ∧ s.row.isPseudoDefine = false := by
  induction ss generalizing i0 with
  | nil => simp [symEntries] at h
  | cons s0 rest ih =>
    have hna' : ∀ s ∈ rest, s.operand.value.isAddress = false := fun s hs => hna s (by simp [hs])
    have step : (k, Value.address i m) ∈ symEntries rest (i0 + 1) →
        ∃ j s, i = i0 + j ∧ (s0 :: rest)[j]? = some s ∧ s.label.isEmpty = false ∧ s.row.isPseudoDefine = false := by
      intro h'
      obtain ⟨j, s, e, hs, h1, h2⟩ := ih hna' h'
      exact ⟨j + 1, s, by omega, by simpa using hs, h1, h2⟩
    unfold symEntries at h
    split at h
    · exact step h
    · rename_i he
      rcases List.mem_cons.mp h with h | h
      · simp only [Prod.mk.injEq] at h
        obtain ⟨_, hv⟩ := h
        cases hp : s0.row.isPseudoDefine with
        | true =>
          rw [hp] at hv
          simp only [if_true] at hv
          have := hna s0 (by simp)
          rw [← hv] at this; cases this
        | false =>
          rw [hp] at hv
          simp only [Bool.false_eq_true, if_false, Value.address.injEq] at hv
          exact ⟨0, s0, by omega, by simp, by simpa using he, hp⟩
      · exact step h

namespace Stages
variable {fs : Files} {lines : List Str} {a : Assembly}

theorem ss0_notAddr (st : Stages fs lines a) : ∀ s ∈ st.ss0, s.operand.value.isAddress = false :=
  expand_forall (P := fun s => s.operand.value.isAddress = false) (fun _ _ h => parseLine_notAddr h) fs (includeFuel fs) []
    st.parsed st.ss0
    (parseLines_forall (P := fun s => s.operand.value.isAddress = false) (fun _ _ h => parseLine_notAddr h) lines
      st.parsed st.hparse) st.hexpand

/-- the label table binds `.address b` only to statement `b`, which carries a label and is not an EQU -/
theorem address_entry (st : Stages fs lines a) {k : Str} {b : Nat} {m : Mode}
    (h : st.t.get? k = some (.address b m)) :
    ∃ t, a.stmts[b]? = some t ∧ t.label.isEmpty = false ∧ t.row.isPseudoDefine = false := by
  obtain ⟨htab, _⟩ := buildSymTab_some st.hsym
  simp only [List.nil_append] at htab
  obtain ⟨kv, hkv, hkv2⟩ := SymTab.get?_mem h
  obtain ⟨k', v⟩ := kv
  simp only at hkv2
  subst hkv2
  rw [htab] at hkv
  obtain ⟨j, s0, e, hs0, h1, h2⟩ := symEntries_address st.ss0_notAddr hkv
  rw [Nat.zero_add] at e
  subst e
  obtain ⟨t, ht, hk⟩ := st.keep05.get hs0
  exact ⟨t, ht, by rw [hk.1]; exact h1, by rw [hk.2]; exact h2⟩

end Stages

/-! ### the left-hand side of an indexed operand -/

/-- an address that comes out of `resolveLeft` was looked up in the table -/
theorem resolveLeft_address {l : Str} {row : InstrRow} {t : SymTab} {i : Nat} {m : Mode}
    (h : resolveLeft l row t = .ok (.address i m)) : ∃ k m', t.get? k = some (.address i m') := by
  rw [resolveLeft_eq] at h
  cases hc : create 4 l row.isStringDefine row.is16Bit false with
  | error e => rw [hc] at h; cases h
  | ok v =>
    rw [hc] at h
    dsimp only at h
    have hv : v.isAddress = false := create_notAddr 4 _ _ _ _ _ hc
    have post : ∀ w : Value, w.isAddress = false → leftPost t w ≠ .ok (.address i m) := by
      intro w hw hp
      cases w with
      | expr l' r' op md ae =>
        have : (Value.expr l' r' op md ae).resolve t = .ok (.address i m) := by
          cases ae <;> exact hp
        have := resolveF_expr_notAddr this
        cases this
      | address j mj => cases hw
      | pyNone => cases hp
      | _ => cases hp
    split at h
    · cases hr : v.resolve t with
      | error e => rw [hr] at h; cases h
      | ok v2 =>
        rw [hr] at h
        dsimp only at h
        cases hv2 : v2.isAddress with
        | false => exact absurd h (post v2 hv2)
        | true =>
          cases v2 with
          | address j mj =>
            have : leftPost t (.address j mj) = .ok (.address j mj) := rfl
            rw [this] at h
            cases h
            exact resolve_address hr hv
          | _ => cases hv2
    · exact absurd h (post v hv)

/-- `createOperand` never builds a `.val` left-hand side (that is what `resolve_symbols` does) -/
theorem createOperand_left {s : Str} {row : InstrRow} {o : Operand} (h : createOperand s row = .ok o) :
    ∀ v, o.left ≠ .val v := by
  intro v
  unfold createOperand at h
  split at h
  · dsimp only at h
    split at h
    · cases h
    · repeat' split at h
      all_goals first
        | (cases h; done)
        | (cases h; intro hh; cases hh)
        | (obtain ⟨a, _, hf⟩ := map_ok h; subst hf; intro hh; cases hh)
  · split at h
    · cases h; intro hh; cases hh
    · split at h
      · obtain ⟨a, _, hf⟩ := map_ok h; subst hf; intro hh; cases hh
      · split at h
        · cases h; intro hh; cases hh
        · dsimp only at h
          split at h
          · rename_i heq
            cases h
            repeat' split at heq
            all_goals first
              | (cases heq; done)
              | (cases heq; intro hh; cases hh)
          · repeat' split at h
            all_goals first
              | (cases h; done)
              | (cases h; intro hh; cases hh)

/-- a `.val` left-hand side after `resolve_symbols` that was not there before comes out of `resolveLeft` -/
theorem resolveOperand_left {o o' : Operand} {row : InstrRow} {t : SymTab} (h : resolveOperand o row t = .ok o')
    (hno : ∀ v, o.left ≠ .val v) {v : Value} (hv : o'.left = .val v) : ∃ l, resolveLeft l row t = .ok v := by
  have keep : o' = o → ∃ l, resolveLeft l row t = .ok v := fun e => absurd (by rw [← e]; exact hv) (hno v)
  have keepv : ∀ {x : R Value}, x.map (fun w => { o with value := w }) = .ok o' → ∃ l, resolveLeft l row t = .ok v := by
    intro x hx
    cases x with
    | error e => cases hx
    | ok w => cases hx; exact absurd hv (hno v)
  have setl : ∀ {l : Str}, (resolveLeft l row t).map (fun w => { o with left := .val w }) = .ok o' →
      ∃ l, resolveLeft l row t = .ok v := by
    intro l hx
    cases hr : resolveLeft l row t with
    | error e => rw [hr] at hx; cases hx
    | ok w =>
      rw [hr] at hx
      cases hx
      cases hv
      exact ⟨l, hr⟩
  unfold resolveOperand at h
  split at h
  · cases h; exact keep rfl
  · split at h
    · split at h
      · cases h
      · split at h
        · exact keepv h
        · cases h; exact keep rfl
    · cases h; exact keep rfl
  · split at h
    · split at h
      · exact setl h
      · cases h; exact keep rfl
    · cases h; exact keep rfl
  · split at h
    · exact keepv h
    · split at h
      · split at h
        · exact setl h
        · cases h; exact keep rfl
      · cases h
  · split at h
    · cases h
    · split at h
      · cases h; exact absurd hv (hno v)
      · split at h
        · cases h; exact absurd hv (hno v)
        · split at h
          · cases h
          · split at h
            · obtain ⟨w, _, hf⟩ := map_ok h; subst hf; exact absurd hv (hno v)
            · cases h; exact absurd hv (hno v)
          · split at h <;> (cases h; exact absurd hv (hno v))
          · cases h; exact absurd hv (hno v)

namespace Stages
variable {fs : Files} {lines : List Str} {a : Assembly}

/-- the target of a relative statement of an accepted program carries an address label -/
theorem relative_target (st : Stages fs lines a) {i b : Nat} {m : Mode} {s : Stmt} (hs : a.stmts[i]? = some s)
    (hk : s.operand.kind = .relative) (hv : s.operand.value = .address b m) :
    ∃ t, a.stmts[b]? = some t ∧ t.label.isEmpty = false ∧ t.row.isPseudoDefine = false := by
  obtain ⟨tr⟩ := st.trace hs
  have hop : s.operand = tr.o := tr.operand_eq
  obtain ⟨_, hres⟩ := resolveOperand_relative tr.hres (by rw [← hop]; exact hk)
  rw [← hop, hv] at hres
  obtain ⟨k, m', hg⟩ := resolve_address hres (st.ss0_notAddr tr.s0 (List.mem_of_getElem? tr.h0))
  exact st.address_entry hg

/-- the statement an indexed operand's left-hand side names carries an address label -/
theorem left_target (st : Stages fs lines a) {i b : Nat} {m : Mode} {s : Stmt} (hs : a.stmts[i]? = some s)
    (hl : s.operand.left = .val (.address b m)) :
    ∃ t, a.stmts[b]? = some t ∧ t.label.isEmpty = false ∧ t.row.isPseudoDefine = false := by
  obtain ⟨tr⟩ := st.trace hs
  have hop : s.operand = tr.o := tr.operand_eq
  obtain ⟨txt, hcr⟩ := tr.parsed.2
  obtain ⟨l, hl'⟩ := resolveOperand_left tr.hres (createOperand_left hcr) (by rw [← hop]; exact hl)
  obtain ⟨k, m', hg⟩ := resolveLeft_address hl'
  exact st.address_entry hg

end Stages

/-! ### a statement whose size the PCR loop settled has a size -/

theorem settle_pos {s s' : Stmt} {e h c : Nat} (hs : settle s e h c = some s') (he : 0 < e) : 0 < s'.pkg.size := by
  unfold settle at hs
  cases hp : orPost s c with
  | none => simp [hp] at hs
  | some pb =>
    simp [hp] at hs; subst hs
    show 0 < s.pkg.size + e
    omega

/-- `determine` leaves the statement as it is or settles it on a size of at least 1 -/
theorem determine_pos {ss : List Stmt} {i : Nat} {s s' : Stmt} (h : determine ss i s = .ok s') :
    s' = s ∨ 0 < s'.pkg.size := by
  unfold determine at h
  split at h
  · rename_i c0 c1 _
    by_cases hfo : exprForces s.pkg.additional = true
    · rw [if_pos hfo] at h
      cases hs : settle s 2 4 c1 with
      | none => rw [hs] at h; cases h
      | some s'' => rw [hs] at h; cases h; exact .inr (settle_pos hs (by omega))
    rw [if_neg hfo] at h
    split at h
    · cases h
    · split at h
      · cases h
      · rename_i rel _ _
        dsimp only at h
        generalize (if rel ≤ i then sumSizes ss rel i else sumSizes ss i rel) = pr at h
        generalize (if rel ≤ i then s.pkg.size - 1 else 0) + exprExtra s.pkg.additional = adj at h
        generalize (if rel ≤ i then 128 else 127) = lim at h
        obtain ⟨mn, mx⟩ := pr
        dsimp only at h
        by_cases h1 : mn + 2 + adj ≤ lim ∧ mx + 2 + adj ≤ lim
        · rw [if_pos h1] at h
          cases hs : settle s 1 2 c0 with
          | none => rw [hs] at h; cases h
          | some s'' => rw [hs] at h; cases h; exact .inr (settle_pos hs (by omega))
        · rw [if_neg h1] at h
          by_cases h2 : mn + 2 + adj > lim ∧ mx + 2 + adj > lim
          · rw [if_pos h2] at h
            cases hs : settle s 2 4 c1 with
            | none => rw [hs] at h; cases h
            | some s'' => rw [hs] at h; cases h; exact .inr (settle_pos hs (by omega))
          · rw [if_neg h2] at h; cases h; exact .inl rfl
  · cases h
  · cases h

/-- `s'` is `s` when the size of `s` is fixed; a statement that becomes fixed gets a size of at least 1 -/
def Settled (s s' : Stmt) : Prop :=
  (s.fixedSize = true → s' = s) ∧ (s.fixedSize = false → s'.fixedSize = true → 0 < s'.pkg.size)

theorem Settled.refl (s : Stmt) : Settled s s := ⟨fun _ => rfl, fun h1 h2 => by rw [h1] at h2; cases h2⟩

theorem Settled.trans {a b c : Stmt} (h1 : Settled a b) (h2 : Settled b c) : Settled a c := by
  refine ⟨fun hf => ?_, fun hf hc => ?_⟩
  · have hb := h1.1 hf
    subst hb
    exact h2.1 hf
  · cases hb : b.fixedSize with
    | true =>
      have := h2.1 hb
      subst this
      exact h1.2 hf hb
    | false => exact h2.2 hb hc

theorem pcrPass_settled (n : Nat) (ss : List Stmt) (i : Nat) (p : Bool) {ss' : List Stmt} {p' : Bool}
    (h : pcrPass n ss i p = .ok (ss', p')) : PW Settled ss ss' := by
  induction n generalizing ss i p with
  | zero => simp [pcrPass] at h; obtain ⟨rfl, rfl⟩ := h; exact .refl Settled.refl _
  | succ n ih =>
    unfold pcrPass at h
    split at h
    · simp at h; obtain ⟨rfl, rfl⟩ := h; exact .refl Settled.refl _
    · rename_i s hs
      split at h
      · exact ih _ _ _ h
      · rename_i hfx
        split at h
        · rename_i s' hd
          have hrel : Settled s s' := by
            refine ⟨fun hf => absurd hf hfx, fun hf hf' => ?_⟩
            rcases determine_pos hd with e | e
            · subst e; rw [hf] at hf'; cases hf'
            · exact e
          exact (PW.set Settled.refl hs hrel).trans (ih _ _ _ h) (fun _ _ _ => Settled.trans)
        · cases h
        · cases h
        · cases h

theorem forceFirst_settled {ss ss' : List Stmt} (h : forceFirst ss = some ss') : PW Settled ss ss' := by
  induction ss generalizing ss' with
  | nil => simp [forceFirst] at h; subst h; exact .nil
  | cons s r ih =>
    unfold forceFirst at h
    split at h
    · cases hr : forceFirst r with
      | none => simp [hr] at h
      | some r' => simp [hr] at h; subst h; exact .cons (.refl _) (ih hr)
    · rename_i hfx
      split at h
      · rename_i c0 c1 _
        cases hs : settle s 2 4 c1 with
        | none => simp [hs] at h
        | some s' =>
          simp [hs] at h; subst h
          exact .cons ⟨fun hf => absurd hf hfx, fun _ _ => settle_pos hs (by omega)⟩ (.refl Settled.refl _)
      · cases h

theorem pcrLoop_settled (fuel : Nat) (ss : List Stmt) {ss' : List Stmt} (h : pcrLoop fuel ss = .ok ss') :
    PW Settled ss ss' := by
  induction fuel generalizing ss with
  | zero =>
    unfold pcrLoop at h
    split at h
    · cases h; exact .refl Settled.refl _
    · cases h
  | succ fuel ih =>
    unfold pcrLoop at h
    split at h
    · cases h; exact .refl Settled.refl _
    · split at h
      · rename_i ss1 hp
        exact (pcrPass_settled _ _ _ _ hp).trans (ih _ h) (fun _ _ _ => Settled.trans)
      · rename_i ss1 hp
        split at h
        · rename_i ss2 hf
          exact ((pcrPass_settled _ _ _ _ hp).trans (forceFirst_settled hf) (fun _ _ _ => Settled.trans)).trans (ih _ h)
            (fun _ _ _ => Settled.trans)
        · cases h
      · cases h
      · cases h
      · cases h

/-- a branch row has a size -/
theorem table_relSz : ∀ r ∈ Gen.instructions, (r.isShortBranch || r.isLongBranch) = true → 0 < r.relSz := by
  decide +kernel

namespace Stages
variable {fs : Files} {lines : List Str} {a : Assembly}

/-- a statement with post byte choices (a `label,PCR` operand) has a size of at least 1: the size loop settled it -/
theorem choices_size_pos (st : Stages fs lines a) {i : Nat} {s : Stmt} (hs : a.stmts[i]? = some s)
    (hc : s.pkg.choices ≠ []) : 0 < s.pkg.size := by
  obtain ⟨tr⟩ := st.trace hs
  obtain ⟨_, _, _, _, _, h3⟩ := tr.pcr
  obtain ⟨_, h4⟩ := tr.addr
  obtain ⟨_, hf⟩ := fixOne_same tr.hfix
  obtain ⟨_, hw⟩ := fitWidth_same tr.hfit
  obtain ⟨_, hl⟩ := evalList1_same tr.hlist
  have c0 := congrArg (fun x : Stmt => x.pkg.choices) hl
  have c1 := congrArg (fun x : Stmt => x.pkg.choices) hw
  have c2 := congrArg (fun x : Stmt => x.pkg.choices) hf
  have c3 := congrArg (fun x : Stmt => x.pkg.choices) h4
  have c4 := congrArg (fun x : Stmt => x.pkg.choices) h3
  have hch : s.pkg.choices = tr.p.choices := c0.trans (c1.trans (c2.trans (c3.trans c4)))
  have z0 := congrArg (fun x : Stmt => x.pkg.size) hl
  have z1 := congrArg (fun x : Stmt => x.pkg.size) hw
  have z2 := congrArg (fun x : Stmt => x.pkg.size) hf
  have z3 := congrArg (fun x : Stmt => x.pkg.size) h4
  have hsz : s.pkg.size = tr.s3.pkg.size := z0.trans (z1.trans (z2.trans z3))
  have hnf : (mkTranslated tr.s0 tr.o tr.p).fixedSize = false := by
    show tr.p.choices.isEmpty = false
    rw [← hch]
    cases hq : s.pkg.choices with
    | nil => exact absurd hq hc
    | cons c cs => rfl
  have hall := pcrLoop_ok_allFixed _ _ st.hpcr
  have hfx : tr.s3.fixedSize = true := by
    unfold allFixed at hall
    rw [List.all_eq_true] at hall
    exact hall _ (List.mem_of_getElem? tr.h3)
  rw [hsz]
  exact ((pcrLoop_settled _ _ st.hpcr).2 i _ _ tr.h2 tr.h3).2 hnf hfx

/-- a relative statement has a size of at least 1 -/
theorem relative_size_pos (st : Stages fs lines a) {i : Nat} {s : Stmt} (hs : a.stmts[i]? = some s)
    (hk : s.operand.kind = .relative) : 0 < s.pkg.size := by
  obtain ⟨s4, s1, _, _, _, _, hsame, _, _, hrowmem, hbr, _, _, hsz4⟩ := st.branch_pre hs hk
  have : s.pkg.size = s4.pkg.size := by obtain ⟨v, rfl⟩ := hsame; rfl
  rw [this, hsz4]
  exact table_relSz _ hrowmem hbr

end Stages

/-! ### the symbol table: keys, and what `resolve` makes of an expression -/

theorem get?_mem_key {t : SymTab} {k : Str} {v : Value} (h : t.get? k = some v) : (k, v) ∈ t := by
  unfold SymTab.get? at h
  cases hf : t.find? (·.1 == k) with
  | none => rw [hf] at h; cases h
  | some kv =>
    rw [hf] at h
    have hm := List.mem_of_find?_eq_some hf
    have hp := List.find?_some hf
    obtain ⟨k', v'⟩ := kv
    simp only [beq_iff_eq] at hp
    simp only [Option.map_some, Option.some.injEq] at h
    subst hp h
    exact hm

/-- every entry `buildSymTab` makes carries the label of a statement -/
theorem symEntries_key {ss : List Stmt} {i0 : Nat} {k : Str} {v : Value} (h : (k, v) ∈ symEntries ss i0) :
    ∃ (j : Nat) (s : Stmt), ss[j]? = some s ∧ s.label.isEmpty = false ∧ s.label = k := by
  induction ss generalizing i0 with
  | nil => simp [symEntries] at h
  | cons s0 rest ih =>
    have step : (k, v) ∈ symEntries rest (i0 + 1) →
        ∃ (j : Nat) (s : Stmt), (s0 :: rest)[j]? = some s ∧ s.label.isEmpty = false ∧ s.label = k := by
      intro h'
      obtain ⟨j, s, hs, h1, h2⟩ := ih h'
      exact ⟨j + 1, s, by simpa using hs, h1, h2⟩
    unfold symEntries at h
    split at h
    · exact step h
    · rename_i he
      rcases List.mem_cons.mp h with h | h
      · simp only [Prod.mk.injEq] at h
        exact ⟨0, s0, by simp, by simpa using he, h.1.symm⟩
      · exact step h

theorem numericOfStr_isNumeric' {s : Str} {h : Option Nat} {m : Mode} {x : Value}
    (hx : numericOfStr s h m = .ok x) : x.isNumeric = true := by
  unfold numericOfStr at hx
  dsimp only at hx
  split at hx
  · rename_i heq
    simp only [Except.ok.injEq] at hx
    subst hx
    split at heq
    · split at heq
      · simp only [Option.some.injEq] at heq; subst heq; rfl
      · cases heq
    · cases heq
  · repeat' split at hx
    all_goals first | (cases hx; done) | (cases hx; rfl)

theorem resolveExprCore_cases {l r : Value} {op : Char} {mode : Mode} {x : Value}
    (h : resolveExprCore l r op mode = .ok x) : x.isNumeric = true ∨ x.isAddrExpr = true := by
  unfold resolveExprCore at h
  dsimp only at h
  repeat' split at h
  all_goals first
    | (cases h; done)
    | (cases h; exact .inr rfl)
    | (simp only [Except.ok.injEq] at h; subst h; exact .inl (numericOfStr_isNumeric' ‹_›))

/-- what `resolve` makes of an expression is a number or a label expression -/
theorem resolve_expr_cases {t : SymTab} {l r : Value} {op : Char} {mode : Mode} {ae : Bool} {x : Value}
    (h : (Value.expr l r op mode ae).resolve t = .ok x) : x.isNumeric = true ∨ x.isAddrExpr = true := by
  unfold Value.resolve at h
  rw [resolveF_expr] at h
  cases hl : lookF t.length t l with
  | error e => rw [hl] at h; cases h
  | ok l' =>
    cases hr : lookF t.length t r with
    | error e => rw [hl, hr] at h; cases h
    | ok r' => rw [hl, hr] at h; exact resolveExprCore_cases h

/-! ### `Assembly.origin` is the address of the last ORG -/

/-- the origin scan of `assemble` -/
def originScan (ss : List Stmt) (o : Value) : Value :=
  ss.foldl (fun o s => if s.row.isOrigin then s.pkg.address else o) o

theorem originScan_none {ss : List Stmt} (h : ∀ s ∈ ss, s.row.isOrigin = false) (o : Value) : originScan ss o = o := by
  induction ss generalizing o with
  | nil => rfl
  | cons s rest ih =>
    unfold originScan
    rw [List.foldl_cons, h s (by simp)]
    exact ih (fun x hx => h x (by simp [hx])) o

theorem originScan_last {ss : List Stmt} {k : Nat} {sk : Stmt} (hk : ss[k]? = some sk) (ho : sk.row.isOrigin = true)
    (hlast : ∀ j u, k < j → ss[j]? = some u → u.row.isOrigin = false) (o : Value) :
    originScan ss o = sk.pkg.address := by
  have hlen : k < ss.length := by
    rcases Nat.lt_or_ge k ss.length with h | h
    · exact h
    · rw [List.getElem?_eq_none_iff.mpr h] at hk; cases hk
  have hsk : ss[k] = sk := by
    have := List.getElem?_eq_getElem hlen; rw [hk] at this; cases this; rfl
  have hsplit : ss = ss.take k ++ sk :: ss.drop (k + 1) := by
    rw [← hsk]; simp
  have hrest : ∀ s ∈ ss.drop (k + 1), s.row.isOrigin = false := by
    intro s hs
    obtain ⟨j, hj⟩ := List.mem_iff_getElem?.mp hs
    rw [List.getElem?_drop] at hj
    exact hlast _ s (by omega) hj
  unfold originScan
  rw [hsplit, List.foldl_append, List.foldl_cons, ho]
  exact originScan_none hrest _

theorem assemble_origin {fs : Files} {lines : List Str} {a : Assembly} (h : assemble fs lines = .ok a) :
    a.origin = originScan a.stmts Value.none := by
  obtain ⟨st⟩ := assemble_stages h
  unfold assemble at h
  rw [st.hparse] at h; dsimp only at h
  rw [st.hexpand] at h; dsimp only at h
  rw [st.hsym] at h; dsimp only at h
  rw [st.hresolve] at h; dsimp only at h
  rw [st.htranslate] at h; dsimp only at h
  rw [st.hpcr] at h; dsimp only at h
  rw [st.horg] at h
  simp only [Bool.not_true, Bool.false_eq_true, if_false] at h
  rw [st.haddr] at h; dsimp only at h
  rw [st.hfix] at h; dsimp only at h
  rw [st.heval] at h; dsimp only at h
  rw [st.hfinal] at h; dsimp only at h
  have e := congrArg Assembly.origin (Outcome.ok.inj h)
  exact e.symm

/-! ### the last index with a property -/

theorem exists_last (p : Nat → Prop) (n : Nat) :
    (∀ j, j < n → ¬ p j) ∨ ∃ k, k < n ∧ p k ∧ ∀ j, k < j → j < n → ¬ p j := by
  induction n with
  | zero => left; intro j hj; omega
  | succ n ih =>
    by_cases hp : p n
    · right; exact ⟨n, by omega, hp, fun j h1 h2 => by omega⟩
    · rcases ih with h | ⟨k, hk, hpk, hl⟩
      · left
        intro j hj
        rcases Nat.lt_or_ge j n with h' | h'
        · exact h j h'
        · have : j = n := by omega
          subst this; exact hp
      · right
        refine ⟨k, by omega, hpk, ?_⟩
        intro j h1 h2
        rcases Nat.lt_or_ge j n with h' | h'
        · exact hl j h1 h'
        · have : j = n := by omega
          subst this; exact hp

end CoCo.Asm
