/-
Lemmas/ImageBytes.lean — the image of an accepted program consists of bytes, and its origin is a 16-bit address.

`get_binary_array` reads the hex strings of op code, post byte and operand field two characters at a time
(`emitPairs`): a byte is `digitVal a * 16 + digitVal b`, below 256 as soon as both characters are hex digits.  Every
hex string `Value.hex?` renders is made of hex digits (`fmtHex`), with one exception: the literal lists
`.multiByte hs` / `.multiWord hs`, whose strings are stored as they are.  The invariant `Value.MOK` ("the strings of a
literal list are hex strings") holds of what the parser builds (`multi` → `elemHex` → `Value.hex?` of a number) and
is carried through `resolve_symbols`, `translate`, the PCR size loop, `fix_addresses` and `fit_operand_width`: every
other stage only ever stores numbers, addresses and expressions.

Second part: `Assembly.origin` is `NoneValue` or the operand of an ORG: a non-negative number of at most 16 bits with
a size hint of 2 or 4 digits or none, so that the address `main` derives from its hex string (`originAddr`) is below
65536.
-/
import CoCoVerif.Lemmas.SizeFix
import CoCoVerif.Lemmas.SizeAscii
import CoCoVerif.Lemmas.NoIntFix
import CoCoVerif.Lemmas.OrgFirst
import CoCoVerif.Lemmas.VFAsm
import CoCoVerif.Props.C02Size

namespace CoCo.Asm
open CoCo
open CoCo.Gen (InstrRow)

/-! ### hex strings -/

/-- a string of hex digit characters (as far as `int(_, 16)` — `digitVal` — is concerned) -/
def HexStr (h : Str) : Prop := ∀ c ∈ h, digitVal c < 16

theorem HexStr.nil : HexStr [] := fun _ h => by cases h

theorem HexStr.append {a b : Str} (ha : HexStr a) (hb : HexStr b) : HexStr (a ++ b) := by
  intro c hc
  rcases List.mem_append.mp hc with h | h
  · exact ha c h
  · exact hb c h

theorem HexStr.flatten {hs : List Str} (h : ∀ x ∈ hs, HexStr x) : HexStr hs.flatten := by
  intro c hc
  obtain ⟨x, hx, hcx⟩ := List.mem_flatten.mp hc
  exact h x hx c hcx

theorem digitVal_hexChar_lt : ∀ n, n < 16 → digitVal (hexChar n) < 16 := by decide

theorem natHexF_lt : ∀ (f v : Nat), ∀ d ∈ natHexF f v, d < 16 := by
  intro f
  induction f with
  | zero => intro v d hd; simp [natHexF] at hd
  | succ f ih =>
    intro v d hd
    unfold natHexF at hd
    split at hd
    · simp only [List.mem_singleton] at hd; subst hd; assumption
    · rcases List.mem_append.mp hd with h | h
      · exact ih _ d h
      · simp only [List.mem_singleton] at h; subst h; exact Nat.mod_lt _ (by decide)

theorem fmtHex_hexStr (w v : Nat) : HexStr (fmtHex w v) := by
  unfold fmtHex
  refine HexStr.append ?_ ?_
  · intro c hc
    have := (List.mem_replicate.mp hc).2
    subst this
    decide
  · intro c hc
    obtain ⟨d, hd, rfl⟩ := List.mem_map.mp hc
    exact digitVal_hexChar_lt d (natHexF_lt _ _ d hd)

theorem numHex_hexStr (i : Nat) (h : Option Nat) (neg : Bool) (size : Nat) : HexStr (numHex i h neg size) := by
  have hite : ∀ (b : Bool) (x y : Str), HexStr x → HexStr y → HexStr (if b = true then x else y) := by
    intro b x y hx hy; cases b <;> simpa
  unfold numHex
  exact hite _ _ _ (fmtHex_hexStr _ _) (fmtHex_hexStr _ _)

/-- the strings of a literal list (`FCB 1,2,3`) are hex strings -/
def Value.MOK : Value → Prop
  | .multiByte hs => ∀ h ∈ hs, HexStr h
  | .multiWord hs => ∀ h ∈ hs, HexStr h
  | _ => True

/-- not a literal list -/
def Value.NM (v : Value) : Prop := v.isMultiByte = false ∧ v.isMultiWord = false

theorem Value.NM.mok {v : Value} (h : v.NM) : v.MOK := by
  cases v <;> first | trivial | (cases h.1; done) | (cases h.2; done)

theorem Value.NM.none : Value.none.NM := ⟨rfl, rfl⟩

theorem Value.NM.of_numeric {v : Value} (h : v.isNumeric = true) : v.NM := by
  cases v <;> first | exact ⟨rfl, rfl⟩ | cases h

theorem Value.NM.of_fieldable {v : Value} (h : Fieldable v) : v.NM :=
  ⟨(Fieldable.not_multi h).1, (Fieldable.not_multi h).2.1⟩

/-- every hex string `hex()` renders is made of hex digits -/
theorem Value.MOK.hex {v : Value} (hv : v.MOK) {size : Nat} {h : Str} (hh : v.hex? size = some h) : HexStr h := by
  cases v with
  | none => cases hh; exact HexStr.nil
  | pyNone => cases hh
  | numeric i hi m n => cases hh; exact numHex_hexStr _ _ _ _
  | symbol s m => cases hh; exact HexStr.nil
  | address i m => cases hh; exact fmtHex_hexStr _ _
  | expr l r op m ae => cases hh; intro c hc; simp only [List.mem_cons, List.mem_nil_iff, or_false] at hc; rcases hc with rfl | rfl <;> decide
  | leftRight l r m => cases hh; exact HexStr.nil
  | str s =>
    cases hh
    intro c hc
    obtain ⟨x, _, hcx⟩ := List.mem_flatMap.mp hc
    exact fmtHex_hexStr _ _ c hcx
  | multiByte hs => cases hh; exact HexStr.flatten hv
  | multiWord hs => cases hh; exact HexStr.flatten hv

/-! ### emission -/

theorem emitPairs_lt : ∀ (n : Nat) (s : Str) (acc bs : Bytes), HexStr s → (∀ b ∈ acc, b < 256) →
    emitPairs n s acc = some bs → ∀ b ∈ bs, b < 256 := by
  intro n
  induction n with
  | zero =>
    intro s acc bs _ hacc h b hb
    simp only [emitPairs, Option.some.injEq] at h
    subst h
    exact hacc b (List.mem_reverse.mp hb)
  | succ n ih =>
    intro s acc bs hs hacc h
    match s, h with
    | a :: c :: rest, h =>
      simp only [emitPairs] at h
      refine ih rest _ bs (fun x hx => hs x (by simp [hx])) ?_ h
      intro b hb
      rcases List.mem_cons.mp hb with rfl | hb
      · have h1 := hs a (by simp)
        have h2 := hs c (by simp)
        omega
      · exact hacc b hb
    | [], h => simp [emitPairs] at h
    | [_], h => simp [emitPairs] at h

theorem emitValue_lt {v : Value} (hv : v.MOK) {bs : Bytes} (h : emitValue v = some bs) : ∀ b ∈ bs, b < 256 := by
  unfold emitValue at h
  split at h
  · rename_i hx l hhx _
    exact emitPairs_lt _ _ _ _ (hv.hex hhx) (fun _ hb => by cases hb) h
  · cases h

/-- a statement whose op code, post byte and operand field are in order emits bytes -/
theorem stmtBytes_lt {s : Stmt} (h1 : s.pkg.opCode.MOK) (h2 : s.pkg.postByte.MOK) (h3 : s.pkg.additional.MOK)
    {bs : Bytes} (h : stmtBytes s = some bs) : ∀ b ∈ bs, b < 256 := by
  unfold stmtBytes at h
  cases ha : emitValue s.pkg.opCode with
  | none => simp [ha] at h
  | some a =>
    cases hb : emitValue s.pkg.postByte with
    | none => simp [ha, hb] at h
    | some b =>
      cases hc : emitValue s.pkg.additional with
      | none => simp [ha, hb, hc] at h
      | some c =>
        simp [ha, hb, hc] at h
        subst h
        intro x hx
        simp only [List.mem_append] at hx
        rcases hx with hx | hx | hx
        · exact emitValue_lt h1 ha x hx
        · exact emitValue_lt h2 hb x hx
        · exact emitValue_lt h3 hc x hx

/-! ### what the parser builds -/

theorem create_nm {fuel : Nat} {s : Str} {a b c : Bool} {v : Value} (h : create fuel s a b c = .ok v) : v.NM := by
  rcases create_created h with (h1 | h1 | h1 | h1) | ⟨x, rfl⟩
  all_goals first
    | exact ⟨rfl, rfl⟩
    | (cases v <;> first | exact ⟨rfl, rfl⟩ | cases h1)

theorem createV_nm {s : Str} {a b c : Bool} {v : Value} (h : createV s a b c = .ok v) : v.NM := create_nm h

theorem numericOfInt_nm {z : Int} {h : Option Nat} {m : Mode} {v : Value} (hv : numericOfInt z h m = .ok v) : v.NM :=
  .of_numeric (numericOfInt_isNumeric hv)

theorem numV_nm {n : Nat} {v : Value} (hv : numV n = .ok v) : v.NM := numericOfInt_nm hv

theorem opVal_nm {o : Option Nat} {v : Value} (hv : opVal o = .ok v) : v.NM := by
  cases o with
  | none => cases hv
  | some a => unfold opVal at hv; exact numericOfInt_nm hv

theorem fitNum_nm {n : Nat} {neg : Bool} {d : Nat} {v : Value} (h : fitNum n neg d = .ok v) : v.NM := by
  unfold fitNum at h
  change (if -((2 : Int) ^ (4 * d - 1)) ≤ fitInt n neg ∧ fitInt n neg < (2 : Int) ^ (4 * d) then
      numericOfInt (fitInt n neg % (2 : Int) ^ (4 * d)) (some d) .none else .error .valueType) = .ok v at h
  split at h
  · exact numericOfInt_nm h
  · cases h

/-- an element of a literal list is rendered by `hex()` of a number -/
theorem elemHex_hexStr {w : Nat} {x h : Str} (he : elemHex w x = .ok h) : HexStr h := by
  unfold elemHex at he
  split at he
  · split at he
    · rename_i v hf
      split at he
      · rename_i hx hhx
        cases he
        exact (fitNum_nm hf).mok.hex hhx
      · cases he
    · cases he
  · cases he
  · cases he

theorem mapM_elemHex_hexStr {w : Nat} : ∀ (xs : List Str) (hs : List Str),
    xs.mapM (elemHex w) = .ok hs → ∀ h ∈ hs, HexStr h := by
  intro xs
  induction xs with
  | nil => intro hs h; simp [List.mapM_nil, pure, Except.pure] at h; subst h; simp
  | cons x r ih =>
    intro hs h
    rw [List.mapM_cons] at h
    simp only [bind, Except.bind, pure, Except.pure] at h
    split at h
    · cases h
    · rename_i y hy
      split at h
      · cases h
      · rename_i ys hys
        cases h
        intro z hz
        rcases List.mem_cons.mp hz with rfl | hz
        · exact elemHex_hexStr hy
        · exact ih ys hys z hz

/-- (batch 8) a pending element holds its place with zeros -/
theorem elemHexP_hexStr {w : Nat} {x h : Str} (he : elemHexP w x = .ok h) : HexStr h := by
  unfold elemHexP at he
  split at he
  · rename_i h0 hh
    cases he
    exact elemHex_hexStr hh
  · split at he
    · cases he
      intro c hc
      have := (List.mem_replicate.mp hc).2
      subst this
      decide
    · cases he

theorem mapM_elemHexP_hexStr {w : Nat} : ∀ (xs : List Str) (hs : List Str),
    xs.mapM (elemHexP w) = .ok hs → ∀ h ∈ hs, HexStr h := by
  intro xs
  induction xs with
  | nil => intro hs h; simp [List.mapM_nil, pure, Except.pure] at h; subst h; simp
  | cons x r ih =>
    intro hs h
    rw [List.mapM_cons] at h
    simp only [bind, Except.bind, pure, Except.pure] at h
    split at h
    · cases h
    · rename_i y hy
      split at h
      · cases h
      · rename_i ys hys
        cases h
        intro z hz
        rcases List.mem_cons.mp hz with rfl | hz
        · exact elemHexP_hexStr hy
        · exact ih ys hys z hz

theorem multi_hexStr {w : Nat} {s : Str} {hs : List Str} (h : multi w s = .ok hs) : ∀ x ∈ hs, HexStr x := by
  unfold multi at h
  split at h
  · cases h
  · exact mapM_elemHexP_hexStr _ _ h

/-- the value of a parsed operand: a literal list holds hex strings -/
theorem createOperand_mok {s : Str} {row : InstrRow} {o : Operand} (h : createOperand s row = .ok o) :
    o.value.MOK := by
  unfold createOperand at h
  split at h
  · dsimp only at h
    split at h
    · cases h
    · rename_i v hv0
      have hv : v.MOK := by
        repeat' split at hv0
        all_goals first
          | (obtain ⟨hs, hm, rfl⟩ := map_ok hv0; exact multi_hexStr hm)
          | (cases hv0; trivial)
          | exact (createV_nm hv0).mok
      repeat' split at h
      all_goals first
        | (cases h; done)
        | (cases h; exact hv)
        | (obtain ⟨a, ha, hf⟩ := map_ok h; subst hf; exact (numericOfInt_nm ha).mok)
  · split at h
    · cases h; trivial
    · split at h
      · obtain ⟨a, ha, hf⟩ := map_ok h; subst hf
        exact (createV_nm ha).mok
      · split at h
        · cases h; trivial
        · dsimp only at h
          split at h
          · rename_i heq
            cases h
            split at heq
            · split at heq
              · rename_i v hcv
                have hnm := (createV_nm hcv).mok
                split at heq
                · cases heq; exact hnm
                · cases heq; exact hnm
              · cases heq
            · cases heq
          · split at h
            · cases h
            · rename_i v hcv
              have hnm := (createV_nm hcv).mok
              repeat' split at h
              all_goals first
                | (cases h; done)
                | (cases h; exact hnm)

theorem Parsed.mok {s : Stmt} (h : Parsed s) : s.operand.value.MOK := by
  obtain ⟨_, txt, ht⟩ := h
  exact createOperand_mok ht

/-! ### `resolve_symbols` makes no literal lists -/

theorem resolve_mok {t : SymTab} {v r : Value} (hv : v.MOK) (h : v.resolve t = .ok r) : r.MOK := by
  cases v with
  | symbol name m =>
    rcases resolve_symbol_fieldable h with h' | h'
    · exact (Value.NM.of_fieldable (.inl h')).mok
    · exact (Value.NM.of_fieldable (.inr (.inl h'))).mok
  | expr l r' op m ae =>
    rcases resolve_expr_fieldable h with h' | h'
    · exact (Value.NM.of_fieldable (.inl h')).mok
    · exact (Value.NM.of_fieldable (.inr (.inr h'))).mok
  | _ => cases h; exact hv

theorem resolveOperand_mok {o o' : Operand} {row : InstrRow} {t : SymTab}
    (h : resolveOperand o row t = .ok o') (hx : o.value.MOK) : o'.value.MOK := by
  have h1 : ∀ {y : R Value}, y.map (fun v => { o with left := .val v }) = .ok o' → o'.value = o.value := by
    intro y hy; cases y <;> cases hy; rfl
  unfold resolveOperand at h
  split at h
  · cases h; exact hx
  · split at h
    · split at h
      · cases h
      · split at h
        · cases hr : o.value.resolve t with
          | error e => rw [hr] at h; cases h
          | ok v => rw [hr] at h; cases h; exact resolve_mok hx hr
        · cases h; exact hx
    · cases h; exact hx
  · split at h
    · split at h
      · rw [h1 h]; exact hx
      · cases h; exact hx
    · cases h; exact hx
  · split at h
    · cases hr : o.value.resolve t with
      | error e => rw [hr] at h; cases h
      | ok v => rw [hr] at h; cases h; exact resolve_mok hx hr
    · split at h
      · split at h
        · rw [h1 h]; exact hx
        · cases h; exact hx
      · cases h
  · split at h
    · cases h
    · rename_i v hr
      repeat' split at h
      all_goals first
        | (cases h; done)
        | (cases h; exact resolve_mok hx hr)
        | (obtain ⟨a, ha, hf⟩ := map_ok h; subst hf; exact (numericOfInt_nm ha).mok)

/-! ### `translate` -/

/-- op code and post byte of a package are no literal lists, and a literal list in the operand field holds hex
strings -/
structure PkgMOK (p : Pkg) : Prop where
  op : p.opCode.NM
  pb : p.postByte.NM
  addl : p.additional.MOK

macro "nm_tac" : tactic =>
  `(tactic| first | exact opVal_nm ‹_› | exact numV_nm ‹_› | exact numericOfInt_nm ‹_› | exact ⟨rfl, rfl⟩)

macro "mok_tac" : tactic =>
  `(tactic| first | assumption | exact Value.NM.mok (by nm_tac) | trivial)

theorem offBody_mok {ind : Bool} {row : InstrRow} {right : Str} {raw0 : Nat} {needs : Bool} {l : Value}
    {p : Pkg} (hl : l.MOK) (h : offBody ind row right raw0 needs l = .ok p) : PkgMOK p := by
  unfold offBody at h
  simp only [bind, Except.bind, pure, Except.pure, throw, throwThe, MonadExceptOf.throw] at h
  repeat' split at h
  all_goals first
    | (cases h; done)
    | (cases h; exact ⟨by nm_tac, by nm_tac, by mok_tac⟩)

theorem translateOffset_mok {ind : Bool} {row : InstrRow} {left : Value} {right : Str}
    {raw0 : Nat} {p : Pkg} (hl : left.MOK) (h : translateOffset ind row left right raw0 = .ok p) : PkgMOK p := by
  rw [translateOffset_eq] at h
  split at h
  · cases h
  · split at h
    · cases h
    · split at h
      · rename_i l hnum
        exact offBody_mok (numV_nm hnum).mok h
      · cases h
    · exact offBody_mok hl h

theorem translateIndexed_mok {row : InstrRow} {o : Operand} {p : Pkg} (hleft : ∀ v, o.left = .val v → v.MOK)
    (h : translateIndexed o row = .ok p) : PkgMOK p := by
  unfold translateIndexed at h
  rcases o with ⟨kind, text, value, left, right⟩
  dsimp only at hleft
  cases left <;> cases right
  all_goals simp only [bind, Except.bind, pure, Except.pure, throw, throwThe, MonadExceptOf.throw, Bool.and_false, Bool.false_eq_true, if_false] at h
  case val.some =>
    generalize translateIndexed.match_3 (fun x => Bool) (Side.val _) _ _ _ = b at h
    repeat' split at h
    all_goals first
    | (cases h; done)
    | (cases h; exact ⟨by nm_tac, by nm_tac, by mok_tac⟩)
    | exact translateOffset_mok (hleft _ rfl) h
  case text.some =>
    generalize translateIndexed.match_3 (fun x => Bool) (Side.text _) _ _ _ = b at h
    repeat' split at h
    all_goals first
    | (cases h; done)
    | (cases h; exact ⟨by nm_tac, by nm_tac, by mok_tac⟩)
  all_goals
    repeat' split at h
    all_goals first
    | (cases h; done)

theorem translateExtIndirect_mok {row : InstrRow} {o : Operand} {p : Pkg} (hval : o.value.MOK)
    (hleft : ∀ v, o.left = .val v → v.MOK) (h : translateExtIndirect o row = .ok p) : PkgMOK p := by
  rcases o with ⟨kind, text, value, left, right⟩
  dsimp only at hleft hval
  cases left <;> cases right
  case val.some =>
    unfold translateExtIndirect at h
    simp only [bind, Except.bind, pure, Except.pure, throw, throwThe, MonadExceptOf.throw, Bool.and_false,
      Bool.false_eq_true, if_false] at h
    generalize translateIndexed.match_3 (fun x => Bool) (Side.val _) _ _ _ = b at h
    by_cases hc : (row.ind.isNone || row.ind == some 0) = true
    · rw [if_pos hc] at h; cases h
    rw [if_neg hc] at h
    repeat' split at h
    all_goals first
    | (cases h; done)
    | (cases h; exact ⟨by nm_tac, by nm_tac, by mok_tac⟩)
    | exact translateOffset_mok (hleft _ rfl) h
  case text.some =>
    unfold translateExtIndirect at h
    simp only [bind, Except.bind, pure, Except.pure, throw, throwThe, MonadExceptOf.throw, Bool.and_false,
      Bool.false_eq_true, if_false] at h
    generalize translateIndexed.match_3 (fun x => Bool) (Side.text _) _ _ _ = b at h
    generalize (if (_ == ['A']) = true then 22 else if (_ == ['B']) = true then 21 else 27 : Nat) = k at h
    by_cases hc : (row.ind.isNone || row.ind == some 0) = true
    · rw [if_pos hc] at h; cases h
    rw [if_neg hc] at h
    repeat' split at h
    all_goals first
    | (cases h; done)
    | (cases h; exact ⟨by nm_tac, by nm_tac, by mok_tac⟩)
    | exact translateOffset_mok (createV_nm ‹createV _ _ _ = .ok _›).mok h
  all_goals
    unfold translateExtIndirect at h
    simp only [bind, Except.bind, pure, Except.pure, throw, throwThe, MonadExceptOf.throw, Bool.and_false,
      Bool.false_eq_true, if_false] at h
    repeat' split at h
    all_goals first
    | (cases h; done)
    | (cases h; exact ⟨by nm_tac, by nm_tac, by mok_tac⟩)

theorem translatePseudo_mok {row : InstrRow} {o : Operand} {p : Pkg} (hval : o.value.MOK)
    (h : translatePseudo o row = .ok p) : PkgMOK p := by
  unfold translatePseudo at h
  simp only [bind, Except.bind, pure, Except.pure, throw, throwThe, MonadExceptOf.throw] at h
  repeat' split at h
  all_goals first
    | (cases h; done)
    | (cases h; exact ⟨by nm_tac, by nm_tac, by mok_tac⟩)

theorem translateSpecial_mok {row : InstrRow} {o : Operand} {p : Pkg}
    (h : translateSpecial o row = .ok p) : PkgMOK p := by
  unfold translateSpecial at h
  simp only [bind, Except.bind, pure, Except.pure, throw, throwThe, MonadExceptOf.throw] at h
  repeat' split at h
  all_goals first
    | (cases h; done)
    | (cases h; exact ⟨by nm_tac, by nm_tac, by mok_tac⟩)

/-- what `translate` puts into the package -/
theorem translateOperand_mok {row : InstrRow} {o : Operand} {p : Pkg} (hval : o.value.MOK)
    (hleft : ∀ v, o.left = .val v → v.MOK) (h : translateOperand o row = .ok p) : PkgMOK p := by
  unfold translateOperand at h
  cases hk : o.kind <;> simp only [hk] at h
  case pseudo => exact translatePseudo_mok hval h
  case special => exact translateSpecial_mok h
  case indexed => exact translateIndexed_mok hleft h
  case extIndirect => exact translateExtIndirect_mok hval hleft h
  all_goals
    try simp only [bind, Except.bind, pure, Except.pure, throw, throwThe, MonadExceptOf.throw] at h
    repeat' split at h
    all_goals first
      | (cases h; done)
      | (cases h; exact ⟨by nm_tac, by nm_tac, by mok_tac⟩)

/-! ### the PCR size loop stores post bytes out of `numV` -/

/-- the post byte stays what it is or becomes a number -/
def PbNM (s s' : Stmt) : Prop := s.pkg.postByte.NM → s'.pkg.postByte.NM

theorem PbNM.refl (s : Stmt) : PbNM s s := fun h => h
theorem PbNM.trans {a b c : Stmt} (h1 : PbNM a b) (h2 : PbNM b c) : PbNM a c := fun h => h2 (h1 h)

theorem settle_pbnm {s s' : Stmt} {e h c : Nat} (hs : settle s e h c = some s') : PbNM s s' := by
  unfold settle at hs
  cases hp : orPost s c with
  | none => simp [hp] at hs
  | some pb =>
    simp [hp] at hs; subst hs
    intro _
    unfold orPost at hp
    split at hp
    · split at hp
      · rename_i v hv
        cases hp
        exact numV_nm hv
      · cases hp
    · cases hp

theorem determine_pbnm {ss : List Stmt} {i : Nat} {s s' : Stmt} (h : determine ss i s = .ok s') : PbNM s s' := by
  rcases determine_cases ss i s with h1 | h1 | h1 | ⟨e, hh, c, s'', hs, h1⟩ <;> rw [h1] at h <;> cases h
  · exact .refl _
  · exact settle_pbnm hs

theorem pcrPass_pbnm (n : Nat) (ss : List Stmt) (i : Nat) (p : Bool) {ss' : List Stmt} {p' : Bool}
    (h : pcrPass n ss i p = .ok (ss', p')) : PW PbNM ss ss' := by
  induction n generalizing ss i p with
  | zero => simp [pcrPass] at h; obtain ⟨rfl, rfl⟩ := h; exact .refl PbNM.refl _
  | succ n ih =>
    unfold pcrPass at h
    split at h
    · simp at h; obtain ⟨rfl, rfl⟩ := h; exact .refl PbNM.refl _
    · rename_i s hs
      split at h
      · exact ih _ _ _ h
      · split at h
        · rename_i s' hd
          exact (PW.set PbNM.refl hs (determine_pbnm hd)).trans (ih _ _ _ h) (fun _ _ _ => PbNM.trans)
        · cases h
        · cases h
        · cases h

theorem forceFirst_pbnm {ss ss' : List Stmt} (h : forceFirst ss = some ss') : PW PbNM ss ss' := by
  induction ss generalizing ss' with
  | nil => simp [forceFirst] at h; subst h; exact .nil
  | cons s r ih =>
    unfold forceFirst at h
    split at h
    · cases hr : forceFirst r with
      | none => simp [hr] at h
      | some r' => simp [hr] at h; subst h; exact .cons (.refl _) (ih hr)
    · split at h
      · rename_i c0 c1 _
        cases hs : settle s 2 4 c1 with
        | none => simp [hs] at h
        | some s' => simp [hs] at h; subst h; exact .cons (settle_pbnm hs) (.refl PbNM.refl _)
      · cases h

theorem pcrLoop_pbnm (fuel : Nat) (ss : List Stmt) {ss' : List Stmt} (h : pcrLoop fuel ss = .ok ss') :
    PW PbNM ss ss' := by
  induction fuel generalizing ss with
  | zero =>
    unfold pcrLoop at h
    split at h
    · cases h; exact .refl PbNM.refl _
    · cases h
  | succ fuel ih =>
    unfold pcrLoop at h
    split at h
    · cases h; exact .refl PbNM.refl _
    · split at h
      · rename_i ss1 hp
        exact (pcrPass_pbnm _ _ _ _ hp).trans (ih _ h) (fun _ _ _ => PbNM.trans)
      · rename_i ss1 hp
        split at h
        · rename_i ss2 hf
          exact ((pcrPass_pbnm _ _ _ _ hp).trans (forceFirst_pbnm hf) (fun _ _ _ => PbNM.trans)).trans (ih _ h)
            (fun _ _ _ => PbNM.trans)
        · cases h
      · cases h
      · cases h
      · cases h

/-! ### `fit_operand_width` stores a number or nothing -/

theorem fitWidth_addl {s s' : Stmt} (h : fitWidth s = .ok s') :
    s'.pkg.additional = s.pkg.additional ∨ s'.pkg.additional.NM := by
  unfold fitWidth at h
  split at h
  · cases h; exact .inl rfl
  · split at h
    · split at h
      · dsimp only at h
        split at h
        · split at h
          · rename_i v hv
            cases h
            exact .inr (fitNum_nm hv)
          · cases h
        · cases h
      · cases h
    · cases h; exact .inl rfl

/-! ### (batch 8) the list pass: an evaluated element is `hex()` of a fitted number -/

theorem evalElem_hexStr {ss : List Stmt} {t : SymTab} {w : Nat} {x h : Str} (he : evalElem ss t w x = .ok h) :
    HexStr h := by
  rw [evalElem_eq] at he
  split at he
  · cases he
  · split at he
    · cases he
    · obtain ⟨n, a, b, neg, f, _, hf, hh⟩ := elemRender_ok he
      exact (fitNum_nm hf).mok.hex hh

theorem evalElems_hexStr {ss : List Stmt} {t : SymTab} {w : Nat} (hw : w = 2 ∨ w = 4) {xs hs r : List Str}
    (h : evalElems ss t w xs hs = .ok r) (hall : ∀ g ∈ hs, HexStr g) : ∀ g ∈ r, HexStr g := by
  intro g hg
  obtain ⟨j, hj⟩ := List.mem_iff_getElem?.mp hg
  obtain ⟨x, h0, _, hh0, hc⟩ := evalElems_get hw h hj
  rcases hc with ⟨_, rfl⟩ | ⟨_, he, _⟩
  · exact hall _ (List.mem_of_getElem? hh0)
  · exact evalElem_hexStr he

theorem evalList1_mok {t : SymTab} {ss : List Stmt} {s s' : Stmt} (h : evalList1 t ss s = .ok s')
    (hm : s.pkg.additional.MOK) : s'.pkg.additional.MOK := by
  rcases evalList1_additional h with ⟨hs, hs', ha, ha', hev⟩ | ⟨hs, hs', ha, ha', hev⟩ | ⟨_, _, rfl⟩
  · rw [ha] at hm
    rw [ha']
    exact evalElems_hexStr (.inl rfl) hev hm
  · rw [ha] at hm
    rw [ha']
    exact evalElems_hexStr (.inr rfl) hev hm
  · exact hm

/-! ### every statement of an accepted program -/

/-- op code, post byte and operand field of a statement of an accepted program -/
theorem Stages.stmt_mok {fs : Files} {lines : List Str} {a : Assembly} (st : Stages fs lines a)
    {i : Nat} {s : Stmt} (hs : a.stmts[i]? = some s) :
    s.pkg.opCode.MOK ∧ s.pkg.postByte.MOK ∧ s.pkg.additional.MOK := by
  obtain ⟨tr⟩ := st.trace hs
  have hval : tr.o.value.MOK := resolveOperand_mok tr.hres tr.parsed.mok
  have hleft : ∀ v, tr.o.left = .val v → v.MOK := fun v hv => (Value.NM.of_fieldable (tr.shape1.left1 v hv)).mok
  have hp := translateOperand_mok hval hleft tr.htr
  have hpb3 : tr.s3.pkg.postByte.NM := (pcrLoop_pbnm _ _ st.hpcr).2 i _ _ tr.h2 tr.h3 hp.pb
  obtain ⟨sz3, mx3, pb3, hint3, fx3, e3⟩ := tr.pcr
  obtain ⟨ad4, e4⟩ := tr.addr
  obtain ⟨vf, ef⟩ := fixOne_same tr.hfix
  obtain ⟨vw, ew⟩ := fitWidth_same tr.hfit
  obtain ⟨vl, el⟩ := evalList1_same tr.hlist
  have hop : s.pkg.opCode = tr.p.opCode := by
    have e0 := congrArg (fun x => x.pkg.opCode) el
    have e1 := congrArg (fun x => x.pkg.opCode) ew
    have e2 := congrArg (fun x => x.pkg.opCode) ef
    have e3' := congrArg (fun x => x.pkg.opCode) e4
    have e4' := congrArg (fun x => x.pkg.opCode) e3
    exact e0.trans (e1.trans (e2.trans (e3'.trans e4')))
  have hpb : s.pkg.postByte = tr.s3.pkg.postByte := by
    have e0 := congrArg (fun x => x.pkg.postByte) el
    have e1 := congrArg (fun x => x.pkg.postByte) ew
    have e2 := congrArg (fun x => x.pkg.postByte) ef
    have e3' := congrArg (fun x => x.pkg.postByte) e4
    exact e0.trans (e1.trans (e2.trans e3'))
  have h4 : tr.s4.pkg.additional = tr.p.additional := by
    have e3' := congrArg (fun x => x.pkg.additional) e4
    have e4' := congrArg (fun x => x.pkg.additional) e3
    exact e3'.trans e4'
  refine ⟨by rw [hop]; exact hp.op.mok, by rw [hpb]; exact hpb3.mok, ?_⟩
  have hsf : tr.sf.pkg.additional.MOK := by
    rcases fixOne_field st.addr4_numeric tr.hfix with hn | ⟨e5, _⟩
    · exact (Value.NM.of_numeric hn).mok
    · rw [e5, h4]; exact hp.addl
  refine evalList1_mok tr.hlist ?_
  rcases fitWidth_addl tr.hfit with e | hn
  · rw [e]; exact hsf
  · exact hn.mok

/-- **the image consists of bytes** -/
theorem image_bytes {fs : Files} {lines : List Str} {a : Assembly} {img : Bytes}
    (h : assemble fs lines = .ok a) (hi : a.image = some img) : ∀ b ∈ img, b < 256 := by
  obtain ⟨st⟩ := assemble_stages h
  obtain ⟨bs, hbs, rfl⟩ := image_eq hi
  obtain ⟨hpw, _⟩ := mapM_some hbs
  intro b hb
  obtain ⟨x, hx, hbx⟩ := List.mem_flatten.mp hb
  obtain ⟨j, hj⟩ := List.mem_iff_getElem?.mp hx
  obtain ⟨s, hs, hsb⟩ := hpw.get' hj
  obtain ⟨h1, h2, h3⟩ := st.stmt_mok hs
  exact stmtBytes_lt h1 h2 h3 hsb b hbx

end CoCo.Asm

/-! ## the origin -/

namespace CoCo.Asm
open CoCo
open CoCo.Gen (InstrRow)

/-- a number carries one of the size hints the parser gives -/
def NumHint (v : Value) : Prop := ∀ i h m n, v = .numeric i h m n → HintOK h

theorem PV.numHint {v : Value} (h : PV v) : NumHint v := by
  intro i hh m n hv; subst hv; exact h

theorem resolve_numHint {t : SymTab} {v r : Value} (hv : NumHint v) (h : v.resolve t = .ok r) : NumHint r := by
  cases v with
  | symbol name m =>
    rw [resolve_eq_step] at h
    simp only [resolveStep] at h
    split at h
    · cases h
    · unfold symPost at h
      split at h
      · split at h
        · cases h; intro i hh m n hv; cases hv
        · cases h
      · split at h
        · split at h
          · exact (numericOfInt_pv (.inl rfl) h).numHint
          · cases h
        · cases h
  | expr l r' op m ae =>
    rw [resolve_expr_eq] at h
    split at h
    · unfold resolveExprCore at h
      dsimp only at h
      repeat' split at h
      all_goals first
        | (cases h; done)
        | (cases h; intro i hh m n hv; cases hv; done)
        | (simp only [Except.ok.injEq] at h; subst h; exact (numericOfStr_pv (.inl rfl) ‹_›).1.numHint)
    · cases h
  | _ => cases h; exact hv

/-- `resolve_symbols` on the operand of a directive -/
theorem resolveOperand_pseudo_numHint {o o' : Operand} {row : InstrRow} {t : SymTab} (hk : o.kind = .pseudo)
    (hv : NumHint o.value) (h : resolveOperand o row t = .ok o') : NumHint o'.value := by
  unfold resolveOperand at h
  rw [hk] at h
  dsimp only at h
  split at h
  · split at h
    · cases h
    · split at h
      · cases hr : o.value.resolve t with
        | error e => rw [hr] at h; cases h
        | ok v => rw [hr] at h; cases h; exact resolve_numHint hv hr
      · cases h; exact hv
  · cases h; exact hv

/-- the ORG branch of `translatePseudo`: "not an address" unless the operand is a non-negative number -/
theorem translatePseudo_org_nonneg {o : Operand} {row : InstrRow} {p : Pkg} (hm : row.mnemonic = "ORG")
    (h : translatePseudo o row = .ok p) : o.value.isNegative = false := by
  unfold translatePseudo at h
  have e1 : (("ORG" : String) == "FCB") = false := by decide
  have e2 : (("ORG" : String) == "FDB") = false := by decide
  have e3 : (("ORG" : String) == "RMB") = false := by decide
  have e4 : (("ORG" : String) == "ORG") = true := by decide
  simp only [hm, e1, e2, e3, e4, bind, Except.bind, pure, Except.pure, throw, throwThe, MonadExceptOf.throw,
    Bool.false_eq_true, if_false, if_true] at h
  split at h
  · cases h
  · split at h
    · cases h
    · rename_i hcond
      cases hn : o.value.isNegative with
      | false => rfl
      | true => simp [hn] at hcond

/-- what an origin is: `NoneValue`, or a non-negative number of 16 bits with one of the parser's size hints -/
def OrgVal (v : Value) : Prop := v = .none ∨ ∃ i h m, v = .numeric i h m false ∧ i ≤ 65535 ∧ HintOK h

/-- the address of an ORG statement of an accepted program -/
theorem Stages.org_address {fs : Files} {lines : List Str} {a : Assembly} (st : Stages fs lines a)
    (hacc : assemble fs lines = .ok a) {i : Nat} {s : Stmt} (hs : a.stmts[i]? = some s)
    (hm : s.row.mnemonic = "ORG") : OrgVal s.pkg.address := by
  obtain ⟨hadr, hnum⟩ := Props.C02_org_final hacc hs hm
  obtain ⟨tr⟩ := st.trace hs
  have hrow : s.row = tr.s0.row := tr.row_eq
  have hop : s.operand = tr.o := tr.operand_eq
  rw [hrow] at hm
  have hp := org_pseudo _ tr.parsed.1 hm
  obtain ⟨txt, hcr⟩ := tr.parsed.2
  have hk0 : tr.s0.operand.kind = .pseudo := (createOperand_kind hcr).1 hp
  have hk : tr.o.kind = .pseudo := (resolveOperand_kind_pseudo tr.hres).2 hk0
  -- the size hint
  obtain ⟨_, _, _, _, f5, _, _, _⟩ := rowFacts_multi tr.rowFacts
  have hint : NumHint tr.o.value :=
    resolveOperand_pseudo_numHint hk0 (createOperand_shape0 hcr f5).pv.numHint tr.hres
  -- the magnitude
  have hpar := expand_parsed st.hparse st.hexpand
  obtain ⟨ht, _, _⟩ := translated_good hpar st.hsym st.hresolve st.htranslate
  have hgood : tr.o.value.Good st.ss0.length := (resolveOperand_res ht (createOperand_init hcr) tr.hres).good
  -- the sign
  have hneg : tr.o.value.isNegative = false := by
    have htr := tr.htr
    unfold translateOperand at htr
    rw [hk] at htr
    exact translatePseudo_org_nonneg hm htr
  rw [hadr, hop]
  rw [hop] at hnum
  cases hv : tr.o.value with
  | numeric i hh m n =>
    rw [hv] at hneg hgood
    have : n = false := hneg
    subst this
    exact .inr ⟨i, hh, m, rfl, hgood, hint i hh m false hv⟩
  | _ => rw [hv] at hnum; cases hnum

theorem originScan_cases (ss : List Stmt) (o : Value) :
    originScan ss o = o ∨ ∃ s ∈ ss, s.row.isOrigin = true ∧ originScan ss o = s.pkg.address := by
  induction ss generalizing o with
  | nil => exact .inl rfl
  | cons s rest ih =>
    have e : originScan (s :: rest) o = originScan rest (if s.row.isOrigin then s.pkg.address else o) := rfl
    rw [e]
    rcases ih (if s.row.isOrigin then s.pkg.address else o) with h | ⟨x, hx, hxo, h⟩
    · by_cases ho : s.row.isOrigin = true
      · right
        refine ⟨s, by simp, ho, ?_⟩
        rw [h, if_pos ho]
      · left
        rw [h, if_neg ho]
    · exact .inr ⟨x, by simp [hx], hxo, h⟩

/-- **the origin of an accepted program** is `NoneValue` or a non-negative 16-bit number -/
theorem assemble_origin_val {fs : Files} {lines : List Str} {a : Assembly} (h : assemble fs lines = .ok a) :
    OrgVal a.origin := by
  obtain ⟨st⟩ := assemble_stages h
  rw [assemble_origin h]
  rcases originScan_cases a.stmts Value.none with e | ⟨s, hs, ho, e⟩
  · rw [e]; exact .inl rfl
  · rw [e]
    obtain ⟨j, hj⟩ := List.mem_iff_getElem?.mp hs
    exact st.org_address h hj ((st.isOrigin_iff hj).1 ho)

end CoCo.Asm

namespace CoCo.VF
open CoCo CoCo.Asm

theorem byteAt_lt {cs : List Char} (h : HexStr cs) (hl : cs.length ≤ 2) : byteAt cs < 256 := by
  match cs, h, hl with
  | [], _, _ => simp [byteAt]
  | [a], h, _ =>
    have := h a (by simp)
    simp [byteAt]; omega
  | [a, b], h, _ =>
    have h1 := h a (by simp)
    have h2 := h b (by simp)
    simp [byteAt]; omega
  | _ :: _ :: _ :: _, _, hl => simp at hl

/-- the address `main` reads off a hex string of at most four hex digits -/
theorem originAddr_lt_of {o : Value} (h : ∀ hx, o.hex? = some hx → HexStr hx ∧ hx.length ≤ 4) :
    originAddr o < 65536 := by
  have hh : HexStr ((o.hex?).getD []) ∧ ((o.hex?).getD []).length ≤ 4 := by
    cases hx : o.hex? with
    | none => exact ⟨HexStr.nil, by simp⟩
    | some x => exact h x hx
  unfold originAddr
  generalize (o.hex?).getD [] = hx at hh
  generalize (o.hexLen?).getD 0 = hl
  have h1 : byteAt (hx.take 2) < 256 :=
    byteAt_lt (fun c hc => hh.1 c (List.mem_of_mem_take hc)) (by simp; omega)
  have h2 : byteAt (hx.drop 2) < 256 :=
    byteAt_lt (fun c hc => hh.1 c (List.mem_of_mem_drop hc)) (by simp; omega)
  dsimp only
  generalize byteAt (hx.take 2) = x at h1 ⊢
  generalize byteAt (hx.drop 2) = y at h2 ⊢
  have hhi : (if hl ≤ 2 then 0 else x) ≤ 255 := by split <;> omega
  have hlo : (if hl = 0 then 0 else if hl ≤ 2 then x else y) ≤ 255 := by
    split
    · omega
    · split <;> omega
  generalize (if hl ≤ 2 then 0 else x) = a at hhi ⊢
  generalize (if hl = 0 then 0 else if hl ≤ 2 then x else y) = b at hlo ⊢
  omega

theorem fmtHex_length (w v : Nat) : (fmtHex w v).length = max w (natHexF 20 v).length := by
  unfold fmtHex
  simp only [List.length_append, List.length_replicate, List.length_map]
  omega

theorem numHex_length_le {i : Nat} {h : Option Nat} (hi : i < 65536) (hh : HintOK h) :
    (numHex i h false).length ≤ 4 := by
  have hl := natHexF_len i hi
  have hn : (natHexF 20 i).length = 1 ∨ (natHexF 20 i).length = 2 ∨ (natHexF 20 i).length = 3 ∨
      (natHexF 20 i).length = 4 := by
    rw [hl]; split
    · exact .inl rfl
    · split
      · exact .inr (.inl rfl)
      · split
        · exact .inr (.inr (.inl rfl))
        · exact .inr (.inr (.inr rfl))
  unfold numHex
  simp only [Bool.false_and, Bool.false_eq_true, if_false, getNegative, Bool.not_false, if_true, fmtHex_length,
    numHexLen]
  rcases hh with rfl | rfl | rfl <;> rcases hn with e | e | e | e <;> simp [e]

/-- **the load address** `main` derives from the origin of an accepted program is a 16-bit address -/
theorem originAddr_lt {fs : Files} {lines : List Str} {a : Assembly} (h : assemble fs lines = .ok a) :
    originAddr a.origin < 65536 := by
  apply originAddr_lt_of
  intro hx hhx
  rcases assemble_origin_val h with e | ⟨i, hh, m, e, hi, hhint⟩
  · rw [e] at hhx; cases hhx; exact ⟨HexStr.nil, by simp⟩
  · rw [e] at hhx
    cases hhx
    exact ⟨numHex_hexStr _ _ _ _, numHex_length_le (by omega) hhint⟩

end CoCo.VF
