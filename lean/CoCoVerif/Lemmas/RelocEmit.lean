/-
Lemmas/RelocEmit.lean — relocation (C18-R1), part 4: emitted bytes and the final symbol table.
-/
import CoCoVerif.Lemmas.RelocOne

namespace CoCo.Asm
open CoCo

/-! ### bytes -/

/-- the emitted bytes do not depend on the statement's address -/
theorem stmtBytes_setAddress (s : Stmt) (v : Value) : stmtBytes (s.setAddress v) = stmtBytes s := rfl

/-- a wide address value is emitted as its two bytes, big endian; so is the moved value -/
theorem emit_wide {D : Nat} {v v' : Value} (h : WideAddr D v v') :
    ∃ x, v.int? = some x ∧ v'.int? = some (x + D) ∧ x + D < 65536 ∧
      emitValue v = some [x / 256, x % 256] ∧ emitValue v' = some [(x + D) / 256, (x + D) % 256] := by
  obtain ⟨a, hh, m, rfl, rfl, hc, hlt⟩ := h
  refine ⟨a, rfl, rfl, hlt, ?_, ?_⟩
  · exact emit_word m (by omega) hc
  · refine emit_word m hlt ?_
    rcases hc with hc | ⟨hc, h256⟩
    · exact .inl hc
    · exact .inr ⟨hc, by omega⟩

/-- (c, moved) if the operand field holds a wide address value, the emitted bytes end with that address,
and after moving the field by `D` they end with the address plus `D`; everything before is unchanged -/
theorem stmtBytes_shiftAdditional {D : Nat} {t : Stmt} {w : Value} (hw : WideAddr D t.pkg.additional w)
    {bs : Bytes} (hb : stmtBytes t = some bs) :
    ∃ pre x, t.pkg.additional.int? = some x ∧ x + D < 65536 ∧ bs = pre ++ [x / 256, x % 256] ∧
      stmtBytes (t.shiftAdditional D) = some (pre ++ [(x + D) / 256, (x + D) % 256]) := by
  obtain ⟨x, hx, _, hlt, e1, e2⟩ := emit_wide hw
  have hw' : w = shiftV D t.pkg.additional := hw.shiftV
  unfold stmtBytes at hb ⊢
  have e3 : (t.shiftAdditional D).pkg.additional = w := hw'.symm
  have e4 : (t.shiftAdditional D).pkg.opCode = t.pkg.opCode := rfl
  have e5 : (t.shiftAdditional D).pkg.postByte = t.pkg.postByte := rfl
  rw [e3, e4, e5, e2]
  rw [e1] at hb
  cases ha : emitValue t.pkg.opCode with
  | none => rw [ha] at hb; simp at hb
  | some a =>
    cases hp : emitValue t.pkg.postByte with
    | none => rw [ha, hp] at hb; simp at hb
    | some p =>
      rw [ha, hp] at hb
      simp only [Option.bind_eq_bind, Option.bind_some, Option.pure_def, Option.some.injEq] at hb ⊢
      exact ⟨a ++ p, x, hx, hlt, hb.symm, rfl⟩

/-! ### the final symbol table -/

/-- (d) the final symbol table of the relocated program: entries that were statement indices (labels) move
by `D`, all other entries (EQU values) are unchanged; one is accepted iff the other is -/
theorem finalSymTab_reloc {D : Nat} {fs fs' : List Stmt} (h : PW (AddrShift D) fs fs') (t : SymTab) :
    finalSymTab fs' t =
      (finalSymTab fs t).map (fun r =>
        List.zipWith (fun (kv kw : Str × Value) => (kw.1, if kv.2.isAddress then shiftV D kw.2 else kw.2)) t r) := by
  induction t with
  | nil => rfl
  | cons kv rest ih =>
    obtain ⟨k, v⟩ := kv
    rw [finalSymTab, finalSymTab, ih]
    cases finalSymTab fs rest with
    | ok r =>
      simp only [Outcome.map_ok]
      cases v with
      | address i m =>
        dsimp only
        rw [addrOf_reloc h]
        cases addrOf fs i <;> rfl
      | pyNone => rfl
      | _ => rfl
    | _ => rfl

theorem finalSymTab_length {ss : List Stmt} : ∀ {t r : SymTab}, finalSymTab ss t = .ok r → r.length = t.length := by
  intro t
  induction t with
  | nil => intro r h; simp [finalSymTab] at h; subst h; rfl
  | cons kv rest ih =>
    intro r h
    obtain ⟨k, v⟩ := kv
    rw [finalSymTab] at h
    cases hr : finalSymTab ss rest with
    | ok r0 =>
      rw [hr] at h
      have := ih hr
      cases v with
      | address i m =>
        dsimp only at h
        cases ha : addrOf ss i with
        | none => rw [ha] at h; cases h
        | some a => rw [ha] at h; cases h; simp [this]
      | pyNone => cases h
      | _ => cases h; simp [this]
    | _ => rw [hr] at h; cases h

/-- (d), pointwise: entry `j` of the two final tables -/
theorem finalSymTab_reloc_get {D : Nat} {fs fs' : List Stmt} (h : PW (AddrShift D) fs fs') {t r r' : SymTab}
    (h1 : finalSymTab fs t = .ok r) (h2 : finalSymTab fs' t = .ok r') {j : Nat} {k : Str} {v : Value}
    (hj : t[j]? = some (k, v)) :
    ∃ kw, r[j]? = some kw ∧ r'[j]? = some (kw.1, if v.isAddress then shiftV D kw.2 else kw.2) := by
  rw [finalSymTab_reloc h, h1] at h2
  simp only [Outcome.map_ok, Outcome.ok.injEq] at h2
  subst h2
  have hl := finalSymTab_length h1
  have hjl : j < t.length := (List.getElem?_eq_some_iff.mp hj).1
  have hjr : j < r.length := by omega
  refine ⟨r[j], List.getElem?_eq_getElem hjr, ?_⟩
  rw [List.getElem?_zipWith, hj, List.getElem?_eq_getElem hjr]

end CoCo.Asm
