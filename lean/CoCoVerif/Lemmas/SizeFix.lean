/-
Lemmas/SizeFix.lean — property C02 "bytes = size", the stages after `translate`: the PCR loop keeps op code and
post byte numbers out of `numV`; statement addresses are numbers; `fix_addresses` either leaves the operand
field alone or stores a number.
-/
import CoCoVerif.Lemmas.SizeTranslate

namespace CoCo.Asm
open CoCo
open CoCo.Gen (InstrRow)

/-! ### the PCR loop -/

/-- the post byte stays a `CodeVal` -/
def PbRel (s s' : Stmt) : Prop := CodeVal s.pkg.postByte → CodeVal s'.pkg.postByte

theorem PbRel.refl (s : Stmt) : PbRel s s := fun h => h
theorem PbRel.trans {a b c : Stmt} (h1 : PbRel a b) (h2 : PbRel b c) : PbRel a c := fun h => h2 (h1 h)

theorem settle_pb {s s' : Stmt} {e h c : Nat} (hs : settle s e h c = some s') : PbRel s s' := by
  unfold settle at hs
  cases hp : orPost s c with
  | none => simp [hp] at hs
  | some pb =>
    simp [hp] at hs; subst hs
    intro _
    unfold orPost at hp
    split at hp
    · split at hp
      · rename_i v hv
        cases hp
        exact .inr ⟨_, hv⟩
      · cases hp
    · cases hp

theorem determine_pb {ss : List Stmt} {i : Nat} {s s' : Stmt} (h : determine ss i s = .ok s') : PbRel s s' := by
  rcases determine_cases ss i s with h1 | h1 | h1 | ⟨e, hh, c, s'', hs, h1⟩ <;> rw [h1] at h <;> cases h
  · exact .refl _
  · exact settle_pb hs

theorem pcrPass_pb (n : Nat) (ss : List Stmt) (i : Nat) (p : Bool) {ss' : List Stmt} {p' : Bool}
    (h : pcrPass n ss i p = .ok (ss', p')) : PW PbRel ss ss' := by
  induction n generalizing ss i p with
  | zero => simp [pcrPass] at h; obtain ⟨rfl, rfl⟩ := h; exact .refl PbRel.refl _
  | succ n ih =>
    unfold pcrPass at h
    split at h
    · simp at h; obtain ⟨rfl, rfl⟩ := h; exact .refl PbRel.refl _
    · rename_i s hs
      split at h
      · exact ih _ _ _ h
      · split at h
        · rename_i s' hd
          exact (PW.set PbRel.refl hs (determine_pb hd)).trans (ih _ _ _ h) (fun _ _ _ => PbRel.trans)
        · cases h
        · cases h
        · cases h

theorem forceFirst_pb {ss ss' : List Stmt} (h : forceFirst ss = some ss') : PW PbRel ss ss' := by
  induction ss generalizing ss' with
  | nil => simp [forceFirst] at h; subst h; exact .nil
  | cons s r ih =>
    unfold forceFirst at h
    split at h
    · cases hr : forceFirst r with
      | none => simp [hr] at h
      | some r' => simp [hr] at h; subst h; exact .cons (.refl _) (ih hr)
    · split at h
      · rename_i c0 c1 _
        cases hs : settle s 2 4 c1 with
        | none => simp [hs] at h
        | some s' => simp [hs] at h; subst h; exact .cons (settle_pb hs) (.refl PbRel.refl _)
      · cases h

theorem pcrLoop_pb (fuel : Nat) (ss : List Stmt) {ss' : List Stmt} (h : pcrLoop fuel ss = .ok ss') :
    PW PbRel ss ss' := by
  induction fuel generalizing ss with
  | zero =>
    unfold pcrLoop at h
    split at h
    · cases h; exact .refl PbRel.refl _
    · cases h
  | succ fuel ih =>
    unfold pcrLoop at h
    split at h
    · cases h; exact .refl PbRel.refl _
    · split at h
      · rename_i ss1 hp
        exact (pcrPass_pb _ _ _ _ hp).trans (ih _ h) (fun _ _ _ => PbRel.trans)
      · rename_i ss1 hp
        split at h
        · rename_i ss2 hf
          exact ((pcrPass_pb _ _ _ _ hp).trans (forceFirst_pb hf) (fun _ _ _ => PbRel.trans)).trans (ih _ h)
            (fun _ _ _ => PbRel.trans)
        · cases h
      · cases h
      · cases h
      · cases h

/-! ### statement addresses are numbers -/

theorem assignAddrs_all_numeric : ∀ {l : List Stmt} {a : Nat} {l' : List Stmt}, assignAddrs l a = .ok l' →
    (∀ s ∈ l, s.pkg.address = .none ∨ s.pkg.address.isNumeric = true) →
    ∀ s' ∈ l', s'.pkg.address.isNumeric = true := by
  intro l
  induction l with
  | nil => intro a l' h _ s' hs'; simp [assignAddrs] at h; subst h; simp at hs'
  | cons s rest ih =>
    intro a l' h hl s' hs'
    rw [assignAddrs] at h
    split at h
    · cases hv : numV a with
      | error e => rw [hv] at h; cases h
      | ok v =>
        rw [hv] at h
        dsimp only at h
        cases hr : assignAddrs rest (a + s.pkg.size) with
        | ok r2 =>
          rw [hr] at h
          simp only [Outcome.ok.injEq] at h
          subst h
          rcases List.mem_cons.mp hs' with rfl | hs'
          · exact numV_isNumeric hv
          · exact ih hr (fun x hx => hl x (by simp [hx])) s' hs'
        | _ => rw [hr] at h; cases h
    · rename_i hnn
      cases hv : s.pkg.address.int? with
      | none => rw [hv] at h; cases h
      | some a' =>
        rw [hv] at h
        dsimp only at h
        cases hr : assignAddrs rest (a' + s.pkg.size) with
        | ok r2 =>
          rw [hr] at h
          simp only [Outcome.ok.injEq] at h
          subst h
          rcases List.mem_cons.mp hs' with rfl | hs'
          · rcases hl s' (by simp) with h' | h'
            · rw [h'] at hnn; simp [Value.isNone] at hnn
            · exact h'
          · exact ih hr (fun x hx => hl x (by simp [hx])) s' hs'
        | _ => rw [hr] at h; cases h

/-- the ORG branch of `translatePseudo`: the preset address is a number -/
theorem translatePseudo_org_numeric {o : Operand} {row : InstrRow} {p : Pkg} (hm : row.mnemonic = "ORG")
    (h : translatePseudo o row = .ok p) : p.address.isNumeric = true := by
  unfold translatePseudo at h
  have e1 : (("ORG" : String) == "FCB") = false := by decide
  have e2 : (("ORG" : String) == "FDB") = false := by decide
  have e3 : (("ORG" : String) == "RMB") = false := by decide
  have e4 : (("ORG" : String) == "ORG") = true := by decide
  simp only [hm, e1, e2, e3, e4, bind, Except.bind, pure, Except.pure, throw, throwThe, MonadExceptOf.throw,
    Bool.false_eq_true, if_false, if_true] at h
  split at h
  · cases h
  · split at h
    · cases h
    · rename_i hcond
      cases h
      have hnum : o.value.isNumeric = true := by
        cases hn : o.value.isNumeric with
        | true => rfl
        | false => simp [hn] at hcond
      exact hnum

theorem org_pseudo : ∀ r ∈ Gen.instructions, r.mnemonic = "ORG" → r.isPseudo = true := by decide +kernel

/-! ### what `fix_addresses` does to the operand field -/

theorem addrCombine_numeric {op : Char} {a add : Int} {v : Value} (h : addrCombine op a add = .ok v) :
    v.isNumeric = true := by
  unfold addrCombine at h
  dsimp only at h
  repeat' split at h
  all_goals first
    | (cases h; done)
    | (cases h; exact numericOfInt_isNumeric (by assumption))

/-- `fixOne` stores a number, or leaves the field alone — the latter only for a statement that is not a branch, needs
no resolution and whose operand value is neither a label nor a label expression -/
theorem fixOne_field {ss : List Stmt} {i : Nat} {s sf : Stmt}
    (hss : ∀ j v, addrOf ss j = some v → v.isNumeric = true) (h : fixOne ss i s = .ok sf) :
    sf.pkg.additional.isNumeric = true ∨
      (sf = s ∧ s.pkg.needsRes = false ∧ s.operand.value.isAddress = false ∧ s.operand.value.isAddrExpr = false) := by
  by_cases hk : (s.operand.kind == .relative) = true
  · left
    have hk' : s.operand.kind = .relative := by simpa using hk
    cases hb : s.pkg.additional.int? with
    | none =>
      unfold fixOne at h
      rw [if_pos hk, hb] at h
      cases h
    | some b =>
      rw [fixOne_relative hk' hb] at h
      split at h
      · split at h
        · cases h
        · split at h
          · cases h; exact numericOfInt_isNumeric (by assumption)
          · cases h
      · split at h
        · cases h
        · split at h
          · cases h; exact numericOfInt_isNumeric (by assumption)
          · cases h
  · have hk : (s.operand.kind == .relative) = false := by simpa using hk
    by_cases hv : s.operand.value = .pyNone
    · unfold fixOne at h
      simp only [hk, Bool.false_eq_true, if_false, hv] at h
      cases h
    · rw [fixOne_nonrel ss i s hk hv] at h
      cases h1 : fixStep1 ss s with
      | ok s1 =>
        rw [h1] at h
        simp only [Outcome.bind] at h
        cases h2 : fixStep2 ss s.operand.value s1 with
        | ok s2 =>
          rw [h2] at h
          simp only [Outcome.bind] at h
          -- step 3
          have h3 : sf.pkg.additional.isNumeric = true ∨ (sf = s2 ∧ s2.pkg.needsRes = false) := by
            unfold fixStep3 fixAbs at h
            split at h
            · left
              repeat' split at h
              all_goals first
                | (cases h; done)
                | (cases h; exact numericOfInt_isNumeric (by assumption))
            · rename_i hn
              cases h
              exact .inr ⟨rfl, by simpa using hn⟩
          rcases h3 with h3 | ⟨rfl, hn2⟩
          · exact .inl h3
          · -- step 2
            have h2' : sf.pkg.additional.isNumeric = true ∨ (sf = s1 ∧ s.operand.value.isAddress = false) := by
              unfold fixStep2 at h2
              split at h2
              · left
                repeat' split at h2
                all_goals first
                  | (cases h2; done)
                  | (cases h2; exact hss _ _ (by assumption))
              · rename_i hna
                cases h2
                exact .inr ⟨rfl, by simpa using hna⟩
            rcases h2' with h2' | ⟨rfl, hna⟩
            · exact .inl h2'
            · -- step 1
              unfold fixStep1 at h1
              split at h1
              · left
                cases ho : addrOffset ss s.operand.value with
                | ok v =>
                  rw [ho] at h1
                  cases h1
                  -- the value `addrOffset` returns comes out of `numericOfInt`
                  cases hov : s.operand.value with
                  | expr l r op m ae =>
                    rw [hov, addrOffset_expr] at ho
                    repeat' split at ho
                    all_goals first
                      | (cases ho; done)
                      | exact addrCombine_numeric ho
                  | _ => rw [hov] at ho; simp [addrOffset] at ho
                | diag => rw [ho] at h1; cases h1
                | internal => rw [ho] at h1; cases h1
                | diverged => rw [ho] at h1; cases h1
              · rename_i hne
                cases h1
                right
                exact ⟨rfl, hn2, hna, by simpa using hne⟩
        | _ => rw [h2] at h; cases h
      | _ => rw [h1] at h; cases h

/-- a statement that is not a branch, needs no resolution and has no label in its operand value is left as it is -/
theorem fixOne_still {ss : List Stmt} {i : Nat} {s sf : Stmt} (hk : (s.operand.kind == .relative) = false)
    (hn : s.pkg.needsRes = false) (h1 : s.operand.value.isAddress = false)
    (h2 : s.operand.value.isAddrExpr = false) (h : fixOne ss i s = .ok sf) : sf = s := by
  by_cases hv : s.operand.value = .pyNone
  · unfold fixOne at h
    simp only [hk, Bool.false_eq_true, if_false, hv] at h
    cases h
  · rw [fixOne_nonrel ss i s hk hv] at h
    have e1 : fixStep1 ss s = .ok s := by unfold fixStep1; simp [h2]
    have e2 : fixStep2 ss s.operand.value s = .ok s := by unfold fixStep2; simp [h1]
    have e3 : fixStep3 ss i s = .ok s := by unfold fixStep3; simp [hn]
    rw [e1] at h
    simp only [Outcome.bind] at h
    rw [e2] at h
    simp only [Outcome.bind] at h
    rw [e3] at h
    cases h; rfl

/-! ### operand kind and row class -/

theorem createOperand_kind_rev {s : Str} {row : InstrRow} {o : Operand} (h : createOperand s row = .ok o) :
    (o.kind = .pseudo → row.isPseudo = true) ∧
    (o.kind = .special → row.isPseudo = false ∧ row.isSpecial = true) := by
  obtain ⟨k1, k2, k3, k4⟩ := createOperand_kind h
  cases hp : row.isPseudo with
  | true =>
    have := k1 hp
    exact ⟨fun _ => rfl, fun hk => (by rw [this] at hk; cases hk)⟩
  | false =>
    cases hsp : row.isSpecial with
    | true =>
      have := k2 hp hsp
      exact ⟨fun hk => (by rw [this] at hk; cases hk), fun _ => ⟨rfl, rfl⟩⟩
    | false =>
      cases hb : (row.isShortBranch || row.isLongBranch) with
      | true =>
        have := k3 hp hsp hb
        exact ⟨fun hk => (by rw [this] at hk; cases hk), fun hk => (by rw [this] at hk; cases hk)⟩
      | false =>
        have := k4 hp hsp hb
        refine ⟨fun hk => ?_, fun hk => ?_⟩ <;>
          (rw [hk] at this; rcases this with h | h | h | h | h <;> cases h)

/-- the kind of the resolved operand is pseudo / special exactly when that of the parsed operand is -/
theorem resolveOperand_kind_special {o o' : Operand} {row t} (h : resolveOperand o row t = .ok o') :
    o'.kind = .special → o.kind = .special := by
  intro hk
  rcases resolveOperand_kind h with h' | ⟨_, h' | h'⟩
  · rw [← h']; exact hk
  · rw [hk] at h'; cases h'
  · rw [hk] at h'; cases h'

namespace Trace
variable {fs : Files} {lines : List Str} {a : Assembly} {st : Stages fs lines a} {i : Nat} {s : Stmt}

theorem rowFacts (tr : Trace st i s) : rowFacts tr.s0.row = true := rowFacts_all _ tr.parsed.1

theorem kind_pseudo (tr : Trace st i s) : tr.o.kind = .pseudo → tr.s0.row.isPseudo = true := by
  intro hk
  obtain ⟨txt, hcr⟩ := tr.parsed.2
  exact (createOperand_kind_rev hcr).1 ((resolveOperand_kind_pseudo tr.hres).1 hk)

theorem kind_special (tr : Trace st i s) : tr.o.kind = .special → tr.s0.row.isPseudo = false ∧ tr.s0.row.isSpecial = true := by
  intro hk
  obtain ⟨txt, hcr⟩ := tr.parsed.2
  exact (createOperand_kind_rev hcr).2 (resolveOperand_kind_special tr.hres hk)

/-- the resolved operand of the statement -/
theorem shape1 (tr : Trace st i s) : OpShape1 tr.s0.row tr.o := by
  obtain ⟨txt, hcr⟩ := tr.parsed.2
  obtain ⟨_, _, _, f4, f5, _, _, _⟩ := rowFacts_multi tr.rowFacts
  have h0 := createOperand_shape0 hcr f5
  refine resolveOperand_shape1 h0 ?_ f4 tr.hres
  intro hk
  apply f5
  cases hp : tr.s0.row.isPseudo with
  | false => rfl
  | true => exact absurd ((createOperand_kind hcr).1 hp) hk

/-- the address `translate` presets is absent or a number -/
theorem p_addr (tr : Trace st i s) : tr.p.address = .none ∨ tr.p.address.isNumeric = true := by
  by_cases hn : tr.p.address = .none
  · exact .inl hn
  · right
    have hm := translate_preset tr.htr hn
    have hp := org_pseudo _ tr.parsed.1 hm
    obtain ⟨txt, hcr⟩ := tr.parsed.2
    have hk0 := (createOperand_kind hcr).1 hp
    have hk : tr.o.kind = .pseudo := (resolveOperand_kind_pseudo tr.hres).2 hk0
    have htr := tr.htr
    unfold translateOperand at htr
    rw [hk] at htr
    exact translatePseudo_org_numeric hm htr

/-- PSHS / TFR ..., and the directives other than FCB / FDB (the rows `fitWidth` skips): emitted as translated -/
theorem plainShape (tr : Trace st i s) (hsk : fitSkipped tr.s0.row = true) : PlainShape tr.o tr.p := by
  have hrow := tr.rowFacts
  have sh1 := tr.shape1
  have htr := tr.htr
  have hres := tr.hres
  obtain ⟨_, _, _, _, _, f6, f7, f8⟩ := rowFacts_multi hrow
  obtain ⟨txt, hcr⟩ := tr.parsed.2
  obtain ⟨k1, k2, _, _⟩ := createOperand_kind hcr
  cases hsp : tr.s0.row.isSpecial with
  | true =>
    have hp := f6 hsp
    have hk0 := k2 hp hsp
    have hk : tr.o.kind = .special := by
      rcases resolveOperand_kind hres with h' | ⟨h', _⟩
      · rw [h']; exact hk0
      · rw [hk0] at h'; cases h'
    unfold translateOperand at htr
    rw [hk] at htr
    exact translateSpecial_plain hrow hsp (sh1.nov (.inl hk)) htr
  | false =>
    unfold fitSkipped at hsk
    rw [hsp] at hsk
    simp only [Bool.or_false, Bool.and_eq_true, Bool.not_eq_true', Bool.or_eq_false_iff] at hsk
    obtain ⟨hp, hmb, hmw⟩ := hsk
    have hk : tr.o.kind = .pseudo := (resolveOperand_kind_pseudo hres).2 (k1 hp)
    unfold translateOperand at htr
    rw [hk] at htr
    refine translatePseudo_plain ?_ ?_ (sh1.plain hk) htr
    · intro hm; rw [f7 hm] at hmb; cases hmb
    · intro hm; rw [f8 hm] at hmw; cases hmw

/-- (batch 8) an FCB / FDB list value has one item for every element of the operand text -/
theorem list_count (tr : Trace st i s) (hk : tr.o.kind = .pseudo) :
    ∀ hs, (tr.o.value = .multiByte hs ∨ tr.o.value = .multiWord hs) →
      hs.length = (listElems tr.o.text).length := by
  intro hs hm
  obtain ⟨txt, hcr⟩ := tr.parsed.2
  have hk0 : tr.s0.operand.kind = .pseudo := (resolveOperand_kind_pseudo tr.hres).1 hk
  have hp := (createOperand_kind_rev hcr).1 hk0
  have e := resolveOperand_multi_keep tr.hres hk0 (by rcases hm with hm | hm <;> rw [hm] <;> simp [Value.isMultiByte, Value.isMultiWord])
  rw [e] at hm ⊢
  exact (createOperand_multi_count hcr hp hs hm).1

/-- (batch 8) the rows `fitWidth` skips carry no list: the list pass leaves them alone -/
theorem plain_nolist (tr : Trace st i s) (hsk : fitSkipped tr.s0.row = true) :
    (∀ hs, tr.p.additional ≠ .multiByte hs) ∧ (∀ hs, tr.p.additional ≠ .multiWord hs) := by
  rcases (tr.plainShape hsk).nolist with e | e
  · have key : ∀ hs, (tr.o.value = .multiByte hs ∨ tr.o.value = .multiWord hs) → False := by
      intro hs hm
      have sh1 := tr.shape1
      have hres := tr.hres
      obtain ⟨_, _, _, _, _, f6, _, _⟩ := rowFacts_multi tr.rowFacts
      obtain ⟨txt, hcr⟩ := tr.parsed.2
      obtain ⟨k1, k2, _, _⟩ := createOperand_kind hcr
      cases hsp : tr.s0.row.isSpecial with
      | true =>
        have hp := f6 hsp
        have hk0 := k2 hp hsp
        have hk : tr.o.kind = .special := by
          rcases resolveOperand_kind hres with h' | ⟨h', _⟩
          · rw [h']; exact hk0
          · rw [hk0] at h'; cases h'
        have := sh1.nov (.inl hk)
        rw [this] at hm
        rcases hm with hm | hm <;> cases hm
      | false =>
        unfold fitSkipped at hsk
        rw [hsp] at hsk
        simp only [Bool.or_false, Bool.and_eq_true, Bool.not_eq_true', Bool.or_eq_false_iff] at hsk
        obtain ⟨hp, hmb, hmw⟩ := hsk
        have hk0 := k1 hp
        have e := resolveOperand_multi_keep hres hk0
          (by rcases hm with hm | hm <;> rw [hm] <;> simp [Value.isMultiByte, Value.isMultiWord])
        rw [e] at hm
        have := (createOperand_multi_count hcr hp hs hm).2
        rw [hmb, hmw] at this
        cases this
    rw [e]
    exact ⟨fun hs hh => key hs (.inl hh), fun hs hh => key hs (.inr hh)⟩
  · exact e

end Trace

/-- every statement that enters `fix_addresses` has a number for an address -/
theorem Stages.addr4_numeric {fs : Files} {lines : List Str} {a : Assembly} (st : Stages fs lines a) :
    ∀ j v, addrOf st.ss4 j = some v → v.isNumeric = true := by
  have h3 : ∀ s3 ∈ st.ss3, s3.pkg.address = .none ∨ s3.pkg.address.isNumeric = true := by
    intro s3 hs3
    obtain ⟨j, hj⟩ := List.mem_iff_getElem?.mp hs3
    obtain ⟨s4, hs4, _⟩ := (assignAddrs_pw st.haddr).get hj
    obtain ⟨s, hs, _⟩ := (fixAllL_pw st.hfix).get hs4
    obtain ⟨tr⟩ := st.trace hs
    have : tr.s3 = s3 := by
      have := tr.h3; rw [hj] at this; exact (Option.some.inj this).symm
    subst this
    obtain ⟨_, _, _, _, _, he⟩ := tr.pcr
    rw [he]
    exact tr.p_addr
  have h4 := assignAddrs_all_numeric st.haddr h3
  intro j v hv
  unfold addrOf at hv
  cases hs : st.ss4[j]? with
  | none => rw [hs] at hv; cases hv
  | some s4 =>
    rw [hs] at hv
    simp only [Option.map_some, Option.some.injEq] at hv
    rw [← hv]
    exact h4 s4 (List.mem_of_getElem? hs)

end CoCo.Asm
