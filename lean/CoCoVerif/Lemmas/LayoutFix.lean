/-
Lemmas/LayoutFix.lean — `fixOne` split into its steps; frame property (`fixOne` changes at most
`pkg.additional`); `fixAll` as the pointwise application of `fixOne`; absence of `diverged`.
-/
import CoCoVerif.Lemmas.LayoutTerm
import CoCoVerif.Lemmas.AddrOther
import CoCoVerif.Lemmas.EvalLists

namespace CoCo.Asm
open CoCo

/-- (batch B2) the signed constant of the "other" operand of `label ± k`: a number written or defined with a minus
sign counts negatively (shared by the PcrWidth* and Reloc* families) -/
def signedK (k : Nat) (n : Bool) : Int := if n then -(k : Int) else k

/-! ### `fixOne` in pieces -/

def fixStep1 (ss : List Stmt) (s : Stmt) : Outcome Stmt :=
  if s.operand.value.isAddrExpr then
    (match addrOffset ss s.operand.value with
     | .ok v => .ok { s with pkg := { s.pkg with additional := v } }
     | .diag => .diag | .internal => .internal | .diverged => .diverged)
  else .ok s

def fixStep2 (ss : List Stmt) (ov : Value) (s1 : Stmt) : Outcome Stmt :=
  if ov.isAddress then
    match ov.int? with
    | some t => (match addrOf ss t with | some a => .ok { s1 with pkg := { s1.pkg with additional := a } } | none => .internal)
    | none => .internal
  else .ok s1

def fixRel (ss : List Stmt) (s2 : Stmt) : Outcome Nat :=
  let idx := s2.operand.kind == .indexed || s2.operand.kind == .extIndirect
  let leftV : Option Value := match s2.pkg.additional with | .expr _ _ _ _ true => some s2.pkg.additional | _ => none
  match idx, leftV with
  | true, some e => (match addrOffset ss e with | .ok v => (match v.int? with | some n => .ok n | none => .internal) | .diag => .diag | .internal => .internal | .diverged => .diverged)
  | _, _ => (match s2.pkg.additional.int? with
             | some t => (match addrIntOf ss t with | some a => .ok a | none => .internal)
             | none => .internal)

def pcrJump (s2 : Stmt) (r start : Nat) : Int :=
  let jump : Int := (r : Int) - start - s2.pkg.size
  let jump : Int := (jump + 0x8000) % 0x10000 - 0x8000
  if s2.pcrHint = 4 then jump % 0x10000 else jump

/-- the signed 16-bit distance from the end of the statement to the target -/
def pcrDist (s2 : Stmt) (r start : Nat) : Int :=
  ((r : Int) - start - s2.pkg.size + 0x8000) % 0x10000 - 0x8000

/-- the range check of the 8-bit form (only possible across a later ORG) -/
def pcrOut (s2 : Stmt) (r start : Nat) : Prop :=
  s2.pcrHint ≠ 4 ∧ (pcrDist s2 r start < -128 ∨ pcrDist s2 r start > 127)

instance (s2 : Stmt) (r start : Nat) : Decidable (pcrOut s2 r start) := by unfold pcrOut; infer_instance

/-- (batch B3) a label as constant offset of a pointer register (`LDA TABLE,X`): `needsRes` without post byte
choices; the target address itself becomes the 16-bit offset -/
def fixAbs (ss : List Stmt) (s2 : Stmt) : Outcome Stmt :=
  match fixRel ss s2 with
  | .ok r => (match numericOfInt r (some 4) .none with
              | .ok v => .ok { s2 with pkg := { s2.pkg with additional := v } }
              | .error _ => .internal)
  | .diag => .diag
  | _ => .internal

def fixStep3 (ss : List Stmt) (i : Nat) (s2 : Stmt) : Outcome Stmt :=
  if s2.pkg.needsRes then
    if s2.pkg.choices.isEmpty then fixAbs ss s2 else
    match fixRel ss s2, addrIntOf ss i with
    | .ok r, some start =>
      if pcrOut s2 r start then .diag else
      (match numericOfInt (pcrJump s2 r start) (some s2.pcrHint) .none with
       | .ok v => .ok { s2 with pkg := { s2.pkg with additional := v } }
       | .error _ => .internal)
    | .ok _, none => .internal
    | .diag, _ => .diag
    | _, _ => .internal
  else .ok s2

theorem fixOne_nonrel (ss : List Stmt) (i : Nat) (s : Stmt)
    (h : (s.operand.kind == .relative) = false) (hv : s.operand.value ≠ .pyNone) :
    fixOne ss i s = (fixStep1 ss s).bind (fun s1 => (fixStep2 ss s.operand.value s1).bind (fixStep3 ss i)) := by
  unfold fixOne
  rw [if_neg (by simp [h])]
  split
  · rename_i hp; exact absurd hp hv
  · dsimp only
    unfold fixStep1
    generalize (if s.operand.value.isAddrExpr = true then _ else Outcome.ok s : Outcome Stmt) = o1
    cases o1 with
    | ok s1 =>
      dsimp only [Outcome.bind]
      unfold fixStep2
      generalize (if s.operand.value.isAddress = true then _ else Outcome.ok s1 : Outcome Stmt) = o2
      cases o2 with
      | ok s2 => rfl
      | _ => rfl
    | _ => rfl

/-- `s'` differs from `s` at most in `pkg.additional` -/
def SameButAdditional (s s' : Stmt) : Prop := ∃ v, s' = { s with pkg := { s.pkg with additional := v } }

theorem SameButAdditional.refl (s : Stmt) : SameButAdditional s s := ⟨s.pkg.additional, rfl⟩
theorem SameButAdditional.trans {a b c : Stmt} (h1 : SameButAdditional a b) (h2 : SameButAdditional b c) :
    SameButAdditional a c := by
  obtain ⟨v, rfl⟩ := h1; obtain ⟨w, rfl⟩ := h2; exact ⟨w, rfl⟩

/-- an outcome that is a diagnostic, an internal error, or a statement equal to `s` up to `additional` -/
def FixOut (s : Stmt) (o : Outcome Stmt) : Prop :=
  o = .diag ∨ o = .internal ∨ ∃ s', o = .ok s' ∧ SameButAdditional s s'

theorem addrOffset_not_diverged (ss : List Stmt) (v : Value) : addrOffset ss v ≠ .diverged := by
  cases v with
  | expr l r op m ae =>
    rw [addrOffset_expr]
    have h1 := addrOperand_ne_diverged ss l
    have h2 := addrOperand_ne_diverged ss r
    cases hl : addrOperand ss l <;> simp only [hl] at h1 ⊢ <;> try simp
    · cases hr : addrOperand ss r <;> simp only [hr] at h2 ⊢ <;> try simp
      · exact addrCombine_ne_diverged _ _ _
      · exact h2 rfl
    · exact h1 rfl
  | _ => simp [addrOffset]

theorem fixStep1_out (ss : List Stmt) (s : Stmt) : FixOut s (fixStep1 ss s) := by
  unfold fixStep1
  split
  · cases h : addrOffset ss s.operand.value with
    | ok v => right; right; exact ⟨_, rfl, _, rfl⟩
    | diag => left; rfl
    | internal => right; left; rfl
    | diverged => exact absurd h (addrOffset_not_diverged _ _)
  · right; right; exact ⟨_, rfl, .refl _⟩

theorem fixStep2_out (ss : List Stmt) (ov : Value) (s : Stmt) : FixOut s (fixStep2 ss ov s) := by
  unfold fixStep2
  split
  · split
    · split
      · right; right; exact ⟨_, rfl, _, rfl⟩
      · right; left; rfl
    · right; left; rfl
  · right; right; exact ⟨_, rfl, .refl _⟩

theorem fixAbs_out (ss : List Stmt) (s : Stmt) : FixOut s (fixAbs ss s) := by
  unfold fixAbs
  split
  · split
    · right; right; exact ⟨_, rfl, _, rfl⟩
    · right; left; rfl
  · left; rfl
  · right; left; rfl

theorem fixStep3_out (ss : List Stmt) (i : Nat) (s : Stmt) : FixOut s (fixStep3 ss i s) := by
  unfold fixStep3
  split
  · split
    · exact fixAbs_out ss s
    split
    · split
      · left; rfl
      · split
        · right; right; exact ⟨_, rfl, _, rfl⟩
        · right; left; rfl
    · right; left; rfl
    · left; rfl
    · right; left; rfl
  · right; right; exact ⟨_, rfl, .refl _⟩

theorem FixOut.bind {s : Stmt} {o : Outcome Stmt} {f : Stmt → Outcome Stmt} (h : FixOut s o)
    (hf : ∀ s', SameButAdditional s s' → FixOut s' (f s')) : FixOut s (o.bind f) := by
  rcases h with rfl | rfl | ⟨s', rfl, hs⟩
  · left; rfl
  · right; left; rfl
  · rcases hf s' hs with h | h | ⟨s'', h, hs'⟩
    · left; exact h
    · right; left; exact h
    · right; right; exact ⟨s'', h, hs.trans hs'⟩

theorem fixOne_out (ss : List Stmt) (i : Nat) (s : Stmt) : FixOut s (fixOne ss i s) := by
  by_cases h : (s.operand.kind == .relative) = true
  · unfold fixOne
    rw [if_pos h]
    split
    · right; left; rfl
    · dsimp only
      split
      · split
        · left; rfl
        · split
          · right; right; exact ⟨_, rfl, _, rfl⟩
          · right; left; rfl
      · split
        · left; rfl
        · split
          · right; right; exact ⟨_, rfl, _, rfl⟩
          · right; left; rfl
  · by_cases hv : s.operand.value = .pyNone
    · unfold fixOne
      rw [if_neg h, hv]; right; left; rfl
    · rw [fixOne_nonrel ss i s (by simpa using h) hv]
      exact (fixStep1_out ss s).bind (fun s1 _ => (fixStep2_out ss _ s1).bind (fun s2 _ => fixStep3_out ss i s2))

/-! ### `fitWidth` and the per-statement step `fixFit` = `fixOne` then `fitWidth` -/

/-- `fitWidth` changes at most `pkg.additional` -/
theorem fitWidth_out (s : Stmt) : FixOut s (fitWidth s) := by
  unfold fitWidth
  split
  · right; right; exact ⟨_, rfl, .refl _⟩
  · split
    · split
      · dsimp only
        split
        · split
          · right; right; exact ⟨_, rfl, _, rfl⟩
          · left; rfl
        · left; rfl
      · right; left; rfl
    · right; right; exact ⟨_, rfl, .refl _⟩

theorem fitWidth_same {s s' : Stmt} (h : fitWidth s = .ok s') : SameButAdditional s s' := by
  rcases fitWidth_out s with h1 | h1 | ⟨t, h1, h2⟩ <;> rw [h1] at h <;> cases h
  exact h2

theorem fixOne_same {ss : List Stmt} {i : Nat} {s s' : Stmt} (h : fixOne ss i s = .ok s') : SameButAdditional s s' := by
  rcases fixOne_out ss i s with h1 | h1 | ⟨t, h1, h2⟩ <;> rw [h1] at h <;> cases h
  exact h2

theorem fixFit_out (ss : List Stmt) (i : Nat) (s : Stmt) : FixOut s (fixFit ss i s) := by
  have : fixFit ss i s = (fixOne ss i s).bind fitWidth := by
    unfold fixFit; cases fixOne ss i s <;> rfl
  rw [this]
  exact (fixOne_out ss i s).bind (fun s1 _ => fitWidth_out s1)

theorem fixFit_same {ss : List Stmt} {i : Nat} {s s' : Stmt} (h : fixFit ss i s = .ok s') : SameButAdditional s s' := by
  rcases fixFit_out ss i s with h1 | h1 | ⟨t, h1, h2⟩ <;> rw [h1] at h <;> cases h
  exact h2

theorem fixAll_not_diverged (ss : List Stmt) (i : Nat) (l : List Stmt) : fixAll ss i l ≠ .diverged := by
  induction l generalizing i with
  | nil => simp [fixAll]
  | cons s rest ih =>
    rw [fixAll_cons]
    rcases fixFit_out ss i s with h | h | ⟨s', h, hs⟩ <;> rw [h]
    · simp
    · simp
    · dsimp only
      cases h : fixAll ss (i + 1) rest with
      | diverged => exact absurd h (ih _)
      | _ => simp

/-- `fixAll` is the pointwise application of `fixFit` = `fixOne` then `fitWidth` (with the statement's index) -/
theorem fixAll_ok {ss : List Stmt} {i : Nat} {l l' : List Stmt} (h : fixAll ss i l = .ok l') :
    l'.length = l.length ∧
      ∀ j s, l[j]? = some s → ∃ s', l'[j]? = some s' ∧ fixFit ss (i + j) s = .ok s' := by
  induction l generalizing i l' with
  | nil => simp [fixAll] at h; subst h; simp
  | cons s rest ih =>
    rw [fixAll_cons] at h
    cases h1 : fixFit ss i s with
    | ok s' =>
      rw [h1] at h; dsimp only at h
      cases h2 : fixAll ss (i + 1) rest with
      | ok r =>
        rw [h2] at h; cases h
        obtain ⟨hl, hr⟩ := ih h2
        refine ⟨by simp [hl], ?_⟩
        intro j t ht
        cases j with
        | zero => simp at ht; subst ht; exact ⟨s', by simp, h1⟩
        | succ j =>
          simp at ht
          obtain ⟨t', h3, h4⟩ := hr j t ht
          exact ⟨t', by simpa using h3, by rw [← h4]; congr 1; omega⟩
      | _ => rw [h2] at h; cases h
    | _ => rw [h1] at h; cases h

/-- the two-step form: the statement after `fixOne`, and the final one after `fitWidth` -/
theorem fixAll_ok2 {ss : List Stmt} {i : Nat} {l l' : List Stmt} (h : fixAll ss i l = .ok l') :
    l'.length = l.length ∧
      ∀ j s, l[j]? = some s → ∃ s1 s', l'[j]? = some s' ∧ fixOne ss (i + j) s = .ok s1 ∧ fitWidth s1 = .ok s' := by
  obtain ⟨hl, hp⟩ := fixAll_ok h
  refine ⟨hl, fun j s hs => ?_⟩
  obtain ⟨s', h1, h2⟩ := hp j s hs
  obtain ⟨s1, h3, h4⟩ := fixFit_ok.1 h2
  exact ⟨s1, s', h1, h3, h4⟩

/-- (batch 8) `fixAll`, then the lists: no `diverged` -/
theorem fixAllL_not_diverged (t : SymTab) (l : List Stmt) : fixAllL t l ≠ .diverged := by
  unfold fixAllL
  cases h : fixAll l 0 l with
  | diverged => exact absurd h (fixAll_not_diverged _ _ _)
  | ok x => exact evalLists_not_diverged _ _ _
  | _ => simp
end CoCo.Asm

namespace CoCo.Asm

theorem assignAddrs_not_diverged (l : List Stmt) (a : Nat) : assignAddrs l a ≠ .diverged := by
  induction l generalizing a with
  | nil => simp [assignAddrs]
  | cons s rest ih =>
    unfold assignAddrs
    split
    · split
      · cases h : assignAddrs rest (a + s.pkg.size) with
        | diverged => exact absurd h (ih _)
        | _ => simp
      · simp
    · split
      · rename_i a' _
        cases h : assignAddrs rest (a' + s.pkg.size) with
        | diverged => exact absurd h (ih _)
        | _ => simp
      · simp

theorem finalSymTab_not_diverged (ss : List Stmt) (t : SymTab) : finalSymTab ss t ≠ .diverged := by
  induction t with
  | nil => simp [finalSymTab]
  | cons kv rest ih =>
    obtain ⟨k, v⟩ := kv
    unfold finalSymTab
    cases h : finalSymTab ss rest with
    | diverged => exact absurd h ih
    | ok r =>
      dsimp only
      split
      · split <;> simp
      · simp
      · simp
    | _ => simp

theorem evalSyms_not_diverged (ss : List Stmt) (t t0 : SymTab) : evalSyms ss t t0 ≠ .diverged := by
  induction t0 with
  | nil => simp [evalSyms]
  | cons kv rest ih =>
    obtain ⟨k, v⟩ := kv
    unfold evalSyms
    dsimp only
    split
    · cases h : evalSyms ss t rest with
      | diverged => exact absurd h ih
      | _ => simp
    · simp
    · simp
    · rename_i hc
      exfalso
      split at hc
      · split at hc
        · simp at hc
        · rename_i r _
          split at hc
          · simp at hc
          · rename_i o hne
            cases ho : (if r.isAddrExpr = true then addrOffset ss r else Outcome.ok r) with
            | diverged =>
              split at ho
              · exact absurd ho (addrOffset_not_diverged _ _)
              · simp at ho
            | ok x => exact hne x ho
            | _ => rw [ho] at hc; simp at hc
      · simp at hc

theorem assemble_not_diverged (fs : Files) (lines : List Str) : assemble fs lines ≠ .diverged := by
  unfold assemble
  rcases parseLines_cases lines with ⟨parsed, h⟩ | h <;> rw [h]
  · dsimp only
    cases h1 : expand fs (includeFuel fs) [] parsed with
    | diverged => exact absurd h1 (expand_not_diverged _ _ _ _)
    | ok ss0 =>
      dsimp only
      cases buildSymTab ss0 0 [] with
      | none => simp
      | some t =>
        dsimp only
        cases resolveAll t ss0 with
        | none => simp
        | some ss1 =>
          dsimp only
          cases translateAll ss1 with
          | none => simp
          | some ss2 =>
            dsimp only
            cases h2 : pcrLoop (ss2.length + 1) ss2 with
            | diverged => exact absurd h2 (pcrLoop_not_diverged _)
            | ok ss3 =>
              dsimp only
              cases orgOK ss3 false with
              | false => simp
              | true =>
              simp only [Bool.not_true, Bool.false_eq_true, if_false]
              cases h3 : assignAddrs ss3 0 with
              | diverged => exact absurd h3 (assignAddrs_not_diverged _ _)
              | ok ss4 =>
                dsimp only
                cases h4 : fixAllL t ss4 with
                | diverged => exact absurd h4 (fixAllL_not_diverged _ _)
                | ok ss5 =>
                  dsimp only
                  cases h6 : evalSyms ss5 t t with
                  | diverged => exact absurd h6 (evalSyms_not_diverged _ _ _)
                  | ok t1 =>
                    dsimp only
                    cases h5 : finalSymTab ss5 t1 with
                    | diverged => exact absurd h5 (finalSymTab_not_diverged _ _)
                    | _ => simp
                  | _ => simp
                | _ => simp
              | _ => simp
            | _ => simp
    | _ => simp
  · simp

end CoCo.Asm
