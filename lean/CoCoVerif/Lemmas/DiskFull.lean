/-
Lemmas/DiskFull.lean — the space accounting of C15 lifted from one `addFile` to a whole `Dsk.write`
(= `addFiles` from the blank image): the write succeeds exactly when the files need at most 68 granules
and are at most 72; otherwise it is a diagnostic, raised at the first file that does not fit.
-/
import CoCoVerif.Lemmas.DiskSpace

namespace CoCo.Dsk
open CoCo Spec.DiskBasic CoCo.Props

/-- granules needed by a list of files -/
def totalNeeds (fs : List CFile) : Nat := (fs.map needs).sum

theorem totalNeeds_nil : totalNeeds [] = 0 := rfl

theorem totalNeeds_cons (f : CFile) (fs : List CFile) : totalNeeds (f :: fs) = needs f + totalNeeds fs := by
  simp [totalNeeds]

theorem totalNeeds_append (a b : List CFile) : totalNeeds (a ++ b) = totalNeeds a + totalNeeds b := by
  simp [totalNeeds]

theorem totalNeeds_replicate (n : Nat) (f : CFile) : totalNeeds (List.replicate n f) = n * needs f := by
  simp [totalNeeds]

/-- every file needs at least one granule -/
theorem length_le_totalNeeds (fs : List CFile) : fs.length ≤ totalNeeds fs := by
  induction fs with
  | nil => simp [totalNeeds]
  | cons f fs ih =>
    rw [totalNeeds_cons, List.length_cons]
    have := needs_pos f
    omega

theorem addFiles_cons_ok {order : List Nat} {b b' : Bytes} {f : CFile} (fs : List CFile)
    (h : addFile order b f = .ok b') : addFiles order b (f :: fs) = addFiles order b' fs := by
  simp only [addFiles, h]

theorem addFiles_cons_diag {order : List Nat} {b : Bytes} {f : CFile} (fs : List CFile)
    (h : addFile order b f = .diag) : addFiles order b (f :: fs) = .diag := by
  simp only [addFiles, h]

/-- the counts after a successful `addFiles` on a reachable image -/
theorem addFiles_count {order : List Nat} (ho : ValidOrder order) :
    ∀ (fs : List CFile) (img img' : Bytes) (abs : List Ent), Inv img abs → (∀ f ∈ fs, ValidDFile f) →
      addFiles order img fs = .ok img' →
      freeGranules img' + totalNeeds fs = freeGranules img ∧ freeSlots img' + fs.length = freeSlots img := by
  intro fs
  induction fs with
  | nil =>
    intro img img' abs _ _ hres
    simp only [Dsk.addFiles] at hres
    cases hres
    exact ⟨rfl, rfl⟩
  | cons f fs ih =>
    intro img img' abs h hv hres
    cases h1 : addFile order img f with
    | ok img1 =>
      rw [addFiles_cons_ok fs h1] at hres
      obtain ⟨gs, hinv, _, _, hlt, hcnt, _⟩ := h.step ho (hv f List.mem_cons_self) h1
      obtain ⟨hg, hs⟩ := ih img1 img' _ hinv (fun x hx => hv x (List.mem_cons_of_mem _ hx)) hres
      rw [hinv.freeSlots_eq] at hs
      rw [totalNeeds_cons, h.freeSlots_eq, List.length_cons]
      rw [List.length_append, List.length_singleton] at hs
      omega
    | diag => simp only [addFiles, h1] at hres; cases hres
    | internal => simp only [addFiles, h1] at hres; cases hres
    | diverged => simp only [addFiles, h1] at hres; cases hres

/-- `addFiles` on a reachable image: succeeds when everything fits, a diagnostic when it does not -/
theorem addFiles_total {order : List Nat} (hc : CompleteOrder order) :
    ∀ (fs : List CFile) (img : Bytes) (abs : List Ent), Inv img abs → (∀ f ∈ fs, ValidDFile f) →
      (totalNeeds fs ≤ freeGranules img ∧ fs.length ≤ freeSlots img → ∃ img', addFiles order img fs = .ok img') ∧
      (freeGranules img < totalNeeds fs ∨ freeSlots img < fs.length → addFiles order img fs = .diag) := by
  intro fs
  induction fs with
  | nil =>
    intro img abs _ _
    refine ⟨fun _ => ⟨img, rfl⟩, fun h => ?_⟩
    rw [totalNeeds_nil, List.length_nil] at h
    omega
  | cons f fs ih =>
    intro img abs h hv
    have hvf := hv f List.mem_cons_self
    have hvr : ∀ x ∈ fs, ValidDFile x := fun x hx => hv x (List.mem_cons_of_mem _ hx)
    rw [totalNeeds_cons, List.length_cons]
    by_cases hfit : needs f ≤ freeGranules img ∧ 0 < freeSlots img
    · obtain ⟨img1, h1, hg, hs, _⟩ := h.addFile_fits hc.1 hc.2 hvf hfit.1 hfit.2
      obtain ⟨gs, hinv, _⟩ := h.step hc.1 hvf h1
      obtain ⟨ihok, ihdiag⟩ := ih img1 _ hinv hvr
      rw [addFiles_cons_ok fs h1]
      refine ⟨fun hle => ihok ⟨by omega, by omega⟩, fun hgt => ihdiag ?_⟩
      rcases hgt with hgt | hgt
      · left; omega
      · right; omega
    · have hfull : freeGranules img < needs f ∨ freeSlots img = 0 := by omega
      have hd := h.addFile_full hc.1 hvf hfull
      rw [addFiles_cons_diag fs hd]
      refine ⟨fun hle => ?_, fun _ => rfl⟩
      omega

/-- a diagnostic of `addFiles` on a reachable image is raised at a definite file: the files before it were
stored, and it needs more granules than are free then, or no directory slot is free then -/
theorem addFiles_diag_point {order : List Nat} (hc : CompleteOrder order) :
    ∀ (fs : List CFile) (img : Bytes) (abs : List Ent), Inv img abs → (∀ f ∈ fs, ValidDFile f) →
      addFiles order img fs = .diag →
      ∃ pre f post img1, fs = pre ++ f :: post ∧ addFiles order img pre = .ok img1 ∧
        (freeGranules img1 < needs f ∨ freeSlots img1 = 0) := by
  intro fs
  induction fs with
  | nil => intro img abs _ _ hd; simp only [Dsk.addFiles] at hd; cases hd
  | cons f fs ih =>
    intro img abs h hv hd
    have hvf := hv f List.mem_cons_self
    have hvr : ∀ x ∈ fs, ValidDFile x := fun x hx => hv x (List.mem_cons_of_mem _ hx)
    by_cases hfit : needs f ≤ freeGranules img ∧ 0 < freeSlots img
    · obtain ⟨img1, h1, _⟩ := h.addFile_fits hc.1 hc.2 hvf hfit.1 hfit.2
      obtain ⟨gs, hinv, _⟩ := h.step hc.1 hvf h1
      rw [addFiles_cons_ok fs h1] at hd
      obtain ⟨pre, g, post, img2, hsplit, hpre, hfull⟩ := ih img1 _ hinv hvr hd
      refine ⟨f :: pre, g, post, img2, by rw [hsplit]; rfl, ?_, hfull⟩
      rw [addFiles_cons_ok pre h1]; exact hpre
    · exact ⟨[], f, fs, img, rfl, rfl, by omega⟩

/-! ### from the blank image -/

/-- the counts on a written image: 68 granules and 72 slots less what the files took -/
theorem write_count {order : List Nat} {fs : List CFile} {img : Bytes} (ho : ValidOrder order)
    (hv : ∀ f ∈ fs, ValidDFile f) (hw : Dsk.write order fs = .ok img) :
    freeGranules img + totalNeeds fs = 68 ∧ freeSlots img + fs.length = 72 := by
  have := addFiles_count ho fs blank img [] Inv_blank hv hw
  rwa [freeGranules_blank, freeSlots_blank] at this

/-- the files fit an empty disk: the write succeeds -/
theorem write_fits {order : List Nat} {fs : List CFile} (hc : CompleteOrder order)
    (hv : ∀ f ∈ fs, ValidDFile f) (hg : totalNeeds fs ≤ 68) (hs : fs.length ≤ 72) :
    ∃ img, Dsk.write order fs = .ok img := by
  apply (addFiles_total hc fs blank [] Inv_blank hv).1
  rw [freeGranules_blank, freeSlots_blank]
  exact ⟨hg, hs⟩

/-- **disk full**: more than 68 granules needed in all, or more than 72 files: the write is a diagnostic -/
theorem write_overflow {order : List Nat} {fs : List CFile} (hc : CompleteOrder order)
    (hv : ∀ f ∈ fs, ValidDFile f) (h : 68 < totalNeeds fs ∨ 72 < fs.length) :
    Dsk.write order fs = .diag := by
  apply (addFiles_total hc fs blank [] Inv_blank hv).2
  rw [freeGranules_blank, freeSlots_blank]
  exact h

/-- valid files: the write succeeds or is a diagnostic, nothing else -/
theorem write_ok_or_diag {order : List Nat} {fs : List CFile} (hc : CompleteOrder order)
    (hv : ∀ f ∈ fs, ValidDFile f) : (∃ img, Dsk.write order fs = .ok img) ∨ Dsk.write order fs = .diag := by
  by_cases h : totalNeeds fs ≤ 68 ∧ fs.length ≤ 72
  · exact Or.inl (write_fits hc hv h.1 h.2)
  · exact Or.inr (write_overflow hc hv (by omega))

/-- the write is a diagnostic exactly when the files overflow the disk -/
theorem write_diag_iff {order : List Nat} {fs : List CFile} (hc : CompleteOrder order)
    (hv : ∀ f ∈ fs, ValidDFile f) :
    Dsk.write order fs = .diag ↔ (68 < totalNeeds fs ∨ 72 < fs.length) := by
  refine ⟨fun hd => ?_, write_overflow hc hv⟩
  by_cases h : totalNeeds fs ≤ 68 ∧ fs.length ≤ 72
  · obtain ⟨img, hok⟩ := write_fits hc hv h.1 h.2
    rw [hok] at hd; cases hd
  · omega

/-- … and succeeds exactly when they do not -/
theorem write_ok_iff {order : List Nat} {fs : List CFile} (hc : CompleteOrder order)
    (hv : ∀ f ∈ fs, ValidDFile f) :
    (∃ img, Dsk.write order fs = .ok img) ↔ (totalNeeds fs ≤ 68 ∧ fs.length ≤ 72) := by
  refine ⟨fun ⟨img, hok⟩ => ?_, fun h => write_fits hc hv h.1 h.2⟩
  have := write_count hc.1 hv hok
  omega

/-- a diagnostic of the write is raised at a definite file (the hypothesis of the last clause of C15 holds there) -/
theorem write_diag_point {order : List Nat} {fs : List CFile} (hc : CompleteOrder order)
    (hv : ∀ f ∈ fs, ValidDFile f) (hd : Dsk.write order fs = .diag) :
    ∃ pre f post img, fs = pre ++ f :: post ∧ Dsk.write order pre = .ok img ∧
      (freeGranules img < needs f ∨ freeSlots img = 0) :=
  addFiles_diag_point hc fs blank [] Inv_blank hv hd

end CoCo.Dsk
