/-
Lemmas/RelocFront.lean — relocation (C18-R1), part 7: the stages before `assignAddrs` on two parsed
programs that differ only in the numeric operand of their ORG statements (`OrgRel`): the symbol table is
the same, and the statement lists stay related (`OrgRelT`) through `resolveAll`, `translateAll`, `pcrLoop`.
-/
import CoCoVerif.Lemmas.RelocPcr
import CoCoVerif.Props.C02

namespace CoCo.Asm
open CoCo

/-- parsed statements: the same non-ORG statement, or two ORG statements whose operands are the numbers
`n` and `n + D` (four hex digits: hint 4, mode EXTENDED) -/
def OrgRel (D : Nat) (P : Nat → Prop) (s s' : Stmt) : Prop :=
  (s' = s ∧ (s.row.mnemonic == "ORG") = false) ∨
  (s.row.mnemonic = "ORG" ∧ s.row.isPseudoDefine = false ∧ Inert s s' ∧
    s.operand.kind = .pseudo ∧ s'.operand.kind = .pseudo ∧
    ∃ n, P n ∧ s.operand.value = .numeric n (some 4) .extended false ∧
         s'.operand.value = .numeric (n + D) (some 4) .extended false)

/-- translated statements: the same statement without a preset address, or two inert (pseudo, numeric
operand, no PCR) statements whose preset addresses are `n` and `n + D` -/
def OrgRelT (D : Nat) (P : Nat → Prop) (s s' : Stmt) : Prop :=
  (s' = s ∧ s.pkg.address = .none ∧ (s.row.mnemonic == "ORG") = false) ∨
  (Inert s s' ∧ s.row.mnemonic = "ORG" ∧ s.pkg.needsRes = false ∧ s.operand.kind = .pseudo ∧
    s'.operand.kind = .pseudo ∧ s.operand.value.isNumeric = true ∧ s'.operand.value.isNumeric = true ∧
    ∃ n, P n ∧ s.pkg.address = .numeric n (some 4) .extended false ∧
         s'.pkg.address = .numeric (n + D) (some 4) .extended false)

theorem Inert.exists {s s' : Stmt} (h : Inert s s') : ∃ o tx a, s' = s.setInert o tx a := ⟨_, _, _, h⟩

theorem OrgRel.inert {D : Nat} {P : Nat → Prop} {s s' : Stmt} (h : OrgRel D P s s') : Inert s s' := by
  rcases h with ⟨rfl, _⟩ | ⟨_, _, h, _⟩
  · exact .refl _
  · exact h

theorem OrgRelT.inert {D : Nat} {P : Nat → Prop} {s s' : Stmt} (h : OrgRelT D P s s') : Inert s s' := by
  rcases h with ⟨rfl, _⟩ | ⟨h, _⟩
  · exact .refl _
  · exact h

/-! ### the symbol table -/

theorem buildSymTab_orgRel {D : Nat} {P : Nat → Prop} : ∀ (ss ss' : List Stmt) (i : Nat) (t : SymTab), PW (OrgRel D P) ss ss' →
    buildSymTab ss' i t = buildSymTab ss i t := by
  intro ss
  induction ss with
  | nil => intro ss' i t h; rw [h.nil_left]
  | cons s rest ih =>
    intro ss' i t h
    obtain ⟨s', rest', rfl, hr, hrest⟩ := h.cons_left
    rcases hr with ⟨rfl, _⟩ | ⟨_, hpd, hin, _⟩
    · rw [buildSymTab, buildSymTab]
      simp only [ih rest' _ _ hrest]
    · obtain ⟨o, tx, a, rfl⟩ := hin.exists
      rw [buildSymTab, buildSymTab]
      simp only [setInert_label, setInert_row, hpd, ih rest' _ _ hrest, Bool.false_eq_true, if_false]

/-! ### resolve -/

/-- a pseudo operand that is a number already (the operand of `ORG $hhhh`) is not rewritten, whatever the
directive -/
theorem resolveOperand_pseudo_numeric {o o' : Operand} {row : Gen.InstrRow} {t : SymTab}
    (h : resolveOperand o row t = .ok o') (hk : o.kind = .pseudo) (hv : o.value.isNumeric = true) : o' = o := by
  unfold resolveOperand at h
  rw [hk] at h
  dsimp only at h
  split at h
  · split at h
    · rename_i hn; rw [hn] at hv; cases hv
    · have e1 : o.value.isSymbol = false := by cases hx : o.value <;> rw [hx] at hv <;> first | rfl | cases hv
      have e2 : o.value.isExpression = false := by cases hx : o.value <;> rw [hx] at hv <;> first | rfl | cases hv
      rw [e1, e2] at h
      cases h; rfl
  · cases h; rfl

theorem resolveAll_orgRel {D : Nat} {P : Nat → Prop} {t : SymTab} {ss ss' r r' : List Stmt} (h : PW (OrgRel D P) ss ss')
    (h1 : resolveAll t ss = some r) (h2 : resolveAll t ss' = some r') : PW (OrgRel D P) r r' := by
  have p1 := resolveAll_pw h1
  have p2 := resolveAll_pw h2
  refine ⟨by rw [p2.1, p1.1, h.1], ?_⟩
  intro j x x' hx hx'
  obtain ⟨s, hs, o, ho, rfl⟩ := p1.get' hx
  obtain ⟨s', hs', o', ho', rfl⟩ := p2.get' hx'
  rcases h.2 j s s' hs hs' with ⟨rfl, hm⟩ | ⟨hm, hpd, hin, hk, hk', n, hP, hv, hv'⟩
  · rw [ho] at ho'; cases ho'
    exact .inl ⟨rfl, hm⟩
  · have e1 := resolveOperand_pseudo_numeric ho hk (by rw [hv]; rfl)
    have e2 := resolveOperand_pseudo_numeric ho' hk' (by rw [hv']; rfl)
    subst e1 e2
    exact .inr ⟨hm, hpd, hin, hk, hk', n, hP, hv, hv'⟩

/-! ### translate -/

/-- the whole package of a translated ORG: nothing but the address -/
theorem translate_org {o : Operand} {row : Gen.InstrRow} {p : Pkg} (hk : o.kind = .pseudo)
    (hm : row.mnemonic = "ORG") (h : translateOperand o row = .ok p) : p = { address := o.value } := by
  unfold translateOperand at h
  rw [hk] at h
  dsimp only at h
  unfold translatePseudo at h
  have e1 : (("ORG" : String) == "FCB") = false := by decide
  have e2 : (("ORG" : String) == "FDB") = false := by decide
  have e3 : (("ORG" : String) == "RMB") = false := by decide
  have e4 : (("ORG" : String) == "ORG") = true := by decide
  simp only [hm, e1, e2, e3, e4, bind, Except.bind, pure, Except.pure, Bool.false_eq_true, if_false, if_true] at h
  repeat' split at h
  all_goals first | (cases h; rfl) | (cases h; done)

theorem translateAll_orgRel {D : Nat} {P : Nat → Prop} {ss ss' r r' : List Stmt} (h : PW (OrgRel D P) ss ss')
    (h1 : translateAll ss = some r) (h2 : translateAll ss' = some r') : PW (OrgRelT D P) r r' := by
  have p1 := translateAll_pw h1
  have p2 := translateAll_pw h2
  refine ⟨by rw [p2.1, p1.1, h.1], ?_⟩
  intro j x x' hx hx'
  obtain ⟨s, hs, p, hp, rfl⟩ := p1.get' hx
  obtain ⟨s', hs', p', hp', rfl⟩ := p2.get' hx'
  rcases h.2 j s s' hs hs' with ⟨rfl, hm⟩ | ⟨hm, hpd, hin, hk, hk', n, hP, hv, hv'⟩
  · rw [hp] at hp'; cases hp'
    exact .inl ⟨rfl, translateOperand_AN _ _ hm p hp, hm⟩
  · obtain ⟨o, tx, a, rfl⟩ := hin.exists
    simp only [setInert_operand, setInert_row] at hp' hk' hv'
    have e1 := translate_org hk hm hp
    have e2 := translate_org hk' hm hp'
    subst e1 e2
    refine .inr ⟨rfl, hm, rfl, hk, hk', ?_, ?_, n, hP, hv, hv'⟩
    · rw [hv]; rfl
    · show o.value.isNumeric = true
      rw [hv']; rfl

/-! ### the PCR loop -/

theorem pcrLoop_orgRelT {D : Nat} {P : Nat → Prop} {fuel : Nat} {ss ss' r r' : List Stmt} (h : PW (OrgRelT D P) ss ss')
    (h1 : pcrLoop fuel ss = .ok r) (h2 : pcrLoop fuel ss' = .ok r') : PW (OrgRelT D P) r r' := by
  have hin : PW Inert r r' := by
    have := pcrLoop_inert fuel ss ss' (h.mono (fun _ _ => OrgRelT.inert))
    rw [h1, h2] at this
    exact this.rel
  have p1 := pcrLoop_pw fuel ss h1
  have p2 := pcrLoop_pw fuel ss' h2
  refine ⟨hin.1, ?_⟩
  intro j x x' hx hx'
  have hi := hin.2 j x x' hx hx'
  obtain ⟨s, hs, sz, mx, pb, hint, fx, rfl⟩ := p1.get' hx
  obtain ⟨s', hs', sz', mx', pb', hint', fx', rfl⟩ := p2.get' hx'
  rcases h.2 j s s' hs hs' with ⟨rfl, ha, hm⟩ | ⟨_, hm, hn, hk, hk', hv, hv', n, hP, ha, ha'⟩
  · refine .inl ⟨?_, ha, hm⟩
    rw [hi]; rfl
  · exact .inr ⟨hi, hm, hn, hk, hk', hv, hv', n, hP, ha, ha'⟩

theorem OrgRelT.orgShift {D : Nat} {P : Nat → Prop} {s s' : Stmt} (h : OrgRelT D P s s') : OrgShift D s s' := by
  rcases h with ⟨rfl, ha, _⟩ | ⟨hi, _, _, _, _, _, _, n, _, ha, ha'⟩
  · exact ⟨rfl, .inl ⟨ha, ha⟩⟩
  · exact ⟨hi.size, .inr ⟨n, some 4, .extended, false, ha, ha'⟩⟩

theorem OrgRelT.orgWide {D : Nat} {P : Nat → Prop} {s s' : Stmt} (h : OrgRelT D P s s') : OrgWide s := by
  rcases h with ⟨rfl, ha, _⟩ | ⟨hi, _, _, _, _, _, _, n, _, ha, ha'⟩
  · exact .inl ha
  · exact .inr ⟨n, .extended, ha⟩

/-! ### the ORG check (model batch 5): it looks at rows, labels and sizes only -/

/-- `orgOK` ("an ORG comes before the first label and the first byte") does not change when operands, original texts and
addresses change -/
theorem orgOK_inert : ∀ (ss ss' : List Stmt) (laid : Bool), PW Inert ss ss' → orgOK ss' laid = orgOK ss laid := by
  intro ss
  induction ss with
  | nil => intro ss' laid h; rw [h.nil_left]
  | cons s rest ih =>
    intro ss' laid h
    obtain ⟨s', rest', rfl, hi, hr⟩ := h.cons_left
    obtain ⟨o, tx, a, rfl⟩ := hi.exists
    rw [orgOK, orgOK]
    simp only [setInert_row, setInert_size, setInert_label]
    rw [ih rest' _ hr]

/-- the ORG check gives the same answer on the two programs that differ in the operands of their ORG statements -/
theorem orgOK_orgRelT {D : Nat} {P : Nat → Prop} {ss ss' : List Stmt} (h : PW (OrgRelT D P) ss ss') (laid : Bool) :
    orgOK ss' laid = orgOK ss laid :=
  orgOK_inert ss ss' laid (h.mono (fun _ _ => OrgRelT.inert))

end CoCo.Asm
