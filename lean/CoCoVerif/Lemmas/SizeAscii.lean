/-
Lemmas/SizeAscii.lean — the characters of an FCC string.
(1) Every string value `create_from_str` builds is made of characters below 256 (batch B2, item 6: `StringValue`
raises on wider ones and the cascade goes on; `PV (.str cs)` in SizeValue.lean says so), `resolve_symbols` never
produces a string, so the string operand of every statement — parsed, expanded, final — is narrow, for EVERY input
(`createOperand_str_narrow`, `parseLine_narrow`, `expand_narrow`, `Stages.operand_narrow`).
(2) Where the characters come from: the string value of a parsed operand consists of characters of the source line
(`parseLine_str_mem_line`; since fix d74c37d the FCC string is cut out of the line as written; `parseLine_str_mem` is
the older, weaker form "of the line, or a blank"; independent of (1)).
-/
import CoCoVerif.Lemmas.SizeFix

namespace CoCo.Asm
open CoCo
open CoCo.Gen (InstrRow)

/-! ### strings come from the text -/

theorem create_str_mem {fuel : Nat} {s : Str} {a b c : Bool} {x : Str}
    (h : create fuel s a b c = .ok (.str x)) : ∀ ch ∈ x, ch ∈ s := by
  cases fuel with
  | zero => simp [create] at h
  | succ n =>
    cases s with
    | nil => simp [create] at h
    | cons c0 rest =>
      rw [create_succ] at h
      split at h
      · simp only [Except.ok.injEq, Value.str.injEq] at h
        subst h
        intro ch hch
        have h1 : ch ∈ (c0 :: rest).drop 1 := (List.dropLast_sublist _).subset hch
        exact List.mem_of_mem_drop h1
      · exact absurd rfl ((createBody_pv h).2 x)

theorem createV_str_mem {s : Str} {a b c : Bool} {x : Str} (h : createV s a b c = .ok (.str x)) :
    ∀ ch ∈ x, ch ∈ s := create_str_mem h

theorem numericOfInt_not_str {v : Int} {h : Option Nat} {m : Mode} {r : Value} {x : Str}
    (hr : numericOfInt v h m = .ok r) : r ≠ .str x := by
  intro he
  have := numericOfInt_isNumeric hr
  rw [he] at this; cases this

/-- a string operand value consists of characters of the operand text -/
theorem createOperand_str_mem {s : Str} {row : InstrRow} {o : Operand} {x : Str}
    (h : createOperand s row = .ok o) (hx : o.value = .str x) : ∀ ch ∈ x, ch ∈ s := by
  unfold createOperand at h
  split at h
  · dsimp only at h
    split at h
    · cases h
    · rename_i v hv0
      have hv : v = .str x → ∀ ch ∈ x, ch ∈ s := by
        intro he
        subst he
        repeat' split at hv0
        all_goals first
          | (obtain ⟨a, _, ha⟩ := map_ok hv0; cases ha; done)
          | exact createV_str_mem hv0
          | (cases hv0; done)
      repeat' split at h
      all_goals first
        | (cases h; done)
        | (cases h; exact hv hx)
        | (obtain ⟨a, ha, hf⟩ := map_ok h; subst hf; exact absurd hx (numericOfInt_not_str ha))
  · split at h
    · cases h; cases hx
    · split at h
      · obtain ⟨a, ha, hf⟩ := map_ok h; subst hf
        dsimp only at hx; subst hx
        exact createV_str_mem ha
      · split at h
        · cases h; cases hx
        · dsimp only at h
          split at h
          · rename_i heq
            cases h
            split at heq
            · split at heq
              · rename_i v hcv
                have hsub : ∀ ch ∈ (s.drop 1).dropLast, ch ∈ s := fun ch hch =>
                  List.mem_of_mem_drop ((List.dropLast_sublist _).subset hch)
                split at heq
                · cases heq; cases hx
                · cases heq
                  dsimp only at hx; subst hx
                  exact fun ch hch => hsub ch (createV_str_mem hcv ch hch)
              · cases heq
            · cases heq
          · split at h
            · cases h
            · rename_i v hcv
              split at h
              · cases h; cases hx
              · split at h <;>
                  (cases h
                   dsimp only at hx; subst hx
                   exact createV_str_mem hcv)

/-! ### the scanner hands out pieces of the line -/

theorem dotStarEnd_mem {s c : Str} (h : dotStarEnd s = some c) : ∀ ch ∈ c, ch ∈ s := by
  unfold dotStarEnd at h
  dsimp only at h
  by_cases hl : (s.getLast? == some '\n') = true
  · simp only [hl, if_true] at h
    split at h
    · cases h
    · simp only [Option.some.injEq] at h
      subst h
      exact fun ch hch => (List.dropLast_sublist _).subset hch
  · have hl : (s.getLast? == some '\n') = false := by simpa using hl
    simp only [hl, Bool.false_eq_true, if_false] at h
    split at h
    · cases h
    · simp only [Option.some.injEq] at h
      subst h
      exact fun ch hch => hch

theorem scanLine_mem {line lab mn ops c : Str} (h : scanLine line = .asm lab mn ops c) :
    (∀ ch ∈ ops, ch ∈ line) ∧ (∀ ch ∈ c, ch ∈ line) := by
  unfold scanLine at h
  split at h
  · cases h
  · dsimp only at h
    split at h
    · cases h
    · split at h
      · cases h
      · split at h
        · cases h
        · split at h
          · cases h
          · rename_i c' hc
            simp only [LineKind.asm.injEq] at h
            obtain ⟨_, _, rfl, rfl⟩ := h
            have s1 := (List.dropWhile_sublist isLabelCh (l := line)).subset
            have s2 := (List.dropWhile_sublist isSpace (l := line.dropWhile isLabelCh)).subset
            have s3 := (List.dropWhile_sublist isWord (l := (line.dropWhile isLabelCh).dropWhile isSpace)).subset
            have s4 := (List.dropWhile_sublist isSpace
              (l := ((line.dropWhile isLabelCh).dropWhile isSpace).dropWhile isWord)).subset
            have r4sub : ∀ ch ∈ (((line.dropWhile isLabelCh).dropWhile isSpace).dropWhile isWord).dropWhile isSpace,
                ch ∈ line := fun ch hch => s1 (s2 (s3 (s4 hch)))
            refine ⟨fun ch hch => r4sub ch ((List.takeWhile_sublist _).subset hch), fun ch hch => ?_⟩
            have h1 := dotStarEnd_mem hc ch hch
            have h2 := (List.dropWhile_sublist _).subset h1
            have h3 := (List.dropWhile_sublist _).subset h2
            have h4 := (List.dropWhile_sublist _).subset h3
            exact r4sub ch h4

theorem strip_mem {s : Str} : ∀ ch ∈ strip s, ch ∈ s := by
  intro ch hch
  unfold strip at hch
  have h1 := List.mem_reverse.mp hch
  have h2 := (List.dropWhile_sublist _).subset h1
  have h3 := List.mem_reverse.mp h2
  exact (List.dropWhile_sublist _).subset h3

theorem rstrip_mem {s : Str} : ∀ ch ∈ rstrip s, ch ∈ s := by
  intro ch hch
  unfold rstrip at hch
  have h1 := List.mem_reverse.mp hch
  have h2 := (List.dropWhile_sublist _).subset h1
  exact List.mem_reverse.mp h2

theorem operandsTail_mem {l : Str} : ∀ ch ∈ operandsTail l, ch ∈ l := by
  intro ch hch
  unfold operandsTail at hch
  have h1 := (List.dropWhile_sublist _).subset hch
  have h2 := (List.dropWhile_sublist _).subset h1
  have h3 := (List.dropWhile_sublist _).subset h2
  exact (List.dropWhile_sublist _).subset h3

/-- the string operand of a parsed statement consists of characters of its line (since fix d74c37d the FCC string is
cut out of the line as written: no blank is put in any more) -/
theorem parseLine_str_mem_line {l : Str} {s : Stmt} {x : Str} (h : parseLine l = .ok (some s))
    (hx : s.operand.value = .str x) : ∀ ch ∈ x, ch ∈ l := by
  unfold parseLine at h
  split at h
  · cases h
  · cases h
  · cases h
  · rename_i label mn0 ops comment hscan
    obtain ⟨hops, hcom⟩ := scanLine_mem hscan
    dsimp only at h
    split at h
    · cases h
    · split at h
      · -- string define
        split at h
        · cases h
        · rename_i c0 rest hoeq
          split at h
          · rename_i o hco
            simp only [Outcome.ok.injEq, Option.some.injEq] at h
            subst h
            intro ch hch
            have h1 := createOperand_str_mem hco hx ch hch
            have h2 := List.mem_of_mem_take (strip_mem ch h1)
            exact operandsTail_mem ch (rstrip_mem ch h2)
          · cases h
      · split at h
        · rename_i o hco
          simp only [Outcome.ok.injEq, Option.some.injEq] at h
          subst h
          intro ch hch
          exact hops ch (createOperand_str_mem hco hx ch hch)
        · cases h

/-- the string operand of a parsed statement consists of characters of its line, and blanks -/
theorem parseLine_str_mem {l : Str} {s : Stmt} {x : Str} (h : parseLine l = .ok (some s))
    (hx : s.operand.value = .str x) : ∀ ch ∈ x, ch ∈ l ∨ ch = ' ' :=
  fun ch hch => .inl (parseLine_str_mem_line h hx ch hch)

/-! ### `resolve_symbols` makes no strings -/

theorem resolve_str {t : SymTab} {v r : Value} {x : Str} (h : v.resolve t = .ok r) (hr : r = .str x) : v = .str x := by
  cases v with
  | symbol name m =>
    rcases resolve_symbol_fieldable h with h' | h' <;> (rw [hr] at h'; cases h')
  | expr l r' op m ae =>
    rcases resolve_expr_fieldable h with h' | h' <;> (rw [hr] at h'; cases h')
  | _ => cases h; exact hr

theorem resolveOperand_str {o o' : Operand} {row : InstrRow} {t : SymTab} {x : Str}
    (h : resolveOperand o row t = .ok o') (hx : o'.value = .str x) : o.value = .str x := by
  have h1 : ∀ {y : R Value}, y.map (fun v => { o with left := .val v }) = .ok o' → o'.value = o.value := by
    intro y hy; cases y <;> cases hy; rfl
  have h2 : ∀ {k : OpKind}, (o.value.resolve t).map (fun v => { o with kind := k, value := v }) = .ok o' →
      o.value = .str x := by
    intro k hy
    cases hr : o.value.resolve t with
    | error e => rw [hr] at hy; cases hy
    | ok v => rw [hr] at hy; cases hy; exact resolve_str hr hx
  unfold resolveOperand at h
  split at h
  · cases h; exact hx
  · split at h
    · split at h
      · cases h
      · split at h
        · rename_i hk _ _ _
          cases hr : o.value.resolve t with
          | error e => rw [hr] at h; cases h
          | ok v => rw [hr] at h; cases h; exact resolve_str hr hx
        · cases h; exact hx
    · cases h; exact hx
  · split at h
    · split at h
      · rw [← h1 h]; exact hx
      · cases h; exact hx
    · cases h; exact hx
  · split at h
    · cases hr : o.value.resolve t with
      | error e => rw [hr] at h; cases h
      | ok v => rw [hr] at h; cases h; exact resolve_str hr hx
    · split at h
      · split at h
        · rw [← h1 h]; exact hx
        · cases h; exact hx
      · cases h
  · split at h
    · cases h
    · rename_i v hr
      repeat' split at h
      all_goals first
        | (cases h; done)
        | (cases h; exact resolve_str hr hx)
        | (obtain ⟨a, ha, hf⟩ := map_ok h; subst hf; exact absurd hx (numericOfInt_not_str ha))

/-! ### every statement of the expansion -/

/-- a property of the statements parsed from lines satisfying `Q` holds of every statement of a parsed list of
such lines -/
theorem parseLines_forall_of {Q : Str → Prop} {P : Stmt → Prop}
    (hP : ∀ l s, Q l → parseLine l = .ok (some s) → P s) :
    ∀ (ls : List Str) (r : List Stmt), (∀ l ∈ ls, Q l) → parseLines ls = .ok r → ∀ s ∈ r, P s := by
  intro ls
  induction ls with
  | nil => intro r _ h s hs; simp [parseLines] at h; subst h; simp at hs
  | cons l rest ih =>
    intro r hq h s hs
    rw [parseLines_cons] at h
    obtain ⟨a, b, ha, hb, rfl⟩ := oapp_eq_ok h
    rcases List.mem_append.mp hs with hs | hs
    · cases hl : parseLine l with
      | ok x =>
        rw [hl] at ha
        cases x with
        | none => simp at ha; subst ha; simp at hs
        | some s0 => simp at ha; subst ha; simp at hs; subst hs; exact hP l _ (hq l (by simp)) hl
      | _ => rw [hl] at ha; cases ha
    · exact ih b (fun l' hl' => hq l' (by simp [hl'])) hb s hs

theorem Files.get?_mem {fs : Files} {n : Str} {ls : List Str} (h : fs.get? n = some ls) : ∃ f ∈ fs, f.2 = ls := by
  unfold Files.get? at h
  cases hf : fs.find? (·.1 == n) with
  | none => rw [hf] at h; cases h
  | some f =>
    rw [hf] at h
    exact ⟨f, List.mem_of_find?_eq_some hf, by simpa using h⟩

/-- ... and of every statement of the INCLUDE expansion, when the lines of every host file satisfy `Q` too -/
theorem expand_forall_of {Q : Str → Prop} {P : Stmt → Prop}
    (hP : ∀ l s, Q l → parseLine l = .ok (some s) → P s) (fs : Files)
    (hfs : ∀ f ∈ fs, ∀ l ∈ f.2, Q l) :
    ∀ (n : Nat) (inc : List Str) (ss r : List Stmt), (∀ s ∈ ss, P s) → expand fs n inc ss = .ok r →
      ∀ s ∈ r, P s := by
  intro n
  induction n with
  | zero => intro inc ss r _ h; rw [expand_zero] at h; cases h
  | succ n ih =>
    intro inc ss
    induction ss with
    | nil => intro r _ h s hs; rw [expand_succ, go_nil] at h; cases h; simp at hs
    | cons x rest ihr =>
      intro r hss h s hs
      rw [expand_succ, go_cons] at h
      obtain ⟨a, b, ha, hb, rfl⟩ := oapp_eq_ok h
      rcases List.mem_append.mp hs with hs | hs
      · rcases expandOne_cases fs n inc x with ⟨_, h0⟩ | ⟨_, _, h0⟩ | ⟨_, _, lines, p, hget, hp, h0⟩ <;>
          rw [h0] at ha
        · cases ha
          simp at hs; subst hs
          exact hss s (by simp)
        · cases ha
        · obtain ⟨f, hf, hfl⟩ := Files.get?_mem hget
          refine ih _ p a (parseLines_forall_of hP lines p ?_ hp) ha s hs
          intro l hl
          exact hfs f hf l (by rw [hfl]; exact hl)
      · exact ihr b (fun y hy => hss y (by simp [hy])) (by rw [expand_succ]; exact hb) s hs

/-- all characters are below 256 -/
def NarrowLine (l : Str) : Prop := ∀ c ∈ l, c.toNat < 256

/-! ### every string operand is narrow, whatever the input -/

/-- a string operand value `createOperand` builds is made of characters below 256 -/
theorem createOperand_str_narrow {s : Str} {row : InstrRow} {o : Operand} {x : Str}
    (hrow : row ∈ Gen.instructions) (h : createOperand s row = .ok o) (hx : o.value = .str x) :
    ∀ c ∈ x, c.toNat < 256 := by
  obtain ⟨_, _, _, _, f5, _, _, _⟩ := rowFacts_multi (rowFacts_all row hrow)
  have := (createOperand_shape0 h f5).pv
  rw [hx] at this
  exact this

/-- the string operand of a parsed statement is narrow (no hypothesis on the line) -/
theorem parseLine_narrow {l : Str} {s : Stmt} (h : parseLine l = .ok (some s)) :
    ∀ x, s.operand.value = .str x → ∀ c ∈ x, c.toNat < 256 := by
  intro x hx
  obtain ⟨hrow, txt, hcr⟩ := parseLine_parsed h
  exact createOperand_str_narrow hrow hcr hx

/-- every string operand that enters the back end is narrow (no hypothesis on the program or the host files) -/
theorem expand_narrow {fs : Files} {lines : List Str} {parsed ss0 : List Stmt}
    (hp : parseLines lines = .ok parsed) (he : expand fs (includeFuel fs) [] parsed = .ok ss0) :
    ∀ s ∈ ss0, ∀ x, s.operand.value = .str x → ∀ c ∈ x, c.toNat < 256 :=
  expand_forall_of (Q := fun _ => True) (P := fun s => ∀ x, s.operand.value = .str x → ∀ c ∈ x, c.toNat < 256)
    (fun _ _ _ h => parseLine_narrow h) fs (fun _ _ _ _ => trivial) (includeFuel fs) [] parsed ss0
    (parseLines_forall_of (Q := fun _ => True) (fun _ _ _ h => parseLine_narrow h) lines parsed
      (fun _ _ => trivial) hp) he

/-- ... and so is the string operand of every final statement -/
theorem Stages.operand_narrow {fs : Files} {lines : List Str} {a : Assembly} (st : Stages fs lines a)
    {i : Nat} {s : Stmt} (hs : a.stmts[i]? = some s) :
    ∀ x, s.operand.value = .str x → ∀ c ∈ x, c.toNat < 256 := by
  obtain ⟨tr⟩ := st.trace hs
  intro x hx
  rw [tr.operand_eq] at hx
  have h0 := resolveOperand_str tr.hres hx
  obtain ⟨txt, hcr⟩ := tr.parsed.2
  exact createOperand_str_narrow tr.parsed.1 hcr h0

end CoCo.Asm
