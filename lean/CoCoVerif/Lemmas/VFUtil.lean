/-
Lemmas/VFUtil.lean — `file_util.main`: the shape of a run whose source image opens, and the `--files` selection.
-/
import CoCoVerif.Lemmas.VFCas

namespace CoCo.VF
open CoCo

/-- one conversion step of `utilMain` -/
def utilConv (sel : List CFile) (ap : Bool) (st : Outcome FS) (t : Option Path) (k : Kind) : Outcome FS :=
  match st, t with
  | .ok cur, some p => storeTo cur p k sel ap
  | st, _ => st

/-- the `--to_bin` step of `utilMain` -/
def utilBin (files : List CFile) (selArg : Option (List (List Char))) (ap : Bool) (s2 : Outcome FS)
    (t : Option Path) : Outcome FS :=
  match s2, t with
  | .ok cur, some p =>
    (match openVF cur p (some .binary) with
     | .ok tgt =>
       if files.length > 1 then .diag
       else
         match files with
         | [] => .internal
         | f :: _ => saveVF cur (if selected selArg f then addCoco tgt f else tgt) ap
     | o => (match o with | .diag => .diag | .internal => .internal | _ => .diverged))
  | st, _ => st

def utilFinish (fs : FS) (s1 s2 s3 : Outcome FS) : CliResult :=
  { exit := (match s3 with | .ok _ => 0 | _ => 1),
    fs := (match s3 with
           | .ok f => f
           | _ => (match s2 with | .ok f => f | _ => (match s1 with | .ok f => f | _ => fs))) }

theorem utilMain_ok {fs : FS} {args : UtilArgs} {src : Bytes} {files : List CFile} {k : Kind}
    (hh : fs.get? args.host = some src) (hs : sniff src = .ok (files, k)) :
    utilMain fs args =
      (let sel := files.filter (selected args.files)
       let s1 := utilConv sel args.append (.ok fs) args.toCas .cassette
       let s2 := utilConv sel args.append s1 args.toDsk .disk
       let s3 := utilBin files args.files args.append s2 args.toBin
       utilFinish fs s1 s2 s3) := by
  unfold utilMain openVF
  simp only [hh, hs]
  rfl

theorem utilConv_none (sel : List CFile) (ap : Bool) (st : Outcome FS) (k : Kind) :
    utilConv sel ap st none k = st := by
  cases st <;> rfl

theorem utilBin_none (files : List CFile) (sa : Option (List (List Char))) (ap : Bool) (st : Outcome FS) :
    utilBin files sa ap st none = st := by
  cases st <;> rfl

/-- a source image that does not open: exit 1, nothing written -/
theorem utilMain_nosrc {fs : FS} {args : UtilArgs} (hh : fs.get? args.host = some src)
    (hs : ∀ r, sniff src ≠ .ok r) : utilMain fs args = { exit := 1, fs := fs } := by
  unfold utilMain openVF
  simp only [hh]
  cases h : sniff src with
  | ok r => exact absurd h (hs r)
  | diag => rfl
  | internal => rfl
  | diverged => rfl

/-! ### `--files` -/

/-- what `--files` compares: the upper-cased, stripped, NUL-free name -/
def selKey (f : CFile) : List Char :=
  upperS ((Asm.strip (f.name.map Char.ofNat)).filter (· != Char.ofNat 0))

theorem selected_some (names : List (List Char)) (f : CFile) :
    selected (some names) f = (names.map upperS).contains (selKey f) := rfl

/-- the selection depends on a file only through `selKey` -/
theorem selected_congr (sel : Option (List (List Char))) (f g : CFile) (h : selKey f = selKey g) :
    selected sel f = selected sel g := by
  cases sel with
  | none => rfl
  | some names => rw [selected_some, selected_some, h]

theorem upperC_ofNat_idem : ∀ n, n < 123 → 97 ≤ n →
    Asm.upperC (Asm.upperC (Char.ofNat n)) = Asm.upperC (Char.ofNat n) := by decide

theorem upperC_idem (c : Char) : Asm.upperC (Asm.upperC c) = Asm.upperC c := by
  by_cases h : ('a' ≤ c && c ≤ 'z') = true
  · have hc : c = Char.ofNat c.toNat := (Char.ofNat_toNat c).symm
    have h' := h
    simp only [Bool.and_eq_true, decide_eq_true_eq, Char.le_def, UInt32.le_iff_toNat_le] at h'
    have h1 : 97 ≤ c.toNat := h'.1
    have h2 : c.toNat ≤ 122 := h'.2
    rw [hc]
    exact upperC_ofNat_idem c.toNat (by omega) h1
  · have : Asm.upperC c = c := by unfold Asm.upperC; rw [if_neg h]
    rw [this, this]

theorem upperS_idem (s : List Char) : upperS (upperS s) = upperS s := by
  unfold upperS
  rw [List.map_map]
  apply List.map_congr_left
  intro c _
  exact upperC_idem c

/-- `--files` is case-insensitive in the names given -/
theorem selected_upper (names : List (List Char)) (f : CFile) :
    selected (some names) f = selected (some (names.map upperS)) f := by
  rw [selected_some, selected_some, List.map_map]
  congr 1
  apply List.map_congr_left
  intro s _
  exact (upperS_idem s).symm

/-- two selections that agree up to letter case select the same files -/
theorem selected_case_insensitive (n1 n2 : List (List Char)) (f : CFile) (h : n1.map upperS = n2.map upperS) :
    selected (some n1) f = selected (some n2) f := by
  rw [selected_some, selected_some, h]

end CoCo.VF
