/-
Lemmas/RenameResolve.lean — C18-R2 (renaming), part 2: `buildSymTab`, `resolveOperand` (every operand class, the
indexed ones through the hypothesis `LeftOK` on the textual left part) and `resolveAll` commute with a renaming.
-/
import CoCoVerif.Lemmas.RenameValue

namespace CoCo.Asm.Rename
open CoCo
open CoCo.Gen (InstrRow)

/-- what the renaming of the TEXT `l` (the left part of an indexed operand) has to satisfy: it is parsed to the
renamed value, and the empty text and the accumulator names `A`, `B`, `D` stay what they are -/
structure LeftOK (R : Ren) (row : InstrRow) (l : Str) : Prop where
  nil : R.left l = [] ↔ l = []
  abd : isABD (R.left l) = isABD l
  abd_eq : isABD l = true → R.left l = l
  create : l ≠ [] → isABD l = false → create 4 (R.left l) row.isStringDefine row.is16Bit false
      = (create 4 l row.isStringDefine row.is16Bit false).map (rnValue R)
  createI : l ≠ [] → isABD l = false → createV (R.left l) false false = (createV l false false).map (rnValue R)

def SideOK (R : Ren) (row : InstrRow) : Side → Prop
  | .text l => LeftOK R row l
  | _ => True

/-- the symbols an operand side can look up (the accumulator names `A`, `B`, `D` as left part are not symbols) -/
def sideSyms (row : InstrRow) : Side → List Str
  | .text l =>
    if isABD l then []
    else (match create 4 l row.isStringDefine row.is16Bit false with | .ok v => valSyms v | .error _ => [])
  | .val v => valSyms v
  | .noneV => []

/-- the names that occur in a statement: its label, the symbols of its operand -/
def stmtNames (s : Stmt) : List Str :=
  (if s.label = [] then [] else [s.label]) ++ valSyms s.operand.value ++ sideSyms s.row s.operand.left

def progNames (ss : List Stmt) : List Str := ss.flatMap stmtNames

/-- what the later stages need of a statement -/
structure StmtOK (R : Ren) (s : Stmt) : Prop where
  side : SideOK R s.row s.operand.left
  special : s.operand.kind = .special → R.txt s.operand.text = s.operand.text
  label : s.label ≠ [] → R.sym s.label ≠ []

section
variable {R : Ren}

theorem rnLabel_isEmpty {l : Str} (h : l ≠ [] → R.sym l ≠ []) : (rnLabel R l).isEmpty = l.isEmpty := by
  unfold rnLabel
  by_cases hl : l = []
  · simp [hl]
  · rw [if_neg hl]
    have := h hl
    cases h1 : R.sym l with
    | nil => exact absurd h1 this
    | cons a b => cases l with
      | nil => exact absurd rfl hl
      | cons c d => rfl

/-! ### `buildSymTab` -/

theorem buildSymTab_rn (N : List Str) (hinj : InjOn R.sym N) : ∀ (ss : List Stmt) (i : Nat) (t : SymTab),
    (∀ s ∈ ss, s.label ≠ [] → s.label ∈ N ∧ R.sym s.label ≠ []) → (∀ kv ∈ t, kv.1 ∈ N) →
    buildSymTab (ss.map (renameStmt R)) i (rnTab R t) = (buildSymTab ss i t).map (rnTab R) := by
  intro ss
  induction ss with
  | nil => intro i t _ _; rfl
  | cons s rest ih =>
    intro i t hl ht
    have hl' : ∀ x ∈ rest, x.label ≠ [] → x.label ∈ N ∧ R.sym x.label ≠ [] := fun x hx => hl x (by simp [hx])
    rw [List.map_cons, buildSymTab, buildSymTab]
    have e0 : (renameStmt R s).label = rnLabel R s.label := rfl
    have e1 : (rnLabel R s.label).isEmpty = s.label.isEmpty :=
      rnLabel_isEmpty (fun h => (hl s (by simp) h).2)
    rw [e0, e1]
    by_cases hs : s.label = []
    · simp only [hs, List.isEmpty_nil, if_true]
      exact ih _ _ hl' ht
    · have hsN := (hl s (by simp) hs).1
      have e2 : s.label.isEmpty = false := by cases h : s.label <;> simp_all
      have e3 : rnLabel R s.label = R.sym s.label := by unfold rnLabel; rw [if_neg hs]
      have e4 : ((rnTab R t).get? (R.sym s.label)).isSome = (t.get? s.label).isSome := by
        rw [get?_rn t s.label (fun kv hkv he => hinj _ (ht kv hkv) _ hsN he)]
        cases t.get? s.label <;> rfl
      rw [e3]
      simp only [e2, Bool.false_eq_true, if_false, e4]
      by_cases hg : (t.get? s.label).isSome = true
      · simp only [hg, if_true]; rfl
      · simp only [hg, if_false, Bool.false_eq_true]
        have e5 : rnTab R t ++ [(R.sym s.label, if (renameStmt R s).row.isPseudoDefine = true
              then (renameStmt R s).operand.value else Value.address i Mode.none)]
            = rnTab R (t ++ [(s.label, if s.row.isPseudoDefine = true then s.operand.value
                else Value.address i Mode.none)]) := by
          rw [rnTab_append]
          congr 1
          simp only [rnTab, List.map_cons, List.map_nil, renameStmt, rnOperand]
          by_cases hp : s.row.isPseudoDefine = true
          · simp [hp]
          · simp [hp]
        rw [e5]
        refine ih _ _ hl' ?_
        intro kv hkv
        rcases List.mem_append.mp hkv with h | h
        · exact ht kv h
        · simp only [List.mem_singleton] at h
          subst h; exact hsN

theorem buildSymTab_tabIn (N : List Str) : ∀ (ss : List Stmt) (i : Nat) (t t' : SymTab),
    (∀ s ∈ ss, ∀ x ∈ stmtNames s, x ∈ N) → TabIn N t → buildSymTab ss i t = some t' → TabIn N t' := by
  intro ss
  induction ss with
  | nil => intro i t t' _ ht h; simp only [buildSymTab, Option.some.injEq] at h; subst h; exact ht
  | cons s rest ih =>
    intro i t t' hN ht h
    have hN' : ∀ x ∈ rest, ∀ y ∈ stmtNames x, y ∈ N := fun x hx => hN x (by simp [hx])
    rw [buildSymTab] at h
    split at h
    · exact ih _ _ _ hN' ht h
    · rename_i hs
      split at h
      · cases h
      · refine ih _ _ _ hN' ?_ h
        intro kv hkv
        rcases List.mem_append.mp hkv with h1 | h1
        · exact ht kv h1
        · simp only [List.mem_singleton] at h1
          subst h1
          have hne : s.label ≠ [] := by
            intro hc; rw [hc] at hs; exact hs rfl
          refine ⟨hN s (by simp) _ (by simp [stmtNames, hne]), ?_⟩
          intro x hx
          dsimp only at hx
          split at hx
          · exact hN s (by simp) _ (by simp [stmtNames, hx])
          · cases hx

/-! ### `resolveLeft` -/

theorem symPost_shape {s r : Value} (h : symPost s = .ok r) : r.isAddress = true ∨ r.isNumeric = true := by
  unfold symPost at h
  split at h
  · split at h
    · cases h; exact .inl rfl
    · cases h
  · split at h
    · split at h
      · exact .inr (numericOfInt_isNumeric' h)
      · cases h
    · cases h

theorem resolve_symbol_shape {name : Str} {m : Mode} {t : SymTab} {r : Value}
    (h : (Value.symbol name m).resolve t = .ok r) : r.isAddress = true ∨ r.isNumeric = true := by
  rw [resolve_symbol_eq] at h
  split at h
  · cases h
  · exact symPost_shape h

theorem leftPost_plain {t : SymTab} {r : Value} (h : r.isAddress = true ∨ r.isNumeric = true) :
    leftPost t r = .ok r := by
  cases r <;> first | rfl | (rcases h with h | h <;> cases h)

theorem leftPost_rn (N : List Str) (hinj : InjOn R.sym N) (t : SymTab) (ht : TabIn N t) (v : Value)
    (hv : ∀ x ∈ valSyms v, x ∈ N) :
    leftPost (rnTab R t) (rnValue R v) = (leftPost t v).map (rnValue R) := by
  by_cases hp : v = .pyNone
  · subst hp; rfl
  · have e : ∀ (t : SymTab) (v : Value), v ≠ .pyNone →
        leftPost t v = if v.isAddrExpr || v.isExpression then v.resolve t else pure v := by
      intro t v hp; cases v <;> first | rfl | exact absurd rfl hp
    rw [e _ _ hp, e _ _ (fun hc => hp (rnValue_eq_pyNone.mp hc))]
    simp only [rnValue_isAddrExpr, rnValue_isExpression]
    split
    · exact resolve_rn N hinj t ht v hv
    · rfl

theorem resolveLeft_rn (N : List Str) (hinj : InjOn R.sym N) (t : SymTab) (ht : TabIn N t) (row : InstrRow)
    (l : Str) (hl : LeftOK R row l) (h1 : l ≠ []) (h2 : isABD l = false)
    (hN : ∀ x ∈ sideSyms row (.text l), x ∈ N) :
    resolveLeft (R.left l) row (rnTab R t) = (resolveLeft l row t).map (rnValue R) := by
  rw [resolveLeft_eq, resolveLeft_eq, hl.create h1 h2]
  cases hc : create 4 l row.isStringDefine row.is16Bit false with
  | error e => rfl
  | ok v =>
    have hv : ∀ x ∈ valSyms v, x ∈ N := by
      intro x hx
      apply hN
      simp only [sideSyms, hc, h2, Bool.false_eq_true, if_false]; exact hx
    simp only [Except.map, rnValue_isSymbol]
    split
    · rw [resolve_rn N hinj t ht v hv]
      cases hr : v.resolve t with
      | error e => rfl
      | ok v2 =>
        have hsh : v2.isAddress = true ∨ v2.isNumeric = true := by
          cases v <;> first | (rename_i hs; cases hs; done) | exact resolve_symbol_shape hr
        simp only [Except.map]
        rw [leftPost_plain hsh, leftPost_plain (by simpa using hsh)]
    · exact leftPost_rn N hinj t ht v hv

/-! ### `resolveOperand` -/

theorem rnOperand_kind (o : Operand) : (rnOperand R o).kind = o.kind := rfl
theorem rnOperand_value (o : Operand) : (rnOperand R o).value = rnValue R o.value := rfl
theorem rnOperand_left (o : Operand) : (rnOperand R o).left = rnSide R o.left := rfl
theorem rnOperand_right (o : Operand) : (rnOperand R o).right = o.right := rfl
theorem rnOperand_text (o : Operand) : (rnOperand R o).text = R.txt o.text := rfl

theorem resolveOperand_rn (N : List Str) (hinj : InjOn R.sym N) (t : SymTab) (ht : TabIn N t) (o : Operand)
    (row : InstrRow) (hv : ∀ x ∈ valSyms o.value, x ∈ N) (hs : ∀ x ∈ sideSyms row o.left, x ∈ N)
    (hok : SideOK R row o.left) :
    resolveOperand (rnOperand R o) row (rnTab R t) = (resolveOperand o row t).map (rnOperand R) := by
  have hres := resolve_rn N hinj t ht o.value hv
  have hleft : ∀ (k : OpKind) l, o.left = .text l →
      (if (R.left l != [] && !isABD (R.left l)) = true
        then (resolveLeft (R.left l) row (rnTab R t)).map
          (fun v => { rnOperand R o with kind := k, left := Side.val v })
        else Except.ok (rnOperand R o))
      = (if (l != [] && !isABD l) = true
          then (resolveLeft l row t).map (fun v => { o with kind := k, left := Side.val v })
          else Except.ok o).map (rnOperand R) := by
    intro k l hl
    have hlok : LeftOK R row l := by rw [hl] at hok; exact hok
    have e1 : (R.left l != []) = (l != []) := by
      by_cases h : l = []
      · rw [hlok.nil.mpr h, h]
      · have : R.left l ≠ [] := fun hc => h (hlok.nil.mp hc)
        rw [bne_iff_ne.mpr this, bne_iff_ne.mpr h]
    rw [e1, hlok.abd]
    split
    · rename_i hc
      simp only [Bool.and_eq_true, bne_iff_ne, Bool.not_eq_true'] at hc
      rw [resolveLeft_rn N hinj t ht row l hlok hc.1 hc.2 (by rw [hl] at hs; exact hs)]
      cases resolveLeft l row t <;> rfl
    · rfl
  unfold resolveOperand
  rw [rnOperand_kind]
  cases hkind : o.kind with
  | pseudo =>
    dsimp only
    split
    · rw [rnOperand_value]
      cases hv' : o.value with
      | pyNone => rfl
      | symbol name m =>
        rw [hv'] at hres
        simp only [rnValue] at hres ⊢
        simp only [Value.isSymbol, Bool.true_or, if_true]
        rw [hres]
        cases (Value.symbol name m).resolve t <;> rfl
      | expr l r op m ae =>
        rw [hv'] at hres
        simp only [rnValue] at hres ⊢
        cases ae with
        | false =>
          simp only [Value.isSymbol, Value.isExpression, Bool.or_true, if_true]
          rw [hres]
          cases (Value.expr l r op m false).resolve t <;> rfl
        | true => rfl
      | _ => rfl
    · rfl
  | special => rfl
  | indexed =>
    dsimp only
    rw [rnOperand_left]
    cases hl : o.left with
    | text l => exact hleft .indexed l hl
    | _ => rfl
  | extIndirect =>
    dsimp only
    rw [rnOperand_value, rnOperand_left]
    simp only [rnValue_isNone, rnValue_isLeftRight]
    split
    · rw [hres]
      cases o.value.resolve t <;> rfl
    · cases hl : o.left with
      | text l => exact hleft .extIndirect l hl
      | _ => rfl
  | unknown =>
    dsimp only
    rw [rnOperand_value, hres]
    cases hr : o.value.resolve t with
    | error e => rfl
    | ok v =>
      have hb : (OpKind.unknown != OpKind.unknown) = false := by decide
      simp only [Except.map, hb, Bool.false_eq_true, if_false, rnValue_isDirect, rnValue_isExplicitDirect,
        rnValue_isExplicitExtended]
      split
      · rfl
      · cases v with
        | pyNone => rfl
        | numeric i h m n =>
          simp only [rnValue]
          split
          · cases hx : numericOfInt (i : Int) none .direct with
            | error e => rfl
            | ok w =>
              have := rnValue_of_numeric (R := R) (numericOfInt_isNumeric' hx)
              simp only [rnOperand, this]
          · rfl
        | address i m =>
          simp only [rnValue]
          split <;> rfl
        | _ => rfl
  | relative | inherent | immediate | direct | extended =>
    dsimp only
    rw [rnOperand_value, hres]
    cases hr : o.value.resolve t with
    | error e => rfl
    | ok v =>
      simp (decide := true) only [Except.map, if_true, bne_iff_ne, ne_eq]
      rfl

/-- `resolve_symbols` leaves the operand text alone, keeps a special operand special, and a textual left part
either stays or becomes a value -/
theorem resolveOperand_frame {o o' : Operand} {row : InstrRow} {t : SymTab} (h : resolveOperand o row t = .ok o') :
    o'.text = o.text ∧ (o'.kind = .special → o.kind = .special) ∧
      (o'.left = o.left ∨ ∃ v, o'.left = .val v) := by
  have h1 : ∀ {x : R Value}, x.map (fun v => { o with left := .val v }) = .ok o' →
      o'.text = o.text ∧ (o'.kind = .special → o.kind = .special) ∧ (o'.left = o.left ∨ ∃ v, o'.left = .val v) := by
    intro x hx; cases x <;> cases hx; exact ⟨rfl, id, .inr ⟨_, rfl⟩⟩
  have h2 : ∀ {x : R Value}, x.map (fun v => { o with value := v }) = .ok o' →
      o'.text = o.text ∧ (o'.kind = .special → o.kind = .special) ∧ (o'.left = o.left ∨ ∃ v, o'.left = .val v) := by
    intro x hx; cases x <;> cases hx; exact ⟨rfl, id, .inl rfl⟩
  have h3 : ∀ {x : R Value} {k}, k ≠ OpKind.special → x.map (fun nv => { o with kind := k, value := nv }) = .ok o' →
      o'.text = o.text ∧ (o'.kind = .special → o.kind = .special) ∧ (o'.left = o.left ∨ ∃ v, o'.left = .val v) := by
    intro x k hk hx; cases x <;> cases hx; exact ⟨rfl, fun hc => absurd hc hk, .inl rfl⟩
  have h0 : o' = o →
      o'.text = o.text ∧ (o'.kind = .special → o.kind = .special) ∧ (o'.left = o.left ∨ ∃ v, o'.left = .val v) := by
    intro e; subst e; exact ⟨rfl, id, .inl rfl⟩
  unfold resolveOperand at h
  split at h
  · cases h; exact h0 rfl
  · split at h
    · split at h
      · cases h
      · split at h
        · exact h2 h
        · cases h; exact h0 rfl
    · cases h; exact h0 rfl
  · split at h
    · split at h
      · exact h1 h
      · cases h; exact h0 rfl
    · cases h; exact h0 rfl
  · split at h
    · exact h2 h
    · split at h
      · split at h
        · exact h1 h
        · cases h; exact h0 rfl
      · cases h
  · rename_i hk1 hk2 hk3 hk4
    split at h
    · cases h
    · split at h
      · cases h; exact ⟨rfl, id, .inl rfl⟩
      · have hku : o.kind = .unknown := by rename_i hh; simpa using hh
        split at h
        · cases h; exact ⟨rfl, (fun hc => by cases hc), .inl rfl⟩
        · repeat' split at h
          all_goals first
            | (cases h; done)
            | exact h3 (by decide) h
            | (cases h; exact ⟨rfl, (fun hc => by cases hc), .inl rfl⟩)

/-! ### `resolveAll` -/

theorem renameStmt_withOperand (s : Stmt) (o : Operand) :
    renameStmt R { s with operand := o } = { renameStmt R s with operand := rnOperand R o } := rfl

theorem resolveAll_rn (N : List Str) (hinj : InjOn R.sym N) (t : SymTab) (ht : TabIn N t) : ∀ (ss : List Stmt),
    (∀ s ∈ ss, ∀ x ∈ stmtNames s, x ∈ N) → (∀ s ∈ ss, SideOK R s.row s.operand.left) →
    resolveAll (rnTab R t) (ss.map (renameStmt R)) = (resolveAll t ss).map (List.map (renameStmt R)) := by
  intro ss
  induction ss with
  | nil => intro _ _; rfl
  | cons s rest ih =>
    intro hN hok
    rw [List.map_cons, resolveAll, resolveAll]
    have e1 : (renameStmt R s).operand = rnOperand R s.operand := rfl
    have e2 : (renameStmt R s).row = s.row := rfl
    rw [e1, e2, resolveOperand_rn N hinj t ht s.operand s.row
      (fun x hx => hN s (by simp) x (by simp [stmtNames, hx]))
      (fun x hx => hN s (by simp) x (by simp [stmtNames, hx])) (hok s (by simp))]
    cases hr : resolveOperand s.operand s.row t with
    | error e => rfl
    | ok o =>
      simp only [Except.map]
      rw [ih (fun x hx => hN x (by simp [hx])) (fun x hx => hok x (by simp [hx]))]
      cases resolveAll t rest <;> rfl

/-- the hypotheses the later stages need survive `resolveAll` -/
theorem resolveAll_stmtOK {t : SymTab} : ∀ {ss ss1 : List Stmt}, resolveAll t ss = some ss1 →
    (∀ s ∈ ss, StmtOK R s) → ∀ s ∈ ss1, StmtOK R s := by
  intro ss
  induction ss with
  | nil => intro ss1 h _ s hs; simp only [resolveAll, Option.some.injEq] at h; subst h; cases hs
  | cons a rest ih =>
    intro ss1 h hok s hs
    rw [resolveAll] at h
    cases hr : resolveOperand a.operand a.row t with
    | error e => rw [hr] at h; cases h
    | ok o =>
      rw [hr] at h
      dsimp only at h
      cases hrest : resolveAll t rest with
      | none => rw [hrest] at h; cases h
      | some r =>
        rw [hrest] at h
        simp only [Option.map_some, Option.some.injEq] at h
        subst h
        rcases List.mem_cons.mp hs with h1 | h1
        · subst h1
          obtain ⟨htxt, hsp, hl⟩ := resolveOperand_frame hr
          have ha := hok a (by simp)
          refine ⟨?_, ?_, ha.label⟩
          · show SideOK R a.row o.left
            rcases hl with hl | ⟨v, hl⟩
            · rw [hl]; exact ha.side
            · rw [hl]; trivial
          · intro hk
            show R.txt o.text = o.text
            rw [htxt]; exact ha.special (hsp hk)
        · exact ih hrest (fun x hx => hok x (by simp [hx])) s h1

end

end CoCo.Asm.Rename
