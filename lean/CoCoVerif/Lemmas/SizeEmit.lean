/-
Lemmas/SizeEmit.lean — how many bytes `get_binary_array` emits for a value (property C02, "bytes emitted =
size").  Only lengths matter here: `emitHex hex hexLen` takes `(hexLen + 1) / 2` digit pairs from the front of
`hex`, so a value emits `hexLen / 2` bytes as soon as `hexLen` is even and `hex` is at least that long.
-/
import CoCoVerif.Lemmas.LayoutBranch

namespace CoCo.Asm
open CoCo

/-- `v` is emitted as `k` bytes -/
def Emits (v : Value) (k : Nat) : Prop := ∃ bs, emitValue v = some bs ∧ bs.length = k

theorem emitPairs_len : ∀ (n : Nat) (s : Str) (acc : Bytes), 2 * n ≤ s.length →
    ∃ bs, emitPairs n s acc = some bs ∧ bs.length = acc.length + n := by
  intro n
  induction n with
  | zero => intro s acc _; exact ⟨acc.reverse, by simp [emitPairs], by simp⟩
  | succ n ih =>
    intro s acc h
    match s, h with
    | a :: b :: rest, h =>
      simp only [List.length_cons] at h
      obtain ⟨bs, h1, h2⟩ := ih rest ((digitVal a * 16 + digitVal b) :: acc) (by omega)
      exact ⟨bs, by rw [emitPairs]; exact h1, by rw [h2]; simp; omega⟩
    | [_], h => exfalso; simp at h; omega
    | [], h => exfalso; simp at h

/-- an even declared length not exceeding the length of the digit string: half as many bytes -/
theorem emitHex_len {hex : Str} {l : Nat} (hev : l % 2 = 0) (hle : l ≤ hex.length) :
    ∃ bs, emitHex hex l = some bs ∧ bs.length = l / 2 := by
  unfold emitHex
  obtain ⟨bs, h1, h2⟩ := emitPairs_len ((l + 1) / 2) hex [] (by omega)
  exact ⟨bs, h1, by rw [h2]; simp; omega⟩

theorem fmtHex_length_ge (w v : Nat) : w ≤ (fmtHex w v).length := by
  unfold fmtHex
  simp only [List.length_append, List.length_replicate, List.length_map]
  omega

theorem numHexCore_length_ge (size i : Nat) (neg : Bool) :
    size ≤ (if (neg && size == 4) = true then fmtHex 4 (0x10000 - i) else fmtHex size (getNegative i neg)).length := by
  split
  · rename_i h4
    simp only [Bool.and_eq_true, beq_iff_eq] at h4
    have := fmtHex_length_ge 4 (0x10000 - i)
    omega
  · exact fmtHex_length_ge _ _

theorem numHex_length_ge (i : Nat) (h : Option Nat) (neg : Bool) : numHexLen i h ≤ (numHex i h neg).length := by
  unfold numHex
  simp only [beq_self_eq_true, if_true]
  cases h with
  | none =>
    simp only [beq_self_eq_true, if_true]
    refine Nat.le_trans ?_ (numHexCore_length_ge _ _ _)
    split <;> omega
  | some w =>
    by_cases hw : w = 0
    · subst hw
      simp [numHexLen]
    · have : (w == 0) = false := by simpa using hw
      simp only [this, Bool.false_eq_true, if_false]
      exact numHexCore_length_ge _ _ _

/-- a number whose `hex_len` is even is emitted as `hex_len / 2` bytes -/
theorem numeric_emits (i : Nat) (h : Option Nat) (m : Mode) (neg : Bool) (hev : numHexLen i h % 2 = 0) :
    Emits (.numeric i h m neg) (numHexLen i h / 2) := by
  unfold Emits emitValue
  simp only [Value.hex?, Value.hexLen?]
  exact emitHex_len hev (numHex_length_ge i h neg)

theorem numHexLen_none_even (i : Nat) : numHexLen i none % 2 = 0 := by
  unfold numHexLen
  dsimp only
  split
  · rename_i h; simp at h; omega
  · rename_i h; simp at h; omega

theorem none_emits : Emits .none 0 := ⟨[], by decide, rfl⟩

/-- the byte count of a statement is the sum of the byte counts of its three fields -/
theorem stmtBytes_len {s : Stmt} {a b c : Nat} (ha : Emits s.pkg.opCode a) (hb : Emits s.pkg.postByte b)
    (hc : Emits s.pkg.additional c) : (stmtBytes s).map List.length = some (a + b + c) := by
  obtain ⟨x, hx, rfl⟩ := ha
  obtain ⟨y, hy, rfl⟩ := hb
  obtain ⟨z, hz, rfl⟩ := hc
  unfold stmtBytes
  simp [hx, hy, hz]
  omega

/-! ### op code and post byte: absent, or a number out of `numV` -/

/-- `hex_len` with 0 for the impossible `None` -/
def hl (v : Value) : Nat := (v.hexLen?).getD 0

/-- what `translate` and the PCR loop store as op code / post byte -/
def CodeVal (v : Value) : Prop := v = .none ∨ ∃ n, numV n = .ok v

theorem numV_shape {n : Nat} {v : Value} (h : numV n = .ok v) :
    ∃ hh m, v = .numeric n hh m false ∧ (hh = none ∨ hh = some 2) := by
  unfold numV numericOfInt at h
  split at h
  · cases h
  · simp only [Except.ok.injEq] at h
    subst h
    have h2 : ¬ ((n : Int) < 0) := by omega
    simp only [h2, decide_false, Int.natAbs_natCast]
    refine ⟨_, _, rfl, ?_⟩
    by_cases hn : n < 256 <;> simp [postInit, initHint, hn]

theorem CodeVal.emits {v : Value} (h : CodeVal v) :
    v.hexLen? = some (hl v) ∧ hl v % 2 = 0 ∧ Emits v (hl v / 2) := by
  rcases h with rfl | ⟨n, hn⟩
  · exact ⟨rfl, rfl, none_emits⟩
  · obtain ⟨hh, m, rfl, hhint⟩ := numV_shape hn
    have hev : numHexLen n hh % 2 = 0 := by
      rcases hhint with rfl | rfl
      · exact numHexLen_none_even n
      · simp [numHexLen]
    exact ⟨rfl, hev, numeric_emits n hh m false hev⟩

theorem opVal_codeVal {o : Option Nat} {v : Value} (h : opVal o = .ok v) : CodeVal v := by
  cases o with
  | none => cases h
  | some n => exact .inr ⟨n, h⟩

/-! ### the field after `fitWidth` -/

/-- a field of size hint `w` (2 or 4 digits) is `w / 2` bytes -/
theorem fitted_emits (n w : Nat) (m : Mode) (neg : Bool) (hw : w = 2 ∨ w = 4) :
    Emits (.numeric n (some w) m neg) (w / 2) := by
  have := numeric_emits n (some w) m neg (by rcases hw with rfl | rfl <;> simp [numHexLen])
  exact this

/-! ### literal lists and strings -/

theorem flatten_length_const {w : Nat} : ∀ (hs : List Str), (∀ h ∈ hs, h.length = w) → hs.flatten.length = w * hs.length := by
  intro hs
  induction hs with
  | nil => intro _; simp
  | cons x r ih =>
    intro h
    simp only [List.flatten_cons, List.length_append, List.length_cons]
    rw [h x (by simp), ih (fun y hy => h y (by simp [hy]))]
    rw [Nat.mul_add]; omega

/-- a list of hex strings of total even length: half as many bytes -/
theorem multiByte_emits {hs : List Str} (hev : hs.flatten.length % 2 = 0) :
    Emits (.multiByte hs) (hs.flatten.length / 2) := by
  unfold Emits emitValue
  simp only [Value.hex?, Value.hexLen?, Option.map]
  exact emitHex_len hev (Nat.le_refl _)

theorem multiWord_emits {hs : List Str} (hev : hs.flatten.length % 2 = 0) :
    Emits (.multiWord hs) (hs.flatten.length / 2) := by
  unfold Emits emitValue
  simp only [Value.hex?, Value.hexLen?, Option.map]
  exact emitHex_len hev (Nat.le_refl _)

theorem fmtHex2_length {v : Nat} (h : v < 256) : (fmtHex 2 v).length = 2 := by
  unfold fmtHex
  by_cases h1 : v < 16
  · simp [natHexF, h1]
  · have h2 : v / 16 < 16 := by omega
    simp [natHexF, h1, h2]

theorem str_hex_length : ∀ (s : Str), (∀ c ∈ s, c.toNat < 256) →
    (s.flatMap (fun c => fmtHex 2 c.toNat)).length = 2 * s.length := by
  intro s
  induction s with
  | nil => intro _; simp
  | cons c r ih =>
    intro h
    simp only [List.flatMap_cons, List.length_append, List.length_cons]
    rw [fmtHex2_length (h c (by simp)), ih (fun y hy => h y (by simp [hy]))]
    omega

/-- a string of characters below 256: one byte per character -/
theorem str_emits {s : Str} (h : ∀ c ∈ s, c.toNat < 256) : Emits (.str s) s.length := by
  unfold Emits emitValue
  simp only [Value.hex?, Value.hexLen?, Option.map]
  have hl := str_hex_length s h
  obtain ⟨bs, h1, h2⟩ := emitHex_len (hex := s.flatMap (fun c => fmtHex 2 c.toNat))
    (l := (s.flatMap (fun c => fmtHex 2 c.toNat)).length) (by omega) (Nat.le_refl _)
  exact ⟨bs, h1, by rw [h2, hl]; omega⟩

/-- values without digits: nothing is emitted -/
theorem zero_emits {v : Value} (h : v.hexLen? = some 0) (hx : ∃ x, v.hex? = some x) : Emits v 0 := by
  obtain ⟨x, hx⟩ := hx
  unfold Emits emitValue
  rw [hx, h]
  exact ⟨[], by simp [emitHex, emitPairs], rfl⟩

end CoCo.Asm
