/-
Lemmas/EncodeFit.lean — `Statement.fit_operand_width` (`fitWidth`) and `NumericValue.fit` (`fitNum`):
the operand field of an instruction is re-rendered at the width the instruction form announces
(size less op code and post byte), a negative value in two's complement at that width; a value that
does not fit is a diagnostic.  `fitPkg` is `fitWidth` on the package alone (the statement enters only
through its row and its package).
-/
import CoCoVerif.Lemmas.EncodeHex

namespace CoCo.Asm
open CoCo
open CoCo.Gen (InstrRow)

/-! ### bytes of a package -/

def pkgBytes (p : Pkg) : Option Bytes := do
  let a ← emitValue p.opCode
  let b ← emitValue p.postByte
  let c ← emitValue p.additional
  pure (a ++ b ++ c)

theorem stmtBytes_eq_pkgBytes (s : Stmt) : stmtBytes s = pkgBytes s.pkg := rfl

theorem pkgBytes_of {p : Pkg} {a b c : Bytes} (h1 : emitValue p.opCode = some a)
    (h2 : emitValue p.postByte = some b) (h3 : emitValue p.additional = some c) :
    pkgBytes p = some (a ++ b ++ c) := by
  simp [pkgBytes, h1, h2, h3]

/-! ### `fitWidth` on the package -/

/-- `fitWidth` reads the row and the package of the statement and changes only `pkg.additional` -/
def fitPkg (r : InstrRow) (p : Pkg) : Outcome Pkg :=
  if (r.isPseudo && !(r.isMultiByte || r.isMultiWord)) || r.isSpecial then .ok p else
  match p.additional with
  | .numeric n _ _ neg =>
    match p.opCode.hexLen?, p.postByte.hexLen? with
    | some a, some b =>
      let digits : Int := 2 * (p.size : Int) - a - b
      if digits = 2 ∨ digits = 4 then
        (match fitNum n neg digits.toNat with
         | .ok v => .ok { p with additional := v }
         | .error _ => .diag)
      else .diag
    | _, _ => .internal
  | _ => .ok p

/-- a package back into its statement -/
def withFitted (s : Stmt) : Outcome Pkg → Outcome Stmt
  | .ok p => .ok { s with pkg := p }
  | .diag => .diag
  | .internal => .internal
  | .diverged => .diverged

theorem fitWidth_eq (s : Stmt) : fitWidth s = withFitted s (fitPkg s.row s.pkg) := by
  unfold fitWidth fitPkg
  by_cases hrow : ((s.row.isPseudo && !(s.row.isMultiByte || s.row.isMultiWord)) || s.row.isSpecial) = true
  · rw [if_pos hrow, if_pos hrow]; rfl
  · rw [if_neg hrow, if_neg hrow]
    cases hadd : s.pkg.additional with
    | numeric n h m neg =>
      simp only []
      cases ha : s.pkg.opCode.hexLen? with
      | none => rfl
      | some a =>
        cases hb : s.pkg.postByte.hexLen? with
        | none => rfl
        | some b =>
          simp only []
          split
          · cases hf : fitNum n neg (2 * (s.pkg.size : Int) - a - b).toNat <;> rfl
          · rfl
    | _ => rfl

theorem fitWidth_ok {s : Stmt} {p : Pkg} (h : fitPkg s.row s.pkg = .ok p) : fitWidth s = .ok { s with pkg := p } := by
  rw [fitWidth_eq, h]; rfl

theorem fitWidth_diag {s : Stmt} (h : fitPkg s.row s.pkg = .diag) : fitWidth s = .diag := by
  rw [fitWidth_eq, h]; rfl

theorem fitWidth_ok_iff {s s' : Stmt} : fitWidth s = .ok s' ↔ ∃ p, fitPkg s.row s.pkg = .ok p ∧ s' = { s with pkg := p } := by
  rw [fitWidth_eq]
  cases h : fitPkg s.row s.pkg <;> simp [withFitted, eq_comm]

/-- a package whose `additional` is not a number is left alone, whatever the row -/
theorem fitPkg_nonNumeric (r : InstrRow) {p : Pkg} (h : p.additional.isNumeric = false) : fitPkg r p = .ok p := by
  unfold fitPkg
  split
  · rfl
  · split
    · rename_i hn; rw [hn] at h; simp [Value.isNumeric] at h
    · rfl

/-- the rows `fitWidth` skips: register-operand instructions and the pseudo operations other than FCB / FDB -/
theorem fitPkg_skip {r : InstrRow} (p : Pkg)
    (h : ((r.isPseudo && !(r.isMultiByte || r.isMultiWord)) || r.isSpecial) = true) : fitPkg r p = .ok p := by
  unfold fitPkg
  rw [if_pos h]

/-- the working case: a numeric `additional`, the hex lengths of op code and post byte known, the field
`d` hex digits wide -/
theorem fitPkg_numeric {r : InstrRow} {p : Pkg} {n : Nat} {h : Option Nat} {m : Mode} {neg : Bool} {a b d : Nat}
    (hrow : ((r.isPseudo && !(r.isMultiByte || r.isMultiWord)) || r.isSpecial) = false)
    (hadd : p.additional = .numeric n h m neg) (ha : p.opCode.hexLen? = some a) (hb : p.postByte.hexLen? = some b)
    (hsz : 2 * p.size = a + b + d) (hd : d = 2 ∨ d = 4) :
    fitPkg r p = (match fitNum n neg d with | .ok v => .ok { p with additional := v } | .error _ => .diag) := by
  have e : (2 * (p.size : Int) - (a : Int) - (b : Int)) = (d : Int) := by omega
  have hd' : ((d : Int) = 2 ∨ (d : Int) = 4) := by omega
  simp only [fitPkg, hrow, Bool.false_eq_true, if_false, hadd, ha, hb, e, hd', if_true, Int.toNat_natCast]

/-- the field is neither two nor four digits wide: a diagnostic -/
theorem fitPkg_badWidth {r : InstrRow} {p : Pkg} {n : Nat} {h : Option Nat} {m : Mode} {neg : Bool} {a b : Nat}
    (hrow : ((r.isPseudo && !(r.isMultiByte || r.isMultiWord)) || r.isSpecial) = false)
    (hadd : p.additional = .numeric n h m neg) (ha : p.opCode.hexLen? = some a) (hb : p.postByte.hexLen? = some b)
    (hd : ¬ (2 * (p.size : Int) - a - b = 2 ∨ 2 * (p.size : Int) - a - b = 4)) :
    fitPkg r p = .diag := by
  simp only [fitPkg, hrow, Bool.false_eq_true, if_false, hadd, ha, hb, hd]

/-! ### `NumericValue.fit` -/

/-- the byte a number stands for in an 8-bit field (a negative one in two's complement) -/
def byteField (n : Nat) (neg : Bool) : Nat := if neg then (256 - n) % 256 else n
/-- the word a number stands for in a 16-bit field -/
def wordField (n : Nat) (neg : Bool) : Nat := if neg then (65536 - n) % 65536 else n

/-- -128 .. 255 -/
def fitsByte (n : Nat) (neg : Bool) : Bool := if neg then decide (n ≤ 128) else decide (n ≤ 255)
/-- -32768 .. 65535 -/
def fitsWord (n : Nat) (neg : Bool) : Bool := if neg then decide (n ≤ 32768) else decide (n ≤ 65535)

theorem byteField_lt {n : Nat} {neg : Bool} (h : fitsByte n neg = true) : byteField n neg < 256 := by
  cases neg <;> simp [fitsByte, byteField] at h ⊢ <;> omega

theorem wordField_lt {n : Nat} {neg : Bool} (h : fitsWord n neg = true) : wordField n neg < 65536 := by
  cases neg <;> simp [fitsWord, wordField] at h ⊢ <;> omega

theorem pow7 : (2 : Int) ^ (4 * 2 - 1) = 128 := by decide
theorem pow8 : (2 : Int) ^ (4 * 2) = 256 := by decide
theorem pow15 : (2 : Int) ^ (4 * 4 - 1) = 32768 := by decide
theorem pow16 : (2 : Int) ^ (4 * 4) = 65536 := by decide

theorem fitNum_byte {n : Nat} {neg : Bool} (h : fitsByte n neg = true) :
    fitNum n neg 2 = .ok (.numeric (byteField n neg) (some 2) .extended false) := by
  have hlt := byteField_lt h
  have hr := numericOfInt_hint (v := byteField n neg) 2 (by omega)
  unfold fitNum
  simp only [pow7, pow8]
  cases neg
  · simp only [fitsByte, Bool.false_eq_true, if_false, decide_eq_true_eq] at h
    have c : (-128 : Int) ≤ (n : Int) ∧ (n : Int) < 256 := by omega
    have e : (n : Int) % 256 = ((byteField n false : Nat) : Int) := by simp only [byteField, Bool.false_eq_true, if_false]; omega
    simp only [Bool.false_eq_true, if_false, c, and_self, if_true, e, hr]
  · simp only [fitsByte, if_true, decide_eq_true_eq] at h
    have c : (-128 : Int) ≤ -(n : Int) ∧ -(n : Int) < 256 := by omega
    have e : (-(n : Int)) % 256 = ((byteField n true : Nat) : Int) := by simp only [byteField, if_true]; omega
    simp only [if_true, c, and_self, e, hr]

theorem fitNum_byte_err {n : Nat} {neg : Bool} (h : fitsByte n neg = false) : fitNum n neg 2 = .error .valueType := by
  unfold fitNum
  simp only [pow7, pow8]
  cases neg
  · simp only [fitsByte, Bool.false_eq_true, if_false, decide_eq_false_iff_not] at h
    have c : ¬ ((-128 : Int) ≤ (n : Int) ∧ (n : Int) < 256) := by omega
    simp only [Bool.false_eq_true, if_false, c]
  · simp only [fitsByte, if_true, decide_eq_false_iff_not] at h
    have c : ¬ ((-128 : Int) ≤ -(n : Int) ∧ -(n : Int) < 256) := by omega
    simp only [if_true, c, if_false]

theorem fitNum_word {n : Nat} {neg : Bool} (h : fitsWord n neg = true) :
    fitNum n neg 4 = .ok (.numeric (wordField n neg) (some 4) .extended false) := by
  have hlt := wordField_lt h
  have hr := numericOfInt_hint (v := wordField n neg) 4 hlt
  unfold fitNum
  simp only [pow15, pow16]
  cases neg
  · simp only [fitsWord, Bool.false_eq_true, if_false, decide_eq_true_eq] at h
    have c : (-32768 : Int) ≤ (n : Int) ∧ (n : Int) < 65536 := by omega
    have e : (n : Int) % 65536 = ((wordField n false : Nat) : Int) := by simp only [wordField, Bool.false_eq_true, if_false]; omega
    simp only [Bool.false_eq_true, if_false, c, and_self, if_true, e, hr]
  · simp only [fitsWord, if_true, decide_eq_true_eq] at h
    have c : (-32768 : Int) ≤ -(n : Int) ∧ -(n : Int) < 65536 := by omega
    have e : (-(n : Int)) % 65536 = ((wordField n true : Nat) : Int) := by simp only [wordField, if_true]; omega
    simp only [if_true, c, and_self, e, hr]

theorem fitNum_word_err {n : Nat} {neg : Bool} (h : fitsWord n neg = false) : fitNum n neg 4 = .error .valueType := by
  unfold fitNum
  simp only [pow15, pow16]
  cases neg
  · simp only [fitsWord, Bool.false_eq_true, if_false, decide_eq_false_iff_not] at h
    have c : ¬ ((-32768 : Int) ≤ (n : Int) ∧ (n : Int) < 65536) := by omega
    simp only [Bool.false_eq_true, if_false, c]
  · simp only [fitsWord, if_true, decide_eq_false_iff_not] at h
    have c : ¬ ((-32768 : Int) ≤ -(n : Int) ∧ -(n : Int) < 65536) := by omega
    simp only [if_true, c, if_false]

/-- the fitted value, whatever the width: always a non-negative number with the width as its size hint -/
theorem fitNum_shape {n : Nat} {neg : Bool} {d : Nat} {v : Value} (h : fitNum n neg d = .ok v) :
    ∃ w, v = .numeric w (some d) .extended false := by
  unfold fitNum at h
  simp only [] at h
  generalize (if neg = true then -(n : Int) else (n : Int)) = z at h
  by_cases hr : -((2 : Int) ^ (4 * d - 1)) ≤ z ∧ z < (2 : Int) ^ (4 * d)
  · rw [if_pos hr] at h
    have hp : (0 : Int) < (2 : Int) ^ (4 * d) := Int.pow_pos (by decide)
    have hnn : ¬ (z % (2 : Int) ^ (4 * d) < 0) := by
      have := Int.emod_nonneg z (Int.ne_of_gt hp)
      omega
    unfold numericOfInt at h
    by_cases hb : z % (2 : Int) ^ (4 * d) > 65535
    · rw [if_pos hb] at h; cases h
    · rw [if_neg hb] at h
      simp only [initHint, postInit, hnn] at h
      simp at h
      exact ⟨_, h.symm⟩
  · rw [if_neg hr] at h; cases h

/-! ### the emitted field -/

/-- what follows op code and post byte: nothing, one byte, or two bytes (high byte first) -/
inductive FieldFit (n : Nat) (neg : Bool) : Bytes → Prop
  | byte : fitsByte n neg = true → FieldFit n neg [byteField n neg]
  | word : fitsWord n neg = true → FieldFit n neg [wordField n neg / 256, wordField n neg % 256]

theorem FieldFit.digits {n : Nat} {neg : Bool} {ad : Bytes} (h : FieldFit n neg ad) :
    2 * ad.length = 2 ∨ 2 * ad.length = 4 := by
  cases h <;> simp

/-- the fitted value and its bytes -/
theorem FieldFit.fit {n : Nat} {neg : Bool} {ad : Bytes} (h : FieldFit n neg ad) :
    ∃ v, fitNum n neg (2 * ad.length) = .ok v ∧ emitValue v = some ad := by
  cases h with
  | byte hb => exact ⟨_, fitNum_byte hb, emit_hint2 _ (byteField_lt hb)⟩
  | word hw => exact ⟨_, fitNum_word hw, emit_hint4 _ (wordField_lt hw)⟩

end CoCo.Asm
