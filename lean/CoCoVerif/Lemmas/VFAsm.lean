/-
Lemmas/VFAsm.lean — the CoCoFile `assembler.main` builds from an assembled program (name, load/exec address
through the hex string of the origin value) and what the three save steps do on fresh targets.
-/
import CoCoVerif.Lemmas.VFCas

namespace CoCo.VF
open CoCo

/-- `program.name or args.name` -/
def asmName (a : Asm.Assembly) (argName : Option (List Char)) : List Char :=
  match a.name with
  | some n => if n.isEmpty then argName.getD [] else n
  | none => argName.getD []

/-- `int(hex[0:2], 16)`-style parse used by `high_byte()` / `low_byte()` -/
def byteAt (cs : List Char) : Nat := cs.foldl (fun acc c => acc * 16 + Asm.digitVal c) 0

/-- the address `main` derives from the origin value -/
def originAddr (o : Asm.Value) : Nat :=
  let hl := (o.hexLen?).getD 0
  let hx := (o.hex?).getD []
  let hi := if hl ≤ 2 then 0 else byteAt (hx.take 2)
  let lo := if hl = 0 then 0 else if hl ≤ 2 then byteAt (hx.take 2) else byteAt (hx.drop 2)
  hi * 256 + lo

/-- the shape of the file `main` builds -/
theorem cocoOfAssembly_some {a : Asm.Assembly} {nm : Option (List Char)} {cf : CFile}
    (h : cocoOfAssembly a nm = some cf) :
    ∃ img, a.image = some img ∧
      cf = { name := chars (asmName a nm), ext := chars "bin".toList, ftype := 2, dtype := 0, gaps := 0,
             load := originAddr a.origin, exec := originAddr a.origin, data := img } := by
  unfold cocoOfAssembly at h
  cases hi : a.image with
  | none => simp [hi] at h
  | some img =>
    simp only [hi] at h
    refine ⟨img, rfl, ?_⟩
    rw [← Option.some.inj h]
    rfl

theorem digitVal_hexChar : ∀ n, n < 16 → Asm.digitVal (Asm.hexChar n) = n := by decide

theorem fmtHex4 (v : Nat) (hv : v < 65536) :
    Asm.fmtHex 4 v = [Asm.hexChar (v / 4096), Asm.hexChar (v / 256 % 16), Asm.hexChar (v / 16 % 16),
                      Asm.hexChar (v % 16)] := by
  have h0 : Asm.hexChar 0 = '0' := by decide
  unfold Asm.fmtHex
  by_cases h1 : v < 16
  · have e1 : v / 4096 = 0 := by omega
    have e2 : v / 256 % 16 = 0 := by omega
    have e3 : v / 16 % 16 = 0 := by omega
    have e4 : v % 16 = v := by omega
    simp [Asm.natHexF, h1, e1, e2, e3, e4, h0, List.replicate]
  · by_cases h2 : v / 16 < 16
    · have e1 : v / 4096 = 0 := by omega
      have e2 : v / 256 % 16 = 0 := by omega
      have e3 : v / 16 % 16 = v / 16 := by omega
      simp [Asm.natHexF, h1, h2, e1, e2, e3, h0, List.replicate]
    · by_cases h3 : v / 16 / 16 < 16
      · have e1 : v / 4096 = 0 := by omega
        have e2 : v / 256 % 16 = v / 16 / 16 := by omega
        simp [Asm.natHexF, h1, h2, h3, e1, e2, h0]
      · have h4 : v / 16 / 16 / 16 < 16 := by omega
        have e1 : v / 4096 = v / 16 / 16 / 16 := by omega
        have e2 : v / 256 % 16 = v / 16 / 16 % 16 := by omega
        simp [Asm.natHexF, h1, h2, h3, h4, e1, e2]

/-- an `ORG $xxxx` origin (four hex digits) comes out as the load address -/
theorem originAddr_numeric4 (v : Nat) (m : Asm.Mode) (hv : v < 65536) :
    originAddr (.numeric v (some 4) m false) = v := by
  have hx : (Asm.Value.numeric v (some 4) m false).hex? = some (Asm.fmtHex 4 v) := by
    simp [Asm.Value.hex?, Asm.numHex, Asm.getNegative]
  have hl : (Asm.Value.numeric v (some 4) m false).hexLen? = some 4 := by
    simp [Asm.Value.hexLen?, Asm.numHexLen]
  unfold originAddr
  rw [hx, hl, fmtHex4 v hv]
  have d1 := digitVal_hexChar (v / 4096) (by omega)
  have d2 := digitVal_hexChar (v / 256 % 16) (by omega)
  have d3 := digitVal_hexChar (v / 16 % 16) (by omega)
  have d4 := digitVal_hexChar (v % 16) (by omega)
  simp [byteAt, d1, d2, d3, d4]
  omega

theorem fmtHex2 (v : Nat) (hv : v < 256) :
    Asm.fmtHex 2 v = [Asm.hexChar (v / 16), Asm.hexChar (v % 16)] := by
  have h0 : Asm.hexChar 0 = '0' := by decide
  unfold Asm.fmtHex
  by_cases h1 : v < 16
  · have e1 : v / 16 = 0 := by omega
    have e2 : v % 16 = v := by omega
    simp [Asm.natHexF, h1, e1, e2, h0]
  · have h2 : v / 16 < 16 := by omega
    simp [Asm.natHexF, h1, h2]

theorem natHexF_len (v : Nat) (hv : v < 65536) :
    (Asm.natHexF 20 v).length = if v < 16 then 1 else if v < 256 then 2 else if v < 4096 then 3 else 4 := by
  by_cases h1 : v < 16
  · simp [Asm.natHexF, h1]
  · by_cases h2 : v < 256
    · have : v / 16 < 16 := by omega
      simp [Asm.natHexF, h1, h2, this]
    · by_cases h3 : v < 4096
      · have a1 : ¬ v / 16 < 16 := by omega
        have a2 : v / 16 / 16 < 16 := by omega
        simp [Asm.natHexF, h1, h2, h3, a1, a2]
      · have a1 : ¬ v / 16 < 16 := by omega
        have a2 : ¬ v / 16 / 16 < 16 := by omega
        have a3 : v / 16 / 16 / 16 < 16 := by omega
        simp [Asm.natHexF, h1, h2, h3, a1, a2, a3]

/-- a two-digit origin (`ORG $xx`) -/
theorem originAddr_numeric2 (v : Nat) (m : Asm.Mode) (hv : v < 256) :
    originAddr (.numeric v (some 2) m false) = v := by
  have hx : (Asm.Value.numeric v (some 2) m false).hex? = some (Asm.fmtHex 2 v) := by
    simp [Asm.Value.hex?, Asm.numHex, Asm.getNegative]
  have hl : (Asm.Value.numeric v (some 2) m false).hexLen? = some 2 := by
    simp [Asm.Value.hexLen?, Asm.numHexLen]
  unfold originAddr
  rw [hx, hl, fmtHex2 v hv]
  have d1 := digitVal_hexChar (v / 16) (by omega)
  have d2 := digitVal_hexChar (v % 16) (by omega)
  simp [byteAt, d1, d2]
  omega

/-- an origin without a size hint (decimal `ORG 3584`) -/
theorem originAddr_numericNone (v : Nat) (m : Asm.Mode) (hv : v < 65536) :
    originAddr (.numeric v none m false) = v := by
  have hlen := natHexF_len v hv
  by_cases h2 : v < 256
  · have hx : (Asm.Value.numeric v none m false).hex? = some (Asm.fmtHex 2 v) := by
      by_cases h1 : v < 16 <;> simp [Asm.Value.hex?, Asm.numHex, Asm.getNegative, Asm.numHexLen, hlen, h1, h2]
    have hl : (Asm.Value.numeric v none m false).hexLen? = some 2 := by
      by_cases h1 : v < 16 <;> simp [Asm.Value.hexLen?, Asm.numHexLen, hlen, h1, h2]
    unfold originAddr
    rw [hx, hl, fmtHex2 v h2]
    have d1 := digitVal_hexChar (v / 16) (by omega)
    have d2 := digitVal_hexChar (v % 16) (by omega)
    simp [byteAt, d1, d2]
    omega
  · have h1 : ¬ v < 16 := by omega
    have hx : (Asm.Value.numeric v none m false).hex? = some (Asm.fmtHex 4 v) := by
      by_cases h3 : v < 4096 <;> simp [Asm.Value.hex?, Asm.numHex, Asm.getNegative, Asm.numHexLen, hlen, h1, h2, h3]
    have hl : (Asm.Value.numeric v none m false).hexLen? = some 4 := by
      by_cases h3 : v < 4096 <;> simp [Asm.Value.hexLen?, Asm.numHexLen, hlen, h1, h2, h3]
    unfold originAddr
    rw [hx, hl, fmtHex4 v hv]
    have d1 := digitVal_hexChar (v / 4096) (by omega)
    have d2 := digitVal_hexChar (v / 256 % 16) (by omega)
    have d3 := digitVal_hexChar (v / 16 % 16) (by omega)
    have d4 := digitVal_hexChar (v % 16) (by omega)
    simp [byteAt, d1, d2, d3, d4]
    omega

/-- no `ORG`: load address 0 -/
theorem originAddr_none : originAddr .none = 0 := by
  simp [originAddr, Asm.Value.hexLen?]

/-! ### the save steps of `assembler.main` -/

/-- the per-target step of `asmMain` -/
def asmStep (cf : CFile) (ap : Bool) (st : FS × List Kind) (t : Option Path) (k : Kind) : FS × List Kind :=
  match t with
  | none => st
  | some p =>
    match storeTo st.1 p k [cf] ap with
    | .ok fs' => (fs', st.2)
    | _ => (st.1, st.2 ++ [k])

theorem asmMain_ok {fs : FS} {incl : Asm.Files} {lines : List (List Char)} {args : AsmArgs}
    {a : Asm.Assembly} {cf : CFile} (ha : Asm.assemble incl lines = .ok a)
    (hc : cocoOfAssembly a args.name = some cf) :
    asmMain fs incl lines args =
      (let s1 := asmStep cf args.append (fs, []) args.toBin .binary
       if args.toCas.isSome && cf.name.isEmpty then { exit := 0, fs := s1.1, refused := s1.2 }
       else
         let s2 := asmStep cf args.append s1 args.toCas .cassette
         if args.toDsk.isSome && cf.name.isEmpty then { exit := 0, fs := s2.1, refused := s2.2 }
         else
           let s3 := asmStep cf args.append s2 args.toDsk .disk
           { exit := 0, fs := s3.1, refused := s3.2 }) := by
  unfold asmMain
  simp only [ha, hc]
  rfl

theorem asmStep_none (cf : CFile) (ap : Bool) (st : FS × List Kind) (k : Kind) : asmStep cf ap st none k = st := rfl

theorem asmStep_fresh (cf : CFile) (ap : Bool) (st : FS × List Kind) (p : Path) (k : Kind) (img : Bytes)
    (hf : st.1.get? p = none) (hb : buildImage k [cf] = .ok img) :
    asmStep cf ap st (some p) k = (st.1.set p img, st.2) := by
  simp only [asmStep, storeTo_fresh st.1 p k [cf] ap img hf hb]

/-- whatever happens, a step changes no path but its target -/
theorem asmStep_frame (cf : CFile) (ap : Bool) (st : FS × List Kind) (t : Option Path) (k : Kind) (q : Path)
    (hq : t ≠ some q) : (asmStep cf ap st t k).1.get? q = st.1.get? q := by
  cases t with
  | none => rfl
  | some p =>
    have hqp : q ≠ p := fun h => hq (by rw [h])
    simp only [asmStep]
    cases hs : storeTo st.1 p k [cf] ap with
    | ok fs' => exact (storeTo_ok hs).1 q hqp
    | diag => rfl
    | internal => rfl
    | diverged => rfl

/-! ### evaluating `assemble` in the kernel (for non-vacuity examples): `expand` is defined by well-founded
recursion and does not reduce, so it is taken out for programs without INCLUDE -/

theorem expand_go_noinc (fs : Asm.Files) (fuel : Nat) (inc : List (List Char)) : ∀ l : List Asm.Stmt,
    (∀ s ∈ l, s.row.isInclude = false) → Asm.expand.go fs fuel inc l = .ok l := by
  intro l
  induction l with
  | nil => intro _; simp [Asm.expand.go]
  | cons s rest ih =>
    intro h
    have hs := h s List.mem_cons_self
    rw [Asm.expand.go]
    simp [hs, ih (fun x hx => h x (List.mem_cons_of_mem _ hx))]

theorem expand_noinc (fs : Asm.Files) (fuel : Nat) (inc : List (List Char)) (l : List Asm.Stmt)
    (h : ∀ s ∈ l, s.row.isInclude = false) : Asm.expand fs (fuel + 1) inc l = .ok l := by
  rw [Asm.expand]; exact expand_go_noinc fs fuel inc l h

/-- a check on the result of `assemble` for a program without INCLUDE, computed without `expand` -/
def checkNoInc (lines : List (List Char)) (chk : Asm.Assembly → Bool) : Bool :=
  match Asm.parseLines lines with
  | .ok parsed =>
    parsed.all (fun s => !s.row.isInclude) &&
    (match Asm.buildSymTab parsed 0 [] with
     | none => false
     | some t =>
       match Asm.resolveAll t parsed with
       | none => false
       | some ss1 =>
         match Asm.translateAll ss1 with
         | none => false
         | some ss2 =>
           match Asm.pcrLoop (ss2.length + 1) ss2 with
           | .ok ss3 =>
             Asm.orgOK ss3 false &&
             (match Asm.assignAddrs ss3 0 with
              | .ok ss4 =>
                match Asm.fixAllL t ss4 with
                | .ok ss5 =>
                  match Asm.evalSyms ss5 t t with
                  | .ok t1 =>
                    match Asm.finalSymTab ss5 t1 with
                    | .ok t' =>
                      chk { stmts := ss5, symtab := t',
                            origin := ss5.foldl (fun o s => if s.row.isOrigin then s.pkg.address else o) Asm.Value.none,
                            name := ss5.foldl (fun o s => if s.row.isName then some s.operand.text else o) none }
                    | _ => false
                  | _ => false
                | _ => false
              | _ => false)
           | _ => false)
  | _ => false

theorem checkNoInc_sound {fs : Asm.Files} {lines : List (List Char)} {chk : Asm.Assembly → Bool}
    (h : checkNoInc lines chk = true) : ∃ a, Asm.assemble fs lines = .ok a ∧ chk a = true := by
  unfold checkNoInc at h
  unfold Asm.assemble
  cases hp : Asm.parseLines lines with
  | ok parsed =>
    simp only [hp, Bool.and_eq_true] at h
    obtain ⟨hall, h⟩ := h
    have hni : ∀ s ∈ parsed, s.row.isInclude = false := by
      intro s hs; simpa using List.all_eq_true.mp hall s hs
    have hx : Asm.expand fs (Asm.includeFuel fs) [] parsed = .ok parsed := expand_noinc fs fs.length [] parsed hni
    simp only [hx]
    cases h1 : Asm.buildSymTab parsed 0 [] with
    | none => simp [h1] at h
    | some t =>
      simp only [h1] at h ⊢
      cases h2 : Asm.resolveAll t parsed with
      | none => simp [h2] at h
      | some ss1 =>
        simp only [h2] at h ⊢
        cases h3 : Asm.translateAll ss1 with
        | none => simp [h3] at h
        | some ss2 =>
          simp only [h3] at h ⊢
          cases h4 : Asm.pcrLoop (ss2.length + 1) ss2 with
          | ok ss3 =>
            simp only [h4, Bool.and_eq_true] at h ⊢
            obtain ⟨horg, h⟩ := h
            simp only [horg, Bool.not_true, Bool.false_eq_true, if_false]
            cases h5 : Asm.assignAddrs ss3 0 with
            | ok ss4 =>
              simp only [h5] at h ⊢
              cases h6 : Asm.fixAllL t ss4 with
              | ok ss5 =>
                simp only [h6] at h ⊢
                cases h6e : Asm.evalSyms ss5 t t with
                | ok t1 =>
                  simp only [h6e] at h ⊢
                  cases h7 : Asm.finalSymTab ss5 t1 with
                  | ok t' => simp only [h7] at h ⊢; exact ⟨_, rfl, h⟩
                  | diag => simp [h7] at h
                  | internal => simp [h7] at h
                  | diverged => simp [h7] at h
                | diag => simp [h6e] at h
                | internal => simp [h6e] at h
                | diverged => simp [h6e] at h
              | diag => simp [h6] at h
              | internal => simp [h6] at h
              | diverged => simp [h6] at h
            | diag => simp [h5] at h
            | internal => simp [h5] at h
            | diverged => simp [h5] at h
          | diag => simp [h4] at h
          | internal => simp [h4] at h
          | diverged => simp [h4] at h
  | diag => simp [hp] at h
  | internal => simp [hp] at h
  | diverged => simp [hp] at h

/-- a program without INCLUDE reaches the address loop and is stopped there by the ORG check (`orgOK`), computed
without `expand` -/
def orgRejectedNoInc (lines : List (List Char)) : Bool :=
  match Asm.parseLines lines with
  | .ok parsed =>
    parsed.all (fun s => !s.row.isInclude) &&
    (match Asm.buildSymTab parsed 0 [] with
     | none => false
     | some t =>
       match Asm.resolveAll t parsed with
       | none => false
       | some ss1 =>
         match Asm.translateAll ss1 with
         | none => false
         | some ss2 =>
           match Asm.pcrLoop (ss2.length + 1) ss2 with
           | .ok ss3 => !Asm.orgOK ss3 false
           | _ => false)
  | _ => false

theorem orgRejectedNoInc_sound {fs : Asm.Files} {lines : List (List Char)}
    (h : orgRejectedNoInc lines = true) : Asm.assemble fs lines = .diag := by
  unfold orgRejectedNoInc at h
  unfold Asm.assemble
  cases hp : Asm.parseLines lines with
  | ok parsed =>
    simp only [hp, Bool.and_eq_true] at h
    obtain ⟨hall, h⟩ := h
    have hni : ∀ s ∈ parsed, s.row.isInclude = false := by
      intro s hs; simpa using List.all_eq_true.mp hall s hs
    have hx : Asm.expand fs (Asm.includeFuel fs) [] parsed = .ok parsed := expand_noinc fs fs.length [] parsed hni
    simp only [hx]
    cases h1 : Asm.buildSymTab parsed 0 [] with
    | none => simp [h1] at h
    | some t =>
      simp only [h1] at h ⊢
      cases h2 : Asm.resolveAll t parsed with
      | none => simp [h2] at h
      | some ss1 =>
        simp only [h2] at h ⊢
        cases h3 : Asm.translateAll ss1 with
        | none => simp [h3] at h
        | some ss2 =>
          simp only [h3] at h ⊢
          cases h4 : Asm.pcrLoop (ss2.length + 1) ss2 with
          | ok ss3 =>
            simp only [h4] at h ⊢
            simp only [h, if_true]
          | diag => simp [h4] at h
          | internal => simp [h4] at h
          | diverged => simp [h4] at h
  | diag => simp [hp] at h
  | internal => simp [hp] at h
  | diverged => simp [hp] at h

/-- a rejected program: `main` exits with status 1 and leaves the host file system alone, whatever the switches -/
theorem asmMain_diag {fs : FS} {incl : Asm.Files} {lines : List (List Char)} {args : AsmArgs}
    (ha : Asm.assemble incl lines = .diag) : asmMain fs incl lines args = { exit := 1, fs := fs } := by
  unfold asmMain
  simp only [ha]

end CoCo.VF
