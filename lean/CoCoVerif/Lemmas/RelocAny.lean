/-
Lemmas/RelocAny.lean — relocation (C18-R1), part 14: programs at ANY origin, moves across `$100` included.

The value-level relation `WideAddr D v v'` / `AddrShift D s s'` (Lemmas/RelocAddr.lean) asks for address values with the
SAME hint and mode, which fails when one of the two programs has addresses below `$100` (`numV a` is a one-byte
DIRECT value there).  Here the relation between the two layouts is INT-level with a bound:

* `IntAddr D v v'`: `v = .numeric a h m false`, `v' = .numeric (a + D) h' m' false`, `a + D < $10000`; hints and
  modes are free.
* `AddrShiftAny D s s'`: the same size, addresses related by `IntAddr`.

What later stages read of an address VALUE (as opposed to its number):
* `fix_addresses` copies the address value of a plain label into the operand field (`fixPart2`).  In the two
  programs the copies may differ in hint and mode; `fit_operand_width` then re-renders the field with the width the
  instruction form dictates, so AFTER `fixFit` the two fields are again `x` / `x + D` with hint 4, mode EXTENDED —
  provided `fit_operand_width` looks at the statement (`RefFitted`: a statement whose operand is a plain label is not
  one of the directives `fit_operand_width` skips; proved for every statement of an accepted program in
  Props/C18RelocSrc.lean, `stages_refFitted`: a directive such as EQU or END keeps its symbol operand, RMB / ORG with a
  label are rejected by `translate`).
* the final symbol table binds a label to the address VALUE: the entries of the two programs are related by `IntAddr`
  (`EquRelAny`), not by `shiftV`.
* the origin of the assembly is the address value of the last ORG statement: `IntAddr` again (`OriginAny`).
-/
import CoCoVerif.Lemmas.RelocEqu

namespace CoCo.Asm
open CoCo

/-! ### the relations -/

/-- int-level relation between two address values: not negative, `D` apart, inside the 64K space; hints and
modes are free -/
def IntAddr (D : Nat) (v v' : Value) : Prop :=
  ∃ a h m h' m', v = .numeric a h m false ∧ v' = .numeric (a + D) h' m' false ∧ a + D < 65536

/-- int-level relation (with the 64K bound) between the statements that leave `assignAddrs` -/
def AddrShiftAny (D : Nat) (s s' : Stmt) : Prop :=
  s'.pkg.size = s.pkg.size ∧ IntAddr D s.pkg.address s'.pkg.address

theorem WideAddr.intAddr {D : Nat} {v v' : Value} (h : WideAddr D v v') : IntAddr D v v' := by
  obtain ⟨a, hh, m, e1, e2, _, hlt⟩ := h
  exact ⟨a, hh, m, hh, m, e1, e2, hlt⟩

theorem AddrShift.toAny {D : Nat} {s s' : Stmt} (h : AddrShift D s s') : AddrShiftAny D s s' :=
  ⟨h.1, h.2.intAddr⟩

theorem AddrShiftAny.toI {D : Nat} {s s' : Stmt} (h : AddrShiftAny D s s') : AddrShiftI D s s' := by
  obtain ⟨h1, a, hh, m, hh', m', h2, h3, _⟩ := h
  exact ⟨h1, a, by simp [addrNat, h2, Value.int?], by simp [addrNat, h3, Value.int?]⟩

theorem IntAddr.int {D : Nat} {v v' : Value} (h : IntAddr D v v') :
    ∃ a, v.int? = some a ∧ v'.int? = some (a + D) ∧ a + D < 65536 := by
  obtain ⟨a, hh, m, hh', m', rfl, rfl, hlt⟩ := h
  exact ⟨a, rfl, rfl, hlt⟩

/-- under the old hypothesis (both values rendered alike) the int-level relation is the value-level one -/
theorem IntAddr.wide {D : Nat} {v v' : Value} (h : IntAddr D v v') (he : v' = shiftV D v)
    (hw : ∀ a hh m, v = .numeric a hh m false → hh = some 4 ∨ (hh = none ∧ 256 ≤ a)) : WideAddr D v v' := by
  obtain ⟨a, hh, m, hh', m', rfl, rfl, hlt⟩ := h
  simp only [shiftV_numeric, Value.numeric.injEq, true_and, and_true] at he
  obtain ⟨rfl, rfl⟩ := he
  exact ⟨a, hh', m', rfl, rfl, hw a hh' m' rfl, hlt⟩

/-- the address column of the listing (`address.hex(size=4)`): four digits whatever the rendering of the value, so
the printed addresses of the two programs are those of `a` and `a + D` -/
theorem IntAddr.hex4 {D : Nat} {v v' : Value} (h : IntAddr D v v') :
    ∃ a, a + D < 65536 ∧ v.hex? 4 = some (fmtHex 4 a) ∧ v'.hex? 4 = some (fmtHex 4 (a + D)) := by
  obtain ⟨a, hh, m, hh', m', rfl, rfl, hlt⟩ := h
  exact ⟨a, hlt, rfl, rfl⟩

/-! ### `assignAddrs` -/

theorem numV_numeric_any {a : Nat} {v : Value} (h : numV a = .ok v) : ∃ hh m, v = .numeric a hh m false := by
  have hlt : a < 65536 := (numV_ok_iff a).mp ⟨v, h⟩
  by_cases h256 : a < 256
  · rw [numV_byte h256] at h; cases h; exact ⟨_, _, rfl⟩
  · rw [numV_word (by omega) hlt] at h; cases h; exact ⟨_, _, rfl⟩

/-- when both layouts exist, presets are ORG-like (not negative) and stay inside the 64K space when moved, the
addresses correspond at int level — at ANY origin (compare `assignAddrs_reloc_wide`) -/
theorem assignAddrs_reloc_any (D : Nat) : ∀ (ss ss' : List Stmt) (a : Nat) (as as' : List Stmt),
    PW (OrgShift D) ss ss' → (∀ s ∈ ss, OrgWide s) →
    (∀ s ∈ ss, ∀ o h m n, s.pkg.address = .numeric o h m n → o + D < 65536) →
    assignAddrs ss a = .ok as → assignAddrs ss' (a + D) = .ok as' → PW (AddrShiftAny D) as as' := by
  intro ss
  induction ss with
  | nil =>
    intro ss' a as as' hpw _ _ h h'
    rw [hpw.nil_left] at h'
    simp [assignAddrs] at h h'; subst h h'
    exact .nil
  | cons s rest ih =>
    intro ss' a as as' hpw hw ho h h'
    obtain ⟨s', rest', rfl, ⟨hsz, hcase⟩, hrest⟩ := hpw.cons_left
    have hw' : ∀ x ∈ rest, OrgWide x := fun x hx => hw x (by simp [hx])
    have ho' : ∀ x ∈ rest, ∀ o h m n, x.pkg.address = .numeric o h m n → o + D < 65536 :=
      fun x hx => ho x (by simp [hx])
    rcases hcase with ⟨h0, h0'⟩ | ⟨o, hh, m, n, h0, h0'⟩
    · rw [assignAddrs_none h0] at h
      rw [assignAddrs_none h0'] at h'
      cases hv : numV a with
      | error e => rw [hv] at h; cases h
      | ok v =>
        rw [hv] at h; dsimp only at h
        cases hv' : numV (a + D) with
        | error e => rw [hv'] at h'; cases h'
        | ok v' =>
          rw [hv'] at h'; dsimp only at h'
          cases hr : assignAddrs rest (a + s.pkg.size) with
          | ok r =>
            rw [hr] at h; cases h
            cases hr' : assignAddrs rest' (a + D + s'.pkg.size) with
            | ok r' =>
              rw [hr'] at h'; cases h'
              have e : a + D + s'.pkg.size = (a + s.pkg.size) + D := by rw [hsz]; omega
              rw [e] at hr'
              have hlt : a + D < 65536 := (numV_ok_iff (a + D)).mp ⟨v', hv'⟩
              obtain ⟨g, m, rfl⟩ := numV_numeric_any hv
              obtain ⟨g', m', rfl⟩ := numV_numeric_any hv'
              exact .cons ⟨hsz, a, g, m, g', m', rfl, rfl, hlt⟩ (ih _ _ _ _ hrest hw' ho' hr hr')
            | _ => rw [hr'] at h'; cases h'
          | _ => rw [hr] at h; cases h
    · rw [assignAddrs_numeric h0] at h
      rw [assignAddrs_numeric h0'] at h'
      have hoD := ho s (by simp) o hh m n h0
      have hshape : n = false := by
        rcases hw s (by simp) with h1 | ⟨o1, m1, h1⟩
        · rw [h0] at h1; cases h1
        · rw [h0] at h1; cases h1; rfl
      subst hshape
      cases hr : assignAddrs rest (o + s.pkg.size) with
      | ok r =>
        rw [hr] at h; cases h
        cases hr' : assignAddrs rest' (o + D + s'.pkg.size) with
        | ok r' =>
          rw [hr'] at h'; cases h'
          have e : o + D + s'.pkg.size = (o + s.pkg.size) + D := by rw [hsz]; omega
          rw [e] at hr'
          exact .cons ⟨hsz, o, hh, m, hh, m, h0, h0', hoD⟩ (ih _ _ _ _ hrest hw' ho' hr hr')
        | _ => rw [hr'] at h'; cases h'
      | _ => rw [hr] at h; cases h

/-! ### lookups -/

section lookups
variable {D : Nat} {as as' : List Stmt}

/-- the address VALUE of statement `j` in the two layouts -/
theorem addrOf_reloc_any (h : PW (AddrShiftAny D) as as') (j : Nat) :
    (addrOf as j = none ∧ addrOf as' j = none) ∨
    ∃ v v', addrOf as j = some v ∧ addrOf as' j = some v' ∧ IntAddr D v v' := by
  unfold addrOf
  cases hj : as[j]? with
  | none =>
    have : as.length ≤ j := List.getElem?_eq_none_iff.mp hj
    rw [List.getElem?_eq_none_iff.mpr (by rw [h.1]; exact this)]
    exact .inl ⟨rfl, rfl⟩
  | some s =>
    obtain ⟨s', hs', _, hw⟩ := h.get hj
    rw [hs']
    exact .inr ⟨_, _, rfl, rfl, hw⟩

/-- the address of a statement of the original layout, moved by `D`, is inside the 64K space -/
theorem addrIntOf_bound_any (h : PW (AddrShiftAny D) as as') {t a : Nat} (ha : addrIntOf as t = some a) :
    a + D < 65536 := by
  unfold addrIntOf at ha
  rcases addrOf_reloc_any h t with ⟨e, _⟩ | ⟨v, v', e, _, hw⟩
  · rw [e] at ha; cases ha
  · rw [e] at ha
    obtain ⟨x, hx, _, hlt⟩ := hw.int
    simp only [Option.bind_some] at ha
    rw [hx] at ha; cases ha
    exact hlt

/-- the moved target stays inside the 64K space (compare `TargetMoves.bound`) -/
theorem TargetMoves.bound_any (h : PW (AddrShiftAny D) as as') {s : Stmt} (hr : TargetMoves D as s) :
    ∀ r, fixRelTarget as s = .ok r → r + D ≤ 65535 := by
  intro r hrr
  have plain : (s.isIdx = false ∨ s.pkg.additional.isAddrExpr = false) → r + D ≤ 65535 := by
    intro hp
    rw [fixRelTarget_plain _ _ hp] at hrr
    cases hi : s.pkg.additional.int? with
    | none => rw [hi] at hrr; cases hrr
    | some t =>
      rw [hi] at hrr
      dsimp only at hrr
      cases ha : addrIntOf as t with
      | none => rw [ha] at hrr; cases hrr
      | some a =>
        rw [ha] at hrr
        cases hrr
        have := addrIntOf_bound_any h ha
        omega
  rcases hr with hx | hx | ⟨hidx, l, r', op, m, k, hh, mm, nn, he, _, _, _, hb⟩
  · exact plain (.inl hx)
  · exact plain (.inr hx)
  · rw [fixRelTarget_expr _ _ hidx he] at hrr
    rw [he] at hb
    cases ho : addrOffset as (.expr l r' op m true) with
    | ok v =>
      rw [ho] at hrr
      obtain ⟨z, rfl, hz⟩ := hb v ho
      cases hrr
      exact hz
    | _ => rw [ho] at hrr; cases hrr

end lookups

/-! ### `fixFit` on the class `Moved` -/

/-- a statement whose operand is a plain label is looked at by `fit_operand_width` (it is not one of the directives
that are skipped): the copy of the label's address VALUE in its operand field is re-rendered at the width of the field -/
def RefFitted (s : Stmt) : Prop := s.operand.value.isAddress = true → fitSkipped s.row = false

/-- `fit_operand_width` on a four-digit field that holds the number `x`, however it is rendered -/
theorem fitWidth_field4_any {s : Stmt} (hf : Field4 s) {x : Nat} (hx : x < 65536) (hh : Option Nat) (m : Mode) :
    fitWidth (withAdditional s (.numeric x hh m false)) =
      .ok (withAdditional s (.numeric x (some 4) .extended false)) := by
  rw [fitWidth_field4 (hf.withAdditional _) (show (withAdditional s _).pkg.additional = _ from rfl)]
  simp only [fitInt, Bool.false_eq_true, if_false]
  rw [if_pos ⟨by omega, by omega⟩]
  have e : ((x : Nat) : Int) % 65536 = x := by omega
  rw [e]; rfl

section moved
variable {D : Nat} {as as' : List Stmt}

/-- from `fixOne` to `fixFit` for a statement with a 16-bit field: when `fixOne` stores wide values `x`, `x + D`,
`fitWidth` accepts both and stores them with four hex digits (the second half of `fixFit_moved_aux`) -/
theorem fixFit_of_fixOne_wide (i : Nat) {s : Stmt} (hf : FieldWide s)
    (h1 : fixOne as' i s = (fixOne as i s).map (Stmt.shiftAdditional D))
    (h2 : ∀ t, fixOne as i s = .ok t → WideAddr D t.pkg.additional (shiftV D t.pkg.additional)) :
    fixFit as' i s = (fixFit as i s).map (Stmt.shiftAdditional D) ∧
    ∀ t, fixFit as i s = .ok t → WideAddr D t.pkg.additional (shiftV D t.pkg.additional) := by
  unfold fixFit
  rw [h1]
  cases ho : fixOne as i s with
  | ok t =>
    have hfw : FieldWide t := hf.same (fixOne_same ho)
    obtain ⟨t1, e1, e2, hw⟩ := fitWidth_wide hfw (h2 t ho)
    simp only [Outcome.map_ok]
    rw [e1, e2]
    refine ⟨rfl, ?_⟩
    intro t' ht'
    cases ht'
    exact hw
  | diag => exact ⟨rfl, fun t ht => by cases ht⟩
  | internal => exact ⟨rfl, fun t ht => by cases ht⟩
  | diverged => exact ⟨rfl, fun t ht => by cases ht⟩

/-- (b, moved, any origin) after `fix_addresses; fit_operand_width` the 16-bit field holds `x` resp. `x + D`, both
rendered with four hex digits: the outcome is the same up to moving the operand field by `D` (compare
`fixFit_moved_aux`, which needs the value-level `AddrShift`) -/
theorem fixFit_moved_any_aux (h : PW (AddrShiftAny D) as as') (i : Nat) {s : Stmt} (hc : Moved D as s)
    (hfit : RefFitted s) :
    fixFit as' i s = (fixFit as i s).map (Stmt.shiftAdditional D) ∧
    ∀ t, fixFit as i s = .ok t → WideAddr D t.pkg.additional (shiftV D t.pkg.additional) := by
  have hI : PW (AddrShiftI D) as as' := h.mono (fun _ _ => AddrShiftAny.toI)
  rcases hc with ⟨hk, hn, hv, hf⟩ | ⟨hk, hE, hA, hn, hcc, hr, hf⟩
  · rcases hv with ⟨tg, m, hv⟩ | ⟨l, r, op, m, k, hh, mm, nn, hv, hother, hop, hside, hb⟩
    · -- a plain label: the address VALUE is copied, `fitWidth` re-renders it
      have hsk : fitSkipped s.row = false := hfit (by rw [hv]; rfl)
      have hf4 : Field4 s := by
        rcases hf with hf | hf
        · rw [hsk] at hf; cases hf
        · exact ⟨hsk, hf⟩
      unfold fixFit
      rw [fixOne_address_eq _ _ _ hk hv hn, fixOne_address_eq _ _ _ hk hv hn]
      rcases addrOf_reloc_any h tg with ⟨e1, e2⟩ | ⟨v, v', e1, e2, x, g, m0, g', m0', rfl, rfl, hlt⟩
      · rw [e1, e2]
        exact ⟨rfl, fun t ht => by cases ht⟩
      · rw [e1, e2]
        dsimp only
        have r1 := fitWidth_field4_any hf4 (show x < 65536 by omega) g m0
        have r2 := fitWidth_field4_any hf4 hlt g' m0'
        unfold withAdditional at r1 r2
        rw [r1, r2]
        refine ⟨rfl, ?_⟩
        intro t ht
        cases ht
        exact ⟨x, some 4, .extended, rfl, rfl, .inl rfl, hlt⟩
    · -- `label ± k`: the value is made by `calculate_address_offset`, uniformly
      rw [hv] at hb
      refine fixFit_of_fixOne_wide i hf (fixOne_reloc_expr_num hI i s hk hv hn hother hop hside hb) ?_
      intro t ht
      rw [fixOne_expr_eq _ _ _ hk hv hn] at ht
      cases ho : addrOffset as (.expr l r op m true) with
      | ok v =>
        rw [ho] at ht
        simp only [Outcome.ok.injEq] at ht
        subst ht
        obtain ⟨z, rfl, hz⟩ := hb v ho
        exact ⟨z, some 4, .extended, rfl, rfl, .inl rfl, by omega⟩
      | _ => rw [ho] at ht; cases ht
  · -- a label as constant offset of a pointer register: the value is made from the target's NUMBER
    refine fixFit_of_fixOne_wide i hf
      (fixOne_reloc_abs i s hk hE hA hn hcc (hr.reloc hI) (hr.bound_any h)) ?_
    intro t ht
    by_cases hv : s.operand.value = .pyNone
    · rw [fixOne_pyNone _ _ _ hk hv] at ht; cases ht
    · rw [fixOne_abs_eq _ _ _ hk hv hE hA hn hcc, fixPartAbs_eq] at ht
      cases hrr : fixRelTarget as s with
      | ok r =>
        rw [hrr] at ht
        have hb := hr.bound_any h r hrr
        dsimp only at ht
        rw [if_pos (by omega)] at ht
        cases ht
        exact ⟨r, some 4, .extended, rfl, rfl, .inl rfl, by omega⟩
      | _ => rw [hrr] at ht; cases ht

/-- (b, moved, any origin) the outcome of `fixFit` is the same up to moving the operand field by `D` -/
theorem fixFit_moved_any (h : PW (AddrShiftAny D) as as') (i : Nat) {s : Stmt} (hc : Moved D as s)
    (hfit : RefFitted s) : fixFit as' i s = (fixFit as i s).map (Stmt.shiftAdditional D) :=
  (fixFit_moved_any_aux h i hc hfit).1

/-- what a moved statement finally stores is a wide address value (two bytes, big endian) -/
theorem fixFit_moved_wide_any (h : PW (AddrShiftAny D) as as') (i : Nat) {s t : Stmt} (hc : Moved D as s)
    (hfit : RefFitted s) (ht : fixFit as i s = .ok t) : WideAddr D t.pkg.additional (shiftV D t.pkg.additional) :=
  (fixFit_moved_any_aux h i hc hfit).2 t ht

end moved

/-! ### the final symbol table and the origin -/

/-- `EquRel` at any origin: a LABEL's final values are related at int level (`IntAddr`: the symbol table prints `$F0`
for a value below `$100` and `$01F0` above — a property of the listing format); the other clauses are those of
`EquRel` -/
def EquRelAny (D : Nat) (as : List Stmt) (t : SymTab) (v x x' : Value) : Prop :=
  (v.isAddress = true → IntAddr D x x') ∧
  (EquPlain t v → x' = x) ∧
  (EquLabel (NumExpr D as) t v → x' = shiftV D x) ∧
  (EquLabel (ModExpr D as) t v → x' = shiftVmod D x) ∧
  (EquLabel DiffExpr t v → x' = x) ∧
  (EquLabel (NegExpr as) t v → x' = shiftVneg D x)

theorem EquRel.toAny {D : Nat} {as : List Stmt} {t : SymTab} {v x x' : Value} (h : EquRel D as t v x x')
    (hl : v.isAddress = true → IntAddr D x x') : EquRelAny D as t v x x' :=
  ⟨hl, h.2⟩

/-- (d) the final symbol tables of two accepted programs, entry by entry, at any origin (compare
`symtab_reloc_entry`) -/
theorem symtab_reloc_entry_any {D : Nat} {as as' fs fs' : List Stmt} (hI : PW (AddrShiftI D) as as')
    (hs : PW SameAddr as fs) (hs' : PW SameAddr as' fs') (hsh : PW (AddrShiftAny D) fs fs')
    {t t1 t1' r r' : SymTab} (e : evalSyms fs t t = .ok t1) (e' : evalSyms fs' t t = .ok t1')
    (f : finalSymTab fs t1 = .ok r) (f' : finalSymTab fs' t1' = .ok r')
    {j : Nat} {k : Str} {v : Value} (hj : t[j]? = some (k, v)) :
    ∃ x x', r[j]? = some (k, x) ∧ r'[j]? = some (k, x') ∧ EquRelAny D as t v x x' := by
  rw [evalSyms_sameAddr hs] at e
  rw [evalSyms_sameAddr hs'] at e'
  obtain ⟨v1, h1, g1⟩ := evalSyms_getElem? e j k v hj
  obtain ⟨v1', h1', g1'⟩ := evalSyms_getElem? e' j k v hj
  obtain ⟨x, hx, fx⟩ := finalSymTab_getElem? f j k v1 g1
  obtain ⟨x', hx', fx'⟩ := finalSymTab_getElem? f' j k v1' g1'
  refine ⟨x, x', hx, hx', ?_⟩
  have moved : ∀ (g : Value → Value) (C : Value → Prop), (∀ w, w.isNumeric = true → (g w).isNumeric = true) →
      EquLabel C t v → evalSym as' t v = (evalSym as t v).map g → x' = g x := by
    intro g C hg hc he
    have n1 := hc.numeric h1
    rw [h1, h1'] at he
    simp only [Outcome.map_ok, Outcome.ok.injEq] at he
    rw [finalVal_numeric _ n1] at fx
    rw [he, finalVal_numeric _ (hg _ n1)] at fx'
    cases fx; cases fx'; rfl
  have same : v1.isAddress = false → evalSym as' t v = evalSym as t v → x' = x := by
    intro hna he
    rw [h1, h1'] at he
    cases he
    rw [finalVal_indep fs fs' hna, fx] at fx'
    cases fx'; rfl
  refine ⟨?_, ?_, ?_, ?_, ?_, ?_⟩
  · intro hA
    cases v with
    | address i m =>
      rw [evalSym_address] at h1 h1'
      cases h1; cases h1'
      have fx0 : addrOf fs i = some x := fx
      have fx0' : addrOf fs' i = some x' := fx'
      rcases addrOf_reloc_any hsh i with ⟨e1, _⟩ | ⟨w, w', e1, e2, hw⟩
      · rw [e1] at fx0; cases fx0
      · rw [e1] at fx0; rw [e2] at fx0'
        cases fx0; cases fx0'
        exact hw
    | _ => cases hA
  · rintro ⟨hna, hc⟩
    refine same ?_ (evalSym_const as as' hc)
    rcases evalSym_ok_cases h1 with rfl | ⟨hn, _⟩
    · exact hna
    · cases v1 <;> first | rfl | cases hn
  · exact fun hc => moved _ _ (shiftV_isNumeric D) hc (evalSym_reloc_num hI hc)
  · exact fun hc => moved _ _ (shiftVmod_isNumeric D) hc (evalSym_reloc_mod hI hc)
  · intro hc
    refine same ?_ (evalSym_reloc_diff hI hc)
    have := hc.numeric h1
    cases v1 <;> first | rfl | cases this
  · exact fun hc => moved _ _ (shiftVneg_isNumeric D) hc (evalSym_reloc_neg hI hc)

/-- the origins of the two assemblies: both absent (no ORG statement), or related at int level -/
def OriginAny (D : Nat) (o o' : Value) : Prop := (o = .none ∧ o' = .none) ∨ IntAddr D o o'

theorem origin_reloc_any {D : Nat} : ∀ (fs fs' : List Stmt) (o o' : Value), OriginAny D o o' →
    PW (fun s s' => s'.row = s.row ∧ IntAddr D s.pkg.address s'.pkg.address) fs fs' →
    OriginAny D (fs.foldl (fun o s => if s.row.isOrigin then s.pkg.address else o) o)
      (fs'.foldl (fun o s => if s.row.isOrigin then s.pkg.address else o) o') := by
  intro fs
  induction fs with
  | nil => intro fs' o o' ho h; rw [h.nil_left]; exact ho
  | cons s rest ih =>
    intro fs' o o' ho h
    obtain ⟨s', rest', rfl, ⟨hrow, haddr⟩, hr⟩ := h.cons_left
    simp only [List.foldl_cons]
    rw [hrow]
    refine ih rest' _ _ ?_ hr
    split
    · exact .inr haddr
    · exact ho

end CoCo.Asm
