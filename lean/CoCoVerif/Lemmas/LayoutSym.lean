/-
Lemmas/LayoutSym.lean — the stages of `assemble` made explicit, what every stage preserves
(label, row, list length), and the symbol table: `buildSymTab`, `finalSymTab`, duplicate labels.
-/
import CoCoVerif.Lemmas.LayoutPreset

namespace CoCo.Asm
open CoCo

/-! ### the pipeline -/

/-- the intermediate results of an accepted run of `assemble` -/
structure Stages (fs : Files) (lines : List Str) (a : Assembly) where
  parsed : List Stmt
  ss0 : List Stmt
  t : SymTab
  ss1 : List Stmt
  ss2 : List Stmt
  ss3 : List Stmt
  ss4 : List Stmt
  /-- the table with every EQU defined by an expression evaluated (batch 4) -/
  t1 : SymTab
  hparse : parseLines lines = .ok parsed
  hexpand : expand fs (includeFuel fs) [] parsed = .ok ss0
  hsym : buildSymTab ss0 0 [] = some t
  hresolve : resolveAll t ss0 = some ss1
  htranslate : translateAll ss1 = some ss2
  hpcr : pcrLoop (ss2.length + 1) ss2 = .ok ss3
  haddr : assignAddrs ss3 0 = .ok ss4
  hfix : fixAllL t ss4 = .ok a.stmts
  heval : evalSyms a.stmts t t = .ok t1
  hfinal : finalSymTab a.stmts t1 = .ok a.symtab
  /-- an ORG comes before the first label and the first byte (batch 5, fix for finding B1) -/
  horg : orgOK ss3 false = true

theorem assemble_stages {fs : Files} {lines : List Str} {a : Assembly} (h : assemble fs lines = .ok a) :
    Nonempty (Stages fs lines a) := by
  unfold assemble at h
  cases h0 : parseLines lines with
  | ok parsed =>
    rw [h0] at h; dsimp only at h
    cases h1 : expand fs (includeFuel fs) [] parsed with
    | ok ss0 =>
      rw [h1] at h; dsimp only at h
      cases h2 : buildSymTab ss0 0 [] with
      | none => rw [h2] at h; cases h
      | some t =>
        rw [h2] at h; dsimp only at h
        cases h3 : resolveAll t ss0 with
        | none => rw [h3] at h; cases h
        | some ss1 =>
          rw [h3] at h; dsimp only at h
          cases h4 : translateAll ss1 with
          | none => rw [h4] at h; cases h
          | some ss2 =>
            rw [h4] at h; dsimp only at h
            cases h5 : pcrLoop (ss2.length + 1) ss2 with
            | ok ss3 =>
              rw [h5] at h; dsimp only at h
              cases hq : orgOK ss3 false with
              | false => rw [hq] at h; simp at h
              | true =>
              rw [hq] at h
              simp only [Bool.not_true, Bool.false_eq_true, if_false] at h
              cases h6 : assignAddrs ss3 0 with
              | ok ss4 =>
                rw [h6] at h; dsimp only at h
                cases h7 : fixAllL t ss4 with
                | ok ss5 =>
                  rw [h7] at h; dsimp only at h
                  cases h9 : evalSyms ss5 t t with
                  | ok t1 =>
                    rw [h9] at h; dsimp only at h
                    cases h8 : finalSymTab ss5 t1 with
                    | ok t' =>
                      rw [h8] at h; dsimp only at h
                      cases h
                      exact ⟨⟨parsed, ss0, t, ss1, ss2, ss3, ss4, t1, h0, h1, h2, h3, h4, h5, h6, h7, h9, h8, hq⟩⟩
                    | _ => rw [h8] at h; cases h
                  | _ => rw [h9] at h; cases h
                | _ => rw [h7] at h; cases h
              | _ => rw [h6] at h; cases h
            | _ => rw [h5] at h; cases h
    | _ => rw [h1] at h; cases h
  | _ => rw [h0] at h; cases h

/-! ### what every stage preserves -/

/-- label and table row are those of `s` -/
def KeepRel (s s' : Stmt) : Prop := s'.label = s.label ∧ s'.row = s.row

theorem KeepRel.trans {a b c : Stmt} (h1 : KeepRel a b) (h2 : KeepRel b c) : KeepRel a c :=
  ⟨h2.1.trans h1.1, h2.2.trans h1.2⟩

theorem fixAll_pw {ss l l' : List Stmt} {i : Nat} (h : fixAll ss i l = .ok l') : PW SameButAdditional l l' := by
  obtain ⟨hl, hp⟩ := fixAll_ok h
  refine ⟨hl, ?_⟩
  intro j s s' hs hs'
  obtain ⟨s'', h1, h2⟩ := hp j s hs
  rw [hs'] at h1; cases h1
  exact fixFit_same h2

/-- (batch 8) `evalLists` changes at most `pkg.additional` -/
theorem evalLists_pw {t : SymTab} {ss l l' : List Stmt} (h : evalLists t ss l = .ok l') : PW SameButAdditional l l' :=
  ⟨evalLists_length h, fun _ _ _ hs hs' => evalLists_same h hs hs'⟩

/-- (batch 8) `fixAll` then `evalLists`: at most `pkg.additional` changes -/
theorem fixAllL_pw {t : SymTab} {l l' : List Stmt} (h : fixAllL t l = .ok l') : PW SameButAdditional l l' := by
  obtain ⟨x, h1, h2⟩ := fixAllL_ok.1 h
  exact (fixAll_pw h1).trans (evalLists_pw h2) (fun _ _ _ => SameButAdditional.trans)

namespace Stages
variable {fs : Files} {lines : List Str} {a : Assembly}

/-- (batch 8) the statements after `fixAll`, before the lists are evaluated -/
theorem fix_split (st : Stages fs lines a) :
    ∃ ss5a, fixAll st.ss4 0 st.ss4 = .ok ss5a ∧ evalLists st.t ss5a ss5a = .ok a.stmts := fixAllL_ok.1 st.hfix

theorem keep01 (st : Stages fs lines a) : PW KeepRel st.ss0 st.ss1 :=
  (resolveAll_pw st.hresolve).mono (by rintro s s' ⟨o, _, rfl⟩; exact ⟨rfl, rfl⟩)
theorem keep12 (st : Stages fs lines a) : PW KeepRel st.ss1 st.ss2 :=
  (translateAll_pw st.htranslate).mono (by rintro s s' ⟨o, _, rfl⟩; exact ⟨rfl, rfl⟩)
theorem keep23 (st : Stages fs lines a) : PW KeepRel st.ss2 st.ss3 :=
  (pcrLoop_pw _ _ st.hpcr).mono (by rintro s s' ⟨_, _, _, _, _, rfl⟩; exact ⟨rfl, rfl⟩)
theorem keep34 (st : Stages fs lines a) : PW KeepRel st.ss3 st.ss4 :=
  (assignAddrs_pw st.haddr).mono (by rintro s s' ⟨_, rfl⟩; exact ⟨rfl, rfl⟩)
theorem keep45 (st : Stages fs lines a) : PW KeepRel st.ss4 a.stmts :=
  (fixAllL_pw st.hfix).mono (by rintro s s' ⟨_, rfl⟩; exact ⟨rfl, rfl⟩)

theorem keep25 (st : Stages fs lines a) : PW KeepRel st.ss2 a.stmts :=
  ((st.keep23.trans st.keep34 (fun _ _ _ => KeepRel.trans)).trans st.keep45 (fun _ _ _ => KeepRel.trans))

theorem keep05 (st : Stages fs lines a) : PW KeepRel st.ss0 a.stmts :=
  ((st.keep01.trans st.keep12 (fun _ _ _ => KeepRel.trans)).trans st.keep25 (fun _ _ _ => KeepRel.trans))

/-- the statements entering `assignAddrs` with an address are ORGs -/
theorem preset_org (st : Stages fs lines a) {j : Nat} {s : Stmt} (hs : st.ss3[j]? = some s)
    (hp : s.preset = true) : s.row.mnemonic = "ORG" := by
  obtain ⟨s2, hs2, sz, mx, pb, hint, fx, rfl⟩ := (pcrLoop_pw _ _ st.hpcr).get' hs
  obtain ⟨s1, hs1, p, htr, rfl⟩ := (translateAll_pw st.htranslate).get' hs2
  refine translate_preset htr ?_
  intro hnone
  simp [Stmt.preset, hnone, Value.isNone] at hp

end Stages

/-! ### buildSymTab -/

/-- the entries `buildSymTab` appends for the statements `ss`, the first of which has index `i` -/
def symEntries : List Stmt → Nat → SymTab
  | [], _ => []
  | s :: r, i =>
    if s.label.isEmpty then symEntries r (i + 1)
    else (s.label, if s.row.isPseudoDefine then s.operand.value else .address i .none) :: symEntries r (i + 1)

def SymTab.keys (t : SymTab) : List Str := t.map (·.1)

theorem get?_isSome_iff (t : SymTab) (k : Str) : (t.get? k).isSome = true ↔ k ∈ SymTab.keys t := by
  induction t with
  | nil => simp [SymTab.get?, SymTab.keys]
  | cons kv r ih =>
    obtain ⟨k', v⟩ := kv
    simp only [SymTab.get?, SymTab.keys, List.find?_cons, List.map_cons, List.mem_cons] at ih ⊢
    by_cases hk : k' = k
    · subst hk; simp
    · have : (k' == k) = false := by simpa using hk
      simp only [this]
      rw [ih]
      constructor
      · intro h; exact Or.inr h
      · rintro (h | h)
        · exact absurd h.symm hk
        · exact h

theorem get?_of_mem {t : SymTab} {k : Str} {v : Value} (hn : (SymTab.keys t).Nodup) (hm : (k, v) ∈ t) :
    t.get? k = some v := by
  induction t with
  | nil => simp at hm
  | cons kv r ih =>
    obtain ⟨k', v'⟩ := kv
    simp only [SymTab.keys, List.map_cons, List.nodup_cons] at hn
    simp only [List.mem_cons, Prod.mk.injEq] at hm
    rcases hm with ⟨rfl, rfl⟩ | hm
    · simp [SymTab.get?]
    · have hne : k' ≠ k := by
        intro he; subst he
        exact hn.1 (List.mem_map.mpr ⟨(k', v), hm, rfl⟩)
      have : (k' == k) = false := by simpa using hne
      have ih' := ih hn.2 hm
      simp only [SymTab.get?, List.find?_cons, this] at ih' ⊢
      exact ih'

theorem buildSymTab_some {ss : List Stmt} {i : Nat} {t t' : SymTab} (h : buildSymTab ss i t = some t') :
    t' = t ++ symEntries ss i ∧ ((SymTab.keys t).Nodup → (SymTab.keys t').Nodup) := by
  induction ss generalizing i t with
  | nil => simp [buildSymTab] at h; subst h; simp [symEntries]
  | cons s r ih =>
    unfold buildSymTab at h
    split at h
    · rename_i he
      obtain ⟨h1, h2⟩ := ih h
      exact ⟨by simp [symEntries, he, h1], h2⟩
    · rename_i he
      split at h
      · cases h
      · rename_i hg
        obtain ⟨h1, h2⟩ := ih h
        refine ⟨by simp [symEntries, he, h1], ?_⟩
        intro hn
        apply h2
        have hnot : s.label ∉ SymTab.keys t := by
          intro hm; exact hg ((get?_isSome_iff t s.label).mpr hm)
        simp only [SymTab.keys, List.map_append, List.map_cons, List.map_nil] at hn hnot ⊢
        rw [List.nodup_append]
        refine ⟨hn, by simp, ?_⟩
        intro x hx y hy
        simp at hy; subst hy
        intro he; subst he; exact hnot hx

/-- a labelled statement contributes its entry -/
theorem symEntries_mem {ss : List Stmt} {i j : Nat} {s : Stmt} (hs : ss[j]? = some s)
    (hl : s.label.isEmpty = false) :
    (s.label, if s.row.isPseudoDefine then s.operand.value else .address (i + j) .none) ∈ symEntries ss i := by
  induction ss generalizing i j with
  | nil => simp at hs
  | cons s0 r ih =>
    cases j with
    | zero =>
      simp at hs; subst hs
      simp [symEntries, hl]
    | succ j =>
      simp at hs
      have := ih (i := i + 1) hs
      have he : i + 1 + j = i + (j + 1) := by omega
      rw [he] at this
      unfold symEntries
      split
      · exact this
      · exact List.mem_cons_of_mem _ this

theorem symEntries_keys (ss : List Stmt) (i : Nat) :
    SymTab.keys (symEntries ss i) = (ss.map (·.label)).filter (fun l => !l.isEmpty) := by
  induction ss generalizing i with
  | nil => simp [symEntries, SymTab.keys]
  | cons s r ih =>
    unfold symEntries
    split
    · rename_i he; rw [ih]; simp [he]
    · rename_i he
      have ih' := ih (i + 1)
      simp only [SymTab.keys] at ih' ⊢
      simp [he, ih']

/-- two statements with the same non-empty label: `save_symbol` raises -/
theorem buildSymTab_dup {ss : List Stmt} {i j : Nat} {s t : Stmt} (hij : i < j) (hs : ss[i]? = some s)
    (ht : ss[j]? = some t) (hl : s.label = t.label) (hne : s.label.isEmpty = false) :
    buildSymTab ss 0 [] = none := by
  cases h : buildSymTab ss 0 [] with
  | none => rfl
  | some tab =>
    exfalso
    obtain ⟨h1, h2⟩ := buildSymTab_some h
    have hn := h2 (by simp [SymTab.keys])
    rw [h1] at hn
    simp only [List.nil_append, symEntries_keys] at hn
    -- the filtered label list has a duplicate
    have hlen_i : i < ss.length := by
      rcases Nat.lt_or_ge i ss.length with h | h
      · exact h
      · rw [List.getElem?_eq_none_iff.mpr h] at hs; cases hs
    have hlen_j : j < ss.length := by
      rcases Nat.lt_or_ge j ss.length with h | h
      · exact h
      · rw [List.getElem?_eq_none_iff.mpr h] at ht; cases ht
    -- split the list at j
    have hsplit : ss = ss.take j ++ t :: ss.drop (j + 1) := by
      have := List.getElem?_eq_getElem hlen_j
      rw [ht] at this; cases this
      simp
    have hmem : s ∈ ss.take j := by
      rw [List.mem_iff_getElem?]
      exact ⟨i, by rw [List.getElem?_take]; simp [hij, hs]⟩
    rw [hsplit] at hn
    simp only [List.map_append, List.map_cons, List.filter_append, List.filter_cons] at hn
    have hte : (!t.label.isEmpty) = true := by rw [← hl]; simp [hne]
    simp only [hte, if_true] at hn
    rw [List.nodup_append] at hn
    obtain ⟨_, _, hdisj⟩ := hn
    refine hdisj s.label ?_ t.label List.mem_cons_self hl
    exact List.mem_filter.mpr ⟨List.mem_map.mpr ⟨s, hmem, rfl⟩, by simp [hne]⟩

/-! ### finalSymTab -/

/-- the final value of a symbol: statement indices are replaced by statement addresses -/
def finalVal (ss : List Stmt) (v : Value) : Option Value :=
  match v with
  | .address i _ => addrOf ss i
  | .pyNone => none
  | v => some v

theorem finalSymTab_get {ss : List Stmt} {t t' : SymTab} (h : finalSymTab ss t = .ok t') {k : Str} {v : Value}
    (hk : t.get? k = some v) : ∃ v', t'.get? k = some v' ∧ finalVal ss v = some v' := by
  induction t generalizing t' with
  | nil => simp [SymTab.get?] at hk
  | cons kv r ih =>
    obtain ⟨k0, v0⟩ := kv
    unfold finalSymTab at h
    cases hr : finalSymTab ss r with
    | ok r' =>
      rw [hr] at h; dsimp only at h
      have key : ∀ w, finalVal ss v0 = some w → t' = (k0, w) :: r' →
          ∃ v', t'.get? k = some v' ∧ finalVal ss v = some v' := by
        intro w hw ht'
        subst ht'
        by_cases hkk : k0 = k
        · subst hkk
          simp [SymTab.get?] at hk; subst hk
          exact ⟨w, by simp [SymTab.get?], hw⟩
        · have hb : (k0 == k) = false := by simpa using hkk
          simp only [SymTab.get?, List.find?_cons, hb] at hk ⊢
          exact ih hr hk
      split at h
      · split at h
        · rename_i a ha; cases h; exact key a (by simpa [finalVal] using ha) rfl
        · cases h
      · cases h
      · rename_i hna hnp
        cases h
        refine key v0 ?_ rfl
        unfold finalVal
        split
        · exact absurd rfl (hna _ _)
        · exact absurd rfl hnp
        · rfl
    | _ => rw [hr] at h; cases h

/-- (batch 4) the final value of a symbol of an accepted program: its entry in the table built from the labels goes
through `evalSym` (an EQU defined by an expression is evaluated), then statement indices are replaced by addresses -/
theorem Stages.symtab_get {fs : Files} {lines : List Str} {a : Assembly} (st : Stages fs lines a) {k : Str} {v : Value}
    (hk : st.t.get? k = some v) :
    ∃ v1 v', evalSym a.stmts st.t v = .ok v1 ∧ a.symtab.get? k = some v' ∧ finalVal a.stmts v1 = some v' := by
  rcases evalSyms_get? st.heval k with ⟨hn, _⟩ | ⟨v0, v1, h0, h1, h2⟩
  · rw [hn] at hk; cases hk
  · rw [hk] at h0; cases h0
    obtain ⟨v', hv', hfin⟩ := finalSymTab_get st.hfinal h2
    exact ⟨v1, v', h1, hv', hfin⟩

/-! ### pseudo operands are rewritten only for FCB / FDB / RMB / ORG -/

/-- the directives whose operand `resolve_symbols` looks up (symbols, expressions, labels) -/
def isDataRow (row : Gen.InstrRow) : Bool :=
  row.mnemonic == "FCB" || row.mnemonic == "FDB" || row.mnemonic == "RMB" || row.mnemonic == "ORG"

/-- `resolve_symbols` never turns an operand into a pseudo operand or a pseudo operand into another kind -/
theorem resolveOperand_kind_pseudo {o o' : Operand} {row t} (h : resolveOperand o row t = .ok o') :
    o'.kind = .pseudo ↔ o.kind = .pseudo := by
  unfold resolveOperand at h
  split at h
  · cases h; rfl
  · rename_i hk
    have h2 : ∀ {x : R Value}, x.map (fun v => { o with value := v }) = .ok o' → o'.kind = o.kind := by
      intro x hx; cases x <;> cases hx; rfl
    have hk' : o'.kind = o.kind := by
      split at h
      · split at h
        · cases h
        · split at h
          · exact h2 h
          · cases h; rfl
      · cases h; rfl
    rw [hk']
  · rename_i hk
    have : ∀ {x : R Value}, x.map (fun v => { o with left := .val v }) = .ok o' → o'.kind = o.kind := by
      intro x hx; cases x <;> cases hx; rfl
    have hk' : o'.kind = o.kind := by
      split at h
      · split at h
        · exact this h
        · cases h; rfl
      · cases h; rfl
    rw [hk']
  · rename_i hk
    have h1 : ∀ {x : R Value}, x.map (fun v => { o with left := .val v }) = .ok o' → o'.kind = o.kind := by
      intro x hx; cases x <;> cases hx; rfl
    have h2 : ∀ {x : R Value}, x.map (fun v => { o with value := v }) = .ok o' → o'.kind = o.kind := by
      intro x hx; cases x <;> cases hx; rfl
    have hk' : o'.kind = o.kind := by
      split at h
      · exact h2 h
      · split at h
        · split at h
          · exact h1 h
          · cases h; rfl
        · cases h
    rw [hk']
  · rename_i hk1 hk2 hk3 hk4
    have hop : o.kind ≠ .pseudo := fun he => hk2 he
    have : o'.kind ≠ .pseudo := by
      split at h
      · cases h
      · split at h
        · cases h; exact hop
        · rename_i hu
          have h3 : ∀ {x : R Value} {k} , k ≠ OpKind.pseudo → x.map (fun nv => { o with kind := k, value := nv }) = .ok o' → o'.kind ≠ .pseudo := by
            intro x k hk hx; cases x <;> cases hx; exact hk
          split at h
          · cases h; simp
          · split at h
            · cases h
            · split at h
              · exact h3 (by decide) h
              · cases h; simp
            · split at h <;> (cases h; simp)
            · cases h; simp
    exact ⟨fun h => absurd h this, fun h => absurd h hop⟩

/-- a pseudo operand of a directive other than FCB / FDB / RMB / ORG is not rewritten -/
theorem resolveOperand_pseudo {o o' : Operand} {row t} (h : resolveOperand o row t = .ok o')
    (hrow : isDataRow row = false) : (o.kind = .pseudo ∨ o'.kind = .pseudo) → o' = o := by
  intro hh
  have hk : o.kind = .pseudo := by
    rcases hh with hh | hh
    · exact hh
    · exact (resolveOperand_kind_pseudo h).1 hh
  unfold resolveOperand at h
  rw [hk] at h
  dsimp only at h
  unfold isDataRow at hrow
  rw [if_neg (by rw [hrow]; simp)] at h
  cases h; rfl

/-- a pseudo operand of FCB / FDB / RMB / ORG: only the value is rewritten (a symbol or an expression is looked up) -/
theorem resolveOperand_pseudo_data {o o' : Operand} {row t} (h : resolveOperand o row t = .ok o')
    (hk : o.kind = .pseudo) : ∃ v, o' = { o with value := v } := by
  unfold resolveOperand at h
  rw [hk] at h
  dsimp only at h
  split at h
  · split at h
    · cases h
    · split at h
      · cases hr : o.value.resolve t with
        | error e => rw [hr] at h; cases h
        | ok v => rw [hr] at h; cases h; exact ⟨v, by simp [hk]⟩
      · cases h; exact ⟨o.value, rfl⟩
  · cases h; exact ⟨o.value, rfl⟩

/-- same row; and outside FCB / FDB / RMB / ORG, if either statement has a pseudo operand, the operands are equal -/
def OpRel (s s' : Stmt) : Prop :=
  s'.row = s.row ∧ (isDataRow s.row = false → (s.operand.kind = .pseudo ∨ s'.operand.kind = .pseudo) → s'.operand = s.operand)

theorem OpRel.of_eq {s s' : Stmt} (hr : s'.row = s.row) (h : s'.operand = s.operand) : OpRel s s' := ⟨hr, fun _ _ => h⟩

theorem OpRel.trans {a b c : Stmt} (h1 : OpRel a b) (h2 : OpRel b c) : OpRel a c := by
  refine ⟨h2.1.trans h1.1, ?_⟩
  intro hd hh
  have hd' : isDataRow b.row = false := by rw [h1.1]; exact hd
  rcases hh with hh | hh
  · have e1 := h1.2 hd (Or.inl hh)
    have e2 := h2.2 hd' (Or.inl (by rw [e1]; exact hh))
    rw [e2, e1]
  · have e2 := h2.2 hd' (Or.inr hh)
    have e1 := h1.2 hd (Or.inr (by rw [← e2]; exact hh))
    rw [e2, e1]

theorem Stages.op05 {fs : Files} {lines : List Str} {a : Assembly} (st : Stages fs lines a) :
    PW OpRel st.ss0 a.stmts := by
  have h01 : PW OpRel st.ss0 st.ss1 :=
    (resolveAll_pw st.hresolve).mono (by rintro s s' ⟨o, ho, rfl⟩; exact ⟨rfl, fun hd => resolveOperand_pseudo ho hd⟩)
  have h12 : PW OpRel st.ss1 st.ss2 :=
    (translateAll_pw st.htranslate).mono (by rintro s s' ⟨o, _, rfl⟩; exact .of_eq rfl rfl)
  have h23 : PW OpRel st.ss2 st.ss3 :=
    (pcrLoop_pw _ _ st.hpcr).mono (by rintro s s' ⟨_, _, _, _, _, rfl⟩; exact .of_eq rfl rfl)
  have h34 : PW OpRel st.ss3 st.ss4 :=
    (assignAddrs_pw st.haddr).mono (by rintro s s' ⟨_, rfl⟩; exact .of_eq rfl rfl)
  have h45 : PW OpRel st.ss4 a.stmts :=
    (fixAllL_pw st.hfix).mono (by rintro s s' ⟨_, rfl⟩; exact .of_eq rfl rfl)
  exact (((h01.trans h12 (fun _ _ _ => OpRel.trans)).trans h23 (fun _ _ _ => OpRel.trans)).trans h34
    (fun _ _ _ => OpRel.trans)).trans h45 (fun _ _ _ => OpRel.trans)

/-! ### the address chain of an accepted program -/

namespace Stages
variable {fs : Files} {lines : List Str} {a : Assembly}

theorem chained (st : Stages fs lines a) : Chained (st.ss3.map Stmt.preset) a.stmts 0 :=
  (assignAddrs_chained st.haddr).congr
    ((fixAllL_pw st.hfix).mono (by rintro s s' ⟨_, rfl⟩; exact ⟨rfl, rfl⟩))

theorem flag_false (st : Stages fs lines a) {j : Nat} {t : Stmt} (ht : a.stmts[j]? = some t)
    (hm : t.row.mnemonic ≠ "ORG") : (st.ss3.map Stmt.preset)[j]? = some false := by
  have k35 : PW KeepRel st.ss3 a.stmts := st.keep34.trans st.keep45 (fun _ _ _ => KeepRel.trans)
  obtain ⟨s3, hs3, hk⟩ := k35.get' ht
  rw [List.getElem?_map, hs3]
  cases hp : s3.preset with
  | false => simp [hp]
  | true => exact absurd (by rw [hk.2]; exact st.preset_org hs3 hp) hm

end Stages

end CoCo.Asm
