/-
Lemmas/DiskReaderB.lean — the tool's directory reader agrees with the reference reader slot by slot.
-/
import CoCoVerif.Lemmas.DiskFsck
import CoCoVerif.Lemmas.DiskReaderA
namespace CoCo.Dsk
open CoCo Spec.DiskBasic CoCo.Props

theorem fileLength_eq (n s lb : Nat) (h9 : s ≤ 9) :
    fileLength n (0xC0 + s) lb = ((impliedLength n s lb : Nat) : Int) := by
  unfold fileLength impliedLength
  have hm : (0xC0 + s) % 32 = s := by omega
  rw [hm, G_eq, bytesPerSector_eq]
  by_cases hs0 : s = 0
  · rw [if_pos hs0, if_pos hs0]; omega
  · rw [if_neg hs0, if_neg hs0]; omega

theorem readEntry_slot {img : Bytes} (hb : img.length = 161280) {k : Nat} {d : DFile}
    {c : List Nat} {s : Nat}
    (hchain : chainOf img k = some (c, s))
    (hread : readSlot img k = some d)
    (hname : ∀ x ∈ d.name, x < 128) (hext : ∀ x ∈ d.ext, x < 128) :
    readEntry img ((img.drop FAT).take 256) (DIR + 32 * k) = .ok (ofDFile d) := by
  have he : (img.drop (DIR + 32 * k)).take 32 = dirEntry img k := by
    unfold dirEntry dirOff; rw [DIR_eq]
  unfold readSlot at hread
  cases hss : storedStream img k with
  | none => rw [hss] at hread; cases hread
  | some st =>
    rw [hss] at hread
    simp only [] at hread
    obtain ⟨tail, tl, hc, hg0, hs9, hrc, hstream, hstlen⟩ := slot_facts hb hchain hss
    have hat := fun i hi => at0_getD hb (g0 := entFirst (dirEntry img k)) (tail := tail) hg0 i hi
    rw [← hc, hstream] at hat
    have hatlen := at0_length hb hg0
    unfold entFirst at hat hatlen hrc
    unfold readEntry
    by_cases h2 : entFtype (dirEntry img k) = 0x02
    · -- machine language
      rw [if_pos h2] at hread
      obtain ⟨⟨l, dat, x⟩, hp, hd⟩ := Option.map_eq_some_iff.mp hread
      obtain ⟨lh, ll, ah, al, eh, el, hst, hdl, rfl, rfl⟩ := parseML_some hp
      subst hd
      simp only [] at hname hext
      have hkind : kindOf ((dirEntry img k).getD 11 0) ((dirEntry img k).getD 12 0) = .ml := by
        unfold entFtype at h2; unfold kindOf; rw [if_pos h2]
      have hl5 : ¬ (img.drop (seek ((dirEntry img k).getD 13 0))).length < 5 := by omega
      subst hst
      have a0 := hat 0 (by omega)
      have a1 := hat 1 (by omega)
      have a2 := hat 2 (by omega)
      have a3 := hat 3 (by omega)
      have a4 := hat 4 (by omega)
      simp only [List.cons_append, List.nil_append, List.getD_cons_zero, List.getD_cons_succ] at a0 a1 a2 a3 a4
      simp only [he, utf8Decode_ascii _ hname, utf8Decode_ascii _ hext, hkind, hl5, a0, a1, a2, a3, a4, hrc,
        hstream, if_false, ne_eq, not_true_eq_false]
      have h50 : ¬ (5 : Nat) = 0 := by decide
      have l1 : ((0 :: lh :: ll :: ah :: al :: (dat ++ 255 :: 0 :: 0 :: eh :: el :: tl)).drop 5).take dat.length = dat := by
        simp
      have l2 : (0 :: lh :: ll :: ah :: al :: (dat ++ 255 :: 0 :: 0 :: eh :: el :: tl)).drop (5 + dat.length)
          = 255 :: 0 :: 0 :: eh :: el :: tl := by
        rw [Nat.add_comm, ← List.drop_drop]; simp
      simp only [h50, if_false, ← hdl, pySlice_nat, Int.toNat_natCast, List.cons_append, List.nil_append,
        List.append_assoc, l1, l2]
      simp [ofDFile, entFtype, entAscii]
    · rw [if_neg h2] at hread
      have h2' : ¬ (dirEntry img k).getD 11 0 = 2 := h2
      by_cases hff : entAscii (dirEntry img k) = 0xFF
      · -- ASCII
        rw [if_pos hff] at hread
        simp only [Option.some.injEq] at hread
        subst hread
        simp only [] at hname hext
        have hkind : kindOf ((dirEntry img k).getD 11 0) ((dirEntry img k).getD 12 0) = .ascii := by
          unfold entAscii at hff; unfold kindOf; rw [if_neg h2', if_pos hff]
        have hfl := fileLength_eq c.length s (entLastBytes (dirEntry img k)) hs9
        rw [← hstlen] at hfl
        unfold entLastBytes at hfl
        have l1 : (st ++ tl).take st.length = st := List.take_left' rfl
        simp only [he, utf8Decode_ascii _ hname, utf8Decode_ascii _ hext, hkind, hrc,
          hstream, if_true, hfl, pySlice_nat, List.drop_zero, l1]
        simp [ofDFile, entFtype, entAscii]
      · -- BASIC
        rw [if_neg hff] at hread
        obtain ⟨dat, hp, hd⟩ := Option.map_eq_some_iff.mp hread
        obtain ⟨lh, ll, hst, hdl⟩ := parseBasic_some hp
        subst hd
        simp only [] at hname hext
        have hkind : kindOf ((dirEntry img k).getD 11 0) ((dirEntry img k).getD 12 0) = .basic := by
          unfold entAscii at hff; unfold kindOf; rw [if_neg h2', if_neg hff]
        have hl3 : ¬ (img.drop (seek ((dirEntry img k).getD 13 0))).length < 3 := by omega
        subst hst
        have a0 := hat 0 (by omega)
        have a1 := hat 1 (by omega)
        have a2 := hat 2 (by omega)
        simp only [List.cons_append, List.nil_append, List.getD_cons_zero, List.getD_cons_succ] at a0 a1 a2
        simp only [he, utf8Decode_ascii _ hname, utf8Decode_ascii _ hext, hkind, hl3, a0, a1, a2, hrc,
          hstream, if_false, ne_eq, not_true_eq_false]
        have h30 : ¬ (3 : Nat) = 0 := by decide
        have l1 : ((255 :: lh :: ll :: (dat ++ tl)).drop 3).take dat.length = dat := by simp
        simp only [h30, if_false, ← hdl, pySlice_nat, List.cons_append, List.nil_append, l1]
        simp [ofDFile, entFtype, entAscii]

/-- a 72-slot directory scan returns what the reference reader returns, slot by slot -/
theorem listFrom_spec {img : Bytes} (fat : Bytes) :
    ∀ (n k : Nat) (acc : List CFile) (ds : List DFile), k + n = 72 →
      ((List.range' k n).filter (fun j => live (dirEntry img j))).mapM (readSlot img) = some ds →
      (∀ j, k ≤ j → j < 72 → live (dirEntry img j) = true → ∀ d, readSlot img j = some d →
        ((∀ x ∈ d.name, x < 128) ∧ (∀ x ∈ d.ext, x < 128)) →
        readEntry img fat (DIR + 32 * j) = .ok (ofDFile d)) →
      (∀ d ∈ ds, (∀ x ∈ d.name, x < 128) ∧ (∀ x ∈ d.ext, x < 128)) →
      listFrom img fat n (DIR + 32 * k) acc = .ok (acc ++ ds.map ofDFile) := by
  intro n
  induction n with
  | zero =>
    intro k acc ds _ h _ _
    simp at h
    subst h
    simp [listFrom]
  | succ n ih =>
    intro k acc ds hk h hslot hascii
    rw [listFrom]
    rw [← dirEntry_first]
    have hnext : DIR + 32 * k + 32 = DIR + 32 * (k + 1) := by omega
    rw [List.range'_succ, List.filter_cons] at h
    cases hl : live (dirEntry img k) with
    | false =>
      rw [hl] at h
      simp only [Bool.false_eq_true, if_false] at h
      have hx : (dirEntry img k).getD 0 0 = 0x00 ∨ (dirEntry img k).getD 0 0 = 0xFF := by
        unfold live at hl
        simp at hl
        by_cases h0 : (dirEntry img k).getD 0 0 = 0
        · left; exact h0
        · right; exact hl h0
      rw [if_pos hx, hnext]
      exact ih (k + 1) acc ds (by omega) h (fun j hj => hslot j (by omega)) hascii
    | true =>
      rw [hl] at h
      simp only [if_true, List.mapM_cons] at h
      cases hrs : readSlot img k with
      | none => rw [hrs] at h; simp at h
      | some d =>
        rw [hrs] at h
        cases hrest : ((List.range' (k + 1) n).filter (fun j => live (dirEntry img j))).mapM (readSlot img) with
        | none => rw [hrest] at h; simp at h
        | some ds' =>
          rw [hrest] at h
          simp at h
          subst h
          have hx : ¬ ((dirEntry img k).getD 0 0 = 0x00 ∨ (dirEntry img k).getD 0 0 = 0xFF) := by
            unfold live at hl
            simp at hl
            intro h'; rcases h' with h' | h'
            · exact hl.1 h'
            · exact hl.2 h'
          rw [if_neg hx, hslot k (Nat.le_refl _) (by omega) hl d hrs (hascii d (by simp))]
          simp only []
          rw [hnext, ih (k + 1) (acc ++ [ofDFile d]) ds' (by omega) hrest (fun j hj => hslot j (by omega))
            (fun d' hd' => hascii d' (List.mem_cons_of_mem _ hd'))]
          simp

end CoCo.Dsk

namespace CoCo.Dsk
open CoCo Spec.DiskBasic CoCo.Props

/-- listing agrees with the reference reader on every consistent image (no exclusion any more: a last-granule
marker that says "0 sectors" is read as an empty last granule by both readers) -/
theorem list_eq_read {img : Bytes} {ds : List DFile} (hf : Fsck img) (hr : Spec.DiskBasic.read img = some ds)
    (hascii : ∀ d ∈ ds, (∀ c ∈ d.name, c < 128) ∧ (∀ c ∈ d.ext, c < 128)) :
    Dsk.list img = .ok (ds.map ofDFile) := by
  obtain ⟨hlen, hchains, _, _, _, _⟩ := hf
  unfold imageSize at hlen
  unfold Dsk.list
  have hl : ¬ img.length < SIZE := by rw [SIZE_eq, hlen]; omega
  rw [if_neg hl]
  have h0 : (DIR : Nat) = DIR + 32 * 0 := by omega
  rw [h0]
  have := listFrom_spec (img := img) ((img.drop FAT).take 256) 72 0 [] ds (by omega)
    (by rw [← List.range_eq_range']; exact hr) ?_ hascii
  · simpa using this
  · intro j _ hj hlive d hrs hasc
    have hmem : j ∈ liveSlots img := by
      unfold liveSlots
      exact List.mem_filter.mpr ⟨List.mem_range.mpr hj, hlive⟩
    have hsome := hchains j hmem
    cases hch : chainOf img j with
    | none => rw [hch] at hsome; cases hsome
    | some cs =>
      obtain ⟨c, s⟩ := cs
      exact readEntry_slot hlen hch hrs hasc.1 hasc.2

/-- the tool never writes an image with an ASCII file whose last-granule marker says 0 sectors (the former exclusion) -/
theorem Inv.K_false {img : Bytes} {abs : List Ent} (h : Inv img abs) : K_C07_zeroSectorAscii img = false := by
  unfold K_C07_zeroSectorAscii
  apply List.any_eq_false.mpr
  intro k hk
  rw [h.liveSlots_eq] at hk
  have hlt := List.mem_range.mp hk
  rw [h.chainOf_eq k abs[k] (List.getElem?_eq_getElem hlt)]
  have := (flgs_range abs[k].file).1
  have h0 : (flgs abs[k].file == 0) = false := by simp; omega
  simp [h0]

theorem toDFile_ascii {f : CFile} (hv : ValidDFile f) :
    (∀ c ∈ (toDFile f).name, c < 128) ∧ (∀ c ∈ (toDFile f).ext, c < 128) :=
  ⟨fun c hc => (padUpper_mem 8 f.name hv.1 c hc).2, fun c hc => (padUpper_mem 3 f.ext hv.2.1 c hc).2⟩

theorem ofDFile_toDFile (f : CFile) : ofDFile (toDFile f) = norm f := rfl

end CoCo.Dsk
