/-
Lemmas/EncodeWitness.lean — end-to-end evaluation of one source statement (for finding witnesses and
non-vacuity examples) and the refutation principle "emitted length differs from the announced size".
-/
import CoCoVerif.Lemmas.EncodeSpecial

namespace CoCo.Asm
open CoCo CoCo.Spec.MC6809
open CoCo.Gen (InstrRow)

/-- mnemonic and operand text to the resolved operand (empty symbol table) -/
def asmOperand (mn operand : String) : Option (InstrRow × Operand) :=
  match findRow mn.toList with
  | none => none
  | some row =>
    match createOperand operand.toList row with
    | .ok o => (match resolveOperand o row [] with | .ok o' => some (row, o') | .error _ => none)
    | .error _ => none

/-- `(size, bytes)` of one source statement -/
def asmOne (mn operand : String) : Option (Nat × Bytes) :=
  match asmOperand mn operand with
  | some (row, o) => sizeAndBytes o row
  | none => none

/-- the decoder's reading of the emitted bytes: (operation, operand, bytes consumed) -/
def asmDecode (mn operand : String) : Option (Instr × Nat) :=
  match asmOne mn operand with
  | some (_, bytes) => decode bytes
  | none => none

theorem encodes_congr {o o' : Operand} {r : InstrRow} {x : Spec.MC6809.Operand}
    (h : translateOperand o r = translateOperand o' r) (he : Encodes o' r x) : Encodes o r x := by
  obtain ⟨pkg, bytes, ht, hb, hl, hd⟩ := he
  exact ⟨pkg, bytes, by rw [h]; exact ht, hb, hl, hd⟩

theorem sizeAndBytes_ok {o : Operand} {r : InstrRow} {sz : Nat} {bytes : Bytes}
    (h : sizeAndBytes o r = some (sz, bytes)) :
    ∃ pkg, translateOperand o r = .ok pkg ∧ pkg.size = sz ∧ pkgBytes pkg = some bytes := by
  unfold sizeAndBytes at h
  split at h
  · rename_i pkg ht
    simp only [Option.map_eq_some_iff, Prod.mk.injEq] at h
    obtain ⟨b, hb, h1, h2⟩ := h
    exact ⟨pkg, ht, h1, by rw [hb, h2]⟩
  · exact absurd h (by simp)

/-- if the bytes emitted for a package differ in number from its `size`, the operand is not encoded -/
theorem not_encodes_of_size {o : Operand} {r : InstrRow} {sz : Nat} {bytes : Bytes}
    (h : sizeAndBytes o r = some (sz, bytes)) (hne : bytes.length ≠ sz) (x : Spec.MC6809.Operand) :
    ¬ Encodes o r x := by
  obtain ⟨pkg, ht, hsz, hb⟩ := sizeAndBytes_ok h
  rintro ⟨pkg', bytes', ht', hb', hl', _⟩
  rw [ht] at ht'
  have hp : pkg = pkg' := by injection ht'
  subst hp
  have h1 := hb' { (default : Stmt) with pkg := pkg } rfl
  rw [stmtBytes_eq_pkgBytes] at h1
  simp only at h1
  rw [hb] at h1
  have : bytes = bytes' := by injection h1
  subst this
  exact hne (by rw [hl', hsz])

/-- if the emitted bytes decode to a different operand, the intended operand is not encoded -/
theorem not_encodes_of_decode {o : Operand} {r : InstrRow} {sz : Nat} {bytes : Bytes} {ins : Instr} {n : Nat}
    (h : sizeAndBytes o r = some (sz, bytes)) (hd : decode bytes = some (ins, n)) (x : Spec.MC6809.Operand)
    (hx : ins.operand ≠ x) : ¬ Encodes o r x := by
  obtain ⟨pkg, ht, hsz, hb⟩ := sizeAndBytes_ok h
  rintro ⟨pkg', bytes', ht', hb', _, hd'⟩
  rw [ht] at ht'
  have hp : pkg = pkg' := by injection ht'
  subst hp
  have h1 := hb' { (default : Stmt) with pkg := pkg } rfl
  rw [stmtBytes_eq_pkgBytes] at h1
  simp only at h1
  rw [hb] at h1
  have : bytes = bytes' := by injection h1
  subst this
  rw [hd] at hd'
  injection hd' with e
  have : ins.operand = x := by rw [Prod.mk.injEq] at e; rw [e.1]
  exact hx this

end CoCo.Asm
