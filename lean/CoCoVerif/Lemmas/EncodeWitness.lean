/-
Lemmas/EncodeWitness.lean — end-to-end evaluation of one source statement (for finding witnesses and
non-vacuity examples) and the refutation principle "emitted length differs from the announced size".
-/
import CoCoVerif.Lemmas.EncodeSpecial

namespace CoCo.Asm
open CoCo CoCo.Spec.MC6809
open CoCo.Gen (InstrRow)

/-- mnemonic and operand text to the resolved operand (empty symbol table) -/
def asmOperand (mn operand : String) : Option (InstrRow × Operand) :=
  match findRow mn.toList with
  | none => none
  | some row =>
    match createOperand operand.toList row with
    | .ok o => (match resolveOperand o row [] with | .ok o' => some (row, o') | .error _ => none)
    | .error _ => none

/-- `(size, bytes)` of one source statement: create, resolve (empty symbol table), translate, fit, emit -/
def asmOne (mn operand : String) : Option (Nat × Bytes) :=
  match asmOperand mn operand with
  | some (row, o) => sizeAndBytes o row
  | none => none

/-- the decoder's reading of the emitted bytes: (operation, operand, bytes consumed) -/
def asmDecode (mn operand : String) : Option (Instr × Nat) :=
  match asmOne mn operand with
  | some (_, bytes) => decode bytes
  | none => none

theorem encodes_congr {o o' : Operand} {r : InstrRow} {x : Spec.MC6809.Operand}
    (h : translateOperand o r = translateOperand o' r) (he : Encodes o' r x) : Encodes o r x := by
  obtain ⟨pkg, bytes, ht, hnr, hb, hl, hd⟩ := he
  obtain ⟨p', hf, hb'⟩ := fitPkg_of_emitted hb
  exact ⟨pkg, bytes, by rw [h]; exact ht, hnr, emitted_of_fitPkg hf hb', hl, hd⟩

theorem sizeAndBytes_ok {o : Operand} {r : InstrRow} {sz : Nat} {bytes : Bytes}
    (h : sizeAndBytes o r = some (sz, bytes)) :
    ∃ pkg p', translateOperand o r = .ok pkg ∧ pkg.size = sz ∧ fitPkg r pkg = .ok p' ∧ pkgBytes p' = some bytes := by
  unfold sizeAndBytes at h
  split at h
  · rename_i pkg ht
    simp only [Option.map_eq_some_iff, Prod.mk.injEq] at h
    obtain ⟨b, hb, h1, h2⟩ := h
    obtain ⟨p', hf, hb'⟩ := fittedBytes_some hb
    exact ⟨pkg, p', ht, h1, hf, by rw [hb', h2]⟩
  · exact absurd h (by simp)

/-- `sizeAndBytes` determines what `Encodes` can say: the package and the bytes are these -/
theorem encodes_bytes {o : Operand} {r : InstrRow} {sz : Nat} {bytes : Bytes} {x : Spec.MC6809.Operand}
    (h : sizeAndBytes o r = some (sz, bytes)) (he : Encodes o r x) :
    bytes.length = sz ∧ decode bytes = some (⟨opOf r.mnemonic, x⟩, bytes.length) := by
  obtain ⟨pkg, p', ht, hsz, hf, hb⟩ := sizeAndBytes_ok h
  obtain ⟨pkg', bytes', ht', _, hb', hl', hd'⟩ := he
  rw [ht] at ht'
  have hp : pkg = pkg' := by injection ht'
  subst hp
  obtain ⟨p'', hf', hb''⟩ := fitPkg_of_emitted hb'
  rw [hf] at hf'
  have : p' = p'' := by injection hf'
  subst this
  rw [hb] at hb''
  have : bytes = bytes' := by injection hb''
  subst this
  exact ⟨by rw [hl', hsz], hd'⟩

/-- if the bytes emitted for a package differ in number from its `size`, the operand is not encoded -/
theorem not_encodes_of_size {o : Operand} {r : InstrRow} {sz : Nat} {bytes : Bytes}
    (h : sizeAndBytes o r = some (sz, bytes)) (hne : bytes.length ≠ sz) (x : Spec.MC6809.Operand) :
    ¬ Encodes o r x := fun he => hne (encodes_bytes h he).1

/-- if the emitted bytes decode to a different operand, the intended operand is not encoded -/
theorem not_encodes_of_decode {o : Operand} {r : InstrRow} {sz : Nat} {bytes : Bytes} {ins : Instr} {n : Nat}
    (h : sizeAndBytes o r = some (sz, bytes)) (hd : decode bytes = some (ins, n)) (x : Spec.MC6809.Operand)
    (hx : ins.operand ≠ x) : ¬ Encodes o r x := by
  intro he
  have hd' := (encodes_bytes h he).2
  rw [hd] at hd'
  injection hd' with e
  have : ins.operand = x := by rw [Prod.mk.injEq] at e; rw [e.1]
  exact hx this

end CoCo.Asm
