/-
Lemmas/NoIntOp.lean — C13, "no internal error": operands and code packages.
What `createOperand` builds (`OpInit`), what `resolveOperand` keeps (`OpRes`), and what `translateOperand`
then puts into the package (`PkgOK`).
-/
import CoCoVerif.Lemmas.NoIntVal

namespace CoCo.Asm
open CoCo
open CoCo.Gen (InstrRow)

/-- an operand as `Operand.create_from_str` builds it -/
structure OpInit (row : InstrRow) (o : Operand) : Prop where
  good : ∀ N, o.value.Good N
  right : o.right ≠ none → o.value.isLeftRight = true ∧ (o.kind = .indexed ∨ o.kind = .extIndirect)
  left : ∀ v, o.left ≠ .val v
  rel : o.kind = .relative → (row.isShortBranch || row.isLongBranch) = true

/-- (batch B2) the signed reading of a good value is at least −65535 -/
theorem Value.Good.signed_ge {N : Nat} {v : Value} {i : Nat} (h : v.Good N) (hi : v.int? = some i) :
    -65535 ≤ (if v.isNegative = true then -(i : Int) else (i : Int)) := by
  cases v with
  | numeric a _ _ n =>
    simp only [Value.int?, Option.some.injEq] at hi
    subst hi
    have : a ≤ 65535 := h
    cases n <;> simp [Value.isNegative] <;> omega
  | _ => simp [Value.isNegative] <;> omega

theorem createOperand_init {s : Str} {row : InstrRow} {o : Operand} (h : createOperand s row = .ok o) :
    OpInit row o := by
  unfold createOperand at h
  split at h
  · -- pseudo
    dsimp only at h
    split at h
    · cases h
    · rename_i v hv0
      have hv : ∀ N, v.Good N := by
        intro N
        repeat' split at hv0
        all_goals first
          | (obtain ⟨a, _, ha⟩ := map_ok hv0; subst ha; trivial)
          | exact createV_good N hv0
          | (cases hv0; trivial)
      repeat' split at h
      all_goals first
        | (cases h; done)
        | (cases h; exact ⟨hv, by simp, by simp, by simp⟩)
        | (obtain ⟨a, ha, hf⟩ := map_ok h; subst hf
           exact ⟨fun N => numericOfInt_good N ha (by omega), by simp, by simp, by simp⟩)
        | (obtain ⟨a, ha, hf⟩ := map_ok h; subst hf
           have hge := (hv 0).signed_ge ‹v.int? = some _›
           rw [if_pos ‹v.isNegative = true›] at hge
           exact ⟨fun N => numericOfInt_good N ha hge, by simp, by simp, by simp⟩)
  · split at h
    · cases h; exact ⟨fun _ => trivial, by simp, by simp, by simp⟩
    · split at h
      · rename_i hbr
        obtain ⟨a, ha, hf⟩ := map_ok h; subst hf
        exact ⟨fun N => createV_good N ha, by simp, by simp, fun _ => hbr⟩
      · split at h
        · cases h; exact ⟨fun _ => trivial, by simp, by simp, by simp⟩
        · dsimp only at h
          split at h
          · rename_i heq
            cases h
            repeat' split at heq
            all_goals first
              | (cases heq; done)
              | (cases heq; exact ⟨fun N => createV_good N ‹_›, by simp [Value.isLeftRight], by simp, by simp⟩)
          · repeat' split at h
            all_goals first
              | (cases h; done)
              | (cases h; exact ⟨fun N => createV_good N ‹_›, by simp [Value.isLeftRight], by simp, by simp⟩)

/-- an operand after `resolve_symbols` (`N` = number of statements).  (Before the data directives and ORG took
symbols there was a field `pseudo : o.kind = .pseudo → o.value.Good 0`; an `FDB LABEL` operand now resolves to an
address, so that is no longer true; the preset address of an ORG is a number all the same, see
`translatePseudo_ok`.) -/
structure OpRes (N : Nat) (row : InstrRow) (o : Operand) : Prop where
  good : o.value.Good N
  right : o.right ≠ none → o.value.isLeftRight = true
  left : ∀ v, o.left = .val v → v.Good N
  rel : o.kind = .relative → (row.isShortBranch || row.isLongBranch) = true

theorem OpInit.toRes {N : Nat} {row : InstrRow} {o : Operand} (hi : OpInit row o) : OpRes N row o :=
  ⟨hi.good N, fun h => (hi.right h).1, fun v hv => absurd hv (hi.left v), hi.rel⟩

private abbrev mkLeft (o : Operand) (k : OpKind) (v : Value) : Operand :=
  { kind := k, text := o.text, value := o.value, left := Side.val v, right := o.right }

theorem resolveOperand_res {N : Nat} {t : SymTab} (ht : SymTab.Good N t) {o o' : Operand} {row : InstrRow}
    (hi : OpInit row o) (h : resolveOperand o row t = .ok o') : OpRes N row o' := by
  have hleft : ∀ (l : Str) (k : OpKind), k = o.kind →
      (if (l != [] && !isABD l) = true then
          (resolveLeft l row t).map (fun v => mkLeft o k v) else .ok o) = .ok o' → OpRes N row o' := by
    intro l k hk h
    subst hk
    split at h
    · obtain ⟨a, ha, hf⟩ := map_ok h
      subst hf
      exact ⟨hi.good N, fun h => (hi.right h).1, fun v hv => by cases hv; exact resolveLeft_good ht ha, hi.rel⟩
    · cases h; exact hi.toRes
  unfold resolveOperand at h
  cases hk : o.kind <;> simp only [hk] at h
  case pseudo =>
    repeat' split at h
    all_goals first
      | (cases h; done)
      | (cases h; exact hi.toRes)
      | (obtain ⟨a, ha, hf⟩ := map_ok h; subst hf
         exact ⟨Value.resolve_good ht (hi.good N) ha, fun hr => by
           have := (hi.right hr).2; simp [hk] at this, fun v hv => absurd hv (hi.left v), by simp [hk]⟩)
  case special => cases h; exact hi.toRes
  case indexed =>
    split at h
    · exact hleft _ _ hk.symm h
    · cases h; exact hi.toRes
  case extIndirect =>
    split at h
    · rename_i hc
      obtain ⟨a, ha, hf⟩ := map_ok h
      subst hf
      refine ⟨Value.resolve_good ht (hi.good N) ha, ?_, fun v hv => absurd hv (hi.left v), by simp⟩
      intro hr
      have := (hi.right hr).1
      simp [this] at hc
    · split at h
      · exact hleft _ _ hk.symm h
      · cases h
  all_goals
    have hrn : o.right = none := by
      cases hr : o.right with
      | none => rfl
      | some r => have := (hi.right (by simp [hr])).2; simp [hk] at this
    split at h
    · cases h
    · rename_i v hres
      have hv := Value.resolve_good ht (hi.good N) hres
      repeat' split at h
      all_goals first
        | (cases h; done)
        | (cases h; exact ⟨hv, by simp [hrn], fun v hv => absurd hv (hi.left v), by first | exact fun _ => hi.rel hk | simp⟩)
        | (obtain ⟨a, ha, hf⟩ := map_ok h; subst hf
           exact ⟨numericOfInt_good N ha (by omega), by simp [hrn], fun v hv => absurd hv (hi.left v), by simp⟩)

/-! ### `translate` -/

/-- `translateOffset` after the offset value `l` and the flag `needs` have been determined -/
def offBody (ind : Bool) (row : InstrRow) (right : Str) (raw0 : Nat) (needs : Bool) (l : Value) : R Pkg := do
  let base := if ind then 0x90 else 0x80
  let op ← opVal row.ind
  let size := row.indSz
  if hasSub (str "PCR") right then
    if needs then
      let pb ← numV raw0
      return { opCode := op, postByte := pb, additional := l, size := size, maxSize := size + 2, needsRes := true,
               choices := [base + 0x0C, base + 0x0D] }
    else
      let e ← if l.mode == .extended then pure true else
        (match l with
         | .numeric i _ _ neg => pure (!(is4Bit i neg || is8Bit i neg))
         | _ => throw .other)
      let sz := size + (if e then 2 else 1)
      let pb ← numV (raw0 ||| (if e then base + 0x0D else base + 0x0C))
      return { opCode := op, postByte := pb, additional := l, size := sz, maxSize := sz }
  else if needs then
    let pb ← numV (raw0 ||| (base + 0x09))
    return { opCode := op, postByte := pb, additional := l, size := size + 2, maxSize := size + 2, needsRes := true }
  else
    match l with
    | .numeric i _ _ neg =>
      if neg then
        if !ind && is4Bit i neg then
          let pb ← numV (raw0 ||| 0x10 ||| (0x10 - i))
          return { opCode := op, postByte := pb, additional := .none, size := size, maxSize := size, needsRes := needs }
        else if is8Bit i neg then
          let pb ← numV (raw0 ||| (base + 0x08))
          let a ← numV (0x100 - i)
          return { opCode := op, postByte := pb, additional := a, size := size + 1, maxSize := size + 1, needsRes := needs }
        else
          let pb ← numV (raw0 ||| (base + 0x09))
          let a ← numericOfInt ((0x10000 : Int) - i) none .none
          return { opCode := op, postByte := pb, additional := a, size := size + 2, maxSize := size + 2, needsRes := needs }
      else if !ind && is4Bit i neg then
        let pb ← numV (raw0 ||| i)
        return { opCode := op, postByte := pb, additional := .none, size := size, maxSize := size, needsRes := needs }
      else if is8Bit i neg then
        let pb ← numV (raw0 ||| (base + 0x08))
        return { opCode := op, postByte := pb, additional := l, size := size + 1, maxSize := size + 1, needsRes := needs }
      else
        let pb ← numV (raw0 ||| (base + 0x09))
        let a ← numericOfInt i (some 4) .none
        return { opCode := op, postByte := pb, additional := a, size := size + 2, maxSize := size + 2, needsRes := needs }
    | _ => throw .other

theorem translateOffset_eq (ind : Bool) (row : InstrRow) (left : Value) (right : Str) (raw0 : Nat) :
    translateOffset ind row left right raw0 =
      if (hasSub ['+'] right || hasSub ['-'] right) = true then .error .operandType
      else match left with
        | .pyNone => .error .other
        | .address i _ => (match numV i with | .ok l => offBody ind row right raw0 true l | .error e => .error e)
        | v => offBody ind row right raw0 (v.isExpression || v.isAddrExpr) v := by
  unfold translateOffset
  by_cases hc : (hasSub ['+'] right || hasSub ['-'] right) = true
  · rw [if_pos hc]; dsimp only; rw [if_pos hc]; rfl
  · rw [if_neg hc]; dsimp only; rw [if_neg hc]
    cases left with
    | pyNone => rfl
    | address i m =>
      dsimp only [bind, Except.bind]
      cases numV i with
      | error e => rfl
      | ok l =>
        dsimp only
        cases l.isExpression <;> cases l.isAddrExpr <;> rfl
    | expr l r op m ae => cases ae <;> rfl
    | _ => rfl

/-! ### op code and post byte are never Python's `None` (so `fit_operand_width` can take their `hex_len()`) -/

theorem opVal_ne {o : Option Nat} {v : Value} (h : opVal o = .ok v) : v ≠ .pyNone := by
  cases o with
  | none => cases h
  | some a => exact (numV_good 0 (a := a) h).ne_pyNone

theorem numV_ne {a : Nat} {v : Value} (h : numV a = .ok v) : v ≠ .pyNone := (numV_good 0 h).ne_pyNone

/-- a post byte is one byte: `NumericValue(v)` for `v < 256` has `hex_len() = 2` -/
theorem numV_hexLen {a : Nat} {v : Value} (h : numV a = .ok v) (ha : a < 256) : v.hexLen? = some 2 := by
  unfold numV numericOfInt at h
  rw [if_neg (by omega)] at h
  have h2 : ¬ ((a : Int) < 0) := by omega
  simp [postInit, initHint, ha, h2] at h
  subst h
  rfl

/-- `hex_len()` is defined on everything but Python's `None` -/
theorem Value.hexLen?_isSome_of_ne_pyNone {v : Value} (h : v ≠ .pyNone) : ∃ a, v.hexLen? = some a := by
  cases v with
  | pyNone => exact absurd rfl h
  | none => exact ⟨_, rfl⟩
  | numeric i hh m n => exact ⟨_, rfl⟩
  | symbol s m => exact ⟨_, rfl⟩
  | address i m => exact ⟨_, rfl⟩
  | expr l r op m ae => exact ⟨_, rfl⟩
  | leftRight l r m => exact ⟨_, rfl⟩
  | str s => exact ⟨_, rfl⟩
  | multiByte hs => exact ⟨_, rfl⟩
  | multiWord hs => exact ⟨_, rfl⟩

/-- the goal `p.opCode ≠ .pyNone ∧ p.postByte ≠ .pyNone` after the package has been taken apart -/
macro "codes_tac" : tactic =>
  `(tactic| (refine ⟨?_, ?_⟩ <;> first | exact opVal_ne ‹_› | exact numV_ne ‹_› | nofun))

/-- what the size loop and `fix_addresses` need of the `additional` of an undecided PCR statement -/
def AddlOK (N : Nat) (v : Value) : Prop :=
  v.Good N ∧ (∃ r, relIndex v = some r ∧ r < N) ∧ (∃ t, v.int? = some t ∧ t < N)

/-- the part of `PkgOK` that concerns the PCR size loop -/
def ChoicesOK (N : Nat) (p : Pkg) : Prop :=
  p.choices = [] ∨ ∃ c0 c1, p.choices = [c0, c1] ∧ c0 < 256 ∧ c1 < 256 ∧
    (∃ raw, p.postByte.int? = some raw ∧ raw < 256 ∧ p.postByte.hexLen? = some 2) ∧ AddlOK N p.additional

theorem offBody_ok {N : Nat} {ind : Bool} {row : InstrRow} {right : Str} {raw0 : Nat} {needs : Bool} {l : Value}
    {p : Pkg} (hraw : raw0 < 256) (hl : needs = true → AddlOK N l)
    (h : offBody ind row right raw0 needs l = .ok p) :
    p.address = .none ∧ ChoicesOK N p ∧ (p.needsRes = true → AddlOK N p.additional) ∧
      (p.opCode ≠ .pyNone ∧ p.postByte ≠ .pyNone) := by
  unfold offBody at h
  simp only [bind, Except.bind, pure, Except.pure, throw, throwThe, MonadExceptOf.throw] at h
  repeat' split at h
  all_goals first
    | (cases h; done)
    | (cases h
       refine ⟨rfl, Or.inl rfl, ?_, by codes_tac⟩
       intro hh
       first | exact hl ‹needs = true› | contradiction | cases hh)
    | (cases h
       have hcodes : (_ : Value) ≠ .pyNone ∧ (_ : Value) ≠ .pyNone :=
         ⟨opVal_ne ‹opVal row.ind = _›, numV_ne ‹numV raw0 = _›⟩
       have hlen := numV_hexLen ‹numV raw0 = _› hraw
       obtain ⟨hh, m, rfl, _⟩ := numV_eq ‹numV raw0 = _›
       exact ⟨rfl, Or.inr ⟨_, _, rfl, by omega, by omega, ⟨raw0, rfl, hraw, hlen⟩, hl ‹_›⟩, fun _ => hl ‹needs = true›,
         hcodes.1, nofun⟩)

theorem AddlOK.of_expr {N : Nat} (hN : 0 < N) {v : Value} (hv : v.Good N)
    (he : (v.isExpression || v.isAddrExpr) = true) : AddlOK N v := by
  cases v with
  | expr a b op m ae =>
    refine ⟨hv, ?_, ⟨0, rfl, hN⟩⟩
    cases ae with
    | false => exact ⟨0, rfl, hN⟩
    | true =>
      obtain ⟨ha, hb, hab⟩ := hv
      obtain ⟨ka, hka, hka1, _⟩ := ha.int
      obtain ⟨kb, hkb, hkb1, _⟩ := hb.int
      show ∃ r, (if a.isAddress = true then a.int? else b.int?) = some r ∧ r < N
      by_cases haa : a.isAddress = true
      · rw [if_pos haa]; exact ⟨ka, hka, hka1 haa⟩
      · rw [if_neg haa]
        rcases hab rfl with h | h
        · exact absurd h haa
        · exact ⟨kb, hkb, hkb1 h⟩
  | _ => simp [Value.isExpression, Value.isAddrExpr] at he

theorem translateOffset_ok {N : Nat} (hN : 0 < N) {ind : Bool} {row : InstrRow} {left : Value} {right : Str}
    {raw0 : Nat} {p : Pkg} (hraw : raw0 < 256) (hl : left.Good N)
    (h : translateOffset ind row left right raw0 = .ok p) :
    p.address = .none ∧ ChoicesOK N p ∧ (p.opCode ≠ .pyNone ∧ p.postByte ≠ .pyNone) ∧
      (p.needsRes = true → AddlOK N p.additional) := by
  rw [translateOffset_eq] at h
  split at h
  · cases h
  · split at h
    · cases h
    · rename_i i m
      split at h
      · rename_i l hnum
        obtain ⟨hh, mm, rfl, hle⟩ := numV_eq hnum
        have hi : i < N := hl
        have hA : AddlOK N (.numeric i hh mm false) := ⟨hle, ⟨i, rfl, hi⟩, ⟨i, rfl, hi⟩⟩
        have := offBody_ok (N := N) hraw (fun _ => hA) h
        exact ⟨this.1, this.2.1, this.2.2.2, this.2.2.1⟩
      · cases h
    · have := offBody_ok (N := N) hraw (fun he => AddlOK.of_expr hN hl he) h
      exact ⟨this.1, this.2.1, this.2.2.2, this.2.2.1⟩

theorem regBits_lt (r : Str) : regBits r < 128 := by
  unfold regBits
  split <;> split <;> split <;> decide

theorem or_lt_256 {a b : Nat} (ha : a < 256) (hb : b < 256) : a ||| b < 256 :=
  Nat.or_lt_two_pow (n := 8) ha hb

/-- what the later stages need of a translated package.  `addr`: a preset address (ORG) contains no label
(`Good 0`), so its `.int` is a 16-bit magnitude however many statements there are.  `codes`: op code and post byte
are `NoneValue` or a number, never Python's `None` (so `fit_operand_width` can ask for their `hex_len()`) -/
structure PkgOK (N : Nat) (row : InstrRow) (o : Operand) (p : Pkg) : Prop where
  addr : p.address.Good 0
  codes : p.opCode ≠ .pyNone ∧ p.postByte ≠ .pyNone
  choices : ChoicesOK N p
  rel : o.kind = .relative → (∃ b, p.additional.int? = some b) ∧ (row.isShortBranch = false → 1 ≤ p.size)
  needs : p.needsRes = true → o.value.isLeftRight = true ∧ (o.kind = .indexed ∨ o.kind = .extIndirect)
  addl : p.needsRes = true → AddlOK N p.additional     -- (batch B3) a label offset without choices is resolved by `fixOne` too

theorem translateIndexed_ok {N : Nat} (hN : 0 < N) {row : InstrRow} {o : Operand} {p : Pkg} (hres : OpRes N row o)
    (hk : o.kind = .indexed) (h : translateIndexed o row = .ok p) : PkgOK N row o p := by
  unfold translateIndexed at h
  have hleft := hres.left
  have hright := hres.right
  rcases o with ⟨kind, text, value, left, right⟩
  dsimp only at hk hleft hright
  subst hk
  cases left <;> cases right
  all_goals simp only [bind, Except.bind, pure, Except.pure, throw, throwThe, MonadExceptOf.throw, Bool.and_false, Bool.false_eq_true, if_false] at h
  case val.some =>
    generalize translateIndexed.match_3 (fun x => Bool) (Side.val _) _ _ _ = b at h
    repeat' split at h
    all_goals first
    | (cases h; done)
    | (cases h; exact ⟨trivial, by codes_tac, Or.inl rfl, by simp, by simp, by simp⟩)
    | (have hto := translateOffset_ok hN (Nat.lt_trans (regBits_lt _) (by decide))
         (hleft _ rfl) h
       exact ⟨by rw [hto.1]; trivial, hto.2.2.1, hto.2.1, by simp,
         fun _ => ⟨hright (by simp), Or.inl rfl⟩, hto.2.2.2⟩)
  case text.some =>
    generalize translateIndexed.match_3 (fun x => Bool) (Side.text _) _ _ _ = b at h
    repeat' split at h
    all_goals first
    | (cases h; done)
    | (cases h; exact ⟨trivial, by codes_tac, Or.inl rfl, by simp, by simp, by simp⟩)
  all_goals
    repeat' split at h
    all_goals first
    | (cases h; done)

theorem extRaw_lt (r : Str) : 0x80 ||| regBits r < 256 :=
  or_lt_256 (by decide) (Nat.lt_trans (regBits_lt r) (by decide))

theorem translateExtIndirect_ok_val {N : Nat} (hN : 0 < N) {row : InstrRow} {text : Str} {value v : Value} {r : Str}
    {p : Pkg} (hleft : v.Good N) (hright : value.isLeftRight = true)
    (h : translateExtIndirect { kind := .extIndirect, text := text, value := value, left := .val v, right := some r } row
      = .ok p) :
    PkgOK N row { kind := .extIndirect, text := text, value := value, left := .val v, right := some r } p := by
  unfold translateExtIndirect at h
  simp only [bind, Except.bind, pure, Except.pure, throw, throwThe, MonadExceptOf.throw, Bool.and_false,
    Bool.false_eq_true, if_false] at h
  generalize translateIndexed.match_3 (fun x => Bool) (Side.val _) _ _ _ = b at h
  by_cases hc : (row.ind.isNone || row.ind == some 0) = true
  · rw [if_pos hc] at h; cases h
  rw [if_neg hc] at h
  repeat' split at h
  all_goals first
  | (cases h; done)
  | (cases h; exact ⟨trivial, by codes_tac, Or.inl rfl, by simp, by simp, by simp⟩)
  | (have hto := translateOffset_ok hN (extRaw_lt _) hleft h
     exact ⟨by rw [hto.1]; trivial, hto.2.2.1, hto.2.1, by simp,
       fun _ => ⟨hright, Or.inr rfl⟩, hto.2.2.2⟩)

theorem translateExtIndirect_ok_text {N : Nat} (hN : 0 < N) {row : InstrRow} {text : Str} {value : Value} {l r : Str}
    {p : Pkg} (hright : value.isLeftRight = true)
    (h : translateExtIndirect { kind := .extIndirect, text := text, value := value, left := .text l, right := some r } row
      = .ok p) :
    PkgOK N row { kind := .extIndirect, text := text, value := value, left := .text l, right := some r } p := by
  unfold translateExtIndirect at h
  simp only [bind, Except.bind, pure, Except.pure, throw, throwThe, MonadExceptOf.throw, Bool.and_false,
    Bool.false_eq_true, if_false] at h
  generalize translateIndexed.match_3 (fun x => Bool) (Side.text _) _ _ _ = b at h
  generalize (if (_ == ['A']) = true then 22 else if (_ == ['B']) = true then 21 else 27 : Nat) = k at h
  by_cases hc : (row.ind.isNone || row.ind == some 0) = true
  · rw [if_pos hc] at h; cases h
  rw [if_neg hc] at h
  repeat' split at h
  all_goals first
  | (cases h; done)
  | (cases h; exact ⟨trivial, by codes_tac, Or.inl rfl, by simp, by simp, by simp⟩)
  | (have hto := translateOffset_ok hN (extRaw_lt _) (createV_good N ‹createV _ _ _ = .ok _›) h
     exact ⟨by rw [hto.1]; trivial, hto.2.2.1, hto.2.1, by simp,
       fun _ => ⟨hright, Or.inr rfl⟩, hto.2.2.2⟩)

theorem translateExtIndirect_ok {N : Nat} (hN : 0 < N) {row : InstrRow} {o : Operand} {p : Pkg}
    (hres : OpRes N row o) (hk : o.kind = .extIndirect) (h : translateExtIndirect o row = .ok p) :
    PkgOK N row o p := by
  have hleft := hres.left
  have hright := hres.right
  rcases o with ⟨kind, text, value, left, right⟩
  dsimp only at hk hleft hright
  subst hk
  cases left <;> cases right
  case val.some => exact translateExtIndirect_ok_val hN (hleft _ rfl) (hright (by simp)) h
  case text.some => exact translateExtIndirect_ok_text hN (hright (by simp)) h
  all_goals
    unfold translateExtIndirect at h
    simp only [bind, Except.bind, pure, Except.pure, throw, throwThe, MonadExceptOf.throw, Bool.and_false,
      Bool.false_eq_true, if_false] at h
    repeat' split at h
    all_goals first
    | (cases h; done)
    | (cases h; exact ⟨trivial, by codes_tac, Or.inl rfl, by simp, by simp, by simp⟩)

theorem translatePseudo_ok {N : Nat} {row : InstrRow} {o : Operand} {p : Pkg}
    (hres : OpRes N row o) (hk : o.kind = .pseudo) (h : translatePseudo o row = .ok p) : PkgOK N row o p := by
  unfold translatePseudo at h
  simp only [bind, Except.bind, pure, Except.pure, throw, throwThe, MonadExceptOf.throw] at h
  repeat' split at h
  all_goals first
    | (cases h; done)
    | (cases h; exact ⟨trivial, by codes_tac, Or.inl rfl, by simp [hk], by simp, by simp⟩)
    | (cases h
       refine ⟨?_, by codes_tac, Or.inl rfl, by simp [hk], by simp, by simp⟩
       have hg := hres.good
       cases hv : o.value <;> simp_all [Value.isNumeric, Value.Good])

theorem translateSpecial_ok {N : Nat} {row : InstrRow} {o : Operand} {p : Pkg}
    (hk : o.kind = .special) (h : translateSpecial o row = .ok p) : PkgOK N row o p := by
  unfold translateSpecial at h
  simp only [bind, Except.bind, pure, Except.pure, throw, throwThe, MonadExceptOf.throw] at h
  repeat' split at h
  all_goals first
    | (cases h; done)
    | (cases h; exact ⟨trivial, by codes_tac, Or.inl rfl, by simp [hk], by simp, by simp⟩)

theorem translateOperand_ok {N : Nat} (hN : 0 < N) {row : InstrRow} {o : Operand} {p : Pkg}
    (hres : OpRes N row o) (hrow : row.isLongBranch = true → 1 ≤ row.relSz)
    (h : translateOperand o row = .ok p) : PkgOK N row o p := by
  unfold translateOperand at h
  cases hk : o.kind <;> simp only [hk] at h
  case pseudo => exact translatePseudo_ok hres hk h
  case special => exact translateSpecial_ok hk h
  case indexed => exact translateIndexed_ok hN hres hk h
  case extIndirect => exact translateExtIndirect_ok hN hres hk h
  case relative =>
    simp only [bind, Except.bind, pure, Except.pure, throw, throwThe, MonadExceptOf.throw] at h
    obtain ⟨k, hk', _⟩ := hres.good.int
    have hsz : row.isShortBranch = false → 1 ≤ row.relSz := by
      intro hs
      have := hres.rel hk
      simp only [hs, Bool.false_or] at this
      exact hrow this
    repeat' split at h
    all_goals first
      | (cases h; done)
      | (cases h
         refine ⟨trivial, by codes_tac, Or.inl rfl, fun _ => ⟨?_, hsz⟩, by simp, by simp⟩
         exact ⟨k, hk'⟩)
  all_goals
    try simp only [bind, Except.bind, pure, Except.pure, throw, throwThe, MonadExceptOf.throw] at h
    repeat' split at h
    all_goals first
      | (cases h; done)
      | (cases h; exact ⟨trivial, by codes_tac, Or.inl rfl, by simp [hk], by simp, by simp⟩)

end CoCo.Asm
