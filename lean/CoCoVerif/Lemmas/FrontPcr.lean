/-
Lemmas/FrontPcr.lean — helper lemmas for C18-R4 in the presence of PCR-sized statements:
the size loop `pcrLoop` on `a ++ b` simulates (with stuttering) the loop on `a`.
-/
import CoCoVerif.Lemmas.FrontBranch

namespace CoCo.Asm
open CoCo

/-! ### determine -/

theorem settle_fixed {s s' : Stmt} {e h c : Nat} (hs : settle s e h c = some s') :
    s'.fixedSize = true ∧ s'.operand = s.operand ∧ s'.pkg.additional = s.pkg.additional ∧ s'.row = s.row := by
  unfold settle at hs
  cases ho : orPost s c with
  | none => rw [ho] at hs; cases hs
  | some pb => rw [ho] at hs; simp at hs; subst hs; exact ⟨rfl, rfl, rfl, rfl⟩

/-- `determine` either settles the statement or leaves it as it is -/
theorem determine_ok {ss : List Stmt} {i : Nat} {s s' : Stmt} (h : determine ss i s = .ok s') :
    (s'.fixedSize = true ∨ s' = s) ∧ s'.operand = s.operand ∧ s'.pkg.additional = s.pkg.additional := by
  unfold determine at h
  split at h
  · rename_i c0 c1 hch
    -- fix 8dc2b21/316e504: `label * k` / `label / k` is settled on the 16-bit form at once
    by_cases hfo : exprForces s.pkg.additional = true
    · rw [if_pos hfo] at h
      cases hs : settle s 2 4 c1 with
      | none => rw [hs] at h; cases h
      | some x =>
        rw [hs] at h; cases h
        obtain ⟨h1, h2, h3, _⟩ := settle_fixed hs
        exact ⟨.inl h1, h2, h3⟩
    rw [if_neg hfo] at h
    cases hr : relIndex s.pkg.additional with
    | none => rw [hr] at h; cases h
    | some rel =>
      rw [hr] at h
      dsimp only at h
      split at h
      · cases h
      · generalize (if rel ≤ i then sumSizes ss rel i else sumSizes ss i rel) = pr at h
        obtain ⟨mn, mx⟩ := pr
        dsimp only at h
        have key : ∀ (P Q : Prop) [Decidable P] [Decidable Q],
            (if P then (match settle s 1 2 c0 with | some s' => Outcome.ok s' | none => .internal)
             else if Q then (match settle s 2 4 c1 with | some s' => Outcome.ok s' | none => .internal)
             else .ok s) = Outcome.ok s' →
            (s'.fixedSize = true ∨ s' = s) ∧ s'.operand = s.operand ∧ s'.pkg.additional = s.pkg.additional := by
          intro P Q _ _ h
          split at h
          · cases hs : settle s 1 2 c0 with
            | none => rw [hs] at h; cases h
            | some x =>
              rw [hs] at h; cases h
              obtain ⟨h1, h2, h3, _⟩ := settle_fixed hs
              exact ⟨.inl h1, h2, h3⟩
          · split at h
            · cases hs : settle s 2 4 c1 with
              | none => rw [hs] at h; cases h
              | some x =>
                rw [hs] at h; cases h
                obtain ⟨h1, h2, h3, _⟩ := settle_fixed hs
                exact ⟨.inl h1, h2, h3⟩
            · cases h; exact ⟨.inr rfl, rfl, rfl⟩
        exact key _ _ h
  · cases h
  · cases h
/-- a statement of the prefix is sized in the same way inside the longer list -/
theorem determine_append {a b : List Stmt} {i : Nat} {s s' : Stmt} (hi : i < a.length)
    (h : determine a i s = .ok s') : determine (a ++ b) i s = .ok s' := by
  unfold determine at h ⊢
  split
  · rename_i c0 c1 hch
    rw [hch] at h
    dsimp only at h ⊢
    -- fix 8dc2b21/316e504: the early 16-bit branch does not look at the statement list
    by_cases hfo : exprForces s.pkg.additional = true
    · rw [if_pos hfo] at h ⊢; exact h
    rw [if_neg hfo] at h ⊢
    cases hr : relIndex s.pkg.additional with
    | none => rw [hr] at h; cases h
    | some rel =>
      rw [hr] at h
      dsimp only at h ⊢
      by_cases hgt : rel > a.length
      · rw [if_pos hgt] at h; cases h
      · rw [if_neg hgt] at h
        rw [if_neg (by simp; omega)]
        rw [sumSizes_append (show i ≤ a.length by omega), sumSizes_append (show rel ≤ a.length by omega)]
        exact h
  · rename_i hch; rw [hch] at h; exact h
  · rename_i h1 h2
    split at h
    · rename_i c0 c1 hch; exact absurd hch (h1 c0 c1)
    · rename_i hch; exact absurd hch h2
    · exact h

/-! ### one pass -/

theorem set_self {α} : ∀ {ss : List α} {i : Nat} {s : α}, ss[i]? = some s → ss.set i s = ss := by
  intro ss
  induction ss with
  | nil => intro i s h; rfl
  | cons x xs ih =>
    intro i s h
    cases i with
    | zero => simp at h; subst h; rfl
    | succ j => simp at h; simp [ih h]

/-- unfolding of one step of `pcrPass` at an index that holds `s` -/
theorem pcrPass_step {n : Nat} {ss : List Stmt} {i : Nat} {p : Bool} {s : Stmt} (hs : ss[i]? = some s) :
    pcrPass (n + 1) ss i p =
      if s.fixedSize then pcrPass n ss (i + 1) p
      else match determine ss i s with
        | .ok s' => pcrPass n (ss.set i s') (i + 1) (p || s'.fixedSize)
        | .diag => .diag
        | .internal => .internal
        | .diverged => .diverged := by
  rw [pcrPass, hs]
  dsimp only
  split
  · rfl
  · cases determine ss i s <;> rfl

theorem pcrPass_end {n : Nat} {ss : List Stmt} {i : Nat} {p : Bool} (hs : ss[i]? = none) :
    pcrPass n ss i p = .ok (ss, p) := by
  cases n with
  | zero => rfl
  | succ n => rw [pcrPass, hs]

/-- induction principle packaged as a lemma: a property of (input list, index, flag, result) that is
reflexive and survives one step holds of every successful pass -/
theorem pcrPass_ind (Q : List Stmt → Nat → Bool → List Stmt → Bool → Prop)
    (hrefl : ∀ ss i p, Q ss i p ss p)
    (hskip : ∀ ss i p r p' s, ss[i]? = some s → s.fixedSize = true → Q ss (i + 1) p r p' → Q ss i p r p')
    (hstep : ∀ ss i p r p' s s', ss[i]? = some s → s.fixedSize = false → determine ss i s = .ok s' →
      Q (ss.set i s') (i + 1) (p || s'.fixedSize) r p' → Q ss i p r p') :
    ∀ (n : Nat) (ss : List Stmt) (i : Nat) (p : Bool) (r : List Stmt) (p' : Bool),
      pcrPass n ss i p = .ok (r, p') → Q ss i p r p' := by
  intro n
  induction n with
  | zero => intro ss i p r p' h; simp [pcrPass] at h; obtain ⟨rfl, rfl⟩ := h; exact hrefl _ _ _
  | succ n ih =>
    intro ss i p r p' h
    cases hs : ss[i]? with
    | none => rw [pcrPass_end hs] at h; simp at h; obtain ⟨rfl, rfl⟩ := h; exact hrefl _ _ _
    | some s =>
      rw [pcrPass_step hs] at h
      cases hf : s.fixedSize with
      | true => rw [hf] at h; exact hskip _ _ _ _ _ s hs hf (ih _ _ _ _ _ h)
      | false =>
        rw [hf] at h
        simp only [Bool.false_eq_true, if_false] at h
        cases hd : determine ss i s with
        | ok s' => rw [hd] at h; exact hstep _ _ _ _ _ s s' hs hf hd (ih _ _ _ _ _ h)
        | _ => rw [hd] at h; cases h

theorem pcrPass_flag {n : Nat} {ss : List Stmt} {i : Nat} {p : Bool} {r : List Stmt} {p' : Bool}
    (h : pcrPass n ss i p = .ok (r, p')) : p = true → p' = true := by
  refine pcrPass_ind (fun _ _ p _ p' => p = true → p' = true) ?_ ?_ ?_ n ss i p r p' h
  · intro _ _ _ h; exact h
  · intro _ _ _ _ _ _ _ _ ih h; exact ih h
  · intro _ _ _ _ _ _ _ _ _ _ ih h; exact ih (by simp [h])

theorem pcrPass_length {n : Nat} {ss : List Stmt} {i : Nat} {p : Bool} {r : List Stmt} {p' : Bool}
    (h : pcrPass n ss i p = .ok (r, p')) : r.length = ss.length := by
  refine pcrPass_ind (fun ss _ _ r _ => r.length = ss.length) ?_ ?_ ?_ n ss i p r p' h
  · intro _ _ _; rfl
  · intro _ _ _ _ _ _ _ _ ih; exact ih
  · intro _ _ _ _ _ _ _ _ _ _ ih; simpa using ih

/-- a pass started at index `i` does not touch the statements before `i` -/
theorem pcrPass_take {n : Nat} {ss : List Stmt} {i : Nat} {p : Bool} {r : List Stmt} {p' : Bool}
    (h : pcrPass n ss i p = .ok (r, p')) : r.take i = ss.take i := by
  refine pcrPass_ind (fun ss i _ r _ => r.take i = ss.take i) ?_ ?_ ?_ n ss i p r p' h
  · intro _ _ _; rfl
  · intro ss i _ r _ _ _ _ ih
    have := congrArg (List.take i) ih
    simpa [List.take_take, Nat.min_eq_left (Nat.le_succ i)] using this
  · intro ss i _ r _ _ s' _ _ _ ih
    have := congrArg (List.take i) ih
    simp only [List.take_take, Nat.min_eq_left (Nat.le_succ i)] at this
    rw [this, List.take_set_of_le (Nat.le_refl i)]

/-- a pass without progress changes nothing -/
theorem pcrPass_noprogress {n : Nat} {ss : List Stmt} {i : Nat} {p : Bool} {r : List Stmt} {p' : Bool}
    (h : pcrPass n ss i p = .ok (r, p')) : p' = false → r = ss := by
  refine (pcrPass_ind (fun ss _ p r p' => (p = true → p' = true) ∧ (p' = false → r = ss))
    ?_ ?_ ?_ n ss i p r p' h).2
  · intro _ _ _; exact ⟨fun h => h, fun _ => rfl⟩
  · intro _ _ _ _ _ _ _ _ ih; exact ih
  · intro ss i p r p' s s' hs hf hd ih
    refine ⟨fun h => ih.1 (by simp [h]), fun hp => ?_⟩
    have hfs : s'.fixedSize = false := by
      cases hx : s'.fixedSize with
      | false => rfl
      | true => have := ih.1 (by simp [hx]); rw [hp] at this; cases this
    rcases (determine_ok hd).1 with h1 | h1
    · rw [hfs] at h1; cases h1
    · have := ih.2 hp
      rw [h1, set_self hs] at this
      exact this

/-- nothing to do when every statement has a fixed size -/
theorem pcrPass_allFixed {ss : List Stmt} (hall : allFixed ss = true) :
    ∀ (n i : Nat) (p : Bool), pcrPass n ss i p = .ok (ss, p) := by
  intro n
  induction n with
  | zero => intro i p; rfl
  | succ n ih =>
    intro i p
    cases hs : ss[i]? with
    | none => exact pcrPass_end hs
    | some s =>
      rw [pcrPass_step hs]
      have : s.fixedSize = true := by
        have hm : s ∈ ss := List.mem_of_getElem? hs
        simp only [allFixed, List.all_eq_true] at hall
        exact hall s hm
      rw [if_pos this]; exact ih _ _

/-- statements keep their operand and `additional` through a pass -/
theorem pcrPass_mem {n : Nat} {ss : List Stmt} {i : Nat} {p : Bool} {r : List Stmt} {p' : Bool}
    (h : pcrPass n ss i p = .ok (r, p')) :
    ∀ s' ∈ r, ∃ s ∈ ss, s'.operand = s.operand ∧ s'.pkg.additional = s.pkg.additional := by
  refine pcrPass_ind (fun ss _ _ r _ => ∀ s' ∈ r, ∃ s ∈ ss, s'.operand = s.operand ∧
    s'.pkg.additional = s.pkg.additional) ?_ ?_ ?_ n ss i p r p' h
  · intro _ _ _ s' hs'; exact ⟨s', hs', rfl, rfl⟩
  · intro _ _ _ _ _ _ _ _ ih; exact ih
  · intro ss i _ r _ s s1 hs _ hd ih s' hs'
    obtain ⟨x, hx, e1, e2⟩ := ih s' hs'
    rcases List.mem_or_eq_of_mem_set hx with hx | hx
    · exact ⟨x, hx, e1, e2⟩
    · subst hx
      obtain ⟨_, d1, d2⟩ := determine_ok hd
      exact ⟨s, List.mem_of_getElem? hs, by rw [e1, d1], by rw [e2, d2]⟩

/-- the pass over `a ++ b` treats the statements of `a` as the pass over `a` does, then goes on
with the statements of `b` -/
theorem pcrPass_prefix {b : List Stmt} {m : Nat} : ∀ (k : Nat) (a : List Stmt) (i : Nat) (p : Bool)
    (a' : List Stmt) (pa : Bool), i + k = a.length → pcrPass k a i p = .ok (a', pa) →
    pcrPass (k + m) (a ++ b) i p = pcrPass m (a' ++ b) a.length pa := by
  intro k
  induction k with
  | zero =>
    intro a i p a' pa hik h
    simp [pcrPass] at h
    obtain ⟨rfl, rfl⟩ := h
    rw [Nat.zero_add, ← hik, Nat.add_zero]
  | succ k ih =>
    intro a i p a' pa hik h
    have hi : i < a.length := by omega
    have hs : a[i]? = some a[i] := List.getElem?_eq_getElem hi
    have hs' : (a ++ b)[i]? = some a[i] := getElem?_append_some hs
    rw [show k + 1 + m = (k + m) + 1 by omega, pcrPass_step hs']
    rw [pcrPass_step hs] at h
    cases hf : a[i].fixedSize with
    | true =>
      rw [hf] at h
      simp only [if_true] at h ⊢
      exact ih a (i + 1) p a' pa (by omega) h
    | false =>
      rw [hf] at h
      simp only [Bool.false_eq_true, if_false] at h ⊢
      cases hd : determine a i a[i] with
      | ok s' =>
        rw [hd] at h
        rw [determine_append hi hd]
        dsimp only at h ⊢
        rw [List.set_append_left _ _ hi]
        have := ih (a.set i s') (i + 1) (p || s'.fixedSize) a' pa (by simp; omega) h
        simpa using this
      | _ => rw [hd] at h; cases h

/-! ### forceFirst -/

theorem forceFirst_append_fixed : ∀ {a : List Stmt} (b : List Stmt), allFixed a = true →
    forceFirst (a ++ b) = (forceFirst b).map (a ++ ·) := by
  intro a
  induction a with
  | nil => intro b _; simp
  | cons s rest ih =>
    intro b h
    simp only [allFixed, List.all_cons, Bool.and_eq_true] at h
    rw [List.cons_append, forceFirst, if_pos h.1, ih b (by simpa [allFixed] using h.2)]
    cases forceFirst b <;> rfl

theorem forceFirst_append_not : ∀ {a : List Stmt} (b : List Stmt), allFixed a = false →
    forceFirst (a ++ b) = (forceFirst a).map (· ++ b) := by
  intro a
  induction a with
  | nil => intro b h; simp [allFixed] at h
  | cons s rest ih =>
    intro b h
    rw [List.cons_append, forceFirst, forceFirst]
    cases hf : s.fixedSize with
    | true =>
      simp only [if_true]
      have : allFixed rest = false := by simpa [allFixed, hf] using h
      rw [ih b this]
      cases forceFirst rest <;> rfl
    | false =>
      simp only [Bool.false_eq_true, if_false]
      split
      · cases settle s 2 4 _ <;> rfl
      · rfl

theorem forceFirst_mem : ∀ {ss r : List Stmt}, forceFirst ss = some r →
    ∀ s' ∈ r, ∃ s ∈ ss, s'.operand = s.operand ∧ s'.pkg.additional = s.pkg.additional := by
  intro ss
  induction ss with
  | nil => intro r h s' hs'; simp [forceFirst] at h; subst h; simp at hs'
  | cons x rest ih =>
    intro r h s' hs'
    rw [forceFirst] at h
    split at h
    · cases hr : forceFirst rest with
      | none => rw [hr] at h; cases h
      | some r2 =>
        rw [hr] at h; simp at h; subst h
        rcases List.mem_cons.mp hs' with e | e
        · exact ⟨x, by simp, by rw [e], by rw [e]⟩
        · obtain ⟨y, hy, e1⟩ := ih hr s' e
          exact ⟨y, by simp [hy], e1⟩
    · split at h
      · rename_i c0 c1 _
        cases hs : settle x 2 4 c1 with
        | none => rw [hs] at h; cases h
        | some x' =>
          rw [hs] at h; simp at h; subst h
          obtain ⟨_, e1, e2, _⟩ := settle_fixed hs
          rcases List.mem_cons.mp hs' with e | e
          · exact ⟨x, by simp, by rw [e, e1], by rw [e, e2]⟩
          · exact ⟨s', by simp [e], rfl, rfl⟩
      · cases h

/-! ### the loop -/

theorem pcrLoop_zero_ok {ss r : List Stmt} (h : pcrLoop 0 ss = .ok r) : allFixed ss = true ∧ r = ss := by
  rw [pcrLoop] at h
  split at h
  · rename_i hf; cases h; exact ⟨hf, rfl⟩
  · cases h

/-- the tail of the pass over `a' ++ b` leaves `a'` alone -/
theorem pcrPass_tail {a' b r : List Stmt} {m : Nat} {pa p' : Bool}
    (h : pcrPass m (a' ++ b) a'.length pa = .ok (r, p')) : ∃ b', r = a' ++ b' := by
  have ht := pcrPass_take h
  rw [List.take_left' rfl] at ht
  refine ⟨r.drop a'.length, ?_⟩
  have := (List.take_append_drop a'.length r).symm
  rw [ht] at this; exact this

/-- stuttering simulation: the size loop on `a ++ b` ends with the result of the loop on `a`
followed by something -/
theorem pcrLoop_prefix : ∀ (f' : Nat) (a b : List Stmt) (f : Nat) (ra rab : List Stmt),
    pcrLoop f a = .ok ra → pcrLoop f' (a ++ b) = .ok rab → ∃ rb, rab = ra ++ rb := by
  intro f'
  have hdone : ∀ (a b : List Stmt) (f : Nat) (ra : List Stmt), pcrLoop f a = .ok ra →
      allFixed (a ++ b) = true → ∃ rb, a ++ b = ra ++ rb := by
    intro a b f ra ha hall
    rw [allFixed_append, Bool.and_eq_true] at hall
    rw [pcrLoop_allFixed hall.1] at ha
    cases ha
    exact ⟨b, rfl⟩
  induction f' with
  | zero =>
    intro a b f ra rab ha hab
    obtain ⟨hall, rfl⟩ := pcrLoop_zero_ok hab
    exact hdone a b f ra ha hall
  | succ f' ih =>
    intro a b f ra rab ha hab
    rw [pcrLoop] at hab
    by_cases hall : allFixed (a ++ b) = true
    · rw [if_pos hall] at hab; cases hab; exact hdone a b f ra ha hall
    · rw [if_neg hall] at hab
      rw [List.length_append] at hab
      by_cases hfa : allFixed a = true
      · -- the prefix is finished; the longer run only works on `b`
        have hra := ha
        rw [pcrLoop_allFixed hfa] at hra
        cases hra
        rw [pcrPass_prefix a.length a 0 false a false (by simp) (pcrPass_allFixed hfa _ _ _)] at hab
        cases hp : pcrPass b.length (a ++ b) a.length false with
        | ok x =>
          obtain ⟨r, p'⟩ := x
          obtain ⟨b', rfl⟩ := pcrPass_tail hp
          rw [hp] at hab
          cases p' with
          | true => exact ih a b' f a rab ha hab
          | false =>
            dsimp only at hab
            rw [forceFirst_append_fixed b' hfa] at hab
            cases hff : forceFirst b' with
            | none => rw [hff] at hab; cases hab
            | some b'' => rw [hff] at hab; exact ih a b'' f a rab ha hab
        | _ => rw [hp] at hab; cases hab
      · -- the prefix run makes a pass as well
        cases f with
        | zero => exact absurd (pcrLoop_zero_ok ha).1 hfa
        | succ f0 =>
          have ha0 := ha
          rw [pcrLoop, if_neg hfa] at ha
          cases hpa : pcrPass a.length a 0 false with
          | ok x =>
            obtain ⟨a', pa⟩ := x
            rw [hpa] at ha
            rw [pcrPass_prefix a.length a 0 false a' pa (by simp) hpa] at hab
            have hlen : a'.length = a.length := pcrPass_length hpa
            rw [← hlen] at hab
            cases hp : pcrPass b.length (a' ++ b) a'.length pa with
            | ok y =>
              obtain ⟨r, p'⟩ := y
              obtain ⟨b', rfl⟩ := pcrPass_tail hp
              rw [hp] at hab
              cases pa with
              | true =>
                have : p' = true := pcrPass_flag hp rfl
                subst this
                exact ih a' b' f0 ra rab ha hab
              | false =>
                have haa : a' = a := pcrPass_noprogress hpa rfl
                subst haa
                dsimp only at ha
                cases hff : forceFirst a' with
                | none => rw [hff] at ha; cases ha
                | some a'' =>
                  rw [hff] at ha
                  cases p' with
                  | true => exact ih a' b' (f0 + 1) ra rab ha0 hab
                  | false =>
                    dsimp only at hab
                    rw [forceFirst_append_not b' (by simpa using hfa), hff] at hab
                    exact ih a'' b' f0 ra rab ha hab
            | _ => rw [hp] at hab; cases hab
          | _ => rw [hpa] at ha; cases ha

/-- statements keep their operand and `additional` through the size loop -/
theorem pcrLoop_mem : ∀ (f : Nat) (ss r : List Stmt), pcrLoop f ss = .ok r →
    ∀ s' ∈ r, ∃ s ∈ ss, s'.operand = s.operand ∧ s'.pkg.additional = s.pkg.additional := by
  intro f
  induction f with
  | zero =>
    intro ss r h s' hs'
    obtain ⟨_, rfl⟩ := pcrLoop_zero_ok h
    exact ⟨s', hs', rfl, rfl⟩
  | succ f ih =>
    intro ss r h s' hs'
    rw [pcrLoop] at h
    split at h
    · cases h; exact ⟨s', hs', rfl, rfl⟩
    · cases hp : pcrPass ss.length ss 0 false with
      | ok x =>
        obtain ⟨ss1, p'⟩ := x
        rw [hp] at h
        cases p' with
        | true =>
          obtain ⟨y, hy, e1, e2⟩ := ih _ _ h s' hs'
          obtain ⟨z, hz, g1, g2⟩ := pcrPass_mem hp y hy
          exact ⟨z, hz, by rw [e1, g1], by rw [e2, g2]⟩
        | false =>
          dsimp only at h
          cases hff : forceFirst ss1 with
          | none => rw [hff] at h; cases h
          | some ss2 =>
            rw [hff] at h
            obtain ⟨y, hy, e1, e2⟩ := ih _ _ h s' hs'
            obtain ⟨w, hw, k1, k2⟩ := forceFirst_mem hff y hy
            obtain ⟨z, hz, g1, g2⟩ := pcrPass_mem hp w hw
            exact ⟨z, hz, by rw [e1, k1, g1], by rw [e2, k2, g2]⟩
      | _ => rw [hp] at h; cases h

theorem forceFirst_length : ∀ {ss r : List Stmt}, forceFirst ss = some r → r.length = ss.length := by
  intro ss
  induction ss with
  | nil => intro r h; simp [forceFirst] at h; subst h; rfl
  | cons x rest ih =>
    intro r h
    rw [forceFirst] at h
    split at h
    · cases hr : forceFirst rest with
      | none => rw [hr] at h; cases h
      | some r2 => rw [hr] at h; simp at h; subst h; simp [ih hr]
    · split at h
      · cases hs : settle x 2 4 _ with
        | none => rw [hs] at h; cases h
        | some x' => rw [hs] at h; simp at h; subst h; rfl
      · cases h

theorem pcrLoop_length : ∀ (f : Nat) (ss r : List Stmt), pcrLoop f ss = .ok r → r.length = ss.length := by
  intro f
  induction f with
  | zero => intro ss r h; rw [(pcrLoop_zero_ok h).2]
  | succ f ih =>
    intro ss r h
    rw [pcrLoop] at h
    split at h
    · cases h; rfl
    · cases hp : pcrPass ss.length ss 0 false with
      | ok x =>
        obtain ⟨ss1, p'⟩ := x
        rw [hp] at h
        cases p' with
        | true => rw [ih _ _ h, pcrPass_length hp]
        | false =>
          dsimp only at h
          cases hff : forceFirst ss1 with
          | none => rw [hff] at h; cases h
          | some ss2 => rw [hff] at h; rw [ih _ _ h, forceFirst_length hff, pcrPass_length hp]
      | _ => rw [hp] at h; cases h

/-! ### layout, back, assemble: prefix stability in general -/

/-- Prefix stability of the layout, PCR statements included. -/
theorem layout_prefix_gen {a b : List Stmt} {t1 t2 : SymTab} {la lab : List Stmt}
    (ha : layout a = .ok (t1, la)) (hab : layout (a ++ b) = .ok (t2, lab)) :
    (∃ d, t2 = t1 ++ d) ∧ (∃ lb, lab = la ++ lb) ∧ la.length = a.length := by
  obtain ⟨a1, a2, a3, hA0, hA1, hA2, hA3, hA4⟩ := layout_ok ha
  obtain ⟨s1, s2, s3, hB0, hB1, hB2, hB3, hB4⟩ := layout_ok hab
  obtain ⟨t1', d, hT, hd, hle⟩ := buildSymTab_append_le hB0
  rw [hA0] at hT
  cases hT
  have hR := resolveAll_mono hle hA1
  rw [resolveAll_append, hR] at hB1
  cases hb1 : resolveAll t2 b with
  | none => rw [hb1] at hB1; cases hB1
  | some b1 =>
    rw [hb1] at hB1
    simp only [Option.bind, Option.map, Option.some.injEq] at hB1
    subst hB1
    rw [translateAll_append, hA2] at hB2
    cases hb2 : translateAll b1 with
    | none => rw [hb2] at hB2; cases hB2
    | some b2 =>
      rw [hb2] at hB2
      simp only [Option.bind, Option.map, Option.some.injEq] at hB2
      subst hB2
      obtain ⟨rb3, rfl⟩ := pcrLoop_prefix _ _ _ _ _ _ hA3 hB3
      obtain ⟨ra, rb, h1, h2, h3⟩ := assignAddrs_append_ok _ _ _ _ hB4
      rw [hA4] at h1
      cases h1
      refine ⟨⟨d, hd⟩, ⟨rb, h2⟩, ?_⟩
      rw [h3, pcrLoop_length _ _ _ hA3, translateAll_length hA2, resolveAll_length hA1]

/-- every relative branch of a laid-out parsed program aims inside the program -/
theorem layout_branchInside_gen {a : List Stmt} {t : SymTab} {la : List Stmt}
    (h : layout a = .ok (t, la)) (hna : ∀ s ∈ a, s.operand.value.isAddress = false) :
    BranchInside a.length la := by
  obtain ⟨a1, a2, a3, h0, h1, h2, h3, h4⟩ := layout_ok h
  have htab : TableBelow a.length t :=
    buildSymTab_below a.length a 0 [] t h0 hna (fun kv hkv => by simp at hkv) (by simp)
  intro s4 hs4 hk b hb
  obtain ⟨s3, hs3, e1, e2⟩ := assignAddrs_mem h4 s4 hs4
  obtain ⟨s2, hs2, f1, f2⟩ := pcrLoop_mem _ _ _ h3 s3 hs3
  obtain ⟨s1, hs1, p, hp, e3, e4⟩ := translateAll_mem h2 s2 hs2
  obtain ⟨s0, hs0, o, ho, e5⟩ := resolveAll_mem h1 s1 hs1
  have hk1 : s1.operand.kind = .relative := by rw [← e3, ← f1, ← e1]; exact hk
  obtain ⟨hadd, haddr⟩ := translateOperand_relative hp hk1
  rw [e2, f2, e4, hadd] at hb
  have ho' : s1.operand = o := by rw [e5]
  rw [ho'] at hk1 hb haddr
  obtain ⟨_, hres⟩ := resolveOperand_relative ho hk1
  cases hv : o.value with
  | address i m =>
    rw [hv] at hb hres
    simp [Value.int?] at hb
    subst hb
    obtain ⟨k, m', hg⟩ := resolve_address hres (hna s0 hs0)
    obtain ⟨kv, hkv, hkv2⟩ := SymTab.get?_mem hg
    exact Nat.le_of_lt (htab kv hkv _ _ hkv2)
  | _ => rw [hv] at haddr; cases haddr

theorem back_prefix_gen {a b : List Stmt} {A B : Assembly} (hA : back a = .ok A)
    (hB : back (a ++ b) = .ok B) (hna : ∀ s ∈ a, s.operand.value.isAddress = false) :
    (∃ r, B.stmts = A.stmts ++ r) ∧ (∃ d, B.symtab = A.symtab ++ d) := by
  obtain ⟨t1, la, hla, hfa⟩ := back_ok hA
  obtain ⟨t2, lab, hlab, hfb⟩ := back_ok hB
  obtain ⟨⟨d, hd⟩, ⟨lb, hlb⟩, hlen⟩ := layout_prefix_gen hla hlab
  subst hd hlb
  exact finish_prefix hfa hfb (hlen ▸ layout_branchInside_gen hla hna)

/-- C18-R4 in full: appending lines to a program that assembles, when the longer program assembles
too, leaves the statements, symbols and bytes of the shorter program in place. -/
theorem assemble_prefix_gen {fs : Files} {ls ext : List Str} {A B : Assembly}
    (hA : assemble fs ls = .ok A) (hB : assemble fs (ls ++ ext) = .ok B) :
    (∃ r, B.stmts = A.stmts ++ r) ∧ (∃ d, B.symtab = A.symtab ++ d) ∧
    (∀ ib, B.image = some ib → ∃ ia rest, A.image = some ia ∧ ib = ia ++ rest) := by
  obtain ⟨ra, hfa, hba⟩ := assemble_ok hA
  obtain ⟨rab, hfab, hbab⟩ := assemble_ok hB
  obtain ⟨ra', rx, h1, _, h3⟩ := front_append_ok hfab
  rw [hfa] at h1
  cases h1
  subst h3
  have hna := front_forall (P := fun s => s.operand.value.isAddress = false)
    (fun l s h => parseLine_notAddr h) hfa
  obtain ⟨⟨r, hr⟩, hd⟩ := back_prefix_gen hba hbab hna
  exact ⟨⟨r, hr⟩, hd, fun ib hib => image_prefix hr hib⟩

end CoCo.Asm
