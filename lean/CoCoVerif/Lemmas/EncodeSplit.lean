/-
Lemmas/EncodeSplit.lean — `splitOn` (Python `str.split(c)`) inverts joining with the separator.
-/
import CoCoVerif.Model.Values

namespace CoCo.Asm

/-- `c.join(parts)` -/
def joinWith (c : Char) : List Str → Str
  | [] => []
  | [a] => a
  | a :: b :: t => a ++ c :: joinWith c (b :: t)

theorem splitOn_ne_nil (c : Char) (s : Str) : splitOn c s ≠ [] := by
  induction s with
  | nil => simp [splitOn]
  | cons ch s ih =>
    simp only [splitOn, List.foldr_cons] at ih ⊢
    split
    · simp
    · split <;> simp

theorem splitOn_cons_sep (c : Char) (s : Str) : splitOn c (c :: s) = [] :: splitOn c s := by
  simp [splitOn]

theorem splitOn_cons_ne (c ch : Char) (s : Str) (h : ch ≠ c) (a : Str) (t : List Str)
    (hs : splitOn c s = a :: t) : splitOn c (ch :: s) = (ch :: a) :: t := by
  have hb : (ch == c) = false := by simpa using h
  simp only [splitOn, List.foldr_cons] at hs ⊢
  rw [hs]
  simp [hb]

theorem splitOn_noSep (c : Char) (a : Str) (h : c ∉ a) : splitOn c a = [a] := by
  induction a with
  | nil => simp [splitOn]
  | cons ch a ih =>
    have hne : ch ≠ c := by intro e; exact h (by simp [e])
    exact splitOn_cons_ne c ch a hne _ _ (ih (by intro hm; exact h (by simp [hm])))

theorem splitOn_append_sep (c : Char) (a rest : Str) (h : c ∉ a) :
    splitOn c (a ++ c :: rest) = a :: splitOn c rest := by
  induction a with
  | nil => simp [splitOn_cons_sep]
  | cons ch a ih =>
    have hne : ch ≠ c := by intro e; exact h (by simp [e])
    exact splitOn_cons_ne c ch _ hne _ _ (ih (by intro hm; exact h (by simp [hm])))

/-- splitting a joined list gives the list back, provided no part contains the separator -/
theorem splitOn_joinWith (c : Char) (parts : List Str) (hne : parts ≠ []) (h : ∀ p ∈ parts, c ∉ p) :
    splitOn c (joinWith c parts) = parts := by
  induction parts with
  | nil => exact absurd rfl hne
  | cons a t ih =>
    cases t with
    | nil => simpa [joinWith] using splitOn_noSep c a (h a (by simp))
    | cons b t =>
      simp only [joinWith]
      rw [splitOn_append_sep c a _ (h a (by simp)), ih (by simp) (fun p hp => h p (by simp [hp]))]

theorem contains_joinWith (c : Char) (a b : Str) (t : List Str) : (joinWith c (a :: b :: t)).contains c = true := by
  simp [joinWith]

end CoCo.Asm
