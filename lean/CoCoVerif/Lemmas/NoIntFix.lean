/-
Lemmas/NoIntFix.lean — C13, "no internal error": address assignment, `fix_addresses`, the final symbol
table, and the back end as a whole (`back_ne_internal`).
-/
import CoCoVerif.Lemmas.NoIntPcr
import CoCoVerif.Lemmas.EvalListsNoInt

namespace CoCo.Asm
open CoCo
open CoCo.Gen (InstrRow)

/-- a statement after the size loop: good and of decided size -/
def StmtFix (N : Nat) (s : Stmt) : Prop := StmtOK N s ∧ s.fixedSize = true

/-! ### assignAddrs -/

theorem assignAddrs_good {N : Nat} : ∀ (l : List Stmt) (a : Nat), (∀ s ∈ l, StmtFix N s) →
    assignAddrs l a ≠ .internal ∧
      ∀ r, assignAddrs l a = .ok r → r.length = l.length ∧ ∀ s ∈ r, StmtFix N s := by
  intro l
  induction l with
  | nil => intro a _; exact ⟨by simp [assignAddrs], fun r h => by simp [assignAddrs] at h; subst h; simp⟩
  | cons s rest ih =>
    intro a hall
    have hs := hall s (by simp)
    have hrest : ∀ x ∈ rest, StmtFix N x := fun x hx => hall x (by simp [hx])
    unfold assignAddrs
    split
    · cases hv : numV a with
      | error e => exact ⟨by simp, fun r h => by cases h⟩
      | ok v =>
        dsimp only
        obtain ⟨hni, hok⟩ := ih (a + s.pkg.size) hrest
        cases hr : assignAddrs rest (a + s.pkg.size) with
        | ok r2 =>
          refine ⟨by simp, fun r h => ?_⟩
          simp only [Outcome.ok.injEq] at h
          subst h
          obtain ⟨hl, hr2⟩ := hok r2 hr
          refine ⟨by simp [hl], ?_⟩
          intro x hx
          rcases List.mem_cons.mp hx with rfl | hx
          · exact ⟨⟨hs.1.val, numV_good 0 hv, hs.1.codes, hs.1.choices, hs.1.rel, hs.1.needs, hs.1.addl⟩, hs.2⟩
          · exact hr2 x hx
        | diag => exact ⟨by simp, fun r h => by cases h⟩
        | internal => exact absurd hr hni
        | diverged => exact ⟨by simp, fun r h => by cases h⟩
    · obtain ⟨k, hk, _⟩ := hs.1.addr.int
      rw [hk]
      dsimp only
      obtain ⟨hni, hok⟩ := ih (k + s.pkg.size) hrest
      cases hr : assignAddrs rest (k + s.pkg.size) with
      | ok r2 =>
        refine ⟨by simp, fun r h => ?_⟩
        simp only [Outcome.ok.injEq] at h
        subst h
        obtain ⟨hl, hr2⟩ := hok r2 hr
        refine ⟨by simp [hl], ?_⟩
        intro x hx
        rcases List.mem_cons.mp hx with rfl | hx
        · exact hs
        · exact hr2 x hx
      | diag => exact ⟨by simp, fun r h => by cases h⟩
      | internal => exact absurd hr hni
      | diverged => exact ⟨by simp, fun r h => by cases h⟩

/-! ### lookups in the statement list -/

theorem numericOfInt_ok_of_le {z : Int} (hz : z ≤ 65535) (h : Option Nat) (m : Mode) :
    ∃ v, numericOfInt z h m = .ok v := by
  unfold numericOfInt
  rw [if_neg (by omega)]
  exact ⟨_, rfl⟩


section
variable {N : Nat} {ss : List Stmt} (hlen : ss.length = N) (hall : ∀ s ∈ ss, StmtFix N s)
include hlen hall

/-- the address of every statement is a 16-bit magnitude -- however many statements there are: it is either what
`assignAddrs` computed (`numV`) or the operand of an ORG, which contains no label (`StmtOK.addr`) -/
theorem addrIntOf_good {j : Nat} (hj : j < N) : ∃ a, addrIntOf ss j = some a ∧ a ≤ 65535 := by
  have hj' : j < ss.length := by omega
  have hmem : ss[j] ∈ ss := List.getElem_mem hj'
  obtain ⟨k, hk, hkle⟩ := (hall _ hmem).1.addr.int_le (Nat.zero_le _)
  refine ⟨k, ?_, hkle⟩
  show ((ss[j]?).map (·.pkg.address)).bind Value.int? = some k
  rw [List.getElem?_eq_getElem hj']
  exact hk

omit hall in
theorem addrOf_good {j : Nat} (hj : j < N) : ∃ v, addrOf ss j = some v := by
  have hj' : j < ss.length := by omega
  exact ⟨ss[j].pkg.address, by simp [addrOf, List.getElem?_eq_getElem hj']⟩

/-- one operand of a good address expression: an "unresolved expression" diagnostic (neither a label
nor a number) or a (signed, since batch B2) integer: a label's address or a number -/
theorem addrOperand_good {v : Value} (hv : v.Good N) :
    addrOperand ss v = .diag ∨ ∃ add, addrOperand ss v = .ok add := by
  obtain ⟨k, hk, hk1, hk2⟩ := hv.int
  unfold addrOperand
  by_cases ha : v.isAddress = true
  · rw [if_pos ha, hk]
    obtain ⟨x, hx, hxle⟩ := addrIntOf_good hlen hall (hk1 ha)
    dsimp only
    rw [hx]
    exact Or.inr ⟨x, rfl⟩
  · rw [if_neg ha]
    by_cases hn : v.isNumeric = true
    · rw [if_pos hn, hk]
      exact Or.inr ⟨_, rfl⟩
    · rw [if_neg hn]; exact Or.inl rfl

omit hlen hall in
/-- (batch B3) the result of the arithmetic is a 16-bit magnitude: below zero it is reduced modulo 65536, above 65535
it is a diagnostic -/
theorem addrCombine_int_le {op : Char} {a b : Int} {x : Value} (hx : addrCombine op a b = .ok x) :
    ∃ k, x.int? = some k ∧ k ≤ 65535 := by
  unfold addrCombine at hx
  dsimp only at hx
  split at hx
  · cases hx
  · rename_i z _
    have hw : 0 ≤ (if z < 0 then z % 65536 else z) := by split <;> omega
    generalize (if z < 0 then z % 65536 else z) = w at hx hw
    split at hx
    · rename_i nv hnv
      cases hx
      unfold numericOfInt at hnv
      split at hnv
      · cases hnv
      · rename_i hle
        cases hnv
        exact ⟨_, rfl, by omega⟩
    · cases hx

/-- `calculate_address_offset` on a good address expression: no internal error, and the result has an `.int`
(batch B3: a 16-bit magnitude again, a result below zero is reduced modulo 65536 for every operator) -/
theorem addrOffset_good {l r : Value} {op : Char} {m : Mode} (hv : (Value.expr l r op m true).Good N) :
    addrOffset ss (.expr l r op m true) ≠ .internal ∧
      ∀ x, addrOffset ss (.expr l r op m true) = .ok x → ∃ k, x.int? = some k ∧ k ≤ 65535 := by
  obtain ⟨hl, hr, hab⟩ := hv
  rw [addrOffset_expr]
  rcases addrOperand_good hlen hall hl with hd | ⟨a, ha⟩
  · rw [hd]; exact ⟨by simp, fun x h => by cases h⟩
  rw [ha]
  rcases addrOperand_good hlen hall hr with hd | ⟨b, hb⟩
  · rw [hd]; exact ⟨by simp, fun x h => by cases h⟩
  rw [hb]
  exact ⟨addrCombine_ne_internal _ _ _, fun x hx => addrCombine_int_le hx⟩

/-- the target of a PCR statement or of a label offset: a diagnostic or a 16-bit number -/
theorem fixRel_good {s : Stmt} (hs : s ∈ ss) (hn : s.pkg.needsRes = true) :
    fixRel ss s = .diag ∨ ∃ r, fixRel ss s = .ok r ∧ r ≤ 65535 := by
  have hsf := hall s hs
  obtain ⟨hgood, _, ⟨t, ht, htlt⟩⟩ := hsf.1.addl hn
  have hidx : (s.operand.kind == .indexed || s.operand.kind == .extIndirect) = true := by
    rcases (hsf.1.needs hn).2 with h | h <;> simp [h]
  have hplain : (match s.pkg.additional.int? with
      | some t => (match addrIntOf ss t with | some a => Outcome.ok a | none => .internal)
      | none => .internal) = .diag ∨ ∃ r, (match s.pkg.additional.int? with
      | some t => (match addrIntOf ss t with | some a => Outcome.ok a | none => .internal)
      | none => .internal) = .ok r ∧ r ≤ 65535 := by
    obtain ⟨a, ha, hale⟩ := addrIntOf_good hlen hall htlt
    rw [ht]; dsimp only; rw [ha]
    exact Or.inr ⟨a, rfl, hale⟩
  unfold fixRel
  simp only [hidx]
  cases hadd : s.pkg.additional with
  | expr l r op m ae =>
    cases ae with
    | false => rw [hadd] at hplain; exact hplain
    | true =>
      rw [hadd] at hgood
      obtain ⟨hni, hok⟩ := addrOffset_good hlen hall hgood
      dsimp only
      cases ho : addrOffset ss (.expr l r op m true) with
      | ok v =>
        obtain ⟨k, hk, hkle⟩ := hok v ho
        dsimp only
        rw [hk]
        exact Or.inr ⟨k, rfl, hkle⟩
      | diag => exact Or.inl rfl
      | internal => exact absurd ho hni
      | diverged => exact absurd ho (addrOffset_not_diverged _ _)
  | _ => rw [hadd] at hplain; exact hplain

theorem fixStep3_good {i : Nat} {s : Stmt} (hs : ss[i]? = some s) (hn : s.pkg.needsRes = true) :
    fixStep3 ss i s ≠ .internal := by
  have hi : i < N := by have := (List.getElem?_eq_some_iff.mp hs).1; omega
  obtain ⟨st, hst, _⟩ := addrIntOf_good hlen hall hi
  unfold fixStep3
  rw [if_pos hn, hst]
  split
  · unfold fixAbs
    rcases fixRel_good hlen hall (List.mem_of_getElem? hs) hn with h | ⟨r, h, hr⟩
    · rw [h]; simp
    · rw [h]
      dsimp only
      obtain ⟨v, hv⟩ := numericOfInt_ok_of_le (z := (r : Int)) (by omega) (some 4) .none
      rw [hv]; simp
  rcases fixRel_good hlen hall (List.mem_of_getElem? hs) hn with h | ⟨r, h, _⟩
  · rw [h]; simp
  · rw [h]
    dsimp only
    split
    · simp
    have hj : pcrJump s r st ≤ 65535 := by
      unfold pcrJump
      dsimp only
      split <;> omega
    obtain ⟨v, hv⟩ := numericOfInt_ok_of_le hj (some s.pcrHint) .none
    rw [hv]; simp

omit hlen hall in
theorem bind_ne_internal {α β} {o : Outcome α} {f : α → Outcome β} (ho : o ≠ .internal)
    (hf : ∀ a, o = .ok a → f a ≠ .internal) : o.bind f ≠ .internal := by
  cases o with
  | ok a => exact hf a rfl
  | diag => simp [Outcome.bind]
  | internal => exact absurd rfl ho
  | diverged => simp [Outcome.bind]

/-- `fix_addresses` on one statement of a good program: no internal error -/
theorem fixOne_good {i : Nat} {s : Stmt} (hs : ss[i]? = some s) : fixOne ss i s ≠ .internal := by
  have hsf := hall s (List.mem_of_getElem? hs)
  by_cases hk : s.operand.kind = .relative
  · obtain ⟨⟨b, hb⟩, hsz⟩ := hsf.1.rel hk
    refine fixOne_relative_ne_internal hk hb ?_
    intro hsb hbi
    rw [sumSize_succ hbi hs]
    have := hsz hsb
    omega
  · have hk' : (s.operand.kind == .relative) = false := by simpa using hk
    have hv := hsf.1.val
    rw [fixOne_nonrel ss i s hk' hv.ne_pyNone]
    by_cases hn : s.pkg.needsRes = true
    · have hlr := (hsf.1.needs hn).1
      have h1 : fixStep1 ss s = .ok s := by
        unfold fixStep1
        cases hval : s.operand.value <;> rw [hval] at hlr <;> simp [Value.isLeftRight] at hlr
        simp [Value.isAddrExpr]
      have h2 : fixStep2 ss s.operand.value s = .ok s := by
        unfold fixStep2
        cases hval : s.operand.value <;> rw [hval] at hlr <;> simp [Value.isLeftRight] at hlr
        simp [Value.isAddress]
      rw [h1]
      show (fixStep2 ss s.operand.value s).bind (fixStep3 ss i) ≠ .internal
      rw [h2]
      exact fixStep3_good hlen hall hs hn
    · have hnf : s.pkg.needsRes = false := by simpa using hn
      have hstep3 : ∀ s2, SameButAdditional s s2 → fixStep3 ss i s2 ≠ .internal := by
        rintro s2 ⟨v, rfl⟩
        unfold fixStep3
        simp [hnf]
      have hstep2 : ∀ s1, fixStep2 ss s.operand.value s1 ≠ .internal := by
        intro s1
        unfold fixStep2
        split
        · rename_i ha
          obtain ⟨t, ht, htlt, _⟩ := hv.int
          obtain ⟨a, ha'⟩ := addrOf_good hlen (htlt ha)
          rw [ht]; dsimp only; rw [ha']; simp
        · simp
      have hstep1 : fixStep1 ss s ≠ .internal := by
        unfold fixStep1
        split
        · rename_i hae
          cases hval : s.operand.value with
          | expr l r op m ae =>
            cases ae with
            | false => rw [hval] at hae; simp [Value.isAddrExpr] at hae
            | true =>
              rw [hval] at hv
              obtain ⟨hni, _⟩ := addrOffset_good hlen hall hv
              cases ho : addrOffset ss (.expr l r op m true) with
              | internal => exact absurd ho hni
              | _ => simp
          | _ => rw [hval] at hae; simp [Value.isAddrExpr] at hae
        · simp
      refine bind_ne_internal hstep1 ?_
      intro s1 hs1
      have hsame1 : SameButAdditional s s1 := by
        rcases fixStep1_out ss s with h | h | ⟨s', h, hsame⟩ <;> rw [h] at hs1 <;> cases hs1
        exact hsame
      refine bind_ne_internal (hstep2 s1) ?_
      intro s2 hs2
      have hsame2 : SameButAdditional s1 s2 := by
        rcases fixStep2_out ss s.operand.value s1 with h | h | ⟨s', h, hsame⟩ <;> rw [h] at hs2 <;> cases hs2
        exact hsame
      exact hstep3 s2 (hsame1.trans hsame2)

end

/-! ### fixAll, finalSymTab -/

/-- `fit_operand_width` raises no internal error when op code and post byte are not Python's `None` -/
theorem fitWidth_ne_internal {s : Stmt} (h1 : s.pkg.opCode ≠ .pyNone) (h2 : s.pkg.postByte ≠ .pyNone) :
    fitWidth s ≠ .internal := by
  obtain ⟨a, ha⟩ := Value.hexLen?_isSome_of_ne_pyNone h1
  obtain ⟨b, hb⟩ := Value.hexLen?_isSome_of_ne_pyNone h2
  unfold fitWidth
  rw [ha, hb]
  dsimp only
  repeat' split
  all_goals simp

/-- one step of the `fixAll` loop (`fix_addresses`, then `fit_operand_width`) on a statement of a good program -/
theorem fixFit_good {N : Nat} {ss : List Stmt} (hlen : ss.length = N) (hall : ∀ s ∈ ss, StmtFix N s)
    {i : Nat} {s : Stmt} (hs : ss[i]? = some s) : fixFit ss i s ≠ .internal := by
  have hne := fixOne_good hlen hall hs
  have hc := (hall s (List.mem_of_getElem? hs)).1.codes
  unfold fixFit
  cases h1 : fixOne ss i s with
  | ok s1 =>
    dsimp only
    obtain ⟨v, rfl⟩ := fixOne_same h1
    exact fitWidth_ne_internal hc.1 hc.2
  | diag => simp
  | internal => exact absurd h1 hne
  | diverged => simp

theorem fixAll_good {N : Nat} {ss : List Stmt} (hlen : ss.length = N)
    (hall : ∀ s ∈ ss, StmtFix N s) : ∀ (l : List Stmt) (i : Nat), (∀ j s, l[j]? = some s → ss[i + j]? = some s) →
    fixAll ss i l ≠ .internal := by
  intro l
  induction l with
  | nil => intro i _; simp [fixAll]
  | cons s rest ih =>
    intro i hl
    rw [fixAll_cons]
    have h0 : ss[i]? = some s := by simpa using hl 0 s (by simp)
    have hne := fixFit_good hlen hall h0
    cases h1 : fixFit ss i s with
    | ok s' =>
      dsimp only
      have hrest := ih (i + 1) (fun j x hx => by
        have := hl (j + 1) x (by simpa using hx)
        rw [show i + 1 + j = i + (j + 1) by omega]; exact this)
      cases h2 : fixAll ss (i + 1) rest with
      | internal => exact absurd h2 hrest
      | _ => simp
    | diag => simp
    | internal => exact absurd h1 hne
    | diverged => simp

theorem finalSymTab_good {N : Nat} {ss : List Stmt} (hlen : ss.length = N) :
    ∀ (t : SymTab), SymTab.Good N t → finalSymTab ss t ≠ .internal := by
  intro t
  induction t with
  | nil => intro _; simp [finalSymTab]
  | cons kv rest ih =>
    intro ht
    obtain ⟨k, v⟩ := kv
    have hrest := ih (fun x hx => ht x (by simp [hx]))
    have hv : v.Good N := ht (k, v) (by simp)
    unfold finalSymTab
    cases h : finalSymTab ss rest with
    | internal => exact absurd h hrest
    | ok r =>
      dsimp only
      cases v with
      | address i m =>
        have hi : i < ss.length := by have : i < N := hv; omega
        simp [addrOf, List.getElem?_eq_getElem hi]
      | pyNone => exact absurd hv id
      | _ => simp
    | _ => simp

/-! ### evalSyms (batch 4): the EQUs defined by an expression are evaluated on the final addresses -/

section
variable {N : Nat} {ss : List Stmt} (hlen : ss.length = N) (haddr : ∀ s ∈ ss, s.pkg.address.Good 0)
include hlen haddr

/-- `addrIntOf_good` from what it really uses: every statement address is a 16-bit magnitude -/
theorem addrIntOf_good' {j : Nat} (hj : j < N) : ∃ a, addrIntOf ss j = some a ∧ a ≤ 65535 := by
  have hj' : j < ss.length := by omega
  have hmem : ss[j] ∈ ss := List.getElem_mem hj'
  obtain ⟨k, hk, hkle⟩ := (haddr _ hmem).int_le (Nat.zero_le _)
  refine ⟨k, ?_, hkle⟩
  show ((ss[j]?).map (·.pkg.address)).bind Value.int? = some k
  rw [List.getElem?_eq_getElem hj']
  exact hk

theorem addrOperand_good' {v : Value} (hv : v.Good N) :
    addrOperand ss v = .diag ∨ ∃ add, addrOperand ss v = .ok add := by
  obtain ⟨k, hk, hk1, hk2⟩ := hv.int
  unfold addrOperand
  by_cases ha : v.isAddress = true
  · rw [if_pos ha, hk]
    obtain ⟨x, hx, hxle⟩ := addrIntOf_good' hlen haddr (hk1 ha)
    dsimp only
    rw [hx]
    exact Or.inr ⟨x, rfl⟩
  · rw [if_neg ha]
    by_cases hn : v.isNumeric = true
    · rw [if_pos hn, hk]
      exact Or.inr ⟨_, rfl⟩
    · rw [if_neg hn]; exact Or.inl rfl

theorem addrOffset_good' {l r : Value} {op : Char} {m : Mode} {ae : Bool} (hl : l.Good N) (hr : r.Good N) :
    addrOffset ss (.expr l r op m ae) ≠ .internal ∧
      ∀ x, addrOffset ss (.expr l r op m ae) = .ok x → ∃ k, x.int? = some k ∧ k ≤ 65535 := by
  rw [addrOffset_expr]
  rcases addrOperand_good' hlen haddr hl with hd | ⟨a, ha⟩
  · rw [hd]; exact ⟨by simp, fun x h => by cases h⟩
  rw [ha]
  rcases addrOperand_good' hlen haddr hr with hd | ⟨b, hb⟩
  · rw [hd]; exact ⟨by simp, fun x h => by cases h⟩
  rw [hb]
  exact ⟨addrCombine_ne_internal _ _ _, fun x hx => addrCombine_int_le hx⟩

/-- one entry of the symbol table through `evalSyms`: no internal error, and the entry stays good -/
theorem evalSym_good {t : SymTab} (ht : SymTab.Good N t) {v : Value} (hv : v.Good N) :
    evalSym ss t v ≠ .internal ∧ ∀ v', evalSym ss t v = .ok v' → v'.Good N := by
  unfold evalSym
  split
  · cases hr : v.resolve t with
    | error e => exact ⟨by simp, fun _ h => by cases h⟩
    | ok r =>
      dsimp only
      have hrg := Value.resolve_good ht hv hr
      by_cases hae : r.isAddrExpr = true
      · rw [if_pos hae]
        cases r with
        | expr l r' op m ae =>
          obtain ⟨hni, hok⟩ := addrOffset_good' hlen haddr (op := op) (m := m) (ae := ae) hrg.1 hrg.2.1
          cases ho : addrOffset ss (.expr l r' op m ae) with
          | ok x =>
            dsimp only
            refine ⟨by simp, fun v' h => ?_⟩
            simp only [Outcome.ok.injEq] at h
            subst h
            split
            · rename_i hnum
              obtain ⟨k, hk, hkle⟩ := hok x ho
              cases x with
              | numeric i a b c => simp only [Value.int?, Option.some.injEq] at hk; subst hk; exact hkle
              | _ => simp [Value.isNumeric] at hnum
            · exact hv
          | diag => exact ⟨by simp, fun _ h => by cases h⟩
          | internal => exact absurd ho hni
          | diverged => exact ⟨by simp, fun _ h => by cases h⟩
        | _ => simp [Value.isAddrExpr] at hae
      · rw [if_neg hae]
        refine ⟨by simp, fun v' h => ?_⟩
        simp only [Outcome.ok.injEq] at h
        subst h
        split
        · exact hrg
        · exact hv
  · exact ⟨by simp, fun v' h => by cases h; exact hv⟩

/-- `evalSyms` raises no internal error, and the table it gives is good -/
theorem evalSyms_good {t : SymTab} (ht : SymTab.Good N t) : ∀ (x : SymTab), SymTab.Good N x →
    evalSyms ss t x ≠ .internal ∧ ∀ r, evalSyms ss t x = .ok r → SymTab.Good N r := by
  intro x
  induction x with
  | nil => intro _; exact ⟨by simp [evalSyms_nil], fun r h => by rw [evalSyms_nil] at h; cases h; intro kv hkv; cases hkv⟩
  | cons kv rest ih =>
    intro hx
    obtain ⟨k, v⟩ := kv
    obtain ⟨hni, hok⟩ := ih (fun y hy => hx y (by simp [hy]))
    obtain ⟨hni1, hok1⟩ := evalSym_good hlen haddr ht (hx (k, v) (by simp))
    rw [evalSyms_cons]
    cases h1 : evalSym ss t v with
    | ok v' =>
      dsimp only
      cases h2 : evalSyms ss t rest with
      | ok r' =>
        refine ⟨by simp, fun r h => ?_⟩
        simp only [Outcome.ok.injEq] at h
        subst h
        intro y hy
        rcases List.mem_cons.mp hy with rfl | hy
        · exact hok1 v' h1
        · exact hok r' h2 y hy
      | diag => exact ⟨by simp, fun _ h => by cases h⟩
      | internal => exact absurd h2 hni
      | diverged => exact ⟨by simp, fun _ h => by cases h⟩
    | diag => exact ⟨by simp, fun _ h => by cases h⟩
    | internal => exact absurd h1 hni1
    | diverged => exact ⟨by simp, fun _ h => by cases h⟩

end

/-- `fixAll` changes nothing but the `additional` field: the addresses stay 16-bit magnitudes -/
theorem fixAll_addr_good {ss l l' : List Stmt} {i : Nat} (h : fixAll ss i l = .ok l')
    (hl : ∀ s ∈ l, s.pkg.address.Good 0) : ∀ s ∈ l', s.pkg.address.Good 0 := by
  obtain ⟨hlen, hp⟩ := fixAll_ok h
  intro s' hs'
  obtain ⟨j, hj, rfl⟩ := List.mem_iff_getElem.mp hs'
  have hj' : j < l.length := by omega
  obtain ⟨s'', h1, h2⟩ := hp j l[j] (List.getElem?_eq_getElem hj')
  rw [List.getElem?_eq_getElem hj] at h1
  cases h1
  obtain ⟨v, hv⟩ := fixFit_same h2
  rw [hv]
  exact hl l[j] (List.getElem_mem hj')

/-! ### the back end -/

/-- **the back end raises no internal error** on statements that came out of the parser, however many there are
(before fix 9045646 this needed at most 65536 statements: a statement index could leak into an address
expression, see `Props/C13.lean`) -/
theorem back_ne_internal {ss0 : List Stmt} (hpar : ∀ s ∈ ss0, Parsed s) : back ss0 ≠ .internal := by
  unfold back
  cases h0 : buildSymTab ss0 0 [] with
  | none => simp
  | some t =>
    dsimp only
    cases h1 : resolveAll t ss0 with
    | none => simp
    | some ss1 =>
      dsimp only
      cases h2 : translateAll ss1 with
      | none => simp
      | some ss2 =>
        dsimp only
        obtain ⟨ht, hlen2, hall2⟩ := translated_good hpar h0 h1 h2
        obtain ⟨hni3, hok3⟩ := pcrLoop_good (ss2.length + 1) ss2 hlen2 hall2
        cases h3 : pcrLoop (ss2.length + 1) ss2 with
        | ok ss3 =>
          dsimp only
          obtain ⟨hlen3, hfix3, hall3⟩ := hok3 ss3 h3
          have hall3' : ∀ s ∈ ss3, StmtFix ss0.length s := fun s hs =>
            ⟨hall3 s hs, by simp only [allFixed, List.all_eq_true] at hfix3; exact hfix3 s hs⟩
          split
          · simp
          obtain ⟨hni4, hok4⟩ := assignAddrs_good ss3 0 hall3'
          cases h4 : assignAddrs ss3 0 with
          | ok ss4 =>
            dsimp only
            obtain ⟨hlen4, hall4⟩ := hok4 ss4 h4
            have hlen4' : ss4.length = ss0.length := by rw [hlen4, hlen3]
            have hni5 := fixAll_good hlen4' hall4 ss4 0 (fun j s h => by simpa using h)
            have hx5 : ∀ x, fixAll ss4 0 ss4 = .ok x → x.length = ss0.length ∧ ∀ s ∈ x, s.pkg.address.Good 0 :=
              fun x hx => ⟨by rw [(fixAll_ok hx).1, hlen4'], fixAll_addr_good hx (fun s hs => (hall4 s hs).1.addr)⟩
            have hni5' : fixAllL t ss4 ≠ .internal := fixAllL_ne_internal ht hni5 hx5
            cases h5 : fixAllL t ss4 with
            | ok ss5 =>
              dsimp only
              have hlen5 : ss5.length = ss0.length := by rw [fixAllL_length h5, hlen4']
              have haddr5 := fixAllL_addr_good h5 (fun x hx => (hx5 x hx).2)
              obtain ⟨hni6, hok6⟩ := evalSyms_good hlen5 haddr5 ht t ht
              cases h6 : evalSyms ss5 t t with
              | ok t1 =>
                dsimp only
                have hni7 := finalSymTab_good hlen5 t1 (hok6 t1 h6)
                cases h7 : finalSymTab ss5 t1 with
                | internal => exact absurd h7 hni7
                | _ => simp
              | diag => simp
              | internal => exact absurd h6 hni6
              | diverged => simp
            | diag => simp
            | internal => exact absurd h5 hni5'
            | diverged => simp
          | diag => simp
          | internal => exact absurd h4 hni4
          | diverged => simp
        | diag => simp
        | internal => exact absurd h3 hni3
        | diverged => simp

end CoCo.Asm
