/-
Lemmas/EncodeDecimal.lean — what `"{}".format(n)` prints for a natural number and what the decimal
branch of `NumericValue(str)` reads back (used by C04: `ExpressionValue.resolve` goes through the
STRING constructor).
-/
import CoCoVerif.Model.Values

namespace CoCo.Asm
open CoCo

/-- the decimal text of `n` as a character list -/
abbrev decStr (n : Nat) : Str := (toString n).toList

theorem decStr_eq (n : Nat) : decStr n = Nat.toDigits 10 n := by
  simp [decStr]

theorem decStr_ne_nil (n : Nat) : decStr n ≠ [] := by
  rw [decStr_eq]; exact Nat.toDigits_ne_nil

theorem isDigit_of_core {c : Char} (h : c.isDigit = true) : isDigit c = true := by
  simp only [Char.isDigit, Bool.and_eq_true, decide_eq_true_eq] at h
  simp only [isDigit, Bool.and_eq_true, decide_eq_true_eq]
  exact ⟨Char.le_def.mpr (by simpa using h.1), Char.le_def.mpr (by simpa using h.2)⟩

theorem decStr_mem_isDigit (n : Nat) : ∀ c ∈ decStr n, isDigit c = true := by
  intro c hc
  rw [decStr_eq] at hc
  exact isDigit_of_core (Nat.isDigit_of_mem_toDigits (by decide) (by decide) hc)

theorem decStr_all_isDigit (n : Nat) : (decStr n).all isDigit = true := by
  rw [List.all_eq_true]; exact decStr_mem_isDigit n

theorem digitVal_digitChar : ∀ d, d < 10 → digitVal (Nat.digitChar d) = d := by decide

theorem parseBase_append (b : Nat) (xs : Str) (c : Char) :
    parseBase b (xs ++ [c]) = parseBase b xs * b + digitVal c := by
  simp [parseBase, List.foldl_append]

theorem parseBase_toDigits (n : Nat) : parseBase 10 (Nat.toDigits 10 n) = n := by
  induction n using Nat.strongRecOn with
  | _ n ih =>
    by_cases h : n < 10
    · rw [Nat.toDigits_of_lt_base h]
      simp [parseBase, digitVal_digitChar n h]
    · rw [Nat.toDigits_of_base_le (by decide) (by omega), parseBase_append,
        ih (n / 10) (by omega), digitVal_digitChar _ (Nat.mod_lt _ (by decide))]
      omega

theorem parseBase_decStr (n : Nat) : parseBase 10 (decStr n) = n := by
  rw [decStr_eq]; exact parseBase_toDigits n

/-- the first character of the decimal text is a digit -/
theorem decStr_head (n : Nat) : ∃ c cs, decStr n = c :: cs ∧ isDigit c = true := by
  cases h : decStr n with
  | nil => exact absurd h (decStr_ne_nil n)
  | cons c cs => exact ⟨c, cs, rfl, decStr_mem_isDigit n c (by rw [h]; simp)⟩

theorem isDigit_ne_special {c : Char} (h : isDigit c = true) :
    c ≠ '-' ∧ c ≠ '%' ∧ c ≠ '$' ∧ c ≠ apos := by
  refine ⟨?_, ?_, ?_, ?_⟩ <;> (rintro rfl; revert h; decide)

/-- `NumericValue("{}".format(n), mode=m)` for a natural number: the decimal branch -/
theorem numericOfStr_decStr (n : Nat) (m : Mode) :
    numericOfStr (decStr n) none m =
      (if n > 65535 then .error .valueType
       else .ok (.numeric n (postInit n (initHint none m) m).1 (postInit n (initHint none m) m).2 false)) := by
  obtain ⟨c, cs, hcs, hc⟩ := decStr_head n
  obtain ⟨h1, h2, h3, h4⟩ := isDigit_ne_special hc
  have hall := decStr_all_isDigit n
  have hp := parseBase_decStr n
  rw [hcs] at hall hp ⊢
  unfold numericOfStr
  have hq : (c == apos) = false := by simp [h4]
  split
  case' h_1 q v hv =>
    have hqc : c = q := (List.cons.inj hv).1
    subst hqc
    simp only [hq, Bool.false_and, Bool.false_eq_true, if_false]
  all_goals
    split
    · rename_i heq; exact absurd (List.cons.inj heq).1 h2
    · rename_i heq; exact absurd (List.cons.inj heq).1 h3
    · rename_i heq; exact absurd (List.cons.inj heq).1 h1
    · simp only [hall, hp]
      simp

/-- `NumericValue("-{}".format(n), mode=m)`: the negative branch (no `postInit`, bound 32768) -/
theorem numericOfStr_neg_decStr (n : Nat) (m : Mode) :
    numericOfStr ('-' :: decStr n) none m =
      (if n > 32768 then .error .valueType else .ok (.numeric n (initHint none m) m true)) := by
  have hne := decStr_ne_nil n
  have hall := decStr_all_isDigit n
  have hp := parseBase_decStr n
  unfold numericOfStr
  have hq : ('-' == apos) = false := by decide
  split
  case' h_1 q v hv =>
    have hqc : '-' = q := (List.cons.inj hv).1
    subst hqc
    simp only [hq, Bool.false_and, Bool.false_eq_true, if_false]
  all_goals
    simp [hall, hp, hne]

end CoCo.Asm
