/-
Lemmas/EncodeClasses.lean — `translate` of every operand class computed symbolically, and the
encode/decode round trip per class, for a generic table row whose cells are known to the datasheet map.
-/
import CoCoVerif.Lemmas.EncodeDecode

namespace CoCo.Asm
open CoCo CoCo.Spec.MC6809
open CoCo.Gen (InstrRow)

theorem lookup_zero : lookup 0 = some ("NEG", .dir) := by decide +kernel

/-- only a direct-mode cell can hold opcode 0 -/
theorem cell_ne_zero {c : Nat} {op : String} {am : AM} (h : lookup c = some (op, am)) (ham : am ≠ .dir) : c ≠ 0 := by
  rintro rfl
  rw [lookup_zero] at h
  simp at h
  exact ham h.2.symm

theorem cell_lt {c : Nat} {x : String × AM} (h : lookup c = some x) : c < 65536 := by
  rcases lookup_shape h with h | h <;> omega

/-! ### inherent, immediate, direct, extended -/

theorem enc_inherent {o : Operand} {r : InstrRow} {c : Nat} (hk : o.kind = .inherent) (hc : r.inh = some c)
    (hl : lookup c = some (opOf r.mnemonic, .inh)) (hs : r.inhSz = opcodeLen c) : Encodes o r .none := by
  have h0 := cell_ne_zero hl (by decide)
  refine encodes_of (pb := []) hl (pkg := { opCode := opv c, size := r.inhSz, maxSize := r.inhSz })
    ?_ rfl rfl (by simp) rfl (by simp [hs]) (by simp [decodeTail])
  simp [translateOperand, hk, hc, h0, opVal_ok (cell_lt hl)]
  rfl

/-- what `translate` returns for an immediate operand: the value itself is the `additional` part -/
theorem translateOperand_imm {o : Operand} {r : InstrRow} {c : Nat} (hk : o.kind = .immediate) (hc : r.imm = some c)
    (h0 : c ≠ 0) (hc' : c < 65536) :
    translateOperand o r = .ok { opCode := opv c, additional := o.value, size := r.immSz, maxSize := r.immSz } := by
  simp [translateOperand, hk, hc, h0, opVal_ok hc']
  rfl

theorem translateOperand_dir {o : Operand} {r : InstrRow} {c : Nat} (hk : o.kind = .direct) (hc : r.dir = some c)
    (hc' : c < 65536) :
    translateOperand o r = .ok { opCode := opv c, additional := o.value, size := r.dirSz, maxSize := r.dirSz } := by
  simp [translateOperand, hk, hc, opVal_ok hc']
  rfl

theorem translateOperand_ext {o : Operand} {r : InstrRow} {c : Nat} (hk : o.kind = .extended) (hc : r.ext = some c)
    (h0 : c ≠ 0) (hc' : c < 65536) :
    translateOperand o r = .ok { opCode := opv c, additional := o.value, size := r.extSz, maxSize := r.extSz } := by
  simp [translateOperand, hk, hc, h0, opVal_ok hc']
  rfl

/-- immediate class, any cell mode: the operand value is fitted to the field `ad` -/
theorem enc_imm_gen {o : Operand} {r : InstrRow} {c : Nat} {am : AM} {ad : Bytes} {operand : Spec.MC6809.Operand}
    {n : Nat} {h : Option Nat} {m : Mode} {neg : Bool} (hp : r.isPseudo = false) (hsp : r.isSpecial = false)
    (hk : o.kind = .immediate) (hc : r.imm = some c) (hl : lookup c = some (opOf r.mnemonic, am)) (ham : am ≠ .dir)
    (hv : o.value = .numeric n h m neg) (hfit : FieldFit n neg ad) (hs : r.immSz = opcodeLen c + ad.length)
    (hdec : decodeTail (opOf r.mnemonic) am (opcodeLen c) ad = some (⟨opOf r.mnemonic, operand⟩, opcodeLen c + ad.length)) :
    Encodes o r operand := by
  have h0 := cell_ne_zero hl ham
  refine encodes_of_fit (pb := []) (ad := ad) hp hsp hl
    (pkg := { opCode := opv c, additional := o.value, size := r.immSz, maxSize := r.immSz })
    ?_ rfl rfl .none hv hfit (by simp [hs]) (by simpa using hdec)
  simp [translateOperand, hk, hc, h0, opVal_ok (cell_lt hl)]
  rfl

theorem enc_dir_gen {o : Operand} {r : InstrRow} {c : Nat} {ad : Bytes} {operand : Spec.MC6809.Operand}
    {n : Nat} {h : Option Nat} {m : Mode} {neg : Bool} (hp : r.isPseudo = false) (hsp : r.isSpecial = false)
    (hk : o.kind = .direct) (hc : r.dir = some c) (hl : lookup c = some (opOf r.mnemonic, .dir))
    (hv : o.value = .numeric n h m neg) (hfit : FieldFit n neg ad) (hs : r.dirSz = opcodeLen c + ad.length)
    (hdec : decodeTail (opOf r.mnemonic) .dir (opcodeLen c) ad = some (⟨opOf r.mnemonic, operand⟩, opcodeLen c + ad.length)) :
    Encodes o r operand := by
  refine encodes_of_fit (pb := []) (ad := ad) hp hsp hl
    (pkg := { opCode := opv c, additional := o.value, size := r.dirSz, maxSize := r.dirSz })
    ?_ rfl rfl .none hv hfit (by simp [hs]) (by simpa using hdec)
  simp [translateOperand, hk, hc, opVal_ok (cell_lt hl)]
  rfl

theorem enc_ext_gen {o : Operand} {r : InstrRow} {c : Nat} {ad : Bytes} {operand : Spec.MC6809.Operand}
    {n : Nat} {h : Option Nat} {m : Mode} {neg : Bool} (hp : r.isPseudo = false) (hsp : r.isSpecial = false)
    (hk : o.kind = .extended) (hc : r.ext = some c) (hl : lookup c = some (opOf r.mnemonic, .ext))
    (hv : o.value = .numeric n h m neg) (hfit : FieldFit n neg ad) (hs : r.extSz = opcodeLen c + ad.length)
    (hdec : decodeTail (opOf r.mnemonic) .ext (opcodeLen c) ad = some (⟨opOf r.mnemonic, operand⟩, opcodeLen c + ad.length)) :
    Encodes o r operand := by
  have h0 := cell_ne_zero hl (by decide)
  refine encodes_of_fit (pb := []) (ad := ad) hp hsp hl
    (pkg := { opCode := opv c, additional := o.value, size := r.extSz, maxSize := r.extSz })
    ?_ rfl rfl .none hv hfit (by simp [hs]) (by simpa using hdec)
  simp [translateOperand, hk, hc, h0, opVal_ok (cell_lt hl)]
  rfl

theorem hi_lo (v : Nat) : v / 256 * 256 + v % 256 = v := by omega

/-- 8-bit immediate, every value −128..255 whatever its spelling: the two's complement byte -/
theorem enc_imm8_field {o : Operand} {r : InstrRow} {c n : Nat} {h : Option Nat} {m : Mode} {neg : Bool}
    (hp : r.isPseudo = false) (hsp : r.isSpecial = false)
    (hk : o.kind = .immediate) (hc : r.imm = some c) (hl : lookup c = some (opOf r.mnemonic, .imm8))
    (hs : r.immSz = opcodeLen c + 1) (hv : o.value = .numeric n h m neg) (hf : fitsByte n neg = true) :
    Encodes o r (.imm 8 (byteField n neg)) :=
  enc_imm_gen (ad := [byteField n neg]) hp hsp hk hc hl (by decide) hv (.byte hf) (by simpa using hs)
    (by simp [decodeTail])

/-- 16-bit immediate, every value −32768..65535 whatever its spelling -/
theorem enc_imm16_field {o : Operand} {r : InstrRow} {c n : Nat} {h : Option Nat} {m : Mode} {neg : Bool}
    (hp : r.isPseudo = false) (hsp : r.isSpecial = false)
    (hk : o.kind = .immediate) (hc : r.imm = some c) (hl : lookup c = some (opOf r.mnemonic, .imm16))
    (hs : r.immSz = opcodeLen c + 2) (hv : o.value = .numeric n h m neg) (hf : fitsWord n neg = true) :
    Encodes o r (.imm 16 (wordField n neg)) :=
  enc_imm_gen (ad := [wordField n neg / 256, wordField n neg % 256]) hp hsp hk hc hl (by decide) hv (.word hf)
    (by simpa using hs) (by simp [decodeTail, hi_lo])

theorem enc_imm8 {o : Operand} {r : InstrRow} {c v : Nat} {h : Option Nat} {m : Mode}
    (hp : r.isPseudo = false) (hsp : r.isSpecial = false)
    (hk : o.kind = .immediate) (hc : r.imm = some c) (hl : lookup c = some (opOf r.mnemonic, .imm8))
    (hs : r.immSz = opcodeLen c + 1) (hv : o.value = .numeric v h m false) (hv8 : v < 256) : Encodes o r (.imm 8 v) := by
  have := enc_imm8_field hp hsp hk hc hl hs hv (by simp [fitsByte]; omega)
  simpa [byteField] using this

theorem enc_imm8_neg {o : Operand} {r : InstrRow} {c i : Nat} {h : Option Nat} {m : Mode}
    (hp : r.isPseudo = false) (hsp : r.isSpecial = false)
    (hk : o.kind = .immediate) (hc : r.imm = some c) (hl : lookup c = some (opOf r.mnemonic, .imm8))
    (hs : r.immSz = opcodeLen c + 1) (hv : o.value = .numeric i h m true) (h1 : 1 ≤ i) (h2 : i ≤ 128) :
    Encodes o r (.imm 8 (256 - i)) := by
  have := enc_imm8_field hp hsp hk hc hl hs hv (by simp [fitsByte]; omega)
  have e : byteField i true = 256 - i := by simp only [byteField, if_true]; omega
  rwa [e] at this

theorem enc_imm16 {o : Operand} {r : InstrRow} {c v : Nat} {h : Option Nat} {m : Mode}
    (hp : r.isPseudo = false) (hsp : r.isSpecial = false)
    (hk : o.kind = .immediate) (hc : r.imm = some c) (hl : lookup c = some (opOf r.mnemonic, .imm16))
    (hs : r.immSz = opcodeLen c + 2) (hv : o.value = .numeric v h m false) (hv16 : v < 65536) :
    Encodes o r (.imm 16 v) := by
  have := enc_imm16_field hp hsp hk hc hl hs hv (by simp [fitsWord]; omega)
  simpa [wordField] using this

theorem enc_imm16_neg {o : Operand} {r : InstrRow} {c i : Nat} {h : Option Nat} {m : Mode}
    (hp : r.isPseudo = false) (hsp : r.isSpecial = false)
    (hk : o.kind = .immediate) (hc : r.imm = some c) (hl : lookup c = some (opOf r.mnemonic, .imm16))
    (hs : r.immSz = opcodeLen c + 2) (hv : o.value = .numeric i h m true) (h1 : 1 ≤ i) (h2 : i ≤ 32768) :
    Encodes o r (.imm 16 (65536 - i)) := by
  have := enc_imm16_field hp hsp hk hc hl hs hv (by simp [fitsWord]; omega)
  have e : wordField i true = 65536 - i := by simp only [wordField, if_true]; omega
  rwa [e] at this

theorem enc_direct {o : Operand} {r : InstrRow} {c v : Nat} {h : Option Nat} {m : Mode}
    (hp : r.isPseudo = false) (hsp : r.isSpecial = false)
    (hk : o.kind = .direct) (hc : r.dir = some c) (hl : lookup c = some (opOf r.mnemonic, .dir))
    (hs : r.dirSz = opcodeLen c + 1) (hv : o.value = .numeric v h m false) (hv8 : v < 256) :
    Encodes o r (.dir v) := by
  have hf : fitsByte v false = true := by simp [fitsByte]; omega
  have := enc_dir_gen (ad := [byteField v false]) (operand := .dir v) hp hsp hk hc hl hv (.byte hf) (by simpa using hs)
    (by simp [decodeTail, byteField])
  exact this

theorem enc_extended {o : Operand} {r : InstrRow} {c v : Nat} {h : Option Nat} {m : Mode}
    (hp : r.isPseudo = false) (hsp : r.isSpecial = false)
    (hk : o.kind = .extended) (hc : r.ext = some c) (hl : lookup c = some (opOf r.mnemonic, .ext))
    (hs : r.extSz = opcodeLen c + 2) (hv : o.value = .numeric v h m false) (hv16 : v < 65536) : Encodes o r (.ext v) := by
  have hf : fitsWord v false = true := by simp [fitsWord]; omega
  exact enc_ext_gen (ad := [wordField v false / 256, wordField v false % 256]) (operand := .ext v) hp hsp hk hc hl hv
    (.word hf) (by simpa using hs) (by simp [decodeTail, hi_lo, wordField])

/-! ### indexed: the generic assembly steps -/

/-- an indexed-mode package without additional bytes: post byte `p` -/
theorem enc_idx_gen {o : Operand} {r : InstrRow} {c p : Nat} {pkg : Pkg} {i : Idx}
    (hl : lookup c = some (opOf r.mnemonic, .idx))
    (ht : translateOperand o r = .ok pkg)
    (hnr : pkg.needsRes = false)
    (hop : pkg.opCode = opv c)
    (hpb : pkg.postByte = .numeric p (some 2) .direct false) (hp : p < 256)
    (had : pkg.additional = .none)
    (hsz : pkg.size = opcodeLen c + 1)
    (hdec : decodePostByte [p] = some (i, 1)) :
    Encodes o r (.idx i) := by
  refine encodes_of (pb := [p]) hl ht hnr hop (by rw [hpb]; exact emit_hint2 _ hp) had (by simpa using hsz) ?_
  simp [decodeTail, hdec]

/-- an indexed-mode package with a numeric field after post byte `p` -/
theorem enc_idx_fit {o : Operand} {r : InstrRow} {c p : Nat} {pkg : Pkg} {ad : Bytes} {i : Idx}
    {n : Nat} {h : Option Nat} {m : Mode} {neg : Bool} (hpr : r.isPseudo = false) (hsp : r.isSpecial = false)
    (hl : lookup c = some (opOf r.mnemonic, .idx))
    (ht : translateOperand o r = .ok pkg)
    (hnr : pkg.needsRes = false)
    (hop : pkg.opCode = opv c)
    (hpb : pkg.postByte = .numeric p (some 2) .direct false) (hp : p < 256)
    (had : pkg.additional = .numeric n h m neg) (hfit : FieldFit n neg ad)
    (hsz : pkg.size = opcodeLen c + 1 + ad.length)
    (hdec : decodePostByte (p :: ad) = some (i, 1 + ad.length)) :
    Encodes o r (.idx i) := by
  refine encodes_of_fit (pb := [p]) (ad := ad) hpr hsp hl ht hnr hop (by rw [hpb]; exact .byte hp) had hfit
    (by simpa using hsz) ?_
  simp [decodeTail, hdec, Nat.add_assoc]

/-! ### `[address]` -/

theorem translateExtInd_numeric {o : Operand} {r : InstrRow} {c : Nat}
    (hc : r.ind = some c) (h0 : c ≠ 0) (hc' : c < 65536) (hn : o.value.isNumeric = true) :
    translateExtIndirect o r =
      .ok { opCode := opv c, postByte := .numeric 0x9F (some 2) .direct false, additional := o.value,
            size := r.indSz + 2, maxSize := r.indSz + 2 } := by
  have h9 := numV_byte (show 0x9F < 256 by omega)
  simp [translateExtIndirect, hc, h0, opVal_ok hc', hn, h9]
  rfl

/-- `[address]`, every address 0..65535 whatever its spelling: always two address bytes -/
theorem enc_extInd {o : Operand} {r : InstrRow} {c v : Nat} {h : Option Nat} {m : Mode}
    (hp : r.isPseudo = false) (hsp : r.isSpecial = false)
    (hk : o.kind = .extIndirect) (hc : r.ind = some c) (hl : lookup c = some (opOf r.mnemonic, .idx))
    (hs : r.indSz = opcodeLen c + 1) (hv : o.value = .numeric v h m false) (hv16 : v < 65536) :
    Encodes o r (.idx (.extInd v)) := by
  have h0 := cell_ne_zero hl (by decide)
  have ht := translateExtInd_numeric hc h0 (cell_lt hl) (o := o) (by rw [hv]; rfl)
  have ht' : translateOperand o r = translateExtIndirect o r := by simp [translateOperand, hk]
  rw [ht] at ht'
  have hf : fitsWord v false = true := by simp [fitsWord]; omega
  have hdec : decodePostByte [0x9F, v / 256, v % 256] = some (.extInd v, 3) := by
    simp [decodePostByte_cons, hi_lo]
  exact enc_idx_fit (p := 0x9F) (ad := [wordField v false / 256, wordField v false % 256]) hp hsp hl ht' rfl rfl rfl
    (by omega) hv (.word hf) (by simp [hs]) (by simpa [wordField] using hdec)

/-! ### indexed without offset -/

/-- the post byte `IndexedOperand.translate` computes for an empty left-hand side -/
def noOffPost (right : Str) : Nat :=
  let raw := regBits right ||| 0x80
  if hasSub ['-'] right || hasSub ['+'] right then
    let raw := if hasSub (str "++") right then raw ||| 0x01 else raw
    let raw := if hasSub ['-'] right then raw ||| 0x02 else raw
    if hasSub (str "--") right then raw ||| 0x03 else raw
  else raw ||| 0x04

theorem translateIndexed_noOff {o : Operand} {r : InstrRow} {c : Nat} {right : Str}
    (hc : r.ind = some c) (h0 : c ≠ 0) (hc' : c < 65536) (hl : o.left = .text []) (hr : o.right = some right)
    (hvr : validIndexReg right = true) (hpc : (right == str "PCR") = false)
    (hp : noOffPost right < 256) :
    translateIndexed o r = .ok { opCode := opv c, postByte := .numeric (noOffPost right) (some 2) .direct false,
                                 size := r.indSz, maxSize := r.indSz } := by
  have hn := numV_byte hp
  unfold noOffPost at hn hp ⊢
  have hpc' : ¬ right = str "PCR" := by simpa using hpc
  simp only [translateIndexed, hc, hl, hr, opVal_ok hc']
  cases a : hasSub ['-'] right <;> cases b : hasSub ['+'] right <;> cases d : hasSub (str "++") right <;>
    cases e : hasSub (str "--") right <;> simp [a, b, d, e, h0, hvr, hpc'] at hn ⊢ <;> simp [hn] <;> rfl

theorem enc_indexed_noOff {o : Operand} {r : InstrRow} {c : Nat} {right : Str} {i : Idx}
    (hk : o.kind = .indexed) (hc : r.ind = some c) (hl : lookup c = some (opOf r.mnemonic, .idx))
    (hs : r.indSz = opcodeLen c + 1) (hle : o.left = .text []) (hr : o.right = some right)
    (hvr : validIndexReg right = true) (hpc : (right == str "PCR") = false)
    (hp : noOffPost right < 256) (hdec : decodePostByte [noOffPost right] = some (i, 1)) :
    Encodes o r (.idx i) := by
  have h0 := cell_ne_zero hl (by decide)
  have ht := translateIndexed_noOff hc h0 (cell_lt hl) hle hr hvr hpc hp
  exact enc_idx_gen hl (by simpa [translateOperand, hk] using ht) rfl rfl rfl hp rfl (by simp [hs]) hdec

/-- the post byte `ExtendedIndexedOperand.translate` computes for `[,R]`, `[,R++]`, `[,--R]` -/
def extNoOffPost (right : Str) : Nat :=
  let raw := 0x80 ||| regBits right
  if hasSub ['-'] right || hasSub ['+'] right then
    let raw := if hasSub (str "++") right then raw ||| 0x11 else raw
    if hasSub (str "--") right then raw ||| 0x13 else raw
  else raw ||| 0x14

/-- `[,R+]` and `[,-R]` -/
def badIndirect (right : Str) : Bool :=
  right == str "X+" || right == str "Y+" || right == str "U+" || right == str "S+" ||
  right == str "-X" || right == str "-Y" || right == str "-U" || right == str "-S"

theorem translateExtInd_noOff {o : Operand} {r : InstrRow} {c : Nat} {right : Str}
    (hc : r.ind = some c) (h0 : c ≠ 0) (hc' : c < 65536) (hna : o.value.isAddress = false)
    (hne : o.value.isAddrExpr = false) (hnn : o.value.isNumeric = false) (hl : o.left = .text []) (hr : o.right = some right)
    (hvr : validIndexReg right = true) (hpc : (right == str "PCR") = false)
    (hbad : badIndirect right = false) (hp : extNoOffPost right < 256) :
    translateExtIndirect o r = .ok { opCode := opv c, postByte := .numeric (extNoOffPost right) (some 2) .direct false,
                                     size := r.indSz, maxSize := r.indSz } := by
  have hn := numV_byte hp
  unfold extNoOffPost at hn hp ⊢
  simp only [badIndirect, Bool.or_eq_false_iff, beq_eq_false_iff_ne] at hbad
  obtain ⟨⟨⟨⟨⟨⟨⟨b1, b2⟩, b3⟩, b4⟩, b5⟩, b6⟩, b7⟩, b8⟩ := hbad
  have hpc' : ¬ right = str "PCR" := by simpa using hpc
  simp only [translateExtIndirect, hc, hl, hr, opVal_ok hc', hna, hne, hnn]
  cases a : hasSub ['-'] right <;> cases b : hasSub ['+'] right <;> cases d : hasSub (str "++") right <;>
    cases e : hasSub (str "--") right <;> simp [a, b, d, e, h0, b1, b2, b3, b4, b5, b6, b7, b8, hvr, hpc'] at hn ⊢ <;>
    simp [hn] <;> rfl

theorem translateExtInd_bad {o : Operand} {r : InstrRow} {c : Nat} {right : Str}
    (hc : r.ind = some c) (h0 : c ≠ 0) (hc' : c < 65536) (hna : o.value.isAddress = false)
    (hne : o.value.isAddrExpr = false) (hnn : o.value.isNumeric = false) (hl : o.left = .text []) (hr : o.right = some right)
    (hvr : validIndexReg right = true) (hpc : (right == str "PCR") = false)
    (hpm : (hasSub ['-'] right || hasSub ['+'] right) = true) (hbad : badIndirect right = true) :
    translateExtIndirect o r = .error .operandType := by
  simp only [badIndirect, Bool.or_eq_true, beq_iff_eq] at hbad
  simp only [Bool.or_eq_true] at hpm
  simp only [translateExtIndirect, hc, hl, hr, opVal_ok hc', hna, hne, hnn]
  rcases hbad with ((((((hb | hb) | hb) | hb) | hb) | hb) | hb) | hb <;> subst hb <;> simp [h0, validIndexReg, isXYUS, str] <;> rfl

theorem enc_extInd_noOff {o : Operand} {r : InstrRow} {c : Nat} {right : Str} {i : Idx}
    (hk : o.kind = .extIndirect) (hc : r.ind = some c) (hl : lookup c = some (opOf r.mnemonic, .idx))
    (hs : r.indSz = opcodeLen c + 1) (hna : o.value.isAddress = false) (hne : o.value.isAddrExpr = false)
    (hnn : o.value.isNumeric = false)
    (hle : o.left = .text []) (hr : o.right = some right)
    (hvr : validIndexReg right = true) (hpc : (right == str "PCR") = false) (hbad : badIndirect right = false)
    (hp : extNoOffPost right < 256) (hdec : decodePostByte [extNoOffPost right] = some (i, 1)) :
    Encodes o r (.idx i) := by
  have h0 := cell_ne_zero hl (by decide)
  have ht := translateExtInd_noOff hc h0 (cell_lt hl) hna hne hnn hle hr hvr hpc hbad hp
  exact enc_idx_gen hl (by simpa [translateOperand, hk] using ht) rfl rfl rfl hp rfl (by simp [hs]) hdec

/-! ### accumulator offsets -/

def accCode (l : Str) : Nat := if l == ['A'] then 0x06 else if l == ['B'] then 0x05 else 0x0B

theorem translateIndexed_acc {o : Operand} {r : InstrRow} {c : Nat} {l right : Str}
    (hc : r.ind = some c) (h0 : c ≠ 0) (hc' : c < 65536) (hl : o.left = .text l) (habd : isABD l = true)
    (hr : o.right = some right) (hvr : validIndexReg right = true) (hpc : (right == str "PCR") = false)
    (hpm : (hasSub ['+'] right || hasSub ['-'] right) = false)
    (hp : regBits right ||| 0x80 ||| accCode l < 256) :
    translateIndexed o r = .ok { opCode := opv c, postByte := .numeric (regBits right ||| 0x80 ||| accCode l) (some 2) .direct false,
                                 size := r.indSz, maxSize := r.indSz } := by
  have hn := numV_byte hp
  have hpc' : ¬ right = str "PCR" := by simpa using hpc
  simp only [Bool.or_eq_false_iff] at hpm
  simp only [isABD, Bool.or_eq_true, beq_iff_eq] at habd
  rcases habd with (rfl | rfl) | rfl <;>
    simp [translateIndexed, hc, h0, hl, hr, opVal_ok hc', isABD, accCode, hvr, hpc', hpm.1, hpm.2] at hn ⊢ <;> simp [hn] <;> rfl

theorem enc_indexed_acc {o : Operand} {r : InstrRow} {c : Nat} {l right : Str} {i : Idx}
    (hk : o.kind = .indexed) (hc : r.ind = some c) (hlk : lookup c = some (opOf r.mnemonic, .idx))
    (hs : r.indSz = opcodeLen c + 1) (hl : o.left = .text l) (habd : isABD l = true) (hr : o.right = some right)
    (hvr : validIndexReg right = true) (hpc : (right == str "PCR") = false)
    (hpm : (hasSub ['+'] right || hasSub ['-'] right) = false)
    (hp : regBits right ||| 0x80 ||| accCode l < 256)
    (hdec : decodePostByte [regBits right ||| 0x80 ||| accCode l] = some (i, 1)) :
    Encodes o r (.idx i) := by
  have h0 := cell_ne_zero hlk (by decide)
  have ht := translateIndexed_acc hc h0 (cell_lt hlk) hl habd hr hvr hpc hpm hp
  exact enc_idx_gen hlk (by simpa [translateOperand, hk] using ht) rfl rfl rfl hp rfl (by simp [hs]) hdec

def accCodeInd (l : Str) : Nat := if l == ['A'] then 0x16 else if l == ['B'] then 0x15 else 0x1B

theorem translateExtInd_acc {o : Operand} {r : InstrRow} {c : Nat} {l right : Str}
    (hc : r.ind = some c) (h0 : c ≠ 0) (hc' : c < 65536) (hna : o.value.isAddress = false)
    (hne : o.value.isAddrExpr = false) (hnn : o.value.isNumeric = false) (hl : o.left = .text l) (habd : isABD l = true)
    (hr : o.right = some right) (hvr : validIndexReg right = true) (hpc : (right == str "PCR") = false)
    (hpm : (hasSub ['+'] right || hasSub ['-'] right) = false)
    (hp : 0x80 ||| regBits right ||| accCodeInd l < 256) :
    translateExtIndirect o r = .ok { opCode := opv c, postByte := .numeric (0x80 ||| regBits right ||| accCodeInd l) (some 2) .direct false,
                                     size := r.indSz, maxSize := r.indSz } := by
  have hn := numV_byte hp
  have hpc' : ¬ right = str "PCR" := by simpa using hpc
  simp only [Bool.or_eq_false_iff] at hpm
  simp only [isABD, Bool.or_eq_true, beq_iff_eq] at habd
  rcases habd with (rfl | rfl) | rfl <;>
    simp [translateExtIndirect, hc, h0, hl, hr, opVal_ok hc', isABD, accCodeInd, hna, hne, hnn, hvr, hpc', hpm.1, hpm.2] at hn ⊢ <;>
    simp [hn] <;> rfl

theorem enc_extInd_acc {o : Operand} {r : InstrRow} {c : Nat} {l right : Str} {i : Idx}
    (hk : o.kind = .extIndirect) (hc : r.ind = some c) (hlk : lookup c = some (opOf r.mnemonic, .idx))
    (hs : r.indSz = opcodeLen c + 1) (hna : o.value.isAddress = false) (hne : o.value.isAddrExpr = false)
    (hnn : o.value.isNumeric = false)
    (hl : o.left = .text l) (habd : isABD l = true) (hr : o.right = some right)
    (hvr : validIndexReg right = true) (hpc : (right == str "PCR") = false)
    (hpm : (hasSub ['+'] right || hasSub ['-'] right) = false)
    (hp : 0x80 ||| regBits right ||| accCodeInd l < 256)
    (hdec : decodePostByte [0x80 ||| regBits right ||| accCodeInd l] = some (i, 1)) :
    Encodes o r (.idx i) := by
  have h0 := cell_ne_zero hlk (by decide)
  have ht := translateExtInd_acc hc h0 (cell_lt hlk) hna hne hnn hl habd hr hvr hpc hpm hp
  exact enc_idx_gen hlk (by simpa [translateOperand, hk] using ht) rfl rfl rfl hp rfl (by simp [hs]) hdec

end CoCo.Asm
