/-
Lemmas/EncodeShape.lean — the SHAPE of what the front end builds: which values `Value.create_from_str` returns
(`CreatedShape`), what they resolve to against a table of EQU constants (numbers), and, from that, the shape of every
operand `createOperand` + `resolveOperand` produce for a machine-instruction row (`frontEnd_shape`).  Used by the
soundness theorem C12 (Props/C12Full.lean).
-/
import CoCoVerif.Lemmas.EncodeData
import CoCoVerif.Model.Operands
import CoCoVerif.Lemmas.EncodeResolve

namespace CoCo.Asm
open CoCo.Gen (InstrRow)

theorem shape_numericOfInt_isNumeric {v : Int} {h : Option Nat} {m : Mode} {x : Value}
    (hx : numericOfInt v h m = .ok x) : x.isNumeric = true := by
  unfold numericOfInt at hx
  split at hx
  · cases hx
  · simp only [Except.ok.injEq] at hx; subst hx; rfl

theorem shape_numericOfStr_isNumeric {s : Str} {h : Option Nat} {m : Mode} {x : Value}
    (hx : numericOfStr s h m = .ok x) : x.isNumeric = true := by
  unfold numericOfStr at hx
  dsimp only at hx
  split at hx
  · rename_i heq
    simp only [Except.ok.injEq] at hx
    subst hx
    split at heq
    · split at heq
      · simp only [Option.some.injEq] at heq; subst heq; rfl
      · cases heq
    · cases heq
  · repeat' split at hx
    all_goals first | (cases hx; done) | (cases hx; rfl)

/-- the shapes `Value.create_from_str` builds: a number, a symbol, a `left,right` pair, a string, or an expression
whose operands are not labels -/
def CreatedShape : Value → Prop
  | .numeric .. | .symbol .. | .leftRight .. | .str _ => True
  | .expr l r _ _ false => l.isAddress = false ∧ r.isAddress = false
  | _ => False

theorem CreatedShape.notAddr {v : Value} (h : CreatedShape v) : v.isAddress = false := by
  cases v <;> first | rfl | exact absurd h (by simp [CreatedShape])

theorem numeric_created {x : Value} (h : x.isNumeric = true) : CreatedShape x := by
  cases x <;> simp_all [Value.isNumeric, CreatedShape]

theorem create_createdShape : ∀ (fuel : Nat) (s : Str) (a b c : Bool) (v : Value),
    create fuel s a b c = .ok v → CreatedShape v := by
  intro fuel
  induction fuel with
  | zero => intro s a b c v h; simp [create] at h
  | succ n ih =>
    intro s a b c v h
    unfold create at h
    split at h
    · cases h
    · dsimp only at h
      split at h
      · rename_i heq
        simp only [Except.ok.injEq] at h; subst h
        split at heq
        · simp only [Option.some.injEq] at heq; subst heq; trivial
        · cases heq
      · split at h
        · rename_i heq
          simp only [Except.ok.injEq] at h; subst h
          repeat' split at heq
          all_goals first
            | (cases heq; done)
            | (cases heq; exact ⟨(ih _ _ _ _ _ ‹_›).notAddr, (ih _ _ _ _ _ ‹_›).notAddr⟩)
        · split at h
          · rename_i heq
            simp only [Except.ok.injEq] at h; subst h
            repeat' split at heq
            all_goals first | (cases heq; done) | (cases heq; trivial)
          · repeat' split at h
            all_goals first
              | (cases h; done)
              | (cases h; trivial)
              | (simp only [Except.ok.injEq] at h; subst h; exact numeric_created (shape_numericOfStr_isNumeric ‹_›))


def Value.isStrV : Value → Bool | .str _ => true | _ => false

/-- without `is_string_define` no string value is built -/
theorem create_notStr : ∀ (fuel : Nat) (s : Str) (b c : Bool) (v : Value),
    create fuel s false b c = .ok v → v.isStrV = false := by
  intro fuel
  cases fuel with
  | zero => intro s b c v h; simp [create] at h
  | succ n =>
    intro s b c v h
    unfold create at h
    split at h
    · cases h
    · dsimp only at h
      split at h
      · rename_i heq
        simp at heq
      · split at h
        · rename_i heq
          simp only [Except.ok.injEq] at h; subst h
          repeat' split at heq
          all_goals first | (cases heq; done) | (cases heq; rfl)
        · split at h
          · rename_i heq
            simp only [Except.ok.injEq] at h; subst h
            repeat' split at heq
            all_goals first | (cases heq; done) | (cases heq; rfl)
          · repeat' split at h
            all_goals first
              | (cases h; done)
              | (cases h; rfl)
              | (simp only [Except.ok.injEq] at h
                 have hnum := shape_numericOfStr_isNumeric ‹_›
                 rw [h] at hnum
                 cases v <;> simp_all [Value.isNumeric, Value.isStrV])

/-! ### `splitOn`: the parts do not contain the separator, and joining them gives the string back -/

theorem splitOn_parts_noSep (c : Char) (s : Str) : ∀ p ∈ splitOn c s, c ∉ p := by
  induction s with
  | nil => simp [splitOn]
  | cons ch s ih =>
    by_cases hc : ch = c
    · subst hc
      rw [splitOn_cons_sep]
      intro p hp
      rcases List.mem_cons.mp hp with rfl | hp
      · simp
      · exact ih p hp
    · cases hs : splitOn c s with
      | nil => exact absurd hs (splitOn_ne_nil c s)
      | cons a t =>
        rw [splitOn_cons_ne c ch s hc a t hs]
        rw [hs] at ih
        intro p hp
        rcases List.mem_cons.mp hp with rfl | hp
        · intro hm
          rcases List.mem_cons.mp hm with h | h
          · exact hc h.symm
          · exact ih a (by simp) h
        · exact ih p (by simp [hp])

theorem joinWith_splitOn (c : Char) (s : Str) : joinWith c (splitOn c s) = s := by
  induction s with
  | nil => simp [splitOn, joinWith]
  | cons ch s ih =>
    by_cases hc : ch = c
    · subst hc
      rw [splitOn_cons_sep]
      cases hs : splitOn ch s with
      | nil => exact absurd hs (splitOn_ne_nil ch s)
      | cons a t => rw [hs] at ih; simp [joinWith, ih]
    · cases hs : splitOn c s with
      | nil => exact absurd hs (splitOn_ne_nil c s)
      | cons a t =>
        rw [splitOn_cons_ne c ch s hc a t hs]
        rw [hs] at ih
        cases t with
        | nil => simp only [joinWith] at ih ⊢; rw [ih]
        | cons b t => simp only [joinWith, List.cons_append] at ih ⊢; rw [ih]

theorem splitOn_pair_noSep (X l r : Str) (h : splitOn ',' X = [l, r]) : ',' ∉ l ∧ ',' ∉ r := by
  have := splitOn_parts_noSep ',' X
  rw [h] at this
  exact ⟨this _ (by simp), this _ (by simp)⟩

/-- the two sides of a `left,right` value contain no comma -/
theorem create_leftRight_noComma : ∀ (fuel : Nat) (s : Str) (a b c : Bool) (l r : Str) (m : Mode),
    create fuel s a b c = .ok (.leftRight l r m) → ',' ∉ l ∧ ',' ∉ r := by
  intro fuel
  cases fuel with
  | zero => intro s a b c l r m h; simp [create] at h
  | succ n =>
    intro s a b c l r m h
    unfold create at h
    split at h
    · cases h
    · dsimp only at h
      split at h
      · rename_i heq
        simp only [Except.ok.injEq] at h; subst h
        split at heq
        · cases heq
        · cases heq
      · split at h
        · rename_i heq
          simp only [Except.ok.injEq] at h; subst h
          repeat' split at heq
          all_goals first | (cases heq; done)
        · split at h
          · rename_i heq
            simp only [Except.ok.injEq] at h; subst h
            repeat' split at heq
            all_goals first
              | (cases heq; done)
              | (simp only [Option.some.injEq, Value.leftRight.injEq] at heq
                 obtain ⟨e1, e2, _⟩ := heq
                 rw [← e1, ← e2]
                 exact splitOn_pair_noSep _ _ _ ‹_›)
          · repeat' split at h
            all_goals first
              | (cases h; done)
              | (simp only [Except.ok.injEq] at h
                 have := shape_numericOfStr_isNumeric ‹_›
                 rw [h] at this; cases this)


/-- a `left,right` value is only built from a text with a comma -/
theorem create_leftRight_comma : ∀ (fuel : Nat) (s : Str) (a b c : Bool) (l r : Str) (m : Mode),
    create fuel s a b c = .ok (.leftRight l r m) → ',' ∈ s := by
  intro fuel
  cases fuel with
  | zero => intro s a b c l r m h; simp [create] at h
  | succ n =>
    intro s a b c l r m h
    unfold create at h
    split at h
    · cases h
    · dsimp only at h
      split at h
      · rename_i heq
        simp only [Except.ok.injEq] at h; subst h
        split at heq
        · cases heq
        · cases heq
      · split at h
        · rename_i heq
          simp only [Except.ok.injEq] at h; subst h
          repeat' split at heq
          all_goals first | (cases heq; done)
        · split at h
          · rename_i heq
            simp only [Except.ok.injEq] at h; subst h
            repeat' split at heq
            all_goals first
              | (cases heq; done)
              | (simp_all)
          · repeat' split at h
            all_goals first
              | (cases h; done)
              | (simp only [Except.ok.injEq] at h
                 have := shape_numericOfStr_isNumeric ‹_›
                 rw [h] at this; cases this)


/-! ### resolving against a table of constants -/

/-- a symbol table of EQU constants only (no labels) -/
def ConstTable (t : SymTab) : Prop := ∀ e ∈ t, e.2.isNumeric = true

theorem ConstTable.get {t : SymTab} (ht : ConstTable t) {k : Str} {s : Value} (h : t.get? k = some s) :
    s.isNumeric = true := by
  simp only [SymTab.get?, Option.map_eq_some_iff] at h
  obtain ⟨e, he, rfl⟩ := h
  exact ht e (List.mem_of_find?_eq_some he)

/-- the operand lookup inside `ExpressionValue.resolve` -/
def lookSym (t : SymTab) (x : Value) : R Value :=
  match x with
  | .symbol name _ => (match t.get? name with | some s => .ok s | Option.none => .error .other)
  | x => .ok x

theorem ConstTable.notExpr {t : SymTab} (ht : ConstTable t) {k : Str} {s : Value} (h : t.get? k = some s) :
    s.isExpression = false := by
  have := ht.get h
  cases s <;> simp_all [Value.isNumeric, Value.isExpression]

/-- a table of constants holds no EQU expression: the lookup is the plain one (as before fix 0f280be) -/
theorem getSymF_const {t : SymTab} (ht : ConstTable t) (n : Nat) (name : Str) :
    getSymF n t name = (match t.get? name with | some s => .ok s | Option.none => .error .other) := by
  cases hg : t.get? name with
  | none => rw [getSymF_none hg]
  | some s => rw [getSymF_plain hg (ht.notExpr hg)]

theorem lookStep_const {t : SymTab} (ht : ConstTable t) (n : Nat) (x : Value) :
    lookStep (getSymF n t) x = lookSym t x := by
  cases x <;> first | rfl | exact getSymF_const ht n _

theorem mapErr_ok {x : R Value} {v : Value}
    (h : (match x with | .ok nv => (.ok nv : R Value) | .error _ => .error .other) = .ok v) : x = .ok v := by
  cases x with
  | ok v => exact h
  | error e' => cases h

theorem exprNum_isNumeric {m : Mode} {lm rm : Nat} {ln rn : Bool} {op : Char} {v : Value}
    (h : exprNum m lm ln rm rn op = .ok v) : v.isNumeric = true := by
  unfold exprNum at h
  cases hr : exprArith op (if ln then -(lm : Int) else lm) (if rn then -(rm : Int) else rm) with
  | none => rw [hr] at h; cases h
  | some z => rw [hr] at h; exact shape_numericOfStr_isNumeric (mapErr_ok h)

/-- `ExpressionValue.resolve` under a table of constants: both operands looked up, then combined -/
theorem shape_resolve_expr_eq {t : SymTab} (ht : ConstTable t) (l r : Value) (op : Char) (mode : Mode) (ae : Bool) :
    (Value.expr l r op mode ae).resolve t =
      (match lookSym t l, lookSym t r with
       | .ok l', .ok r' => exprPost l' r' op mode
       | _, _ => .error .other) := by
  rw [resolve_eq_step]
  simp only [resolveStep, lookStep_const ht]
  rfl

theorem lookV_notAddr {t : SymTab} (ht : ConstTable t) {x x' : Value} (hx : x.isAddress = false)
    (h : lookSym t x = .ok x') : x'.isAddress = false := by
  unfold lookSym at h
  split at h
  · split at h
    · rename_i s hs
      simp only [Except.ok.injEq] at h; subst h
      have := ht.get hs
      cases s <;> simp_all [Value.isNumeric, Value.isAddress]
    · cases h
  · simp only [Except.ok.injEq] at h; subst h; exact hx


/-- under a table of constants an expression whose operands are not labels resolves to a number (or fails) -/
theorem resolve_expr_numeric_of {t : SymTab} (ht : ConstTable t) {l r : Value} {op : Char} {mode : Mode} {ae : Bool}
    (hl : l.isAddress = false) (hr : r.isAddress = false) {v' : Value}
    (h : (Value.expr l r op mode ae).resolve t = .ok v') : v'.isNumeric = true := by
  rw [shape_resolve_expr_eq ht] at h
  cases hL : lookSym t l with
  | error e => rw [hL] at h; cases h
  | ok l' =>
    cases hR : lookSym t r with
    | error e => rw [hL, hR] at h; cases h
    | ok r' =>
      rw [hL, hR] at h
      have al := lookV_notAddr ht hl hL
      have ar := lookV_notAddr ht hr hR
      dsimp only at h
      unfold exprPost at h
      split at h
      · exact exprNum_isNumeric h
      · simp [al, ar] at h

/-- a symbol under a table of constants resolves to a number (or fails) -/
theorem resolve_symbol_numeric_of {t : SymTab} (ht : ConstTable t) {name : Str} {m : Mode} {v' : Value}
    (h : (Value.symbol name m).resolve t = .ok v') : v'.isNumeric = true := by
  cases hg : t.get? name with
  | none => rw [resolve_symbol_undefined hg] at h; cases h
  | some s =>
    rw [resolve_symbol_of_get hg (ht.notExpr hg)] at h
    have hn := ht.get hg
    cases s <;> simp_all [symPost, Value.isNumeric, Value.isAddress]
    exact shape_numericOfInt_isNumeric h


/-- whatever `create` builds, other than a `left,right` pair or a string, resolves to a number under a table of
constants (or the resolution fails) -/
theorem resolve_created_numeric {t : SymTab} (ht : ConstTable t) {v v' : Value} (hc : CreatedShape v)
    (hlr : v.isLeftRight = false) (hs : v.isStrV = false) (h : v.resolve t = .ok v') : v'.isNumeric = true := by
  cases v with
  | numeric i hh m n =>
    rw [resolve_eq_step] at h; simp only [resolveStep, Except.ok.injEq] at h; subst h; rfl
  | symbol name m => exact resolve_symbol_numeric_of ht h
  | expr l r op m ae =>
    cases ae with
    | true => exact absurd hc (by simp [CreatedShape])
    | false => exact resolve_expr_numeric_of ht hc.1 hc.2 h
  | leftRight => simp [Value.isLeftRight] at hlr
  | str => simp [Value.isStrV] at hs
  | none => exact absurd hc (by simp [CreatedShape])
  | pyNone => exact absurd hc (by simp [CreatedShape])
  | address => exact absurd hc (by simp [CreatedShape])
  | multiByte => exact absurd hc (by simp [CreatedShape])
  | multiWord => exact absurd hc (by simp [CreatedShape])

/-- the left part of an index operand (a text without a comma) becomes a number -/
theorem resolveLeft_numeric_of {t : SymTab} (ht : ConstTable t) {row : InstrRow} (hsd : row.isStringDefine = false)
    {l : Str} (hcm : ',' ∉ l) {v : Value} (h : resolveLeft l row t = .ok v) : v.isNumeric = true := by
  unfold resolveLeft at h
  rw [hsd] at h
  cases hcr : create 4 l false row.is16Bit false with
  | error e => rw [hcr] at h; cases h
  | ok v0 =>
    rw [hcr] at h
    have hc := create_createdShape _ _ _ _ _ _ hcr
    have hs := create_notStr _ _ _ _ _ hcr
    have hlr : v0.isLeftRight = false := by
      cases v0 with
      | leftRight l' r' m => exact absurd (create_leftRight_comma _ _ _ _ _ _ _ _ hcr) hcm
      | _ => rfl
    cases v0 with
    | numeric i hh m n =>
      simp [Value.isSymbol, Value.isAddrExpr, Value.isExpression, bind, Except.bind, pure, Except.pure] at h
      subst h; rfl
    | symbol name m =>
      simp only [Value.isSymbol, if_true, bind, Except.bind] at h
      cases hres : (Value.symbol name m).resolve t with
      | error e => rw [hres] at h; cases h
      | ok v1 =>
        rw [hres] at h
        have hn := resolve_symbol_numeric_of ht hres
        cases v1 <;> simp [Value.isNumeric, Value.isAddrExpr, Value.isExpression, pure, Except.pure] at hn h
        subst h; rfl
    | expr a b op m ae =>
      cases ae with
      | true => exact absurd hc (by simp [CreatedShape])
      | false =>
        simp [Value.isSymbol, Value.isAddrExpr, Value.isExpression, bind, Except.bind, pure, Except.pure] at h
        exact resolve_expr_numeric_of ht hc.1 hc.2 h
    | leftRight => simp [Value.isLeftRight] at hlr
    | str => simp [Value.isStrV] at hs
    | none => exact absurd hc (by simp [CreatedShape])
    | pyNone => exact absurd hc (by simp [CreatedShape])
    | address => exact absurd hc (by simp [CreatedShape])
    | multiByte => exact absurd hc (by simp [CreatedShape])
    | multiWord => exact absurd hc (by simp [CreatedShape])

/-! ### the operand -/

/-- the left and right parts of an index operand after `resolve_symbols`: a register text, and an empty /
accumulator left text or a NUMBER -/
def IdxShape (o : Operand) : Prop :=
  ∃ right, o.right = some right ∧
    ((∃ l, o.left = .text l ∧ (l = [] ∨ isABD l = true)) ∨ (∃ n h m neg, o.left = .val (.numeric n h m neg)))

/-- what `createOperand` + `resolveOperand` (table of constants) produce for a machine-instruction row -/
inductive FrontShape (r : InstrRow) (o : Operand) : Prop
  | relative : o.kind = .relative → FrontShape r o
  | special : o.kind = .special → r.isSpecial = true → FrontShape r o
  | inherent : o.kind = .inherent → r.isSpecial = false → FrontShape r o
  | numeric {n : Nat} {h : Option Nat} {m : Mode} {neg : Bool} :
      (o.kind = .immediate ∨ o.kind = .direct ∨ o.kind = .extended ∨ o.kind = .extIndirect) → r.isSpecial = false →
      o.value = .numeric n h m neg → FrontShape r o
  | indexed : o.kind = .indexed → r.isSpecial = false → IdxShape o → FrontShape r o
  | bracket : o.kind = .extIndirect → r.isSpecial = false → o.value.isAddress = false → o.value.isAddrExpr = false →
      o.value.isNumeric = false → IdxShape o → FrontShape r o

theorem map_ok_iff {α β} {f : α → β} {x : R α} {y : β} : f <$> x = .ok y ↔ ∃ a, x = .ok a ∧ f a = y := by
  cases x with
  | error e => simp [Functor.map, Except.map]
  | ok a => simp [Functor.map, Except.map]

theorem exceptMap_ok_iff {α β} {f : α → β} {x : R α} {y : β} : x.map f = .ok y ↔ ∃ a, x = .ok a ∧ f a = y := by
  cases x with
  | error e => simp [Except.map]
  | ok a => simp [Except.map]

section
variable {r : InstrRow} {t : SymTab} (ht : ConstTable t) (hsd : r.isStringDefine = false)
include ht hsd

/-- an operand with a `left,right` value whose left text has no comma: the index shape -/
theorem resolve_idx_shape {o0 o : Operand} {l rr : Str} (hk : o0.kind = .indexed ∨ (o0.kind = .extIndirect ∧ o0.value.isLeftRight = true))
    (hl : o0.left = .text l) (hcm : ',' ∉ l) (hr : o0.right = some rr) (h : resolveOperand o0 r t = .ok o) :
    o.kind = o0.kind ∧ o.value = o0.value ∧ IdxShape o := by
  have key : ∀ o : Operand,
      (if (l != [] && !isABD l) = true then (resolveLeft l r t).map (fun v => { o0 with left := .val v }) else .ok o0) = .ok o →
      o.kind = o0.kind ∧ o.value = o0.value ∧ IdxShape o := by
    intro o h
    by_cases hc : (l != [] && !isABD l) = true
    · rw [if_pos hc] at h
      obtain ⟨v, hv, rfl⟩ := exceptMap_ok_iff.mp h
      have hn := resolveLeft_numeric_of ht hsd hcm hv
      refine ⟨rfl, rfl, rr, hr, Or.inr ?_⟩
      cases v <;> simp [Value.isNumeric] at hn
      exact ⟨_, _, _, _, rfl⟩
    · rw [if_neg hc] at h
      simp only [Except.ok.injEq] at h; subst h
      refine ⟨rfl, rfl, rr, hr, Or.inl ⟨l, hl, ?_⟩⟩
      simp only [Bool.and_eq_true, bne_iff_ne, ne_eq, Bool.not_eq_true', not_and, Bool.not_eq_false] at hc
      by_cases hne : l = []
      · exact Or.inl hne
      · exact Or.inr (hc hne)
  rcases hk with hk | ⟨hk, hv⟩
  · unfold resolveOperand at h
    rw [hk] at h
    simp only [hl] at h
    refine key o ?_
    rw [hk]; exact h
  · unfold resolveOperand at h
    rw [hk] at h
    have hnn : o0.value.isNone = false := by cases hval : o0.value <;> simp_all [Value.isLeftRight, Value.isNone]
    simp only [hnn, hv, hl, Bool.not_false, Bool.not_true, Bool.and_false, Bool.false_eq_true, if_false] at h
    refine key o ?_
    rw [hk]; exact h


omit ht hsd in
/-- an immediate operand keeps its kind, its value is resolved -/
theorem resolve_immediate_shape {o0 o : Operand} (hk : o0.kind = .immediate)
    (h : resolveOperand o0 r t = .ok o) : o.kind = .immediate ∧ o0.value.resolve t = .ok o.value := by
  unfold resolveOperand at h
  rw [hk] at h
  simp only at h
  cases hres : o0.value.resolve t with
  | error e => rw [hres] at h; cases h
  | ok v =>
    rw [hres] at h
    simp only [bne_iff_ne, ne_eq, reduceCtorEq, not_false_eq_true, if_true, Except.ok.injEq] at h
    subst h
    exact ⟨rfl, rfl⟩

omit ht hsd in
theorem resolve_relative_shape {o0 o : Operand} (hk : o0.kind = .relative)
    (h : resolveOperand o0 r t = .ok o) : o.kind = .relative := by
  unfold resolveOperand at h
  rw [hk] at h
  simp only at h
  cases hres : o0.value.resolve t with
  | error e => rw [hres] at h; cases h
  | ok v =>
    rw [hres] at h
    simp only [bne_iff_ne, ne_eq, reduceCtorEq, not_false_eq_true, if_true, Except.ok.injEq] at h
    subst h
    rfl

omit ht hsd in
theorem resolve_inherent_shape {o0 o : Operand} (hk : o0.kind = .inherent)
    (h : resolveOperand o0 r t = .ok o) : o.kind = .inherent := by
  unfold resolveOperand at h
  rw [hk] at h
  simp only at h
  cases hres : o0.value.resolve t with
  | error e => rw [hres] at h; cases h
  | ok v =>
    rw [hres] at h
    simp only [bne_iff_ne, ne_eq, reduceCtorEq, not_false_eq_true, if_true, Except.ok.injEq] at h
    subst h
    rfl

omit ht hsd in
/-- an UnknownOperand whose value resolves to a number becomes a direct or an extended operand carrying a number -/
theorem resolve_unknown_shape {o0 o : Operand} (hk : o0.kind = .unknown)
    (hnum : ∀ v, o0.value.resolve t = .ok v → v.isNumeric = true)
    (h : resolveOperand o0 r t = .ok o) :
    (o.kind = .direct ∨ o.kind = .extended) ∧ o.value.isNumeric = true := by
  unfold resolveOperand at h
  rw [hk] at h
  simp only at h
  cases hres : o0.value.resolve t with
  | error e => rw [hres] at h; cases h
  | ok v =>
    rw [hres] at h
    have hn := hnum v hres
    simp only [bne_self_eq_false, Bool.false_eq_true, if_false] at h
    by_cases hx : o0.value.isExplicitExtended = true
    · rw [if_pos hx] at h
      simp only [Except.ok.injEq] at h; subst h
      exact ⟨Or.inr rfl, hn⟩
    · rw [if_neg hx] at h
      cases v with
      | numeric i hh m ng =>
        simp only at h
        split at h
        · obtain ⟨nv, hnv, rfl⟩ := exceptMap_ok_iff.mp h
          exact ⟨Or.inl rfl, shape_numericOfInt_isNumeric hnv⟩
        · simp only [Except.ok.injEq] at h; subst h
          exact ⟨Or.inr rfl, rfl⟩
      | _ => simp [Value.isNumeric] at hn


omit ht hsd in
/-- `[value]` with a value that is not a `left,right` pair: the value is resolved -/
theorem resolve_bracket_val_shape {o0 o : Operand} (hk : o0.kind = .extIndirect) (hnn : o0.value.isNone = false)
    (hlr : o0.value.isLeftRight = false) (h : resolveOperand o0 r t = .ok o) :
    o.kind = .extIndirect ∧ o0.value.resolve t = .ok o.value := by
  unfold resolveOperand at h
  rw [hk] at h
  simp only [hnn, hlr, Bool.not_false, Bool.and_self, if_true] at h
  obtain ⟨v, hv, rfl⟩ := exceptMap_ok_iff.mp h
  exact ⟨rfl, hv⟩

/-- the unbracketed part of the cascade -/
theorem frontEnd_shape_plain (hsp' : r.isSpecial = false) {text : Str} {o0 o : Operand}
    (hc : (match createV text false r.is16Bit with
        | .error _ => (.error .operandType : R Operand)
        | .ok v =>
          match v with
          | .leftRight l r _ => .ok { kind := .indexed, text := text, value := v, left := .text l, right := some r }
          | _ =>
            if v.isImmediate then .ok { kind := .immediate, text := text, value := v }
            else .ok { kind := .unknown, text := text, value := v }) = .ok o0)
    (hr : resolveOperand o0 r t = .ok o) : FrontShape r o := by
  cases hcv : createV text false r.is16Bit with
  | error e => rw [hcv] at hc; cases hc
  | ok v =>
    rw [hcv] at hc
    have hcr := create_createdShape _ _ _ _ _ _ hcv
    have hns := create_notStr _ _ _ _ _ hcv
    have fin : v.isLeftRight = false →
        (if v.isImmediate = true then (.ok { kind := .immediate, text := text, value := v } : R Operand)
          else .ok { kind := .unknown, text := text, value := v }) = .ok o0 → FrontShape r o := by
      intro hlr hc
      by_cases him : v.isImmediate = true
      · rw [if_pos him] at hc
        simp only [Except.ok.injEq] at hc; subst hc
        obtain ⟨h1, h2⟩ := resolve_immediate_shape rfl hr
        have hn := resolve_created_numeric ht hcr hlr hns h2
        cases hov : o.value <;> rw [hov] at hn <;> simp [Value.isNumeric] at hn
        exact .numeric (Or.inl h1) hsp' hov
      · rw [if_neg him] at hc
        simp only [Except.ok.injEq] at hc; subst hc
        obtain ⟨h1, hn⟩ := resolve_unknown_shape rfl (fun v' hv' => resolve_created_numeric ht hcr hlr hns hv') hr
        cases hov : o.value <;> rw [hov] at hn <;> simp [Value.isNumeric] at hn
        rcases h1 with h1 | h1
        · exact .numeric (Or.inr (Or.inl h1)) hsp' hov
        · exact .numeric (Or.inr (Or.inr (Or.inl h1))) hsp' hov
    cases v with
    | leftRight l rr m =>
      simp only [Except.ok.injEq] at hc; subst hc
      have hcm := (create_leftRight_noComma _ _ _ _ _ _ _ _ hcv).1
      obtain ⟨h1, h2, h3⟩ := resolve_idx_shape ht hsd (Or.inl rfl) rfl hcm rfl hr
      exact .indexed h1 hsp' h3
    | numeric i hh m n => exact fin rfl hc
    | symbol name m => exact fin rfl hc
    | expr a b op m ae => exact fin rfl hc
    | str => simp [Value.isStrV] at hns
    | none => exact absurd hcr (by simp [CreatedShape])
    | pyNone => exact absurd hcr (by simp [CreatedShape])
    | address => exact absurd hcr (by simp [CreatedShape])
    | multiByte => exact absurd hcr (by simp [CreatedShape])
    | multiWord => exact absurd hcr (by simp [CreatedShape])

/-- **the shape of every operand the front end builds** for a machine-instruction row against a table of constants -/
theorem frontEnd_shape (hp : r.isPseudo = false) {text : Str} {o0 o : Operand}
    (hc : createOperand text r = .ok o0) (hr : resolveOperand o0 r t = .ok o) : FrontShape r o := by
  unfold createOperand at hc
  simp only [hp, Bool.false_eq_true, if_false] at hc
  by_cases hsp : r.isSpecial = true
  · simp only [hsp, if_true, Except.ok.injEq] at hc
    subst hc
    simp only [resolveOperand, Except.ok.injEq] at hr
    subst hr
    exact .special rfl hsp
  · have hsp' : r.isSpecial = false := by simpa using hsp
    simp only [hsp', Bool.false_eq_true, if_false] at hc
    by_cases hbr : (r.isShortBranch || r.isLongBranch) = true
    · rw [if_pos hbr] at hc
      obtain ⟨v, _, rfl⟩ := map_ok_iff.mp hc
      exact .relative (resolve_relative_shape rfl hr)
    · rw [if_neg hbr] at hc
      by_cases he : text.isEmpty = true
      · rw [if_pos he] at hc
        simp only [Except.ok.injEq] at hc; subst hc
        exact .inherent (resolve_inherent_shape rfl hr) hsp'
      · rw [if_neg he] at hc
        simp only [hsd] at hc
        -- the bracketed attempt
        by_cases hb : (text.head? == some '[' && text.getLast? == some ']') = true
        · rw [if_pos hb] at hc
          cases hcv : createV ((text.drop 1).dropLast) false r.is16Bit with
          | ok v =>
            rw [hcv] at hc
            have hcr := create_createdShape _ _ _ _ _ _ hcv
            have hns := create_notStr _ _ _ _ _ hcv
            cases v with
            | leftRight l rr m =>
              simp only [Except.ok.injEq] at hc; subst hc
              have hcm := (create_leftRight_noComma _ _ _ _ _ _ _ _ hcv).1
              obtain ⟨h1, h2, h3⟩ := resolve_idx_shape ht hsd (Or.inr ⟨rfl, rfl⟩) rfl hcm rfl hr
              exact .bracket h1 hsp' (by rw [h2]; rfl) (by rw [h2]; rfl) (by rw [h2]; rfl) h3
            | numeric i hh m n =>
              simp only [Except.ok.injEq] at hc; subst hc
              obtain ⟨h1, h2⟩ := resolve_bracket_val_shape rfl rfl rfl hr
              have hn := resolve_created_numeric ht hcr rfl hns h2
              cases hov : o.value <;> rw [hov] at hn <;> simp [Value.isNumeric] at hn
              exact .numeric (Or.inr (Or.inr (Or.inr h1))) hsp' hov
            | symbol name m =>
              simp only [Except.ok.injEq] at hc; subst hc
              obtain ⟨h1, h2⟩ := resolve_bracket_val_shape rfl rfl rfl hr
              have hn := resolve_created_numeric ht hcr rfl hns h2
              cases hov : o.value <;> rw [hov] at hn <;> simp [Value.isNumeric] at hn
              exact .numeric (Or.inr (Or.inr (Or.inr h1))) hsp' hov
            | expr a b op m ae =>
              simp only [Except.ok.injEq] at hc; subst hc
              obtain ⟨h1, h2⟩ := resolve_bracket_val_shape rfl rfl rfl hr
              have hn := resolve_created_numeric ht hcr rfl hns h2
              cases hov : o.value <;> rw [hov] at hn <;> simp [Value.isNumeric] at hn
              exact .numeric (Or.inr (Or.inr (Or.inr h1))) hsp' hov
            | str => simp [Value.isStrV] at hns
            | none => exact absurd hcr (by simp [CreatedShape])
            | pyNone => exact absurd hcr (by simp [CreatedShape])
            | address => exact absurd hcr (by simp [CreatedShape])
            | multiByte => exact absurd hcr (by simp [CreatedShape])
            | multiWord => exact absurd hcr (by simp [CreatedShape])
          | error e =>
            rw [hcv] at hc
            exact frontEnd_shape_plain ht hsd hsp' hc hr
        · rw [if_neg hb] at hc
          exact frontEnd_shape_plain ht hsd hsp' hc hr

end
end CoCo.Asm
