/-
Lemmas/FrontScan.lean — helper lemmas for C18-R3: the canonical-form lemma of the line scanner
`scanLine` and what `parseLine` makes of a canonical line.
-/
import CoCoVerif.Model.Program

namespace CoCo.Asm
open CoCo

/-! ### character classes -/

theorem isSpace_cases {x : Char} (h : isSpace x = true) :
    x = ' ' ∨ x = '\t' ∨ x = '\n' ∨ x = '\r' ∨ x = '\x0b' ∨ x = '\x0c' := by
  simpa [isSpace, or_assoc] using h

theorem not_word_of_space {x : Char} (h : isSpace x = true) : isWord x = false := by
  rcases isSpace_cases h with rfl | rfl | rfl | rfl | rfl | rfl <;> decide
theorem not_label_of_space {x : Char} (h : isSpace x = true) : isLabelCh x = false := by
  rcases isSpace_cases h with rfl | rfl | rfl | rfl | rfl | rfl <;> decide
theorem not_operand_of_space {x : Char} (h : isSpace x = true) : isOperandCh x = false := by
  rcases isSpace_cases h with rfl | rfl | rfl | rfl | rfl | rfl <;> decide
theorem not_semi_of_space {x : Char} (h : isSpace x = true) : (x == ';') = false := by
  rcases isSpace_cases h with rfl | rfl | rfl | rfl | rfl | rfl <;> decide

theorem not_space_of_word {x : Char} (h : isWord x = true) : isSpace x = false := by
  cases hs : isSpace x with
  | false => rfl
  | true => rw [not_word_of_space hs] at h; cases h
theorem not_space_of_label {x : Char} (h : isLabelCh x = true) : isSpace x = false := by
  cases hs : isSpace x with
  | false => rfl
  | true => rw [not_label_of_space hs] at h; cases h
theorem not_space_of_operand {x : Char} (h : isOperandCh x = true) : isSpace x = false := by
  cases hs : isSpace x with
  | false => rfl
  | true => rw [not_operand_of_space hs] at h; cases h
theorem label_of_word {x : Char} (h : isWord x = true) : isLabelCh x = true := by
  simp [isLabelCh, h]
theorem not_semi_of_label {x : Char} (h : isLabelCh x = true) : (x == ';') = false := by
  cases hs : x == ';' with
  | false => rfl
  | true => rw [beq_iff_eq.mp hs] at h; revert h; decide
theorem not_semi_of_word {x : Char} (h : isWord x = true) : (x == ';') = false :=
  not_semi_of_label (label_of_word h)
theorem not_operand_semi : isOperandCh ';' = false := by decide
theorem not_operand_nl : isOperandCh '\n' = false := by decide
theorem isSpace_nl : isSpace '\n' = true := by decide

/-! ### takeWhile / dropWhile -/

/-- the list is empty or its first element fails `p` -/
def Stops {α} (p : α → Bool) (l : List α) : Prop := ∀ x ∈ l.head?, p x = false

theorem stops_nil {α} (p : α → Bool) : Stops p [] := by simp [Stops]
theorem stops_cons {α} {p : α → Bool} {x : α} {l : List α} (h : p x = false) : Stops p (x :: l) := by
  simp [Stops, h]
theorem stops_append_of_ne_nil {α} {p : α → Bool} {a b : List α} (ha : a ≠ []) (h : Stops p a) :
    Stops p (a ++ b) := by
  cases a with
  | nil => exact absurd rfl ha
  | cons x xs => simpa [Stops] using h
theorem stops_of_all {α} {p q : α → Bool} {a b : List α} (ha : a ≠ []) (h : ∀ x ∈ a, q x = true)
    (hq : ∀ x, q x = true → p x = false) : Stops p (a ++ b) := by
  cases a with
  | nil => exact absurd rfl ha
  | cons x xs => exact stops_cons (hq x (h x (by simp)))

theorem takeWhile_stops {α} {p : α → Bool} {l : List α} (h : Stops p l) : l.takeWhile p = [] := by
  cases l with
  | nil => rfl
  | cons x xs => exact List.takeWhile_cons_of_neg (by simp [Stops] at h; simp [h])
theorem dropWhile_stops {α} {p : α → Bool} {l : List α} (h : Stops p l) : l.dropWhile p = l := by
  cases l with
  | nil => rfl
  | cons x xs => exact List.dropWhile_cons_of_neg (by simp [Stops] at h; simp [h])

theorem takeWhile_all_stops {α} {p : α → Bool} {a b : List α} (ha : ∀ x ∈ a, p x = true)
    (hb : Stops p b) : (a ++ b).takeWhile p = a := by
  rw [List.takeWhile_append_of_pos ha, takeWhile_stops hb, List.append_nil]
theorem dropWhile_all_stops {α} {p : α → Bool} {a b : List α} (ha : ∀ x ∈ a, p x = true)
    (hb : Stops p b) : (a ++ b).dropWhile p = b := by
  rw [List.dropWhile_append_of_pos ha, dropWhile_stops hb]

theorem stops_dropWhile {α} (p : α → Bool) (l : List α) : Stops p (l.dropWhile p) := by
  induction l with
  | nil => exact stops_nil p
  | cons x xs ih =>
    cases h : p x with
    | true => rw [List.dropWhile_cons_of_pos h]; exact ih
    | false => rw [List.dropWhile_cons_of_neg (by simp [h])]; exact stops_cons h

/-! ### the tail of a line: white space, semicolons, comment, newline -/

/-- a comment text: no newline, and it starts neither with white space nor with a semicolon -/
def CommentText (c : Str) : Prop :=
  (∀ x ∈ c, x ≠ '\n') ∧ (∀ x ∈ c.head?, isSpace x = false ∧ (x == ';') = false)

theorem dotStarEnd_comment {c : Str} (hc : ∀ x ∈ c, x ≠ '\n') : dotStarEnd (c ++ ['\n']) = some c := by
  have hn : ¬ '\n' ∈ c := fun h => hc _ h rfl
  simp [dotStarEnd, hn]

theorem dotStarEnd_nil : dotStarEnd [] = some [] := by simp [dotStarEnd]

/-- what is left after the operand field, white space and semicolons removed, is the comment -/
theorem tail_comment {semis c : Str} (hs : ∀ x ∈ semis, (x == ';') = true) (hc : CommentText c) :
    dotStarEnd (((semis ++ c ++ ['\n']).dropWhile isSpace).dropWhile (· == ';')) = some c := by
  obtain ⟨hnl, hhd⟩ := hc
  cases semis with
  | nil =>
    cases c with
    | nil => simp [List.dropWhile, isSpace_nl, dotStarEnd_nil]
    | cons x xs =>
      have hx := hhd x (by simp)
      rw [List.nil_append, List.cons_append, List.dropWhile_cons_of_neg (by simp [hx.1]),
        List.dropWhile_cons_of_neg (by simp [hx.2])]
      exact dotStarEnd_comment hnl
  | cons s ss =>
    have h1 : (s == ';') = true := hs s (by simp)
    have hsp : isSpace s = false := by rw [beq_iff_eq.mp h1]; decide
    rw [List.append_assoc, List.cons_append, List.dropWhile_cons_of_neg (by simp [hsp]),
      ← List.cons_append]
    have hst : Stops (· == ';') (c ++ ['\n']) := by
      cases c with
      | nil => exact stops_cons (by decide)
      | cons x xs => exact stops_cons (hhd x (by simp)).2
    rw [dropWhile_all_stops hs hst]
    exact dotStarEnd_comment hnl

/-- the same tail does not start with an operand character when the separation condition holds -/
theorem tail_stops_operand {semis c : Str} (hs : ∀ x ∈ semis, (x == ';') = true)
    (h : semis ≠ [] ∨ ∀ x ∈ c.head?, isOperandCh x = false) :
    Stops isOperandCh (semis ++ c ++ ['\n']) := by
  cases semis with
  | nil =>
    cases c with
    | nil => exact stops_cons not_operand_nl
    | cons x xs =>
      rcases h with h | h
      · exact absurd rfl h
      · exact stops_cons (h x (by simp))
  | cons s ss =>
    have h1 : (s == ';') = true := hs s (by simp)
    exact stops_cons (by rw [beq_iff_eq.mp h1]; exact not_operand_semi)

theorem dropWhile_dropWhile {α} (p : α → Bool) (l : List α) :
    (l.dropWhile p).dropWhile p = l.dropWhile p := dropWhile_stops (stops_dropWhile p l)

/-- dropping white space in front of the tail changes it only when the tail is the bare newline -/
theorem tail_dropSpace {semis c : Str} (hs : ∀ x ∈ semis, (x == ';') = true) (hc : CommentText c) :
    (semis ++ c ++ ['\n']).dropWhile isSpace = semis ++ c ++ ['\n'] ∨
    (semis ++ c ++ ['\n']).dropWhile isSpace = [] := by
  cases semis with
  | nil =>
    cases c with
    | nil => right; simp [List.dropWhile, isSpace_nl]
    | cons x xs =>
      left
      have hx := hc.2 x (by simp)
      exact List.dropWhile_cons_of_neg (by simp [hx.1])
  | cons s ss =>
    left
    have h1 : (s == ';') = true := hs s (by simp)
    have hsp : isSpace s = false := by rw [beq_iff_eq.mp h1]; decide
    exact List.dropWhile_cons_of_neg (by simp [hsp])

theorem tail_dropSpace_stops_operand {semis c : Str} (hs : ∀ x ∈ semis, (x == ';') = true)
    (hc : CommentText c) (h : semis ≠ [] ∨ ∀ x ∈ c.head?, isOperandCh x = false) :
    Stops isOperandCh ((semis ++ c ++ ['\n']).dropWhile isSpace) := by
  rcases tail_dropSpace hs hc with e | e <;> rw [e]
  · exact tail_stops_operand hs h
  · exact stops_nil _

/-! ### the canonical-form lemma -/

/-- `scanLine` read as a sequence of takeWhile / dropWhile facts -/
theorem scanLine_asm_of {line lab r1 r2 mn r3 r4 ops r5 c : Str}
    (h1 : line.all isSpace = false) (h2 : ((line.dropWhile isSpace).head? == some ';') = false)
    (h3 : line.takeWhile isLabelCh = lab) (h4 : line.dropWhile isLabelCh = r1)
    (h5 : (r1.takeWhile isSpace).isEmpty = false) (h6 : r1.dropWhile isSpace = r2)
    (h7 : r2.takeWhile isWord = mn) (h8 : mn.isEmpty = false) (h9 : r2.dropWhile isWord = r3)
    (h10 : (r3.takeWhile isSpace).isEmpty = false) (h11 : r3.dropWhile isSpace = r4)
    (h12 : r4.takeWhile isOperandCh = ops) (h13 : r4.dropWhile isOperandCh = r5)
    (h14 : dotStarEnd ((r5.dropWhile isSpace).dropWhile (· == ';')) = some c) :
    scanLine line = .asm lab mn ops c := by
  unfold scanLine
  simp only [h1, h2, h3, h4, h5, h6, h7, h8, h9, h10, h11, h12, h13, h14]
  simp

theorem head_ne_semi_of_stops {t : Str} (h : Stops (· == ';') t) : (t.head? == some ';') = false := by
  cases t with
  | nil => rfl
  | cons x xs =>
    have : (x == ';') = false := h x (by simp)
    have hx : x ≠ ';' := by simpa using this
    simp [hx]

/-- The canonical-form lemma: label, white space, mnemonic, white space, operand field, white space,
semicolons, comment, newline.  `hsep` is the exact condition under which the comment is not swallowed
by the operand field: some semicolon, or a nonempty operand field followed by white space, or the
comment does not begin with an operand character (in particular: no comment). -/
theorem scanLine_canonical {lab w1 mn w2 ops w3 semis c : Str}
    (hlab : ∀ x ∈ lab, isLabelCh x = true)
    (hmn0 : mn ≠ []) (hmn : ∀ x ∈ mn, isWord x = true)
    (hops : ∀ x ∈ ops, isOperandCh x = true)
    (hw10 : w1 ≠ []) (hw1 : ∀ x ∈ w1, isSpace x = true)
    (hw20 : w2 ≠ []) (hw2 : ∀ x ∈ w2, isSpace x = true)
    (hw3 : ∀ x ∈ w3, isSpace x = true)
    (hs : ∀ x ∈ semis, (x == ';') = true) (hc : CommentText c)
    (hsep : semis ≠ [] ∨ (ops ≠ [] ∧ w3 ≠ []) ∨ ∀ x ∈ c.head?, isOperandCh x = false) :
    scanLine (lab ++ w1 ++ mn ++ w2 ++ ops ++ w3 ++ semis ++ c ++ ['\n']) = .asm lab mn ops c := by
  have e : lab ++ w1 ++ mn ++ w2 ++ ops ++ w3 ++ semis ++ c ++ ['\n'] =
      lab ++ (w1 ++ (mn ++ (w2 ++ (ops ++ (w3 ++ (semis ++ c ++ ['\n'])))))) := by
    simp [List.append_assoc]
  rw [e]
  generalize hT : semis ++ c ++ ['\n'] = T
  have hT1 := hT ▸ tail_comment hs hc
  -- stops facts
  have sW1 : ∀ r, Stops isLabelCh (w1 ++ r) := fun r => stops_of_all hw10 hw1 (fun _ => not_label_of_space)
  have sMn : ∀ r, Stops isSpace (mn ++ r) := fun r => stops_of_all hmn0 hmn (fun _ => not_space_of_word)
  have sW2 : ∀ r, Stops isWord (w2 ++ r) := fun r => stops_of_all hw20 hw2 (fun _ => not_word_of_space)
  -- the line is not blank
  have h1 : (lab ++ (w1 ++ (mn ++ (w2 ++ (ops ++ (w3 ++ T)))))).all isSpace = false := by
    cases mn with
    | nil => exact absurd rfl hmn0
    | cons m ms =>
      have := not_space_of_word (hmn m (by simp))
      simp only [List.all_eq_false]
      exact ⟨m, by simp, by simp [this]⟩
  -- it is not a comment line
  have h2 : (((lab ++ (w1 ++ (mn ++ (w2 ++ (ops ++ (w3 ++ T)))))).dropWhile isSpace).head? == some ';') = false := by
    apply head_ne_semi_of_stops
    cases lab with
    | nil =>
      rw [List.nil_append, dropWhile_all_stops hw1 (sMn _)]
      exact stops_of_all hmn0 hmn (fun _ => not_semi_of_word)
    | cons x xs =>
      have hx := hlab x (by simp)
      rw [List.cons_append, List.dropWhile_cons_of_neg (by simp [not_space_of_label hx])]
      exact stops_cons (not_semi_of_label hx)
  have h5 : ((w1 ++ (mn ++ (w2 ++ (ops ++ (w3 ++ T))))).takeWhile isSpace).isEmpty = false := by
    rw [takeWhile_all_stops hw1 (sMn _)]; cases w1 <;> simp_all
  have h8 : mn.isEmpty = false := by cases mn <;> simp_all
  have h10 : ((w2 ++ (ops ++ (w3 ++ T))).takeWhile isSpace).isEmpty = false := by
    rw [List.takeWhile_append_of_pos hw2]; cases w2 <;> simp_all
  by_cases hopsE : ops = []
  · subst hopsE
    have hsep' : semis ≠ [] ∨ ∀ x ∈ c.head?, isOperandCh x = false := by
      rcases hsep with h | h | h
      · exact .inl h
      · exact absurd rfl h.1
      · exact .inr h
    have hU := hT ▸ tail_dropSpace_stops_operand hs hc hsep'
    refine scanLine_asm_of h1 h2 (takeWhile_all_stops hlab (sW1 _)) (dropWhile_all_stops hlab (sW1 _))
      h5 (dropWhile_all_stops hw1 (sMn _)) (takeWhile_all_stops hmn (sW2 _)) h8
      (dropWhile_all_stops hmn (sW2 _)) h10
      (r4 := T.dropWhile isSpace) ?_ (takeWhile_stops hU) (dropWhile_stops hU) ?_
    · rw [List.nil_append, List.dropWhile_append_of_pos hw2, List.dropWhile_append_of_pos hw3]
    · rw [dropWhile_dropWhile]; exact hT1
  · have sOps : Stops isSpace (ops ++ (w3 ++ T)) :=
      stops_of_all hopsE hops (fun _ => not_space_of_operand)
    have sW3 : Stops isOperandCh (w3 ++ T) := by
      cases hw3E : w3 with
      | nil =>
        have hsep' : semis ≠ [] ∨ ∀ x ∈ c.head?, isOperandCh x = false := by
          rcases hsep with h | h | h
          · exact .inl h
          · exact absurd hw3E h.2
          · exact .inr h
        exact hT ▸ tail_stops_operand hs hsep'
      | cons y ys =>
        exact stops_cons (not_operand_of_space (hw3 y (by simp [hw3E])))
    refine scanLine_asm_of h1 h2 (takeWhile_all_stops hlab (sW1 _)) (dropWhile_all_stops hlab (sW1 _))
      h5 (dropWhile_all_stops hw1 (sMn _)) (takeWhile_all_stops hmn (sW2 _)) h8
      (dropWhile_all_stops hmn (sW2 _)) h10
      (dropWhile_all_stops hw2 sOps) (takeWhile_all_stops hops sW3) (dropWhile_all_stops hops sW3) ?_
    rw [List.dropWhile_append_of_pos hw3]; exact hT1

/-! ### parseLine on a scanned line -/

/-- a statement with its comment removed -/
def Stmt.eraseComment (s : Stmt) : Stmt := { s with comment := [] }

/-- for a mnemonic that is not a string definition (FCC) the statement is a function of label,
upper-cased mnemonic and operand field; the comment only lands in the `comment` field -/
theorem parseLine_of_scan {line lab mn ops c : Str} (h : scanLine line = .asm lab mn ops c)
    (hrow : ∀ row, findRow (mn.map upperC) = some row → row.isStringDefine = false) :
    parseLine line =
      match findRow (mn.map upperC) with
      | none => .diag
      | some row =>
        match createOperand ops row with
        | .ok o => .ok (some { label := lab, mnemonic := mn.map upperC, row := row, operand := o,
                               origText := o.text, comment := strip c })
        | .error _ => .diag := by
  unfold parseLine
  rw [h]
  dsimp only
  cases hf : findRow (mn.map upperC) with
  | none => rfl
  | some row =>
    simp only [hrow row hf]
    cases createOperand ops row <;> rfl

/-- two scanned lines with the same label, operand field and mnemonic up to letter case -/
theorem parseLine_reformat {l1 l2 lab mn1 mn2 ops c1 c2 : Str}
    (h1 : scanLine l1 = .asm lab mn1 ops c1) (h2 : scanLine l2 = .asm lab mn2 ops c2)
    (hmn : mn1.map upperC = mn2.map upperC)
    (hrow : ∀ row, findRow (mn1.map upperC) = some row → row.isStringDefine = false) :
    (parseLine l1 = .diag ∧ parseLine l2 = .diag) ∨
    ∃ s t, parseLine l1 = .ok (some s) ∧ parseLine l2 = .ok (some t) ∧
      s.eraseComment = t.eraseComment ∧ s.comment = strip c1 ∧ t.comment = strip c2 := by
  rw [parseLine_of_scan h1 hrow, parseLine_of_scan h2 (hmn ▸ hrow), ← hmn]
  cases findRow (mn1.map upperC) with
  | none => exact .inl ⟨rfl, rfl⟩
  | some row =>
    dsimp only
    cases createOperand ops row with
    | error e => exact .inl ⟨rfl, rfl⟩
    | ok o => exact .inr ⟨_, _, rfl, rfl, rfl, rfl, rfl⟩

end CoCo.Asm
