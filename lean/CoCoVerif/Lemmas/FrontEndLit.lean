/-
Lemmas/FrontEndLit.lean — literals through the string-level cascade `Value.create_from_str`
(`Asm.create`): upper-case hex rendering and `parseBase 16`, `numericOfStr` on `$` literals,
`splitExpr` failing on a pure literal / on `left,right`, and `create` computed on the four literal
shapes that instruction operands use (numeric atom, `#` atom, `left,right`).
-/
import CoCoVerif.Lemmas.EncodeData

namespace CoCo.Asm
open CoCo

/-! ### hex digits -/

/-- a string of exactly `n` hex digits (either case) -/
def IsHexLit (n : Nat) (hs : Str) : Prop := hs.length = n ∧ hs.all isHexD = true

instance (n : Nat) (hs : Str) : Decidable (IsHexLit n hs) := by unfold IsHexLit; infer_instance

/-- `"{:04X}".format(v)` : the four upper-case hex digits of a word (`byteHex` gives the two of a byte) -/
abbrev hex4 (v : Nat) : Str := wordHex v
/-- `"{:02X}".format(v)` -/
abbrev hex2 (v : Nat) : Str := byteHex v

theorem isHexD_hexChar : ∀ d, d < 16 → isHexD (hexChar d) = true := by decide

theorem isHexLit_hex2 {v : Nat} (h : v < 256) : IsHexLit 2 (hex2 v) := by
  refine ⟨rfl, ?_⟩
  simp [byteHex, isHexD_hexChar (v / 16) (by omega), isHexD_hexChar (v % 16) (by omega)]

theorem isHexLit_hex4 {v : Nat} (h : v < 65536) : IsHexLit 4 (hex4 v) := by
  refine ⟨rfl, ?_⟩
  simp [wordHex, byteHex, isHexD_hexChar (v / 256 / 16) (by omega), isHexD_hexChar (v / 256 % 16) (by omega),
    isHexD_hexChar (v % 256 / 16) (by omega), isHexD_hexChar (v % 16) (by omega)]

theorem parseBase_hex2 {v : Nat} (h : v < 256) : parseBase 16 (hex2 v) = v := by
  simp only [byteHex, parseBase, List.foldl_cons, List.foldl_nil,
    digitVal_hexChar (v / 16) (by omega), digitVal_hexChar (v % 16) (by omega)]
  omega

theorem parseBase_hex4 {v : Nat} (h : v < 65536) : parseBase 16 (hex4 v) = v := by
  simp only [wordHex, byteHex, parseBase, List.cons_append, List.nil_append, List.foldl_cons, List.foldl_nil,
    digitVal_hexChar (v / 256 / 16) (by omega), digitVal_hexChar (v / 256 % 16) (by omega),
    digitVal_hexChar (v % 256 / 16) (by omega), digitVal_hexChar (v % 256 % 16) (by omega)]
  omega

/-- character order in terms of code points -/
theorem char_le_iff (a b : Char) : a ≤ b ↔ a.toNat ≤ b.toNat := by
  rw [Char.le_def]; exact UInt32.le_iff_toNat_le

/-- a hex digit of either case has a value below 16 -/
theorem digitVal_lt_16 {c : Char} (h : isHexD c = true) : digitVal c < 16 := by
  simp only [isHexD, isDigit, Bool.or_eq_true, Bool.and_eq_true, decide_eq_true_eq, char_le_iff] at h
  simp only [digitVal, isDigit, Bool.and_eq_true, decide_eq_true_eq, char_le_iff]
  have e0 : '0'.toNat = 48 := rfl
  have e9 : '9'.toNat = 57 := rfl
  have ea : 'a'.toNat = 97 := rfl
  have ef : 'f'.toNat = 102 := rfl
  have eA : 'A'.toNat = 65 := rfl
  have eF : 'F'.toNat = 70 := rfl
  rw [e0, e9, ea, ef, eA, eF] at h
  rw [e0, e9, ea, ef]
  split
  · omega
  · split <;> omega

theorem parseBase_hexLit2 {hs : Str} (h : IsHexLit 2 hs) : parseBase 16 hs < 256 := by
  obtain ⟨hl, ha⟩ := h
  match hs, hl with
  | [a, b], _ =>
    simp only [List.all_cons, List.all_nil, Bool.and_true, Bool.and_eq_true] at ha
    have := digitVal_lt_16 ha.1
    have := digitVal_lt_16 ha.2
    simp only [parseBase, List.foldl_cons, List.foldl_nil]
    omega

theorem parseBase_hexLit4 {hs : Str} (h : IsHexLit 4 hs) : parseBase 16 hs < 65536 := by
  obtain ⟨hl, ha⟩ := h
  match hs, hl with
  | [a, b, c, d], _ =>
    simp only [List.all_cons, List.all_nil, Bool.and_true, Bool.and_eq_true] at ha
    have := digitVal_lt_16 ha.1
    have := digitVal_lt_16 ha.2.1
    have := digitVal_lt_16 ha.2.2.1
    have := digitVal_lt_16 ha.2.2.2
    simp only [parseBase, List.foldl_cons, List.foldl_nil]
    omega

/-! ### character facts -/

theorem isHexD_isWord {c : Char} (h : isHexD c = true) : isWord c = true := by
  simp only [isHexD, isDigit, Bool.or_eq_true, Bool.and_eq_true, decide_eq_true_eq, char_le_iff] at h
  simp only [isWord, isDigit, isAlpha, Bool.or_eq_true, Bool.and_eq_true, decide_eq_true_eq, char_le_iff, beq_iff_eq]
  have e0 : '0'.toNat = 48 := rfl
  have e9 : '9'.toNat = 57 := rfl
  have ea : 'a'.toNat = 97 := rfl
  have ef : 'f'.toNat = 102 := rfl
  have ez : 'z'.toNat = 122 := rfl
  have eA : 'A'.toNat = 65 := rfl
  have eF : 'F'.toNat = 70 := rfl
  have eZ : 'Z'.toNat = 90 := rfl
  rw [e0, e9, ea, ef, eA, eF] at h
  rw [e0, e9, ea, ez, eA, eZ]
  omega

theorem isWord_ne_comma {c : Char} (h : isWord c = true) : c ≠ ',' := by
  rintro rfl; revert h; decide

theorem isWord_ne_dollar {c : Char} (h : isWord c = true) : c ≠ '$' := by
  rintro rfl; revert h; decide

theorem isWord_ne_prefix {c : Char} (h : isWord c = true) : c ≠ '<' ∧ c ≠ '>' ∧ c ≠ '#' ∧ c ≠ '[' := by
  refine ⟨?_, ?_, ?_, ?_⟩ <;> (rintro rfl; revert h; decide)

theorem hexLit_no_comma {n : Nat} {hs : Str} (h : IsHexLit n hs) : ',' ∉ hs := by
  intro hm
  exact isWord_ne_comma (isHexD_isWord (List.all_eq_true.mp h.2 _ hm)) rfl

/-! ### `NumericValue("$hh…")` -/

/-- two to four hex digits after `$` (an explicit `>` keeps a two-digit literal from becoming direct, fix A6) -/
theorem numericOfStr_hex (a b : Char) (t : Str) (sizeHint : Option Nat) (mode : Mode)
    (hall : (a :: b :: t).all isHexD = true) (hlen : t.length ≤ 2) :
    numericOfStr ('$' :: a :: b :: t) sizeHint mode =
      .ok (.numeric (parseBase 16 (a :: b :: t))
        (if t.length = 0 ∧ sizeHint.isNone ∧ mode ≠ .explExtended then some 2 else initHint sizeHint mode)
        (let m := if t.length = 0 ∧ sizeHint.isNone ∧ mode ≠ .explExtended
                  then (if mode != .immediate then Mode.direct else mode) else mode
         if m == .none then .extended else m) false) := by
  have hl : ¬ (t.length + 1 + 1 > 4) := by omega
  have hne : (a :: b :: t != []) = true := by simp
  unfold numericOfStr
  simp only [hall, hne, Bool.and_self, if_true]
  by_cases h0 : t.length = 0
  · cases hs : sizeHint <;> by_cases hm : mode = .explExtended <;> simp [h0, hm]
  · simp [h0, hl]

/-- `$hh` : two digits.  Without a size hint (and without `>`) the value is DIRECT with hint 2 (immediate stays
immediate) -/
theorem numericOfStr_hex2 {hs : Str} (h : IsHexLit 2 hs) (sizeHint : Option Nat) (mode : Mode) :
    numericOfStr ('$' :: hs) sizeHint mode =
      .ok (.numeric (parseBase 16 hs)
        (if sizeHint.isNone ∧ mode ≠ .explExtended then some 2 else initHint sizeHint mode)
        (let m := if sizeHint.isNone ∧ mode ≠ .explExtended then (if mode != .immediate then Mode.direct else mode) else mode
         if m == .none then .extended else m) false) := by
  obtain ⟨hl, ha⟩ := h
  match hs, hl with
  | [a, b], _ =>
    have := numericOfStr_hex a b [] sizeHint mode ha (by simp)
    simpa using this

/-- `$hhhh` : four digits -/
theorem numericOfStr_hex4 {hs : Str} (h : IsHexLit 4 hs) (sizeHint : Option Nat) (mode : Mode) :
    numericOfStr ('$' :: hs) sizeHint mode =
      .ok (.numeric (parseBase 16 hs) (initHint sizeHint mode) (if mode == .none then .extended else mode) false) := by
  obtain ⟨hl, ha⟩ := h
  match hs, hl with
  | [a, b, c, d], _ =>
    have := numericOfStr_hex a b [c, d] sizeHint mode ha (by simp)
    simpa using this

/-! ### `splitExpr` fails on literals -/

/-- `$` followed by word characters only: no operator, no expression -/
theorem splitExpr_dollar_word (hs : Str) (h : ∀ c ∈ hs, isWord c = true) : splitExpr ('$' :: hs) = none := by
  have h1 : ('$' :: hs).takeWhile (· == '$') = '$' :: hs.takeWhile (· == '$') := by simp
  have hnd : ∀ c ∈ hs, (c == '$') = false := fun c hc => by simpa using isWord_ne_dollar (h c hc)
  have h2 : hs.takeWhile (· == '$') = [] := by
    cases hs with
    | nil => rfl
    | cons a t => simp [hnd a (by simp)]
  have h3 : ('$' :: hs).dropWhile (· == '$') = hs := by
    cases hs with
    | nil => rfl
    | cons a t => simp [hnd a (by simp)]
  have hsym : ∀ c ∈ hs, isSym c = true := fun c hc => by simp [isSym, h c hc]
  have h4 : hs.takeWhile isSym = hs := takeWhile_all _ _ hsym
  have h5 : hs.dropWhile isSym = [] := dropWhile_all _ _ hsym
  simp only [splitExpr, h3, h4, h5]
  simp

theorem splitExpr_hexLit {n : Nat} {hs : Str} (h : IsHexLit n hs) : splitExpr ('$' :: hs) = none :=
  splitExpr_dollar_word hs (fun c hc => isHexD_isWord (List.all_eq_true.mp h.2 c hc))

/-- a string that starts with a character which is neither `$` nor a symbol character (word character or `@`) -/
theorem splitExpr_head_nonword (c : Char) (s : Str) (h1 : c ≠ '$') (h2 : isSym c = false) :
    splitExpr (c :: s) = none := by
  have hd : (c == '$') = false := by simpa using h1
  simp [splitExpr, hd, h2]

/-- `left,right` where `left` consists of word characters: the character after the first word is a comma -/
theorem splitExpr_word_comma (l r : Str) (h : ∀ c ∈ l, isWord c = true) : splitExpr (l ++ ',' :: r) = none := by
  cases l with
  | nil => exact splitExpr_head_nonword ',' r (by decide) (by decide)
  | cons a t =>
    have ha := h a (by simp)
    have hd : (a == '$') = false := by simpa using isWord_ne_dollar ha
    have h1 : ((a :: t) ++ ',' :: r).dropWhile (· == '$') = (a :: t) ++ ',' :: r := by simp [hd]
    have hw : isSym ',' = false := by decide
    have hsym : ∀ c ∈ a :: t, isSym c = true := fun c hc => by simp [isSym, h c hc]
    have h2 : ((a :: t) ++ ',' :: r).takeWhile isSym = a :: t := by
      rw [List.takeWhile_append_of_pos hsym]; simp [hw]
    have h3 : ((a :: t) ++ ',' :: r).dropWhile isSym = ',' :: r := by
      rw [List.dropWhile_append_of_pos hsym]; simp [hw]
    have ho : opChar ',' = false := by decide
    simp only [splitExpr, h1, h2, h3]
    simp [ho]

/-! ### `create` on the literal shapes -/

/-- the first character is none of the mode prefixes -/
def PlainHead (s : Str) : Prop := ∀ c ∈ s.head?, c ≠ '<' ∧ c ≠ '>' ∧ c ≠ '#'

/-- a numeric atom (no prefix, no operator, no comma) goes to the numeric constructor -/
theorem create_numeric {fuel : Nat} {value : Str} {is16 defExt : Bool} {v : Value}
    (hh : PlainHead value) (hs : splitExpr value = none) (hc : ',' ∉ value)
    (hn : numericOfStr value (if is16 then some 4 else none) (if defExt then .extended else .none) = .ok v) :
    create (fuel + 1) value false is16 defExt = .ok v := by
  cases value with
  | nil => simp [numericOfStr] at hn
  | cons c rest =>
    obtain ⟨n1, n2, n3⟩ := hh c (by simp)
    have b1 : (c == '<') = false := by simpa using n1
    have b2 : (c == '>') = false := by simpa using n2
    have b3 : (c == '#') = false := by simpa using n3
    have hcomma : (c :: rest).contains ',' = false := by simpa using hc
    simp only [create, Bool.false_and, Bool.false_eq_true, if_false, b1, b2, b3, hs, hcomma, hn]

/-- `#atom` -/
theorem create_immediate {fuel : Nat} {value : Str} {is16 defExt : Bool} {v : Value}
    (hs : splitExpr value = none) (hc : ',' ∉ value)
    (hn : numericOfStr value (if is16 then some 4 else none) .immediate = .ok v) :
    create (fuel + 1) ('#' :: value) false is16 defExt = .ok v := by
  have b1 : ('#' == '<') = false := by decide
  have b2 : ('#' == '>') = false := by decide
  have hcomma : value.contains ',' = false := by simpa using hc
  simp only [create, Bool.false_and, Bool.false_eq_true, if_false, b1, b2, beq_self_eq_true, if_true, hs, hcomma, hn]

/-- `>atom` : the explicit extended mode -/
theorem create_explExtended {fuel : Nat} {value : Str} {is16 defExt : Bool} {v : Value}
    (hs : splitExpr value = none) (hc : ',' ∉ value)
    (hn : numericOfStr value (if is16 then some 4 else none) .explExtended = .ok v) :
    create (fuel + 1) ('>' :: value) false is16 defExt = .ok v := by
  have b1 : ('>' == '<') = false := by decide
  have hcomma : value.contains ',' = false := by simpa using hc
  simp only [create, Bool.false_and, Bool.false_eq_true, if_false, b1, beq_self_eq_true, if_true, hs, hcomma, hn]

/-- `<atom` : the explicit direct mode -/
theorem create_explDirect {fuel : Nat} {value : Str} {is16 defExt : Bool} {v : Value}
    (hs : splitExpr value = none) (hc : ',' ∉ value)
    (hn : numericOfStr value (if is16 then some 4 else none) .explDirect = .ok v) :
    create (fuel + 1) ('<' :: value) false is16 defExt = .ok v := by
  have hcomma : value.contains ',' = false := by simpa using hc
  simp only [create, Bool.false_and, Bool.false_eq_true, if_false, beq_self_eq_true, if_true, hs, hcomma, hn]

/-- `left,right` with exactly one comma and no expression on the left -/
theorem create_leftRight {fuel : Nat} {l r : Str} {is16 defExt : Bool}
    (hh : PlainHead (l ++ ',' :: r)) (hs : splitExpr (l ++ ',' :: r) = none) (hl : ',' ∉ l) (hr : ',' ∉ r) :
    create (fuel + 1) (l ++ ',' :: r) false is16 defExt =
      .ok (.leftRight l r (if defExt then .extended else .none)) := by
  have hsp : splitOn ',' (l ++ ',' :: r) = [l, r] := by
    rw [splitOn_append_sep ',' l r hl, splitOn_noSep ',' r hr]
  have hcomma : (l ++ ',' :: r).contains ',' = true := by simp
  generalize hv : l ++ ',' :: r = value at hh hs hsp hcomma
  cases value with
  | nil => simp at hcomma
  | cons c rest =>
    obtain ⟨n1, n2, n3⟩ := hh c (by simp)
    have b1 : (c == '<') = false := by simpa using n1
    have b2 : (c == '>') = false := by simpa using n2
    have b3 : (c == '#') = false := by simpa using n3
    simp only [create, Bool.false_and, Bool.false_eq_true, if_false, b1, b2, b3, hs, hcomma, hsp, if_true]

end CoCo.Asm
