/-
Lemmas/RelocLabel.lean — relocation (C18-R1), part 4a: the operands of a label expression `label ± N` with a SIGNED
constant `N` (repair batches B2, B3), and the expression class `ModExpr`: `label ± N` that BOTH layouts accept, whose
value moves by `D` modulo `$10000`.

* `LabelNum as l r op t a k nn`: the two operands `l`, `r` of a label expression are a label (statement index `t`,
  address `a` in the layout `as`) and a number of magnitude `k`, negative iff `nn`; the constant is
  `signedK k nn`; the label is the LEFT operand unless `op` is `+` (`LabelSide`: since B3 `calculate_address_offset`
  combines the operands in the written order).
* `ModBound D op a k nn`: `a ± c + D ≤ $FFFF` — the moved layout accepts the expression (hence the original one does).
* `ModExpr D as e`: `e` is such an expression.
-/
import CoCoVerif.Lemmas.RelocEmit

namespace CoCo.Asm
open CoCo

/-! ### the operands of `label ± c` -/

/-- `l`, `r` are a label and a number (the label on the left, or in either order when `op` is `+`): the label is
statement `t`, at address `a` in the layout `as`; the number has magnitude `k` and is negative iff `nn` -/
structure LabelNum (as : List Stmt) (l r : Value) (op : Char) (t a k : Nat) (nn : Bool) : Prop where
  other : ∃ hh mm, (if l.isAddress then r else l) = .numeric k hh mm nn
  side : LabelSide l r op
  idx : (if l.isAddress then l.int? else r.int?) = some t
  addr : addrIntOf as t = some a

/-- the usual spelling: `label ± number` -/
theorem LabelNum.mk' {as : List Stmt} {t a k : Nat} {m0 : Mode} {hh : Option Nat} {mm : Mode} {nn : Bool} (op : Char)
    (h : addrIntOf as t = some a) : LabelNum as (.address t m0) (.numeric k hh mm nn) op t a k nn :=
  ⟨⟨hh, mm, rfl⟩, .inl rfl, rfl, h⟩

/-- in the moved layout the label is `D` higher, the constant is the same -/
theorem LabelNum.reloc {D : Nat} {as as' : List Stmt} {l r : Value} {op : Char} {t a k : Nat} {nn : Bool}
    (hpw : PW (AddrShiftI D) as as') (h : LabelNum as l r op t a k nn) : LabelNum as' l r op t (a + D) k nn :=
  ⟨h.other, h.side, h.idx, by rw [addrIntOf_reloc hpw, h.addr]; rfl⟩

/-- the label operand evaluates to its address -/
theorem LabelNum.operand {as : List Stmt} {l r : Value} {op : Char} {t a k : Nat} {nn : Bool}
    (h : LabelNum as l r op t a k nn) : addrOperand as (if l.isAddress then l else r) = .ok (a : Int) := by
  have hA := h.side.isAddress
  have hi : (if l.isAddress then l else r).int? = some t := by
    have := h.idx
    by_cases hl : l.isAddress = true
    · rw [if_pos hl] at this ⊢; exact this
    · rw [if_neg hl] at this ⊢; exact this
  unfold addrOperand
  rw [if_pos hA, hi]
  dsimp only
  rw [h.addr]

/-- `calculate_address_offset` on `label ± c`: the arithmetic of `addrCombine` on the label's address and the
SIGNED constant -/
theorem addrOffset_labelNum {as : List Stmt} {l r : Value} {op : Char} {t a k : Nat} {nn : Bool}
    (h : LabelNum as l r op t a k nn) (m : Mode) (ae : Bool) :
    addrOffset as (.expr l r op m ae) = addrCombine op a (signedK k nn) := by
  obtain ⟨hh, mm, ho⟩ := h.other
  rw [addrOffset_label_num as m ae ho h.side, h.operand]

/-- the arithmetic condition of `ModExpr` and of the class `MovedMod`: the MOVED layout accepts `a ± c` (hence the original one does) -/
def ModBound (D : Nat) (op : Char) (a k : Nat) (nn : Bool) : Prop :=
  (op = '+' ∧ (a : Int) + signedK k nn + D ≤ 65535) ∨ (op = '-' ∧ (a : Int) - signedK k nn + D ≤ 65535)

/-- the expression `e` is `label ± N` (SIGNED `N`) that the moved layout accepts -/
def ModExpr (D : Nat) (as : List Stmt) (e : Value) : Prop :=
  ∃ l r op m t a k nn, e = .expr l r op m true ∧ LabelNum as l r op t a k nn ∧ ModBound D op a k nn


section
variable {D : Nat} {as as' : List Stmt}

/-- the value of `a ± c` in the two layouts, under `ModBound` -/
theorem addrCombine_modBound {op : Char} {a k : Nat} {nn : Bool} (hb : ModBound D op a k nn) :
    ∃ x, x < 65536 ∧ addrCombine op a (signedK k nn) = .ok (.numeric x (some 4) .extended false) ∧
      addrCombine op ((a + D : Nat) : Int) (signedK k nn) = .ok (.numeric ((x + D) % 65536) (some 4) .extended false) := by
  rcases hb with ⟨rfl, h1⟩ | ⟨rfl, h1⟩
  · have p0 : 0 ≤ ((a : Int) + signedK k nn) % 65536 := Int.emod_nonneg _ (by decide)
    have p1 : ((a : Int) + signedK k nn) % 65536 < 65536 := Int.emod_lt_of_pos _ (by decide)
    refine ⟨(((a : Int) + signedK k nn) % 65536).toNat, by omega, ?_, ?_⟩
    · rw [addrCombine_plus_int, if_pos (by omega)]
    · rw [addrCombine_plus_int, if_pos (by omega)]
      congr 2
      omega
  · have p0 : 0 ≤ ((a : Int) - signedK k nn) % 65536 := Int.emod_nonneg _ (by decide)
    have p1 : ((a : Int) - signedK k nn) % 65536 < 65536 := Int.emod_lt_of_pos _ (by decide)
    refine ⟨(((a : Int) - signedK k nn) % 65536).toNat, by omega, ?_, ?_⟩
    · rw [addrCombine_minus_int, if_pos (by omega)]
    · rw [addrCombine_minus_int, if_pos (by omega)]
      congr 2
      omega

/-- `calculate_address_offset` on a `ModExpr` in the two layouts: accepted in both, the values are `x` and
`(x + D) mod $10000` -/
theorem ModExpr.reloc (h : PW (AddrShiftI D) as as') {e : Value} (he : ModExpr D as e) :
    ∃ x, x < 65536 ∧ addrOffset as e = .ok (.numeric x (some 4) .extended false) ∧
      addrOffset as' e = .ok (.numeric ((x + D) % 65536) (some 4) .extended false) := by
  obtain ⟨l, r, op, m, t, a, k, nn, rfl, hl, hb⟩ := he
  obtain ⟨x, hx, e1, e2⟩ := addrCombine_modBound hb
  exact ⟨x, hx, by rw [addrOffset_labelNum hl, e1], by rw [addrOffset_labelNum (hl.reloc h), e2]⟩

theorem ModExpr.isAddrExpr {e : Value} (he : ModExpr D as e) : ∃ l r op m, e = .expr l r op m true := by
  obtain ⟨l, r, op, m, _, _, _, _, rfl, _⟩ := he
  exact ⟨l, r, op, m, rfl⟩

/-- the target of a `needsRes` statement whose offset is a `ModExpr`: `x` resp. `(x + D) mod $10000` -/
theorem fixRelTarget_modExpr (h : PW (AddrShiftI D) as as') {s : Stmt} (hidx : s.isIdx = true)
    (he : ModExpr D as s.pkg.additional) :
    ∃ x, x < 65536 ∧ fixRelTarget as s = .ok x ∧ fixRelTarget as' s = .ok ((x + D) % 65536) := by
  obtain ⟨x, hx, e1, e2⟩ := he.reloc h
  obtain ⟨l, r, op, m, hadd⟩ := he.isAddrExpr
  rw [hadd] at e1 e2
  exact ⟨x, hx, by rw [fixRelTarget_expr _ _ hidx hadd, e1]; rfl, by rw [fixRelTarget_expr _ _ hidx hadd, e2]; rfl⟩

end

end CoCo.Asm
