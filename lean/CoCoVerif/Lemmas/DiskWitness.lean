/-
Lemmas/DiskWitness.lean — a concrete consistent image (blank + one ASCII entry whose last-granule marker
says 0 sectors) on which the tool's listing used to differ from the reference reader (2048 bytes of $FF
instead of an empty file); after the repair of `calculate_file_length` the tool lists exactly what the
reference reader finds. Built from splices of the blank image, so nothing evaluates a 161,280-element list.
-/
import CoCoVerif.Lemmas.DiskReaderB
namespace CoCo.Dsk
open CoCo Spec.DiskBasic CoCo.Props

namespace Witness

/-- directory entry: "A       .TXT", type 1, ASCII flag $FF, first granule 0, 0 bytes in the last sector -/
def E : Bytes := [65, 32, 32, 32, 32, 32, 32, 32, 84, 88, 84, 1, 0xFF, 0, 0, 0,
                  0, 0, 0, 0, 0, 0, 0, 0, 0, 0, 0, 0, 0, 0, 0, 0]

/-- a blank image with that entry in slot 0 and the table entry of granule 0 saying "last granule, 0 sectors" -/
def img : Bytes := splice (splice blank 78592 [0xC0]) 78848 E

theorem len1 : (splice blank 78592 [0xC0]).length = 161280 := by
  rw [splice_length (by rw [blank_length]; simp), blank_length]

theorem in2 : 78848 + E.length ≤ (splice blank 78592 [0xC0]).length := by
  rw [len1]; decide

theorem len : img.length = 161280 := by
  unfold img; rw [splice_length in2, len1]

theorem get (i : Nat) : img[i]? =
    if 78848 ≤ i ∧ i < 78848 + 32 then E[i - 78848]? else if i = 78592 then some 0xC0 else blank[i]? := by
  unfold img
  rw [splice_get in2, splice_get (by rw [blank_length]; simp)]
  have : E.length = 32 := rfl
  rw [this]
  by_cases h1 : 78848 ≤ i ∧ i < 78848 + 32
  · rw [if_pos h1, if_pos h1]
  · rw [if_neg h1, if_neg h1]
    by_cases h2 : i = 78592
    · subst h2; simp
    · have : ¬ (78592 ≤ i ∧ i < 78592 + [192].length) := by simp; omega
      rw [if_neg this, if_neg h2]

theorem get_blank (i : Nat) (h1 : i < 78848 ∨ 78880 ≤ i) (h2 : i ≠ 78592) : img[i]? = blank[i]? := by
  rw [get, if_neg (by omega), if_neg h2]

theorem slice_blank (q n : Nat) (hq : q + n ≤ 161280) (h1 : q + n ≤ 78592 ∨ 78880 ≤ q) :
    (img.drop q).take n = List.replicate n 0xFF := by
  rw [← blank_slice q n hq]
  apply slice_congr
  intro i hi1 hi2
  apply get_blank <;> omega

theorem fat0 : fatAt img 0 = 0xC0 := by
  unfold fatAt fatOff
  rw [List.getD_eq_getElem?_getD, get]
  simp

theorem fatOther (g : Nat) (hg : g < 68) (h0 : g ≠ 0) : fatAt img g = 0xFF := by
  rw [← blank_fatAt g hg]
  apply fatAt_congr
  rw [FAT_eq]
  apply get_blank <;> omega

theorem dir0 : dirEntry img 0 = E := by
  unfold dirEntry dirOff img
  have := splice_read in2
  exact this

theorem dirOther (k : Nat) (hk : k < 72) (h0 : k ≠ 0) : dirEntry img k = List.replicate 32 0xFF := by
  unfold dirEntry dirOff
  exact slice_blank _ _ (by omega) (by omega)

theorem gran (g : Nat) (hg : g < 68) : granuleBytes img g = List.replicate 2304 0xFF := by
  rw [granuleBytes_eq]
  have h1 := seek_in g hg
  have h2 := seek_track17 g hg
  exact slice_blank _ _ h1 (by omega)

def d0 : DFile :=
  { name := [65, 32, 32, 32, 32, 32, 32, 32], ext := [84, 88, 84], ftype := 1, ascii := 0xFF, load := 0, exec := 0,
    data := [] }

/-- the repaired length computation: one granule, marker "0 sectors" = 0 bytes (it used to be -256) -/
theorem fileLength0 : fileLength 1 0xC0 0 = 0 := by
  unfold fileLength; rw [G_eq]; decide

theorem pySlice_zero (s : Bytes) : pySlice s 0 0 = [] := by
  unfold pySlice
  have h1 : ((0 : Int) ≥ 0) := by decide
  rw [if_pos h1]
  rfl

theorem listFrom_prefix (b fat : Bytes) : ∀ (n p : Nat) (acc r : List CFile),
    listFrom b fat n p acc = .ok r → ∃ t, r = acc ++ t := by
  intro n
  induction n with
  | zero => intro p acc r h; rw [listFrom] at h; cases h; exact ⟨[], by simp⟩
  | succ n ih =>
    intro p acc r h
    rw [listFrom] at h
    split at h
    · exact ih _ _ _ h
    · split at h
      · obtain ⟨t, ht⟩ := ih _ _ _ h
        exact ⟨_ :: t, by simpa using ht⟩
      all_goals cases h

/-- the facts about the witness image that the rest of the argument uses (stated for a variable image so
that the kernel never evaluates the 161,280-element list) -/
structure W (b : Bytes) : Prop where
  len : b.length = 161280
  fat0 : fatAt b 0 = 0xC0
  fatOther : ∀ g, g < 68 → g ≠ 0 → fatAt b g = 0xFF
  dir0 : dirEntry b 0 = E
  dirOther : ∀ k, k < 72 → k ≠ 0 → dirEntry b k = List.replicate 32 0xFF
  gran : ∀ g, g < 68 → granuleBytes b g = List.replicate 2304 0xFF
  t17a : (b.drop 78336).take 256 = List.replicate 256 0xFF
  t17b : (b.drop 81152).take 1792 = List.replicate 1792 0xFF

theorem wimg : W img where
  len := len
  fat0 := fat0
  fatOther := fatOther
  dir0 := dir0
  dirOther := dirOther
  gran := gran
  t17a := slice_blank _ _ (by omega) (by omega)
  t17b := slice_blank _ _ (by omega) (by omega)

section generic
variable {b : Bytes} (w : W b)
include w

theorem live_iff (k : Nat) (hk : k < 72) : live (dirEntry b k) = decide (k < 1) := by
  by_cases h0 : k = 0
  · subst h0; rw [w.dir0]; rfl
  · rw [w.dirOther k hk h0]
    have : ¬ k < 1 := by omega
    simp [this, live]

theorem liveSlots_eq : liveSlots b = [0] := by
  unfold liveSlots
  have : (List.range 72).filter (fun k => live (dirEntry b k)) = (List.range 72).filter (fun k => decide (k < 1)) := by
    apply List.filter_congr
    intro k hk
    exact live_iff w k (List.mem_range.mp hk)
  rw [this, filter_range_lt 1 72 (by omega)]
  rfl

theorem chain0 : chainOf b 0 = some ([0], 0) := by
  unfold chainOf
  rw [w.dir0]
  have : entFirst E = 0 := rfl
  rw [this, walk]
  simp [w.fat0]

theorem allGranules_eq : allGranules b = [0] := by
  unfold allGranules
  rw [liveSlots_eq w]
  simp [chain0 w]

theorem stored0 : storedStream b 0 = some [] := by
  unfold storedStream
  rw [chain0 w, w.dir0]
  simp [impliedLength]

theorem fsck : Fsck b := by
  refine ⟨w.len, ?_, ?_, ?_, ?_, ?_⟩
  · intro k hk
    rw [liveSlots_eq w] at hk
    simp at hk; subst hk
    rw [chain0 w]; rfl
  · unfold disjointOK; rw [allGranules_eq w]; simp
  · unfold exactOK exactOKWith; rw [allGranules_eq w]
    intro g hg hne
    by_cases h0 : g = 0
    · simp [h0]
    · exact absurd (w.fatOther g hg h0) hne
  · intro k hk
    rw [liveSlots_eq w] at hk
    simp at hk; subst hk
    unfold lengthOK
    rw [stored0 w, w.dir0]
    rfl
  · unfold untouched untouchedWith
    refine ⟨fun g hg _ => w.gran g hg, w.t17a, ?_⟩
    unfold dirEnd
    exact w.t17b

theorem read_eq : Spec.DiskBasic.read b = some [d0] := by
  unfold Spec.DiskBasic.read
  rw [liveSlots_eq w]
  have : readSlot b 0 = some d0 := by
    unfold readSlot
    rw [stored0 w, w.dir0]
    rfl
  simp [this]

theorem readChain0 : ∃ S : Bytes, S.length = 2304 ∧
    readChain b ((b.drop FAT).take 256) 0 = .ok (S, [0], 0xC0) := by
  refine ⟨(b.drop (seek 0)).take G, ?_, ?_⟩
  · have := seek_in 0 (by omega)
    rw [G_eq]; exact slice_length (by rw [w.len]; omega)
  unfold readChain
  rw [readChainF]
  have h0 : ¬ (0 ≥ Gen.totalGranules ∨ 0 ∈ ([] : List Nat)) := by rw [totalGranules_eq]; simp
  simp only [h0, if_false, fatSlice_get w.len (show 0 < 68 by omega), w.fat0]
  rfl

theorem readEntry0 : readEntry b ((b.drop FAT).take 256) DIR = .ok (ofDFile d0) := by
  have he : (b.drop DIR).take 32 = E := by
    have := w.dir0
    unfold dirEntry dirOff at this
    exact this
  have hn : Cas.utf8Decode (E.take 8) = some (E.take 8) := utf8Decode_ascii _ (by decide)
  have hx : Cas.utf8Decode ((E.drop 8).take 3) = some ((E.drop 8).take 3) := utf8Decode_ascii _ (by decide)
  have hkind : kindOf (E.getD 11 0) (E.getD 12 0) = .ascii := by decide
  have h13 : E.getD 13 0 = 0 := rfl
  have h14 : E.getD 14 0 = 0 := rfl
  have h15 : E.getD 15 0 = 0 := rfl
  have hl1 : ([0] : List Nat).length = 1 := rfl
  have hlb : 0 * 256 + 0 = 0 := rfl
  obtain ⟨S, hS, hrc⟩ := readChain0 w
  unfold readEntry
  simp only [he, hn, hx, hkind, h13, h14, h15, hrc, if_true, hl1, hlb, fileLength0, pySlice_zero]
  rfl

/-- the 71 slots after slot 0 are unused: the directory scan passes over them -/
theorem listFrom_skip (fat : Bytes) : ∀ (n k : Nat) (acc : List CFile), 1 ≤ k → k + n = 72 →
    listFrom b fat n (DIR + 32 * k) acc = .ok acc := by
  intro n
  induction n with
  | zero => intro k acc _ _; rw [listFrom]
  | succ n ih =>
    intro k acc hk hkn
    rw [listFrom]
    have hx : b.getD (DIR + 32 * k) 0 = 255 := by
      rw [← dirEntry_first, w.dirOther k (by omega) (by omega)]
      rfl
    simp only [hx, or_true, if_true]
    have hnext : DIR + 32 * k + 32 = DIR + 32 * (k + 1) := by omega
    rw [hnext]
    exact ih (k + 1) acc (by omega) (by omega)

/-- direct evaluation of the listing on the witness: slot 0 is read as `ofDFile d0`, every other slot is unused -/
theorem list_eq : Dsk.list b = .ok ([d0].map ofDFile) := by
  unfold Dsk.list
  have hl : ¬ b.length < SIZE := by rw [SIZE_eq, w.len]; omega
  rw [if_neg hl, listFrom]
  have hx : b.getD DIR 0 = 65 := by
    have := dirEntry_first b 0
    rw [w.dir0] at this
    exact this.symm
  have h65 : ¬ ((65 : Nat) = 0 ∨ (65 : Nat) = 255) := by decide
  have hnext : DIR + 32 = DIR + 32 * 1 := by omega
  simp only [hx, h65, if_false, readEntry0 w, hnext, listFrom_skip w _ 71 1 _ (Nat.le_refl 1) rfl]
  rfl

/-- the same through the general theorem (the witness is a consistent image) -/
theorem list_eq_general : Dsk.list b = .ok ([d0].map ofDFile) := by
  have hasc : ∀ d ∈ [d0], (∀ c ∈ d.name, c < 128) ∧ (∀ c ∈ d.ext, c < 128) := by
    intro d hd
    simp at hd
    subst hd
    exact ⟨by decide, by decide⟩
  exact list_eq_read (fsck w) (read_eq w) hasc

/-- the witness lies inside the former exclusion of C07 (b) -/
theorem K_true : K_C07_zeroSectorAscii b = true := by
  unfold K_C07_zeroSectorAscii
  rw [liveSlots_eq w]
  simp only [List.any_cons, List.any_nil, Bool.or_false, w.dir0, chain0 w]
  decide

end generic

end Witness
end CoCo.Dsk
