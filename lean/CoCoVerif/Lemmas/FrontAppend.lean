/-
Lemmas/FrontAppend.lean — helper lemmas for C18-R4 (appending statements): every stage of `back`
up to address assignment treats a list `a ++ b` as `a` followed by `b`.
-/
import CoCoVerif.Lemmas.FrontInclude
import CoCoVerif.Lemmas.EncodeResolve

namespace CoCo.Asm
open CoCo
open CoCo.Gen (InstrRow)

/-! ### parse / expand -/

theorem parseLines_append_ok {ls ext : List Str} {r' : List Stmt} (h : parseLines (ls ++ ext) = .ok r') :
    ∃ r rx, parseLines ls = .ok r ∧ parseLines ext = .ok rx ∧ r' = r ++ rx := by
  rw [parseLines_append] at h
  cases h1 : parseLines ls <;> cases h2 : parseLines ext <;> simp_all [oapp]

/-- the expanded statements of `ls` are a prefix of those of `ls ++ ext` -/
theorem front_append_ok {fs : Files} {ls ext : List Str} {r' : List Stmt}
    (h : front fs (ls ++ ext) = .ok r') :
    ∃ r rx, front fs ls = .ok r ∧ front fs ext = .ok rx ∧ r' = r ++ rx := by
  unfold front at h ⊢
  cases hp : parseLines (ls ++ ext) with
  | ok p =>
    obtain ⟨a, b, ha, hb, rfl⟩ := parseLines_append_ok hp
    rw [hp] at h
    rw [ha, hb]
    dsimp only at h ⊢
    rw [show includeFuel fs = fs.length + 1 from rfl, expand_succ, go_append] at h
    obtain ⟨x, y, hx, hy, rfl⟩ := oapp_eq_ok h
    exact ⟨x, y, by rw [show includeFuel fs = fs.length + 1 from rfl, expand_succ, hx],
      by rw [show includeFuel fs = fs.length + 1 from rfl, expand_succ, hy], rfl⟩
  | _ => rw [hp] at h; cases h

/-! ### symbol table -/

theorem buildSymTab_append (a b : List Stmt) : ∀ (i : Nat) (t : SymTab),
    buildSymTab (a ++ b) i t = (buildSymTab a i t).bind (fun t' => buildSymTab b (i + a.length) t') := by
  induction a with
  | nil => intro i t; simp [buildSymTab]
  | cons s rest ih =>
    intro i t
    have e : i + 1 + rest.length = i + (rest.length + 1) := by omega
    rw [List.cons_append, buildSymTab, buildSymTab]
    split
    · rw [ih, e]; rfl
    · split
      · rfl
      · rw [ih, e]; rfl

/-- `buildSymTab` only appends to the table -/
theorem buildSymTab_extends : ∀ (a : List Stmt) (i : Nat) (t t' : SymTab),
    buildSymTab a i t = some t' → ∃ d, t' = t ++ d := by
  intro a
  induction a with
  | nil => intro i t t' h; simp [buildSymTab] at h; exact ⟨[], by simp [h]⟩
  | cons s rest ih =>
    intro i t t' h
    rw [buildSymTab] at h
    split at h
    · exact ih _ _ _ h
    · split at h
      · cases h
      · obtain ⟨d, hd⟩ := ih _ _ _ h
        exact ⟨[_] ++ d, by rw [hd, List.append_assoc]⟩

theorem SymTab.get?_append_of_some {t d : SymTab} {k : Str} {v : Value} (h : t.get? k = some v) :
    (t ++ d).get? k = some v := by
  unfold SymTab.get? at h ⊢
  rw [List.find?_append]
  cases hf : t.find? (·.1 == k) with
  | none => rw [hf] at h; cases h
  | some x => rw [hf] at h; simpa using h

/-- table `t'` answers every lookup that `t` answers, with the same value -/
def SymTab.Le (t t' : SymTab) : Prop := ∀ k v, t.get? k = some v → t'.get? k = some v

/-- when no label is repeated, the table of the longer program extends the table of the shorter -/
theorem buildSymTab_append_le {a b : List Stmt} {t2 : SymTab} (h : buildSymTab (a ++ b) 0 [] = some t2) :
    ∃ t1 d, buildSymTab a 0 [] = some t1 ∧ t2 = t1 ++ d ∧ SymTab.Le t1 t2 := by
  rw [buildSymTab_append] at h
  cases h1 : buildSymTab a 0 [] with
  | none => rw [h1] at h; cases h
  | some t1 =>
    rw [h1] at h
    obtain ⟨d, hd⟩ := buildSymTab_extends b _ t1 t2 h
    exact ⟨t1, d, rfl, hd, fun k v hk => hd ▸ SymTab.get?_append_of_some hk⟩

/-! ### resolve / translate distribute over `++` -/

theorem resolveAll_append (t : SymTab) (a b : List Stmt) :
    resolveAll t (a ++ b) = (resolveAll t a).bind (fun ra => (resolveAll t b).map (ra ++ ·)) := by
  induction a with
  | nil => simp [resolveAll]
  | cons s rest ih =>
    rw [List.cons_append, resolveAll, resolveAll]
    cases resolveOperand s.operand s.row t with
    | error e => rfl
    | ok o =>
      dsimp only
      rw [ih]
      cases resolveAll t rest <;> cases resolveAll t b <;> rfl

theorem translateAll_append (a b : List Stmt) :
    translateAll (a ++ b) = (translateAll a).bind (fun ra => (translateAll b).map (ra ++ ·)) := by
  induction a with
  | nil => simp [translateAll]
  | cons s rest ih =>
    rw [List.cons_append, translateAll, translateAll]
    cases translateOperand s.operand s.row with
    | error e => rfl
    | ok o =>
      dsimp only
      rw [ih]
      cases translateAll rest <;> cases translateAll b <;> rfl

theorem resolveAll_length {t : SymTab} : ∀ {a r : List Stmt}, resolveAll t a = some r → r.length = a.length := by
  intro a
  induction a with
  | nil => intro r h; simp [resolveAll] at h; simp [← h]
  | cons s rest ih =>
    intro r h
    rw [resolveAll] at h
    cases hr : resolveOperand s.operand s.row t with
    | error e => rw [hr] at h; cases h
    | ok o =>
      rw [hr] at h
      dsimp only at h
      cases hr2 : resolveAll t rest with
      | none => rw [hr2] at h; cases h
      | some r2 => rw [hr2] at h; simp at h; subst h; simp [ih hr2]

theorem translateAll_length : ∀ {a r : List Stmt}, translateAll a = some r → r.length = a.length := by
  intro a
  induction a with
  | nil => intro r h; simp [translateAll] at h; simp [← h]
  | cons s rest ih =>
    intro r h
    rw [translateAll] at h
    cases hr : translateOperand s.operand s.row with
    | error e => rw [hr] at h; cases h
    | ok o =>
      rw [hr] at h
      dsimp only at h
      cases hr2 : translateAll rest with
      | none => rw [hr2] at h; cases h
      | some r2 => rw [hr2] at h; simp at h; subst h; simp [ih hr2]

/-! ### no PCR statement: the size loop is the identity -/

theorem pcrLoop_allFixed {n : Nat} {ss : List Stmt} (h : allFixed ss = true) : pcrLoop n ss = .ok ss := by
  cases n <;> simp [pcrLoop, h]

theorem allFixed_append (a b : List Stmt) : allFixed (a ++ b) = (allFixed a && allFixed b) := by
  simp [allFixed]

/-! ### address assignment -/

theorem assignAddrs_append_ok : ∀ (a b : List Stmt) (k : Nat) (r : List Stmt),
    assignAddrs (a ++ b) k = .ok r →
    ∃ ra rb, assignAddrs a k = .ok ra ∧ r = ra ++ rb ∧ ra.length = a.length := by
  intro a
  induction a with
  | nil => intro b k r h; exact ⟨[], r, by simp [assignAddrs], by simp, rfl⟩
  | cons s rest ih =>
    intro b k r h
    rw [List.cons_append, assignAddrs] at h
    rw [assignAddrs]
    split at h
    · rename_i hnone
      rw [if_pos hnone]
      cases hv : numV k with
      | error e => rw [hv] at h; cases h
      | ok v =>
        rw [hv] at h
        dsimp only at h ⊢
        cases hr : assignAddrs (rest ++ b) (k + s.pkg.size) with
        | ok r2 =>
          rw [hr] at h
          obtain ⟨ra, rb, h1, h2, h3⟩ := ih _ _ _ hr
          rw [h1]
          simp only [Outcome.ok.injEq] at h
          exact ⟨_ :: ra, rb, rfl, by rw [← h, h2]; rfl, by simp [h3]⟩
        | _ => rw [hr] at h; cases h
    · rename_i hnone
      rw [if_neg hnone]
      cases hv : s.pkg.address.int? with
      | none => rw [hv] at h; cases h
      | some a' =>
        rw [hv] at h
        dsimp only at h ⊢
        cases hr : assignAddrs (rest ++ b) (a' + s.pkg.size) with
        | ok r2 =>
          rw [hr] at h
          obtain ⟨ra, rb, h1, h2, h3⟩ := ih _ _ _ hr
          rw [h1]
          simp only [Outcome.ok.injEq] at h
          exact ⟨_ :: ra, rb, rfl, by rw [← h, h2]; rfl, by simp [h3]⟩
        | _ => rw [hr] at h; cases h

/-! ### symbol resolution is monotone in the table -/

def lookV (t : SymTab) (x : Value) : R Value :=
  match x with
  | .symbol name _ => (match t.get? name with | some s => .ok s | Option.none => .error .other)
  | x => .ok x

def resolveExprCore (l' r' : Value) (op : Char) (mode : Mode) : R Value :=
  let m := if l'.isExtendedLike || r'.isExtendedLike then Mode.extended else Mode.direct
  match l', r' with
  | .numeric lm _ _ ln, .numeric rm _ _ rn =>
    let li : Int := if ln then -(lm : Int) else lm
    let ri : Int := if rn then -(rm : Int) else rm
    let res : Option Int :=
      if op == '+' then some (li + ri)
      else if op == '-' then some (li - ri)
      else if op == '*' then some (li * ri)
      else if op == '/' then (if ri = 0 then Option.none else some (Int.tdiv li ri))
      else some 0
    match res with
    | Option.none => .error .other
    | some z =>
      let s : Str := if z < 0 then '-' :: (toString z.natAbs).toList else (toString z.natAbs).toList
      let m := if z > 255 && m == .direct then Mode.extended else m
      match numericOfStr s Option.none m with
      | .ok nv => .ok nv
      | .error _ => .error .other
  | _, _ =>
    if l'.isAddress || r'.isAddress then .ok (.expr l' r' op mode true)
    else .error .other

/-! `getSymF` (`Value.get_symbol` with fuel) and `symPost` (what `resolve` makes of the table entry of a symbol) are
defined in `Lemmas/EncodeResolve.lean`, with `resolveF_zero`, `getSymF_none/_plain/_expr`, `resolveF_depth`. -/

/-- `lookV` with `get_symbol` in place of the plain table lookup -/
def lookF (fuel : Nat) (t : SymTab) (x : Value) : R Value :=
  match x with
  | .symbol name _ => getSymF fuel t name
  | x => .ok x

/-- bridge to `Lemmas/EncodeResolve.lean` -/
theorem lookF_eq_lookStep (fuel : Nat) (t : SymTab) (x : Value) : lookF fuel t x = lookStep (getSymF fuel t) x := by
  cases x <;> rfl

theorem resolveF_symbol (fuel : Nat) (t : SymTab) (name : Str) (m : Mode) :
    resolveF (fuel + 1) (.symbol name m) t =
      match getSymF fuel t name with
      | .error e => .error e
      | .ok s => symPost s := by
  rfl

theorem resolveF_expr (fuel : Nat) (t : SymTab) (l r : Value) (op : Char) (mode : Mode) (ae : Bool) :
    resolveF (fuel + 1) (.expr l r op mode ae) t =
      match lookF fuel t l, lookF fuel t r with
      | .ok l', .ok r' => resolveExprCore l' r' op mode
      | _, _ => .error .other := by
  rfl

theorem resolveF_other (fuel : Nat) (t : SymTab) (v : Value) (hs : ∀ n m, v ≠ .symbol n m)
    (he : ∀ l r op m ae, v ≠ .expr l r op m ae) : resolveF (fuel + 1) v t = .ok v := by
  cases v <;> first | rfl | exact absurd rfl (hs _ _) | exact absurd rfl (he _ _ _ _ _)

theorem resolve_eq (v : Value) (t : SymTab) : v.resolve t = resolveF (t.length + 1) v t := rfl

theorem resolve_symbol_eq (t : SymTab) (name : Str) (m : Mode) :
    (Value.symbol name m).resolve t =
      match getSymF t.length t name with
      | .error e => .error e
      | .ok s => symPost s := rfl

/-- STATEMENT CHANGED in batch 4: the operands are looked up by `lookF t.length t` (`get_symbol`: an entry that is an
EQU defined by an expression is evaluated first) where it used to be `lookV t` -/
theorem resolve_expr_eq (t : SymTab) (l r : Value) (op : Char) (mode : Mode) (ae : Bool) :
    (Value.expr l r op mode ae).resolve t =
      match lookF t.length t l, lookF t.length t r with
      | .ok l', .ok r' => resolveExprCore l' r' op mode
      | _, _ => .error .other := by
  rfl

/-- a table without an EQU defined by an expression: `get_symbol` is the plain lookup -/
theorem lookF_eq_lookV {t : SymTab} (ht : ∀ k s, t.get? k = some s → s.isExpression = false) (fuel : Nat)
    (x : Value) : lookF fuel t x = lookV t x := by
  cases x with
  | symbol name m =>
    unfold lookF lookV
    dsimp only
    cases hg : t.get? name with
    | none => exact getSymF_none hg
    | some s => exact getSymF_plain hg (ht _ _ hg)
  | _ => rfl

theorem lookV_mono {t t' : SymTab} (hle : SymTab.Le t t') {x y : Value} (h : lookV t x = .ok y) :
    lookV t' x = .ok y := by
  cases x with
  | symbol name m =>
    unfold lookV at h ⊢
    dsimp only at h ⊢
    cases hg : t.get? name with
    | none => rw [hg] at h; cases h
    | some s => rw [hle _ _ hg]; rw [hg] at h; exact h
  | _ => exact h

/-- one level of `resolveF` only uses the table through `getSymF` -/
theorem resolveF_succ_transfer {t t' : SymTab} {n m : Nat}
    (hsym : ∀ {name : Str} {s : Value}, getSymF n t name = .ok s → getSymF m t' name = .ok s)
    {v r : Value} (h : resolveF (n + 1) v t = .ok r) : resolveF (m + 1) v t' = .ok r := by
  have hlook : ∀ {x y : Value}, lookF n t x = .ok y → lookF m t' x = .ok y := by
    intro x y hx
    cases x with
    | symbol name md => exact hsym hx
    | _ => exact hx
  cases v with
  | symbol name md =>
    rw [resolveF_symbol] at h ⊢
    cases hs : getSymF n t name with
    | error e => rw [hs] at h; cases h
    | ok s => rw [hsym hs]; rw [hs] at h; exact h
  | expr l r' op mode ae =>
    rw [resolveF_expr] at h ⊢
    cases hl : lookF n t l with
    | error e => rw [hl] at h; cases h
    | ok l' =>
      cases hr : lookF n t r' with
      | error e => rw [hl, hr] at h; cases h
      | ok r'' => rw [hlook hl, hlook hr]; rw [hl, hr] at h; exact h
  | _ => exact h

/-- a successful resolution stays the same with more fuel and a table that answers at least the same lookups -/
theorem resolveF_mono_le {t t' : SymTab} (hle : SymTab.Le t t') : ∀ {n n' : Nat}, n ≤ n' → ∀ {v r : Value},
    resolveF n v t = .ok r → resolveF n' v t' = .ok r := by
  intro n
  induction n with
  | zero => intro n' _ v r h; rw [resolveF_zero] at h; cases h
  | succ n ih =>
    intro n' hn v r h
    obtain ⟨m, rfl⟩ : ∃ m, n' = m + 1 := ⟨n' - 1, by omega⟩
    refine resolveF_succ_transfer ?_ h
    intro name s hs
    unfold getSymF at hs ⊢
    cases hg : t.get? name with
    | none => rw [hg] at hs; cases hs
    | some e =>
      rw [hg] at hs
      rw [hle _ _ hg]
      dsimp only at hs ⊢
      split at hs
      · rename_i hc; rw [if_pos hc]; exact ih (by omega) hs
      · rename_i hc; rw [if_neg hc]; exact hs

/-- symbol resolution is monotone in the table (batch 4: the fuel of `resolve` is the length of the table, which may
differ between `t` and `t'`; `resolveF_mono_le` carries the result over with the fuel of `t`, `resolveF_depth` — a chain
of EQUs that can be evaluated has no cycle, so it is no longer than the table — brings the fuel to that of `t'`) -/
theorem Value.resolve_mono {t t' : SymTab} (hle : SymTab.Le t t') {v r : Value}
    (h : v.resolve t = .ok r) : v.resolve t' = .ok r :=
  resolveF_depth t' _ v r (resolveF_mono_le hle (Nat.le_refl _) h)

/-- `resolve` does not depend on the fuel once it succeeds (`resolveF_depth` with implicit arguments) -/
theorem resolve_of_resolveF {t : SymTab} {n : Nat} {v r : Value} (h : resolveF n v t = .ok r) :
    v.resolve t = .ok r :=
  resolveF_depth t n v r h

/-- a resolution that succeeds with some fuel succeeds with any fuel above the length of the table -/
theorem resolveF_lower (L : Nat) (t : SymTab) (hL : t.length ≤ L) {n : Nat} {v r : Value}
    (h : resolveF n v t = .ok r) : resolveF (L + 1) v t = .ok r :=
  resolveF_mono (by omega) (resolve_of_resolveF h)

def leftPost (t : SymTab) (v : Value) : R Value :=
  match v with
  | .pyNone => .error .other
  | _ => if v.isAddrExpr || v.isExpression then v.resolve t else pure v

theorem resolveLeft_eq (l : Str) (row : InstrRow) (t : SymTab) :
    resolveLeft l row t =
      match create 4 l row.isStringDefine row.is16Bit false with
      | .error e => .error e
      | .ok v =>
        if v.isSymbol then (match v.resolve t with | .error e => .error e | .ok v2 => leftPost t v2)
        else leftPost t v := by
  unfold resolveLeft
  cases create 4 l row.isStringDefine row.is16Bit false with
  | error e => rfl
  | ok v =>
    simp only [bind, Except.bind]
    by_cases hs : v.isSymbol = true
    · simp only [hs, if_true]
      cases v.resolve t <;> rfl
    · simp only [hs]; rfl

theorem leftPost_mono {t t' : SymTab} (hle : SymTab.Le t t') {v r : Value}
    (h : leftPost t v = .ok r) : leftPost t' v = .ok r := by
  by_cases hp : v = .pyNone
  · subst hp; simp [leftPost] at h
  · have e : ∀ t, leftPost t v = if v.isAddrExpr || v.isExpression then v.resolve t else pure v := by
      intro t; cases v <;> first | rfl | exact absurd rfl hp
    rw [e] at h ⊢
    split at h
    · rename_i hc; rw [if_pos hc]; exact Value.resolve_mono hle h
    · rename_i hc; rw [if_neg hc]; exact h

theorem resolveLeft_mono {t t' : SymTab} (hle : SymTab.Le t t') {l : Str} {row : InstrRow} {r : Value}
    (h : resolveLeft l row t = .ok r) : resolveLeft l row t' = .ok r := by
  rw [resolveLeft_eq] at h ⊢
  cases hc : create 4 l row.isStringDefine row.is16Bit false with
  | error e => rw [hc] at h; cases h
  | ok v =>
    rw [hc] at h
    dsimp only at h ⊢
    split at h
    · rename_i hs
      rw [if_pos hs]
      cases hr : v.resolve t with
      | error e => rw [hr] at h; cases h
      | ok v2 => rw [hr] at h; rw [Value.resolve_mono hle hr]; exact leftPost_mono hle h
    · rename_i hs
      rw [if_neg hs]; exact leftPost_mono hle h

theorem map_ok {α β} {f : α → β} {x : R α} {y : β} (h : x.map f = .ok y) : ∃ a, x = .ok a ∧ f a = y := by
  cases x with
  | error e => cases h
  | ok a => exact ⟨a, rfl, by simpa [Except.map] using h⟩

theorem resolveOperand_mono {t t' : SymTab} (hle : SymTab.Le t t') {o r : Operand} {row : InstrRow}
    (h : resolveOperand o row t = .ok r) : resolveOperand o row t' = .ok r := by
  have hleft : ∀ (l : Str),
      (if (l != [] && !isABD l) = true then
          (resolveLeft l row t).map (fun v => { o with left := .val v }) else .ok o) = .ok r →
      (if (l != [] && !isABD l) = true then
          (resolveLeft l row t').map (fun v => { o with left := .val v }) else .ok o) = .ok r := by
    intro l h
    split at h
    · rename_i hc
      rw [if_pos hc]
      obtain ⟨a, ha, hf⟩ := map_ok h
      rw [resolveLeft_mono hle ha]; exact congrArg Except.ok hf
    · rename_i hc; rw [if_neg hc]; exact h
  have hval : ∀ {β : Type} (f : Value → R β) (x : β),
      (match o.value.resolve t with | .error e => .error e | .ok v => f v) = Except.ok x →
      (match o.value.resolve t' with | .error e => .error e | .ok v => f v) = Except.ok x := by
    intro β f x h
    cases hr : o.value.resolve t with
    | error e => rw [hr] at h; cases h
    | ok v => rw [Value.resolve_mono hle hr]; rw [hr] at h; exact h
  unfold resolveOperand at h ⊢
  cases hk : o.kind <;> simp only [hk] at h ⊢ <;> first | exact h | exact hval _ _ h | skip
  · -- pseudo
    split at h
    · rename_i hc
      rw [if_pos hc]
      cases hv : o.value <;> rw [hv] at h <;> dsimp only at h ⊢ <;>
        first
        | (cases h; done)
        | exact h
        | (split at h
           · rename_i hc2; rw [if_pos hc2]
             obtain ⟨a, ha, hf⟩ := map_ok h
             rw [Value.resolve_mono hle ha]; exact congrArg Except.ok hf
           · rename_i hc2; rw [if_neg hc2]; exact h)
    · rename_i hc; rw [if_neg hc]; exact h
  · -- extIndirect
    split at h
    · rename_i hc
      rw [if_pos hc]
      obtain ⟨a, ha, hf⟩ := map_ok h
      rw [Value.resolve_mono hle ha]; exact congrArg Except.ok hf
    · rename_i hc
      rw [if_neg hc]
      cases hl : o.left with
      | text l => rw [hl] at h; exact hk ▸ hleft l (hk ▸ h)
      | _ => rw [hl] at h; exact h
  · -- indexed
    cases hl : o.left with
    | text l => rw [hl] at h; exact hk ▸ hleft l (hk ▸ h)
    | _ => rw [hl] at h; exact h

theorem resolveAll_mono {t t' : SymTab} (hle : SymTab.Le t t') : ∀ {a r : List Stmt},
    resolveAll t a = some r → resolveAll t' a = some r := by
  intro a
  induction a with
  | nil => intro r h; exact h
  | cons s rest ih =>
    intro r h
    rw [resolveAll] at h ⊢
    cases hr : resolveOperand s.operand s.row t with
    | error e => rw [hr] at h; cases h
    | ok o =>
      rw [hr] at h
      rw [resolveOperand_mono hle hr]
      dsimp only at h ⊢
      cases hr2 : resolveAll t rest with
      | none => rw [hr2] at h; cases h
      | some r2 => rw [ih hr2]; rw [hr2] at h; exact h

/-! ### `back` = `layout` ; `finish` -/

/-- `back` up to and including address assignment: the symbol table and the statements with their
sizes and addresses (the `additional` fields are patched afterwards by `fixAll`) -/
def layout (ss0 : List Stmt) : Outcome (SymTab × List Stmt) :=
  match buildSymTab ss0 0 [] with
  | none => .diag
  | some t =>
    match resolveAll t ss0 with
    | none => .diag
    | some ss1 =>
      match translateAll ss1 with
      | none => .diag
      | some ss2 =>
        match pcrLoop (ss2.length + 1) ss2 with
        | .ok ss3 =>
          if !orgOK ss3 false then .diag else
          match assignAddrs ss3 0 with
          | .ok ss4 => .ok (t, ss4)
          | .diag => .diag
          | .internal => .internal
          | .diverged => .diverged
        | .diag => .diag
        | .internal => .internal
        | .diverged => .diverged

/-- the rest of `back`: `fix_addresses`, the final symbol table, origin and name -/
def finish (t : SymTab) (ss4 : List Stmt) : Outcome Assembly :=
  match fixAllL t ss4 with
  | .ok ss5 =>
    match evalSyms ss5 t t with
    | .ok t1 =>
      match finalSymTab ss5 t1 with
      | .ok t' =>
        let origin := ss5.foldl (fun o s => if s.row.isOrigin then s.pkg.address else o) Value.none
        let name := ss5.foldl (fun o s => if s.row.isName then some s.operand.text else o) none
        .ok { stmts := ss5, symtab := t', origin := origin, name := name }
      | .diag => .diag
      | .internal => .internal
      | .diverged => .diverged
    | .diag => .diag
    | .internal => .internal
    | .diverged => .diverged
  | .diag => .diag
  | .internal => .internal
  | .diverged => .diverged

theorem back_eq (ss0 : List Stmt) :
    back ss0 = match layout ss0 with
      | .ok (t, ss4) => finish t ss4
      | .diag => .diag
      | .internal => .internal
      | .diverged => .diverged := by
  unfold back layout finish
  cases buildSymTab ss0 0 [] with
  | none => rfl
  | some t =>
    dsimp only
    cases resolveAll t ss0 with
    | none => rfl
    | some ss1 =>
      dsimp only
      cases translateAll ss1 with
      | none => rfl
      | some ss2 =>
        dsimp only
        cases pcrLoop (ss2.length + 1) ss2 with
        | ok ss3 =>
          dsimp only
          cases orgOK ss3 false with
          | false => rfl
          | true =>
          simp only [Bool.not_true, Bool.false_eq_true, if_false]
          cases assignAddrs ss3 0 <;> rfl
        | _ => rfl

/-- no statement needs the PCR size loop: after `translateAll` every statement has a fixed size -/
def NoPcr (ss0 : List Stmt) : Prop :=
  ∀ t ss1 ss2, buildSymTab ss0 0 [] = some t → resolveAll t ss0 = some ss1 → translateAll ss1 = some ss2 →
    allFixed ss2 = true

theorem layout_ok' {ss0 : List Stmt} {t : SymTab} {ss4 : List Stmt} (h : layout ss0 = .ok (t, ss4)) :
    ∃ ss1 ss2 ss3, buildSymTab ss0 0 [] = some t ∧ resolveAll t ss0 = some ss1 ∧
      translateAll ss1 = some ss2 ∧ pcrLoop (ss2.length + 1) ss2 = .ok ss3 ∧ orgOK ss3 false = true ∧
      assignAddrs ss3 0 = .ok ss4 := by
  unfold layout at h
  cases h1 : buildSymTab ss0 0 [] with
  | none => rw [h1] at h; cases h
  | some t' =>
    rw [h1] at h; dsimp only at h
    cases h2 : resolveAll t' ss0 with
    | none => rw [h2] at h; cases h
    | some ss1 =>
      rw [h2] at h; dsimp only at h
      cases h3 : translateAll ss1 with
      | none => rw [h3] at h; cases h
      | some ss2 =>
        rw [h3] at h; dsimp only at h
        cases h4 : pcrLoop (ss2.length + 1) ss2 with
        | ok ss3 =>
          rw [h4] at h; dsimp only at h
          cases hq : orgOK ss3 false with
          | false => rw [hq] at h; simp at h
          | true =>
          rw [hq] at h
          simp only [Bool.not_true, Bool.false_eq_true, if_false] at h
          cases h5 : assignAddrs ss3 0 with
          | ok ss4' =>
            rw [h5] at h
            simp only [Outcome.ok.injEq, Prod.mk.injEq] at h
            obtain ⟨rfl, rfl⟩ := h
            exact ⟨ss1, ss2, ss3, rfl, h2, h3, h4, hq, h5⟩
          | _ => rw [h5] at h; cases h
        | _ => rw [h4] at h; cases h

theorem layout_ok {ss0 : List Stmt} {t : SymTab} {ss4 : List Stmt} (h : layout ss0 = .ok (t, ss4)) :
    ∃ ss1 ss2 ss3, buildSymTab ss0 0 [] = some t ∧ resolveAll t ss0 = some ss1 ∧
      translateAll ss1 = some ss2 ∧ pcrLoop (ss2.length + 1) ss2 = .ok ss3 ∧ assignAddrs ss3 0 = .ok ss4 := by
  obtain ⟨ss1, ss2, ss3, h0, h1, h2, h3, _, h5⟩ := layout_ok' h
  exact ⟨ss1, ss2, ss3, h0, h1, h2, h3, h5⟩

/-- Prefix stability of the layout for programs without PCR statements: if `a ++ b` lays out and `a`
alone lays out (no reference from `a` into `b`), the statements of `a` get the same sizes and addresses,
and the symbol table of `a ++ b` extends that of `a`. -/
theorem layout_prefix {a b : List Stmt} {t1 t2 : SymTab} {la lab : List Stmt}
    (ha : layout a = .ok (t1, la)) (hab : layout (a ++ b) = .ok (t2, lab)) (hn : NoPcr (a ++ b)) :
    (∃ d, t2 = t1 ++ d) ∧ SymTab.Le t1 t2 ∧ (∃ lb, lab = la ++ lb) ∧ la.length = a.length ∧ NoPcr a := by
  obtain ⟨a1, a2, a3, hA0, hA1, hA2, hA3, hA4⟩ := layout_ok ha
  obtain ⟨s1, s2, s3, hB0, hB1, hB2, hB3, hB4⟩ := layout_ok hab
  obtain ⟨t1', d, hT, hd, hle⟩ := buildSymTab_append_le hB0
  rw [hA0] at hT
  cases hT
  -- resolve
  have hR := resolveAll_mono hle hA1
  rw [resolveAll_append, hR] at hB1
  cases hb1 : resolveAll t2 b with
  | none => rw [hb1] at hB1; cases hB1
  | some b1 =>
    rw [hb1] at hB1
    simp only [Option.bind, Option.map, Option.some.injEq] at hB1
    subst hB1
    -- translate
    rw [translateAll_append, hA2] at hB2
    cases hb2 : translateAll b1 with
    | none => rw [hb2] at hB2; cases hB2
    | some b2 =>
      rw [hb2] at hB2
      simp only [Option.bind, Option.map, Option.some.injEq] at hB2
      subst hB2
      -- pcr
      have hfix := hn t2 _ _ hB0 (by rw [resolveAll_append, hR, hb1]; rfl)
        (by rw [translateAll_append, hA2, hb2]; rfl)
      rw [pcrLoop_allFixed hfix] at hB3
      cases hB3
      rw [allFixed_append, Bool.and_eq_true] at hfix
      rw [pcrLoop_allFixed hfix.1] at hA3
      cases hA3
      -- addresses
      obtain ⟨ra, rb, h1, h2, h3⟩ := assignAddrs_append_ok _ _ _ _ hB4
      rw [hA4] at h1
      cases h1
      refine ⟨⟨d, hd⟩, hle, ⟨rb, h2⟩, ?_, ?_⟩
      · rw [h3, translateAll_length hA2, resolveAll_length hA1]
      · intro t x1 x2 g0 g1 g2
        rw [hA0] at g0; cases g0
        rw [hA1] at g1; cases g1
        rw [hA2] at g2; cases g2
        exact hfix.1

end CoCo.Asm
