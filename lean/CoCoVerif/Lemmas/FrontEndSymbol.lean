/-
Lemmas/FrontEndSymbol.lean — the source-text front end of one machine instruction whose operand NAMES A SYMBOL:
`Operand.create_from_str` (`createOperand`) followed by `resolve_symbols` (`resolveOperand`) with a symbol table `t`
in which the name is bound to a numeric constant (what `NAME EQU <literal>` stores).  `frontEndT`, `encodeTextT`,
`TextEncodesT` are `frontEnd`, `encodeText`, `TextEncodes` (Lemmas/FrontEndOperand.lean) with the table as a
parameter; for `t = []` they are the same definitions.

What `resolve_symbols` makes of a symbol bound to a number: `NumericValue(symbol.signed())` — the stored size hint and
mode of the EQU play no role, only the signed value `z`: `symNum z` (hint 2 / DIRECT below 256 in magnitude, no hint /
EXTENDED otherwise, negative flag for `z < 0`).
-/
import CoCoVerif.Lemmas.FrontEndOperand
import CoCoVerif.Lemmas.RenameText

namespace CoCo.Asm
open CoCo CoCo.Spec.MC6809
open CoCo.Gen (InstrRow)

/-! ### the end-to-end function with a symbol table -/

/-- operand text to the resolved operand: `createOperand` then `resolveOperand` with the symbol table `t` -/
def frontEndT (t : SymTab) (row : InstrRow) (text : Str) : R Operand :=
  match createOperand text row with
  | .ok o => resolveOperand o row t
  | .error e => .error e

/-- operand text of an instruction of row `row` to `(size, bytes)` under the symbol table `t` (`encodeText` is the
case `t = []`) -/
def encodeTextT (t : SymTab) (row : InstrRow) (text : Str) : Option (Nat × Bytes) :=
  match frontEndT t row text with
  | .ok o =>
    match translateOperand o row with
    | .ok pkg =>
      (match fitWidth (mkStmt row o pkg) with
       | .ok s' => (stmtBytes s').map (fun b => (pkg.size, b))
       | _ => none)
    | .error _ => none
  | .error _ => none

theorem frontEndT_nil (row : InstrRow) (text : Str) : frontEndT [] row text = frontEnd row text := rfl
theorem encodeTextT_nil (row : InstrRow) (text : Str) : encodeTextT [] row text = encodeText row text := rfl

/-- the text-level statement of C01 (ii) under a symbol table: the operand text assembles to `size` bytes which the
datasheet decoder reads back as the operation of the row with operand `x`, consuming all of them -/
def TextEncodesT (t : SymTab) (r : InstrRow) (text : Str) (x : Spec.MC6809.Operand) : Prop :=
  ∃ size bytes, encodeTextT t r text = some (size, bytes) ∧ bytes.length = size ∧
    decode bytes = some (⟨opOf r.mnemonic, x⟩, size)

theorem textEncodesT_nil (r : InstrRow) (text : Str) (x : Spec.MC6809.Operand) :
    TextEncodesT [] r text x ↔ TextEncodes r text x := Iff.rfl

theorem textEncodesT_of {t : SymTab} {r : InstrRow} {text : Str} {o : Operand} {x : Spec.MC6809.Operand}
    (hf : frontEndT t r text = .ok o) (he : Encodes o r x) : TextEncodesT t r text x := by
  obtain ⟨pkg, bytes, ht, _, hb, hl, hd⟩ := he
  refine ⟨pkg.size, bytes, ?_, hl, by rw [← hl]; exact hd⟩
  obtain ⟨s', hf', hb'⟩ := hb (mkStmt r o pkg) rfl rfl rfl
  simp [encodeTextT, hf, ht, hf', hb']

theorem encodeTextT_none_of {t : SymTab} {r : InstrRow} {text : Str} {o : Operand} {e : Exn}
    (hf : frontEndT t r text = .ok o) (ht : translateOperand o r = .error e) : encodeTextT t r text = none := by
  simp only [encodeTextT, hf, ht]

theorem encodeTextT_none_of_fit {t : SymTab} {r : InstrRow} {text : Str} {o : Operand} {pkg : Pkg}
    (hf : frontEndT t r text = .ok o) (ht : translateOperand o r = .ok pkg)
    (hd : ∀ s : Stmt, s.row = r → s.operand = o → s.pkg = pkg → fitWidth s = .diag) : encodeTextT t r text = none := by
  simp only [encodeTextT, hf, ht, hd (mkStmt r o pkg) rfl rfl rfl]

/-! ### symbol names and bindings -/

/-- a symbol name as `Value.create_from_str` reads it: not empty, made of `[\w@]`, not a string of digits (so it is
not a number literal; a name cannot contain an operator, a comma, a quote or a mode prefix, so it is not an
expression, a `left,right` pair or a character literal either).  Decidable. -/
abbrev IsSymName (nm : Str) : Prop := Rename.isSymName nm = true

/-- `nm` is bound in `t` to a numeric constant of signed value `z` — whatever size hint and mode the EQU stored -/
def Binds (t : SymTab) (nm : Str) (z : Int) : Prop :=
  ∃ i h m ng, t.get? nm = some (.numeric i h m ng) ∧ z = (if ng then -(i : Int) else i)

/-- `NumericValue(z)` with neither size hint nor mode: what `resolve` returns for a symbol of value `z` -/
def symNum (z : Int) : Value :=
  .numeric z.natAbs (if z.natAbs < 256 then some 2 else none) (if z.natAbs < 256 then .direct else .extended)
    (decide (z < 0))

theorem numericOfInt_none_none {z : Int} (hz : z ≤ 65535) : numericOfInt z none .none = .ok (symNum z) := by
  have h1 : ¬ z > 65535 := by omega
  by_cases hlt : z.natAbs < 256 <;> simp [numericOfInt, symNum, initHint, postInit, h1, hlt]

theorem resolve_symbol_binds {t : SymTab} {nm : Str} {z : Int} (hb : Binds t nm z) (hz : z ≤ 65535) (m : Mode) :
    (Value.symbol nm m).resolve t = .ok (symNum z) := by
  obtain ⟨i, h, m', ng, hg, rfl⟩ := hb
  rw [resolve_symbol_of_get hg rfl]
  simp only [symPost, Value.isAddress, Value.isNumeric, Bool.false_eq_true, if_false, if_true]
  exact numericOfInt_none_none hz

theorem symNum_isNumeric (z : Int) : (symNum z).isNumeric = true := rfl

/-! ### `create` on a name with and without a mode prefix -/

theorem isSym_ne_bracket {c : Char} (h : isSym c = true) : c ≠ '[' := by
  rintro rfl; revert h; decide

theorem symName_ne_nil {nm : Str} (h : IsSymName nm) : nm ≠ [] := (Rename.isSymName_iff.mp h).1

theorem symName_all {nm : Str} (h : IsSymName nm) : ∀ c ∈ nm, isSym c = true := (Rename.isSymName_iff.mp h).2.1

theorem symName_no_comma {nm : Str} (h : IsSymName nm) : ',' ∉ nm := by
  intro hm
  exact (Rename.isSym_ne (symName_all h _ hm)).2.2.2.2.1 rfl

theorem symName_head {nm : Str} (h : IsSymName nm) (tl : Str) : OperandHead (nm ++ tl) := by
  cases nm with
  | nil => exact absurd rfl (symName_ne_nil h)
  | cons a u =>
    have ha := symName_all h a (by simp)
    have := Rename.isSym_ne ha
    exact operandHead_cons _ ⟨this.2.2.2.2.2.1, this.2.2.2.2.2.2.1, this.2.2.2.2.2.2.2, isSym_ne_bracket ha⟩

theorem symName_head' {nm : Str} (h : IsSymName nm) : OperandHead nm := by
  simpa using symName_head h []

/-- `nm` : a symbol in the default mode -/
theorem createV_sym {nm : Str} (h : IsSymName nm) (is16 : Bool) :
    createV nm false is16 = .ok (.symbol nm .extended) := by
  simpa [createV] using Rename.create_symName h 3 is16 true

/-- the left part of `nm,R` : default mode NONE -/
theorem create_sym_none {nm : Str} (h : IsSymName nm) (is16 : Bool) :
    create 4 nm false is16 false = .ok (.symbol nm .none) := by
  simpa using Rename.create_symName h 3 is16 false

/-- `#nm` -/
theorem createV_imm_sym {nm : Str} (h : IsSymName nm) (is16 : Bool) :
    createV ('#' :: nm) false is16 = .ok (.symbol nm .immediate) := by
  unfold createV
  rw [create_succ]
  simp only [Bool.false_and, Bool.false_eq_true, if_false]
  have : stripPrefix '#' nm true = (Mode.immediate, nm) := by simp [stripPrefix]
  rw [this]
  exact Rename.createBody_symName h _ _ _

/-- `<nm` -/
theorem createV_lt_sym {nm : Str} (h : IsSymName nm) (is16 : Bool) :
    createV ('<' :: nm) false is16 = .ok (.symbol nm .explDirect) := by
  unfold createV
  rw [create_succ]
  simp only [Bool.false_and, Bool.false_eq_true, if_false]
  have : stripPrefix '<' nm true = (Mode.explDirect, nm) := by simp [stripPrefix]
  rw [this]
  exact Rename.createBody_symName h _ _ _

/-- `>nm` -/
theorem createV_gt_sym {nm : Str} (h : IsSymName nm) (is16 : Bool) :
    createV ('>' :: nm) false is16 = .ok (.symbol nm .explExtended) := by
  unfold createV
  rw [create_succ]
  simp only [Bool.false_and, Bool.false_eq_true, if_false]
  have : stripPrefix '>' nm true = (Mode.explExtended, nm) := by simp [stripPrefix]
  rw [this]
  exact Rename.createBody_symName h _ _ _

/-- `nm,right` : the character after the name is a comma, so there is no expression -/
theorem splitExpr_sym_comma {nm : Str} (h : IsSymName nm) (r : Str) : splitExpr (nm ++ ',' :: r) = none := by
  have hsym := symName_all h
  cases nm with
  | nil => exact absurd rfl (symName_ne_nil h)
  | cons a u =>
    have ha := hsym a (by simp)
    have hd : (a == '$') = false := Rename.isSym_not_dollar ha
    have h1 : ((a :: u) ++ ',' :: r).dropWhile (· == '$') = (a :: u) ++ ',' :: r := by simp [hd]
    have hw : isSym ',' = false := by decide
    have h2 : ((a :: u) ++ ',' :: r).takeWhile isSym = a :: u := by
      rw [List.takeWhile_append_of_pos hsym]; simp [hw]
    have h3 : ((a :: u) ++ ',' :: r).dropWhile isSym = ',' :: r := by
      rw [List.dropWhile_append_of_pos hsym]; simp [hw]
    have ho : opChar ',' = false := by decide
    simp only [splitExpr, h1, h2, h3]
    simp [ho]

/-! ### `createOperand` on a symbol value -/

section cascade
variable {row : InstrRow} (hf : InstrFlags row)
include hf

/-- not bracketed, the value is a symbol in a mode other than IMMEDIATE: UnknownOperand -/
theorem createOperand_unknown_sym {s nm : Str} {m : Mode} (hne : s ≠ []) (hb : s.head? ≠ some '[')
    (hm : m ≠ .immediate) (hv : createV s false row.is16Bit = .ok (.symbol nm m)) :
    createOperand s row = .ok { kind := .unknown, text := s, value := .symbol nm m } := by
  have he : s.isEmpty = false := by cases s <;> simp_all
  have hb' : (s.head? == some '[') = false := by simpa using hb
  simp [createOperand, hf.notPseudo, hf.notSpecial, hf.notShort, hf.notLong, hf.notStr, he, hb', hv,
    Value.isImmediate, Value.mode, hm]

theorem createOperand_immediate_sym {s nm : Str} (hne : s ≠ []) (hb : s.head? ≠ some '[')
    (hv : createV s false row.is16Bit = .ok (.symbol nm .immediate)) :
    createOperand s row = .ok { kind := .immediate, text := s, value := .symbol nm .immediate } := by
  have he : s.isEmpty = false := by cases s <;> simp_all
  have hb' : (s.head? == some '[') = false := by simpa using hb
  simp [createOperand, hf.notPseudo, hf.notSpecial, hf.notShort, hf.notLong, hf.notStr, he, hb', hv,
    Value.isImmediate, Value.mode]

/-- `[inner]` with a symbol inside -/
theorem createOperand_bracket_sym {inner nm : Str} {m : Mode}
    (hv : createV inner false row.is16Bit = .ok (.symbol nm m)) :
    createOperand ('[' :: (inner ++ [']'])) row =
      .ok { kind := .extIndirect, text := '[' :: (inner ++ [']']), value := .symbol nm m } := by
  have h1 : (('[' :: (inner ++ [']'])).getLast? == some ']') = true := by
    simp [List.getLast?_cons, List.getLast?_append]
  have h2 : (('[' :: (inner ++ [']'])).drop 1).dropLast = inner := by simp
  simp only [createOperand, hf.notPseudo, hf.notSpecial, hf.notShort, hf.notLong, hf.notStr, Bool.false_eq_true,
    if_false, Bool.or_self, List.isEmpty_cons, List.head?_cons, beq_self_eq_true, h1, Bool.and_self, if_true, h2, hv]

end cascade

/-! ### `resolveOperand` on a bound symbol -/

section resolve
variable {t : SymTab} {nm : Str} {z : Int} (hb : Binds t nm z) (hz : z ≤ 65535)
include hb hz

/-- `#nm` : the ImmediateOperand carries the resolved number -/
theorem resolveOperand_immediate_sym (row : InstrRow) (s : Str) (m : Mode) :
    resolveOperand { kind := .immediate, text := s, value := .symbol nm m } row t =
      .ok { kind := .immediate, text := s, value := symNum z } := by
  simp [resolveOperand, resolve_symbol_binds hb hz]

/-- `>nm` : an ExtendedOperand whatever the value -/
theorem resolveOperand_unknown_gt_sym (row : InstrRow) (s : Str) :
    resolveOperand { kind := .unknown, text := s, value := .symbol nm .explExtended } row t =
      .ok { kind := .extended, text := s, value := symNum z } := by
  simp [resolveOperand, resolve_symbol_binds hb hz, Value.isExplicitExtended, Value.mode]

/-- `nm`, `<nm` with a NON-NEGATIVE value that is a direct-page value (`nm`: below 256) or forced direct (`<nm`): a
DirectOperand whose value is REBUILT -/
theorem resolveOperand_unknown_direct_sym (row : InstrRow) (s : Str) {m : Mode} (hm : m = .extended ∨ m = .explDirect)
    (h0 : 0 ≤ z) (hd : z < 256 ∨ m = .explDirect) :
    resolveOperand { kind := .unknown, text := s, value := .symbol nm m } row t =
      .ok { kind := .direct, text := s,
            value := .numeric z.natAbs (if z.natAbs < 256 then some 2 else none) .direct false } := by
  have hng : ¬ z < 0 := by omega
  have a : ¬ ((z.natAbs : Int) > 65535) := by omega
  have b : ¬ ((z.natAbs : Int) < 0) := by omega
  have hee : (m == Mode.explExtended) = false := by rcases hm with rfl | rfl <;> rfl
  by_cases hlt : z.natAbs < 256
  · simp [resolveOperand, resolve_symbol_binds hb hz, symNum, Value.isExplicitExtended, Value.isDirect,
      Value.isExplicitDirect, Value.mode, hee, hng, hlt, numericOfInt, a, initHint, postInit, Except.map]
  · have hm' : m = .explDirect := by
      rcases hd with h | h
      · omega
      · exact h
    subst hm'
    simp [resolveOperand, resolve_symbol_binds hb hz, symNum, Value.isExplicitExtended, Value.isDirect,
      Value.isExplicitDirect, Value.mode, hng, hlt, numericOfInt, a, initHint, postInit, Except.map]

/-- `nm` with a value of 256 or more (or a negative one): an ExtendedOperand carrying the resolved number -/
theorem resolveOperand_unknown_extended_sym (row : InstrRow) (s : Str) (hlarge : z < 0 ∨ 256 ≤ z) :
    resolveOperand { kind := .unknown, text := s, value := .symbol nm .extended } row t =
      .ok { kind := .extended, text := s, value := symNum z } := by
  by_cases hng : z < 0
  · simp [resolveOperand, resolve_symbol_binds hb hz, symNum, Value.isExplicitExtended, Value.isDirect,
      Value.isExplicitDirect, Value.mode, hng]
  · have hlt : ¬ z.natAbs < 256 := by omega
    simp [resolveOperand, resolve_symbol_binds hb hz, symNum, Value.isExplicitExtended, Value.isDirect,
      Value.isExplicitDirect, Value.mode, hng, hlt]

/-- `[nm]` -/
theorem resolveOperand_bracket_sym (row : InstrRow) (s : Str) (m : Mode) :
    resolveOperand { kind := .extIndirect, text := s, value := .symbol nm m } row t =
      .ok { kind := .extIndirect, text := s, value := symNum z } := by
  simp [resolveOperand, resolve_symbol_binds hb hz, Value.isNone, Value.isLeftRight, Except.map]

/-- the left part `nm` of `nm,R` -/
theorem resolveLeft_sym {row : InstrRow} (hsd : row.isStringDefine = false) (hn : IsSymName nm) :
    resolveLeft nm row t = .ok (symNum z) := by
  simp [resolveLeft, hsd, create_sym_none hn, resolve_symbol_binds hb hz, bind, Except.bind, Value.isSymbol, symNum,
    Value.isAddrExpr, Value.isExpression, pure, Except.pure]

end resolve

/-! ### `frontEndT` per family -/

section families
variable {row : InstrRow} (hf : InstrFlags row) {t : SymTab} {nm : Str} {z : Int} (hn : IsSymName nm)
  (hb : Binds t nm z) (hz : z ≤ 65535)
include hf hn hb hz

/-- `#nm` -/
theorem frontEndT_imm_sym :
    frontEndT t row ('#' :: nm) = .ok { kind := .immediate, text := '#' :: nm, value := symNum z } := by
  simp [frontEndT, createOperand_immediate_sym hf (by simp) (by simp) (createV_imm_sym hn row.is16Bit),
    resolveOperand_immediate_sym hb hz]

/-- `nm`, 0 ≤ value < 256: DIRECT -/
theorem frontEndT_direct_sym (h0 : 0 ≤ z) (h8 : z < 256) :
    frontEndT t row nm = .ok { kind := .direct, text := nm, value := .numeric z.natAbs (some 2) .direct false } := by
  have hlt : z.natAbs < 256 := by omega
  have := resolveOperand_unknown_direct_sym hb hz row nm (m := .extended) (Or.inl rfl) h0 (Or.inl h8)
  simp only [hlt, if_true] at this
  simp [frontEndT, createOperand_unknown_sym hf (symName_ne_nil hn) (symName_head' hn).noBracket (by decide)
    (createV_sym hn row.is16Bit), this]

/-- `nm`, value ≥ 256 (or negative): EXTENDED -/
theorem frontEndT_extended_sym (hlarge : z < 0 ∨ 256 ≤ z) :
    frontEndT t row nm = .ok { kind := .extended, text := nm, value := symNum z } := by
  simp [frontEndT, createOperand_unknown_sym hf (symName_ne_nil hn) (symName_head' hn).noBracket (by decide)
    (createV_sym hn row.is16Bit), resolveOperand_unknown_extended_sym hb hz row nm hlarge]

/-- `>nm` : EXTENDED whatever the value -/
theorem frontEndT_gt_sym :
    frontEndT t row ('>' :: nm) = .ok { kind := .extended, text := '>' :: nm, value := symNum z } := by
  simp [frontEndT, createOperand_unknown_sym hf (by simp) (by simp) (by decide) (createV_gt_sym hn row.is16Bit),
    resolveOperand_unknown_gt_sym hb hz]

/-- `<nm`, value ≥ 0 : forced DIRECT, the value rebuilt (hint 2 below 256, none above) -/
theorem frontEndT_lt_sym (h0 : 0 ≤ z) :
    frontEndT t row ('<' :: nm) =
      .ok { kind := .direct, text := '<' :: nm,
            value := .numeric z.natAbs (if z.natAbs < 256 then some 2 else none) .direct false } := by
  simp [frontEndT, createOperand_unknown_sym hf (by simp) (by simp) (by decide) (createV_lt_sym hn row.is16Bit),
    resolveOperand_unknown_direct_sym hb hz row ('<' :: nm) (m := .explDirect) (Or.inr rfl) h0 (Or.inr rfl)]

/-- `[nm]` -/
theorem frontEndT_bracket_sym :
    frontEndT t row ('[' :: (nm ++ [']'])) =
      .ok { kind := .extIndirect, text := '[' :: (nm ++ [']']), value := symNum z } := by
  simp [frontEndT, createOperand_bracket_sym hf (createV_sym hn row.is16Bit), resolveOperand_bracket_sym hb hz]

/-- `nm,right` : the left text becomes the value of the symbol -/
theorem frontEndT_indexed_sym (hab : isABD nm = false) {r : Str} (hr : ',' ∉ r) :
    frontEndT t row (nm ++ ',' :: r) =
      .ok { kind := .indexed, text := nm ++ ',' :: r, value := .leftRight nm r .extended, left := .val (symNum z),
            right := some r } := by
  have hh := symName_head hn (',' :: r)
  have hc := createV_leftRight hh (splitExpr_sym_comma hn r) (symName_no_comma hn) hr row.is16Bit
  simp [frontEndT, createOperand_indexed hf (by simp) hh.noBracket hc,
    resolveOperand_indexed_val _ _ _ _ _ _ (symName_ne_nil hn) hab (resolveLeft_sym hb hz hf.notStr hn)]

/-- `[nm,right]` -/
theorem frontEndT_bracket_indexed_sym (hab : isABD nm = false) {r : Str} (hr : ',' ∉ r) :
    frontEndT t row ('[' :: ((nm ++ ',' :: r) ++ [']'])) =
      .ok { kind := .extIndirect, text := '[' :: ((nm ++ ',' :: r) ++ [']']), value := .leftRight nm r .extended,
            left := .val (symNum z), right := some r } := by
  have hh := symName_head hn (',' :: r)
  have hc := createV_leftRight hh (splitExpr_sym_comma hn r) (symName_no_comma hn) hr row.is16Bit
  simp only [frontEndT, createOperand_bracket_leftRight hf hc,
    resolveOperand_bracket_val _ _ _ _ _ _ (symName_ne_nil hn) hab (resolveLeft_sym hb hz hf.notStr hn)]

end families

/-! ### what `NAME EQU <literal>` puts into the symbol table

`buildSymTab` stores `s.operand.value` of a statement whose row is a pseudo DEFINE (only `EQU` is); the operand is
`createOperand <literal> EQU`, with the EQU normalisation of `PseudoOperand.__init__`. -/

/-- the table row of `EQU` -/
def equRow : InstrRow := (findRow "EQU".toList).getD default

theorem equRow_flags : equRow.isPseudo = true ∧ equRow.isPseudoDefine = true ∧ equRow.isStringDefine = false ∧
    equRow.is16Bit = false ∧ equRow.isMultiByte = false ∧ equRow.isMultiWord = false ∧ equRow.isInclude = false ∧
    (equRow.mnemonic == "END") = false := by decide +kernel

/-- `createOperand` on the EQU row, for a literal that `createV` reads as a number -/
theorem createOperand_equ {s : Str} {i : Nat} {h : Option Nat} {m : Mode} {ng : Bool}
    (hv : createV s false false = .ok (.numeric i h m ng)) :
    createOperand s equRow =
      if s.head? == some '$' && s.length > 3 then
        (numericOfInt i none .extended).map (fun nv => { kind := .pseudo, text := s, value := nv })
      else if numHexLen i h == 2 then
        (numericOfInt (if ng then -(i : Int) else i) none .direct).map
          (fun nv => { kind := .pseudo, text := s, value := nv })
      else .ok { kind := .pseudo, text := s, value := .numeric i h m ng } := by
  obtain ⟨f1, f2, f3, f4, f5, f6, f7, f8⟩ := equRow_flags
  simp only [createOperand, f1, f2, f3, f4, f5, f6, f7, f8, hv, if_true, Bool.false_eq_true, if_false, Bool.false_or,
    Bool.false_and, Value.isNumeric, Bool.and_self, Value.int?, Value.hexLen?, Value.isNegative]
  by_cases c1 : (s.head? == some '$' && decide (s.length > 3)) = true
  · simp only [c1, if_true]
  · simp only [c1, if_false, Bool.false_eq_true]
    by_cases c2 : numHexLen i h = 2
    · simp [c2]; rfl
    · simp [c2]

/-- `NAME EQU n` (decimal, 0 ≤ n ≤ 65535): the value as created — EXTENDED with hint 4, also below 256 -/
theorem createOperand_equ_dec {x : Str} (hx : IsDecLit x) (hv : parseBase 10 x < 65536) :
    createOperand x equRow =
      .ok { kind := .pseudo, text := x, value := .numeric (parseBase 10 x) (some 4) .extended false } := by
  have hd : (x.head? == some '$') = false := by
    cases x with
    | nil => rfl
    | cons a u =>
      have := (isDigit_ne (List.all_eq_true.mp hx.2 a (by simp))).2.2.1
      simpa using this
  rw [createOperand_equ (createV_decLit hx hv false)]
  simp [hd, numHexLen]

/-- `NAME EQU -n` (1 ≤ n ≤ 32768): the value as created, negative flag set -/
theorem createOperand_equ_neg {x : Str} (hx : IsDecLit x) (hv : parseBase 10 x ≤ 32768) :
    createOperand ('-' :: x) equRow =
      .ok { kind := .pseudo, text := '-' :: x, value := .numeric (parseBase 10 x) (some 4) .extended true } := by
  rw [createOperand_equ (createV_neg hx hv)]
  simp [numHexLen]

/-- `NAME EQU $hhhh`: rebuilt as an EXTENDED number -/
theorem createOperand_equ_hex4 {hs : Str} (hh : IsHexLit 4 hs) :
    createOperand ('$' :: hs) equRow =
      .ok { kind := .pseudo, text := '$' :: hs, value := .numeric (parseBase 16 hs) (some 4) .extended false } := by
  have hlen : hs.length = 4 := hh.1
  have hb := parseBase_hexLit4 hh
  have a : ¬ ((parseBase 16 hs : Nat) : Int) > 65535 := by omega
  rw [createOperand_equ (createV_hex4 hh false)]
  simp [hlen, numericOfInt, a, initHint, postInit, Except.map]

/-- `NAME EQU $hh`: rebuilt as a DIRECT number with hint 2 -/
theorem createOperand_equ_hex2 {hs : Str} (hh : IsHexLit 2 hs) :
    createOperand ('$' :: hs) equRow =
      .ok { kind := .pseudo, text := '$' :: hs, value := .numeric (parseBase 16 hs) (some 2) .direct false } := by
  have hlen : hs.length = 2 := hh.1
  have hb := parseBase_hexLit2 hh
  have a : ¬ ((parseBase 16 hs : Nat) : Int) > 65535 := by omega
  rw [createOperand_equ (createV_hex2 hh)]
  simp [hlen, numHexLen, numericOfInt, a, initHint, postInit, hb, Except.map]

/-- a statement `label EQU …` whose operand value is a number binds its label, in the table `resolve_symbols` uses -/
theorem binds_of_equ_stmt {ss : List Stmt} {t : SymTab} (hbuild : buildSymTab ss 0 [] = some t) {j : Nat} {s : Stmt}
    (hs : ss[j]? = some s) (hl : s.label.isEmpty = false) (hd : s.row.isPseudoDefine = true)
    {i : Nat} {h : Option Nat} {m : Mode} {ng : Bool} (hv : s.operand.value = .numeric i h m ng) :
    Binds t s.label (if ng then -(i : Int) else i) := by
  obtain ⟨h1, h2⟩ := buildSymTab_some hbuild
  have hn := h2 (by simp [SymTab.keys])
  have hm := symEntries_mem (i := 0) hs hl
  rw [hd, if_pos rfl, hv] at hm
  have hg : t.get? s.label = some (.numeric i h m ng) := by
    refine get?_of_mem hn ?_
    rw [h1]; simpa using hm
  exact ⟨i, h, m, ng, hg, rfl⟩

end CoCo.Asm
