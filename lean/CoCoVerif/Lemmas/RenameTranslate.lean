/-
Lemmas/RenameTranslate.lean — C18-R2 (renaming), part 3: `translateOperand` / `translateAll` commute with a renaming:
the code package of the renamed operand is the renamed package (`rnPkg`: the values in `address` and `additional`
renamed; op code and post byte are numbers).
-/
import CoCoVerif.Lemmas.RenameResolve
import CoCoVerif.Lemmas.NoIntOp
import CoCoVerif.Lemmas.EncodeSpecial

namespace CoCo.Asm.Rename
open CoCo
open CoCo.Gen (InstrRow)

variable {ρ : Ren}

/-- closes `.ok p' = (.ok p).map (rnPkg ρ)` when the fields agree up to numbers produced by `opVal` / `numV` -/
macro "rn_leaf" : tactic => `(tactic| (
  simp only [Except.map, rnPkg, rnValue]
  first
    | rfl
    | (congr 2 <;> first
        | rfl
        | exact (opVal_ok_rn (by assumption)).symm
        | exact (numV_ok_rn (by assumption)).symm
        | exact (rnValue_of_numeric (numericOfInt_isNumeric' (by assumption))).symm)))

/-- a package without an address and without operand bytes is not changed -/
theorem rnPkg_plain {p : Pkg} (h1 : p.address = .none) (h2 : p.additional = .none) : rnPkg ρ p = p := by
  rcases p with ⟨a, b, c, d, e, f, g, h⟩
  dsimp only at h1 h2
  subst h1; subst h2
  rfl

theorem map_plain {x : R Pkg} (h : ∀ p, x = .ok p → p.address = .none ∧ p.additional = .none) :
    x.map (rnPkg ρ) = x := by
  cases x with
  | error e => rfl
  | ok p => simp only [Except.map]; rw [rnPkg_plain (h p rfl).1 (h p rfl).2]

/-! ### pseudo operations, special operands -/

theorem translatePseudo_rn (o : Operand) (row : InstrRow) :
    translatePseudo (rnOperand ρ o) row = (translatePseudo o row).map (rnPkg ρ) := by
  rcases o with ⟨kind, text, value, left, right⟩
  unfold translatePseudo
  simp only [bind, Except.bind, pure, Except.pure, throw, throwThe, MonadExceptOf.throw, rnOperand]
  cases value <;> simp only [rnValue, Value.isMultiByte, Value.isMultiWord, Value.byteLen?, Value.hexLen?, Value.hex?,
    Value.isNumeric, Value.isNegative, Value.int?, Option.map, Bool.false_eq_true, if_false, if_true, Bool.not_false,
    Bool.not_true, Bool.or_false, Bool.false_or, Bool.true_or, Bool.or_true]
  all_goals repeat' (first | rfl | split)

theorem translateSpecial_plain {o : Operand} {row : InstrRow} {p : Pkg} (h : translateSpecial o row = .ok p) :
    p.address = .none ∧ p.additional = .none := by
  unfold translateSpecial at h
  simp only [bind, Except.bind, pure, Except.pure, throw, throwThe, MonadExceptOf.throw] at h
  repeat' split at h
  all_goals first
    | (cases h; done)
    | (cases h; exact ⟨rfl, rfl⟩)

theorem translateSpecial_rn (o : Operand) (row : InstrRow) (ht : ρ.txt o.text = o.text) :
    translateSpecial (rnOperand ρ o) row = (translateSpecial o row).map (rnPkg ρ) := by
  rw [translateSpecial_text (rnOperand ρ o) o row ht, map_plain (fun p hp => translateSpecial_plain hp)]

/-! ### the constant-offset forms -/

theorem offBody_rn (ind : Bool) (row : InstrRow) (right : Str) (raw0 : Nat) (needs : Bool) (l : Value) :
    offBody ind row right raw0 needs (rnValue ρ l) = (offBody ind row right raw0 needs l).map (rnPkg ρ) := by
  unfold offBody
  simp only [bind, Except.bind, pure, Except.pure, throw, throwThe, MonadExceptOf.throw]
  cases l <;> simp only [rnValue, Value.mode]
  all_goals repeat' (first | rfl | split | simp only [↓reduceIte])
  all_goals rn_leaf

theorem translateOffset_rn (ind : Bool) (row : InstrRow) (v : Value) (right : Str) (raw0 : Nat) :
    translateOffset ind row (rnValue ρ v) right raw0 = (translateOffset ind row v right raw0).map (rnPkg ρ) := by
  rw [translateOffset_eq, translateOffset_eq]
  split
  · rfl
  · cases v with
    | pyNone => rfl
    | address i m =>
      simp only [rnValue]
      cases hn : numV i with
      | error e => rfl
      | ok l =>
        have := offBody_rn (ρ := ρ) ind row right raw0 true l
        rw [numV_ok_rn hn] at this
        exact this
    | expr l r op m ae =>
      cases ae <;> exact offBody_rn (ρ := ρ) ind row right raw0 _ (.expr l r op m _)
    | _ => exact offBody_rn (ρ := ρ) ind row right raw0 _ _

theorem translateOffset_rn' {ind : Bool} {row : InstrRow} {v' v : Value} {right : Str} {raw0 : Nat}
    (h : v' = rnValue ρ v) :
    translateOffset ind row v' right raw0 = (translateOffset ind row v right raw0).map (rnPkg ρ) := by
  subst h; exact translateOffset_rn _ _ _ _ _

/-! ### indexed operands -/

theorem translateIndexed_congr (o o' : Operand) (row : InstrRow) (h1 : o.left = o'.left) (h2 : o.right = o'.right) :
    translateIndexed o row = translateIndexed o' row := by
  unfold translateIndexed
  rw [h1, h2]

theorem translateIndexed_plain {o : Operand} {row : InstrRow} {p : Pkg} (hl : ∀ v, o.left ≠ .val v)
    (h : translateIndexed o row = .ok p) : p.address = .none ∧ p.additional = .none := by
  unfold translateIndexed at h
  rcases o with ⟨kind, text, value, left, right⟩
  cases left <;> cases right
  case val.some => exact absurd rfl (hl _)
  case val.none => exact absurd rfl (hl _)
  all_goals simp only [bind, Except.bind, pure, Except.pure, throw, throwThe, MonadExceptOf.throw, Bool.and_false,
    Bool.false_eq_true, if_false] at h
  case text.some =>
    generalize translateIndexed.match_3 (fun x => Bool) (Side.text _) _ _ _ = b at h
    repeat' split at h
    all_goals first
    | (cases h; done)
    | (cases h; exact ⟨rfl, rfl⟩)
  all_goals
    repeat' split at h
    all_goals first
    | (cases h; done)
    | (cases h; exact ⟨rfl, rfl⟩)

theorem translateIndexed_val_rn (kind : OpKind) (text : Str) (value : Value) (v : Value) (right : Option Str)
    (row : InstrRow) :
    translateIndexed ⟨kind, ρ.txt text, rnValue ρ value, .val (rnValue ρ v), right⟩ row
      = (translateIndexed ⟨kind, text, value, .val v, right⟩ row).map (rnPkg ρ) := by
  unfold translateIndexed
  cases right <;> rcases v with _ | _ | ⟨_ | n, h, m, ng⟩ | _ | _ | _ | _ | _ | _ | _ <;>
    simp only [rnValue, bind, Except.bind, pure, Except.pure, throw, throwThe, MonadExceptOf.throw, Bool.and_false,
      Bool.false_eq_true, if_false]
  all_goals repeat' (first | rfl | exact translateOffset_rn' rfl | split | simp only [↓reduceIte])
  all_goals rn_leaf

/-- a textual left part that is neither empty nor an accumulator: the outcome does not depend on the text -/
theorem translateIndexed_text_indep (k k' : OpKind) (t t' : Str) (v v' : Value) (l l' : Str) (right : Option Str)
    (row : InstrRow) (h1 : l ≠ []) (h2 : isABD l = false) (h1' : l' ≠ []) (h2' : isABD l' = false) :
    translateIndexed ⟨k, t, v, .text l, right⟩ row = translateIndexed ⟨k', t', v', .text l', right⟩ row := by
  unfold translateIndexed
  cases l with
  | nil => exact absurd rfl h1
  | cons c cs =>
    cases l' with
    | nil => exact absurd rfl h1'
    | cons c' cs' =>
      simp only [h2, h2', List.isEmpty_cons, Bool.or_self, Bool.and_false, Bool.false_eq_true, if_false]

theorem translateIndexed_rn (o : Operand) (row : InstrRow) (hok : SideOK ρ row o.left) :
    translateIndexed (rnOperand ρ o) row = (translateIndexed o row).map (rnPkg ρ) := by
  rcases o with ⟨kind, text, value, left, right⟩
  cases left with
  | val v => exact translateIndexed_val_rn kind text value v right row
  | noneV =>
    rw [map_plain (fun p hp => translateIndexed_plain (by intro v hv; cases hv) hp)]
    exact translateIndexed_congr _ _ _ rfl rfl
  | text l =>
    have hl : LeftOK ρ row l := hok
    rw [map_plain (fun p hp => translateIndexed_plain (by intro v hv; cases hv) hp)]
    by_cases he : ρ.left l = l
    · exact translateIndexed_congr _ _ _ (by simp only [rnOperand, rnSide, he]) rfl
    · have h1 : l ≠ [] := by
        intro hc; apply he; rw [hl.nil.mpr hc, hc]
      have h2 : isABD l = false := by
        cases hb : isABD l with
        | false => rfl
        | true => exact absurd (hl.abd_eq hb) he
      exact translateIndexed_text_indep _ _ _ _ _ _ _ _ _ _ (fun hc => h1 (hl.nil.mp hc)) (by rw [hl.abd, h2]) h1 h2

/-! ### `[...]` operands -/

/-- the common skeleton of the `translateExtIndirect` lemmas: the row check and the op code by hand (`split` runs out of
simp steps on the whole term), the rest by splitting both sides in step -/
macro "ext_go" r:term : tactic => `(tactic| (
  by_cases hc : (($r).ind.isNone || ($r).ind == some 0) = true
  · (rw [if_pos hc, if_pos hc]; try rfl)
  rw [if_neg hc, if_neg hc]
  cases hop : opVal ($r).ind with
  | error e => rfl
  | ok op =>
    dsimp only
    repeat' (first | rfl | exact translateOffset_rn' rfl | split | simp only [↓reduceIte])
    all_goals rn_leaf))

theorem isABD_nil : isABD [] = false := rfl

theorem translateExtIndirect_none_rn (kind : OpKind) (text : Str) (value : Value) (right : Option Str)
    (row : InstrRow) :
    translateExtIndirect ⟨kind, ρ.txt text, rnValue ρ value, .noneV, right⟩ row
      = (translateExtIndirect ⟨kind, text, value, .noneV, right⟩ row).map (rnPkg ρ) := by
  unfold translateExtIndirect
  cases right <;>
    simp only [bind, Except.bind, pure, Except.pure, throw, throwThe, MonadExceptOf.throw, Bool.and_false,
      Bool.false_eq_true, if_false, rnValue_isAddress, rnValue_isAddrExpr, rnValue_isNumeric]
  all_goals ext_go row

theorem translateExtIndirect_val_rn (kind : OpKind) (text : Str) (value : Value) (v : Value) (right : Option Str)
    (row : InstrRow) :
    translateExtIndirect ⟨kind, ρ.txt text, rnValue ρ value, .val (rnValue ρ v), right⟩ row
      = (translateExtIndirect ⟨kind, text, value, .val v, right⟩ row).map (rnPkg ρ) := by
  unfold translateExtIndirect
  cases right <;> rcases v with _ | _ | ⟨_ | n, h, m, ng⟩ | _ | _ | _ | _ | _ | _ | _ <;>
    simp only [rnValue, bind, Except.bind, pure, Except.pure, throw, throwThe, MonadExceptOf.throw, Bool.and_false,
      Bool.false_eq_true, if_false, rnValue_isAddress, rnValue_isAddrExpr, rnValue_isNumeric]
  all_goals ext_go row

theorem translateExtIndirect_text_same (kind : OpKind) (text : Str) (value : Value) (l : Str) (right : Option Str)
    (row : InstrRow) (h : l = [] ∨ isABD l = true) :
    translateExtIndirect ⟨kind, ρ.txt text, rnValue ρ value, .text l, right⟩ row
      = (translateExtIndirect ⟨kind, text, value, .text l, right⟩ row).map (rnPkg ρ) := by
  have h' : l = [] ∨ l = ['A'] ∨ l = ['B'] ∨ l = ['D'] := by
    rcases h with h | h
    · exact .inl h
    · simp only [isABD, Bool.or_eq_true, beq_iff_eq] at h
      rcases h with (h | h) | h
      · exact .inr (.inl h)
      · exact .inr (.inr (.inl h))
      · exact .inr (.inr (.inr h))
  unfold translateExtIndirect
  rcases h' with rfl | rfl | rfl | rfl <;> cases right <;>
    simp (decide := true) only [bind, Except.bind, pure, Except.pure, throw, throwThe, MonadExceptOf.throw, Bool.and_false,
      Bool.false_eq_true, if_false, rnValue_isAddress, rnValue_isAddrExpr, rnValue_isNumeric, isABD, List.isEmpty_nil,
      List.isEmpty_cons, Bool.or_true, Bool.true_or, Bool.or_false, Bool.and_true, if_true]
  all_goals ext_go row

theorem translateExtIndirect_text_diff (kind : OpKind) (text : Str) (value : Value) (c c' : Char) (cs cs' : Str)
    (right : Option Str) (row : InstrRow) (h2 : isABD (c :: cs) = false) (h2' : isABD (c' :: cs') = false)
    (hcv : createV (c' :: cs') false false = (createV (c :: cs) false false).map (rnValue ρ)) :
    translateExtIndirect ⟨kind, ρ.txt text, rnValue ρ value, .text (c' :: cs'), right⟩ row
      = (translateExtIndirect ⟨kind, text, value, .text (c :: cs), right⟩ row).map (rnPkg ρ) := by
  unfold translateExtIndirect
  cases hv : createV (c :: cs) false false <;> rw [hv] at hcv <;> cases right <;>
    simp only [bind, Except.bind, pure, Except.pure, throw, throwThe, MonadExceptOf.throw, Bool.and_false,
      Bool.false_eq_true, if_false, rnValue_isAddress, rnValue_isAddrExpr, rnValue_isNumeric, h2, h2', hcv, hv,
      Except.map, List.isEmpty_cons, Bool.or_self]
  all_goals ext_go row


theorem translateExtIndirect_rn (o : Operand) (row : InstrRow) (hok : SideOK ρ row o.left) :
    translateExtIndirect (rnOperand ρ o) row = (translateExtIndirect o row).map (rnPkg ρ) := by
  rcases o with ⟨kind, text, value, left, right⟩
  cases left with
  | val v => exact translateExtIndirect_val_rn kind text value v right row
  | noneV => exact translateExtIndirect_none_rn kind text value right row
  | text l =>
    have hl : LeftOK ρ row l := hok
    by_cases he : l = [] ∨ isABD l = true
    · have e : ρ.left l = l := by
        rcases he with h | h
        · rw [hl.nil.mpr h, h]
        · exact hl.abd_eq h
      simp only [rnOperand, rnSide, e]
      exact translateExtIndirect_text_same kind text value l right row he
    · have h1 : l ≠ [] := fun hc => he (.inl hc)
      have h2 : isABD l = false := by
        cases hb : isABD l with
        | false => rfl
        | true => exact absurd (.inr hb) he
      have h1' : ρ.left l ≠ [] := fun hc => h1 (hl.nil.mp hc)
      have h2' : isABD (ρ.left l) = false := by rw [hl.abd, h2]
      have hc := hl.createI h1 h2
      simp only [rnOperand, rnSide]
      cases hl' : ρ.left l with
      | nil => exact absurd hl' h1'
      | cons c' cs' =>
        cases l with
        | nil => exact absurd rfl h1
        | cons c cs =>
          rw [hl'] at h2' hc
          exact translateExtIndirect_text_diff kind text value c c' cs cs' right row h2 h2' hc

/-! ### every operand class -/

theorem translateOperand_rn (o : Operand) (row : InstrRow) (hok : SideOK ρ row o.left)
    (hsp : o.kind = .special → ρ.txt o.text = o.text) :
    translateOperand (rnOperand ρ o) row = (translateOperand o row).map (rnPkg ρ) := by
  unfold translateOperand
  rw [rnOperand_kind]
  cases hk : o.kind with
  | pseudo => exact translatePseudo_rn o row
  | special => exact translateSpecial_rn o row (hsp hk)
  | extIndirect => exact translateExtIndirect_rn o row hok
  | indexed => exact translateIndexed_rn o row hok
  | unknown => rfl
  | relative =>
    rcases o with ⟨kind, text, value, left, right⟩
    simp only [rnOperand, bind, Except.bind, pure, Except.pure, throw, throwThe, MonadExceptOf.throw]
    cases value <;> simp only [rnValue, Value.isAddress, Bool.not_true, Bool.not_false, Bool.false_eq_true, if_false,
      if_true]
    all_goals repeat' (first | rfl | split | simp only [↓reduceIte])
  | inherent | immediate | direct | extended =>
    simp only [rnOperand_value, bind, Except.bind, pure, Except.pure, throw, throwThe, MonadExceptOf.throw]
    repeat' (first | rfl | split | simp only [↓reduceIte])

/-! ### `translateAll` -/

theorem rnStmt_withPkg (s : Stmt) (p : Pkg) (b : Bool) :
    rnStmt ρ { s with pkg := p, fixedSize := b } = { renameStmt ρ s with pkg := rnPkg ρ p, fixedSize := b } := rfl

theorem translateAll_rn : ∀ (ss : List Stmt), (∀ s ∈ ss, StmtOK ρ s) →
    translateAll (ss.map (renameStmt ρ)) = (translateAll ss).map (List.map (rnStmt ρ)) := by
  intro ss
  induction ss with
  | nil => intro _; rfl
  | cons s rest ih =>
    intro hok
    rw [List.map_cons, translateAll, translateAll]
    have e1 : (renameStmt ρ s).operand = rnOperand ρ s.operand := rfl
    have e2 : (renameStmt ρ s).row = s.row := rfl
    rw [e1, e2, translateOperand_rn s.operand s.row (hok s (by simp)).side (hok s (by simp)).special]
    cases ht : translateOperand s.operand s.row with
    | error e => rfl
    | ok p =>
      simp only [Except.map]
      rw [ih (fun x hx => hok x (by simp [hx]))]
      cases translateAll rest <;> rfl

end CoCo.Asm.Rename
