/-
Lemmas/LayoutRel.lean — pointwise relations between statement lists, and the relation each stage of
`assemble` (resolveAll, translateAll, pcrLoop, assignAddrs, fixAll) establishes between its input
and output.
-/
import CoCoVerif.Lemmas.LayoutFix

namespace CoCo.Asm
open CoCo

/-- `l'` has the length of `l` and corresponding elements are related by `R` -/
def PW {α β : Type} (R : α → β → Prop) (l : List α) (l' : List β) : Prop :=
  l'.length = l.length ∧ ∀ (j : Nat) (s : α) (s' : β), l[j]? = some s → l'[j]? = some s' → R s s'

namespace PW
variable {α β γ : Type} {R : α → β → Prop}

theorem nil : PW R [] [] := ⟨rfl, by simp⟩

theorem cons {a : α} {b : β} {l : List α} {l' : List β} (h : R a b) (hl : PW R l l') : PW R (a :: l) (b :: l') := by
  refine ⟨by simp [hl.1], ?_⟩
  intro j s s' h1 h2
  cases j with
  | zero => simp at h1 h2; subst h1 h2; exact h
  | succ j => simp at h1 h2; exact hl.2 j s s' h1 h2

theorem length_eq {l : List α} {l' : List β} (h : PW R l l') : l'.length = l.length := h.1

theorem refl {R : α → α → Prop} (hr : ∀ a, R a a) (l : List α) : PW R l l :=
  ⟨rfl, fun j s s' h1 h2 => by rw [h1] at h2; cases h2; exact hr s⟩

theorem mono {S : α → β → Prop} {l : List α} {l' : List β} (h : PW R l l') (hi : ∀ a b, R a b → S a b) : PW S l l' :=
  ⟨h.1, fun j s s' h1 h2 => hi _ _ (h.2 j s s' h1 h2)⟩

/-- the element of `l'` opposite to a given element of `l` -/
theorem get {l : List α} {l' : List β} (h : PW R l l') {j : Nat} {s : α} (hs : l[j]? = some s) :
    ∃ s', l'[j]? = some s' ∧ R s s' := by
  have hj : j < l.length := by
    rcases Nat.lt_or_ge j l.length with h | h
    · exact h
    · rw [List.getElem?_eq_none_iff.mpr h] at hs; cases hs
  have hj' : j < l'.length := by rw [h.1]; exact hj
  exact ⟨l'[j], List.getElem?_eq_getElem hj', h.2 j s _ hs (List.getElem?_eq_getElem hj')⟩

theorem get' {l : List α} {l' : List β} (h : PW R l l') {j : Nat} {s' : β} (hs : l'[j]? = some s') :
    ∃ s, l[j]? = some s ∧ R s s' := by
  have hj : j < l'.length := by
    rcases Nat.lt_or_ge j l'.length with h | h
    · exact h
    · rw [List.getElem?_eq_none_iff.mpr h] at hs; cases hs
  have hj' : j < l.length := by rw [← h.1]; exact hj
  exact ⟨l[j], List.getElem?_eq_getElem hj', h.2 j _ s' (List.getElem?_eq_getElem hj') hs⟩

theorem trans {S : β → γ → Prop} {T : α → γ → Prop} {l : List α} {l' : List β} {l'' : List γ}
    (h1 : PW R l l') (h2 : PW S l' l'') (ht : ∀ a b c, R a b → S b c → T a c) : PW T l l'' := by
  refine ⟨by rw [h2.1, h1.1], ?_⟩
  intro j s s'' hs hs''
  obtain ⟨s', hs', hr⟩ := h1.get hs
  exact ht _ _ _ hr (h2.2 j s' s'' hs' hs'')

theorem set {R : α → α → Prop} (hr : ∀ a, R a a) {l : List α} {i : Nat} {s s' : α} (hi : l[i]? = some s)
    (h : R s s') : PW R l (l.set i s') := by
  refine ⟨by simp, ?_⟩
  intro j a b ha hb
  rw [List.getElem?_set] at hb
  split at hb
  · rename_i hij; subst hij
    split at hb
    · cases hb; rw [hi] at ha; cases ha; exact h
    · cases hb
  · rw [ha] at hb; cases hb; exact hr a

end PW

/-! ### resolveAll / translateAll -/

theorem resolveAll_pw {t : SymTab} {ss ss' : List Stmt} (h : resolveAll t ss = some ss') :
    PW (fun s s' => ∃ o, resolveOperand s.operand s.row t = .ok o ∧ s' = { s with operand := o }) ss ss' := by
  induction ss generalizing ss' with
  | nil => simp [resolveAll] at h; subst h; exact .nil
  | cons s rest ih =>
    unfold resolveAll at h
    split at h
    · rename_i o ho
      cases hr : resolveAll t rest with
      | none => simp [hr] at h
      | some r => simp [hr] at h; subst h; exact .cons ⟨o, ho, rfl⟩ (ih hr)
    · cases h

theorem translateAll_pw {ss ss' : List Stmt} (h : translateAll ss = some ss') :
    PW (fun s s' => ∃ p, translateOperand s.operand s.row = .ok p ∧
          s' = { s with pkg := p, fixedSize := p.choices.isEmpty }) ss ss' := by
  induction ss generalizing ss' with
  | nil => simp [translateAll] at h; subst h; exact .nil
  | cons s rest ih =>
    unfold translateAll at h
    split at h
    · rename_i p hp
      cases hr : translateAll rest with
      | none => simp [hr] at h
      | some r =>
        rw [hr] at h; simp only [Option.map_some, Option.some.injEq] at h
        subst h; exact .cons ⟨p, hp, rfl⟩ (ih hr)
    · cases h

/-! ### the PCR loop changes only size, maxSize, postByte, pcrHint, fixedSize -/

def PcrRel (s s' : Stmt) : Prop :=
  ∃ sz mx pb hint fx, s' = { s with pkg := { s.pkg with size := sz, maxSize := mx, postByte := pb },
                                    pcrHint := hint, fixedSize := fx }

theorem PcrRel.refl (s : Stmt) : PcrRel s s := ⟨_, _, _, _, _, rfl⟩
theorem PcrRel.trans {a b c : Stmt} (h1 : PcrRel a b) (h2 : PcrRel b c) : PcrRel a c := by
  obtain ⟨_, _, _, _, _, rfl⟩ := h1; obtain ⟨_, _, _, _, _, rfl⟩ := h2; exact ⟨_, _, _, _, _, rfl⟩

theorem settle_rel {s s' : Stmt} {e h c} (hs : settle s e h c = some s') : PcrRel s s' := by
  unfold settle at hs
  cases hp : orPost s c with
  | none => simp [hp] at hs
  | some pb => simp [hp] at hs; subst hs; exact ⟨_, _, _, _, _, rfl⟩

theorem determine_rel {ss : List Stmt} {i : Nat} {s s' : Stmt} (h : determine ss i s = .ok s') : PcrRel s s' := by
  rcases determine_cases ss i s with h1 | h1 | h1 | ⟨e, hh, c, s'', hs, h1⟩ <;> rw [h1] at h <;> cases h
  · exact .refl _
  · exact settle_rel hs

theorem pcrPass_pw (n : Nat) (ss : List Stmt) (i : Nat) (p : Bool) {ss' : List Stmt} {p' : Bool}
    (h : pcrPass n ss i p = .ok (ss', p')) : PW PcrRel ss ss' := by
  induction n generalizing ss i p with
  | zero => simp [pcrPass] at h; obtain ⟨rfl, rfl⟩ := h; exact .refl PcrRel.refl _
  | succ n ih =>
    unfold pcrPass at h
    split at h
    · simp at h; obtain ⟨rfl, rfl⟩ := h; exact .refl PcrRel.refl _
    · rename_i s hs
      split at h
      · exact ih _ _ _ h
      · split at h
        · rename_i s' hd
          exact (PW.set PcrRel.refl hs (determine_rel hd)).trans (ih _ _ _ h) (fun _ _ _ => PcrRel.trans)
        · cases h
        · cases h
        · cases h

theorem forceFirst_pw {ss ss' : List Stmt} (h : forceFirst ss = some ss') : PW PcrRel ss ss' := by
  induction ss generalizing ss' with
  | nil => simp [forceFirst] at h; subst h; exact .nil
  | cons s r ih =>
    unfold forceFirst at h
    split at h
    · cases hr : forceFirst r with
      | none => simp [hr] at h
      | some r' => simp [hr] at h; subst h; exact .cons (.refl _) (ih hr)
    · split at h
      · rename_i c0 c1 _
        cases hs : settle s 2 4 c1 with
        | none => simp [hs] at h
        | some s' => simp [hs] at h; subst h; exact .cons (settle_rel hs) (.refl PcrRel.refl _)
      · cases h

theorem pcrLoop_pw (fuel : Nat) (ss : List Stmt) {ss' : List Stmt} (h : pcrLoop fuel ss = .ok ss') :
    PW PcrRel ss ss' := by
  induction fuel generalizing ss with
  | zero =>
    unfold pcrLoop at h
    split at h
    · cases h; exact .refl PcrRel.refl _
    · cases h
  | succ fuel ih =>
    unfold pcrLoop at h
    split at h
    · cases h; exact .refl PcrRel.refl _
    · split at h
      · rename_i ss1 hp
        exact (pcrPass_pw _ _ _ _ hp).trans (ih _ h) (fun _ _ _ => PcrRel.trans)
      · rename_i ss1 hp
        split at h
        · rename_i ss2 hf
          exact ((pcrPass_pw _ _ _ _ hp).trans (forceFirst_pw hf) (fun _ _ _ => PcrRel.trans)).trans (ih _ h)
            (fun _ _ _ => PcrRel.trans)
        · cases h
      · cases h
      · cases h
      · cases h

/-- a successful `pcrLoop` leaves no statement of undecided size -/
theorem pcrLoop_ok_allFixed (fuel : Nat) (ss : List Stmt) {ss' : List Stmt} (h : pcrLoop fuel ss = .ok ss') :
    allFixed ss' = true := by
  induction fuel generalizing ss with
  | zero =>
    unfold pcrLoop at h
    split at h
    · cases h; assumption
    · cases h
  | succ fuel ih =>
    unfold pcrLoop at h
    split at h
    · cases h; assumption
    · split at h
      · exact ih _ h
      · split at h
        · exact ih _ h
        · cases h
      · cases h
      · cases h
      · cases h

end CoCo.Asm
