/-
Lemmas/FrontInclude.lean — helper lemmas for C19 (INCLUDE is textual inclusion):
`parseLines` and the local recursion of `expand` distribute over `++` (with "first failure wins"
sequencing `Outcome.app`), fuel monotonicity of `expand`, non-divergence, and the factorisation
`assemble = front ; back`.
-/
import CoCoVerif.Model.Program

namespace CoCo.Asm
open CoCo

/-! ### sequencing of list-valued outcomes: first failure wins -/

/-- `x` then `y`: concatenate on success, otherwise the first failure -/
def oapp {α} (x y : Outcome (List α)) : Outcome (List α) :=
  match x with
  | .ok a => (match y with | .ok b => .ok (a ++ b) | o => o)
  | o => o

@[simp] theorem oapp_ok_ok {α} (a b : List α) : oapp (.ok a) (.ok b) = .ok (a ++ b) := rfl
@[simp] theorem oapp_diag {α} (y : Outcome (List α)) : oapp .diag y = .diag := rfl
@[simp] theorem oapp_internal {α} (y : Outcome (List α)) : oapp .internal y = .internal := rfl
@[simp] theorem oapp_diverged {α} (y : Outcome (List α)) : oapp .diverged y = .diverged := rfl
@[simp] theorem oapp_ok_diag {α} (a : List α) : oapp (.ok a) .diag = .diag := rfl
@[simp] theorem oapp_ok_internal {α} (a : List α) : oapp (.ok a) .internal = .internal := rfl
@[simp] theorem oapp_ok_diverged {α} (a : List α) : oapp (.ok a) .diverged = .diverged := rfl
@[simp] theorem oapp_nil {α} (y : Outcome (List α)) : oapp (.ok []) y = y := by cases y <;> rfl
@[simp] theorem oapp_nil_right {α} (x : Outcome (List α)) : oapp x (.ok []) = x := by
  cases x <;> simp [oapp]

theorem oapp_assoc {α} (x y z : Outcome (List α)) : oapp (oapp x y) z = oapp x (oapp y z) := by
  cases x <;> cases y <;> cases z <;> simp [oapp]

/-! ### parseLine / parseLines -/

theorem parseLine_ok_or_diag (l : Str) : (∃ x, parseLine l = .ok x) ∨ parseLine l = .diag := by
  unfold parseLine
  split
  · simp
  · simp
  · simp
  · dsimp only
    split
    · simp
    · split
      · split
        · simp
        · split <;> simp
      · split <;> simp

theorem parseLines_cons (l : Str) (ls : List Str) :
    parseLines (l :: ls) =
      oapp (match parseLine l with
            | .ok none => .ok [] | .ok (some s) => .ok [s]
            | .diag => .diag | .internal => .internal | .diverged => .diverged) (parseLines ls) := by
  rw [parseLines]
  split <;> simp_all [oapp] <;> cases parseLines ls <;> rfl

theorem parseLines_append (a b : List Str) : parseLines (a ++ b) = oapp (parseLines a) (parseLines b) := by
  induction a with
  | nil => simp [parseLines]
  | cons l ls ih => rw [List.cons_append, parseLines_cons, parseLines_cons, ih, oapp_assoc]

theorem parseLines_ok_or_diag (ls : List Str) : (∃ r, parseLines ls = .ok r) ∨ parseLines ls = .diag := by
  induction ls with
  | nil => exact .inl ⟨[], rfl⟩
  | cons l ls ih =>
    rw [parseLines_cons]
    rcases parseLine_ok_or_diag l with ⟨x, hx⟩ | hx <;> rw [hx]
    · rcases ih with ⟨r, hr⟩ | hr <;> rw [hr] <;> cases x <;> simp
    · simp

theorem parseLines_single_some {l : Str} {s : Stmt} (h : parseLine l = .ok (some s)) :
    parseLines [l] = .ok [s] := by
  simp [parseLines, h]

/-! ### expand -/

/-- what `go` does with one statement -/
def expandOne (fs : Files) (fuel : Nat) (s : Stmt) : Outcome (List Stmt) :=
  if s.row.isInclude && !s.operand.text.isEmpty then
    match fs.get? s.operand.text with
    | none => .internal
    | some lines => (parseLines lines).bind (expand fs fuel)
  else .ok [s]

theorem expandOne_plain {fs : Files} {fuel : Nat} {s : Stmt}
    (h : (s.row.isInclude && !s.operand.text.isEmpty) = false) : expandOne fs fuel s = .ok [s] := by
  simp [expandOne, h]

theorem expandOne_missing {fs : Files} {fuel : Nat} {s : Stmt}
    (h : (s.row.isInclude && !s.operand.text.isEmpty) = true) (hf : fs.get? s.operand.text = none) :
    expandOne fs fuel s = .internal := by
  simp [expandOne, h, hf]

theorem expandOne_some {fs : Files} {fuel : Nat} {s : Stmt} {lines : List Str}
    (h : (s.row.isInclude && !s.operand.text.isEmpty) = true) (hf : fs.get? s.operand.text = some lines) :
    expandOne fs fuel s = (parseLines lines).bind (expand fs fuel) := by
  simp [expandOne, h, hf]

theorem go_nil (fs : Files) (fuel : Nat) : expand.go fs fuel [] = .ok [] := expand.go.eq_1 fs fuel

theorem go_cons (fs : Files) (fuel : Nat) (s : Stmt) (rest : List Stmt) :
    expand.go fs fuel (s :: rest) = oapp (expandOne fs fuel s) (expand.go fs fuel rest) := by
  rw [expand.go.eq_2]
  by_cases h : (s.row.isInclude && !s.operand.text.isEmpty) = true
  · rw [if_pos h]
    cases hf : fs.get? s.operand.text with
    | none => rw [expandOne_missing h hf]; rfl
    | some lines =>
      rw [expandOne_some h hf]
      dsimp only
      cases parseLines lines with
      | ok inc =>
        dsimp only [Outcome.bind]
        cases expand fs fuel inc <;> cases expand.go fs fuel rest <;> rfl
      | _ => rfl
  · rw [if_neg h, expandOne_plain (by simpa using h)]
    cases expand.go fs fuel rest <;> rfl

theorem go_append (fs : Files) (fuel : Nat) (a b : List Stmt) :
    expand.go fs fuel (a ++ b) = oapp (expand.go fs fuel a) (expand.go fs fuel b) := by
  induction a with
  | nil => simp [go_nil]
  | cons s rest ih => rw [List.cons_append, go_cons, go_cons, ih, oapp_assoc]

theorem go_single (fs : Files) (fuel : Nat) (s : Stmt) : expand.go fs fuel [s] = expandOne fs fuel s := by
  rw [go_cons, go_nil, oapp_nil_right]

theorem expand_succ (fs : Files) (fuel : Nat) (ss : List Stmt) :
    expand fs (fuel + 1) ss = expand.go fs fuel ss := expand.eq_2 fs ss fuel

theorem expand_zero (fs : Files) (ss : List Stmt) : expand fs 0 ss = .internal := expand.eq_1 fs ss

theorem oapp_ne_diverged {α} {x y : Outcome (List α)} (hx : x ≠ .diverged) (hy : y ≠ .diverged) :
    oapp x y ≠ .diverged := by
  cases x <;> cases y <;> simp_all [oapp]

/-- INCLUDE expansion never diverges (fuel exhaustion is `internal`) -/
theorem expand_ne_diverged (fs : Files) : ∀ (n : Nat) (ss : List Stmt), expand fs n ss ≠ .diverged := by
  intro n
  induction n with
  | zero => intro ss; simp [expand_zero]
  | succ n ih =>
    intro ss
    rw [expand_succ]
    induction ss with
    | nil => simp [go_nil]
    | cons s rest ihr =>
      rw [go_cons]
      refine oapp_ne_diverged ?_ ihr
      by_cases h : (s.row.isInclude && !s.operand.text.isEmpty) = true
      · cases hf : fs.get? s.operand.text with
        | none => rw [expandOne_missing h hf]; simp
        | some lines =>
          rw [expandOne_some h hf]
          rcases parseLines_ok_or_diag lines with ⟨r, hr⟩ | hr <;> rw [hr]
          · exact ih r
          · simp [Outcome.bind]
      · rw [expandOne_plain (by simpa using h)]; simp

theorem go_ne_diverged (fs : Files) (n : Nat) (ss : List Stmt) : expand.go fs n ss ≠ .diverged := by
  rw [← expand_succ]; exact expand_ne_diverged fs _ ss

/-- fuel monotonicity: one more unit of fuel cannot change a result that was not fuel exhaustion /
missing file -/
theorem expand_mono (fs : Files) : ∀ (n : Nat) (ss : List Stmt),
    expand fs n ss ≠ .internal → expand fs (n + 1) ss = expand fs n ss := by
  intro n
  induction n with
  | zero => intro ss h; simp [expand_zero] at h
  | succ n ih =>
    intro ss
    rw [expand_succ, expand_succ]
    induction ss with
    | nil => simp [go_nil]
    | cons s rest ihr =>
      rw [go_cons, go_cons]
      intro h
      have h1 : expandOne fs (n + 1) s = expandOne fs n s := by
        have hx : expandOne fs n s ≠ .internal := by
          intro hc; rw [hc] at h; simp at h
        by_cases hinc : (s.row.isInclude && !s.operand.text.isEmpty) = true
        · cases hf : fs.get? s.operand.text with
          | none => rw [expandOne_missing hinc hf, expandOne_missing hinc hf]
          | some lines =>
            rw [expandOne_some hinc hf] at hx ⊢
            rw [expandOne_some hinc hf]
            rcases parseLines_ok_or_diag lines with ⟨r, hr⟩ | hr <;> rw [hr] at hx ⊢
            · exact ih r hx
            · rfl
        · rw [expandOne_plain (by simpa using hinc), expandOne_plain (by simpa using hinc)]
      rw [h1]
      cases hx : expandOne fs n s with
      | ok e =>
        rw [hx] at h
        have : expand.go fs n rest ≠ .internal := by
          intro hc; rw [hc] at h; simp at h
        rw [ihr this]
      | _ => rfl

theorem expand_mono_ok {fs : Files} {n : Nat} {ss r : List Stmt} (h : expand fs n ss = .ok r) :
    expand fs (n + 1) ss = .ok r := by
  rw [expand_mono fs n ss (by rw [h]; simp), h]

theorem expand_mono_diag {fs : Files} {n : Nat} {ss : List Stmt} (h : expand fs n ss = .diag) :
    expand fs (n + 1) ss = .diag := by
  rw [expand_mono fs n ss (by rw [h]; simp), h]

theorem expand_mono_le {fs : Files} {n m : Nat} {ss : List Stmt} (hnm : n ≤ m)
    (h : expand fs n ss ≠ .internal) : expand fs m ss = expand fs n ss := by
  induction hnm with
  | refl => rfl
  | step _ ih => rw [expand_mono fs _ ss (by rw [ih]; exact h), ih]

/-! ### assemble = front ; back -/

/-- parse and expand -/
def front (fs : Files) (lines : List Str) : Outcome (List Stmt) :=
  match parseLines lines with
  | .ok parsed => expand fs 64 parsed
  | o => o

/-- everything after INCLUDE expansion: a function of the expanded list only -/
def back (ss0 : List Stmt) : Outcome Assembly :=
  match buildSymTab ss0 0 [] with
  | none => .diag
  | some t =>
    match resolveAll t ss0 with
    | none => .diag
    | some ss1 =>
      match translateAll ss1 with
      | none => .diag
      | some ss2 =>
        match pcrLoop (ss2.length + 1) ss2 with
        | .ok ss3 =>
          match assignAddrs ss3 0 with
          | .ok ss4 =>
            match fixAll ss4 0 ss4 with
            | .ok ss5 =>
              match finalSymTab ss5 t with
              | .ok t' =>
                let origin := ss5.foldl (fun o s => if s.row.isOrigin then s.pkg.address else o) Value.none
                let name := ss5.foldl (fun o s => if s.row.isName then some s.operand.text else o) none
                .ok { stmts := ss5, symtab := t', origin := origin, name := name }
              | .diag => .diag
              | .internal => .internal
              | .diverged => .diverged
            | .diag => .diag
            | .internal => .internal
            | .diverged => .diverged
          | .diag => .diag
          | .internal => .internal
          | .diverged => .diverged
        | .diag => .diag
        | .internal => .internal
        | .diverged => .diverged

theorem assemble_eq (fs : Files) (lines : List Str) :
    assemble fs lines =
      match front fs lines with
      | .ok ss0 => back ss0
      | .diag => .diag
      | .internal => .internal
      | .diverged => .diverged := by
  unfold assemble front back
  cases parseLines lines with
  | ok p => cases expand fs 64 p <;> rfl
  | _ => rfl

theorem assemble_congr {fs fs' : Files} {a b : List Str} (h : front fs a = front fs' b) :
    assemble fs a = assemble fs' b := by
  rw [assemble_eq, assemble_eq, h]

theorem front_internal {fs : Files} {a : List Str} (h : front fs a = .internal) :
    assemble fs a = .internal := by
  rw [assemble_eq, h]

theorem front_ne_internal {fs : Files} {a : List Str} (h : assemble fs a ≠ .internal) :
    front fs a ≠ .internal := fun hc => h (front_internal hc)

/-! ### the inclusion step at the level of `front` -/

theorem front_ne_diverged (fs : Files) (a : List Str) : front fs a ≠ .diverged := by
  unfold front
  rcases parseLines_ok_or_diag a with ⟨r, hr⟩ | hr <;> rw [hr]
  · exact expand_ne_diverged fs 64 r
  · simp

/-- `front` of a program whose lines all parse -/
theorem front_of_parsed {fs : Files} {a : List Str} {r : List Stmt} (h : parseLines a = .ok r) :
    front fs a = expand.go fs 63 r := by
  unfold front; rw [h]; exact expand_succ fs 63 r

/-- replacing one INCLUDE line by the lines of the file: the parse-and-expand stage agrees unless the
left side ends in `internal` -/
theorem front_include {fs : Files} {pre post ls : List Str} {l : Str} {s : Stmt}
    (hl : parseLine l = .ok (some s))
    (hinc : (s.row.isInclude && !s.operand.text.isEmpty) = true)
    (hf : fs.get? s.operand.text = some ls)
    (hne : front fs (pre ++ [l] ++ post) ≠ .internal) :
    front fs (pre ++ [l] ++ post) = front fs (pre ++ ls ++ post) := by
  unfold front at hne ⊢
  rw [parseLines_append, parseLines_append, parseLines_single_some hl] at hne ⊢
  rw [parseLines_append (pre ++ ls), parseLines_append pre ls]
  rcases parseLines_ok_or_diag pre with ⟨rp, hp⟩ | hp <;> rw [hp] at hne ⊢
  · rcases parseLines_ok_or_diag post with ⟨rq, hq⟩ | hq <;> rw [hq] at hne ⊢
    · simp only [oapp_ok_ok] at hne ⊢
      rw [show (64 : Nat) = 63 + 1 from rfl, expand_succ, go_append, go_append, go_single,
        expandOne_some hinc hf] at hne ⊢
      rcases parseLines_ok_or_diag ls with ⟨inc, hi⟩ | hi <;> rw [hi] at hne ⊢
      · simp only [oapp_ok_ok, expand_succ, go_append]
        rw [← expand_succ fs 63 inc]
        show oapp (oapp _ (expand fs 63 inc)) _ = _
        change oapp (oapp _ (expand fs 63 inc)) _ ≠ _ at hne
        by_cases hx : expand fs 63 inc = .internal
        · rw [hx] at hne ⊢
          have hA := go_ne_diverged fs 63 rp
          cases hgo : expand.go fs 63 rp <;> simp_all
        · rw [expand_mono fs 63 inc hx]
      · have hA := go_ne_diverged fs 63 rp
        cases hgo : expand.go fs 63 rp <;> simp_all [Outcome.bind]
    · rcases parseLines_ok_or_diag ls with ⟨inc, hi⟩ | hi <;> rw [hi] <;> rfl
  · rfl

/-! ### missing file and include cycle -/

theorem parseLines_around {pre post : List Str} {l : Str} {s : Stmt} {rp rq : List Stmt}
    (hl : parseLine l = .ok (some s)) (hp : parseLines pre = .ok rp) (hq : parseLines post = .ok rq) :
    parseLines (pre ++ [l] ++ post) = .ok (rp ++ [s] ++ rq) := by
  rw [parseLines_append, parseLines_append, parseLines_single_some hl, hp, hq]; rfl

/-- an INCLUDE of a file the host does not have, reached after a prefix that expands fine: `internal` -/
theorem front_missing {fs : Files} {pre post : List Str} {l : Str} {s : Stmt} {rp rq e : List Stmt}
    (hl : parseLine l = .ok (some s))
    (hinc : (s.row.isInclude && !s.operand.text.isEmpty) = true)
    (hf : fs.get? s.operand.text = none)
    (hp : parseLines pre = .ok rp) (hq : parseLines post = .ok rq)
    (he : expand fs 64 rp = .ok e) :
    front fs (pre ++ [l] ++ post) = .internal := by
  rw [front_of_parsed (parseLines_around hl hp hq), go_append, go_append, go_single,
    expandOne_missing hinc hf, ← expand_succ, he]
  rfl

/-- statements that are not INCLUDEs are copied -/
theorem go_plain (fs : Files) (n : Nat) : ∀ (ss : List Stmt), (∀ x ∈ ss, x.row.isInclude = false) →
    expand.go fs n ss = .ok ss := by
  intro ss
  induction ss with
  | nil => intro _; exact go_nil fs n
  | cons x rest ih =>
    intro h
    rw [go_cons, expandOne_plain (by simp [h x (by simp)]), ih (fun y hy => h y (by simp [hy]))]
    rfl

theorem expand_plain (fs : Files) (n : Nat) (ss : List Stmt) (h : ∀ x ∈ ss, x.row.isInclude = false) :
    expand fs (n + 1) ss = .ok ss := by
  rw [expand_succ]; exact go_plain fs n ss h

/-- a program that is one INCLUDE of a file without further INCLUDEs expands to the file's statements -/
theorem front_single_include_plain {fs : Files} {ls : List Str} {l : Str} {s : Stmt} {r : List Stmt}
    (hl : parseLine l = .ok (some s))
    (hinc : (s.row.isInclude && !s.operand.text.isEmpty) = true)
    (hf : fs.get? s.operand.text = some ls)
    (hr : parseLines ls = .ok r) (hpl : ∀ x ∈ r, x.row.isInclude = false) :
    front fs [l] = .ok r := by
  rw [front_of_parsed (parseLines_single_some hl), go_single, expandOne_some hinc hf, hr]
  exact expand_plain fs 62 r hpl

/-- a file that includes itself exhausts any amount of fuel (Python: RecursionError) -/
theorem expand_self_include {fs : Files} {pre post : List Str} {l : Str} {s : Stmt} {rp rq : List Stmt}
    (hl : parseLine l = .ok (some s))
    (hinc : (s.row.isInclude && !s.operand.text.isEmpty) = true)
    (hf : fs.get? s.operand.text = some (pre ++ [l] ++ post))
    (hp : parseLines pre = .ok rp) (hnp : ∀ x ∈ rp, x.row.isInclude = false)
    (hq : parseLines post = .ok rq) :
    ∀ n, expand fs n (rp ++ [s] ++ rq) = .internal := by
  intro n
  induction n with
  | zero => exact expand_zero fs _
  | succ n ih =>
    rw [expand_succ, go_append, go_append, go_single, expandOne_some hinc hf,
      parseLines_around hl hp hq, go_plain fs n rp hnp]
    show oapp (oapp _ (expand fs n _)) _ = _
    rw [ih]; rfl

/-- ... hence any program that reaches such an INCLUDE ends in `internal` -/
theorem front_self_include {fs : Files} {pre post pre0 post0 : List Str} {l : Str} {s : Stmt}
    {rp rq rp0 rq0 e : List Stmt}
    (hl : parseLine l = .ok (some s))
    (hinc : (s.row.isInclude && !s.operand.text.isEmpty) = true)
    (hf : fs.get? s.operand.text = some (pre ++ [l] ++ post))
    (hp : parseLines pre = .ok rp) (hnp : ∀ x ∈ rp, x.row.isInclude = false)
    (hq : parseLines post = .ok rq)
    (hp0 : parseLines pre0 = .ok rp0) (hq0 : parseLines post0 = .ok rq0)
    (he : expand fs 64 rp0 = .ok e) :
    front fs (pre0 ++ [l] ++ post0) = .internal := by
  rw [front_of_parsed (parseLines_around hl hp0 hq0), go_append, go_append, go_single,
    expandOne_some hinc hf, parseLines_around hl hp hq, ← expand_succ, he]
  show oapp (oapp _ (expand fs 63 _)) _ = _
  rw [expand_self_include hl hinc hf hp hnp hq]; rfl

end CoCo.Asm
