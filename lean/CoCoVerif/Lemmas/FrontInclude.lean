/-
Lemmas/FrontInclude.lean — helper lemmas for C19 (INCLUDE is textual inclusion):
`parseLines` and the local recursion of `expand` distribute over `++` (with "first failure wins"
sequencing `oapp`), fuel monotonicity of `expand`, monotonicity in the chain of files being included
(`expand_ok_mono`, `expand_self_chain`), non-divergence, the factorisation `assemble = front ; back`,
missing file / cycle give `diag`, and a chain of nested files that exhausts a given fuel (`expandOne_deep`).
Batch 6: the fuel `includeFuel fs` of `assemble` is never exhausted (`chain_length_le`: pigeonhole on the chain of
files being included; `expand_ne_internal_of_fuel`, `expand_includeFuel_ne_internal`, `expand_fuel_irrelevant`), hence
`front_never_internal`, `front_include_eq` (textual inclusion without side conditions), `front_missing_full`,
`front_self_include_full`.
-/
import CoCoVerif.Model.Program

namespace CoCo.Asm
open CoCo

/-! ### sequencing of list-valued outcomes: first failure wins -/

/-- `x` then `y`: concatenate on success, otherwise the first failure -/
def oapp {α} (x y : Outcome (List α)) : Outcome (List α) :=
  match x with
  | .ok a => (match y with | .ok b => .ok (a ++ b) | o => o)
  | o => o

@[simp] theorem oapp_ok_ok {α} (a b : List α) : oapp (.ok a) (.ok b) = .ok (a ++ b) := rfl
@[simp] theorem oapp_diag {α} (y : Outcome (List α)) : oapp .diag y = .diag := rfl
@[simp] theorem oapp_internal {α} (y : Outcome (List α)) : oapp .internal y = .internal := rfl
@[simp] theorem oapp_diverged {α} (y : Outcome (List α)) : oapp .diverged y = .diverged := rfl
@[simp] theorem oapp_ok_diag {α} (a : List α) : oapp (.ok a) .diag = .diag := rfl
@[simp] theorem oapp_ok_internal {α} (a : List α) : oapp (.ok a) .internal = .internal := rfl
@[simp] theorem oapp_ok_diverged {α} (a : List α) : oapp (.ok a) .diverged = .diverged := rfl
@[simp] theorem oapp_nil {α} (y : Outcome (List α)) : oapp (.ok []) y = y := by cases y <;> rfl
@[simp] theorem oapp_nil_right {α} (x : Outcome (List α)) : oapp x (.ok []) = x := by
  cases x <;> simp [oapp]

theorem oapp_assoc {α} (x y z : Outcome (List α)) : oapp (oapp x y) z = oapp x (oapp y z) := by
  cases x <;> cases y <;> cases z <;> simp [oapp]

/-! ### parseLine / parseLines -/

theorem parseLine_ok_or_diag (l : Str) : (∃ x, parseLine l = .ok x) ∨ parseLine l = .diag := by
  unfold parseLine
  split
  · simp
  · simp
  · simp
  · dsimp only
    split
    · simp
    · split
      · split
        · simp
        · split <;> simp
      · split <;> simp

theorem parseLines_cons (l : Str) (ls : List Str) :
    parseLines (l :: ls) =
      oapp (match parseLine l with
            | .ok none => .ok [] | .ok (some s) => .ok [s]
            | .diag => .diag | .internal => .internal | .diverged => .diverged) (parseLines ls) := by
  rw [parseLines]
  split <;> simp_all [oapp] <;> cases parseLines ls <;> rfl

theorem parseLines_append (a b : List Str) : parseLines (a ++ b) = oapp (parseLines a) (parseLines b) := by
  induction a with
  | nil => simp [parseLines]
  | cons l ls ih => rw [List.cons_append, parseLines_cons, parseLines_cons, ih, oapp_assoc]

theorem parseLines_ok_or_diag (ls : List Str) : (∃ r, parseLines ls = .ok r) ∨ parseLines ls = .diag := by
  induction ls with
  | nil => exact .inl ⟨[], rfl⟩
  | cons l ls ih =>
    rw [parseLines_cons]
    rcases parseLine_ok_or_diag l with ⟨x, hx⟩ | hx <;> rw [hx]
    · rcases ih with ⟨r, hr⟩ | hr <;> rw [hr] <;> cases x <;> simp
    · simp

theorem parseLines_single_some {l : Str} {s : Stmt} (h : parseLine l = .ok (some s)) :
    parseLines [l] = .ok [s] := by
  simp [parseLines, h]

/-! ### expand -/

/-- what `go` does with one statement -/
def expandOne (fs : Files) (fuel : Nat) (inc : List Str) (s : Stmt) : Outcome (List Stmt) :=
  if s.row.isInclude && !s.operand.text.isEmpty then
    if inc.contains s.operand.text then .diag
    else
      match fs.get? s.operand.text with
      | none => .diag
      | some lines => (parseLines lines).bind (expand fs fuel (inc ++ [s.operand.text]))
  else .ok [s]

theorem expandOne_plain {fs : Files} {fuel : Nat} {inc : List Str} {s : Stmt}
    (h : (s.row.isInclude && !s.operand.text.isEmpty) = false) : expandOne fs fuel inc s = .ok [s] := by
  simp [expandOne, h]

/-- an INCLUDE of a file that is being included: diagnostic -/
theorem expandOne_cycle {fs : Files} {fuel : Nat} {inc : List Str} {s : Stmt}
    (h : (s.row.isInclude && !s.operand.text.isEmpty) = true) (hc : inc.contains s.operand.text = true) :
    expandOne fs fuel inc s = .diag := by
  simp only [expandOne, h, hc, if_true]

/-- an INCLUDE of a file the host does not have: diagnostic -/
theorem expandOne_missing {fs : Files} {fuel : Nat} {inc : List Str} {s : Stmt}
    (h : (s.row.isInclude && !s.operand.text.isEmpty) = true) (hf : fs.get? s.operand.text = none) :
    expandOne fs fuel inc s = .diag := by
  simp only [expandOne, h, hf, if_true]
  split <;> rfl

theorem expandOne_some {fs : Files} {fuel : Nat} {inc : List Str} {s : Stmt} {lines : List Str}
    (h : (s.row.isInclude && !s.operand.text.isEmpty) = true) (hc : inc.contains s.operand.text = false)
    (hf : fs.get? s.operand.text = some lines) :
    expandOne fs fuel inc s = (parseLines lines).bind (expand fs fuel (inc ++ [s.operand.text])) := by
  simp only [expandOne, h, hc, hf, if_true]
  rfl

theorem go_nil (fs : Files) (fuel : Nat) (inc : List Str) : expand.go fs fuel inc [] = .ok [] :=
  expand.go.eq_1 fs fuel inc

theorem go_cons (fs : Files) (fuel : Nat) (inc : List Str) (s : Stmt) (rest : List Stmt) :
    expand.go fs fuel inc (s :: rest) = oapp (expandOne fs fuel inc s) (expand.go fs fuel inc rest) := by
  rw [expand.go.eq_2]
  by_cases h : (s.row.isInclude && !s.operand.text.isEmpty) = true
  · rw [if_pos h]
    cases hc : inc.contains s.operand.text with
    | true => rw [expandOne_cycle h hc]; rfl
    | false =>
      rw [if_neg (by simp)]
      cases hf : fs.get? s.operand.text with
      | none => rw [expandOne_missing h hf]; rfl
      | some lines =>
        rw [expandOne_some h hc hf]
        dsimp only
        cases parseLines lines with
        | ok p =>
          dsimp only [Outcome.bind]
          cases expand fs fuel (inc ++ [s.operand.text]) p <;> cases expand.go fs fuel inc rest <;> rfl
        | _ => rfl
  · rw [if_neg h, expandOne_plain (by simpa using h)]
    cases expand.go fs fuel inc rest <;> rfl

theorem go_append (fs : Files) (fuel : Nat) (inc : List Str) (a b : List Stmt) :
    expand.go fs fuel inc (a ++ b) = oapp (expand.go fs fuel inc a) (expand.go fs fuel inc b) := by
  induction a with
  | nil => simp [go_nil]
  | cons s rest ih => rw [List.cons_append, go_cons, go_cons, ih, oapp_assoc]

theorem go_single (fs : Files) (fuel : Nat) (inc : List Str) (s : Stmt) :
    expand.go fs fuel inc [s] = expandOne fs fuel inc s := by
  rw [go_cons, go_nil, oapp_nil_right]

theorem expand_succ (fs : Files) (fuel : Nat) (inc : List Str) (ss : List Stmt) :
    expand fs (fuel + 1) inc ss = expand.go fs fuel inc ss := expand.eq_2 fs inc ss fuel

theorem expand_zero (fs : Files) (inc : List Str) (ss : List Stmt) : expand fs 0 inc ss = .internal :=
  expand.eq_1 fs inc ss

theorem oapp_ne_diverged {α} {x y : Outcome (List α)} (hx : x ≠ .diverged) (hy : y ≠ .diverged) :
    oapp x y ≠ .diverged := by
  cases x <;> cases y <;> simp_all [oapp]

theorem oapp_eq_ok {α} {x y : Outcome (List α)} {r : List α} (h : oapp x y = .ok r) :
    ∃ a b, x = .ok a ∧ y = .ok b ∧ r = a ++ b := by
  cases x <;> cases y <;> simp_all [oapp]

theorem oapp_eq_diag {α} {x y : Outcome (List α)} (h : oapp x y = .diag) :
    x = .diag ∨ ∃ a, x = .ok a ∧ y = .diag := by
  cases x <;> cases y <;> simp_all [oapp]

/-- the three ways an INCLUDE statement is processed -/
theorem expandOne_cases (fs : Files) (fuel : Nat) (inc : List Str) (s : Stmt) :
    ((s.row.isInclude && !s.operand.text.isEmpty) = false ∧ expandOne fs fuel inc s = .ok [s]) ∨
    ((s.row.isInclude && !s.operand.text.isEmpty) = true ∧
      (inc.contains s.operand.text = true ∨ fs.get? s.operand.text = none ∨
        ∃ lines, fs.get? s.operand.text = some lines ∧ parseLines lines = .diag) ∧
      expandOne fs fuel inc s = .diag) ∨
    ((s.row.isInclude && !s.operand.text.isEmpty) = true ∧ inc.contains s.operand.text = false ∧
      ∃ lines p, fs.get? s.operand.text = some lines ∧ parseLines lines = .ok p ∧
        expandOne fs fuel inc s = expand fs fuel (inc ++ [s.operand.text]) p) := by
  by_cases h : (s.row.isInclude && !s.operand.text.isEmpty) = true
  · cases hc : inc.contains s.operand.text with
    | true => exact .inr (.inl ⟨h, .inl rfl, expandOne_cycle h hc⟩)
    | false =>
      cases hf : fs.get? s.operand.text with
      | none => exact .inr (.inl ⟨h, .inr (.inl rfl), expandOne_missing h hf⟩)
      | some lines =>
        rcases parseLines_ok_or_diag lines with ⟨p, hp⟩ | hp
        · exact .inr (.inr ⟨h, rfl, lines, p, rfl, hp, by rw [expandOne_some h hc hf, hp]; rfl⟩)
        · exact .inr (.inl ⟨h, .inr (.inr ⟨lines, rfl, hp⟩), by rw [expandOne_some h hc hf, hp]; rfl⟩)
  · exact .inl ⟨by simpa using h, expandOne_plain (by simpa using h)⟩

/-- INCLUDE expansion never diverges (fuel exhaustion is `internal`) -/
theorem expand_ne_diverged (fs : Files) : ∀ (n : Nat) (inc : List Str) (ss : List Stmt),
    expand fs n inc ss ≠ .diverged := by
  intro n
  induction n with
  | zero => intro inc ss; simp [expand_zero]
  | succ n ih =>
    intro inc ss
    rw [expand_succ]
    induction ss with
    | nil => simp [go_nil]
    | cons s rest ihr =>
      rw [go_cons]
      refine oapp_ne_diverged ?_ ihr
      rcases expandOne_cases fs n inc s with ⟨_, h⟩ | ⟨_, _, h⟩ | ⟨_, _, _, p, _, _, h⟩ <;> rw [h]
      · simp
      · simp
      · exact ih _ p

theorem go_ne_diverged (fs : Files) (n : Nat) (inc : List Str) (ss : List Stmt) :
    expand.go fs n inc ss ≠ .diverged := by
  rw [← expand_succ]; exact expand_ne_diverged fs _ inc ss

/-- fuel monotonicity: one more unit of fuel cannot change a result that was not fuel exhaustion -/
theorem expand_mono (fs : Files) : ∀ (n : Nat) (inc : List Str) (ss : List Stmt),
    expand fs n inc ss ≠ .internal → expand fs (n + 1) inc ss = expand fs n inc ss := by
  intro n
  induction n with
  | zero => intro inc ss h; simp [expand_zero] at h
  | succ n ih =>
    intro inc ss
    rw [expand_succ, expand_succ]
    induction ss with
    | nil => simp [go_nil]
    | cons s rest ihr =>
      rw [go_cons, go_cons]
      intro h
      have h1 : expandOne fs (n + 1) inc s = expandOne fs n inc s := by
        have hx : expandOne fs n inc s ≠ .internal := by
          intro hc; rw [hc] at h; simp at h
        rcases expandOne_cases fs n inc s with ⟨hp, h0⟩ | ⟨hp, hd, h0⟩ | ⟨hp, hc, lines, p, hf, hpl, h0⟩
        · rw [h0, expandOne_plain hp]
        · rw [h0]
          rcases hd with hd | hd | ⟨lines, hf, hpl⟩
          · exact expandOne_cycle hp hd
          · exact expandOne_missing hp hd
          · cases hc : inc.contains s.operand.text with
            | true => exact expandOne_cycle hp hc
            | false => rw [expandOne_some hp hc hf, hpl]; rfl
        · rw [h0] at hx ⊢
          rw [expandOne_some hp hc hf, hpl]
          exact ih _ p hx
      rw [h1]
      cases hx : expandOne fs n inc s with
      | ok e =>
        rw [hx] at h
        have : expand.go fs n inc rest ≠ .internal := by
          intro hc; rw [hc] at h; simp at h
        rw [ihr this]
      | _ => rfl

theorem expand_mono_ok {fs : Files} {n : Nat} {inc : List Str} {ss r : List Stmt}
    (h : expand fs n inc ss = .ok r) : expand fs (n + 1) inc ss = .ok r := by
  rw [expand_mono fs n inc ss (by rw [h]; simp), h]

theorem expand_mono_diag {fs : Files} {n : Nat} {inc : List Str} {ss : List Stmt}
    (h : expand fs n inc ss = .diag) : expand fs (n + 1) inc ss = .diag := by
  rw [expand_mono fs n inc ss (by rw [h]; simp), h]

theorem expand_mono_le {fs : Files} {n m : Nat} {inc : List Str} {ss : List Stmt} (hnm : n ≤ m)
    (h : expand fs n inc ss ≠ .internal) : expand fs m inc ss = expand fs n inc ss := by
  induction hnm with
  | refl => rfl
  | step _ ih => rw [expand_mono fs _ inc ss (by rw [ih]; exact h), ih]

/-! ### the fuel `includeFuel fs` suffices

A file that is being included is rejected, so the chain of files being processed never holds a name twice; every name
in it is a key of `fs`; hence the chain is never longer than `fs` (pigeonhole) and `fs.length + 1` levels are never
exhausted. -/

/-- pigeonhole: a duplicate-free list whose members all lie in `m` is no longer than `m` -/
theorem nodup_subset_length_le {α} [BEq α] [LawfulBEq α] : ∀ (m l : List α), l.Nodup → (∀ x ∈ l, x ∈ m) →
    l.length ≤ m.length := by
  intro m
  induction m with
  | nil =>
    intro l _ h
    cases l with
    | nil => simp
    | cons x _ => exact absurd (h x (by simp)) (by simp)
  | cons a m ih =>
    intro l hn h
    have h1 := ih (l.erase a) (hn.erase a) (by
      intro x hx
      rw [hn.mem_erase_iff] at hx
      rcases List.mem_cons.1 (h x hx.2) with e | e
      · exact absurd e hx.1
      · exact e)
    have h2 : l.length ≤ (l.erase a).length + 1 := by
      rw [List.length_erase]; split <;> omega
    simp only [List.length_cons]; omega

theorem Files.get?_isSome_mem {fs : Files} {n : Str} (h : (fs.get? n).isSome = true) : n ∈ fs.map (·.1) := by
  unfold Files.get? at h
  rw [Option.isSome_map] at h
  obtain ⟨x, hx⟩ := Option.isSome_iff_exists.1 h
  have h1 := List.find?_some hx
  have h2 := List.mem_of_find?_eq_some hx
  simp only [beq_iff_eq] at h1
  exact List.mem_map.2 ⟨x, h2, h1⟩

/-- a duplicate-free chain of files that exist is no longer than the number of files -/
theorem chain_length_le (fs : Files) (inc : List Str) (hn : inc.Nodup)
    (hk : ∀ n ∈ inc, (fs.get? n).isSome = true) : inc.length ≤ fs.length := by
  have := nodup_subset_length_le (fs.map (·.1)) inc hn (fun x hx => Files.get?_isSome_mem (hk x hx))
  simpa using this

/-- a file that exists: there is at least one file -/
theorem Files.length_pos_of_get? {fs : Files} {n : Str} {ls : List Str} (h : fs.get? n = some ls) :
    0 < fs.length := by
  have := chain_length_le fs [n] (by simp) (by intro x hx; simp only [List.mem_singleton] at hx; subst hx; simp [h])
  simp only [List.length_singleton] at this; omega

/-- **the fuel suffices**: with a duplicate-free chain of existing files and `fs.length < fuel + chain length`,
INCLUDE expansion does not run out of fuel -/
theorem expand_ne_internal_of_fuel (fs : Files) : ∀ (fuel : Nat) (inc : List Str) (ss : List Stmt),
    inc.Nodup → (∀ n ∈ inc, (fs.get? n).isSome = true) → fs.length < fuel + inc.length →
    expand fs fuel inc ss ≠ .internal := by
  intro fuel
  induction fuel with
  | zero =>
    intro inc ss hn hk hl
    have := chain_length_le fs inc hn hk
    omega
  | succ n ih =>
    intro inc ss hn hk hl
    rw [expand_succ]
    induction ss with
    | nil => simp [go_nil]
    | cons s rest ihr =>
      rw [go_cons]
      have h1 : expandOne fs n inc s ≠ .internal := by
        rcases expandOne_cases fs n inc s with ⟨_, h⟩ | ⟨_, _, h⟩ | ⟨_, hc, lines, p, hf, _, h⟩ <;> rw [h]
        · simp
        · simp
        · refine ih _ p ?_ ?_ ?_
          · rw [List.nodup_append]
            refine ⟨hn, by simp, ?_⟩
            intro a ha b hb e
            simp only [List.mem_singleton] at hb
            rw [← e] at hb
            have : inc.contains s.operand.text = true := by rw [← hb]; simpa using ha
            rw [this] at hc; cases hc
          · intro x hx
            simp only [List.mem_append, List.mem_singleton] at hx
            rcases hx with hx | hx
            · exact hk x hx
            · subst hx; simp [hf]
          · simp only [List.length_append, List.length_singleton]; omega
      intro hc
      cases hx : expandOne fs n inc s <;> cases hy : expand.go fs n inc rest <;> simp_all [oapp]

/-- the nesting budget of `assemble` is never exhausted -/
theorem expand_includeFuel_ne_internal (fs : Files) (ss : List Stmt) :
    expand fs (includeFuel fs) [] ss ≠ .internal :=
  expand_ne_internal_of_fuel fs _ [] ss (by simp) (by simp) (by simp [includeFuel])

/-- ... so every larger budget gives the same result -/
theorem expand_fuel_irrelevant (fs : Files) (m : Nat) (ss : List Stmt) (h : includeFuel fs ≤ m) :
    expand fs m [] ss = expand fs (includeFuel fs) [] ss :=
  expand_mono_le h (expand_includeFuel_ne_internal fs ss)

/-- ... in general: every sufficient budget gives the same result -/
theorem expand_fuel_irrelevant' (fs : Files) (n m : Nat) (inc : List Str) (ss : List Stmt)
    (hn : inc.Nodup) (hk : ∀ x ∈ inc, (fs.get? x).isSome = true)
    (h1 : fs.length < n + inc.length) (h2 : fs.length < m + inc.length) :
    expand fs m inc ss = expand fs n inc ss := by
  rcases Nat.le_total n m with h | h
  · exact expand_mono_le h (expand_ne_internal_of_fuel fs n inc ss hn hk h1)
  · exact (expand_mono_le h (expand_ne_internal_of_fuel fs m inc ss hn hk h2)).symm

/-! ### the chain of files being included

A longer chain can only turn results into `diag` (more INCLUDEs count as cycles); a shorter chain and
more fuel preserve success.  Because the Python reports a cycle at the *second* occurrence of a file in
the chain, a chain that does not yet contain the file being processed goes one level deeper before it
reports: the verdict is the same (`diag`) unless the extra level runs out of fuel. -/

/-- success is preserved by more fuel and a shorter chain -/
theorem expand_ok_mono (fs : Files) : ∀ (n m : Nat) (I J : List Str) (ss r : List Stmt),
    n ≤ m → (∀ x ∈ J, x ∈ I) → expand fs n I ss = .ok r → expand fs m J ss = .ok r := by
  intro n
  induction n with
  | zero => intro m I J ss r _ _ h; rw [expand_zero] at h; cases h
  | succ n ih =>
    intro m I J ss r hnm hsub
    obtain ⟨m, rfl⟩ : ∃ k, m = k + 1 := ⟨m - 1, by omega⟩
    rw [expand_succ, expand_succ]
    induction ss generalizing r with
    | nil => simp [go_nil]
    | cons s rest ihr =>
      rw [go_cons, go_cons]
      intro h
      obtain ⟨a, b, ha, hb, rfl⟩ := oapp_eq_ok h
      rw [ihr b hb]
      suffices hs : expandOne fs m J s = .ok a by rw [hs]; rfl
      rcases expandOne_cases fs n I s with ⟨hp, h0⟩ | ⟨hp, hd, h0⟩ | ⟨hp, hc, lines, p, hf, hpl, h0⟩
      · rw [expandOne_plain hp, ← ha, h0]
      · rw [h0] at ha; cases ha
      · have hcJ : J.contains s.operand.text = false := by
          cases hj : J.contains s.operand.text with
          | false => rfl
          | true =>
            have := hsub _ (by simpa using hj)
            simp_all
        rw [expandOne_some hp hcJ hf, hpl]
        rw [h0] at ha
        refine ih m _ _ p a (by omega) ?_ ha
        intro x hx
        simp only [List.mem_append, List.mem_singleton] at hx ⊢
        exact hx.imp_left (hsub x)

/-- a run that succeeds under chain `J` can, under a chain `I ⊆ J ∪ {f}`, end in `diag` only if the
successful run expanded an `INCLUDE f` below a chain containing `f`, with less fuel -/
theorem expand_diag_of_ok (fs : Files) (f : Str) : ∀ (m : Nat) (J : List Str) (ss r : List Stmt),
    expand fs m J ss = .ok r → ∀ (n : Nat) (I : List Str), (∀ x ∈ I, x ∈ J ∨ x = f) →
    expand fs n I ss = .diag →
    ∃ m' J' lf pf r', m' < m ∧ (∀ x ∈ J, x ∈ J') ∧ f ∈ J' ∧ fs.get? f = some lf ∧
      parseLines lf = .ok pf ∧ expand fs m' J' pf = .ok r' := by
  intro m
  induction m with
  | zero => intro J ss r h; rw [expand_zero] at h; cases h
  | succ m ih =>
    intro J ss r h n I hsub hd
    rw [expand_succ] at h
    obtain ⟨n, rfl⟩ : ∃ k, n = k + 1 := by
      cases n with
      | zero => rw [expand_zero] at hd; cases hd
      | succ k => exact ⟨k, rfl⟩
    rw [expand_succ] at hd
    induction ss generalizing r with
    | nil => rw [go_nil] at hd; cases hd
    | cons s rest ihr =>
      rw [go_cons] at h hd
      obtain ⟨a, b, ha, hb, rfl⟩ := oapp_eq_ok h
      rcases oapp_eq_diag hd with hd1 | ⟨_, _, hd2⟩
      · rcases expandOne_cases fs m J s with ⟨hp, h0⟩ | ⟨hp, _, h0⟩ | ⟨hp, hcJ, lines, p, hf, hpl, h0⟩
        · rw [expandOne_plain hp] at hd1; cases hd1
        · rw [h0] at ha; cases ha
        · rw [h0] at ha
          cases hcI : I.contains s.operand.text with
          | true =>
            have hmem : s.operand.text ∈ I := by simpa using hcI
            rcases hsub _ hmem with hJ | hJ
            · simp_all
            · refine ⟨m, J ++ [s.operand.text], lines, p, a, by omega, ?_, ?_, hJ ▸ hf, hpl, ha⟩
              · intro x hx; simp [hx]
              · simp [hJ]
          | false =>
            rw [expandOne_some hp hcI hf, hpl] at hd1
            obtain ⟨m', J', lf, pf, r', h1, h2, h3, h4, h5, h6⟩ :=
              ih _ p a ha n (I ++ [s.operand.text]) (by
                intro x hx
                simp only [List.mem_append, List.mem_singleton] at hx ⊢
                rcases hx with hx | hx
                · rcases hsub x hx with h | h
                  · exact .inl (.inl h)
                  · exact .inr h
                · exact .inl (.inr hx)) hd1
            exact ⟨m', J', lf, pf, r', by omega, fun x hx => h2 x (by simp [hx]), h3, h4, h5, h6⟩
      · exact ihr b hb hd2

/-- the lines of file `f`: if they expand successfully under some chain `J`, then under a chain
`I ⊆ J ∪ {f}` they cannot end in `diag` (they end in the same success, or fuel runs out) -/
theorem expand_self_chain (fs : Files) (f : Str) (lf : List Str) (pf : List Stmt)
    (hf : fs.get? f = some lf) (hpf : parseLines lf = .ok pf) :
    ∀ (m : Nat) (J : List Str) (r : List Stmt), expand fs m J pf = .ok r →
    ∀ (n : Nat) (I : List Str), (∀ x ∈ I, x ∈ J ∨ x = f) → expand fs n I pf ≠ .diag := by
  intro m
  induction m using Nat.strongRecOn with
  | _ m ih =>
    intro J r h n I hsub hd
    obtain ⟨m', J', lf', pf', r', h1, h2, _, h4, h5, h6⟩ := expand_diag_of_ok fs f m J pf r h n I hsub hd
    rw [hf] at h4; cases h4
    rw [hpf] at h5; cases h5
    exact ih m' h1 J' r' h6 n I (fun x hx => (hsub x hx).imp_left (h2 x)) hd

/-! ### assemble = front ; back -/

/-- parse and expand -/
def front (fs : Files) (lines : List Str) : Outcome (List Stmt) :=
  match parseLines lines with
  | .ok parsed => expand fs (includeFuel fs) [] parsed
  | o => o

/-- everything after INCLUDE expansion: a function of the expanded list only -/
def back (ss0 : List Stmt) : Outcome Assembly :=
  match buildSymTab ss0 0 [] with
  | none => .diag
  | some t =>
    match resolveAll t ss0 with
    | none => .diag
    | some ss1 =>
      match translateAll ss1 with
      | none => .diag
      | some ss2 =>
        match pcrLoop (ss2.length + 1) ss2 with
        | .ok ss3 =>
          if !orgOK ss3 false then .diag else
          match assignAddrs ss3 0 with
          | .ok ss4 =>
            match fixAllL t ss4 with
            | .ok ss5 =>
              match evalSyms ss5 t t with
              | .ok t1 =>
                match finalSymTab ss5 t1 with
                | .ok t' =>
                  let origin := ss5.foldl (fun o s => if s.row.isOrigin then s.pkg.address else o) Value.none
                  let name := ss5.foldl (fun o s => if s.row.isName then some s.operand.text else o) none
                  .ok { stmts := ss5, symtab := t', origin := origin, name := name }
                | .diag => .diag
                | .internal => .internal
                | .diverged => .diverged
              | .diag => .diag
              | .internal => .internal
              | .diverged => .diverged
            | .diag => .diag
            | .internal => .internal
            | .diverged => .diverged
          | .diag => .diag
          | .internal => .internal
          | .diverged => .diverged
        | .diag => .diag
        | .internal => .internal
        | .diverged => .diverged

theorem assemble_eq (fs : Files) (lines : List Str) :
    assemble fs lines =
      match front fs lines with
      | .ok ss0 => back ss0
      | .diag => .diag
      | .internal => .internal
      | .diverged => .diverged := by
  unfold assemble front back
  cases parseLines lines with
  | ok p => cases expand fs (includeFuel fs) [] p <;> rfl
  | _ => rfl

theorem assemble_congr {fs fs' : Files} {a b : List Str} (h : front fs a = front fs' b) :
    assemble fs a = assemble fs' b := by
  rw [assemble_eq, assemble_eq, h]

theorem front_internal {fs : Files} {a : List Str} (h : front fs a = .internal) :
    assemble fs a = .internal := by
  rw [assemble_eq, h]

theorem front_ne_internal {fs : Files} {a : List Str} (h : assemble fs a ≠ .internal) :
    front fs a ≠ .internal := fun hc => h (front_internal hc)

theorem front_diag {fs : Files} {a : List Str} (h : front fs a = .diag) : assemble fs a = .diag := by
  rw [assemble_eq, h]

theorem front_ok_of_assemble_ok {fs : Files} {a : List Str} {x : Assembly} (h : assemble fs a = .ok x) :
    ∃ ss, front fs a = .ok ss := by
  rw [assemble_eq] at h
  cases hf : front fs a with
  | ok ss => exact ⟨ss, rfl⟩
  | _ => rw [hf] at h; cases h

/-! ### the inclusion step at the level of `front` -/

theorem front_ne_diverged (fs : Files) (a : List Str) : front fs a ≠ .diverged := by
  unfold front
  rcases parseLines_ok_or_diag a with ⟨r, hr⟩ | hr <;> rw [hr]
  · exact expand_ne_diverged fs (includeFuel fs) [] r
  · simp

/-- `front` of a program whose lines all parse -/
theorem front_of_parsed {fs : Files} {a : List Str} {r : List Stmt} (h : parseLines a = .ok r) :
    front fs a = expand.go fs fs.length [] r := by
  unfold front; rw [h]; exact expand_succ fs fs.length [] r

/-- Replacing one INCLUDE line by the lines of the file, at the level of the parse-and-expand stage.
Three cases: the two sides agree; or the INCLUDE side runs out of fuel (`internal`); or the INCLUDE
side reports a diagnostic and the substituted side runs out of fuel.  The last case is there because of
cycles: with the INCLUDE line the file `f` is in the chain while its lines are processed, so an
`INCLUDE f` further down is reported at once; after substitution `f` is not in the chain, the inner
`INCLUDE f` is expanded once more and the cycle is reported one level deeper (`expand_self_chain`
shows it cannot succeed) — unless that extra level exhausts the fuel. -/
theorem front_include_cases {fs : Files} {pre post ls : List Str} {l : Str} {s : Stmt}
    (hl : parseLine l = .ok (some s))
    (hinc : (s.row.isInclude && !s.operand.text.isEmpty) = true)
    (hf : fs.get? s.operand.text = some ls) :
    front fs (pre ++ [l] ++ post) = front fs (pre ++ ls ++ post) ∨
    front fs (pre ++ [l] ++ post) = .internal ∨
    (front fs (pre ++ [l] ++ post) = .diag ∧ front fs (pre ++ ls ++ post) = .internal) := by
  unfold front
  rw [parseLines_append, parseLines_append, parseLines_single_some hl]
  rw [parseLines_append (pre ++ ls), parseLines_append pre ls]
  rcases parseLines_ok_or_diag pre with ⟨rp, hp⟩ | hp <;> rw [hp]
  · rcases parseLines_ok_or_diag post with ⟨rq, hq⟩ | hq <;> rw [hq]
    · simp only [oapp_ok_ok]
      rw [show includeFuel fs = fs.length + 1 from rfl, expand_succ, go_append, go_append, go_single,
        expandOne_some hinc (by simp) hf]
      have hA := go_ne_diverged fs fs.length [] rp
      rcases parseLines_ok_or_diag ls with ⟨inc, hi⟩ | hi <;> rw [hi]
      · simp only [oapp_ok_ok, expand_succ, go_append, List.nil_append]
        rw [← expand_succ fs fs.length [] inc]
        show oapp (oapp _ (expand fs fs.length [s.operand.text] inc)) _ = _ ∨ oapp (oapp _ (expand fs fs.length _ inc)) _ = _ ∨
          (oapp (oapp _ (expand fs fs.length _ inc)) _ = _ ∧ _)
        cases hx : expand fs fs.length [s.operand.text] inc with
        | ok r =>
          rw [expand_ok_mono fs fs.length (fs.length + 1) [s.operand.text] [] inc r (by omega) (by simp) hx]
          exact .inl rfl
        | diag =>
          have hy : ∀ r, expand fs (fs.length + 1) [] inc ≠ .ok r := fun r hr =>
            expand_self_chain fs _ ls inc hf hi (fs.length + 1) [] r hr fs.length [s.operand.text] (by simp) hx
          have hy' := expand_ne_diverged fs (fs.length + 1) [] inc
          cases hgo : expand.go fs fs.length [] rp <;> cases hY : expand fs (fs.length + 1) [] inc <;>
            cases hB : expand.go fs fs.length [] rq <;> simp_all
        | internal => cases hgo : expand.go fs fs.length [] rp <;> simp_all
        | diverged => exact absurd hx (expand_ne_diverged _ _ _ _)
      · cases hgo : expand.go fs fs.length [] rp <;> simp_all [Outcome.bind]
    · rcases parseLines_ok_or_diag ls with ⟨inc, hi⟩ | hi <;> rw [hi] <;> exact .inl rfl
  · exact .inl rfl

/-- the two sides agree as soon as neither runs out of fuel in the parse-and-expand stage -/
theorem front_include {fs : Files} {pre post ls : List Str} {l : Str} {s : Stmt}
    (hl : parseLine l = .ok (some s))
    (hinc : (s.row.isInclude && !s.operand.text.isEmpty) = true)
    (hf : fs.get? s.operand.text = some ls)
    (hne : front fs (pre ++ [l] ++ post) ≠ .internal)
    (hne' : front fs (pre ++ ls ++ post) ≠ .internal) :
    front fs (pre ++ [l] ++ post) = front fs (pre ++ ls ++ post) := by
  rcases front_include_cases (pre := pre) (post := post) hl hinc hf with h | h | ⟨_, h⟩
  · exact h
  · exact absurd h hne
  · exact absurd h hne'

/-- a successful expansion of the INCLUDE side is the expansion of the substituted side -/
theorem front_include_ok {fs : Files} {pre post ls : List Str} {l : Str} {s : Stmt} {ss : List Stmt}
    (hl : parseLine l = .ok (some s))
    (hinc : (s.row.isInclude && !s.operand.text.isEmpty) = true)
    (hf : fs.get? s.operand.text = some ls)
    (hok : front fs (pre ++ [l] ++ post) = .ok ss) :
    front fs (pre ++ ls ++ post) = .ok ss := by
  rcases front_include_cases (pre := pre) (post := post) hl hinc hf with h | h | ⟨h, _⟩
  · rw [← h, hok]
  · rw [hok] at h; cases h
  · rw [hok] at h; cases h

/-- the parse-and-expand stage never ends in an internal error: the nesting budget `includeFuel fs` suffices -/
theorem front_never_internal (fs : Files) (a : List Str) : front fs a ≠ .internal := by
  unfold front
  rcases parseLines_ok_or_diag a with ⟨r, hr⟩ | hr <;> rw [hr]
  · exact expand_includeFuel_ne_internal fs r
  · simp

/-- **INCLUDE is textual inclusion at the level of the parse-and-expand stage, unconditionally**: the fuel cases of
`front_include_cases` do not arise -/
theorem front_include_eq {fs : Files} {pre post ls : List Str} {l : Str} {s : Stmt}
    (hl : parseLine l = .ok (some s))
    (hinc : (s.row.isInclude && !s.operand.text.isEmpty) = true)
    (hf : fs.get? s.operand.text = some ls) :
    front fs (pre ++ [l] ++ post) = front fs (pre ++ ls ++ post) :=
  front_include hl hinc hf (front_never_internal fs _) (front_never_internal fs _)

/-! ### missing file and include cycle -/

theorem parseLines_around {pre post : List Str} {l : Str} {s : Stmt} {rp rq : List Stmt}
    (hl : parseLine l = .ok (some s)) (hp : parseLines pre = .ok rp) (hq : parseLines post = .ok rq) :
    parseLines (pre ++ [l] ++ post) = .ok (rp ++ [s] ++ rq) := by
  rw [parseLines_append, parseLines_append, parseLines_single_some hl, hp, hq]; rfl

/-- an INCLUDE of a file the host does not have, reached after statements that expand fine: `diag`,
whatever follows and whatever chain of files is being processed -/
theorem expand_missing {fs : Files} {n : Nat} {inc : List Str} {pre post e : List Stmt} {s : Stmt}
    (hinc : (s.row.isInclude && !s.operand.text.isEmpty) = true)
    (hf : fs.get? s.operand.text = none)
    (he : expand.go fs n inc pre = .ok e) :
    expand fs (n + 1) inc (pre ++ [s] ++ post) = .diag := by
  rw [expand_succ, go_append, go_append, go_single, expandOne_missing hinc hf, he]
  rfl

/-- an INCLUDE of a file that is in the chain of files being processed, reached after statements that
expand fine: `diag` -/
theorem expand_cycle {fs : Files} {n : Nat} {inc : List Str} {pre post e : List Stmt} {s : Stmt}
    (hinc : (s.row.isInclude && !s.operand.text.isEmpty) = true)
    (hc : s.operand.text ∈ inc)
    (he : expand.go fs n inc pre = .ok e) :
    expand fs (n + 1) inc (pre ++ [s] ++ post) = .diag := by
  rw [expand_succ, go_append, go_append, go_single, expandOne_cycle hinc (by simpa using hc), he]
  rfl

/-- an INCLUDE of a file the host does not have, reached after a prefix that expands fine: `diag` -/
theorem front_missing {fs : Files} {pre post : List Str} {l : Str} {s : Stmt} {rp rq e : List Stmt}
    (hl : parseLine l = .ok (some s))
    (hinc : (s.row.isInclude && !s.operand.text.isEmpty) = true)
    (hf : fs.get? s.operand.text = none)
    (hp : parseLines pre = .ok rp) (hq : parseLines post = .ok rq)
    (he : expand fs (includeFuel fs) [] rp = .ok e) :
    front fs (pre ++ [l] ++ post) = .diag := by
  unfold front
  rw [parseLines_around hl hp hq]
  exact expand_missing hinc hf (by rw [← expand_succ]; exact he)

/-- an INCLUDE line whose statement is rejected at the top level (`expandOne … = .diag`) makes the whole program a
diagnostic, whatever is before and after it: the lines before it end in a result or in a diagnostic, never in an
exhausted nesting budget (`expand_includeFuel_ne_internal`) -/
theorem front_diag_of_expandOne_diag {fs : Files} {pre post : List Str} {l : Str} {s : Stmt}
    (hl : parseLine l = .ok (some s)) (hd : expandOne fs fs.length [] s = .diag) :
    front fs (pre ++ [l] ++ post) = .diag := by
  unfold front
  rw [parseLines_append, parseLines_append, parseLines_single_some hl]
  rcases parseLines_ok_or_diag pre with ⟨rp, hp⟩ | hp <;> rw [hp]
  · rcases parseLines_ok_or_diag post with ⟨rq, hq⟩ | hq <;> rw [hq]
    · simp only [oapp_ok_ok]
      rw [show includeFuel fs = fs.length + 1 from rfl, expand_succ, go_append, go_append, go_single, hd]
      have h1 : expand.go fs fs.length [] rp ≠ .internal := by
        rw [← expand_succ]; exact expand_includeFuel_ne_internal fs rp
      have h2 := go_ne_diverged fs fs.length [] rp
      cases hgo : expand.go fs fs.length [] rp <;> simp_all
    · rfl
  · rfl

/-- an INCLUDE of a file the host does not have is a diagnostic, whatever is before and after it -/
theorem front_missing_full {fs : Files} {pre post : List Str} {l : Str} {s : Stmt}
    (hl : parseLine l = .ok (some s))
    (hinc : (s.row.isInclude && !s.operand.text.isEmpty) = true)
    (hf : fs.get? s.operand.text = none) :
    front fs (pre ++ [l] ++ post) = .diag :=
  front_diag_of_expandOne_diag hl (expandOne_missing hinc hf)

/-- a file whose only line includes the file itself is a diagnostic, whatever is before and after the INCLUDE -/
theorem front_self_include_full {fs : Files} {pre post : List Str} {l : Str} {s : Stmt}
    (hl : parseLine l = .ok (some s))
    (hinc : (s.row.isInclude && !s.operand.text.isEmpty) = true)
    (hf : fs.get? s.operand.text = some [l]) :
    front fs (pre ++ [l] ++ post) = .diag := by
  refine front_diag_of_expandOne_diag hl ?_
  rw [expandOne_some hinc (by simp) hf, parseLines_single_some hl]
  obtain ⟨k, hk⟩ : ∃ k, fs.length = k + 1 := ⟨fs.length - 1, by have := Files.length_pos_of_get? hf; omega⟩
  rw [hk]
  show expand fs (k + 1) _ [s] = _
  rw [expand_succ, go_single, expandOne_cycle hinc (by simp)]

/-- statements that are not INCLUDEs are copied -/
theorem go_plain (fs : Files) (n : Nat) (inc : List Str) : ∀ (ss : List Stmt),
    (∀ x ∈ ss, x.row.isInclude = false) → expand.go fs n inc ss = .ok ss := by
  intro ss
  induction ss with
  | nil => intro _; exact go_nil fs n inc
  | cons x rest ih =>
    intro h
    rw [go_cons, expandOne_plain (by simp [h x (by simp)]), ih (fun y hy => h y (by simp [hy]))]
    rfl

theorem expand_plain (fs : Files) (n : Nat) (inc : List Str) (ss : List Stmt)
    (h : ∀ x ∈ ss, x.row.isInclude = false) : expand fs (n + 1) inc ss = .ok ss := by
  rw [expand_succ]; exact go_plain fs n inc ss h

/-- a program that is one INCLUDE of a file without further INCLUDEs expands to the file's statements -/
theorem front_single_include_plain {fs : Files} {ls : List Str} {l : Str} {s : Stmt} {r : List Stmt}
    (hl : parseLine l = .ok (some s))
    (hinc : (s.row.isInclude && !s.operand.text.isEmpty) = true)
    (hf : fs.get? s.operand.text = some ls)
    (hr : parseLines ls = .ok r) (hpl : ∀ x ∈ r, x.row.isInclude = false) :
    front fs [l] = .ok r := by
  rw [front_of_parsed (parseLines_single_some hl), go_single, expandOne_some hinc (by simp) hf, hr]
  obtain ⟨k, hk⟩ : ∃ k, fs.length = k + 1 := ⟨fs.length - 1, by have := Files.length_pos_of_get? hf; omega⟩
  rw [hk]
  exact expand_plain fs k _ r hpl

/-- any program that reaches an `INCLUDE f`, where `f` contains an `INCLUDE f` line after lines
without INCLUDE, ends in `diag` -/
theorem front_self_include {fs : Files} {pre post pre0 post0 : List Str} {l : Str} {s : Stmt}
    {rp rq rp0 rq0 e : List Stmt}
    (hl : parseLine l = .ok (some s))
    (hinc : (s.row.isInclude && !s.operand.text.isEmpty) = true)
    (hf : fs.get? s.operand.text = some (pre ++ [l] ++ post))
    (hp : parseLines pre = .ok rp) (hnp : ∀ x ∈ rp, x.row.isInclude = false)
    (hq : parseLines post = .ok rq)
    (hp0 : parseLines pre0 = .ok rp0) (hq0 : parseLines post0 = .ok rq0)
    (he : expand fs (includeFuel fs) [] rp0 = .ok e) :
    front fs (pre0 ++ [l] ++ post0) = .diag := by
  rw [front_of_parsed (parseLines_around hl hp0 hq0), go_append, go_append, go_single,
    expandOne_some hinc (by simp) hf, parseLines_around hl hp hq, ← expand_succ,
    show fs.length + 1 = includeFuel fs from rfl, he]
  obtain ⟨k, hk⟩ : ∃ k, fs.length = k + 1 := ⟨fs.length - 1, by have := Files.length_pos_of_get? hf; omega⟩
  rw [hk]
  show oapp (oapp _ (expand fs (k + 1) _ _)) _ = _
  rw [expand_cycle (n := k) hinc (by simp) (go_plain fs k _ rp hnp)]; rfl

/-! ### a chain of nested files: the only way to `internal` in the expansion stage

`name 0` is a file without INCLUDE, `name (i+1)` is a file whose only statement is `INCLUDE name i`.
Expanding an `INCLUDE name k` needs `k + 1` units of fuel below the current level. -/

theorem expandOne_deep (fs : Files) (name : Nat → Str) (K : Nat) (p0 : List Stmt)
    (hbase : ∃ ls, fs.get? (name 0) = some ls ∧ parseLines ls = .ok p0)
    (hp0 : ∀ x ∈ p0, x.row.isInclude = false)
    (hlink : ∀ i < K, ∃ ls s, fs.get? (name (i + 1)) = some ls ∧ parseLines ls = .ok [s] ∧
      (s.row.isInclude && !s.operand.text.isEmpty) = true ∧ s.operand.text = name i)
    (hinj : ∀ i ≤ K, ∀ j ≤ K, name i = name j → i = j) :
    ∀ k ≤ K, ∀ s : Stmt, (s.row.isInclude && !s.operand.text.isEmpty) = true → s.operand.text = name k →
    ∀ (n : Nat) (I : List Str), (∀ j ≤ k, name j ∉ I) →
      expandOne fs n I s = if n ≤ k then .internal else .ok p0 := by
  intro k
  induction k with
  | zero =>
    intro _ s hc ht n I hI
    obtain ⟨ls, hf, hp⟩ := hbase
    have hnc : I.contains s.operand.text = false := by
      rw [ht]; simpa using hI 0 (Nat.le_refl 0)
    rw [expandOne_some hc hnc (ht ▸ hf), hp]
    show expand fs n _ p0 = _
    cases n with
    | zero => rw [expand_zero]; rfl
    | succ n => rw [expand_plain fs n _ p0 hp0, if_neg (by omega)]
  | succ k ih =>
    intro hk s hc ht n I hI
    obtain ⟨ls, s', hf, hp, hc', ht'⟩ := hlink k (by omega)
    have hnc : I.contains s.operand.text = false := by
      rw [ht]; simpa using hI (k + 1) (Nat.le_refl _)
    rw [expandOne_some hc hnc (ht ▸ hf), hp]
    show expand fs n _ [s'] = _
    cases n with
    | zero => rw [expand_zero, if_pos (by omega)]
    | succ n =>
      rw [expand_succ, go_single, ih (by omega) s' hc' ht' n _ (by
        intro j hj
        simp only [List.mem_append, List.mem_singleton, not_or]
        refine ⟨hI j (by omega), ?_⟩
        rw [ht]
        intro he
        have := hinj j (by omega) (k + 1) hk he
        omega)]
      by_cases h : n ≤ k
      · rw [if_pos h, if_pos (by omega)]
      · rw [if_neg h, if_neg (by omega)]

end CoCo.Asm
