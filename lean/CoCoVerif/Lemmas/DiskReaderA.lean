/-
Lemmas/DiskReaderA.lean — ingredients for the reader (C07): ASCII decoding, the chain reader follows the
spec's walk, inversion of the spec's parsers, what a live slot with a valid chain looks like.
-/
import CoCoVerif.Lemmas.DiskFsck
namespace CoCo.Dsk
open CoCo Spec.DiskBasic CoCo.Props

theorem utf8DecodeF_ascii : ∀ (bs : Bytes), (∀ b ∈ bs, b < 128) → Cas.utf8DecodeF bs.length bs = some bs := by
  intro bs
  induction bs with
  | nil => intro _; rfl
  | cons b r ih =>
    intro h
    have hb : b < 0x80 := h b List.mem_cons_self
    simp only [List.length_cons, Cas.utf8DecodeF, hb, if_true]
    rw [ih (fun x hx => h x (List.mem_cons_of_mem _ hx))]
    rfl

theorem utf8Decode_ascii (bs : Bytes) (h : ∀ b ∈ bs, b < 128) : Cas.utf8Decode bs = some bs :=
  utf8DecodeF_ascii bs h

theorem fatSlice_get {img : Bytes} {g : Nat} (hb : img.length = 161280) (hg : g < 68) :
    ((img.drop FAT).take 256)[g]? = some (fatAt img g) := by
  rw [slice_get, if_pos (by omega)]
  exact fatAt_eq_get hb hg

/-- the tool's chain reader follows the spec's walk -/
theorem readChainF_walk {img : Bytes} (hb : img.length = 161280) :
    ∀ (fuel g : Nat) (vis : List Nat) (acc : Bytes) (c : List Nat) (s : Nat),
      walk img fuel g vis = some (c, s) →
      ∃ tail, c = vis.reverse ++ g :: tail ∧ (∀ x ∈ g :: tail, x < 68) ∧ s ≤ 9 ∧
        readChainF img ((img.drop FAT).take 256) (fuel + 1) g vis acc
          = .ok (acc ++ streamOf img (g :: tail), c, 0xC0 + s) := by
  intro fuel
  induction fuel with
  | zero => intro g vis acc c s h; simp [walk] at h
  | succ fuel ih =>
    intro g vis acc c s h
    rw [walk] at h
    split at h
    · cases h
    · rename_i hcond
      have hg : g < 68 := by omega
      have hgv : g ∉ vis := fun hin => hcond (Or.inr hin)
      have hcond' : ¬ (g ≥ Gen.totalGranules ∨ g ∈ vis) := by rw [totalGranules_eq]; exact hcond
      rw [readChainF]
      simp only [hcond', if_false, fatSlice_get hb hg]
      simp only [] at h
      split at h
      · rename_i hterm
        cases h
        have h3 : fatAt img g / 64 % 4 = 3 := by omega
        simp only [h3, if_true]
        refine ⟨[], by simp, by simpa using hg, by omega, ?_⟩
        have : 0xC0 + (fatAt img g - 0xC0) = fatAt img g := by omega
        rw [this]
        simp [streamOf, granuleBytes_eq, G_eq]
      · rename_i hterm
        -- the next entry is a granule number, or the walk fails
        have hnext : fatAt img g < 68 := by
          cases fuel with
          | zero => simp [walk] at h
          | succ f' =>
            rw [walk] at h
            split at h
            · cases h
            · rename_i hc2; omega
        have h3 : ¬ fatAt img g / 64 % 4 = 3 := by omega
        simp only [h3, if_false]
        obtain ⟨tail, hc, hlt, hs, hrd⟩ := ih (fatAt img g) (g :: vis) (acc ++ (img.drop (seek g)).take G) c s h
        refine ⟨fatAt img g :: tail, by simpa using hc, ?_, hs, ?_⟩
        · intro x hx
          rcases List.mem_cons.mp hx with rfl | hx
          · exact hg
          · exact hlt x hx
        · rw [hrd]
          simp [streamOf, granuleBytes_eq, G_eq]


theorem parseML_some {st : Bytes} {l x : Nat} {dat : Bytes} (h : parseML st = some (l, dat, x)) :
    ∃ lh ll ah al eh el, st = [0x00, lh, ll, ah, al] ++ dat ++ [0xFF, 0x00, 0x00, eh, el] ∧
      dat.length = lh * 256 + ll ∧ l = ah * 256 + al ∧ x = eh * 256 + el := by
  unfold parseML at h
  split at h
  · rename_i lh ll ah al rest
    simp only [] at h
    split at h
    · rename_i hlen
      split at h
      · rename_i eh el hdrop
        simp only [Option.some.injEq, Prod.mk.injEq] at h
        obtain ⟨h1, h2, h3⟩ := h
        refine ⟨lh, ll, ah, al, eh, el, ?_, ?_, h1.symm, h3.symm⟩
        · rw [← h2]
          have := List.take_append_drop (lh * 256 + ll) rest
          rw [hdrop] at this
          simp [this]
        · rw [← h2]; simp [List.length_take]; omega
      · cases h
    · cases h
  · cases h

theorem parseBasic_some {st dat : Bytes} (h : parseBasic st = some dat) :
    ∃ lh ll, st = [0xFF, lh, ll] ++ dat ∧ dat.length = lh * 256 + ll := by
  unfold parseBasic at h
  split at h
  · rename_i lh ll rest
    split at h
    · rename_i hlen
      cases h
      exact ⟨lh, ll, rfl, hlen⟩
    · cases h
  · cases h


theorem streamOf_cons (img : Bytes) (g : Nat) (c : List Nat) :
    streamOf img (g :: c) = granuleBytes img g ++ streamOf img c := by
  simp [streamOf]

theorem streamOf_length {img : Bytes} (hb : img.length = 161280) (c : List Nat) (hlt : ∀ g ∈ c, g < 68) :
    (streamOf img c).length = c.length * 2304 := by
  induction c with
  | nil => simp [streamOf]
  | cons g c ih =>
    rw [streamOf_cons, List.length_append, granuleBytes_length hb (hlt g List.mem_cons_self),
      ih (fun x hx => hlt x (List.mem_cons_of_mem _ hx))]
    simp; omega

theorem getD_append_lt (l1 l2 : List Nat) (i : Nat) (h : i < l1.length) :
    (l1 ++ l2).getD i 0 = l1.getD i 0 := by
  simp [List.getD_eq_getElem?_getD, List.getElem?_append_left h]

/-- the first granule of the chain is where `preamble.read` looks -/
theorem at0_getD {img : Bytes} (hb : img.length = 161280) {g0 : Nat} {tail : List Nat} (hg : g0 < 68)
    (i : Nat) (hi : i < 2304) :
    (img.drop (seek g0)).getD i 0 = (streamOf img (g0 :: tail)).getD i 0 := by
  rw [streamOf_cons, getD_append_lt _ _ _ (by rw [granuleBytes_length hb hg]; exact hi), granuleBytes_eq,
    slice_getD _ _ _ _ hi]
  simp [List.getD_eq_getElem?_getD]

theorem at0_length {img : Bytes} (hb : img.length = 161280) {g0 : Nat} (hg : g0 < 68) :
    2304 ≤ (img.drop (seek g0)).length := by
  have := seek_in g0 hg
  simp [List.length_drop]; omega

theorem pySlice_nat (s : Bytes) (a n : Nat) : pySlice s a (n : Int) = (s.drop a).take n := by
  unfold pySlice
  simp

/-- what the spec's reader and the model's chain reader see for a live slot with a valid chain -/
theorem slot_facts {img : Bytes} (hb : img.length = 161280) {k : Nat} {c : List Nat} {s : Nat}
    (hchain : chainOf img k = some (c, s)) {st : Bytes} (hss : storedStream img k = some st) :
    ∃ tail tl, c = entFirst (dirEntry img k) :: tail ∧ entFirst (dirEntry img k) < 68 ∧ s ≤ 9 ∧
      readChain img ((img.drop FAT).take 256) (entFirst (dirEntry img k)) = .ok (streamOf img c, c, 0xC0 + s) ∧
      streamOf img c = st ++ tl ∧
      st.length = impliedLength c.length s (entLastBytes (dirEntry img k)) := by
  unfold chainOf at hchain
  obtain ⟨tail, hc, hlt, hs, hrd⟩ := readChainF_walk hb 68 _ [] [] c s hchain
  simp only [List.reverse_nil, List.nil_append] at hc hrd
  unfold storedStream at hss
  rw [show chainOf img k = some (c, s) from hchain] at hss
  simp only [] at hss
  split at hss
  · rename_i hle
    cases hss
    have hlen : (streamOf img c).length = c.length * 2304 := by
      rw [hc]; exact streamOf_length hb _ hlt
    refine ⟨tail, (streamOf img c).drop (impliedLength c.length s (entLastBytes (dirEntry img k))), hc,
      hlt _ List.mem_cons_self, hs, ?_, (List.take_append_drop _ _).symm, ?_⟩
    · unfold readChain; rw [hrd, hc]
    · rw [List.length_take, hlen]; unfold granuleSize at hle; omega
  · cases hss

end CoCo.Dsk

