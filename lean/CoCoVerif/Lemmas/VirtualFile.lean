/-
Lemmas/VirtualFile.lean — the abstract host file system, and what `storeTo` (open; add; save) can do to it.
-/
import CoCoVerif.Model.VirtualFile

namespace CoCo.VF
open CoCo

theorem FS.get?_nil (p : Path) : FS.get? [] p = none := rfl

theorem find?_map_other (fs : FS) (p q : Path) (b : Bytes) (h : (q == p) = false) :
    (fs.map (fun e => if e.1 == p then (p, b) else e)).find? (·.1 == q) = fs.find? (·.1 == q) := by
  induction fs with
  | nil => rfl
  | cons e rest ih =>
    rw [List.map_cons, List.find?_cons, List.find?_cons, ih]
    by_cases he : (e.1 == p) = true
    · have hpq : (p == q) = false := by
        cases hpq : (p == q)
        · rfl
        · have := eq_of_beq hpq; subst this; simp at h
      have heq : (e.1 == q) = false := by
        have := eq_of_beq he; rw [this]; exact hpq
      rw [if_pos he]
      simp only [hpq, heq]
    · rw [if_neg he]

/-- a write to `p` leaves every other path alone -/
theorem FS.get?_set_other (fs : FS) (p q : Path) (b : Bytes) (h : q ≠ p) : (fs.set p b).get? q = fs.get? q := by
  have hb : (q == p) = false := by simpa using h
  have hb' : (p == q) = false := by
    cases hpq : (p == q)
    · rfl
    · have := eq_of_beq hpq; subst this; simp at hb
  unfold FS.set FS.get?
  split
  · rw [find?_map_other fs p q b hb]
  · rw [List.find?_append]
    cases hf : fs.find? (·.1 == q) with
    | some x => simp
    | none => simp [List.find?_cons, hb']

theorem find?_map_same (fs : FS) (p : Path) (b : Bytes) (h : (fs.find? (·.1 == p)).isSome) :
    (fs.map (fun e => if e.1 == p then (p, b) else e)).find? (·.1 == p) = some (p, b) := by
  induction fs with
  | nil => simp at h
  | cons e rest ih =>
    rw [List.find?_cons] at h
    rw [List.map_cons, List.find?_cons]
    by_cases he : (e.1 == p) = true
    · rw [if_pos he]; simp
    · rw [if_neg he]
      have he' : (e.1 == p) = false := by simpa using he
      rw [he'] at h ⊢
      exact ih h

/-- after a write, `p` holds exactly what was written -/
theorem FS.get?_set_same (fs : FS) (p : Path) (b : Bytes) : (fs.set p b).get? p = some b := by
  unfold FS.set FS.get?
  split
  · rename_i h
    have : (fs.find? (·.1 == p)).isSome := by simpa [FS.get?] using h
    rw [find?_map_same fs p b this]; rfl
  · rename_i h
    have hn : fs.find? (·.1 == p) = none := by
      simp only [FS.get?, Option.isSome_map] at h
      cases hf : fs.find? (·.1 == p) <;> simp_all
    rw [List.find?_append, hn]
    simp [List.find?_cons]

theorem foldl_addCoco (files : List CFile) :
    ∀ (v : VFile), (files.foldl addCoco v) = { v with files := v.files ++ files } := by
  induction files with
  | nil => intro v; simp
  | cons f rest ih => intro v; rw [List.foldl_cons, ih]; simp [addCoco, List.append_assoc]

/-- **what a successful `storeTo` did**: only `path` changed; if it existed, append was requested and the old
content was sniffed as the requested kind; the new content is the image built from old files ++ new files -/
theorem storeTo_ok {fs fs' : FS} {path : Path} {k : Kind} {files : List CFile} {append : Bool}
    (h : storeTo fs path k files append = .ok fs') :
    (∀ q, q ≠ path → fs'.get? q = fs.get? q) ∧
    (match fs.get? path with
     | none => ∃ img, buildImage k files = .ok img ∧ fs'.get? path = some img
     | some old => append = true ∧ ∃ oldFiles img, sniff old = .ok (oldFiles, k) ∧
                     buildImage k (oldFiles ++ files) = .ok img ∧ fs'.get? path = some img) := by
  have hfold := foldl_addCoco files
  unfold storeTo openVF at h
  cases hg : fs.get? path with
  | none =>
    simp only [hg] at h
    rw [hfold] at h
    simp only [saveVF, List.nil_append] at h
    cases hb : buildImage k files with
    | ok img =>
      simp only [hb] at h
      simp at h
      subst h
      refine ⟨fun q hq => FS.get?_set_other fs path q img hq, img, ?_, FS.get?_set_same fs path img⟩
      first | rfl | assumption
    | diag => simp [hb] at h
    | internal => simp [hb] at h
    | diverged => simp [hb] at h
  | some old =>
    simp only [hg] at h
    cases hs : sniff old with
    | ok r =>
      obtain ⟨oldFiles, k'⟩ := r
      simp only [hs] at h
      by_cases hk : k ≠ k'
      · simp [hk] at h
      · have hk' : k = k' := by simpa using hk
        subst hk'
        simp only [ne_eq, not_true_eq_false, if_false] at h
        rw [hfold] at h
        simp only [saveVF] at h
        cases hb : buildImage k (oldFiles ++ files) with
        | ok img =>
          simp only [hb] at h
          cases ha : append with
          | false => simp [ha] at h
          | true =>
            simp [ha] at h
            subst h
            refine ⟨fun q hq => FS.get?_set_other fs path q img hq, ?_, oldFiles, img, ?_, ?_,
                   FS.get?_set_same fs path img⟩ <;> first | rfl | assumption | simp_all
        | diag => simp [hb] at h
        | internal => simp [hb] at h
        | diverged => simp [hb] at h
    | diag => simp [hs] at h
    | internal => simp [hs] at h
    | diverged => simp [hs] at h

end CoCo.VF
