/-
Lemmas/PcrWidthInv.lean — the soundness invariant of the PCR size loop (property C03, width of the
8-bit form).

* `SizeOK`: every statement has `size ≤ maxSize`; an undecided statement has `maxSize = size + 2`.
* `Narrow s s'`: a later state of a statement: `size` grows, `maxSize` shrinks, a settled statement
  never changes again.  Hence at every moment the FINAL size lies in `[size, maxSize]`.
* `Fits8 ss i s`: the inequality `determine` checked when it settled statement `i` on the 8-bit form,
  expressed with the `maxSize` sums of the CURRENT list; it survives narrowing.
* `pcrLoop_width`: all of this through `pcrPass`, `forceFirst` and `pcrLoop`.
-/
import CoCoVerif.Lemmas.PcrWidthTr

namespace CoCo.Asm
open CoCo

/-! ### sums of `maxSize` -/

def maxSum (ss : List Stmt) (lo hi : Nat) : Nat := (sumSizes ss lo hi).2

theorem foldl_sizes2 (l : List Stmt) (a b : Nat) :
    (l.foldl (fun (a : Nat × Nat) s => (a.1 + s.pkg.size, a.2 + s.pkg.maxSize)) (a, b)).2
      = b + (l.map (·.pkg.maxSize)).sum := by
  induction l generalizing a b with
  | nil => simp
  | cons s r ih => simp [ih]; omega

theorem maxSum_eq (ss : List Stmt) (lo hi : Nat) :
    maxSum ss lo hi = (((ss.drop lo).take (hi - lo)).map (·.pkg.maxSize)).sum := by
  simp [maxSum, sumSizes, foldl_sizes2]

theorem PW.tail {α β : Type} {R : α → β → Prop} {a : α} {b : β} {l : List α} {l' : List β}
    (h : PW R (a :: l) (b :: l')) : R a b ∧ PW R l l' :=
  ⟨h.2 0 a b (by simp) (by simp),
   by have := h.1; simpa using this,
   fun j x y hx hy => h.2 (j + 1) x y (by simpa using hx) (by simpa using hy)⟩

/-- pointwise `f a ≤ g b` gives `≤` between the sums over any window -/
theorem PW.sum_le {α : Type} {f g : α → Nat} {l l' : List α} (h : PW (fun a b => f a ≤ g b) l l')
    (lo n : Nat) : (((l.drop lo).take n).map f).sum ≤ (((l'.drop lo).take n).map g).sum := by
  induction l generalizing l' lo n with
  | nil =>
    have : l' = [] := List.eq_nil_of_length_eq_zero (by simpa using h.1)
    subst this; simp
  | cons a r ih =>
    cases l' with
    | nil => have := h.1; simp at this
    | cons b r' =>
      obtain ⟨hab, hr⟩ := PW.tail h
      cases lo with
      | zero =>
        cases n with
        | zero => simp
        | succ n =>
          have := ih hr 0 n
          simp only [List.drop_zero] at this
          simp only [List.drop_zero, List.take_succ_cons, List.map_cons, List.sum_cons]
          omega
      | succ lo => simpa using ih hr lo n

/-! ### the invariant on one statement -/

/-- size facts of a statement inside the size loop -/
structure SizeOK (s : Stmt) : Prop where
  le : s.pkg.size ≤ s.pkg.maxSize
  und : s.fixedSize = false → s.pkg.choices ≠ [] →
    s.pkg.maxSize = s.pkg.size + 2 ∧ s.pkg.size = s.row.indSz ∧ s.pkg.needsRes = true
  small : s.pkg.choices ≠ [] → s.fixedSize = true → s.pkg.size ≤ s.row.indSz + 2
  /-- the op code of a PCR statement with post-byte choices is the indexed op code of its row -/
  op : s.pkg.choices ≠ [] → opVal s.row.ind = .ok s.pkg.opCode
  /-- a PCR statement settled on the 8-bit form is one byte longer than the indexed base size -/
  small8 : s.pkg.choices ≠ [] → s.fixedSize = true → s.pcrHint = 2 → s.pkg.size = s.row.indSz + 1

/-- `s'` is a later state of `s` -/
def Narrow (s s' : Stmt) : Prop :=
  s.pkg.size ≤ s'.pkg.size ∧ s'.pkg.maxSize ≤ s.pkg.maxSize ∧ (s.fixedSize = true → s' = s)

theorem Narrow.refl (s : Stmt) : Narrow s s := ⟨Nat.le_refl _, Nat.le_refl _, fun _ => rfl⟩

theorem Narrow.trans {a b c : Stmt} (h1 : Narrow a b) (h2 : Narrow b c) : Narrow a c := by
  refine ⟨Nat.le_trans h1.1 h2.1, Nat.le_trans h2.2.1 h1.2.1, fun hf => ?_⟩
  have hb := h1.2.2 hf
  subst hb
  exact h2.2.2 hf

theorem narrow_maxSum {ss ss' : List Stmt} (h : PW Narrow ss ss') (lo hi : Nat) :
    maxSum ss' lo hi ≤ maxSum ss lo hi := by
  rw [maxSum_eq, maxSum_eq]
  have h' : PW (fun a b : Stmt => a.pkg.maxSize ≤ b.pkg.maxSize) ss' ss :=
    ⟨h.1.symm, fun (j : Nat) (a b : Stmt) ha hb => (h.2 j b a hb ha).2.1⟩
  exact PW.sum_le (f := fun s : Stmt => s.pkg.maxSize) (g := fun s : Stmt => s.pkg.maxSize) h' lo (hi - lo)

theorem narrow_sumSize {ss ss' : List Stmt} (h : PW Narrow ss ss') (lo hi : Nat) :
    sumSize ss lo hi ≤ sumSize ss' lo hi := by
  rw [sumSize_eq, sumSize_eq]
  exact PW.sum_le (f := fun s : Stmt => s.pkg.size) (g := fun s : Stmt => s.pkg.size) (h.mono (fun _ _ hn => hn.1)) lo (hi - lo)

theorem sizeOK_sum_le {ss : List Stmt} (h : ∀ (j : Nat) (s : Stmt), ss[j]? = some s → SizeOK s) (lo hi : Nat) :
    sumSize ss lo hi ≤ maxSum ss lo hi := by
  rw [sumSize_eq, maxSum_eq]
  have h' : PW (fun a b : Stmt => a.pkg.size ≤ b.pkg.maxSize) ss ss :=
    ⟨rfl, fun (j : Nat) (a b : Stmt) ha hb => by rw [ha] at hb; cases hb; exact (h j a ha).le⟩
  exact PW.sum_le (f := fun s : Stmt => s.pkg.size) (g := fun s : Stmt => s.pkg.maxSize) h' lo (hi - lo)

/-! ### the 8-bit decision -/

/-- the bound `determine` established when it chose the 8-bit form for statement `i`, over the current
`maxSize` sums.  Backward (`rel ≤ i`, the statement's own label included): the statements `rel .. i-1` plus the statement itself plus the
constant of `label ± k` span at most 128 bytes.  Forward (`i < rel`): the statements `i .. rel-1` (the
statement itself included) plus the constant plus 2 span at most 127 bytes. -/
def Fits8 (ss : List Stmt) (i : Nat) (s : Stmt) : Prop :=
  ∃ rel, relIndex s.pkg.additional = some rel ∧ rel ≤ ss.length ∧ exprForces s.pkg.additional = false ∧
    1 ≤ s.pkg.size ∧
    (rel ≤ i → maxSum ss rel i + s.pkg.size + exprExtra s.pkg.additional ≤ 128) ∧
    (i < rel → maxSum ss i rel + exprExtra s.pkg.additional + 2 ≤ 127)

theorem Fits8.mono {ss ss' : List Stmt} {i : Nat} {s : Stmt} (h : PW Narrow ss ss') (hf : Fits8 ss i s) :
    Fits8 ss' i s := by
  obtain ⟨rel, h1, h2, h3, h0, h4, h5⟩ := hf
  refine ⟨rel, h1, by rw [h.1]; exact h2, h3, h0, fun hb => ?_, fun hb => ?_⟩
  · have := narrow_maxSum h rel i; have := h4 hb; omega
  · have := narrow_maxSum h i rel; have := h5 hb; omega

/-- the list invariant: every statement is `SizeOK`; every PCR statement (one with post byte choices; batch B3: `needsRes`
alone no longer singles them out, a label offset of a pointer register has it too) settled on the 8-bit form
satisfies `Fits8` with respect to the current list -/
structure WInv (ss : List Stmt) : Prop where
  ok : ∀ (j : Nat) (s : Stmt), ss[j]? = some s → SizeOK s
  fits : ∀ (j : Nat) (s : Stmt), ss[j]? = some s → s.fixedSize = true → s.pkg.choices ≠ [] → s.pcrHint = 2 → Fits8 ss j s

/-! ### settle / determine -/

theorem settle_eq {s s' : Stmt} {e h c : Nat} (hs : settle s e h c = some s') :
    s'.pkg.size = s.pkg.size + e ∧ s'.pkg.maxSize = s.pkg.size + e ∧ s'.pcrHint = h ∧ s'.fixedSize = true ∧
    s'.pkg.additional = s.pkg.additional ∧ s'.pkg.needsRes = s.pkg.needsRes ∧
    s'.pkg.choices = s.pkg.choices ∧ s'.row = s.row ∧ s'.pkg.opCode = s.pkg.opCode := by
  unfold settle at hs
  cases ho : orPost s c with
  | none => rw [ho] at hs; cases hs
  | some pb => rw [ho] at hs; simp at hs; subst hs; exact ⟨rfl, rfl, rfl, rfl, rfl, rfl, rfl, rfl, rfl⟩

/-- the three ways a step of the size loop can treat an undecided statement -/
def Step (ss : List Stmt) (i : Nat) (s s' : Stmt) : Prop :=
  s' = s ∨ (∃ c, settle s 2 4 c = some s') ∨
  (∃ c rel, settle s 1 2 c = some s' ∧ exprForces s.pkg.additional = false ∧
     relIndex s.pkg.additional = some rel ∧ rel ≤ ss.length ∧
     (rel ≤ i → maxSum ss rel i + 2 + ((s.pkg.size - 1) + exprExtra s.pkg.additional) ≤ 128) ∧
     (¬ rel ≤ i → maxSum ss i rel + 2 + exprExtra s.pkg.additional ≤ 127))

theorem determine_step {ss : List Stmt} {i : Nat} {s s' : Stmt} (h : determine ss i s = .ok s') :
    s.pkg.choices ≠ [] ∧ Step ss i s s' := by
  unfold determine at h
  split at h
  · rename_i c0 c1 hch
    refine ⟨by rw [hch]; simp, ?_⟩
    by_cases hfo : exprForces s.pkg.additional = true
    · rw [if_pos hfo] at h
      cases hs : settle s 2 4 c1 with
      | none => rw [hs] at h; cases h
      | some x => rw [hs] at h; cases h; exact .inr (.inl ⟨_, hs⟩)
    rw [if_neg hfo] at h
    have hfo' : exprForces s.pkg.additional = false := by simpa using hfo
    cases hr : relIndex s.pkg.additional with
    | none => rw [hr] at h; cases h
    | some rel =>
      rw [hr] at h
      dsimp only at h
      split at h
      · cases h
      · rename_i hlen
        have hlen' : rel ≤ ss.length := by omega
        generalize hpr : (if rel ≤ i then sumSizes ss rel i else sumSizes ss i rel) = pr at h
        generalize hadj : (if rel ≤ i then s.pkg.size - 1 else 0) + exprExtra s.pkg.additional = adj at h
        generalize hlim : (if rel ≤ i then 128 else 127) = lim at h
        obtain ⟨mn, mx⟩ := pr
        dsimp only at h
        have hmx : mx = if rel ≤ i then maxSum ss rel i else maxSum ss i rel := by
          have := congrArg Prod.snd hpr
          simp only at this
          rw [← this]
          unfold maxSum
          split <;> rfl
        by_cases hcond : mn + 2 + adj ≤ lim ∧ mx + 2 + adj ≤ lim
        · rw [if_pos hcond] at h
          cases hs : settle s 1 2 c0 with
          | none => rw [hs] at h; cases h
          | some x =>
            rw [hs] at h; cases h
            refine .inr (.inr ⟨c0, rel, hs, hfo', hr, hlen', fun hb => ?_, fun hb => ?_⟩)
            · have h2 := hcond.2
              simp only [hb, if_true] at hmx hadj hlim
              omega
            · have h2 := hcond.2
              simp only [hb, if_false] at hmx hadj hlim
              omega
        · rw [if_neg hcond] at h
          by_cases hc2 : mn + 2 + adj > lim ∧ mx + 2 + adj > lim
          · rw [if_pos hc2] at h
            cases hs : settle s 2 4 c1 with
            | none => rw [hs] at h; cases h
            | some x => rw [hs] at h; cases h; exact .inr (.inl ⟨_, hs⟩)
          · rw [if_neg hc2] at h
            cases h; exact .inl rfl
  · cases h
  · cases h

/-- `force_pcr_16_bit`: the list is unchanged (all sizes fixed) or one undecided statement is settled on the
16-bit form -/
theorem forceFirst_step : ∀ {ss r : List Stmt}, forceFirst ss = some r →
    r = ss ∨ ∃ i s s' c, ss[i]? = some s ∧ s.fixedSize = false ∧ s.pkg.choices ≠ [] ∧
      settle s 2 4 c = some s' ∧ r = ss.set i s' := by
  intro ss
  induction ss with
  | nil => intro r h; simp [forceFirst] at h; exact .inl h
  | cons s rest ih =>
    intro r h
    unfold forceFirst at h
    split at h
    · cases hr : forceFirst rest with
      | none => simp [hr] at h
      | some r' =>
        simp [hr] at h; subst h
        rcases ih hr with h1 | ⟨i, t, t', c, h1, h2, h3, h4, h5⟩
        · left; rw [h1]
        · right; exact ⟨i + 1, t, t', c, by simpa using h1, h2, h3, h4, by simp [h5]⟩
    · rename_i hf
      have hf : s.fixedSize = false := by simpa using hf
      split at h
      · rename_i c0 c1 hch
        cases hs : settle s 2 4 c1 with
        | none => simp [hs] at h
        | some s' =>
          simp [hs] at h; subst h
          right; exact ⟨0, s, s', c1, by simp, hf, by rw [hch]; simp, hs, by simp⟩
      · cases h

/-! ### one step preserves the invariant -/

theorem step_narrow {ss : List Stmt} {i : Nat} {s s' : Stmt} (hok : SizeOK s) (hf : s.fixedSize = false)
    (hch : s.pkg.choices ≠ []) (hst : Step ss i s s') : Narrow s s' ∧ SizeOK s' := by
  obtain ⟨hmax, hind, hneeds⟩ := hok.und hf hch
  have hop := hok.op hch
  rcases hst with rfl | ⟨c, hs⟩ | ⟨c, rel, hs, _⟩
  · exact ⟨.refl _, hok⟩
  · obtain ⟨e1, e2, e3, e4, e5, e6, e7, e8, e9⟩ := settle_eq hs
    refine ⟨⟨by omega, by omega, fun h => by rw [hf] at h; cases h⟩,
      ⟨by omega, fun h => ?_, fun _ _ => ?_, fun _ => ?_, fun _ _ h2 => ?_⟩⟩
    · rw [e4] at h; cases h
    · rw [e8]; omega
    · rw [e8, e9]; exact hop
    · rw [e3] at h2; cases h2
  · obtain ⟨e1, e2, e3, e4, e5, e6, e7, e8, e9⟩ := settle_eq hs
    refine ⟨⟨by omega, by omega, fun h => by rw [hf] at h; cases h⟩,
      ⟨by omega, fun h => ?_, fun _ _ => ?_, fun _ => ?_, fun _ _ _ => ?_⟩⟩
    · rw [e4] at h; cases h
    · rw [e8]; omega
    · rw [e8, e9]; exact hop
    · rw [e8]; omega

theorem winv_step {ss : List Stmt} {i : Nat} {s s' : Stmt} (hI : WInv ss) (hs : ss[i]? = some s)
    (hf : s.fixedSize = false) (hch : s.pkg.choices ≠ []) (hst : Step ss i s s') :
    WInv (ss.set i s') ∧ PW Narrow ss (ss.set i s') := by
  obtain ⟨hnar, hok'⟩ := step_narrow (hI.ok i s hs) hf hch hst
  have hpw : PW Narrow ss (ss.set i s') := PW.set Narrow.refl hs hnar
  have hilt : i < ss.length := by
    rcases Nat.lt_or_ge i ss.length with h' | h'
    · exact h'
    · rw [List.getElem?_eq_none_iff.mpr h'] at hs; cases hs
  refine ⟨⟨?_, ?_⟩, hpw⟩
  · intro j t ht
    rw [List.getElem?_set] at ht
    split at ht
    · cases ht; exact hok'
    · exact hI.ok j t ht
  · intro j t ht hft hnt hht
    rw [List.getElem?_set] at ht
    split at ht
    · rename_i hij
      subst hij
      cases ht
      rcases hst with rfl | ⟨c, hs2⟩ | ⟨c, rel, hs2, hfo, hrel, hlen, hback, hfwd⟩
      · rw [hf] at hft; cases hft
      · have := (settle_eq hs2).2.2.1; rw [this] at hht; cases hht
      · obtain ⟨e1, e2, e3, e4, e5, e6, e7, e8, _⟩ := settle_eq hs2
        refine ⟨rel, by rw [e5]; exact hrel, by simpa using hlen, by rw [e5]; exact hfo, by omega,
          fun hb => ?_, fun hb => ?_⟩
        · have := narrow_maxSum hpw rel i
          have := hback hb
          rw [e5, e1]; omega
        · have := narrow_maxSum hpw i rel
          have := hfwd (by omega)
          rw [e5]; omega
    · exact (hI.fits j t ht hft hnt hht).mono hpw

/-! ### pcrPass, forceFirst, pcrLoop -/

theorem pcrPass_width {n : Nat} {ss : List Stmt} {i : Nat} {p : Bool} {r : List Stmt} {p' : Bool}
    (h : pcrPass n ss i p = .ok (r, p')) : WInv ss → WInv r ∧ PW Narrow ss r := by
  refine pcrPass_ind (fun ss _ _ r _ => WInv ss → WInv r ∧ PW Narrow ss r) ?_ ?_ ?_ n ss i p r p' h
  · intro ss _ _ hI; exact ⟨hI, .refl Narrow.refl _⟩
  · intro _ _ _ _ _ _ _ _ ih; exact ih
  · intro ss i _ r _ s s' hs hf hd ih hI
    obtain ⟨hch, hst⟩ := determine_step hd
    obtain ⟨hI', hpw⟩ := winv_step hI hs hf hch hst
    obtain ⟨hI'', hpw'⟩ := ih hI'
    exact ⟨hI'', hpw.trans hpw' (fun _ _ _ => Narrow.trans)⟩

theorem forceFirst_width {ss r : List Stmt} (h : forceFirst ss = some r) (hI : WInv ss) :
    WInv r ∧ PW Narrow ss r := by
  rcases forceFirst_step h with rfl | ⟨i, s, s', c, hs, hf, hch, hset, rfl⟩
  · exact ⟨hI, .refl Narrow.refl _⟩
  · exact winv_step hI hs hf hch (.inr (.inl ⟨c, hset⟩))

theorem pcrLoop_winv (fuel : Nat) (ss : List Stmt) {fin : List Stmt} (h : pcrLoop fuel ss = .ok fin)
    (hI : WInv ss) : WInv fin ∧ PW Narrow ss fin := by
  induction fuel generalizing ss with
  | zero =>
    unfold pcrLoop at h
    split at h
    · cases h; exact ⟨hI, .refl Narrow.refl _⟩
    · cases h
  | succ fuel ih =>
    unfold pcrLoop at h
    split at h
    · cases h; exact ⟨hI, .refl Narrow.refl _⟩
    · split at h
      · rename_i ss1 hp
        obtain ⟨h1, p1⟩ := pcrPass_width hp hI
        obtain ⟨h2, p2⟩ := ih _ h h1
        exact ⟨h2, p1.trans p2 (fun _ _ _ => Narrow.trans)⟩
      · rename_i ss1 hp
        obtain ⟨h1, p1⟩ := pcrPass_width hp hI
        split at h
        · rename_i ss2 hff
          obtain ⟨h2, p2⟩ := forceFirst_width hff h1
          obtain ⟨h3, p3⟩ := ih _ h h2
          exact ⟨h3, (p1.trans p2 (fun _ _ _ => Narrow.trans)).trans p3 (fun _ _ _ => Narrow.trans)⟩
        · cases h
      · cases h
      · cases h
      · cases h

/-! ### the invariant holds after `translateAll` -/

theorem translateAll_winv : ∀ {a r : List Stmt}, translateAll a = some r →
    ∀ (j : Nat) (s : Stmt), r[j]? = some s → SizeOK s ∧ (s.fixedSize = true ↔ s.pkg.choices = []) ∧
      LeftOK s.operand s.pkg := by
  intro a
  induction a with
  | nil => intro r h j s hs; simp [translateAll] at h; subst h; simp at hs
  | cons s0 rest ih =>
    intro r h j s hs
    rw [translateAll] at h
    cases hr : translateOperand s0.operand s0.row with
    | error e => rw [hr] at h; cases h
    | ok p =>
      rw [hr] at h
      dsimp only at h
      cases hr2 : translateAll rest with
      | none => rw [hr2] at h; cases h
      | some r2 =>
        rw [hr2] at h
        simp at h; subst h
        cases j with
        | succ j => exact ih hr2 j s (by simpa using hs)
        | zero =>
          simp at hs; subst hs
          obtain ⟨hw, hl⟩ := translateOperand_w hr
          have hiff : p.choices.isEmpty = true ↔ p.choices = [] := List.isEmpty_iff
          refine ⟨⟨hw.le, fun _ hc => ⟨(hw.und hc).1, (hw.und hc).2.1, (hw.und hc).2.2.1⟩, fun hc hf => ?_,
            fun hc => (hw.und hc).2.2.2, fun hc hf _ => ?_⟩, hiff, hl⟩
          · exact absurd (hiff.1 hf) hc
          · exact absurd (hiff.1 hf) hc

/-- (batch B3) the statements the size loop works on are exactly those with post byte choices: a statement without
choices — in particular a label offset of a pointer register, `needsRes` without choices — is fixed from the start
(`pcrPass` skips it, `determine` never sees it) -/
theorem translateAll_fixed_iff {a r : List Stmt} (h : translateAll a = some r) (j : Nat) (s : Stmt)
    (hs : r[j]? = some s) : s.fixedSize = true ↔ s.pkg.choices = [] :=
  (translateAll_winv h j s hs).2.1

theorem translateAll_WInv {a r : List Stmt} (h : translateAll a = some r) : WInv r :=
  ⟨fun j s hs => (translateAll_winv h j s hs).1,
   fun j s hs hf hn _ => absurd ((translateAll_winv h j s hs).2.1.1 hf) hn⟩

/-! ### what the loop delivers -/

/-- `Fits8` at the end of the loop, in terms of the FINAL sizes -/
def Final8 (fin : List Stmt) (i : Nat) (f : Stmt) : Prop :=
  ∃ rel, relIndex f.pkg.additional = some rel ∧ rel ≤ fin.length ∧ exprForces f.pkg.additional = false ∧
    1 ≤ f.pkg.size ∧
    (rel ≤ i → sumSize fin rel i + f.pkg.size + exprExtra f.pkg.additional ≤ 128) ∧
    (i < rel → sumSize fin i rel + exprExtra f.pkg.additional + 2 ≤ 127)

/-- **soundness of the size loop**: every statement's final size lies between the `size` and the `maxSize`
it had when the loop started (and, by `pcrLoop_winv` applied to a suffix of the run, at any later moment);
a statement whose size was fixed is never touched; a PCR statement that ends on the 8-bit form
(`pcrHint = 2`) satisfies the distance bound `Final8` over the final sizes; the size of a PCR statement is at
most the indexed base size plus 2 -/
theorem pcrLoop_width {fuel : Nat} {ss2 fin : List Stmt} {a : List Stmt} (ht : translateAll a = some ss2)
    (h : pcrLoop fuel ss2 = .ok fin) :
    PW (fun s f => s.pkg.size ≤ f.pkg.size ∧ f.pkg.size ≤ s.pkg.maxSize ∧ (s.fixedSize = true → f = s)) ss2 fin ∧
    (∀ (i : Nat) (f : Stmt), fin[i]? = some f → f.pkg.choices ≠ [] → f.pcrHint = 2 → Final8 fin i f) ∧
    (∀ (i : Nat) (f : Stmt), fin[i]? = some f → f.pkg.choices ≠ [] → f.pkg.size ≤ f.row.indSz + 2) := by
  obtain ⟨hI, hpw⟩ := pcrLoop_winv fuel ss2 h (translateAll_WInv ht)
  have hall := pcrLoop_ok_allFixed fuel ss2 h
  have hfx : ∀ (i : Nat) (f : Stmt), fin[i]? = some f → f.fixedSize = true := fun i f hf => by
    simp only [allFixed, List.all_eq_true] at hall
    exact hall f (List.mem_of_getElem? hf)
  refine ⟨⟨hpw.1, fun j s f hs hf => ?_⟩, fun i f hf hn hh => ?_, fun i f hf hn => ?_⟩
  · obtain ⟨n1, n2, n3⟩ := hpw.2 j s f hs hf
    exact ⟨n1, Nat.le_trans (hI.ok j f hf).le n2, n3⟩
  · obtain ⟨rel, h1, h2, h3, h0, h4, h5⟩ := hI.fits i f hf (hfx i f hf) hn hh
    refine ⟨rel, h1, h2, h3, h0, fun hb => ?_, fun hb => ?_⟩
    · have := sizeOK_sum_le hI.ok rel i; have := h4 hb; omega
    · have := sizeOK_sum_le hI.ok i rel; have := h5 hb; omega
  · exact (hI.ok i f hf).small hn (hfx i f hf)

/-- what the loop delivers for the operand WIDTH of a PCR statement: op code of the row, and on the 8-bit form
one byte more than the indexed base size -/
theorem pcrLoop_width8 {fuel : Nat} {ss2 fin : List Stmt} {a : List Stmt} (ht : translateAll a = some ss2)
    (h : pcrLoop fuel ss2 = .ok fin) (i : Nat) (f : Stmt) (hf : fin[i]? = some f) (hc : f.pkg.choices ≠ []) :
    opVal f.row.ind = .ok f.pkg.opCode ∧ (f.pcrHint = 2 → f.pkg.size = f.row.indSz + 1) := by
  obtain ⟨hI, _⟩ := pcrLoop_winv fuel ss2 h (translateAll_WInv ht)
  have hall := pcrLoop_ok_allFixed fuel ss2 h
  have hfx : f.fixedSize = true := by
    simp only [allFixed, List.all_eq_true] at hall
    exact hall f (List.mem_of_getElem? hf)
  exact ⟨(hI.ok i f hf).op hc, (hI.ok i f hf).small8 hc hfx⟩

end CoCo.Asm
