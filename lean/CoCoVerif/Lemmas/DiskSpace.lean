/-
Lemmas/DiskSpace.lean — space accounting on reachable images (for C15): when add_file succeeds,
when it fails with a diagnostic, and what it does to the free counts.
-/
import CoCoVerif.Lemmas.DiskFsck

namespace CoCo.Dsk
open CoCo Spec.DiskBasic CoCo.Props

theorem freeGranules_blank : freeGranules blank = 68 := by
  unfold freeGranules
  have : (List.range 68).filter (fun g => fatAt blank g == 0xFF) = List.range 68 := by
    rw [List.filter_eq_self]
    intro g hg
    rw [blank_fatAt g (List.mem_range.mp hg)]
    rfl
  rw [this, List.length_range]

theorem Inv.freeSlots_eq {img : Bytes} {abs : List Ent} (h : Inv img abs) :
    freeSlots img = 72 - abs.length := by
  unfold freeSlots; rw [h.liveSlots_eq, List.length_range]

theorem freeSlots_blank : freeSlots blank = 72 := by
  rw [Inv_blank.freeSlots_eq]; rfl

/-- the directory search after the allocation loop finds the first unused slot -/
theorem Inv.findEmptyDir_alloc {img b1 : Bytes} {abs : List Ent} {order gs : List Nat} {n : Nat}
    (h : Inv img abs) (ho : ValidOrder order) (halloc : alloc order n img = .ok (gs, b1)) :
    b1.length = 161280 ∧ findEmptyDir b1 = .ok (if abs.length < 72 then some abs.length else none) := by
  obtain ⟨_, _, hall, hb1, hframe, _, _⟩ := alloc_spec ho _ _ _ _ h.len halloc
  have hdireq : ∀ k, k < 72 → dirEntry b1 k = dirEntry img k := by
    intro k hk
    apply dirEntry_congr
    intro i h1 h2
    apply hframe
    intro g hg
    have := (hall g hg).1
    rw [FAT_eq]; omega
  refine ⟨hb1, findEmptyDir_spec hb1 abs.length h.slots ?_ ?_⟩
  · intro k hk
    rw [hdireq k (by have := h.slots; omega), h.live_iff k (by have := h.slots; omega)]
    simp [hk]
  · intro hk
    rw [hdireq _ hk, h.live_iff _ hk]
    simp

theorem Inv.addFile_fits {order : List Nat} {img : Bytes} {abs : List Ent} {f : CFile} (h : Inv img abs)
    (ho : ValidOrder order) (hc : ∀ g, g < 68 → g ∈ order) (hv : ValidDFile f)
    (hg : needs f ≤ freeGranules img) (hs : 0 < freeSlots img) :
    ∃ img', addFile order img f = .ok img' ∧
      freeGranules img' = freeGranules img - needs f ∧
      freeSlots img' = freeSlots img - 1 ∧
      (∀ g, g < 68 → fatAt img g ≠ 0xFF → fatAt img' g = fatAt img g) := by
  obtain ⟨gs, b1, halloc⟩ := alloc_total ho hc (needs f) img h.len hg
  obtain ⟨hlen, _, hall, _, _, _, _⟩ := alloc_spec ho _ _ _ _ h.len halloc
  obtain ⟨hb1, hdir⟩ := h.findEmptyDir_alloc ho halloc
  rw [h.freeSlots_eq] at hs
  have hlt72 : abs.length < 72 := by omega
  rw [if_pos hlt72] at hdir
  have hok := addFile_ok hv.2.2.2.2.2.2.2 hb1 hlen (fun g hg => (hall g hg).1) hlt72 halloc hdir
  refine ⟨_, hok, ?_⟩
  obtain ⟨gs', hinv', hall', _, _, hcnt, hother⟩ := h.step ho hv hok
  refine ⟨by omega, ?_, ?_⟩
  · rw [hinv'.freeSlots_eq, h.freeSlots_eq]; simp; omega
  · intro g hg68 hne
    apply hother g hg68
    intro hin
    exact hne (hall' g hin).2

theorem Inv.addFile_full {order : List Nat} {img : Bytes} {abs : List Ent} {f : CFile} (h : Inv img abs)
    (ho : ValidOrder order) (hv : ValidDFile f)
    (hfull : freeGranules img < needs f ∨ freeSlots img = 0) :
    addFile order img f = .diag := by
  rw [addFile_unfold order img f hv.2.2.2.2.2.2.2]
  rcases alloc_cases ho (needs f) img h.len with ⟨gs, b1, halloc⟩ | hd
  · rw [halloc]
    simp only []
    obtain ⟨_, hdir⟩ := h.findEmptyDir_alloc ho halloc
    rcases hfull with hg | hs
    · have := (alloc_spec ho _ _ _ _ h.len halloc).2.2.2.2.2.2
      omega
    · rw [h.freeSlots_eq] at hs
      have : ¬ abs.length < 72 := by omega
      rw [if_neg this] at hdir
      rw [hdir]
  · rw [hd]

end CoCo.Dsk
