/-
Lemmas/NoIntVal.lean — C13, "no internal error": the value-level invariant.

`Value.Good N v`: `v` contains no Python `None`, every number in it is a 16-bit magnitude, every address
index in it is below `N` (the number of statements), and an address expression has an address on one side.
Everything the parser builds is `Good` (for every `N`), and `Value.resolve` keeps values `Good` when the
symbol table is.

The two bounds are independent: `N` only bounds the address indices, the 16-bit bound on numbers does not depend
on it.  `Good 0` therefore says "no label inside, numbers of 16 bits"; that is what holds of a preset statement
address (`PkgOK.addr`, `StmtOK.addr`), and it is why the back end needs no bound on the number of statements
(`back_ne_internal`): since fix 9045646 an address index is only ever used to look a statement up, never as a
number.
-/
import CoCoVerif.Lemmas.FrontPcr
import CoCoVerif.Lemmas.LayoutBranch

namespace CoCo.Asm
open CoCo
open CoCo.Gen (InstrRow)

def Value.Good (N : Nat) : Value → Prop
  | .pyNone => False
  | .numeric i _ _ _ => i ≤ 65535
  | .address i _ => i < N
  | .expr l r _ _ ae => Value.Good N l ∧ Value.Good N r ∧ (ae = true → (l.isAddress = true ∨ r.isAddress = true))
  | _ => True

theorem Value.Good.ne_pyNone {N : Nat} {v : Value} (h : v.Good N) : v ≠ .pyNone := by
  rintro rfl; exact h

/-- the bound on the address indices may be raised; in particular `Good 0` ("no label inside") implies every
`Good N` -/
theorem Value.Good.mono {M N : Nat} (hMN : M ≤ N) : ∀ {v : Value}, v.Good M → v.Good N := by
  intro v
  induction v with
  | address i m => intro h; exact Nat.lt_of_lt_of_le h hMN
  | expr l r op m ae ihl ihr => intro h; exact ⟨ihl h.1, ihr h.2.1, h.2.2⟩
  | _ => intro h; exact h

/-- the `.int` of a good value: an index below `N` for an address, a 16-bit magnitude otherwise -/
theorem Value.Good.int {N : Nat} {v : Value} (h : v.Good N) :
    ∃ k, v.int? = some k ∧ (v.isAddress = true → k < N) ∧ (v.isAddress = false → k ≤ 65535) := by
  cases v with
  | pyNone => exact absurd h id
  | numeric i _ _ _ => exact ⟨i, rfl, by simp [Value.isAddress], fun _ => h⟩
  | address i _ => exact ⟨i, rfl, fun _ => h, by simp [Value.isAddress]⟩
  | _ => exact ⟨0, rfl, by simp [Value.isAddress], fun _ => by omega⟩

theorem Value.Good.int_le {N : Nat} {v : Value} (h : v.Good N) (hN : N ≤ 65536) :
    ∃ k, v.int? = some k ∧ k ≤ 65535 := by
  obtain ⟨k, hk, h1, h2⟩ := h.int
  refine ⟨k, hk, ?_⟩
  cases ha : v.isAddress
  · exact h2 ha
  · have := h1 ha; omega

/-! ### numbers -/

theorem numericOfInt_good {z : Int} {h : Option Nat} {m : Mode} {v : Value} (N : Nat)
    (hv : numericOfInt z h m = .ok v) (hz : -65535 ≤ z) : v.Good N := by
  unfold numericOfInt at hv
  split at hv
  · cases hv
  · rename_i hle
    simp only [Except.ok.injEq] at hv
    subst hv
    show z.natAbs ≤ 65535
    omega

theorem numV_good {a : Nat} {v : Value} (N : Nat) (hv : numV a = .ok v) : v.Good N :=
  numericOfInt_good N hv (by omega)

theorem numV_eq {a : Nat} {v : Value} (hv : numV a = .ok v) : ∃ h m, v = .numeric a h m false ∧ a ≤ 65535 := by
  unfold numV numericOfInt at hv
  split at hv
  · cases hv
  · rename_i hle
    simp only [Except.ok.injEq] at hv
    subst hv
    have h2 : ¬ ((a : Int) < 0) := by omega
    exact ⟨_, _, by simp only [h2, decide_false, Int.natAbs_natCast]; rfl, by omega⟩

theorem numV_ok {a : Nat} (h : a ≤ 65535) : ∃ v, numV a = .ok v := by
  unfold numV
  exact ⟨_, numericOfInt_nat' h⟩
where
  numericOfInt_nat' {n : Nat} (h : n ≤ 65535) :
      numericOfInt (n : Int) none .none = .ok (.numeric n (postInit n (initHint none .none) .none).1
        (postInit n (initHint none .none) .none).2 false) := by
    unfold numericOfInt
    have h1 : ¬ ((n : Int) > 65535) := by omega
    have h2 : ¬ ((n : Int) < 0) := by omega
    simp [h1, h2]

theorem parseBase_bound (b : Nat) (cs : Str) (hd : ∀ c ∈ cs, digitVal c < b) :
    parseBase b cs < b ^ cs.length := by
  unfold parseBase
  have key : ∀ (cs : Str) (acc : Nat), (∀ c ∈ cs, digitVal c < b) →
      cs.foldl (fun acc c => acc * b + digitVal c) acc + 1 ≤ (acc + 1) * b ^ cs.length := by
    intro cs
    induction cs with
    | nil => intro acc _; simp
    | cons c cs ih =>
      intro acc hd
      have hc := hd c (by simp)
      have := ih (acc * b + digitVal c) (fun x hx => hd x (by simp [hx]))
      simp only [List.foldl_cons, List.length_cons]
      refine Nat.le_trans this ?_
      rw [Nat.pow_succ, Nat.mul_comm (b ^ cs.length) b, ← Nat.mul_assoc]
      apply Nat.mul_le_mul_right
      rw [Nat.add_mul]; omega
  have := key cs 0 hd
  simp at this
  omega

theorem digitVal_hexD {c : Char} (h : isHexD c = true) : digitVal c < 16 := by
  unfold digitVal
  simp only [isHexD, isDigit, Bool.or_eq_true, Bool.and_eq_true, decide_eq_true_eq, Char.le_def,
    UInt32.le_iff_toNat_le] at h ⊢
  have e : c.toNat = c.val.toNat := rfl
  have e0 : ('0' : Char).val.toNat = 48 := rfl
  have e9 : ('9' : Char).val.toNat = 57 := rfl
  have ea : ('a' : Char).val.toNat = 97 := rfl
  have ef : ('f' : Char).val.toNat = 102 := rfl
  have eA : ('A' : Char).val.toNat = 65 := rfl
  have eF : ('F' : Char).val.toNat = 70 := rfl
  rw [e0, e9, ea, ef, eA, eF] at h
  rw [e0, e9, ea, ef]
  split
  · omega
  · split <;> omega

theorem digitVal_bit {c : Char} (h : (c == '0' || c == '1') = true) : digitVal c < 2 := by
  simp only [Bool.or_eq_true, beq_iff_eq] at h
  rcases h with rfl | rfl <;> decide

theorem isCharLit_bound {c : Char} (h : isCharLit c = true) : c.toNat ≤ 65535 := by
  have e : c.toNat = c.val.toNat := rfl
  simp only [isCharLit, isAlpha, isDigit, Bool.or_eq_true, Bool.and_eq_true, decide_eq_true_eq, Char.le_def,
    UInt32.le_iff_toNat_le, beq_iff_eq, List.contains_eq_mem, decide_eq_true_eq] at h
  have ez : ('z' : Char).val.toNat = 122 := rfl
  have eZ : ('Z' : Char).val.toNat = 90 := rfl
  have e9 : ('9' : Char).val.toNat = 57 := rfl
  have es : ('/' : Char).val.toNat = 47 := rfl
  rw [ez, eZ, e9, es] at h
  rcases h with (((h | h) | h) | h) | h
  · rcases h with h | h <;> omega
  · omega
  · have : ∀ x ∈ "><\";:,.#?$%^&*()=!".toList, x.toNat ≤ 65535 := by decide
    exact this c h
  · subst h; decide
  · omega

theorem numericOfStr_good {s : Str} {h : Option Nat} {m : Mode} {v : Value} (N : Nat)
    (hv : numericOfStr s h m = .ok v) : v.Good N := by
  unfold numericOfStr at hv
  dsimp only at hv
  split at hv
  · rename_i heq
    simp only [Except.ok.injEq] at hv
    subst hv
    split at heq
    · split at heq
      · rename_i hc
        simp only [Option.some.injEq] at heq; subst heq
        simp only [Bool.and_eq_true] at hc
        exact isCharLit_bound hc.2
      · cases heq
    · cases heq
  · split at hv
    · -- binary
      rename_i bits _
      split at hv
      · rename_i hb
        simp only [Bool.and_eq_true, List.all_eq_true] at hb
        have hd : ∀ c ∈ bits, digitVal c < 2 := fun c hc => digitVal_bit (hb.2 c hc)
        have hbound := parseBase_bound 2 bits hd
        split at hv
        · cases hv
        · rename_i hl
          have hlen : bits.length = 8 ∨ bits.length = 16 := by
            simp only [bne_iff_ne, ne_eq, Bool.and_eq_true, not_and, Decidable.not_not] at hl
            by_cases h8 : bits.length = 8
            · exact Or.inl h8
            · exact Or.inr (hl h8)
          have : parseBase 2 bits ≤ 65535 := by
            rcases hlen with h' | h' <;> rw [h'] at hbound <;> omega
          split at hv <;> (simp only [Except.ok.injEq] at hv; subst hv; exact this)
      · cases hv
    · -- hex
      rename_i hs _
      split at hv
      · rename_i hb
        simp only [Bool.and_eq_true, List.all_eq_true] at hb
        have hd : ∀ c ∈ hs, digitVal c < 16 := fun c hc => digitVal_hexD (hb.2 c hc)
        have hbound := parseBase_bound 16 hs hd
        split at hv
        · cases hv
        · rename_i hl
          have hlen : hs.length ≤ 4 := by simpa using hl
          have hp : 16 ^ hs.length ≤ 16 ^ 4 := Nat.pow_le_pow_right (by omega) hlen
          have : parseBase 16 hs ≤ 65535 := by omega
          simp only [Except.ok.injEq] at hv; subst hv; exact this
      · cases hv
    · -- negative
      split at hv
      · split at hv
        · cases hv
        · rename_i hl
          simp only [Except.ok.injEq] at hv; subst hv
          show _ ≤ 65535
          omega
      · cases hv
    · -- decimal
      split at hv
      · split at hv
        · cases hv
        · rename_i hl
          simp only [Except.ok.injEq] at hv; subst hv
          show _ ≤ 65535
          omega
      · cases hv

/-- everything `Value.create_from_str` builds is good, for every `N` -/
theorem create_good (N : Nat) : ∀ (fuel : Nat) (s : Str) (a b c : Bool) (v : Value),
    create fuel s a b c = .ok v → v.Good N := by
  intro fuel
  induction fuel with
  | zero => intro s a b c v h; simp [create] at h
  | succ n ih =>
    intro s a b c v h
    unfold create at h
    split at h
    · cases h
    · dsimp only at h
      split at h
      · rename_i heq
        simp only [Except.ok.injEq] at h; subst h
        split at heq
        · simp only [Option.some.injEq] at heq; subst heq; trivial
        · cases heq
      · split at h
        · rename_i heq
          simp only [Except.ok.injEq] at h; subst h
          repeat' split at heq
          all_goals first
            | (cases heq; done)
            | (cases heq; exact ⟨ih _ _ _ _ _ ‹_›, ih _ _ _ _ _ ‹_›, by simp⟩)
        · split at h
          · rename_i heq
            simp only [Except.ok.injEq] at h; subst h
            repeat' split at heq
            all_goals first | (cases heq; done) | (cases heq; trivial)
          · repeat' split at h
            all_goals first
              | (cases h; done)
              | (cases h; trivial)
              | (simp only [Except.ok.injEq] at h; subst h; exact numericOfStr_good N ‹_›)

theorem createV_good (N : Nat) {s : Str} {a b c : Bool} {v : Value} (h : createV s a b c = .ok v) : v.Good N :=
  create_good N 4 s a b c v h

/-! ### symbol resolution -/

def SymTab.Good (N : Nat) (t : SymTab) : Prop := ∀ kv ∈ t, Value.Good N kv.2

theorem SymTab.Good.get {N : Nat} {t : SymTab} (ht : SymTab.Good N t) {k : Str} {v : Value}
    (h : t.get? k = some v) : v.Good N := by
  obtain ⟨kv, hkv, rfl⟩ := SymTab.get?_mem h
  exact ht kv hkv

theorem lookV_good {N : Nat} {t : SymTab} (ht : SymTab.Good N t) {x y : Value} (hx : x.Good N)
    (h : lookV t x = .ok y) : y.Good N := by
  cases x with
  | symbol name m =>
    unfold lookV at h
    dsimp only at h
    cases hg : t.get? name with
    | none => rw [hg] at h; cases h
    | some s => rw [hg] at h; cases h; exact ht.get hg
  | _ => cases h; exact hx

theorem resolveExprCore_good {N : Nat} {l r : Value} {op : Char} {mode : Mode} {x : Value}
    (hl : l.Good N) (hr : r.Good N) (h : resolveExprCore l r op mode = .ok x) : x.Good N := by
  unfold resolveExprCore at h
  dsimp only at h
  split at h
  · repeat' split at h
    all_goals first
      | (cases h; done)
      | (simp only [Except.ok.injEq] at h; subst h; exact numericOfStr_good N ‹_›)
  · split at h
    · rename_i ha
      cases h
      exact ⟨hl, hr, fun _ => by simpa using ha⟩
    · cases h

theorem symPost_good {N : Nat} {s r : Value} (hs : s.Good N) (h : symPost s = .ok r) : r.Good N := by
  unfold symPost at h
  cases s with
  | address j mj =>
    simp only [Value.isAddress, if_true, Except.ok.injEq] at h
    subst h; exact hs
  | numeric a b c d =>
    simp only [Value.isAddress, Value.isNumeric, if_true, Bool.false_eq_true, if_false] at h
    have hs' : a ≤ 65535 := hs
    exact numericOfInt_good N h (by split <;> omega)
  | _ => simp [Value.isAddress, Value.isNumeric] at h

/-- batch 4: `resolve` follows chains of EQU expressions (`resolveF`); the invariant goes through every level -/
theorem resolveF_good {N : Nat} {t : SymTab} (ht : SymTab.Good N t) : ∀ (n : Nat) {v r : Value}, v.Good N →
    resolveF n v t = .ok r → r.Good N
  | 0, _, _, _, h => by cases h
  | n + 1, v, r, hv, h => by
    have hsym : ∀ {name : Str} {s : Value}, getSymF n t name = .ok s → s.Good N := by
      intro name s hs
      unfold getSymF at hs
      cases hg : t.get? name with
      | none => rw [hg] at hs; cases hs
      | some e =>
        rw [hg] at hs; dsimp only at hs
        split at hs
        · exact resolveF_good ht n (ht.get hg) hs
        · cases hs; exact ht.get hg
    have hlook : ∀ {x y : Value}, x.Good N → lookF n t x = .ok y → y.Good N := by
      intro x y hx hxy
      cases x with
      | symbol name m => exact hsym hxy
      | _ => cases hxy; exact hx
    cases v with
    | symbol name md =>
      rw [resolveF_symbol] at h
      cases hs : getSymF n t name with
      | error e => rw [hs] at h; cases h
      | ok s => rw [hs] at h; exact symPost_good (hsym hs) h
    | expr l r' op mode ae =>
      rw [resolveF_expr] at h
      cases hl : lookF n t l with
      | error e => rw [hl] at h; cases h
      | ok l' =>
        cases hr : lookF n t r' with
        | error e => rw [hl, hr] at h; cases h
        | ok r'' =>
          rw [hl, hr] at h
          exact resolveExprCore_good (hlook hv.1 hl) (hlook hv.2.1 hr) h
    | pyNone => exact absurd hv id
    | _ => cases h; exact hv

theorem Value.resolve_good {N : Nat} {t : SymTab} (ht : SymTab.Good N t) {v r : Value} (hv : v.Good N)
    (h : v.resolve t = .ok r) : r.Good N :=
  resolveF_good ht _ hv h

theorem leftPost_good {N : Nat} {t : SymTab} (ht : SymTab.Good N t) {v r : Value} (hv : v.Good N)
    (h : leftPost t v = .ok r) : r.Good N := by
  have hp : v ≠ .pyNone := hv.ne_pyNone
  have e : leftPost t v = if v.isAddrExpr || v.isExpression then v.resolve t else pure v := by
    cases v <;> first | rfl | exact absurd rfl hp
  rw [e] at h
  split at h
  · exact Value.resolve_good ht hv h
  · cases h; exact hv

theorem resolveLeft_good {N : Nat} {t : SymTab} (ht : SymTab.Good N t) {l : Str} {row : InstrRow} {r : Value}
    (h : resolveLeft l row t = .ok r) : r.Good N := by
  rw [resolveLeft_eq] at h
  cases hc : create 4 l row.isStringDefine row.is16Bit false with
  | error e => rw [hc] at h; cases h
  | ok v =>
    rw [hc] at h
    dsimp only at h
    have hv := create_good N _ _ _ _ _ _ hc
    split at h
    · cases hr : v.resolve t with
      | error e => rw [hr] at h; cases h
      | ok v2 => rw [hr] at h; exact leftPost_good ht (Value.resolve_good ht hv hr) h
    · exact leftPost_good ht hv h

end CoCo.Asm
