/-
Lemmas/NoIntHuge.lean — C13: a program of 70002 lines without INCLUDE on which `Program.process` USED TO end in
an internal error and now ends in a diagnostic (`huge_diag`).  The program is `n` times ` ORG 0`, then `FAR LEAX X-FAR,PCR`, then `X EQU 1,2`.  It cannot be
evaluated as a whole inside the kernel; the `n` identical statements are carried through every stage by
induction, the two last statements are evaluated.
-/
import CoCoVerif.Lemmas.NoIntFix
import CoCoVerif.Lemmas.LayoutEval

namespace CoCo.Asm
open CoCo
open CoCo.Gen (InstrRow)

/-! ### reading off the result of a closed computation -/

def getR {α} [Inhabited α] : R α → α | .ok a => a | .error _ => default
def okR {α} : R α → Bool | .ok _ => true | .error _ => false
theorem getR_spec {α} [Inhabited α] {x : R α} (h : okR x = true) : x = .ok (getR x) := by
  cases x <;> first | rfl | cases h
def getO {α} [Inhabited α] : Option α → α | some a => a | none => default
theorem getO_spec {α} [Inhabited α] {x : Option α} (h : x.isSome = true) : x = some (getO x) := by
  cases x <;> first | rfl | cases h
def getOut {α} [Inhabited α] : Outcome α → α | .ok a => a | _ => default
theorem getOut_spec {α} [Inhabited α] {x : Outcome α} (h : x.isOk = true) : x = .ok (getOut x) := by
  cases x <;> first | rfl | cases h

/-! ### `n` identical statements through the stages -/

theorem parseLines_replicate {l : Str} {s : Stmt} (hl : parseLine l = .ok (some s)) (rest : List Str) :
    ∀ n, parseLines (List.replicate n l ++ rest) =
      match parseLines rest with | .ok r => .ok (List.replicate n s ++ r) | o => o := by
  intro n
  induction n with
  | zero => simp only [List.replicate_zero, List.nil_append]; cases parseLines rest <;> rfl
  | succ n ih =>
    rw [List.replicate_succ, List.cons_append, parseLines, hl]
    dsimp only
    rw [ih]
    cases parseLines rest <;> rfl

theorem buildSymTab_replicate {a : Stmt} (ha : a.label.isEmpty = true) (rest : List Stmt) :
    ∀ n i t, buildSymTab (List.replicate n a ++ rest) i t = buildSymTab rest (i + n) t := by
  intro n
  induction n with
  | zero => intro i t; rfl
  | succ n ih =>
    intro i t
    rw [List.replicate_succ, List.cons_append, buildSymTab, if_pos ha, ih]
    congr 1; omega

theorem resolveAll_replicate {t : SymTab} {a : Stmt} (ha : resolveOperand a.operand a.row t = .ok a.operand)
    (rest : List Stmt) :
    ∀ n, resolveAll t (List.replicate n a ++ rest) = (resolveAll t rest).map (List.replicate n a ++ ·) := by
  intro n
  induction n with
  | zero => simp
  | succ n ih =>
    rw [List.replicate_succ, List.cons_append, resolveAll, ha]
    dsimp only
    rw [ih, Option.map_map]
    rfl

/-- the statement `translateAll` makes of `a` when its operand translates to `p` -/
def withPkg (a : Stmt) (p : Pkg) : Stmt := { a with pkg := p, fixedSize := p.choices.isEmpty }

theorem translateAll_replicate {a : Stmt} {p : Pkg} (ha : translateOperand a.operand a.row = .ok p)
    (rest : List Stmt) :
    ∀ n, translateAll (List.replicate n a ++ rest) =
      (translateAll rest).map (List.replicate n (withPkg a p) ++ ·) := by
  intro n
  induction n with
  | zero => simp
  | succ n ih =>
    rw [List.replicate_succ, List.cons_append, translateAll, ha]
    dsimp only
    rw [ih, Option.map_map]
    rfl

theorem pcrPass_skip : ∀ (k : Nat) (ss : List Stmt) (i : Nat) (p : Bool) (m : Nat),
    (∀ j, j < k → ∃ s, ss[i + j]? = some s ∧ s.fixedSize = true) →
    pcrPass (k + m) ss i p = pcrPass m ss (i + k) p := by
  intro k
  induction k with
  | zero => intro ss i p m _; simp
  | succ k ih =>
    intro ss i p m h
    obtain ⟨s, hs, hf⟩ := h 0 (by omega)
    rw [show k + 1 + m = (k + m) + 1 by omega, pcrPass_step (by simpa using hs), if_pos hf,
      ih ss (i + 1) p m (fun j hj => by
        obtain ⟨x, hx, hxf⟩ := h (j + 1) (by omega)
        exact ⟨x, by rw [show i + 1 + j = i + (j + 1) by omega]; exact hx, hxf⟩)]
    congr 1; omega

theorem assignAddrs_replicate {a : Stmt} (h1 : a.pkg.address.isNone = false) (h2 : a.pkg.address.int? = some 0)
    (h3 : a.pkg.size = 0) (rest : List Stmt) :
    ∀ n, assignAddrs (List.replicate n a ++ rest) 0 =
      match assignAddrs rest 0 with | .ok r => .ok (List.replicate n a ++ r) | o => o := by
  intro n
  induction n with
  | zero => simp only [List.replicate_zero, List.nil_append]; cases assignAddrs rest 0 <;> rfl
  | succ n ih =>
    rw [List.replicate_succ, List.cons_append, assignAddrs]
    simp only [h1, Bool.false_eq_true, if_false, h2, h3, Nat.add_zero]
    rw [ih]
    cases assignAddrs rest 0 <;> rfl

theorem fixAll_replicate {ss : List Stmt} {a : Stmt} (ha : ∀ j, fixFit ss j a = .ok a) (rest : List Stmt) :
    ∀ n i, fixAll ss i (List.replicate n a ++ rest) =
      match fixAll ss (i + n) rest with | .ok r => .ok (List.replicate n a ++ r) | o => o := by
  intro n
  induction n with
  | zero => intro i; simp only [List.replicate_zero, List.nil_append, Nat.add_zero]; cases fixAll ss i rest <;> rfl
  | succ n ih =>
    intro i
    rw [List.replicate_succ, List.cons_append, fixAll_cons, ha]
    dsimp only
    rw [ih, show i + 1 + n = i + (n + 1) by omega]
    cases fixAll ss (i + (n + 1)) rest <;> rfl

/-! ### single statements -/

/-- a pseudo operand that is a number stays as it is (the data directives and ORG now resolve symbols and
expressions) -/
theorem resolveOperand_pseudo_ok {o : Operand} (hk : o.kind = .pseudo) (hv : o.value.isNumeric = true)
    (row : InstrRow) (t : SymTab) : resolveOperand o row t = .ok o := by
  unfold resolveOperand; rw [hk]
  cases hval : o.value <;> rw [hval] at hv <;> first | cases hv | skip
  dsimp only
  split <;> rfl

/-- `fix_addresses` leaves a statement alone that is neither a branch nor refers to an address nor is
PC-relative -/
theorem fixOne_plain {s : Stmt} (hk : (s.operand.kind == .relative) = false) (hv : s.operand.value ≠ .pyNone)
    (h1 : s.operand.value.isAddrExpr = false) (h2 : s.operand.value.isAddress = false)
    (h3 : s.pkg.needsRes = false) (ss : List Stmt) (i : Nat) : fixOne ss i s = .ok s := by
  rw [fixOne_nonrel ss i s hk hv]
  simp [fixStep1, fixStep2, fixStep3, h1, h2, h3, Outcome.bind]

theorem sumSizes_self (ss : List Stmt) (i : Nat) : sumSizes ss i i = (0, 0) := by
  simp [sumSizes]

/-- the size loop on a PCR statement whose offset expression combines a label with something that is not a
number: the 16-bit form is taken at once (since fix 0293787) -/
theorem determine_forced {ss : List Stmt} {i : Nat} {s s' : Stmt} {c0 c1 : Nat} (hch : s.pkg.choices = [c0, c1])
    (hf : exprForces s.pkg.additional = true) (hset : settle s 2 4 c1 = some s') : determine ss i s = .ok s' := by
  unfold determine
  rw [hch]
  simp only [hf, if_true, hset]

/-- the shape of the offset expression of the witness: `X - FAR` with `X` neither a number nor an address and
`FAR` the statement of index `k` -/
def selfMinus (k : Nat) (v : Value) : Bool :=
  match v with
  | .expr l (.address i _) '-' _ true => i == k && !l.isAddress && !l.isNumeric
  | _ => false

/-- `calculate_address_offset` on `X - FAR` with `X` neither a number nor a label: "unresolved expression"
(since the repair; before, the STATEMENT INDEX `k` of `FAR` was taken for the constant and the result was
`address(FAR) − k`) -/
theorem addrOffset_selfMinus {ss : List Stmt} {k : Nat} {v : Value} (hv : selfMinus k v = true) :
    addrOffset ss v = .diag := by
  unfold selfMinus at hv
  split at hv
  · rename_i l i m md
    simp only [Bool.and_eq_true, beq_iff_eq, Bool.not_eq_true'] at hv
    obtain ⟨⟨rfl, h1⟩, h2⟩ := hv
    rw [addrOffset_expr, addrOperand_other ss l h1 h2]
  · cases hv

/-- **the former internal error, now a diagnostic**: a PCR statement of index `k` whose offset expression is
`X - itself` with `X` neither a number nor a label -/
theorem fixOne_selfMinus_diag {ss : List Stmt} {k : Nat} {s : Stmt}
    (hk : s.operand.kind = .indexed) (hlr : s.operand.value.isLeftRight = true)
    (hn : s.pkg.needsRes = true) (hadd : selfMinus k s.pkg.additional = true) : fixOne ss k s = .diag := by
  have hk' : (s.operand.kind == .relative) = false := by rw [hk]; rfl
  have hv : s.operand.value ≠ .pyNone := by
    intro h; rw [h] at hlr; cases hlr
  have h1 : fixStep1 ss s = .ok s := by
    unfold fixStep1
    cases hval : s.operand.value <;> rw [hval] at hlr <;> simp [Value.isLeftRight] at hlr
    simp [Value.isAddrExpr]
  have h2 : fixStep2 ss s.operand.value s = .ok s := by
    unfold fixStep2
    cases hval : s.operand.value <;> rw [hval] at hlr <;> simp [Value.isLeftRight] at hlr
    simp [Value.isAddress]
  rw [fixOne_nonrel ss k s hk' hv, h1]
  show (fixStep2 ss s.operand.value s).bind (fixStep3 ss k) = .diag
  rw [h2]
  show fixStep3 ss k s = .diag
  have hrel : fixRel ss s = .diag := by
    unfold fixRel
    simp only [hk, show (OpKind.indexed == OpKind.indexed || OpKind.indexed == OpKind.extIndirect) = true from rfl]
    have hshape := hadd
    unfold selfMinus at hshape
    split at hshape
    · rename_i l i m md heq
      rw [heq]
      dsimp only
      rw [← heq, addrOffset_selfMinus hadd]
    · cases hshape
  unfold fixStep3
  rw [if_pos hn]
  split
  · unfold fixAbs; rw [hrel]
  · rw [hrel]

/-! ### the three kinds of line of the witness, stage by stage (closed computations, checked by the kernel) -/

def hugeOrg : Str := " ORG 0\n".toList
def hugeFar : Str := "FAR LEAX X-FAR,PCR\n".toList
def hugeX : Str := "X EQU 1,2\n".toList

def org0 : Stmt := match parseLine hugeOrg with | .ok (some s) => s | _ => default

theorem org0_spec : parseLine hugeOrg = .ok (some org0) := by
  have h : (match parseLine hugeOrg with | .ok (some _) => true | _ => false) = true := by decide +kernel
  unfold org0
  split at h
  · rename_i s hs; rw [hs]
  · cases h

/-- the parsed statements of `FAR LEAX X-FAR,PCR` and `X EQU 1,2` -/
def tail0 : List Stmt := getOut (parseLines [hugeFar, hugeX])
theorem tail0_spec : parseLines [hugeFar, hugeX] = .ok tail0 := getOut_spec (by decide +kernel)

/-- the symbol table: `FAR` is statement number 70000 -/
def hugeTab : SymTab := getO (buildSymTab tail0 70000 [])
theorem hugeTab_spec : buildSymTab tail0 70000 [] = some hugeTab := getO_spec (by decide +kernel)

def tail1 : List Stmt := getO (resolveAll hugeTab tail0)
theorem tail1_spec : resolveAll hugeTab tail0 = some tail1 := getO_spec (by decide +kernel)

def orgP : Pkg := getR (translateOperand org0.operand org0.row)
theorem orgP_spec : translateOperand org0.operand org0.row = .ok orgP := getR_spec (by decide +kernel)
def org2 : Stmt := withPkg org0 orgP

def tail2 : List Stmt := getO (translateAll tail1)
theorem tail2_spec : translateAll tail1 = some tail2 := getO_spec (by decide +kernel)

def far2 : Stmt := tail2.headD default
def x2 : Stmt := tail2.tail.headD default

theorem list_two {α} (d : α) : ∀ (l : List α), l.length = 2 → l = [l.headD d, l.tail.headD d]
  | [_, _], _ => rfl

theorem tail2_eq : tail2 = [far2, x2] := list_two default tail2 (by decide +kernel)

/-- `LEAX X-FAR,PCR` after the size loop: the 16-bit form -/
def far3 : Stmt := getO (settle far2 2 4 0x8D)
theorem far3_spec : settle far2 2 4 0x8D = some far3 := getO_spec (by decide +kernel)

def tail4 : List Stmt := getOut (assignAddrs [far3, x2] 0)
theorem tail4_spec : assignAddrs [far3, x2] 0 = .ok tail4 := getOut_spec (by decide +kernel)
def far4 : Stmt := tail4.headD default
def x4 : Stmt := tail4.tail.headD default
theorem tail4_eq : tail4 = [far4, x4] := list_two default tail4 (by decide +kernel)

theorem huge_facts0 :
    org0.row.isInclude = false ∧ tail0.all (fun s => !s.row.isInclude) = true ∧ org0.label.isEmpty = true ∧
    org0.operand.kind = .pseudo ∧ org0.operand.value.isNumeric = true := by decide +kernel

theorem huge_facts2 :
    org2.fixedSize = true ∧ x2.fixedSize = true ∧ far2.fixedSize = false ∧ far2.pkg.choices = [0x8C, 0x8D] ∧
    exprForces far2.pkg.additional = true ∧ relIndex far2.pkg.additional = some 70000 ∧
    exprExtra far2.pkg.additional = 0 ∧
    org2.pkg.address.isNone = false ∧ org2.pkg.address.int? = some 0 ∧ org2.pkg.size = 0 := by decide +kernel

theorem huge_facts4 :
    (org2.operand.kind == .relative) = false ∧ org2.operand.value.isNumeric = true ∧ org2.pkg.needsRes = false ∧
    far4.operand.kind = .indexed ∧ far4.operand.value.isLeftRight = true ∧ far4.pkg.needsRes = true ∧
    selfMinus 70000 far4.pkg.additional = true ∧ far4.pkg.address.int? = some 0 ∧ far4.pcrHint = 4 ∧
    far4.pkg.size = 4 ∧ fitSkipped org2.row = true := by decide +kernel

/-! ### the whole program -/

theorem huge_getElem_left {n : Nat} {a : Stmt} {tl : List Stmt} {j : Nat} (hj : j < n) :
    (List.replicate n a ++ tl)[j]? = some a := by
  rw [List.getElem?_append_left (by simpa using hj), List.getElem?_replicate, if_pos hj]

theorem huge_getElem_n {n : Nat} {a b c : Stmt} : (List.replicate n a ++ [b, c])[n]? = some b := by
  rw [List.getElem?_append_right (by simp)]; simp

theorem huge_getElem_n1 {n : Nat} {a b c : Stmt} : (List.replicate n a ++ [b, c])[n + 1]? = some c := by
  rw [List.getElem?_append_right (by simp)]; simp

/-- the PCR size loop on the witness: one pass, `LEAX X-FAR,PCR` gets the 16-bit form -/
theorem huge_pcr (n : Nat) (hn : n = 70000) :
    pcrLoop ((List.replicate n org2 ++ tail2).length + 1) (List.replicate n org2 ++ tail2) =
      .ok (List.replicate n org2 ++ [far3, x2]) := by
  obtain ⟨f1, f2, f3, f4, f5, f6, f7, _⟩ := huge_facts2
  rw [tail2_eq]
  have hlen : (List.replicate n org2 ++ [far2, x2]).length = n + 2 := by simp
  rw [hlen]
  have hnf : allFixed (List.replicate n org2 ++ [far2, x2]) = false := by
    simp [allFixed, List.all_append, f3]
  have hdet : determine (List.replicate n org2 ++ [far2, x2]) n far2 = .ok far3 :=
    determine_forced f4 f5 far3_spec
  have hset : (List.replicate n org2 ++ [far2, x2]).set n far3 = List.replicate n org2 ++ [far3, x2] := by
    rw [List.set_append_right n far3 (by simp)]; simp
  have hf3 : far3.fixedSize = true := settle_fixedSize far3_spec
  have hpass : pcrPass (n + 2) (List.replicate n org2 ++ [far2, x2]) 0 false =
      .ok (List.replicate n org2 ++ [far3, x2], true) := by
    rw [pcrPass_skip n _ 0 false 2 (fun j hj => ⟨org2, by rw [Nat.zero_add]; exact huge_getElem_left hj, f1⟩),
      Nat.zero_add, pcrPass_step huge_getElem_n, f3]
    simp only [Bool.false_eq_true, if_false, hdet, hset, hf3, Bool.or_true]
    rw [pcrPass_step huge_getElem_n1, if_pos f2]
    rfl
  have hall3 : allFixed (List.replicate n org2 ++ [far3, x2]) = true := by
    simp [allFixed, List.all_append, List.all_replicate, f1, f2, hf3]
  rw [pcrLoop, hnf]
  simp only [Bool.false_eq_true, if_false, hlen, hpass]
  exact pcrLoop_allFixed hall3

/-- **C13, REPAIRED finding**: 70000 times ` ORG 0`, then `FAR LEAX X-FAR,PCR`, then `X EQU 1,2` used to end in
an internal error (ValueTypeError out of `fix_addresses`); `calculate_address_offset` now reports `X-FAR` as an
unresolved expression, so the program ends in a diagnostic, whatever the host files are -/
theorem huge_diag (fs : Files) (n : Nat) (hn : n = 70000) :
    assemble fs (List.replicate n hugeOrg ++ [hugeFar, hugeX]) = .diag := by
  obtain ⟨g1, g2, g3, g4, g5⟩ := huge_facts0
  obtain ⟨f1, f2, f3, f4, f5, f6, f7, f8, f9, f10⟩ := huge_facts2
  obtain ⟨k1, k2, k3, k4, k5, k6, k7, k8, k9, k10, k11⟩ := huge_facts4
  have hp : parseLines (List.replicate n hugeOrg ++ [hugeFar, hugeX]) = .ok (List.replicate n org0 ++ tail0) := by
    rw [parseLines_replicate org0_spec, tail0_spec]
  have hall : (List.replicate n org0 ++ tail0).all (fun s => !s.row.isInclude) = true := by
    rw [List.all_append, Bool.and_eq_true]
    refine ⟨?_, g2⟩
    rw [List.all_eq_true]
    intro x hx
    rw [List.eq_of_mem_replicate hx, g1]; rfl
  rw [assemble_eq_from hp (expand_noinclude fs fs.length [] _ hall)]
  unfold assembleFrom
  have h0 : buildSymTab (List.replicate n org0 ++ tail0) 0 [] = some hugeTab := by
    rw [buildSymTab_replicate g3, Nat.zero_add, hn]; exact hugeTab_spec
  rw [h0]; dsimp only
  have h1 : resolveAll hugeTab (List.replicate n org0 ++ tail0) = some (List.replicate n org0 ++ tail1) := by
    rw [resolveAll_replicate (resolveOperand_pseudo_ok g4 g5 _ _), tail1_spec]; rfl
  rw [h1]; dsimp only
  have h2 : translateAll (List.replicate n org0 ++ tail1) = some (List.replicate n org2 ++ tail2) := by
    rw [translateAll_replicate orgP_spec, tail2_spec]; rfl
  rw [h2]; dsimp only
  rw [huge_pcr n hn]; dsimp only
  -- batch 5: the ORG check (it passes: every ORG comes first; either way the result is a diagnostic)
  split
  · rfl
  have h4 : assignAddrs (List.replicate n org2 ++ [far3, x2]) 0 = .ok (List.replicate n org2 ++ [far4, x4]) := by
    rw [assignAddrs_replicate f8 f9 f10, tail4_spec, tail4_eq]
  rw [h4]; dsimp only
  have hplain : ∀ j, fixOne (List.replicate n org2 ++ [far4, x4]) j org2 = .ok org2 := fun j =>
    fixOne_plain k1 (by intro h; rw [h] at k2; cases k2)
      (by cases hv : org2.operand.value <;> rw [hv] at k2 <;> first | rfl | cases k2)
      (by cases hv : org2.operand.value <;> rw [hv] at k2 <;> first | rfl | cases k2) k3 _ j
  have hfit : fitWidth org2 = .ok org2 := by
    unfold fitWidth
    rw [if_pos (by simpa [fitSkipped] using k11)]
  have hplain' : ∀ j, fixFit (List.replicate n org2 ++ [far4, x4]) j org2 = .ok org2 := fun j =>
    fixFit_ok.2 ⟨org2, hplain j, hfit⟩
  have hfar : fixFit (List.replicate n org2 ++ [far4, x4]) n far4 = .diag := by
    unfold fixFit
    rw [fixOne_selfMinus_diag k4 k5 k6 (by rw [hn]; exact k7)]
  have h5 : fixAll (List.replicate n org2 ++ [far4, x4]) 0 (List.replicate n org2 ++ [far4, x4]) = .diag := by
    rw [fixAll_replicate hplain', Nat.zero_add, fixAll_cons, hfar]
  rw [fixAllL_diag.2 (Or.inl h5)]

end CoCo.Asm
