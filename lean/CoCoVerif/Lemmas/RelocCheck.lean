/-
Lemmas/RelocCheck.lean — relocation (C18-R1), part 10: executable (Bool) versions of the statement classes
`Unmoved` / `Moved` / `MovedMod` / `MovedNeg`, sound with respect to the Prop-valued definitions, and the statement list that enters
`fixAll` (`stage4`) as a function of the source lines.  Used to show by evaluation that every statement of a
concrete program is in one of the two classes.
-/
import CoCoVerif.Lemmas.RelocSigned
import CoCoVerif.Lemmas.RelocMod
import CoCoVerif.Lemmas.RelocNeg
import CoCoVerif.Lemmas.RelocEqu
import CoCoVerif.Lemmas.RelocParse
import CoCoVerif.Lemmas.RelocList

namespace CoCo.Asm
open CoCo

/-! ### the classes, executable -/

def isNumericV : Value → Bool
  | .numeric _ _ _ _ => true
  | _ => false

theorem isNumericV_eq {v : Value} (h : isNumericV v = true) : ∃ k hh mm nn, v = .numeric k hh mm nn := by
  cases v <;> first | exact ⟨_, _, _, _, rfl⟩ | cases h

/-- the bound of `NumExpr` on the value of the expression in the layout `as` -/
def boundB (D : Nat) (o : Outcome Value) : Bool :=
  match o with
  | .ok (.numeric z (some 4) .extended false) => decide (z + D ≤ 65535)
  | .ok _ => false
  | _ => true

theorem boundB_sound {D : Nat} {o : Outcome Value} (h : boundB D o = true) :
    ∀ v, o = .ok v → ∃ z, v = .numeric z (some 4) .extended false ∧ z + D ≤ 65535 := by
  intro v hv
  subst hv
  unfold boundB at h
  split at h
  · rename_i z heq
    cases heq
    exact ⟨z, rfl, by simpa using h⟩
  · cases h
  · rename_i hne
    exact absurd rfl (hne v)

def labelSideB (l r : Value) (op : Char) : Bool := l.isAddress || (r.isAddress && op == '+')

theorem labelSideB_sound {l r : Value} {op : Char} (h : labelSideB l r op = true) : LabelSide l r op := by
  unfold labelSideB at h
  simp only [Bool.or_eq_true, Bool.and_eq_true, beq_iff_eq] at h
  exact h

def numExprB (D : Nat) (as : List Stmt) (e : Value) : Bool :=
  match e with
  | .expr l r op _ true =>
    isNumericV (if l.isAddress then r else l) && (op == '+' || op == '-') && labelSideB l r op &&
      boundB D (addrOffset as e)
  | _ => false

theorem numExprB_sound {D : Nat} {as : List Stmt} {e : Value} (h : numExprB D as e = true) : NumExpr D as e := by
  unfold numExprB at h
  split at h
  · rename_i l r op m
    simp only [Bool.and_eq_true, Bool.or_eq_true, beq_iff_eq] at h
    obtain ⟨⟨⟨h1, h2⟩, hs⟩, h3⟩ := h
    obtain ⟨k, hh, mm, nn, hk⟩ := isNumericV_eq h1
    exact ⟨l, r, op, m, k, hh, mm, nn, rfl, hk, h2, labelSideB_sound hs, boundB_sound h3⟩
  · cases h

def diffExprB (e : Value) : Bool :=
  match e with
  | .expr l r op _ true => op == '-' && (if l.isAddress then r else l).isAddress
  | _ => false

theorem diffExprB_sound {e : Value} (h : diffExprB e = true) : DiffExpr e := by
  unfold diffExprB at h
  split at h
  · rename_i l r op m
    simp only [Bool.and_eq_true, beq_iff_eq] at h
    obtain ⟨rfl, h2⟩ := h
    exact ⟨l, r, m, rfl, h2⟩
  · cases h

def fieldWideB (s : Stmt) : Bool :=
  fitSkipped s.row ||
  (match s.pkg.opCode.hexLen?, s.pkg.postByte.hexLen? with
   | some a, some b => 2 * s.pkg.size == a + b + 4
   | _, _ => false)

theorem fieldWideB_sound {s : Stmt} (h : fieldWideB s = true) : FieldWide s := by
  unfold fieldWideB at h
  rcases Bool.or_eq_true _ _ |>.mp h with h | h
  · exact .inl h
  · split at h
    · rename_i a b ha hb
      exact .inr ⟨a, b, ha, hb, by simpa using h⟩
    · cases h

def isAddressV : Value → Bool
  | .address _ _ => true
  | _ => false

/-- `ModBound`, executable -/
def modBoundB (D : Nat) (op : Char) (a k : Nat) (nn : Bool) : Bool :=
  (op == '+' && decide ((a : Int) + signedK k nn + D ≤ 65535)) ||
  (op == '-' && decide ((a : Int) - signedK k nn + D ≤ 65535))

theorem modBoundB_sound {D : Nat} {op : Char} {a k : Nat} {nn : Bool} (h : modBoundB D op a k nn = true) :
    ModBound D op a k nn := by
  unfold modBoundB at h
  simp only [Bool.or_eq_true, Bool.and_eq_true, beq_iff_eq, decide_eq_true_eq] at h
  exact h

def modExprB (D : Nat) (as : List Stmt) (e : Value) : Bool :=
  match e with
  | .expr l r op _ true =>
    (match (if l.isAddress then r else l), (if l.isAddress then l.int? else r.int?) with
     | .numeric k _ _ nn, some t =>
       (match addrIntOf as t with
        | some a => labelSideB l r op && modBoundB D op a k nn
        | none => false)
     | _, _ => false)
  | _ => false

theorem modExprB_sound {D : Nat} {as : List Stmt} {e : Value} (he : modExprB D as e = true) : ModExpr D as e := by
  unfold modExprB at he
  split at he
  · rename_i l r op m
    split at he
    · rename_i k hh mm nn t ho hi
      split at he
      · rename_i a ha
        simp only [Bool.and_eq_true] at he
        exact ⟨l, r, op, m, t, a, k, nn, rfl, ⟨⟨hh, mm, ho⟩, labelSideB_sound he.1, hi, ha⟩, modBoundB_sound he.2⟩
      · cases he
    · cases he
  · cases he

def targetMovesB (D : Nat) (as : List Stmt) (s : Stmt) : Bool :=
  !s.isIdx || !s.pkg.additional.isAddrExpr || (s.isIdx && numExprB D as s.pkg.additional)

theorem targetMovesB_sound {D : Nat} {as : List Stmt} {s : Stmt} (h : targetMovesB D as s = true) :
    TargetMoves D as s := by
  unfold targetMovesB at h
  simp only [Bool.or_eq_true, Bool.and_eq_true, Bool.not_eq_true'] at h
  rcases h with (h | h) | ⟨h1, h2⟩
  · exact .inl h
  · exact .inr (.inl h)
  · exact .inr (.inr ⟨h1, numExprB_sound h2⟩)

def unmovedB (D : Nat) (as : List Stmt) (s : Stmt) : Bool :=
  (s.operand.kind == .relative) ||
  (!(s.operand.kind == .relative) && !s.operand.value.isAddrExpr && !s.operand.value.isAddress &&
    (!s.pkg.needsRes ||
      (!s.pkg.choices.isEmpty && (targetMovesB D as s || (s.isIdx && modExprB D as s.pkg.additional))))) ||
  (!(s.operand.kind == .relative) && !s.pkg.needsRes && diffExprB s.operand.value)

theorem unmovedB_sound {D : Nat} {as : List Stmt} {s : Stmt} (h : unmovedB D as s = true) : Unmoved D as s := by
  unfold unmovedB at h
  simp only [Bool.or_eq_true, Bool.and_eq_true, Bool.not_eq_true', beq_iff_eq] at h
  rcases h with (h | ⟨⟨⟨hk, hE⟩, hA⟩, hr⟩) | ⟨⟨hk, hn⟩, hd⟩
  · exact .inl h
  · refine .inr (.inl ⟨by simpa using hk, hE, hA, ?_⟩)
    rcases hr with hr | ⟨hc, hr | ⟨hidx, hr⟩⟩
    · exact .inl hr
    · exact .inr ⟨hc, .inl (targetMovesB_sound hr)⟩
    · exact .inr ⟨hc, .inr ⟨hidx, modExprB_sound hr⟩⟩
  · exact .inr (.inr ⟨by simpa using hk, hn, diffExprB_sound hd⟩)

def movedRefB (D : Nat) (as : List Stmt) (s : Stmt) : Bool :=
  !(s.operand.kind == .relative) && !s.pkg.needsRes &&
  (isAddressV s.operand.value || numExprB D as s.operand.value) && fieldWideB s

theorem movedRefB_sound {D : Nat} {as : List Stmt} {s : Stmt} (h : movedRefB D as s = true) : MovedRef D as s := by
  unfold movedRefB at h
  simp only [Bool.or_eq_true, Bool.and_eq_true, Bool.not_eq_true'] at h
  obtain ⟨⟨⟨hk, hn⟩, hv⟩, hf⟩ := h
  refine ⟨hk, hn, ?_, fieldWideB_sound hf⟩
  rcases hv with hv | hv
  · left
    cases hx : s.operand.value <;> rw [hx] at hv <;> first | exact ⟨_, _, rfl⟩ | cases hv
  · exact .inr (numExprB_sound hv)

/-- (repair batch B3) a label or `label ± k` as constant offset of a pointer register -/
def movedAbsB (D : Nat) (as : List Stmt) (s : Stmt) : Bool :=
  !(s.operand.kind == .relative) && !s.operand.value.isAddrExpr && !s.operand.value.isAddress &&
  s.pkg.needsRes && s.pkg.choices.isEmpty && targetMovesB D as s && fieldWideB s

theorem movedAbsB_sound {D : Nat} {as : List Stmt} {s : Stmt} (h : movedAbsB D as s = true) : MovedAbs D as s := by
  unfold movedAbsB at h
  simp only [Bool.and_eq_true, Bool.not_eq_true'] at h
  obtain ⟨⟨⟨⟨⟨⟨hk, hE⟩, hA⟩, hn⟩, hc⟩, hr⟩, hf⟩ := h
  exact ⟨hk, hE, hA, hn, hc, targetMovesB_sound hr, fieldWideB_sound hf⟩

def movedB (D : Nat) (as : List Stmt) (s : Stmt) : Bool := movedRefB D as s || movedAbsB D as s

theorem movedB_sound {D : Nat} {as : List Stmt} {s : Stmt} (h : movedB D as s = true) : Moved D as s := by
  unfold movedB at h
  rcases Bool.or_eq_true _ _ |>.mp h with h | h
  · exact .inl (movedRefB_sound h)
  · exact .inr (movedAbsB_sound h)

/-- every statement of the list is in one of the two classes -/
def coverB (D : Nat) (as : List Stmt) : Bool := as.all (fun s => unmovedB D as s || movedB D as s)

theorem coverB_sound {D : Nat} {as : List Stmt} (h : coverB D as = true) :
    ∀ (i : Nat) (s : Stmt), as[i]? = some s → Unmoved D as s ∨ Moved D as s := by
  intro i s hs
  have := List.all_eq_true.mp h s (List.mem_of_getElem? hs)
  rcases Bool.or_eq_true _ _ |>.mp this with h1 | h1
  · exact .inl (unmovedB_sound h1)
  · exact .inr (movedB_sound h1)

/-! ### the third class, executable -/

def field4B (s : Stmt) : Bool :=
  !fitSkipped s.row &&
  (match s.pkg.opCode.hexLen?, s.pkg.postByte.hexLen? with
   | some a, some b => 2 * s.pkg.size == a + b + 4
   | _, _ => false)

theorem field4B_sound {s : Stmt} (h : field4B s = true) : Field4 s := by
  unfold field4B at h
  simp only [Bool.and_eq_true, Bool.not_eq_true'] at h
  obtain ⟨h1, h2⟩ := h
  refine ⟨h1, ?_⟩
  split at h2
  · rename_i a b ha hb
    exact ⟨a, b, ha, hb, by simpa using h2⟩
  · cases h2

def movedModRefB (D : Nat) (as : List Stmt) (s : Stmt) : Bool :=
  !(s.operand.kind == .relative) && !s.pkg.needsRes && field4B s && modExprB D as s.operand.value

theorem movedModRefB_sound {D : Nat} {as : List Stmt} {s : Stmt} (h : movedModRefB D as s = true) :
    MovedModRef D as s := by
  unfold movedModRefB at h
  simp only [Bool.and_eq_true, Bool.not_eq_true'] at h
  obtain ⟨⟨⟨hk, hn⟩, hf⟩, he⟩ := h
  exact ⟨hk, hn, field4B_sound hf, modExprB_sound he⟩

def isPyNoneV : Value → Bool
  | .pyNone => true
  | _ => false

theorem isPyNoneV_false {v : Value} (h : isPyNoneV v = false) : v ≠ .pyNone := by
  intro hv; rw [hv] at h; cases h

/-- (repair batch B3) `label ± N` as constant offset of a pointer register -/
def movedModAbsB (D : Nat) (as : List Stmt) (s : Stmt) : Bool :=
  !(s.operand.kind == .relative) && !isPyNoneV s.operand.value && !s.operand.value.isAddrExpr &&
  !s.operand.value.isAddress && s.pkg.needsRes && s.pkg.choices.isEmpty && s.isIdx && field4B s &&
  modExprB D as s.pkg.additional

theorem movedModAbsB_sound {D : Nat} {as : List Stmt} {s : Stmt} (h : movedModAbsB D as s = true) :
    MovedModAbs D as s := by
  unfold movedModAbsB at h
  simp only [Bool.and_eq_true, Bool.not_eq_true'] at h
  obtain ⟨⟨⟨⟨⟨⟨⟨⟨hk, hv⟩, hE⟩, hA⟩, hn⟩, hc⟩, hidx⟩, hf⟩, he⟩ := h
  exact ⟨hk, isPyNoneV_false hv, hE, hA, hn, hc, hidx, field4B_sound hf, modExprB_sound he⟩

def movedModB (D : Nat) (as : List Stmt) (s : Stmt) : Bool := movedModRefB D as s || movedModAbsB D as s

theorem movedModB_sound {D : Nat} {as : List Stmt} {s : Stmt} (h : movedModB D as s = true) : MovedMod D as s := by
  unfold movedModB at h
  rcases Bool.or_eq_true _ _ |>.mp h with h | h
  · exact .inl (movedModRefB_sound h)
  · exact .inr (movedModAbsB_sound h)

/-- every statement of the list is in one of the three classes -/
def coverModB (D : Nat) (as : List Stmt) : Bool :=
  as.all (fun s => unmovedB D as s || movedB D as s || movedModB D as s)

theorem coverModB_sound {D : Nat} {as : List Stmt} (h : coverModB D as = true) :
    ∀ (i : Nat) (s : Stmt), as[i]? = some s → Unmoved D as s ∨ Moved D as s ∨ MovedMod D as s := by
  intro i s hs
  have := List.all_eq_true.mp h s (List.mem_of_getElem? hs)
  simp only [Bool.or_eq_true] at this
  rcases this with (h1 | h1) | h1
  · exact .inl (unmovedB_sound h1)
  · exact .inr (.inl (movedB_sound h1))
  · exact .inr (.inr (movedModB_sound h1))

/-! ### the fourth class (`number - label`), executable -/

def negExprB (as : List Stmt) (e : Value) : Bool :=
  match e with
  | .expr (.numeric k _ _ nn) r op _ true =>
    op == '-' && r.isAddress &&
    (match r.int? with
     | some t => (match addrIntOf as t with
                  | some a => decide (signedK k nn - (a : Int) ≤ 65535)
                  | none => false)
     | none => false)
  | _ => false

def movedNegB (as : List Stmt) (s : Stmt) : Bool :=
  !(s.operand.kind == .relative) && !s.pkg.needsRes && field4B s && negExprB as s.operand.value

theorem movedNegB_sound {as : List Stmt} {s : Stmt} (h : movedNegB as s = true) : MovedNeg as s := by
  unfold movedNegB at h
  simp only [Bool.and_eq_true, Bool.not_eq_true'] at h
  obtain ⟨⟨⟨hk, hn⟩, hf⟩, he⟩ := h
  refine ⟨hk, hn, field4B_sound hf, ?_⟩
  unfold negExprB at he
  split at he
  · rename_i k hh mm nn r op m hv
    simp only [Bool.and_eq_true, beq_iff_eq] at he
    obtain ⟨⟨rfl, hlab⟩, he⟩ := he
    split at he
    · rename_i t hi
      split at he
      · rename_i a ha
        exact ⟨_, r, m, t, a, k, nn, hv, ⟨⟨hh, mm, rfl⟩, hlab, hi, ha⟩, by simpa using he⟩
      · cases he
    · cases he
  · cases he

/-- every statement of the list is in one of the four classes -/
def coverNegB (D : Nat) (as : List Stmt) : Bool :=
  as.all (fun s => unmovedB D as s || movedB D as s || movedModB D as s || movedNegB as s)

theorem coverNegB_sound {D : Nat} {as : List Stmt} (h : coverNegB D as = true) :
    ∀ (i : Nat) (s : Stmt), as[i]? = some s →
      Unmoved D as s ∨ Moved D as s ∨ MovedMod D as s ∨ MovedNeg as s := by
  intro i s hs
  have := List.all_eq_true.mp h s (List.mem_of_getElem? hs)
  simp only [Bool.or_eq_true] at this
  rcases this with ((h1 | h1) | h1) | h1
  · exact .inl (unmovedB_sound h1)
  · exact .inr (.inl (movedB_sound h1))
  · exact .inr (.inr (.inl (movedModB_sound h1)))
  · exact .inr (.inr (.inr (movedNegB_sound h1)))

/-! ### the statement list that enters `fixAll` -/

/-- the stages of `assemble` up to `assignAddrs`, for an INCLUDE-free program -/
def stage4 (lines : List Str) : Option (List Stmt) :=
  match parseLines lines with
  | .ok p =>
    if p.all (fun s => !s.row.isInclude) then
      match buildSymTab p 0 [] with
      | some t =>
        match resolveAll t p with
        | some ss1 =>
          match translateAll ss1 with
          | some ss2 =>
            match pcrLoop (ss2.length + 1) ss2 with
            | .ok ss3 =>
              if !orgOK ss3 false then none else                 -- batch 5: an ORG comes before the first label / byte
              (match assignAddrs ss3 0 with | .ok ss4 => some ss4 | _ => none)
            | _ => none
          | none => none
        | none => none
      | none => none
    else none
  | _ => none

theorem stage4_eq {fs : Files} {lines : List Str} {A : Assembly} (st : Stages fs lines A) {x : List Stmt}
    (h : stage4 lines = some x) : st.ss4 = x := by
  obtain ⟨parsed, ss0, t, ss1, ss2, ss3, ss4, t1, a0, a1, a2, a3, a4, a5, a6, a7, a8, a9, a10⟩ := st
  dsimp only
  unfold stage4 at h
  rw [a0] at h
  dsimp only at h
  split at h
  · rename_i hinc
    have e := expand_noinclude fs fs.length [] parsed hinc
    rw [show fs.length + 1 = includeFuel fs from rfl, a1] at e
    cases e
    rw [a2] at h; dsimp only at h
    rw [a3] at h; dsimp only at h
    rw [a4] at h; dsimp only at h
    rw [a5] at h; dsimp only at h
    rw [a10] at h
    simp only [Bool.not_true, Bool.false_eq_true, if_false] at h
    rw [a6] at h
    simpa using h
  · cases h

/-- (model batch 8) every FCB / FDB list of the program consists of literals (evaluated on `stage4`): every statement that
enters `fixAll` is `ListsConst`, whatever the label table -/
theorem listsConst_of_stage4 {fs : Files} {lines : List Str} {A : Assembly} (st : Stages fs lines A)
    (h : (stage4 lines).map literalListsB = some true) :
    ∀ (i : Nat) (s : Stmt), st.ss4[i]? = some s → ListsConst st.t s := by
  cases h4 : stage4 lines with
  | none => rw [h4] at h; cases h
  | some x =>
    rw [h4] at h
    simp only [Option.map_some, Option.some.injEq] at h
    rw [stage4_eq st h4]
    exact literalListsB_sound h st.t

/-! ### the classes of a symbol table entry (model batch 4: `evalSyms`), executable -/

theorem negExprB_sound {as : List Stmt} {e : Value} (he : negExprB as e = true) : NegExpr as e := by
  unfold negExprB at he
  split at he
  · rename_i k hh mm nn r op m
    simp only [Bool.and_eq_true, beq_iff_eq] at he
    obtain ⟨⟨rfl, hlab⟩, he⟩ := he
    split at he
    · rename_i t hi
      split at he
      · rename_i a ha
        exact ⟨_, r, m, t, a, k, nn, rfl, ⟨⟨hh, mm, rfl⟩, hlab, hi, ha⟩, by simpa using he⟩
      · cases he
    · cases he
  · cases he

/-- `EquConst`, executable -/
def equConstB (t : SymTab) (v : Value) : Bool :=
  !v.isEquExpr || (match v.resolve t with | .ok x => !x.isAddrExpr | .error _ => true)

theorem equConstB_sound {t : SymTab} {v : Value} (h : equConstB t v = true) : EquConst t v := by
  intro hv x hx
  unfold equConstB at h
  rw [hv, hx] at h
  simpa using h

/-- `EquLabel C`, executable, for an executable class `c` -/
def equLabelB (c : Value → Bool) (t : SymTab) (v : Value) : Bool :=
  v.isEquExpr && (match v.resolve t with | .ok x => x.isAddrExpr && c x | .error _ => false)

theorem equLabelB_sound {C : Value → Prop} {c : Value → Bool} (hc : ∀ x, c x = true → C x) {t : SymTab} {v : Value}
    (h : equLabelB c t v = true) : EquLabel C t v := by
  unfold equLabelB at h
  simp only [Bool.and_eq_true] at h
  obtain ⟨hv, h2⟩ := h
  split at h2
  · rename_i x hx
    simp only [Bool.and_eq_true] at h2
    exact ⟨hv, x, hx, h2.1, hc x h2.2⟩
  · cases h2

/-- `EquCovered`, executable -/
def equCoveredB (D : Nat) (as : List Stmt) (t : SymTab) (v : Value) : Bool :=
  v.isAddress || (!v.isAddress && equConstB t v) || equLabelB (numExprB D as) t v || equLabelB (modExprB D as) t v ||
    equLabelB diffExprB t v || equLabelB (negExprB as) t v

theorem equCoveredB_sound {D : Nat} {as : List Stmt} {t : SymTab} {v : Value} (h : equCoveredB D as t v = true) :
    EquCovered D as t v := by
  unfold equCoveredB at h
  simp only [Bool.or_eq_true, Bool.and_eq_true, Bool.not_eq_true'] at h
  rcases h with ((((h | ⟨h1, h2⟩) | h) | h) | h) | h
  · exact .inl h
  · exact .inr (.inl ⟨h1, equConstB_sound h2⟩)
  · exact .inr (.inr (.inl (equLabelB_sound (fun _ => numExprB_sound) h)))
  · exact .inr (.inr (.inr (.inl (equLabelB_sound (fun _ => modExprB_sound) h))))
  · exact .inr (.inr (.inr (.inr (.inl (equLabelB_sound (fun _ => diffExprB_sound) h)))))
  · exact .inr (.inr (.inr (.inr (.inr (equLabelB_sound (fun _ => negExprB_sound) h)))))

/-- every entry of the table is covered -/
def equCoverB (D : Nat) (as : List Stmt) (t : SymTab) : Bool := t.all (fun kv => equCoveredB D as t kv.2)

theorem equCoverB_sound {D : Nat} {as : List Stmt} {t : SymTab} (h : equCoverB D as t = true) :
    ∀ kv ∈ t, EquCovered D as t kv.2 :=
  fun kv hkv => equCoveredB_sound (List.all_eq_true.mp h kv hkv)

/-- no EQU of the table is defined by a label expression, executable -/
def noLabelEquB (t : SymTab) : Bool := t.all (fun kv => equConstB t kv.2)

theorem noLabelEquB_sound {t : SymTab} (h : noLabelEquB t = true) : NoLabelEqu t :=
  fun kv hkv => equConstB_sound (List.all_eq_true.mp h kv hkv)

/-- the symbol table built from the labels, for an INCLUDE-free program -/
def stageT (lines : List Str) : Option SymTab :=
  match parseLines lines with
  | .ok p => if p.all (fun s => !s.row.isInclude) then buildSymTab p 0 [] else none
  | _ => none

theorem stageT_eq {fs : Files} {lines : List Str} {A : Assembly} (st : Stages fs lines A) {x : SymTab}
    (h : stageT lines = some x) : st.t = x := by
  obtain ⟨parsed, ss0, t, ss1, ss2, ss3, ss4, t1, a0, a1, a2, a3, a4, a5, a6, a7, a8, a9, a10⟩ := st
  dsimp only
  unfold stageT at h
  rw [a0] at h
  dsimp only at h
  split at h
  · rename_i hinc
    have e := expand_noinclude fs fs.length [] parsed hinc
    rw [show fs.length + 1 = includeFuel fs from rfl, a1] at e
    cases e
    rw [a2] at h
    simpa using h
  · cases h

end CoCo.Asm
