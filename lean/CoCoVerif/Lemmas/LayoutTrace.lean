/-
Lemmas/LayoutTrace.lean — the history of one statement of an accepted program through the stages of
`assemble`: the parsed statement (a row of the instruction table, an operand out of `createOperand`), the
resolved operand, the translated package, the state after the PCR size loop (untouched when the size was
fixed), after address assignment, after `fixOne` and after `fitWidth`.
Also: which operand kind `createOperand` / `resolveOperand` give for which kind of table row.
-/
import CoCoVerif.Lemmas.LayoutImage
import CoCoVerif.Lemmas.FrontBranch

namespace CoCo.Asm
open CoCo
open CoCo.Gen (InstrRow)

/-! ### parsed statements -/

/-- a statement as the parser builds it: a row of the instruction table and an operand out of
`Operand.create_from_str` for that row -/
def Parsed (s : Stmt) : Prop := s.row ∈ Gen.instructions ∧ ∃ txt, createOperand txt s.row = .ok s.operand

theorem parseLine_row {l : Str} {s : Stmt} (h : parseLine l = .ok (some s)) : s.row ∈ Gen.instructions := by
  unfold parseLine at h
  split at h
  · cases h
  · cases h
  · cases h
  · dsimp only at h
    split at h
    · cases h
    · rename_i row hrow
      have hmem : row ∈ Gen.instructions := List.mem_of_find?_eq_some hrow
      repeat' split at h
      all_goals first
        | (cases h; done)
        | (simp only [Outcome.ok.injEq, Option.some.injEq] at h; subst h; exact hmem)

theorem parseLine_parsed {l : Str} {s : Stmt} (h : parseLine l = .ok (some s)) : Parsed s :=
  ⟨parseLine_row h, parseLine_operand h⟩

/-- every statement that enters the back end was built by the parser -/
theorem expand_parsed {fs : Files} {lines : List Str} {parsed ss0 : List Stmt}
    (hp : parseLines lines = .ok parsed) (he : expand fs (includeFuel fs) [] parsed = .ok ss0) : ∀ s ∈ ss0, Parsed s :=
  expand_forall (P := Parsed) (fun _ _ h => parseLine_parsed h) fs (includeFuel fs) [] parsed ss0
    (parseLines_forall (P := Parsed) (fun _ _ h => parseLine_parsed h) lines parsed hp) he

/-! ### operand kinds -/

/-- the operand kind `createOperand` gives, by the class of the table row -/
theorem createOperand_kind {s : Str} {row : InstrRow} {o : Operand} (h : createOperand s row = .ok o) :
    (row.isPseudo = true → o.kind = .pseudo) ∧
    (row.isPseudo = false → row.isSpecial = true → o.kind = .special) ∧
    (row.isPseudo = false → row.isSpecial = false → (row.isShortBranch || row.isLongBranch) = true →
      o.kind = .relative) ∧
    (row.isPseudo = false → row.isSpecial = false → (row.isShortBranch || row.isLongBranch) = false →
      o.kind = .inherent ∨ o.kind = .extIndirect ∨ o.kind = .indexed ∨ o.kind = .immediate ∨ o.kind = .unknown) := by
  unfold createOperand at h
  split at h
  · rename_i hp
    have hk : o.kind = .pseudo := by
      dsimp only at h
      split at h
      · cases h
      · repeat' split at h
        all_goals first
          | (cases h; done)
          | (cases h; rfl)
          | (obtain ⟨a, _, hf⟩ := map_ok h; subst hf; rfl)
    exact ⟨fun _ => hk, by simp [hp], by simp [hp], by simp [hp]⟩
  · rename_i hp
    have hp : row.isPseudo = false := by simpa using hp
    split at h
    · rename_i hsp
      cases h
      exact ⟨by simp [hp], fun _ _ => rfl, by simp [hsp], by simp [hsp]⟩
    · rename_i hsp
      have hsp : row.isSpecial = false := by simpa using hsp
      split at h
      · rename_i hbr
        obtain ⟨a, _, hf⟩ := map_ok h; subst hf
        exact ⟨by simp [hp], by simp [hsp], fun _ _ _ => rfl, by simp [hbr]⟩
      · rename_i hbr
        refine ⟨by simp [hp], by simp [hsp], fun _ _ hb => absurd hb hbr, fun _ _ _ => ?_⟩
        split at h
        · cases h; exact .inl rfl
        · dsimp only at h
          split at h
          · rename_i heq
            cases h
            repeat' split at heq
            all_goals first
              | (cases heq; done)
              | (cases heq; exact .inr (.inl rfl))
          · repeat' split at h
            all_goals first
              | (cases h; done)
              | (cases h; exact .inr (.inr (.inl rfl)))
              | (cases h; exact .inr (.inr (.inr (.inl rfl))))
              | (cases h; exact .inr (.inr (.inr (.inr rfl))))

/-- `resolve_symbols` keeps the operand kind, except that an operand of unknown kind becomes direct or extended -/
theorem resolveOperand_kind {o o' : Operand} {row t} (h : resolveOperand o row t = .ok o') :
    o'.kind = o.kind ∨ (o.kind = .unknown ∧ (o'.kind = .direct ∨ o'.kind = .extended)) := by
  have h1 : ∀ {x : R Value}, x.map (fun v => { o with left := .val v }) = .ok o' → o'.kind = o.kind := by
    intro x hx; cases x <;> cases hx; rfl
  have h2 : ∀ {x : R Value}, x.map (fun v => { o with value := v }) = .ok o' → o'.kind = o.kind := by
    intro x hx; cases x <;> cases hx; rfl
  have h3 : ∀ {x : R Value} {k}, x.map (fun nv => { o with kind := k, value := nv }) = .ok o' → o'.kind = k := by
    intro x k hx; cases x <;> cases hx; rfl
  unfold resolveOperand at h
  split at h
  · cases h; exact .inl rfl
  · left
    split at h
    · split at h
      · cases h
      · split at h
        · exact h2 h
        · cases h; rfl
    · cases h; rfl
  · left
    split at h
    · split at h
      · exact h1 h
      · cases h; rfl
    · cases h; rfl
  · left
    split at h
    · exact h2 h
    · split at h
      · split at h
        · exact h1 h
        · cases h; rfl
      · cases h
  · split at h
    · cases h
    · split at h
      · cases h; exact .inl rfl
      · rename_i hu
        have hu : o.kind = .unknown := by simpa using hu
        right
        refine ⟨hu, ?_⟩
        split at h
        · cases h; exact .inr rfl
        · split at h
          · cases h
          · split at h
            · exact .inl (h3 h)
            · cases h; exact .inr rfl
          · split at h <;> cases h
            · exact .inl rfl
            · exact .inr rfl
          · cases h; exact .inr rfl

/-! ### the PCR loop never touches a statement whose size is fixed -/

/-- `s'` is `s` when the size of `s` is fixed -/
def FixSame (s s' : Stmt) : Prop := s.fixedSize = true → s' = s

theorem FixSame.refl (s : Stmt) : FixSame s s := fun _ => rfl
theorem FixSame.trans {a b c : Stmt} (h1 : FixSame a b) (h2 : FixSame b c) : FixSame a c := by
  intro hf
  have hb := h1 hf
  subst hb
  exact h2 hf

theorem pcrPass_fixSame (n : Nat) (ss : List Stmt) (i : Nat) (p : Bool) {ss' : List Stmt} {p' : Bool}
    (h : pcrPass n ss i p = .ok (ss', p')) : PW FixSame ss ss' := by
  induction n generalizing ss i p with
  | zero => simp [pcrPass] at h; obtain ⟨rfl, rfl⟩ := h; exact .refl FixSame.refl _
  | succ n ih =>
    unfold pcrPass at h
    split at h
    · simp at h; obtain ⟨rfl, rfl⟩ := h; exact .refl FixSame.refl _
    · rename_i s hs
      split at h
      · exact ih _ _ _ h
      · rename_i hfx
        split at h
        · rename_i s' hd
          exact (PW.set FixSame.refl hs (fun hf => absurd hf hfx)).trans (ih _ _ _ h) (fun _ _ _ => FixSame.trans)
        · cases h
        · cases h
        · cases h

theorem forceFirst_fixSame {ss ss' : List Stmt} (h : forceFirst ss = some ss') : PW FixSame ss ss' := by
  induction ss generalizing ss' with
  | nil => simp [forceFirst] at h; subst h; exact .nil
  | cons s r ih =>
    unfold forceFirst at h
    split at h
    · cases hr : forceFirst r with
      | none => simp [hr] at h
      | some r' => simp [hr] at h; subst h; exact .cons (.refl _) (ih hr)
    · rename_i hfx
      split at h
      · rename_i c0 c1 _
        cases hs : settle s 2 4 c1 with
        | none => simp [hs] at h
        | some s' => simp [hs] at h; subst h; exact .cons (fun hf => absurd hf hfx) (.refl FixSame.refl _)
      · cases h

theorem pcrLoop_fixSame (fuel : Nat) (ss : List Stmt) {ss' : List Stmt} (h : pcrLoop fuel ss = .ok ss') :
    PW FixSame ss ss' := by
  induction fuel generalizing ss with
  | zero =>
    unfold pcrLoop at h
    split at h
    · cases h; exact .refl FixSame.refl _
    · cases h
  | succ fuel ih =>
    unfold pcrLoop at h
    split at h
    · cases h; exact .refl FixSame.refl _
    · split at h
      · rename_i ss1 hp
        exact (pcrPass_fixSame _ _ _ _ hp).trans (ih _ h) (fun _ _ _ => FixSame.trans)
      · rename_i ss1 hp
        split at h
        · rename_i ss2 hf
          exact ((pcrPass_fixSame _ _ _ _ hp).trans (forceFirst_fixSame hf) (fun _ _ _ => FixSame.trans)).trans (ih _ h)
            (fun _ _ _ => FixSame.trans)
        · cases h
      · cases h
      · cases h
      · cases h

/-! ### the history of a statement -/

/-- the translated statement built from the parsed statement `s0`, the resolved operand `o` and the package `p` -/
def mkTranslated (s0 : Stmt) (o : Operand) (p : Pkg) : Stmt :=
  { s0 with operand := o, pkg := p, fixedSize := p.choices.isEmpty }

/-- the history of the final statement `s` of index `i` -/
structure Trace {fs : Files} {lines : List Str} {a : Assembly} (st : Stages fs lines a) (i : Nat) (s : Stmt) where
  s0 : Stmt
  o : Operand
  p : Pkg
  s3 : Stmt
  s4 : Stmt
  sf : Stmt
  /-- (batch 8) the statement after `fitWidth`, before the FCB / FDB lists are evaluated -/
  sw : Stmt
  /-- (batch 8) the statements after `fixAll`, before the FCB / FDB lists are evaluated -/
  x5 : List Stmt
  h0 : st.ss0[i]? = some s0
  parsed : Parsed s0
  hres : resolveOperand s0.operand s0.row st.t = .ok o
  htr : translateOperand o s0.row = .ok p
  h2 : st.ss2[i]? = some (mkTranslated s0 o p)
  h3 : st.ss3[i]? = some s3
  pcr : PcrRel (mkTranslated s0 o p) s3
  fixed : (mkTranslated s0 o p).fixedSize = true → s3 = mkTranslated s0 o p
  h4 : st.ss4[i]? = some s4
  addr : AddrRel s3 s4
  hfix : fixOne st.ss4 i s4 = .ok sf
  /-- STATEMENT CHANGED in batch 8: `fitWidth` gives `sw`, the final statement is `evalList1` of it (`hlist`) -/
  hfit : fitWidth sf = .ok sw
  hx5 : fixAll st.ss4 0 st.ss4 = .ok x5
  hl5 : evalLists st.t x5 x5 = .ok a.stmts
  hw5 : x5[i]? = some sw
  hlist : evalList1 st.t x5 sw = .ok s

theorem Stages.trace {fs : Files} {lines : List Str} {a : Assembly} (st : Stages fs lines a)
    {i : Nat} {s : Stmt} (hs : a.stmts[i]? = some s) : Nonempty (Trace st i s) := by
  obtain ⟨x5, hx5, hl5⟩ := st.fix_split
  obtain ⟨sw, hsw, hlist⟩ := evalLists_get hl5 hs
  obtain ⟨s4, hs4, _⟩ := (fixAll_pw hx5).get' hsw
  obtain ⟨sf, s', hs', hfix, hfit⟩ := (fixAll_ok2 hx5).2 i s4 hs4
  rw [hsw] at hs'; cases hs'
  rw [Nat.zero_add] at hfix
  obtain ⟨s3, hs3, haddr⟩ := (assignAddrs_pw st.haddr).get' hs4
  obtain ⟨s2, hs2, hpcr⟩ := (pcrLoop_pw _ _ st.hpcr).get' hs3
  have hfx := (pcrLoop_fixSame _ _ st.hpcr).2 i s2 s3 hs2 hs3
  obtain ⟨s1, hs1, p, htr, rfl⟩ := (translateAll_pw st.htranslate).get' hs2
  obtain ⟨s0, hs0, o, hres, rfl⟩ := (resolveAll_pw st.hresolve).get' hs1
  exact ⟨⟨s0, o, p, s3, s4, sf, sw, x5, hs0, expand_parsed st.hparse st.hexpand s0 (List.mem_of_getElem? hs0), hres, htr,
    hs2, hs3, hpcr, hfx, hs4, haddr, hfix, hfit, hx5, hl5, hsw, hlist⟩⟩

namespace Trace
variable {fs : Files} {lines : List Str} {a : Assembly} {st : Stages fs lines a} {i : Nat} {s : Stmt}

theorem row_eq (tr : Trace st i s) : s.row = tr.s0.row := by
  obtain ⟨_, _, _, _, _, h3⟩ := tr.pcr
  obtain ⟨_, h4⟩ := tr.addr
  obtain ⟨_, hf⟩ := fixOne_same tr.hfix
  obtain ⟨_, hw⟩ := fitWidth_same tr.hfit
  obtain ⟨_, hl⟩ := evalList1_same tr.hlist
  have e0 := congrArg Stmt.row hl
  have e1 := congrArg Stmt.row hw
  have e2 := congrArg Stmt.row hf
  have e3 := congrArg Stmt.row h4
  have e4 := congrArg Stmt.row h3
  exact e0.trans (e1.trans (e2.trans (e3.trans e4)))

theorem operand_eq (tr : Trace st i s) : s.operand = tr.o := by
  obtain ⟨_, _, _, _, _, h3⟩ := tr.pcr
  obtain ⟨_, h4⟩ := tr.addr
  obtain ⟨_, hf⟩ := fixOne_same tr.hfix
  obtain ⟨_, hw⟩ := fitWidth_same tr.hfit
  obtain ⟨_, hl⟩ := evalList1_same tr.hlist
  have e0 := congrArg Stmt.operand hl
  have e1 := congrArg Stmt.operand hw
  have e2 := congrArg Stmt.operand hf
  have e3 := congrArg Stmt.operand h4
  have e4 := congrArg Stmt.operand h3
  exact e0.trans (e1.trans (e2.trans (e3.trans e4)))

theorem row_mem (tr : Trace st i s) : s.row ∈ Gen.instructions := by
  rw [tr.row_eq]; exact tr.parsed.1

end Trace

theorem Stages.row_mem {fs : Files} {lines : List Str} {a : Assembly} (st : Stages fs lines a)
    {i : Nat} {s : Stmt} (hs : a.stmts[i]? = some s) : s.row ∈ Gen.instructions := by
  obtain ⟨tr⟩ := st.trace hs
  exact tr.row_mem

end CoCo.Asm
