/-
Lemmas/SizeValue.lean — the shapes of the values the parser builds (`PV`) and of the values `resolve_symbols`
leaves in an operand (`Fieldable`: a number, a label, a label expression), for property C02 "bytes = size".
-/
import CoCoVerif.Lemmas.SizeEmit

namespace CoCo.Asm
open CoCo
open CoCo.Gen (InstrRow)

/-- the size hints the parser gives a number -/
def HintOK (h : Option Nat) : Prop := h = none ∨ h = some 2 ∨ h = some 4

/-- a value as `Value.create_from_str` / `PseudoOperand.__init__` build it -/
def PV : Value → Prop
  | .none => True
  | .numeric _ h _ _ => HintOK h
  | .symbol _ _ => True
  | .expr _ _ _ _ ae => ae = false
  | .leftRight l _ _ => ',' ∉ l
  | .str cs => ∀ c ∈ cs, c.toNat < 256          -- `StringValue` raises on wider characters (batch B2, item 6)
  | .multiByte hs => ∀ h ∈ hs, h.length = 2
  | .multiWord hs => ∀ h ∈ hs, h.length = 4
  | .pyNone => False
  | .address _ _ => False

theorem initHint_ok {h : Option Nat} (hh : HintOK h) (m : Mode) : HintOK (initHint h m) := by
  unfold initHint
  split
  · exact .inr (.inr rfl)
  · exact hh

theorem postInit_ok {h : Option Nat} (hh : HintOK h) (i : Nat) (m : Mode) : HintOK (postInit i h m).1 := by
  unfold postInit
  dsimp only
  split
  · split
    · exact .inr (.inl rfl)
    · exact hh
  · exact hh

theorem numericOfInt_pv {v : Int} {h : Option Nat} {m : Mode} {x : Value} (hh : HintOK h)
    (hx : numericOfInt v h m = .ok x) : PV x := by
  unfold numericOfInt at hx
  split at hx
  · cases hx
  · simp only [Except.ok.injEq] at hx
    subst hx
    exact postInit_ok (initHint_ok hh m) _ _

theorem numericOfInt_isNumeric {v : Int} {h : Option Nat} {m : Mode} {x : Value}
    (hx : numericOfInt v h m = .ok x) : x.isNumeric = true := by
  unfold numericOfInt at hx
  split at hx
  · cases hx
  · simp only [Except.ok.injEq] at hx
    subst hx; rfl

theorem numericOfStr_pv {s : Str} {h : Option Nat} {m : Mode} {x : Value} (hh : HintOK h)
    (hx : numericOfStr s h m = .ok x) : PV x ∧ x.isNumeric = true := by
  have h1 := initHint_ok hh m
  unfold numericOfStr at hx
  dsimp only at hx
  split at hx
  · rename_i heq
    simp only [Except.ok.injEq] at hx
    subst hx
    split at heq
    · split at heq
      · simp only [Option.some.injEq] at heq; subst heq
        refine ⟨?_, rfl⟩
        show HintOK _
        split
        · exact .inr (.inl rfl)
        · exact h1
      · cases heq
    · cases heq
  · repeat' split at hx
    all_goals first
      | (cases hx; done)
      | (cases hx; exact ⟨.inr (.inl rfl), rfl⟩)
      | (cases hx; exact ⟨h1, rfl⟩)
      | (cases hx; exact ⟨postInit_ok h1 _ _, rfl⟩)
      | (cases hx
         refine ⟨?_, rfl⟩
         show HintOK _
         rename_i hp
         simp only [Prod.mk.injEq] at hp
         rw [← hp.1]
         split
         · exact .inr (.inl rfl)
         · exact h1)

theorem numericOfStr_isNumeric {s : Str} {h : Option Nat} {m : Mode} {x : Value}
    (hx : numericOfStr s h m = .ok x) : x.isNumeric = true := by
  unfold numericOfStr at hx
  dsimp only at hx
  split at hx
  · rename_i heq
    simp only [Except.ok.injEq] at hx
    subst hx
    split at heq
    · split at heq
      · simp only [Option.some.injEq] at heq; subst heq; rfl
      · cases heq
    · cases heq
  · repeat' split at hx
    all_goals first | (cases hx; done) | (cases hx; rfl)

/-! ### `str.split` -/

theorem splitOn_cons (c ch : Char) (s : Str) :
    splitOn c (ch :: s) = if ch == c then [] :: splitOn c s else
      match splitOn c s with | [] => [[ch]] | a :: t => (ch :: a) :: t := by
  rfl

theorem splitOn_no_sep (c : Char) : ∀ (s : Str), ∀ x ∈ splitOn c s, c ∉ x := by
  intro s
  induction s with
  | nil => intro x hx; simp [splitOn] at hx; subst hx; simp
  | cons ch r ih =>
    intro x hx
    rw [splitOn_cons] at hx
    split at hx
    · rcases List.mem_cons.mp hx with rfl | hx
      · simp
      · exact ih x hx
    · rename_i hne
      have hne : ch ≠ c := by simpa using hne
      cases hr : splitOn c r with
      | nil => rw [hr] at hx; simp at hx; subst hx; simp [hne.symm]
      | cons a t =>
        rw [hr] at hx
        rcases List.mem_cons.mp hx with rfl | hx
        · have := ih a (by rw [hr]; simp)
          simp [hne.symm, this]
        · exact ih x (by rw [hr]; simp [hx])

/-! ### `Value.create_from_str` -/

/-- `create_from_str` after the string test and the mode prefix: expression, left/right pair, number, symbol -/
def createBody (fuel : Nat) (is16 : Bool) (mode : Mode) (value : Str) : R Value :=
  let sizeHint : Option Nat := if is16 then some 4 else Option.none
  let exprTry : Option Value :=
    match splitExpr value with
    | Option.none => Option.none
    | some (l, op, r) =>
      match create fuel l false false false, create fuel r false false false with
      | .ok lv, .ok rv =>
        let m := if mode == .none && (lv.isExtendedLike || rv.isExtendedLike) then Mode.extended else mode
        some (.expr lv rv op m false)
      | _, _ => Option.none
  match exprTry with
  | some v => .ok v
  | Option.none =>
    let lrTry : Option Value :=
      if value.contains ',' then
        match splitOn ',' value with
        | [l, r] => some (.leftRight l r mode)
        | _ => Option.none
      else Option.none
    match lrTry with
    | some v => .ok v
    | Option.none =>
      match numericOfStr value sizeHint mode with
      | .ok v => .ok v
      | .error _ =>
        if value != [] && value.all isSym then .ok (.symbol value mode)
        else .error .valueType

/-- the mode prefix `<`, `>`, `#` -/
def stripPrefix (c : Char) (rest : Str) (defExt : Bool) : Mode × Str :=
  if c == '<' then (Mode.explDirect, rest) else if c == '>' then (Mode.explExtended, rest)
  else if c == '#' then (Mode.immediate, rest) else (if defExt then Mode.extended else Mode.none, c :: rest)

theorem stripPrefix_snd (c : Char) (rest : Str) (d : Bool) :
    (stripPrefix c rest d).2 = rest ∨ (stripPrefix c rest d).2 = c :: rest := by
  unfold stripPrefix
  repeat' split
  all_goals simp

theorem create_succ (fuel : Nat) (c : Char) (rest : Str) (isStr is16 defExt : Bool) :
    create (fuel + 1) (c :: rest) isStr is16 defExt =
      if isStr && (c :: rest).getLast? == some c && (((c :: rest).drop 1).dropLast).all (fun ch => ch.toNat ≤ 255)
      then .ok (.str (((c :: rest).drop 1).dropLast))
      else createBody fuel is16 (stripPrefix c rest defExt).1 (stripPrefix c rest defExt).2 := by
  rw [create]
  dsimp only
  by_cases hs : (isStr && (c :: rest).getLast? == some c &&
      (((c :: rest).drop 1).dropLast).all (fun ch => ch.toNat ≤ 255)) = true
  · rw [if_pos hs, if_pos hs]
  · rw [if_neg hs, if_neg hs]
    rfl

theorem createBody_pv {fuel : Nat} {is16 : Bool} {mode : Mode} {value : Str} {v : Value}
    (h : createBody fuel is16 mode value = .ok v) : PV v ∧ ∀ x, v ≠ .str x := by
  unfold createBody at h
  dsimp only at h
  split at h
  · rename_i heq
    simp only [Except.ok.injEq] at h; subst h
    repeat' split at heq
    all_goals first | (cases heq; done) | (cases heq; exact ⟨rfl, by simp⟩)
  · split at h
    · rename_i heq
      simp only [Except.ok.injEq] at h; subst h
      split at heq
      · split at heq
        · rename_i hsp
          cases heq
          exact ⟨splitOn_no_sep ',' _ _ (by rw [hsp]; simp), by simp⟩
        · cases heq
      · cases heq
    · repeat' split at h
      all_goals first
        | (cases h; done)
        | (cases h; exact ⟨trivial, by simp⟩)
        | (simp only [Except.ok.injEq] at h; subst h
           have hn := numericOfStr_isNumeric ‹_›
           refine ⟨(numericOfStr_pv ?_ ‹_›).1, ?_⟩
           · cases is16
             · exact .inl rfl
             · exact .inr (.inr rfl)
           · intro x he; rw [he] at hn; cases hn)

/-- the classes of values `create_from_str` builds (besides strings) -/
def Created (v : Value) : Prop :=
  v.isNumeric = true ∨ v.isSymbol = true ∨ v.isExpression = true ∨ v.isLeftRight = true

theorem createBody_created {fuel : Nat} {is16 : Bool} {mode : Mode} {value : Str} {v : Value}
    (h : createBody fuel is16 mode value = .ok v) : Created v := by
  unfold createBody at h
  dsimp only at h
  split at h
  · rename_i heq
    simp only [Except.ok.injEq] at h; subst h
    repeat' split at heq
    all_goals first | (cases heq; done) | (cases heq; exact .inr (.inr (.inl rfl)))
  · split at h
    · rename_i heq
      simp only [Except.ok.injEq] at h; subst h
      repeat' split at heq
      all_goals first | (cases heq; done) | (cases heq; exact .inr (.inr (.inr rfl)))
    · repeat' split at h
      all_goals first
        | (cases h; done)
        | (cases h; exact .inr (.inl rfl))
        | (simp only [Except.ok.injEq] at h; subst h; exact .inl (numericOfStr_isNumeric ‹_›))

theorem create_created {fuel : Nat} {s : Str} {a b c : Bool} {v : Value} (h : create fuel s a b c = .ok v) :
    Created v ∨ ∃ x, v = .str x := by
  cases fuel with
  | zero => simp [create] at h
  | succ n =>
    cases s with
    | nil => simp [create] at h
    | cons ch rest =>
      rw [create_succ] at h
      split at h
      · cases h; exact .inr ⟨_, rfl⟩
      · exact .inl (createBody_created h)

theorem create_pv {fuel : Nat} {s : Str} {a b c : Bool} {v : Value} (h : create fuel s a b c = .ok v) : PV v := by
  cases fuel with
  | zero => simp [create] at h
  | succ n =>
    cases s with
    | nil => simp [create] at h
    | cons ch rest =>
      rw [create_succ] at h
      split at h
      · rename_i hc
        cases h
        simp only [Bool.and_eq_true, List.all_eq_true, decide_eq_true_eq] at hc
        intro x hx
        have := hc.2 x hx
        omega
      · exact (createBody_pv h).1

theorem createV_pv {s : Str} {a b c : Bool} {v : Value} (h : createV s a b c = .ok v) : PV v := create_pv h

/-- without the string flag no string value comes out -/
theorem create_nostr {fuel : Nat} {s : Str} {b c : Bool} {v : Value} (h : create fuel s false b c = .ok v) :
    ∀ x, v ≠ .str x := by
  cases fuel with
  | zero => simp [create] at h
  | succ n =>
    cases s with
    | nil => simp [create] at h
    | cons ch rest =>
      rw [create_succ] at h
      rw [if_neg (by simp)] at h
      exact (createBody_pv h).2

/-- a text without a comma does not give a left/right pair -/
theorem createBody_noLR {fuel : Nat} {is16 : Bool} {mode : Mode} {value : Str} {v : Value}
    (h : createBody fuel is16 mode value = .ok v) (hc : ',' ∉ value) : v.isLeftRight = false := by
  unfold createBody at h
  dsimp only at h
  split at h
  · rename_i heq
    simp only [Except.ok.injEq] at h; subst h
    repeat' split at heq
    all_goals first | (cases heq; done) | (cases heq; rfl)
  · rw [if_neg (by intro hcont; exact hc (List.contains_iff_mem.mp hcont))] at h
    dsimp only at h
    repeat' split at h
    all_goals first
      | (cases h; done)
      | (cases h; rfl)
      | (simp only [Except.ok.injEq] at h; subst h
         have := numericOfStr_isNumeric ‹_›
         rename_i w _
         cases w <;> first | rfl | cases this)

theorem create_noLR {fuel : Nat} {s : Str} {a b c : Bool} {v : Value}
    (h : create fuel s a b c = .ok v) (hc : ',' ∉ s) : v.isLeftRight = false := by
  cases fuel with
  | zero => simp [create] at h
  | succ n =>
    cases s with
    | nil => simp [create] at h
    | cons ch rest =>
      rw [create_succ] at h
      split at h
      · cases h; rfl
      · refine createBody_noLR h ?_
        rcases stripPrefix_snd ch rest c with e | e <;> rw [e]
        · intro hm; exact hc (List.mem_cons_of_mem _ hm)
        · exact hc

/-! ### values after `resolve_symbols` -/

/-- a number, a label, or a label expression: what `fix_addresses` turns into a number -/
def Fieldable (v : Value) : Prop := v.isNumeric = true ∨ v.isAddress = true ∨ v.isAddrExpr = true

/-- a parsed value that `resolve` works on: a number, a symbol, an expression -/
def Plain (v : Value) : Prop := v.isNumeric = true ∨ v.isSymbol = true ∨ v.isExpression = true

theorem symPost_fieldable {s r : Value} (h : symPost s = .ok r) : r.isNumeric = true ∨ r.isAddress = true := by
  unfold symPost at h
  split at h
  · split at h
    · cases h; exact .inr rfl
    · cases h
  · split at h
    · split at h
      · exact .inl (numericOfInt_isNumeric h)
      · cases h
    · cases h

theorem resolve_symbol_fieldable {t : SymTab} {name : Str} {m : Mode} {r : Value}
    (h : (Value.symbol name m).resolve t = .ok r) : r.isNumeric = true ∨ r.isAddress = true := by
  rw [resolve_eq_step] at h
  simp only [resolveStep] at h
  split at h
  · cases h
  · exact symPost_fieldable h

theorem resolve_expr_fieldable {t : SymTab} {l r : Value} {op : Char} {m : Mode} {ae : Bool} {x : Value}
    (h : (Value.expr l r op m ae).resolve t = .ok x) : x.isNumeric = true ∨ x.isAddrExpr = true := by
  rw [resolve_expr_eq] at h
  split at h
  · rename_i l' r' _ _
    unfold resolveExprCore at h
    dsimp only at h
    repeat' split at h
    all_goals first
      | (cases h; done)
      | (cases h; exact .inr rfl)
      | (simp only [Except.ok.injEq] at h; subst h; exact .inl (numericOfStr_isNumeric ‹_›))
  · cases h

theorem resolve_plain {t : SymTab} {v r : Value} (hv : Plain v) (h : v.resolve t = .ok r) : Fieldable r := by
  cases v with
  | numeric i hh m n => cases h; exact .inl rfl
  | symbol name m =>
    rcases resolve_symbol_fieldable h with h | h
    · exact .inl h
    · exact .inr (.inl h)
  | expr l r' op m ae =>
    rcases resolve_expr_fieldable h with h | h
    · exact .inl h
    · exact .inr (.inr h)
  | _ => rcases hv with hv | hv | hv <;> cases hv

theorem Fieldable.resolve {t : SymTab} {v r : Value} (hv : Fieldable v) (h : v.resolve t = .ok r) : Fieldable r := by
  cases v with
  | numeric i hh m n => cases h; exact .inl rfl
  | address i m => cases h; exact .inr (.inl rfl)
  | expr l r' op m ae =>
    rcases resolve_expr_fieldable h with h | h
    · exact .inl h
    · exact .inr (.inr h)
  | _ => rcases hv with hv | hv | hv <;> cases hv

end CoCo.Asm
