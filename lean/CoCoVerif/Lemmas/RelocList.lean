/-
Lemmas/RelocList.lean — relocation (C18-R1), part 11 (model batch 8): the pass `evalLists` over the FCB / FDB lists.

A list element that is a literal keeps its digits; a symbol or an expression is evaluated on the label table `t` and —
when it resolves to a label or a label expression — on the final addresses.  `ElemConst t x`: the element `x` does NOT
resolve to a label or a label expression (it is an EQU constant, an expression of constants, or it is rejected); then
`evalElem ss t w x` does not depend on the layout `ss`.  `ListsConst t s`: every evaluated element of the list statement
`s` is of that kind.  Under `ListsConst` the pass gives the same digits in a program and in the program moved by `D`
(`evalLists_outRel`, `fixAllL_outRel`).  A list with a label element (`FDB L1,L2`) is in no class: no claim.
-/
import CoCoVerif.Lemmas.RelocAll
import CoCoVerif.Lemmas.EvalLists
import CoCoVerif.Lemmas.LayoutBranch

namespace CoCo.Asm
open CoCo

/-- the list element `x` does not resolve to a label or a label expression -/
def ElemConst (t : SymTab) (x : Str) : Prop :=
  ∀ v r, create 4 x false false true = .ok v → v.resolve t = .ok r → r.isAddress = false ∧ r.isAddrExpr = false

/-- every evaluated (pending) element of the FCB / FDB list statement `s` is `ElemConst`; says nothing about a statement
whose operand field is not a list -/
def ListsConst (t : SymTab) (s : Stmt) : Prop :=
  (∀ hs, s.pkg.additional = .multiByte hs → ∀ x ∈ listElems s.operand.text, pendingAt 2 x = true → ElemConst t x) ∧
  (∀ hs, s.pkg.additional = .multiWord hs → ∀ x ∈ listElems s.operand.text, pendingAt 4 x = true → ElemConst t x)

theorem elemNum_const {ss : List Stmt} {r : Value} (h1 : r.isAddress = false) (h2 : r.isAddrExpr = false) :
    elemNum ss r = .ok r := by
  unfold elemNum
  simp [h1, h2]

/-- an element that does not resolve to a label or a label expression has the same digits in every layout -/
theorem evalElem_reloc_const {t : SymTab} {x : Str} (hx : ElemConst t x) (ss ss' : List Stmt) (w : Nat) :
    evalElem ss' t w x = evalElem ss t w x := by
  rw [evalElem_eq, evalElem_eq]
  cases hv : create 4 x false false true with
  | error e => rfl
  | ok v =>
    dsimp only
    cases hr : v.resolve t with
    | error e => rfl
    | ok r =>
      dsimp only
      obtain ⟨h1, h2⟩ := hx v r hv hr
      rw [elemNum_const h1 h2, elemNum_const h1 h2]

theorem evalElems_reloc_const {t : SymTab} (ss ss' : List Stmt) (w : Nat) : ∀ (xs hs : List Str),
    (∀ x ∈ xs, pendingAt w x = true → ElemConst t x) → evalElems ss' t w xs hs = evalElems ss t w xs hs := by
  intro xs
  induction xs with
  | nil => intro hs _; rw [evalElems_nil_left, evalElems_nil_left]
  | cons x xs ih =>
    intro hs hc
    cases hs with
    | nil => rw [evalElems_nil_right, evalElems_nil_right]
    | cons h hs =>
      rw [evalElems_cons, evalElems_cons, ih hs (fun y hy => hc y (by simp [hy]))]
      have : evalElem1 ss' t w x h = evalElem1 ss t w x h := by
        unfold evalElem1
        cases hp : pendingAt w x with
        | false => rfl
        | true => simp only [if_true]; exact evalElem_reloc_const (hc x (by simp) hp) ss ss' w
      rw [this]

/-- Bool version of "the operand field is a list" -/
def Value.isList (v : Value) : Bool := v.isMultiByte || v.isMultiWord

theorem Value.isList_false {v : Value} (h : v.isList = false) :
    (∀ hs, v ≠ .multiByte hs) ∧ (∀ hs, v ≠ .multiWord hs) := by
  constructor <;> intro hs e <;> rw [e] at h <;> cases h

theorem Value.isList_of_numeric {v : Value} (h : v.isNumeric = true) : v.isList = false := by
  cases v <;> first | rfl | cases h

/-- what the relations between the statements of a program and of the moved program have in common, as far as the list
pass is concerned: same operand; a list field is the same on both sides; a non-list field stays a non-list field; and the
relation survives writing the same value into both fields -/
structure ListStable (R : Stmt → Stmt → Prop) : Prop where
  operand : ∀ {x x' : Stmt}, R x x' → x'.operand = x.operand
  list : ∀ {x x' : Stmt}, R x x' → x.pkg.additional.isList = true → x'.pkg.additional = x.pkg.additional
  nonlist : ∀ {x x' : Stmt}, R x x' → x.pkg.additional.isList = false → x'.pkg.additional.isList = false
  set : ∀ {x x' : Stmt} (v : Value), R x x' → x'.pkg.additional = x.pkg.additional →
    R { x with pkg := { x.pkg with additional := v } } { x' with pkg := { x'.pkg with additional := v } }

section
variable {R : Stmt → Stmt → Prop}

/-- one statement through the list pass, original and moved program -/
theorem evalList1_outRel (hR : ListStable R) (t : SymTab) (fs fs' : List Stmt) {x x' : Stmt} (hx : R x x')
    (hc : ListsConst t x) : OutRel R (evalList1 t fs x) (evalList1 t fs' x') := by
  cases hl : x.pkg.additional.isList with
  | false =>
    obtain ⟨a1, a2⟩ := Value.isList_false hl
    obtain ⟨b1, b2⟩ := Value.isList_false (hR.nonlist hx hl)
    rw [evalList1_keep t fs a1 a2, evalList1_keep t fs' b1 b2]
    exact .ok hx
  | true =>
    have he := hR.list hx hl
    have ho := hR.operand hx
    cases ha : x.pkg.additional with
    | multiByte hs =>
      have ha' : x'.pkg.additional = .multiByte hs := by rw [he, ha]
      have eo : listElems x'.operand.text = listElems x.operand.text := by rw [ho]
      unfold evalList1
      rw [ha, ha']
      dsimp only
      rw [eo, evalElems_reloc_const fs fs' 2 _ hs (hc.1 hs ha)]
      cases evalElems fs t 2 (listElems x.operand.text) hs with
      | ok hs' => exact .ok (hR.set _ hx he)
      | diag => exact .diag
      | internal => exact .internal
      | diverged => exact .diverged
    | multiWord hs =>
      have ha' : x'.pkg.additional = .multiWord hs := by rw [he, ha]
      have eo : listElems x'.operand.text = listElems x.operand.text := by rw [ho]
      unfold evalList1
      rw [ha, ha']
      dsimp only
      rw [eo, evalElems_reloc_const fs fs' 4 _ hs (hc.2 hs ha)]
      cases evalElems fs t 4 (listElems x.operand.text) hs with
      | ok hs' => exact .ok (hR.set _ hx he)
      | diag => exact .diag
      | internal => exact .internal
      | diverged => exact .diverged
    | _ => rw [ha] at hl; cases hl

/-- the list pass, original and moved program: same outcome kind, results related statement by statement -/
theorem evalLists_outRel (hR : ListStable R) (t : SymTab) (fs fs' : List Stmt) : ∀ (gs gs' : List Stmt),
    (∀ x ∈ gs, ListsConst t x) → PW R gs gs' → OutRel (PW R) (evalLists t fs gs) (evalLists t fs' gs') := by
  intro gs
  induction gs with
  | nil =>
    intro gs' _ h
    rw [h.nil_left, evalLists_nil, evalLists_nil]
    exact .ok .nil
  | cons x rest ih =>
    intro gs' hc h
    obtain ⟨x', rest', rfl, hx, hr⟩ := h.cons_left
    have h0 := evalList1_outRel hR t fs fs' hx (hc x (by simp))
    have h1 := ih rest' (fun y hy => hc y (by simp [hy])) hr
    rw [evalLists_cons, evalLists_cons]
    generalize evalList1 t fs x = o1 at h0 ⊢
    generalize evalList1 t fs' x' = o1' at h0 ⊢
    generalize evalLists t fs rest = o2 at h1 ⊢
    generalize evalLists t fs' rest' = o2' at h1 ⊢
    cases h0 with
    | ok r0 =>
      dsimp only
      cases h1 with
      | ok rr => exact .ok (.cons r0 rr)
      | diag => exact .diag
      | internal => exact .internal
      | diverged => exact .diverged
    | diag => exact .diag
    | internal => exact .internal
    | diverged => exact .diverged

/-- `fixAll` and then the list pass, original and moved program -/
theorem fixAllL_outRel (hR : ListStable R) (t : SymTab) {as as' : List Stmt}
    (h : OutRel (PW R) (fixAll as 0 as) (fixAll as' 0 as'))
    (hc : ∀ fs, fixAll as 0 as = .ok fs → ∀ x ∈ fs, ListsConst t x) :
    OutRel (PW R) (fixAllL t as) (fixAllL t as') := by
  unfold fixAllL
  generalize ha : fixAll as 0 as = o at h ⊢
  generalize fixAll as' 0 as' = o' at h ⊢
  cases h with
  | ok hr =>
    rename_i fs fs'
    dsimp only
    exact evalLists_outRel hR t fs fs' fs fs' (hc fs ha) hr
  | diag => exact .diag
  | internal => exact .internal
  | diverged => exact .diverged

end

/-! ### what `fix_addresses` does to the operand field (copies of `addrCombine_numeric`, `fixOne_field` of Lemmas/SizeFix.lean
under other names, so that this file does not depend on the Size chain) -/

namespace RL

theorem addrCombine_numeric {op : Char} {a add : Int} {v : Value} (h : addrCombine op a add = .ok v) :
    v.isNumeric = true := by
  unfold addrCombine at h
  dsimp only at h
  repeat' split at h
  all_goals first
    | (cases h; done)
    | (cases h; exact EL.numericOfInt_isNumeric (by assumption))

/-- `fixOne` stores a number, or leaves the field alone — the latter only for a statement that is not a branch, needs
no resolution and whose operand value is neither a label nor a label expression -/
theorem fixOne_field {ss : List Stmt} {i : Nat} {s sf : Stmt}
    (hss : ∀ j v, addrOf ss j = some v → v.isNumeric = true) (h : fixOne ss i s = .ok sf) :
    sf.pkg.additional.isNumeric = true ∨
      (sf = s ∧ s.pkg.needsRes = false ∧ s.operand.value.isAddress = false ∧ s.operand.value.isAddrExpr = false) := by
  by_cases hk : (s.operand.kind == .relative) = true
  · left
    have hk' : s.operand.kind = .relative := by simpa using hk
    cases hb : s.pkg.additional.int? with
    | none =>
      unfold fixOne at h
      rw [if_pos hk, hb] at h
      cases h
    | some b =>
      rw [fixOne_relative hk' hb] at h
      split at h
      · split at h
        · cases h
        · split at h
          · cases h; exact EL.numericOfInt_isNumeric (by assumption)
          · cases h
      · split at h
        · cases h
        · split at h
          · cases h; exact EL.numericOfInt_isNumeric (by assumption)
          · cases h
  · have hk : (s.operand.kind == .relative) = false := by simpa using hk
    by_cases hv : s.operand.value = .pyNone
    · unfold fixOne at h
      simp only [hk, Bool.false_eq_true, if_false, hv] at h
      cases h
    · rw [fixOne_nonrel ss i s hk hv] at h
      cases h1 : fixStep1 ss s with
      | ok s1 =>
        rw [h1] at h
        simp only [Outcome.bind] at h
        cases h2 : fixStep2 ss s.operand.value s1 with
        | ok s2 =>
          rw [h2] at h
          simp only [Outcome.bind] at h
          -- step 3
          have h3 : sf.pkg.additional.isNumeric = true ∨ (sf = s2 ∧ s2.pkg.needsRes = false) := by
            unfold fixStep3 fixAbs at h
            split at h
            · left
              repeat' split at h
              all_goals first
                | (cases h; done)
                | (cases h; exact EL.numericOfInt_isNumeric (by assumption))
            · rename_i hn
              cases h
              exact .inr ⟨rfl, by simpa using hn⟩
          rcases h3 with h3 | ⟨rfl, hn2⟩
          · exact .inl h3
          · -- step 2
            have h2' : sf.pkg.additional.isNumeric = true ∨ (sf = s1 ∧ s.operand.value.isAddress = false) := by
              unfold fixStep2 at h2
              split at h2
              · left
                repeat' split at h2
                all_goals first
                  | (cases h2; done)
                  | (cases h2; exact hss _ _ (by assumption))
              · rename_i hna
                cases h2
                exact .inr ⟨rfl, by simpa using hna⟩
            rcases h2' with h2' | ⟨rfl, hna⟩
            · exact .inl h2'
            · -- step 1
              unfold fixStep1 at h1
              split at h1
              · left
                cases ho : addrOffset ss s.operand.value with
                | ok v =>
                  rw [ho] at h1
                  cases h1
                  -- the value `addrOffset` returns comes out of `numericOfInt`
                  cases hov : s.operand.value with
                  | expr l r op m ae =>
                    rw [hov, addrOffset_expr] at ho
                    repeat' split at ho
                    all_goals first
                      | (cases ho; done)
                      | exact addrCombine_numeric ho
                  | _ => rw [hov] at ho; simp [addrOffset] at ho
                | diag => rw [ho] at h1; cases h1
                | internal => rw [ho] at h1; cases h1
                | diverged => rw [ho] at h1; cases h1
              · rename_i hne
                cases h1
                right
                exact ⟨rfl, hn2, hna, by simpa using hne⟩
        | _ => rw [h2] at h; cases h
      | _ => rw [h1] at h; cases h

end RL

/-! ### `ListsConst` from the statements that enter `fixAll` to the statements that leave it -/

/-- `fix_addresses; fit_operand_width` stores a number or leaves a list field alone: a list field after the step was the
same list field before -/
theorem fixFit_list_rev {ss : List Stmt} {i : Nat} {s u : Stmt}
    (hss : ∀ j v, addrOf ss j = some v → v.isNumeric = true) (h : fixFit ss i s = .ok u) :
    (∀ hs, u.pkg.additional = .multiByte hs → s.pkg.additional = .multiByte hs) ∧
    (∀ hs, u.pkg.additional = .multiWord hs → s.pkg.additional = .multiWord hs) := by
  obtain ⟨s1, h1, h2⟩ := fixFit_ok.mp h
  obtain ⟨l1, l2⟩ := fitWidth_list h2
  rcases RL.fixOne_field hss h1 with hn | ⟨rfl, _⟩
  · have hn' := fitWidth_isNumeric h2 hn
    constructor <;> intro hs e <;> rw [e] at hn' <;> cases hn'
  · exact ⟨fun hs e => (l1 hs).mp e, fun hs e => (l2 hs).mp e⟩

theorem fixFit_listsConst {t : SymTab} {ss : List Stmt} {i : Nat} {s u : Stmt}
    (hss : ∀ j v, addrOf ss j = some v → v.isNumeric = true) (h : fixFit ss i s = .ok u) (hc : ListsConst t s) :
    ListsConst t u := by
  obtain ⟨r1, r2⟩ := fixFit_list_rev hss h
  obtain ⟨v, rfl⟩ := fixFit_same h
  exact ⟨fun hs e => hc.1 hs (r1 hs e), fun hs e => hc.2 hs (r2 hs e)⟩

theorem fixAll_listsConst {t : SymTab} {as fs : List Stmt}
    (hss : ∀ j v, addrOf as j = some v → v.isNumeric = true)
    (hc : ∀ (i : Nat) (s : Stmt), as[i]? = some s → ListsConst t s) (h : fixAll as 0 as = .ok fs) :
    ∀ x ∈ fs, ListsConst t x := by
  intro x hx
  obtain ⟨hl, hp⟩ := fixAll_ok h
  obtain ⟨j, hj⟩ := List.getElem?_of_mem hx
  have hjl : j < as.length := by
    have := (List.getElem?_eq_some_iff.mp hj).1
    omega
  obtain ⟨s', e1, e2⟩ := hp j as[j] (List.getElem?_eq_getElem hjl)
  rw [hj] at e1; cases e1
  exact fixFit_listsConst hss e2 (hc j _ (List.getElem?_eq_getElem hjl))

/-- the list pass leaves `ListsConst` alone (operand and list-ness of the field are kept) -/
theorem evalList1_listsConst {t t0 : SymTab} {ss : List Stmt} {s s' : Stmt} (h : evalList1 t0 ss s = .ok s')
    (hc : ListsConst t s') : ListsConst t s := by
  obtain ⟨v, hv⟩ := evalList1_same h
  have ho : s'.operand = s.operand := by rw [hv]
  rcases evalList1_additional h with ⟨hs, hs', a1, a2, _⟩ | ⟨hs, hs', a1, a2, _⟩ | ⟨_, _, rfl⟩
  · refine ⟨fun g e => ?_, fun g e => ?_⟩
    · rw [← ho]; exact hc.1 hs' a2
    · rw [a1] at e; cases e
  · refine ⟨fun g e => ?_, fun g e => ?_⟩
    · rw [a1] at e; cases e
    · rw [← ho]; exact hc.2 hs' a2
  · exact hc

/-- `fixAllL` statement by statement: `fixFit`, then the list step on the statements `fixAll` gave -/
theorem fixAllL_steps {t : SymTab} {l l' : List Stmt} (h : fixAllL t l = .ok l') :
    ∃ x5, fixAll l 0 l = .ok x5 ∧ l'.length = l.length ∧
      ∀ (j : Nat) (s : Stmt), l[j]? = some s →
        ∃ u s', fixFit l j s = .ok u ∧ l'[j]? = some s' ∧ evalList1 t x5 u = .ok s' := by
  obtain ⟨x5, h1, h2⟩ := fixAllL_ok.mp h
  obtain ⟨l1, p1⟩ := fixAll_ok h1
  obtain ⟨l2, p2⟩ := evalLists_ok h2
  refine ⟨x5, h1, l2.trans l1, ?_⟩
  intro j s hs
  obtain ⟨u, hu, hf⟩ := p1 j s hs
  rw [Nat.zero_add] at hf
  obtain ⟨s', hs', he⟩ := p2 j u hu
  exact ⟨u, s', hf, hs', he⟩

/-! ### executable -/

/-- `ElemConst`, executable -/
def elemConstB (t : SymTab) (x : Str) : Bool :=
  match create 4 x false false true with
  | .ok v => (match v.resolve t with | .ok r => !r.isAddress && !r.isAddrExpr | .error _ => true)
  | .error _ => true

theorem elemConstB_sound {t : SymTab} {x : Str} (h : elemConstB t x = true) : ElemConst t x := by
  intro v r hv hr
  unfold elemConstB at h
  rw [hv] at h
  dsimp only at h
  rw [hr] at h
  simpa using h

/-- `ListsConst`, executable -/
def listsConstB (t : SymTab) (s : Stmt) : Bool :=
  match s.pkg.additional with
  | .multiByte _ => (listElems s.operand.text).all (fun x => !pendingAt 2 x || elemConstB t x)
  | .multiWord _ => (listElems s.operand.text).all (fun x => !pendingAt 4 x || elemConstB t x)
  | _ => true

theorem listsConstB_sound {t : SymTab} {s : Stmt} (h : listsConstB t s = true) : ListsConst t s := by
  unfold listsConstB at h
  constructor
  · intro hs e x hx hp
    rw [e] at h
    have := List.all_eq_true.mp h x hx
    rw [hp] at this
    exact elemConstB_sound (by simpa using this)
  · intro hs e x hx hp
    rw [e] at h
    have := List.all_eq_true.mp h x hx
    rw [hp] at this
    exact elemConstB_sound (by simpa using this)

/-- no list statement has an evaluated element at all (every element is a literal): `ListsConst` for every table -/
def literalListB (s : Stmt) : Bool :=
  match s.pkg.additional with
  | .multiByte _ => (listElems s.operand.text).all (fun x => !pendingAt 2 x)
  | .multiWord _ => (listElems s.operand.text).all (fun x => !pendingAt 4 x)
  | _ => true

theorem literalListB_sound {s : Stmt} (h : literalListB s = true) (t : SymTab) : ListsConst t s := by
  unfold literalListB at h
  constructor
  · intro hs e x hx hp
    rw [e] at h
    have := List.all_eq_true.mp h x hx
    rw [hp] at this
    cases this
  · intro hs e x hx hp
    rw [e] at h
    have := List.all_eq_true.mp h x hx
    rw [hp] at this
    cases this

/-- every statement of the list has literal lists only -/
def literalListsB (as : List Stmt) : Bool := as.all literalListB

theorem literalListsB_sound {as : List Stmt} (h : literalListsB as = true) (t : SymTab) :
    ∀ (i : Nat) (s : Stmt), as[i]? = some s → ListsConst t s :=
  fun _ s hs => literalListB_sound (List.all_eq_true.mp h s (List.mem_of_getElem? hs)) t

/-- every list statement of the list is `ListsConst` for the table `t` -/
def listsConstAllB (t : SymTab) (as : List Stmt) : Bool := as.all (listsConstB t)

theorem listsConstAllB_sound {t : SymTab} {as : List Stmt} (h : listsConstAllB t as = true) :
    ∀ (i : Nat) (s : Stmt), as[i]? = some s → ListsConst t s :=
  fun _ s hs => listsConstB_sound (List.all_eq_true.mp h s (List.mem_of_getElem? hs))

end CoCo.Asm
