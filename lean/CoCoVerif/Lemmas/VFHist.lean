/-
Lemmas/VFHist.lean — histories of `storeTo ... append := true` on one target: every save rebuilds the image
from the files listed at re-opening followed by the new ones.
-/
import CoCoVerif.Lemmas.VFCas
import CoCoVerif.Lemmas.VFDsk

namespace CoCo.VF
open CoCo CoCo.Props

/-- a history of append-saves of batches of files to one target of kind `k`; stops at the first refusal -/
def runHist (k : Kind) (path : Path) : FS → List (List CFile) → Outcome FS
  | fs, [] => .ok fs
  | fs, b :: rest =>
    match storeTo fs path k b true with
    | .ok fs' => runHist k path fs' rest
    | .diag => .diag
    | .internal => .internal
    | .diverged => .diverged

theorem take_succ_flatten (b : List CFile) (rest : List (List CFile)) (i : Nat) :
    ((b :: rest).take (i + 1)).flatten = b ++ (rest.take i).flatten := by
  simp

/-- cassette history from a target that already holds `Cas.write done` -/
theorem runHist_cas_from (path : Path) :
    ∀ (batches : List (List CFile)) (fs : FS) (done : List CFile),
      fs.get? path = some (Cas.write done) → CasOK done → (∀ b ∈ batches, CasOK b) →
      (∀ i, i < batches.length → (Cas.write (done ++ (batches.take i).flatten)).length < 161280) →
      ∃ fs', runHist .cassette path fs batches = .ok fs' ∧
        (∀ q, q ≠ path → fs'.get? q = fs.get? q) ∧
        fs'.get? path = some (Cas.write (done ++ batches.flatten)) := by
  intro batches
  induction batches with
  | nil => intro fs done hg _ _ _; exact ⟨fs, rfl, fun _ _ => rfl, by simpa using hg⟩
  | cons b rest ih =>
    intro fs done hg hok hb hlen
    have hl0 : (Cas.write done).length < 161280 := by simpa using hlen 0 (by simp)
    have hstep := storeTo_cas_reopen fs path done b hg hok hl0
    obtain ⟨fs', hr, hfr, hget⟩ := ih (fs.set path (Cas.write (done ++ b))) (done ++ b)
      (FS.get?_set_same _ _ _) (hok.append (hb b List.mem_cons_self))
      (fun x hx => hb x (List.mem_cons_of_mem _ hx))
      (by
        intro i hi
        have := hlen (i + 1) (by simp; omega)
        rw [take_succ_flatten, ← List.append_assoc] at this
        exact this)
    refine ⟨fs', ?_, ?_, ?_⟩
    · simp only [runHist, hstep]; exact hr
    · intro q hq; rw [hfr q hq, FS.get?_set_other _ _ _ _ hq]
    · rw [hget]; simp [List.append_assoc]

/-- cassette history on a fresh target -/
theorem runHist_cas_fresh (path : Path) (fs : FS) (b : List CFile) (rest : List (List CFile))
    (hfresh : fs.get? path = none) (hb : ∀ x ∈ b :: rest, CasOK x)
    (hlen : ∀ i, i < (b :: rest).length → (Cas.write ((b :: rest).take i).flatten).length < 161280) :
    ∃ fs', runHist .cassette path fs (b :: rest) = .ok fs' ∧
      (∀ q, q ≠ path → fs'.get? q = fs.get? q) ∧
      fs'.get? path = some (Cas.write (b :: rest).flatten) := by
  have hstep := storeTo_fresh fs path .cassette b true (Cas.write b) hfresh rfl
  obtain ⟨fs', hr, hfr, hget⟩ := runHist_cas_from path rest (fs.set path (Cas.write b)) b
    (FS.get?_set_same _ _ _) (hb b List.mem_cons_self) (fun x hx => hb x (List.mem_cons_of_mem _ hx))
    (by
      intro i hi
      have := hlen (i + 1) (by simp; omega)
      rw [take_succ_flatten] at this
      exact this)
  refine ⟨fs', ?_, ?_, ?_⟩
  · simp only [runHist, hstep]; exact hr
  · intro q hq; rw [hfr q hq, FS.get?_set_other _ _ _ _ hq]
  · rw [hget]; simp

/-- the hypotheses of the disk theorems on a list of files -/
def DskOK (fs : List CFile) : Prop := (∀ f ∈ fs, ValidDFile f) ∧ (∀ f ∈ fs, NoSpace f)

theorem DskOK.append {a b : List CFile} (ha : DskOK a) (hb : DskOK b) : DskOK (a ++ b) := by
  obtain ⟨a1, a2⟩ := ha
  obtain ⟨b1, b2⟩ := hb
  refine ⟨?_, ?_⟩ <;> intro f hf <;> rcases List.mem_append.mp hf with h | h <;> first
    | exact a1 f h | exact a2 f h | exact b1 f h | exact b2 f h

/-- disk history from a target that already holds the image written from `done` -/
theorem runHist_dsk_from (path : Path) :
    ∀ (batches : List (List CFile)) (fs : FS) (done : List CFile) (img imgF : Bytes),
      fs.get? path = some img → Dsk.write Gen.granuleFillOrder done = .ok img → DskOK done →
      (∀ b ∈ batches, DskOK b) →
      Dsk.write Gen.granuleFillOrder (done ++ batches.flatten) = .ok imgF →
      ∃ fs', runHist .disk path fs batches = .ok fs' ∧
        (∀ q, q ≠ path → fs'.get? q = fs.get? q) ∧
        fs'.get? path = some imgF := by
  intro batches
  induction batches with
  | nil =>
    intro fs done img imgF hg hw _ _ hF
    have : imgF = img := by
      rw [List.flatten_nil, List.append_nil, hw] at hF
      exact (Outcome.ok.inj hF).symm
    subst this
    exact ⟨fs, rfl, fun _ _ => rfl, hg⟩
  | cons b rest ih =>
    intro fs done img imgF hg hw hok hb hF
    have hF' : Dsk.write Gen.granuleFillOrder ((done ++ b) ++ rest.flatten) = .ok imgF := by
      rw [List.append_assoc]; simpa using hF
    obtain ⟨img1, hw1⟩ := write_prefix_ok hF'
    have hstep := storeTo_dsk_reopen fs path done b img img1 hg hw hok.1 hok.2 hw1
    obtain ⟨fs', hr, hfr, hget⟩ := ih (fs.set path img1) (done ++ b) img1 imgF
      (FS.get?_set_same _ _ _) hw1 (hok.append (hb b List.mem_cons_self))
      (fun x hx => hb x (List.mem_cons_of_mem _ hx)) hF'
    refine ⟨fs', ?_, ?_, hget⟩
    · simp only [runHist, hstep]; exact hr
    · intro q hq; rw [hfr q hq, FS.get?_set_other _ _ _ _ hq]

/-- disk history on a fresh target -/
theorem runHist_dsk_fresh (path : Path) (fs : FS) (b : List CFile) (rest : List (List CFile)) (imgF : Bytes)
    (hfresh : fs.get? path = none) (hb : ∀ x ∈ b :: rest, DskOK x)
    (hF : Dsk.write Gen.granuleFillOrder (b :: rest).flatten = .ok imgF) :
    ∃ fs', runHist .disk path fs (b :: rest) = .ok fs' ∧
      (∀ q, q ≠ path → fs'.get? q = fs.get? q) ∧
      fs'.get? path = some imgF := by
  have hF' : Dsk.write Gen.granuleFillOrder (b ++ rest.flatten) = .ok imgF := by simpa using hF
  obtain ⟨img1, hw1⟩ := write_prefix_ok hF'
  have hstep := storeTo_fresh fs path .disk b true img1 hfresh (by simpa [buildImage] using hw1)
  obtain ⟨fs', hr, hfr, hget⟩ := runHist_dsk_from path rest (fs.set path img1) b img1 imgF
    (FS.get?_set_same _ _ _) hw1 (hb b List.mem_cons_self) (fun x hx => hb x (List.mem_cons_of_mem _ hx)) hF'
  refine ⟨fs', ?_, ?_, hget⟩
  · simp only [runHist, hstep]; exact hr
  · intro q hq; rw [hfr q hq, FS.get?_set_other _ _ _ _ hq]

end CoCo.VF
