/-
Lemmas/RelocParse.lean — relocation (C18-R1), part 8: parsing an ORG line `lab ORG $hhhh`.
-/
import CoCoVerif.Lemmas.RelocFront
import CoCoVerif.Props.C18

namespace CoCo.Asm
open CoCo

/-- a hexadecimal digit as the scanner and the value parser see it -/
def HexCh (c : Char) : Prop :=
  isHexD c = true ∧ isWord c = true ∧ isOperandCh c = true ∧ (c == '$') = false ∧ (c == ',') = false

theorem hexCh_hexChar : ∀ d, d < 16 → HexCh (hexChar d) := by
  unfold HexCh
  decide

theorem create_hex4 {c1 c2 c3 c4 : Char} (h1 : HexCh c1) (h2 : HexCh c2) (h3 : HexCh c3) (h4 : HexCh c4) :
    create 4 ['$', c1, c2, c3, c4] false false true
      = .ok (.numeric (parseBase 16 [c1, c2, c3, c4]) (some 4) .extended false) := by
  obtain ⟨a1, b1, _, d1, e1⟩ := h1
  obtain ⟨a2, b2, _, d2, e2⟩ := h2
  obtain ⟨a3, b3, _, d3, e3⟩ := h3
  obtain ⟨a4, b4, _, d4, e4⟩ := h4
  have f1 : ¬ (',' = c1) := by intro h; subst h; simp at e1
  have f2 : ¬ (',' = c2) := by intro h; subst h; simp at e2
  have f3 : ¬ (',' = c3) := by intro h; subst h; simp at e3
  have f4 : ¬ (',' = c4) := by intro h; subst h; simp at e4
  have s1 : isSym c1 = true := by simp [isSym, b1]
  have s2 : isSym c2 = true := by simp [isSym, b2]
  have s3 : isSym c3 = true := by simp [isSym, b3]
  have s4 : isSym c4 = true := by simp [isSym, b4]
  simp [create, splitExpr, numericOfStr, initHint, a1, a2, a3, a4, s1, s2, s3, s4, d1, d4, f1, f2, f3, f4]

theorem parseBase16_hex4 {a b c d : Nat} (ha : a < 16) (hb : b < 16) (hc : c < 16) (hd : d < 16) :
    parseBase 16 [hexChar a, hexChar b, hexChar c, hexChar d] = ((a * 16 + b) * 16 + c) * 16 + d := by
  simp [parseBase, digitVal_hexChar _ ha, digitVal_hexChar _ hb, digitVal_hexChar _ hc, digitVal_hexChar _ hd]

theorem fmtHex4_digits {n : Nat} (h : n < 65536) :
    fmtHex 4 n = [hexChar (n / 256 / 16), hexChar (n / 256 % 16), hexChar (n % 256 / 16), hexChar (n % 256 % 16)] := by
  rw [fmtHex_word h]; rfl

/-- the table row of ORG -/
def orgRowR : Gen.InstrRow :=
  ⟨"ORG", none, 0, none, 0, none, 0, none, 0, none, 0, none, 0, true, false, false, false, false, false, false,
    true, false, false, false, false, false⟩

set_option maxRecDepth 100000 in
theorem findRow_org : findRow "ORG".toList = some orgRowR := by decide

/-- the operand of `ORG $hhhh` -/
theorem createOperand_org {n : Nat} (h : n < 65536) :
    createOperand ('$' :: fmtHex 4 n) orgRowR
      = .ok { kind := .pseudo, text := '$' :: fmtHex 4 n, value := .numeric n (some 4) .extended false } := by
  have h1 := hexCh_hexChar (n / 256 / 16) (by omega)
  have h2 := hexCh_hexChar (n / 256 % 16) (by omega)
  have h3 := hexCh_hexChar (n % 256 / 16) (by omega)
  have h4 := hexCh_hexChar (n % 256 % 16) (by omega)
  have hv : parseBase 16 [hexChar (n / 256 / 16), hexChar (n / 256 % 16), hexChar (n % 256 / 16),
      hexChar (n % 256 % 16)] = n := by
    rw [parseBase16_hex4 (by omega) (by omega) (by omega) (by omega)]; omega
  have hc := create_hex4 h1 h2 h3 h4
  rw [hv] at hc
  rw [fmtHex4_digits h]
  have e : n % 256 % 16 = n % 16 := by omega
  rw [e] at hc ⊢
  unfold createOperand
  simp [orgRowR, createV, hc]

/-- the statement `lab ORG $hhhh` parses to -/
def orgStmt (lab : Str) (n : Nat) : Stmt :=
  { label := lab, mnemonic := "ORG".toList, row := orgRowR,
    operand := { kind := .pseudo, text := '$' :: fmtHex 4 n, value := .numeric n (some 4) .extended false },
    origText := '$' :: fmtHex 4 n, comment := [] }

theorem fmtHex4_operandCh {n : Nat} (h : n < 65536) : (fmtHex 4 n).all isOperandCh = true := by
  rw [fmtHex4_digits h]
  simp [(hexCh_hexChar (n / 256 / 16) (by omega)).2.2.1, (hexCh_hexChar (n / 256 % 16) (by omega)).2.2.1,
    (hexCh_hexChar (n % 256 / 16) (by omega)).2.2.1, (hexCh_hexChar (n % 16) (by omega)).2.2.1]

theorem scanLine_org {lab : Str} {n : Nat} (hl : lab.all isLabelCh = true) (hn : n < 65536) :
    scanLine (Props.orgLine lab n) = .asm lab "ORG".toList ('$' :: fmtHex 4 n) [] := by
  have hwf : Props.LineParts.WF
      { lab := lab, w1 := [' '], mn := "ORG".toList, w2 := [' '], ops := '$' :: fmtHex 4 n, w3 := [], semis := [], c := [] } := by
    constructor
    · exact hl
    · dsimp only; decide
    · dsimp only; decide
    · show ('$' :: fmtHex 4 n).all isOperandCh = true
      rw [List.all_cons, fmtHex4_operandCh hn]; decide
    · dsimp only; decide
    · dsimp only; decide
    · dsimp only; decide
    · dsimp only; decide
    · dsimp only; decide
    · dsimp only; decide
    · dsimp only; decide
    · dsimp only; decide
    · right; right; dsimp only; decide
  have := Props.scanLine_render hwf
  have e : Props.orgLine lab n = Props.LineParts.render
      { lab := lab, w1 := [' '], mn := "ORG".toList, w2 := [' '], ops := '$' :: fmtHex 4 n, w3 := [], semis := [], c := [] } := by
    simp [Props.orgLine, Props.LineParts.render]
  rw [e]; exact this

theorem parseLine_org {lab : Str} {n : Nat} (hl : lab.all isLabelCh = true) (hn : n < 65536) :
    parseLine (Props.orgLine lab n) = .ok (some (orgStmt lab n)) := by
  unfold parseLine
  rw [scanLine_org hl hn]
  have hm : ("ORG".toList.map upperC) = "ORG".toList := by decide
  simp only [hm, findRow_org]
  have hs : orgRowR.isStringDefine = false := rfl
  simp only [hs, Bool.false_eq_true, if_false, createOperand_org hn]
  rfl

/-! ### rows come from the table -/

theorem parseLine_row_tbl {l : Str} {s : Stmt} (h : parseLine l = .ok (some s)) : ∃ mn, findRow mn = some s.row := by
  unfold parseLine at h
  split at h
  · cases h
  · cases h
  · cases h
  · dsimp only at h
    split at h
    · cases h
    · rename_i row hrow
      split at h
      · split at h
        · cases h
        · split at h
          · simp only [Outcome.ok.injEq, Option.some.injEq] at h
            subst h
            exact ⟨_, hrow⟩
          · cases h
      · split at h
        · simp only [Outcome.ok.injEq, Option.some.injEq] at h
          subst h
          exact ⟨_, hrow⟩
        · cases h

set_option maxRecDepth 100000 in
theorem table_origin : ∀ r ∈ Gen.instructions, r.isOrigin = false → (r.mnemonic == "ORG") = false := by decide

theorem parseLine_notOrg {l : Str} {s : Stmt} (h : parseLine l = .ok (some s)) (ho : s.row.isOrigin = false) :
    (s.row.mnemonic == "ORG") = false := by
  obtain ⟨mn, hm⟩ := parseLine_row_tbl h
  exact table_origin _ (List.mem_of_find?_eq_some hm) ho

end CoCo.Asm
