/-
Lemmas/EncodeLabel.lean — a LABEL (or label expression) as the constant offset of a pointer register
(`LDA TABLE,X`, `LDB TBL+1,Y`, `LDD [TBL,U]`; repair batch B3, C3): `translate` takes the 16-bit offset form at once
(post byte base+9, size + 2, `needsRes`, no `choices`), `fix_addresses` replaces the operand field by the ADDRESS the
label (expression) stands for, `fit_operand_width` renders it in two bytes, and the datasheet decoder reads the bytes
back as `a,R` with a 16-bit offset.
-/
import CoCoVerif.Lemmas.EncodeOffset
import CoCoVerif.Lemmas.AddrOther

namespace CoCo.Asm
open CoCo CoCo.Spec.MC6809
open CoCo.Gen (InstrRow)

/-! ### `translate` -/

/-- the left part of a label offset and the `additional` value `translate` keeps for it: a label becomes the NUMBER of
its statement (resolved by `fix_addresses`), a label expression is kept as it is -/
inductive LabelLeft : Value → Value → Prop
  | label {j : Nat} {m : Mode} {l : Value} : numV j = .ok l → LabelLeft (.address j m) l
  | expr {a b : Value} {op : Char} {m : Mode} : LabelLeft (.expr a b op m true) (.expr a b op m true)

/-- the statement number of a label survives `numV` -/
theorem numV_ok_enc {j : Nat} (h : j < 65536) : ∃ l h' m', numV j = .ok l ∧ l = .numeric j h' m' false := by
  by_cases h1 : j < 256
  · exact ⟨_, _, _, numV_byte h1, rfl⟩
  · exact ⟨_, _, _, numV_word (by omega) h, rfl⟩

/-- **the label-offset branch of `translateOffset`**: the 16-bit offset form, whatever the label's address will be -/
theorem translateOffset_label {ind : Bool} {row : InstrRow} {c : Nat} {left l : Value} {right : Str} {raw0 : Nat}
    (hc : row.ind = some c) (hc' : c < 65536) (hr : PlainReg right) (hl : LabelLeft left l)
    (hraw : raw0 ||| ((if ind then 0x90 else 0x80) + 0x09) < 256) :
    translateOffset ind row left right raw0 =
      .ok { opCode := opv c, postByte := .numeric (raw0 ||| ((if ind then 0x90 else 0x80) + 0x09)) (some 2) .direct false,
            additional := l, size := row.indSz + 2, maxSize := row.indSz + 2, needsRes := true } := by
  cases hl with
  | label hn =>
    simp [translateOffset, hr.noPlus, hr.noMinus, hr.noPcr, hc, opVal_ok hc', hn, numV_byte hraw]
    rfl
  | expr =>
    simp [translateOffset, hr.noPlus, hr.noMinus, hr.noPcr, hc, opVal_ok hc', Value.isExpression, Value.isAddrExpr,
      numV_byte hraw]
    rfl

theorem LabelLeft.notZero {left l : Value} (h : LabelLeft left l) : ∀ h' m n, left ≠ .numeric 0 h' m n := by
  cases h <;> intros <;> simp

/-- from the operand to `translateOffset` (unbracketed) -/
theorem translateIndexed_label {o : Operand} {r : InstrRow} {c : Nat} {left l : Value} {right : Str}
    (hc : r.ind = some c) (h0 : c ≠ 0) (hc' : c < 65536) (hl : o.left = .val left) (hll : LabelLeft left l)
    (hr : o.right = some right) (hvr : validIndexReg right = true) :
    translateIndexed o r = translateOffset false r left right (regBits right) := by
  cases hll <;> simp [translateIndexed, hc, h0, hl, hr, opVal_ok hc', hvr] <;> rfl

/-- from the operand to `translateOffset` (inside brackets) -/
theorem translateExtInd_label {o : Operand} {r : InstrRow} {c : Nat} {left l : Value} {right : Str}
    (hc : r.ind = some c) (h0 : c ≠ 0) (hc' : c < 65536) (hna : o.value.isAddress = false)
    (hne : o.value.isAddrExpr = false) (hnn : o.value.isNumeric = false)
    (hl : o.left = .val left) (hll : LabelLeft left l) (hr : o.right = some right) (hvr : validIndexReg right = true) :
    translateExtIndirect o r = translateOffset true r left right (0x80 ||| regBits right) := by
  cases hll <;> simp [translateExtIndirect, hc, h0, hl, hr, opVal_ok hc', hna, hne, hnn, hvr] <;> rfl

/-! ### `fix_addresses` -/

/-- the address `a` the kept `additional` value stands for, once the statements `ss` have addresses: the address of
the label's statement, or the value of the label expression (`calculate_address_offset`) -/
inductive LabelTarget (ss : List Stmt) : Value → Nat → Prop
  | label {j a : Nat} {h : Option Nat} {m : Mode} {neg : Bool} :
      addrIntOf ss j = some a → LabelTarget ss (.numeric j h m neg) a
  | expr {x y w : Value} {op : Char} {m : Mode} {a : Nat} :
      addrOffset ss (.expr x y op m true) = .ok w → w.int? = some a → LabelTarget ss (.expr x y op m true) a

/-- **`fix_addresses` on a label offset**: the operand field becomes the address itself, as a 16-bit number (no
PC-relative distance is taken: `choices` is empty) -/
theorem fixOne_label {ss : List Stmt} {i : Nat} {s : Stmt} {a : Nat}
    (hidx : s.operand.kind = .indexed ∨ s.operand.kind = .extIndirect)
    (hv1 : s.operand.value ≠ .pyNone) (hv2 : s.operand.value.isAddrExpr = false)
    (hv3 : s.operand.value.isAddress = false)
    (hnr : s.pkg.needsRes = true) (hch : s.pkg.choices = [])
    (ht : LabelTarget ss s.pkg.additional a) (ha : a < 65536) :
    fixOne ss i s = .ok { s with pkg := { s.pkg with additional := .numeric a (some 4) .extended false } } := by
  have hrel : (s.operand.kind == .relative) = false := by rcases hidx with h | h <;> rw [h] <;> rfl
  have hidx' : (s.operand.kind == .indexed || s.operand.kind == .extIndirect) = true := by
    rcases hidx with h | h <;> rw [h] <;> rfl
  have hnum := numericOfInt_hint (v := a) 4 ha
  unfold fixOne
  simp only [hrel, Bool.false_eq_true, if_false]
  cases hov : s.operand.value with
  | pyNone => exact absurd hov hv1
  | _ =>
    rw [hov] at hv2 hv3
    simp only [hv2, hv3, Bool.false_eq_true, if_false, hnr, if_true, hidx', hch, List.isEmpty_nil]
    generalize hadd : s.pkg.additional = add at ht
    cases ht with
    | label hj => simp only [Value.int?, hj, hnum]
    | expr ho hw => simp only [ho, hw, hnum]

/-! ### `fit_operand_width`, the bytes, the decoder -/

/-- a 16-bit address as a signed offset and back: the decoder's `sext` of the two bytes -/
theorem hi_lo_word (a : Nat) : a / 256 * 256 + a % 256 = a := by omega

/-- **the fix step on a label-offset package** (`fixOne` then `fitWidth`, the `fixAll` loop body): for a statement of row
`r` whose package is the 16-bit offset form with post byte `128 + 32k + q` (`q = 9`: `a,R`; `q = 25`: `[a,R]`), the
bytes are op code, post byte, high and low byte of the ADDRESS `a`, and they decode as the offset `a` (16-bit) from
register `k` -/
theorem fixFit_label {ss : List Stmt} {i : Nat} {s : Stmt} {c k q a : Nat}
    (hp : s.row.isPseudo = false) (hsp : s.row.isSpecial = false)
    (hlk : lookup c = some (opOf s.row.mnemonic, .idx))
    (hidx : s.operand.kind = .indexed ∨ s.operand.kind = .extIndirect)
    (hv1 : s.operand.value ≠ .pyNone) (hv2 : s.operand.value.isAddrExpr = false)
    (hv3 : s.operand.value.isAddress = false)
    (hop : s.pkg.opCode = opv c)
    (hpb : s.pkg.postByte = .numeric (128 + 32 * k + q) (some 2) .direct false) (hk4 : k < 4) (hq : q = 9 ∨ q = 25)
    (hsz : s.pkg.size = opcodeLen c + 3)
    (hnr : s.pkg.needsRes = true) (hch : s.pkg.choices = [])
    (ht : LabelTarget ss s.pkg.additional a) (ha : a < 65536) :
    ∃ s' bytes, fixFit ss i s = .ok s' ∧ stmtBytes s' = some bytes ∧
      bytes = opcodeBytes c ++ [128 + 32 * k + q, a / 256, a % 256] ∧ bytes.length = s.pkg.size ∧
      decode bytes = some (⟨opOf s.row.mnemonic, .idx (.off k (sext a 16) (q = 25) 16)⟩, bytes.length) := by
  have hc : c < 65536 := cell_lt hlk
  have hpb256 : 128 + 32 * k + q < 256 := by omega
  have hrow : ((s.row.isPseudo && !(s.row.isMultiByte || s.row.isMultiWord)) || s.row.isSpecial) = false := by
    simp [hp, hsp]
  have hfix := fixOne_label (i := i) hidx hv1 hv2 hv3 hnr hch ht ha
  have hfw : fitsWord a false = true := by simp [fitsWord]; omega
  have hwf : wordField a false = a := by simp [wordField]
  -- the package after `fixOne`
  let p1 : Pkg := { s.pkg with additional := .numeric a (some 4) .extended false }
  have hfit : fitPkg s.row p1 = .ok { p1 with additional := .numeric a (some 4) .extended false } := by
    have := fitPkg_numeric (r := s.row) (p := p1) (n := a) (h := some 4) (m := .extended) (neg := false) (d := 4) hrow rfl
      (by show s.pkg.opCode.hexLen? = _; rw [hop]; exact opv_hexLen hc)
      (by show s.pkg.postByte.hexLen? = _; rw [hpb]; exact (PostOk.byte hpb256).hexLen)
      (by show 2 * s.pkg.size = _; rw [hsz]; simp; omega) (Or.inr rfl)
    rw [this, fitNum_word hfw, hwf]
  refine ⟨{ s with pkg := { p1 with additional := .numeric a (some 4) .extended false } },
    opcodeBytes c ++ [128 + 32 * k + q, a / 256, a % 256], ?_, ?_, rfl, ?_, ?_⟩
  · rw [fixFit_ok]
    exact ⟨_, hfix, fitWidth_ok (s := { s with pkg := p1 }) hfit⟩
  · rw [stmtBytes_eq_pkgBytes]
    have := pkgBytes_of (p := { p1 with additional := .numeric a (some 4) .extended false })
      (a := opcodeBytes c) (b := [128 + 32 * k + q]) (c := [a / 256, a % 256])
      (by show emitValue s.pkg.opCode = _; rw [hop]; exact emit_opv hc)
      (by show emitValue s.pkg.postByte = _; rw [hpb]; exact emit_hint2 _ hpb256)
      (emit_hint4 _ ha)
    simpa using this
  · simp [opcodeBytes_length, hsz]
  · rw [decode_opcode hlk]
    simp only [decodeTail, decode_off16 hk4 hq, hi_lo_word]
    simp [opcodeBytes_length]

end CoCo.Asm
