/-
Lemmas/EncodeData.lean — the data directives (FCB FDB RMB FCC and the directives that emit nothing):
what `translatePseudo` builds for each mnemonic, what `emitValue` reads back from the values it
builds, and what the multi-value parser (`multi`, `elemHex`) prints for decimal literals (T4).
-/
import CoCoVerif.Lemmas.EncodeFit
import CoCoVerif.Lemmas.EncodeSplit

namespace CoCo.Asm
open CoCo
open CoCo.Gen (InstrRow)

/-! ### a statement whose package has only the `additional` part -/

theorem stmtBytes_additional (s : Stmt) (h1 : s.pkg.opCode = .none) (h2 : s.pkg.postByte = .none) :
    stmtBytes s = emitValue s.pkg.additional := by
  simp only [stmtBytes, h1, h2, emitValue_none]
  cases emitValue s.pkg.additional <;> rfl

/-- every value except Python `None` has an `.int` and a `hex_len()` -/
theorem int_byteLen_of_ne_pyNone (v : Value) (h : v ≠ .pyNone) :
    ∃ i bl, v.int? = some i ∧ v.byteLen? = some bl := by
  cases v <;> simp_all [Value.int?, Value.byteLen?, Value.hexLen?, Value.hex?]

/-! ### `translatePseudo`, mnemonic by mnemonic

Since the repair of the data directives a single FCB / FDB value is handed on AS IT IS (size 1 / 2) and rendered at
the directive's width by `fitWidth` after the address pass; RMB and ORG insist on a non-negative number. -/

/-- Python `None` (a symbol without a value) under FCB FDB RMB ORG: an attribute error -/
theorem translatePseudo_pyNone (o : Operand) (row : InstrRow) (h : o.value = .pyNone)
    (hm : row.mnemonic = "FCB" ∨ row.mnemonic = "FDB" ∨ row.mnemonic = "RMB" ∨ row.mnemonic = "ORG") :
    translatePseudo o row = .error .other := by
  rcases hm with hm | hm | hm | hm <;> simp [translatePseudo, h, hm] <;> rfl

theorem translatePseudo_FCB_single {o : Operand} {row : InstrRow} (hm : row.mnemonic = "FCB")
    (hv : o.value ≠ .pyNone) (hnm : o.value.isMultiByte = false) :
    translatePseudo o row = .ok { additional := o.value, size := 1, maxSize := 1 } := by
  cases hval : o.value <;> simp_all [translatePseudo, Value.isMultiByte] <;> rfl

theorem translatePseudo_FCB_multi {o : Operand} {row : InstrRow} {bl : Nat} (hm : row.mnemonic = "FCB")
    (hb : o.value.byteLen? = some bl) (hnm : o.value.isMultiByte = true) :
    translatePseudo o row = .ok { additional := o.value, size := bl, maxSize := bl } := by
  cases hval : o.value <;> simp_all [translatePseudo, Value.isMultiByte] <;> rfl

theorem translatePseudo_FDB_single {o : Operand} {row : InstrRow} (hm : row.mnemonic = "FDB")
    (hv : o.value ≠ .pyNone) (hnm : o.value.isMultiWord = false) :
    translatePseudo o row = .ok { additional := o.value, size := 2, maxSize := 2 } := by
  cases hval : o.value <;> simp_all [translatePseudo, Value.isMultiWord] <;> rfl

theorem translatePseudo_FDB_multi {o : Operand} {row : InstrRow} {bl : Nat} (hm : row.mnemonic = "FDB")
    (hb : o.value.byteLen? = some bl) (hnm : o.value.isMultiWord = true) :
    translatePseudo o row = .ok { additional := o.value, size := bl, maxSize := bl } := by
  cases hval : o.value <;> simp_all [translatePseudo, Value.isMultiWord] <;> rfl

/-- `NumericValue(0, size_hint=w)` -/
theorem numericOfInt_zero_hint (w : Nat) :
    numericOfInt 0 (some w) .none = .ok (.numeric 0 (some w) .extended false) := by
  simpa using numericOfInt_hint (v := 0) w (by omega)

theorem translatePseudo_RMB {o : Operand} {row : InstrRow} {n : Nat} {h : Option Nat} {m : Mode}
    (hm : row.mnemonic = "RMB") (hv : o.value = .numeric n h m false) :
    translatePseudo o row = .ok { additional := .numeric 0 (some (n * 2)) .extended false, size := n, maxSize := n } := by
  simp [translatePseudo, hm, hv, Value.isNumeric, Value.isNegative, Value.int?, numericOfInt_zero_hint]
  rfl

/-- `RMB -n`: "not a number of bytes to reserve" -/
theorem translatePseudo_RMB_neg {o : Operand} {row : InstrRow} {n : Nat} {h : Option Nat} {m : Mode}
    (hm : row.mnemonic = "RMB") (hv : o.value = .numeric n h m true) :
    translatePseudo o row = .error .operandType := by
  simp [translatePseudo, hm, hv, Value.isNumeric, Value.isNegative]
  rfl

/-- RMB of anything that is not a number (an unresolved symbol, a string, a label …) -/
theorem translatePseudo_RMB_nonNumeric {o : Operand} {row : InstrRow} (hm : row.mnemonic = "RMB")
    (hv : o.value ≠ .pyNone) (hn : o.value.isNumeric = false) :
    translatePseudo o row = .error .operandType := by
  cases hval : o.value <;> simp_all [translatePseudo, Value.isNumeric] <;> rfl

theorem translatePseudo_ORG {o : Operand} {row : InstrRow} {n : Nat} {h : Option Nat} {m : Mode}
    (hm : row.mnemonic = "ORG") (hv : o.value = .numeric n h m false) :
    translatePseudo o row = .ok { address := o.value } := by
  simp [translatePseudo, hm, hv, Value.isNumeric, Value.isNegative]
  rfl

/-- `ORG -n`: "not an address" -/
theorem translatePseudo_ORG_neg {o : Operand} {row : InstrRow} {n : Nat} {h : Option Nat} {m : Mode}
    (hm : row.mnemonic = "ORG") (hv : o.value = .numeric n h m true) :
    translatePseudo o row = .error .operandType := by
  simp [translatePseudo, hm, hv, Value.isNumeric, Value.isNegative]
  rfl

theorem translatePseudo_ORG_nonNumeric {o : Operand} {row : InstrRow} (hm : row.mnemonic = "ORG")
    (hv : o.value ≠ .pyNone) (hn : o.value.isNumeric = false) :
    translatePseudo o row = .error .operandType := by
  cases hval : o.value <;> simp_all [translatePseudo, Value.isNumeric] <;> rfl

theorem translatePseudo_FCC {o : Operand} {row : InstrRow} {bl : Nat} (hm : row.mnemonic = "FCC")
    (hb : o.value.byteLen? = some bl) :
    translatePseudo o row = .ok { additional := o.value, size := bl, maxSize := bl } := by
  simp [translatePseudo, hm, hb]
  rfl

/-- every other pseudo mnemonic (EQU SETDP NAM END INCLUDE SET): the empty package, whatever the value -/
theorem translatePseudo_other {o : Operand} {row : InstrRow}
    (h1 : row.mnemonic ≠ "FCB") (h2 : row.mnemonic ≠ "FDB") (h3 : row.mnemonic ≠ "RMB")
    (h4 : row.mnemonic ≠ "ORG") (h5 : row.mnemonic ≠ "FCC") :
    translatePseudo o row = .ok {} := by
  simp [translatePseudo, h1, h2, h3, h4, h5]
  rfl

/-! ### multi-value lists -/

theorem flatten_map_byteHex (bs : Bytes) : (bs.map byteHex).flatten = bs.flatMap byteHex := by
  simp [List.flatMap]

theorem length_flatMap_byteHex (bs : Bytes) : (bs.flatMap byteHex).length = 2 * bs.length := by
  induction bs with
  | nil => rfl
  | cons b bs ih => simp [List.flatMap_cons, byteHex, ih]; omega

theorem hexLen_multiByte (bs : Bytes) : (Value.multiByte (bs.map byteHex)).hexLen? = some (2 * bs.length) := by
  simp only [Value.hexLen?, Value.hex?, flatten_map_byteHex, Option.map_some, length_flatMap_byteHex]

theorem byteLen_multiByte (bs : Bytes) : (Value.multiByte (bs.map byteHex)).byteLen? = some bs.length := by
  simp [Value.byteLen?, hexLen_multiByte]

theorem emitValue_multiByte (bs : Bytes) (hb : ∀ b ∈ bs, b < 256) :
    emitValue (.multiByte (bs.map byteHex)) = some bs := by
  have := emitHex_byteHex bs hb []
  simp only [emitValue, hexLen_multiByte]
  simpa [Value.hex?, flatten_map_byteHex] using this

/-- the four hex digits of a word -/
def wordHex (v : Nat) : Str := byteHex (v / 256) ++ byteHex (v % 256)

/-- big-endian bytes of a list of words -/
def wordBytes (ws : List Nat) : Bytes := ws.flatMap (fun v => [v / 256, v % 256])

theorem wordBytes_length (ws : List Nat) : (wordBytes ws).length = 2 * ws.length := by
  induction ws with
  | nil => rfl
  | cons w ws ih => simp [wordBytes, List.flatMap_cons] at ih ⊢; omega

theorem wordBytes_lt (ws : List Nat) (h : ∀ w ∈ ws, w < 65536) : ∀ b ∈ wordBytes ws, b < 256 := by
  intro b hb
  simp only [wordBytes, List.mem_flatMap, List.mem_cons, List.not_mem_nil, or_false] at hb
  obtain ⟨w, hw, rfl | rfl⟩ := hb
  · have := h w hw; omega
  · omega

theorem flatten_map_wordHex (ws : List Nat) : (ws.map wordHex).flatten = (wordBytes ws).flatMap byteHex := by
  induction ws with
  | nil => rfl
  | cons w ws ih => simp [wordBytes, wordHex, List.flatMap_cons] at ih ⊢; exact ih

theorem hexLen_multiWord (ws : List Nat) : (Value.multiWord (ws.map wordHex)).hexLen? = some (2 * (wordBytes ws).length) := by
  simp only [Value.hexLen?, Value.hex?, flatten_map_wordHex, Option.map_some, length_flatMap_byteHex]

theorem byteLen_multiWord (ws : List Nat) : (Value.multiWord (ws.map wordHex)).byteLen? = some (2 * ws.length) := by
  simp [Value.byteLen?, hexLen_multiWord, wordBytes_length]

theorem emitValue_multiWord (ws : List Nat) (hw : ∀ w ∈ ws, w < 65536) :
    emitValue (.multiWord (ws.map wordHex)) = some (wordBytes ws) := by
  have := emitHex_byteHex (wordBytes ws) (wordBytes_lt ws hw) []
  simp only [emitValue, hexLen_multiWord]
  simpa [Value.hex?, flatten_map_wordHex] using this

/-! ### RMB: a run of zero digits -/

theorem emitPairs_zeros (n : Nat) (rest : Str) (acc : Bytes) :
    emitPairs n (List.replicate (2 * n) '0' ++ rest) acc = some (acc.reverse ++ List.replicate n 0) := by
  induction n generalizing acc with
  | zero => simp [emitPairs]
  | succ n ih =>
    have e : 2 * (n + 1) = (2 * n) + 1 + 1 := by omega
    have d0 : digitVal '0' = 0 := by decide
    rw [e, List.replicate_succ, List.replicate_succ]
    simp only [List.cons_append, emitPairs, d0]
    rw [ih]
    simp [List.replicate_succ]

theorem fmtHex_zero (w : Nat) : fmtHex w 0 = List.replicate (w - 1) '0' ++ ['0'] := by
  simp [fmtHex, natHexF, hexChar]

/-- `NumericValue(0, size_hint=2n)`: `n` zero bytes -/
theorem emit_zeros (n : Nat) (m : Mode) : emitValue (.numeric 0 (some (n * 2)) m false) = some (List.replicate n 0) := by
  rw [emitValue_numeric]
  cases n with
  | zero => simp [numHex, numHexLen, emitHex, emitPairs]
  | succ n =>
    have hne : ((n + 1) * 2 == 0) = false := by simp
    have h1 : ((n + 1) * 2 + 1) / 2 = n + 1 := by omega
    have h2 : List.replicate ((n + 1) * 2 - 1) '0' ++ ['0'] = List.replicate (2 * (n + 1)) '0' ++ [] := by
      have : (n + 1) * 2 - 1 + 1 = 2 * (n + 1) := by omega
      rw [← this, List.replicate_succ']; simp
    simp only [numHex, numHexLen, getNegative, hne, beq_self_eq_true, if_true, Bool.false_eq_true, if_false,
      Bool.not_false, Bool.false_and, fmtHex_zero, emitHex, h1]
    rw [h2, emitPairs_zeros]
    rfl

/-! ### FCC: the characters of a string -/

theorem natHexF_two {v : Nat} (h1 : 16 ≤ v) (h2 : v < 256) : natHexF 20 v = [v / 16, v % 16] := by
  have a : ¬ v < 16 := by omega
  have b : v / 16 < 16 := by omega
  simp [natHexF, a, b]

/-- after fix dfad397 (`"{:02X}"` per character) every character below 256 gives exactly one byte;
the old hypothesis `16 ≤ c.toNat` is gone -/
theorem hex_str (s : Str) (h : ∀ c ∈ s, c.toNat < 256) :
    (Value.str s).hex? = some ((s.map Char.toNat).flatMap byteHex) := by
  simp only [Value.hex?, Option.some.injEq]
  induction s with
  | nil => rfl
  | cons c s ih =>
    have hc := h c (by simp)
    simp only [List.flatMap_cons, List.map_cons, fmtHex_byte hc]
    rw [ih (fun x hx => h x (by simp [hx]))]

theorem hexLen_str (s : Str) (h : ∀ c ∈ s, c.toNat < 256) :
    (Value.str s).hexLen? = some (2 * s.length) := by
  simp only [Value.hexLen?, hex_str s h, Option.map_some, length_flatMap_byteHex, List.length_map]

theorem byteLen_str (s : Str) (h : ∀ c ∈ s, c.toNat < 256) :
    (Value.str s).byteLen? = some s.length := by
  simp [Value.byteLen?, hexLen_str s h]

theorem emitValue_str (s : Str) (h : ∀ c ∈ s, c.toNat < 256) :
    emitValue (.str s) = some (s.map Char.toNat) := by
  have := emitHex_byteHex (s.map Char.toNat) (by simpa using fun c hc => h c hc) []
  simp only [emitValue, hexLen_str s h, hex_str s h]
  simpa using this

/-! ### decimal literals -/

/-- a nonempty string of decimal digits -/
def IsDecLit (x : Str) : Prop := x ≠ [] ∧ x.all isDigit = true

instance (x : Str) : Decidable (IsDecLit x) := by unfold IsDecLit; infer_instance

theorem isDigit_ne {c : Char} (h : isDigit c = true) : c ≠ apos ∧ c ≠ '%' ∧ c ≠ '$' ∧ c ≠ '-' ∧ c ≠ ',' := by
  refine ⟨?_, ?_, ?_, ?_, ?_⟩ <;> (rintro rfl; revert h; decide)

theorem numericOfStr_dec {x : Str} (hx : IsDecLit x) (sizeHint : Option Nat) (mode : Mode)
    (hv : parseBase 10 x < 65536) :
    numericOfStr x sizeHint mode =
      .ok (.numeric (parseBase 10 x) (postInit (parseBase 10 x) (initHint sizeHint mode) mode).1
            (postInit (parseBase 10 x) (initHint sizeHint mode) mode).2 false) := by
  obtain ⟨hne, hd⟩ := hx
  cases x with
  | nil => exact absurd rfl hne
  | cons a t =>
    have ha : isDigit a = true := by simp [List.all_cons] at hd; exact hd.1
    obtain ⟨h1, h2, h3, h4, _⟩ := isDigit_ne ha
    unfold numericOfStr
    simp only []
    split
    · rename_i v hc
      split at hc
      · rename_i q c heq
        have : a = q := by injection heq
        subst this
        simp [h1] at hc
      · simp at hc
    · split
      · rename_i heq; injection heq with e _; exact absurd e h2
      · rename_i heq; injection heq with e _; exact absurd e h3
      · rename_i heq; injection heq with e _; exact absurd e h4
      · have hv' : ¬ parseBase 10 (a :: t) > 65535 := by omega
        simp [hd, hv']

/-- one element of a multi-value list: a literal that fits the field is printed as the field's two's complement -/
theorem elemHex_byte {x : Str} {i : Nat} {h : Option Nat} {m : Mode} {neg : Bool}
    (hn : numericOfStr x none .none = .ok (.numeric i h m neg)) (hf : fitsByte i neg = true) :
    elemHex 2 x = .ok (byteHex (byteField i neg)) := by
  simp [elemHex, hn, fitNum_byte hf, Value.hex?, numHex, getNegative, fmtHex_byte (byteField_lt hf)]

theorem elemHex_word {x : Str} {i : Nat} {h : Option Nat} {m : Mode} {neg : Bool}
    (hn : numericOfStr x none .none = .ok (.numeric i h m neg)) (hf : fitsWord i neg = true) :
    elemHex 4 x = .ok (byteHex (wordField i neg / 256) ++ byteHex (wordField i neg % 256)) := by
  simp [elemHex, hn, fitNum_word hf, Value.hex?, numHex, getNegative, fmtHex_word (wordField_lt hf)]

/-- an element that does not fit the field is refused ("does not fit") -/
theorem elemHex_byte_err {x : Str} {i : Nat} {h : Option Nat} {m : Mode} {neg : Bool}
    (hn : numericOfStr x none .none = .ok (.numeric i h m neg)) (hf : fitsByte i neg = false) :
    elemHex 2 x = .error .valueType := by
  simp [elemHex, hn, fitNum_byte_err hf]

theorem elemHex_word_err {x : Str} {i : Nat} {h : Option Nat} {m : Mode} {neg : Bool}
    (hn : numericOfStr x none .none = .ok (.numeric i h m neg)) (hf : fitsWord i neg = false) :
    elemHex 4 x = .error .valueType := by
  simp [elemHex, hn, fitNum_word_err hf]

/-- an element that is not a number at all (a symbol, an expression): refused — the remnant of finding C2 -/
theorem elemHex_nonNumeric {w : Nat} {x : Str} {e : Exn} (hn : numericOfStr x none .none = .error e) :
    elemHex w x = .error e := by
  simp [elemHex, hn]

theorem decLit_no_comma {x : Str} (hx : IsDecLit x) : ',' ∉ x := by
  intro hm
  have := List.all_eq_true.mp hx.2 _ hm
  exact (isDigit_ne this).2.2.2.2 rfl

/-! ### list elements since the repair of C2: `elemHexP` (a symbol or an expression holds its place), literals as before -/

/-- a literal that `elemHex` renders is rendered the same way by `elemHexP` -/
theorem elemHexP_of_ok {w : Nat} {x h : Str} (he : elemHex w x = .ok h) : elemHexP w x = .ok h := by
  simp [elemHexP, he]

/-- an element that is neither a symbol nor an expression: `elemHexP` is `elemHex`, errors included -/
theorem elemHexP_of_not_pending {w : Nat} {x : Str} (hp : pendingElem x = false) : elemHexP w x = elemHex w x := by
  unfold elemHexP
  cases elemHex w x <;> simp [hp]

/-- a pending element (a symbol, an expression) that is not a literal holds its place with `w` zeros -/
theorem elemHexP_pending {w : Nat} {x : Str} {e : Exn} (he : elemHex w x = .error e) (hp : pendingElem x = true) :
    elemHexP w x = .ok (List.replicate w '0') := by
  simp [elemHexP, he, hp]

theorem mapM_congr_mem {α β} (f g : α → R β) (l : List α) (h : ∀ x ∈ l, f x = g x) : l.mapM f = l.mapM g := by
  induction l with
  | nil => rfl
  | cons x t ih =>
    rw [List.mapM_cons, List.mapM_cons, h x (by simp), ih (fun y hy => h y (by simp [hy]))]

/-- for a list of LITERALS nothing changed: if `elemHex` renders every element, `multi` gives what it gave before
the repair (`elemHex` mapped over the elements) -/
theorem multi_eq_of_literals {w : Nat} {value : Str} (hl : ∀ x ∈ listElems value, ∃ h, elemHex w x = .ok h) :
    multi w value = if !(value.contains ',') then .error .valueType else (listElems value).mapM (elemHex w) := by
  unfold multi
  split
  · rfl
  · exact mapM_congr_mem _ _ _ (fun x hx => by obtain ⟨h, hh⟩ := hl x hx; rw [elemHexP_of_ok hh, hh])

theorem listElems_joinWith (lits : List Str) (hne : lits ≠ []) (hl : ∀ x ∈ lits, x ≠ [] ∧ ',' ∉ x) :
    listElems (joinWith ',' lits) = lits := by
  unfold listElems
  rw [splitOn_joinWith ',' lits hne (fun p hp => (hl p hp).2)]
  apply List.filter_eq_self.mpr
  intro p hp
  have := (hl p hp).1
  simpa using this

/-- `multi w "e1,e2,...,en"` (at least two nonempty comma-free elements): element by element (`elemHexP` since the
repair of C2; `elemHex` before) -/
theorem multi_of_elems {w : Nat} (lits : List Str) (h2 : 2 ≤ lits.length)
    (hl : ∀ x ∈ lits, x ≠ [] ∧ ',' ∉ x) : multi w (joinWith ',' lits) = lits.mapM (elemHexP w) := by
  obtain ⟨a, b, t, rfl⟩ : ∃ a b t, lits = a :: b :: t := by
    match lits, h2 with
    | a :: b :: t, _ => exact ⟨a, b, t, rfl⟩
  have hc := contains_joinWith ',' a b t
  unfold multi
  rw [hc, listElems_joinWith (a :: b :: t) (by simp) hl]
  simp

/-- ... and for elements on which `elemHexP` is `elemHex` (literals that are rendered, texts that are not pending):
as before the repair -/
theorem multi_of_literals {w : Nat} (lits : List Str) (h2 : 2 ≤ lits.length)
    (hl : ∀ x ∈ lits, x ≠ [] ∧ ',' ∉ x) (hp : ∀ x ∈ lits, elemHexP w x = elemHex w x) :
    multi w (joinWith ',' lits) = lits.mapM (elemHex w) := by
  rw [multi_of_elems lits h2 hl]
  exact mapM_congr_mem _ _ _ hp

theorem mapM_ok_of_forall {α β} (f : α → R β) (g : α → β) (l : List α) (h : ∀ x ∈ l, f x = .ok (g x)) :
    l.mapM f = .ok (l.map g) := by
  induction l with
  | nil => rfl
  | cons x t ih =>
    rw [List.mapM_cons, h x (by simp), ih (fun y hy => h y (by simp [hy]))]
    rfl

theorem mapM_error_of_mem {α β} (f : α → R β) (l : List α) {x : α} {e : Exn} (hx : x ∈ l) (he : f x = .error e) :
    ∃ e', l.mapM f = .error e' := by
  induction l with
  | nil => cases hx
  | cons a t ih =>
    rw [List.mapM_cons]
    cases ha : f a with
    | error e1 => exact ⟨e1, rfl⟩
    | ok v =>
      rcases List.mem_cons.mp hx with rfl | hm
      · rw [he] at ha; cases ha
      · obtain ⟨e', he'⟩ := ih hm
        exact ⟨e', by simp [he', bind, Except.bind]⟩

theorem multi2_dec (lits : List Str) (h2 : 2 ≤ lits.length)
    (hl : ∀ x ∈ lits, IsDecLit x ∧ parseBase 10 x < 256) :
    multi 2 (joinWith ',' lits) = .ok ((lits.map (parseBase 10)).map byteHex) := by
  have he : ∀ x ∈ lits, elemHex 2 x = .ok (byteHex (parseBase 10 x)) := by
    intro x hx
    have hv := (hl x hx).2
    have hn := numericOfStr_dec (hl x hx).1 none .none (by omega)
    have := elemHex_byte hn (by simp [fitsByte]; omega)
    simpa [byteField] using this
  rw [multi_of_literals lits h2 (fun x hx => ⟨(hl x hx).1.1, decLit_no_comma (hl x hx).1⟩)
      (fun x hx => by rw [elemHexP_of_ok (he x hx), he x hx]),
    mapM_ok_of_forall (elemHex 2) (fun x => byteHex (parseBase 10 x)) lits he, List.map_map]
  rfl

theorem multi4_dec (lits : List Str) (h2 : 2 ≤ lits.length)
    (hl : ∀ x ∈ lits, IsDecLit x ∧ parseBase 10 x < 65536) :
    multi 4 (joinWith ',' lits) = .ok ((lits.map (parseBase 10)).map wordHex) := by
  have he : ∀ x ∈ lits, elemHex 4 x = .ok (wordHex (parseBase 10 x)) := by
    intro x hx
    have hv := (hl x hx).2
    have hn := numericOfStr_dec (hl x hx).1 none .none hv
    have := elemHex_word hn (by simp [fitsWord]; omega)
    simpa [wordField, wordHex] using this
  rw [multi_of_literals lits h2 (fun x hx => ⟨(hl x hx).1.1, decLit_no_comma (hl x hx).1⟩)
      (fun x hx => by rw [elemHexP_of_ok (he x hx), he x hx]),
    mapM_ok_of_forall (elemHex 4) (fun x => wordHex (parseBase 10 x)) lits he, List.map_map]
  rfl

/-! ### `createOperand` for a multi-value line -/

theorem createOperand_multiByte {row : InstrRow} (hp : row.isPseudo = true) (hd : row.isPseudoDefine = false)
    (hmb : row.isMultiByte = true) {s : Str} (hc : s.contains ',' = true) {hs : List Str}
    (hm : multi 2 s = .ok hs) :
    createOperand s row = .ok { kind := .pseudo, text := s, value := .multiByte hs } := by
  have hc' : ',' ∈ s := by simpa using hc
  simp [createOperand, hp, hd, hmb, hc', hm, Except.map]

theorem createOperand_multiWord {row : InstrRow} (hp : row.isPseudo = true) (hd : row.isPseudoDefine = false)
    (hmb : row.isMultiByte = false) (hmw : row.isMultiWord = true) {s : Str} (hc : s.contains ',' = true)
    {hs : List Str} (hm : multi 4 s = .ok hs) :
    createOperand s row = .ok { kind := .pseudo, text := s, value := .multiWord hs } := by
  have hc' : ',' ∈ s := by simpa using hc
  simp [createOperand, hp, hd, hmb, hmw, hc', hm, Except.map]

/-! ### a single decimal literal through `Value.create_from_str` -/

theorem isDigit_isWord {c : Char} (h : isDigit c = true) : isWord c = true := by simp [isWord, h]

theorem isDigit_isSym {c : Char} (h : isDigit c = true) : isSym c = true := by simp [isSym, isWord, h]

theorem takeWhile_all {α} (p : α → Bool) (l : List α) (h : ∀ c ∈ l, p c = true) : l.takeWhile p = l := by
  induction l with
  | nil => rfl
  | cons a t ih => simp [h a (by simp), ih (fun c hc => h c (by simp [hc]))]

theorem dropWhile_all {α} (p : α → Bool) (l : List α) (h : ∀ c ∈ l, p c = true) : l.dropWhile p = [] := by
  induction l with
  | nil => rfl
  | cons a t ih => simp [h a (by simp), ih (fun c hc => h c (by simp [hc]))]

theorem splitExpr_dec {x : Str} (hx : IsDecLit x) : splitExpr x = none := by
  obtain ⟨hne, hd⟩ := hx
  have hall : ∀ c ∈ x, isDigit c = true := List.all_eq_true.mp hd
  cases x with
  | nil => exact absurd rfl hne
  | cons a t =>
    have ha := hall a (by simp)
    have hnd : (a == '$') = false := by simpa using (isDigit_ne ha).2.2.1
    have h1 : (a :: t).takeWhile (· == '$') = [] := by simp [hnd]
    have h2 : (a :: t).dropWhile (· == '$') = a :: t := by simp [hnd]
    have h3 : (a :: t).takeWhile isSym = a :: t :=
      takeWhile_all _ _ (fun c hc => isDigit_isSym (hall c hc))
    have h4 : (a :: t).dropWhile isSym = [] :=
      dropWhile_all _ _ (fun c hc => isDigit_isSym (hall c hc))
    simp only [splitExpr, h2, h3, h4]
    simp

/-- a decimal literal as the whole operand of a non-string, non-16-bit instruction: hint 4, extended -/
theorem createV_dec {x : Str} (hx : IsDecLit x) (hv : parseBase 10 x < 65536) :
    createV x false false = .ok (.numeric (parseBase 10 x) (some 4) .extended false) := by
  have hall : ∀ c ∈ x, isDigit c = true := List.all_eq_true.mp hx.2
  have hcomma : x.contains ',' = false := by
    have := decLit_no_comma hx
    simpa using this
  cases x with
  | nil => exact absurd rfl hx.1
  | cons a t =>
    have ha := hall a (by simp)
    have n1 : (a == '<') = false := by
      have : a ≠ '<' := by rintro rfl; revert ha; decide
      simpa using this
    have n2 : (a == '>') = false := by
      have : a ≠ '>' := by rintro rfl; revert ha; decide
      simpa using this
    have n3 : (a == '#') = false := by
      have : a ≠ '#' := by rintro rfl; revert ha; decide
      simpa using this
    have hnum := numericOfStr_dec hx none .extended hv
    simp only [createV, create, Bool.false_and, Bool.false_eq_true, if_false, if_true, n1, n2, n3,
      splitExpr_dec hx, hcomma, hnum]
    simp [initHint, postInit]


/-- `PseudoOperand(d)` for a decimal literal, for every pseudo row that is not EQU / INCLUDE / END / FCC -/
theorem createOperand_pseudo_dec {row : InstrRow} (hp : row.isPseudo = true) (hd : row.isPseudoDefine = false)
    (hinc : row.isInclude = false) (hend : row.mnemonic ≠ "END") (hsd : row.isStringDefine = false)
    (h16 : row.is16Bit = false) {x : Str} (hx : IsDecLit x) (hv : parseBase 10 x < 65536) :
    createOperand x row =
      .ok { kind := .pseudo, text := x, value := .numeric (parseBase 10 x) (some 4) .extended false } := by
  have hcomma : ',' ∉ x := decLit_no_comma hx
  have hcv := createV_dec hx hv
  simp [createOperand, hp, hd, hinc, hend, hsd, h16, hcomma, hcv]

/-! ### a negative decimal literal -/

theorem numericOfStr_neg {ds : Str} (hx : IsDecLit ds) (sizeHint : Option Nat) (mode : Mode)
    (hv : parseBase 10 ds ≤ 32768) :
    numericOfStr ('-' :: ds) sizeHint mode = .ok (.numeric (parseBase 10 ds) (initHint sizeHint mode) mode true) := by
  obtain ⟨hne, hd⟩ := hx
  have hv' : ¬ parseBase 10 ds > 32768 := by omega
  have hap : ('-' == apos) = false := by decide
  unfold numericOfStr
  simp only []
  split
  · rename_i v hc
    split at hc
    · rename_i q c heq
      have : '-' = q := by injection heq
      subst this
      simp [hap] at hc
    · simp at hc
  · simp [hne, hd, hv']

theorem splitExpr_neg (ds : Str) : splitExpr ('-' :: ds) = none := by
  have h1 : ('-' == '$') = false := by decide
  have h2 : isSym '-' = false := by decide
  simp [splitExpr, h1, h2]

theorem createV_neg {ds : Str} (hx : IsDecLit ds) (hv : parseBase 10 ds ≤ 32768) :
    createV ('-' :: ds) false false = .ok (.numeric (parseBase 10 ds) (some 4) .extended true) := by
  have hcomma : (('-' :: ds).contains ',') = false := by
    have := decLit_no_comma hx
    simp [this]
  have n1 : ('-' == '<') = false := by decide
  have n2 : ('-' == '>') = false := by decide
  have n3 : ('-' == '#') = false := by decide
  have hnum := numericOfStr_neg hx none .extended hv
  simp only [createV, create, Bool.false_and, Bool.false_eq_true, if_false, if_true, n1, n2, n3,
    splitExpr_neg, hcomma, hnum]
  simp [initHint]

theorem createOperand_pseudo_neg {row : InstrRow} (hp : row.isPseudo = true) (hd : row.isPseudoDefine = false)
    (hinc : row.isInclude = false) (hsd : row.isStringDefine = false)
    (h16 : row.is16Bit = false) {ds : Str} (hx : IsDecLit ds) (hv : parseBase 10 ds ≤ 32768) :
    createOperand ('-' :: ds) row =
      .ok { kind := .pseudo, text := '-' :: ds, value := .numeric (parseBase 10 ds) (some 4) .extended true } := by
  have hcomma : ',' ∉ ds := decLit_no_comma hx
  have hcv := createV_neg hx hv
  simp [createOperand, hp, hd, hinc, hsd, h16, hcomma, hcv]

/-! ### signed decimal list elements -/

/-- a decimal literal with an optional minus sign -/
def sdec (e : Bool × Str) : Str := if e.1 then '-' :: e.2 else e.2

theorem numericOfStr_dec_big {x : Str} (hx : IsDecLit x) (sizeHint : Option Nat) (mode : Mode)
    (hv : 65536 ≤ parseBase 10 x) : numericOfStr x sizeHint mode = .error .valueType := by
  obtain ⟨hne, hd⟩ := hx
  cases x with
  | nil => exact absurd rfl hne
  | cons a t =>
    have ha : isDigit a = true := by simp [List.all_cons] at hd; exact hd.1
    obtain ⟨h1, h2, h3, h4, _⟩ := isDigit_ne ha
    unfold numericOfStr
    simp only []
    split
    · rename_i v hc
      split at hc
      · rename_i q c heq
        have : a = q := by injection heq
        subst this
        simp [h1] at hc
      · simp at hc
    · split
      · rename_i heq; injection heq with e _; exact absurd e h2
      · rename_i heq; injection heq with e _; exact absurd e h3
      · rename_i heq; injection heq with e _; exact absurd e h4
      · have hv' : parseBase 10 (a :: t) > 65535 := by omega
        simp [hd, hv']

theorem numericOfStr_neg_big {ds : Str} (hx : IsDecLit ds) (sizeHint : Option Nat) (mode : Mode)
    (hv : 32768 < parseBase 10 ds) : numericOfStr ('-' :: ds) sizeHint mode = .error .valueType := by
  obtain ⟨hne, hd⟩ := hx
  have hap : ('-' == apos) = false := by decide
  unfold numericOfStr
  simp only []
  split
  · rename_i v hc
    split at hc
    · rename_i q c heq
      have : '-' = q := by injection heq
      subst this
      simp [hap] at hc
    · simp at hc
  · simp [hne, hd, hv]

theorem sdec_ne_nil {e : Bool × Str} (hx : IsDecLit e.2) : sdec e ≠ [] := by
  unfold sdec; split
  · simp
  · exact hx.1

theorem sdec_no_comma {e : Bool × Str} (hx : IsDecLit e.2) : ',' ∉ sdec e := by
  have := decLit_no_comma hx
  unfold sdec; split
  · simpa using this
  · exact this

/-- one signed decimal element of an FCB list: the two's complement byte if it fits −128..255, else refused -/
theorem elemHex2_sdec {e : Bool × Str} (hx : IsDecLit e.2) :
    elemHex 2 (sdec e) = if fitsByte (parseBase 10 e.2) e.1 then .ok (byteHex (byteField (parseBase 10 e.2) e.1))
                          else .error .valueType := by
  obtain ⟨neg, ds⟩ := e
  dsimp only at hx ⊢
  cases neg
  · simp only [sdec, Bool.false_eq_true, if_false]
    by_cases hv : parseBase 10 ds < 65536
    · have hn := numericOfStr_dec hx none .none hv
      cases hf : fitsByte (parseBase 10 ds) false
      · simp only [Bool.false_eq_true, if_false]; exact elemHex_byte_err hn hf
      · simp only [if_true]; exact elemHex_byte hn hf
    · have hf : fitsByte (parseBase 10 ds) false = false := by simp [fitsByte]; omega
      rw [hf, elemHex_nonNumeric (numericOfStr_dec_big hx none .none (by omega))]
      rfl
  · simp only [sdec, if_true]
    by_cases hv : parseBase 10 ds ≤ 32768
    · have hn := numericOfStr_neg hx none .none hv
      cases hf : fitsByte (parseBase 10 ds) true
      · simp only [Bool.false_eq_true, if_false]; exact elemHex_byte_err hn hf
      · simp only [if_true]; exact elemHex_byte hn hf
    · have hf : fitsByte (parseBase 10 ds) true = false := by simp [fitsByte]; omega
      rw [hf, elemHex_nonNumeric (numericOfStr_neg_big hx none .none (by omega))]
      rfl

/-- one signed decimal element of an FDB list -/
theorem elemHex4_sdec {e : Bool × Str} (hx : IsDecLit e.2) :
    elemHex 4 (sdec e) = if fitsWord (parseBase 10 e.2) e.1 then .ok (wordHex (wordField (parseBase 10 e.2) e.1))
                          else .error .valueType := by
  obtain ⟨neg, ds⟩ := e
  dsimp only at hx ⊢
  cases neg
  · simp only [sdec, Bool.false_eq_true, if_false]
    by_cases hv : parseBase 10 ds < 65536
    · have hn := numericOfStr_dec hx none .none hv
      have hf : fitsWord (parseBase 10 ds) false = true := by simp [fitsWord]; omega
      rw [hf]; simp only [if_true, wordHex]; exact elemHex_word hn hf
    · have hf : fitsWord (parseBase 10 ds) false = false := by simp [fitsWord]; omega
      rw [hf, elemHex_nonNumeric (numericOfStr_dec_big hx none .none (by omega))]
      rfl
  · simp only [sdec, if_true]
    by_cases hv : parseBase 10 ds ≤ 32768
    · have hn := numericOfStr_neg hx none .none hv
      have hf : fitsWord (parseBase 10 ds) true = true := by simp [fitsWord]; omega
      rw [hf]; simp only [if_true, wordHex]; exact elemHex_word hn hf
    · have hf : fitsWord (parseBase 10 ds) true = false := by simp [fitsWord]; omega
      rw [hf, elemHex_nonNumeric (numericOfStr_neg_big hx none .none (by omega))]
      rfl

/-! #### which signed decimal texts are "pending" (kept for the symbol table) since the repair of C2 -/

/-- a decimal literal below 65536 is a number: not pending -/
theorem pendingElem_dec {x : Str} (hx : IsDecLit x) (hv : parseBase 10 x < 65536) : pendingElem x = false := by
  have := createV_dec hx hv
  unfold createV at this
  simp [pendingElem, this, Value.isSymbol, Value.isExpression]

/-- a text with a leading minus sign is a number or an error, never a symbol or an expression: not pending -/
theorem pendingElem_neg {ds : Str} (hx : IsDecLit ds) : pendingElem ('-' :: ds) = false := by
  by_cases hv : parseBase 10 ds ≤ 32768
  · have := createV_neg hx hv
    unfold createV at this
    simp [pendingElem, this, Value.isSymbol, Value.isExpression]
  · have hcomma : (('-' :: ds).contains ',') = false := by
      have := decLit_no_comma hx
      simp [this]
    have n1 : ('-' == '<') = false := by decide
    have n2 : ('-' == '>') = false := by decide
    have n3 : ('-' == '#') = false := by decide
    have n4 : isSym '-' = false := by decide
    have hnum := numericOfStr_neg_big hx none .extended (by omega)
    have : create 4 ('-' :: ds) false false true = .error .valueType := by
      simp only [create, Bool.false_and, Bool.false_eq_true, if_false, if_true, n1, n2, n3,
        splitExpr_neg, hcomma, hnum]
      simp [n4]
    simp [pendingElem, this]

/-- a signed decimal text that the parser reads as a NUMBER (a minus sign, or below 65536): not pending -/
theorem pendingElem_sdec {e : Bool × Str} (hx : IsDecLit e.2) (hn : e.1 = true ∨ parseBase 10 e.2 < 65536) :
    pendingElem (sdec e) = false := by
  obtain ⟨neg, ds⟩ := e
  cases neg
  · rcases hn with hn | hn
    · cases hn
    · exact pendingElem_dec hx hn
  · exact pendingElem_neg hx

/-- ... whereas an unsigned run of digits from 65536 on is not a number to `Value.create_from_str`: it is taken as a
SYMBOL of that name (as `FDB 70000` is, `C05_finding_FDB_70000_fixed`), so inside a list it is pending now and is
refused only when the list is evaluated (the symbol is undefined), not when the line is parsed -/
theorem pendingElem_dec_big {x : Str} (hx : IsDecLit x) (hv : 65536 ≤ parseBase 10 x) : pendingElem x = true := by
  have hall : ∀ c ∈ x, isDigit c = true := List.all_eq_true.mp hx.2
  have hcomma : x.contains ',' = false := by
    have := decLit_no_comma hx
    simpa using this
  have hsym : x.all isSym = true := List.all_eq_true.mpr (fun c hc => isDigit_isSym (hall c hc))
  cases x with
  | nil => exact absurd rfl hx.1
  | cons a t =>
    have ha := hall a (by simp)
    have n1 : (a == '<') = false := by
      have : a ≠ '<' := by rintro rfl; revert ha; decide
      simpa using this
    have n2 : (a == '>') = false := by
      have : a ≠ '>' := by rintro rfl; revert ha; decide
      simpa using this
    have n3 : (a == '#') = false := by
      have : a ≠ '#' := by rintro rfl; revert ha; decide
      simpa using this
    have hnum := numericOfStr_dec_big hx none .extended hv
    have : create 4 (a :: t) false false true = .ok (.symbol (a :: t) .extended) := by
      simp only [create, Bool.false_and, Bool.false_eq_true, if_false, if_true, n1, n2, n3,
        splitExpr_dec hx, hcomma, hnum]
      simp [hsym]
    simp [pendingElem, this, Value.isSymbol]

/-- `FCB e1,...,en` with signed decimal elements that all fit: the two's complement bytes -/
theorem multi2_sdec (lits : List (Bool × Str)) (h2 : 2 ≤ lits.length)
    (hl : ∀ e ∈ lits, IsDecLit e.2 ∧ fitsByte (parseBase 10 e.2) e.1 = true) :
    multi 2 (joinWith ',' (lits.map sdec)) = .ok ((lits.map (fun e => byteField (parseBase 10 e.2) e.1)).map byteHex) := by
  have he : ∀ e ∈ lits, elemHex 2 (sdec e) = .ok (byteHex (byteField (parseBase 10 e.2) e.1)) := by
    intro e he
    simp only [elemHex2_sdec (hl e he).1, (hl e he).2, if_true]
  rw [multi_of_literals (lits.map sdec) (by simpa using h2) ?_ ?_, List.mapM_map,
    mapM_ok_of_forall (elemHex 2 ∘ sdec) (fun e => byteHex (byteField (parseBase 10 e.2) e.1)) lits he, List.map_map]
  · rfl
  · intro x hx
    obtain ⟨e, he', rfl⟩ := List.mem_map.mp hx
    exact ⟨sdec_ne_nil (hl e he').1, sdec_no_comma (hl e he').1⟩
  · intro x hx
    obtain ⟨e, he', rfl⟩ := List.mem_map.mp hx
    rw [elemHexP_of_ok (he e he'), he e he']

/-- ... and as soon as one element THAT THE PARSER READS AS A NUMBER (`hn`: a minus sign, or below 65536) does not fit
the whole line is refused.  (Restated after the repair of C2: the hypothesis `hn` is new.  An unsigned run of digits
from 65536 on is a symbol name to the parser — `pendingElem_dec_big` — and is refused only when the list is evaluated.) -/
theorem multi2_sdec_reject (lits : List (Bool × Str)) (h2 : 2 ≤ lits.length) (hl : ∀ e ∈ lits, IsDecLit e.2)
    {e : Bool × Str} (he : e ∈ lits) (hn : e.1 = true ∨ parseBase 10 e.2 < 65536)
    (hf : fitsByte (parseBase 10 e.2) e.1 = false) :
    ∃ err, multi 2 (joinWith ',' (lits.map sdec)) = .error err := by
  rw [multi_of_elems (lits.map sdec) (by simpa using h2)
    (by intro x hx; obtain ⟨e', he', rfl⟩ := List.mem_map.mp hx; exact ⟨sdec_ne_nil (hl e' he'), sdec_no_comma (hl e' he')⟩)]
  exact mapM_error_of_mem (elemHexP 2) (lits.map sdec) (x := sdec e) (e := .valueType) (List.mem_map.mpr ⟨e, he, rfl⟩)
    (by rw [elemHexP_of_not_pending (pendingElem_sdec (hl e he) hn), elemHex2_sdec (hl e he), hf]; rfl)

theorem multi4_sdec (lits : List (Bool × Str)) (h2 : 2 ≤ lits.length)
    (hl : ∀ e ∈ lits, IsDecLit e.2 ∧ fitsWord (parseBase 10 e.2) e.1 = true) :
    multi 4 (joinWith ',' (lits.map sdec)) = .ok ((lits.map (fun e => wordField (parseBase 10 e.2) e.1)).map wordHex) := by
  have he : ∀ e ∈ lits, elemHex 4 (sdec e) = .ok (wordHex (wordField (parseBase 10 e.2) e.1)) := by
    intro e he
    simp only [elemHex4_sdec (hl e he).1, (hl e he).2, if_true]
  rw [multi_of_literals (lits.map sdec) (by simpa using h2) ?_ ?_, List.mapM_map,
    mapM_ok_of_forall (elemHex 4 ∘ sdec) (fun e => wordHex (wordField (parseBase 10 e.2) e.1)) lits he, List.map_map]
  · rfl
  · intro x hx
    obtain ⟨e, he', rfl⟩ := List.mem_map.mp hx
    exact ⟨sdec_ne_nil (hl e he').1, sdec_no_comma (hl e he').1⟩
  · intro x hx
    obtain ⟨e, he', rfl⟩ := List.mem_map.mp hx
    rw [elemHexP_of_ok (he e he'), he e he']

/-- restated like `multi2_sdec_reject` (new hypothesis `hn`); what remains for FDB are the negatives below −32768 -/
theorem multi4_sdec_reject (lits : List (Bool × Str)) (h2 : 2 ≤ lits.length) (hl : ∀ e ∈ lits, IsDecLit e.2)
    {e : Bool × Str} (he : e ∈ lits) (hn : e.1 = true ∨ parseBase 10 e.2 < 65536)
    (hf : fitsWord (parseBase 10 e.2) e.1 = false) :
    ∃ err, multi 4 (joinWith ',' (lits.map sdec)) = .error err := by
  rw [multi_of_elems (lits.map sdec) (by simpa using h2)
    (by intro x hx; obtain ⟨e', he', rfl⟩ := List.mem_map.mp hx; exact ⟨sdec_ne_nil (hl e' he'), sdec_no_comma (hl e' he')⟩)]
  exact mapM_error_of_mem (elemHexP 4) (lits.map sdec) (x := sdec e) (e := .valueType) (List.mem_map.mpr ⟨e, he, rfl⟩)
    (by rw [elemHexP_of_not_pending (pendingElem_sdec (hl e he) hn), elemHex4_sdec (hl e he), hf]; rfl)

/-- a refused list refuses the line: `PseudoOperand.__init__` raises -/
theorem createOperand_multiByte_reject {row : InstrRow} (hp : row.isPseudo = true)
    (hmb : row.isMultiByte = true) {s : Str} (hc : s.contains ',' = true) {e : Exn}
    (hm : multi 2 s = .error e) : createOperand s row = .error e := by
  have hc' : ',' ∈ s := by simpa using hc
  simp [createOperand, hp, hmb, hc', hm, Except.map]

theorem createOperand_multiWord_reject {row : InstrRow} (hp : row.isPseudo = true)
    (hmb : row.isMultiByte = false) (hmw : row.isMultiWord = true) {s : Str} (hc : s.contains ',' = true) {e : Exn}
    (hm : multi 4 s = .error e) : createOperand s row = .error e := by
  have hc' : ',' ∈ s := by simpa using hc
  simp [createOperand, hp, hmb, hmw, hc', hm, Except.map]

/-! ### FCC: a delimited string -/

/-- `FCC dbodyd`: whatever the delimiter character `d`, the value is the text between the delimiters -/
theorem createOperand_fcc {row : InstrRow} (hp : row.isPseudo = true) (hd : row.isPseudoDefine = false)
    (hmb : row.isMultiByte = false) (hmw : row.isMultiWord = false) (hinc : row.isInclude = false)
    (hsd : row.isStringDefine = true) (d : Char) (body : Str) (hs : ∀ c ∈ body, c.toNat < 256) :
    createOperand (d :: (body ++ [d])) row =
      .ok { kind := .pseudo, text := d :: (body ++ [d]), value := .str body } := by
  have hl : (d :: (body ++ [d])).getLast? = some d := by
    have : d :: (body ++ [d]) = (d :: body) ++ [d] := rfl
    rw [this, List.getLast?_append]; simp
  have hs' : ∀ c ∈ body, c.toNat ≤ 255 := fun c hc => by have := hs c hc; omega
  simp [createOperand, hp, hd, hmb, hmw, hinc, hsd, createV, create, hl]
  rw [if_pos hs']

/-! ### every string value `create` builds is narrow (model addendum to batch B2) -/

/-- one-byte characters only, if the value is a string -/
def Value.strNarrow : Value → Prop
  | .str cs => ∀ c ∈ cs, c.toNat < 256
  | _ => True

theorem numericOfStr_strNarrow {s : Str} {h : Option Nat} {m : Mode} {x : Value}
    (hx : numericOfStr s h m = .ok x) : x.strNarrow := by
  unfold numericOfStr at hx
  dsimp only at hx
  split at hx
  · rename_i heq
    simp only [Except.ok.injEq] at hx
    subst hx
    split at heq
    · split at heq
      · simp only [Option.some.injEq] at heq; subst heq; trivial
      · cases heq
    · cases heq
  · repeat' split at hx
    all_goals first | (cases hx; done) | (cases hx; trivial)

theorem create_strNarrow : ∀ (fuel : Nat) (s : Str) (a b c : Bool) (v : Value),
    create fuel s a b c = .ok v → v.strNarrow := by
  intro fuel
  cases fuel with
  | zero => intro s a b c v h; simp [create] at h
  | succ n =>
    intro s a b c v h
    unfold create at h
    split at h
    · cases h
    · dsimp only at h
      split at h
      · rename_i heq
        simp only [Except.ok.injEq] at h; subst h
        split at heq
        · rename_i hc
          simp only [Option.some.injEq] at heq; subst heq
          simp only [Bool.and_eq_true, List.all_eq_true, decide_eq_true_eq] at hc
          intro x hx
          have := hc.2 x hx
          omega
        · cases heq
      · split at h
        · rename_i heq
          simp only [Except.ok.injEq] at h; subst h
          repeat' split at heq
          all_goals first | (cases heq; done) | (cases heq; trivial)
        · split at h
          · rename_i heq
            simp only [Except.ok.injEq] at h; subst h
            repeat' split at heq
            all_goals first | (cases heq; done) | (cases heq; trivial)
          · repeat' split at h
            all_goals first
              | (cases h; done)
              | (cases h; trivial)
              | (simp only [Except.ok.injEq] at h; subst h; exact numericOfStr_strNarrow ‹_›)

/-- every string value `Value.create_from_str` builds consists of one-byte characters (model addendum: StringValue
raises on wider ones and the cascade goes on), so each character renders as exactly two hex digits -/
theorem create_str_narrow {fuel : Nat} {value : Str} {isStr is16 defExt : Bool} {cs : Str}
    (h : create fuel value isStr is16 defExt = .ok (.str cs)) : ∀ c ∈ cs, c.toNat < 256 :=
  create_strNarrow fuel value isStr is16 defExt _ h

theorem createV_str_narrow {value : Str} {isStr is16 defExt : Bool} {cs : Str}
    (h : createV value isStr is16 defExt = .ok (.str cs)) : ∀ c ∈ cs, c.toNat < 256 := create_str_narrow h

/-- hence its rendering is two hex digits per character, its length in bytes the number of characters, and it emits
the character codes -/
theorem create_str_bytes {fuel : Nat} {value : Str} {isStr is16 defExt : Bool} {cs : Str}
    (h : create fuel value isStr is16 defExt = .ok (.str cs)) :
    (Value.str cs).hex? = some ((cs.map Char.toNat).flatMap byteHex) ∧ (Value.str cs).byteLen? = some cs.length ∧
      emitValue (.str cs) = some (cs.map Char.toNat) :=
  ⟨hex_str cs (create_str_narrow h), byteLen_str cs (create_str_narrow h), emitValue_str cs (create_str_narrow h)⟩

end CoCo.Asm
