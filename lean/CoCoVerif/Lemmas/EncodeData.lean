/-
Lemmas/EncodeData.lean — the data directives (FCB FDB RMB FCC and the directives that emit nothing):
what `translatePseudo` builds for each mnemonic, what `emitValue` reads back from the values it
builds, and what the multi-value parser (`multi`, `elemHex`) prints for decimal literals (T4).
-/
import CoCoVerif.Lemmas.EncodeHex
import CoCoVerif.Lemmas.EncodeSplit

namespace CoCo.Asm
open CoCo
open CoCo.Gen (InstrRow)

/-! ### a statement whose package has only the `additional` part -/

theorem stmtBytes_additional (s : Stmt) (h1 : s.pkg.opCode = .none) (h2 : s.pkg.postByte = .none) :
    stmtBytes s = emitValue s.pkg.additional := by
  simp only [stmtBytes, h1, h2, emitValue_none]
  cases emitValue s.pkg.additional <;> rfl

/-- every value except Python `None` has an `.int` and a `hex_len()` -/
theorem int_byteLen_of_ne_pyNone (v : Value) (h : v ≠ .pyNone) :
    ∃ i bl, v.int? = some i ∧ v.byteLen? = some bl := by
  cases v <;> simp_all [Value.int?, Value.byteLen?, Value.hexLen?, Value.hex?]

/-! ### `translatePseudo`, mnemonic by mnemonic -/

theorem translatePseudo_pyNone (o : Operand) (row : InstrRow) (h : o.value = .pyNone) :
    translatePseudo o row = .error .other := by
  simp [translatePseudo, h, Value.int?]
  rfl

theorem translatePseudo_FCB_single {o : Operand} {row : InstrRow} {i bl : Nat} (hm : row.mnemonic = "FCB")
    (hi : o.value.int? = some i) (hb : o.value.byteLen? = some bl) (hnm : o.value.isMultiByte = false)
    (hlt : i < 65536) :
    translatePseudo o row = .ok { additional := .numeric i (some 2) .extended false, size := 1, maxSize := 1 } := by
  simp [translatePseudo, hm, hi, hb, hnm, numericOfInt_hint 2 hlt]
  rfl

theorem translatePseudo_FCB_multi {o : Operand} {row : InstrRow} {i bl : Nat} (hm : row.mnemonic = "FCB")
    (hi : o.value.int? = some i) (hb : o.value.byteLen? = some bl) (hnm : o.value.isMultiByte = true) :
    translatePseudo o row = .ok { additional := o.value, size := bl, maxSize := bl } := by
  simp [translatePseudo, hm, hi, hb, hnm]
  rfl

theorem translatePseudo_FDB_single {o : Operand} {row : InstrRow} {i bl : Nat} (hm : row.mnemonic = "FDB")
    (hi : o.value.int? = some i) (hb : o.value.byteLen? = some bl) (hnm : o.value.isMultiWord = false)
    (hlt : i < 65536) :
    translatePseudo o row = .ok { additional := .numeric i (some 4) .extended false, size := 2, maxSize := 2 } := by
  simp [translatePseudo, hm, hi, hb, hnm, numericOfInt_hint 4 hlt]
  rfl

theorem translatePseudo_FDB_multi {o : Operand} {row : InstrRow} {i bl : Nat} (hm : row.mnemonic = "FDB")
    (hi : o.value.int? = some i) (hb : o.value.byteLen? = some bl) (hnm : o.value.isMultiWord = true) :
    translatePseudo o row = .ok { additional := o.value, size := bl, maxSize := bl } := by
  simp [translatePseudo, hm, hi, hb, hnm]
  rfl

/-- `NumericValue(0, size_hint=w)` -/
theorem numericOfInt_zero_hint (w : Nat) :
    numericOfInt 0 (some w) .none = .ok (.numeric 0 (some w) .extended false) := by
  simpa using numericOfInt_hint (v := 0) w (by omega)

theorem translatePseudo_RMB {o : Operand} {row : InstrRow} {i bl : Nat} (hm : row.mnemonic = "RMB")
    (hi : o.value.int? = some i) (hb : o.value.byteLen? = some bl) :
    translatePseudo o row = .ok { additional := .numeric 0 (some (i * 2)) .extended false, size := i, maxSize := i } := by
  simp [translatePseudo, hm, hi, hb, numericOfInt_zero_hint]
  rfl

theorem translatePseudo_ORG {o : Operand} {row : InstrRow} {i bl : Nat} (hm : row.mnemonic = "ORG")
    (hi : o.value.int? = some i) (hb : o.value.byteLen? = some bl) :
    translatePseudo o row = .ok { address := o.value } := by
  simp [translatePseudo, hm, hi, hb]
  rfl

theorem translatePseudo_FCC {o : Operand} {row : InstrRow} {i bl : Nat} (hm : row.mnemonic = "FCC")
    (hi : o.value.int? = some i) (hb : o.value.byteLen? = some bl) :
    translatePseudo o row = .ok { additional := o.value, size := bl, maxSize := bl } := by
  simp [translatePseudo, hm, hi, hb]
  rfl

/-- every other pseudo mnemonic (EQU SETDP NAM END INCLUDE SET): the empty package -/
theorem translatePseudo_other {o : Operand} {row : InstrRow} {i bl : Nat}
    (h1 : row.mnemonic ≠ "FCB") (h2 : row.mnemonic ≠ "FDB") (h3 : row.mnemonic ≠ "RMB")
    (h4 : row.mnemonic ≠ "ORG") (h5 : row.mnemonic ≠ "FCC")
    (hi : o.value.int? = some i) (hb : o.value.byteLen? = some bl) :
    translatePseudo o row = .ok {} := by
  simp [translatePseudo, h1, h2, h3, h4, h5, hi, hb]
  rfl

/-! ### multi-value lists -/

theorem flatten_map_byteHex (bs : Bytes) : (bs.map byteHex).flatten = bs.flatMap byteHex := by
  simp [List.flatMap]

theorem length_flatMap_byteHex (bs : Bytes) : (bs.flatMap byteHex).length = 2 * bs.length := by
  induction bs with
  | nil => rfl
  | cons b bs ih => simp [List.flatMap_cons, byteHex, ih]; omega

theorem hexLen_multiByte (bs : Bytes) : (Value.multiByte (bs.map byteHex)).hexLen? = some (2 * bs.length) := by
  simp only [Value.hexLen?, Value.hex?, flatten_map_byteHex, Option.map_some, length_flatMap_byteHex]

theorem byteLen_multiByte (bs : Bytes) : (Value.multiByte (bs.map byteHex)).byteLen? = some bs.length := by
  simp [Value.byteLen?, hexLen_multiByte]

theorem emitValue_multiByte (bs : Bytes) (hb : ∀ b ∈ bs, b < 256) :
    emitValue (.multiByte (bs.map byteHex)) = some bs := by
  have := emitHex_byteHex bs hb []
  simp only [emitValue, hexLen_multiByte]
  simpa [Value.hex?, flatten_map_byteHex] using this

/-- the four hex digits of a word -/
def wordHex (v : Nat) : Str := byteHex (v / 256) ++ byteHex (v % 256)

/-- big-endian bytes of a list of words -/
def wordBytes (ws : List Nat) : Bytes := ws.flatMap (fun v => [v / 256, v % 256])

theorem wordBytes_length (ws : List Nat) : (wordBytes ws).length = 2 * ws.length := by
  induction ws with
  | nil => rfl
  | cons w ws ih => simp [wordBytes, List.flatMap_cons] at ih ⊢; omega

theorem wordBytes_lt (ws : List Nat) (h : ∀ w ∈ ws, w < 65536) : ∀ b ∈ wordBytes ws, b < 256 := by
  intro b hb
  simp only [wordBytes, List.mem_flatMap, List.mem_cons, List.not_mem_nil, or_false] at hb
  obtain ⟨w, hw, rfl | rfl⟩ := hb
  · have := h w hw; omega
  · omega

theorem flatten_map_wordHex (ws : List Nat) : (ws.map wordHex).flatten = (wordBytes ws).flatMap byteHex := by
  induction ws with
  | nil => rfl
  | cons w ws ih => simp [wordBytes, wordHex, List.flatMap_cons] at ih ⊢; exact ih

theorem hexLen_multiWord (ws : List Nat) : (Value.multiWord (ws.map wordHex)).hexLen? = some (2 * (wordBytes ws).length) := by
  simp only [Value.hexLen?, Value.hex?, flatten_map_wordHex, Option.map_some, length_flatMap_byteHex]

theorem byteLen_multiWord (ws : List Nat) : (Value.multiWord (ws.map wordHex)).byteLen? = some (2 * ws.length) := by
  simp [Value.byteLen?, hexLen_multiWord, wordBytes_length]

theorem emitValue_multiWord (ws : List Nat) (hw : ∀ w ∈ ws, w < 65536) :
    emitValue (.multiWord (ws.map wordHex)) = some (wordBytes ws) := by
  have := emitHex_byteHex (wordBytes ws) (wordBytes_lt ws hw) []
  simp only [emitValue, hexLen_multiWord]
  simpa [Value.hex?, flatten_map_wordHex] using this

/-! ### RMB: a run of zero digits -/

theorem emitPairs_zeros (n : Nat) (rest : Str) (acc : Bytes) :
    emitPairs n (List.replicate (2 * n) '0' ++ rest) acc = some (acc.reverse ++ List.replicate n 0) := by
  induction n generalizing acc with
  | zero => simp [emitPairs]
  | succ n ih =>
    have e : 2 * (n + 1) = (2 * n) + 1 + 1 := by omega
    have d0 : digitVal '0' = 0 := by decide
    rw [e, List.replicate_succ, List.replicate_succ]
    simp only [List.cons_append, emitPairs, d0]
    rw [ih]
    simp [List.replicate_succ]

theorem fmtHex_zero (w : Nat) : fmtHex w 0 = List.replicate (w - 1) '0' ++ ['0'] := by
  simp [fmtHex, natHexF, hexChar]

/-- `NumericValue(0, size_hint=2n)`: `n` zero bytes -/
theorem emit_zeros (n : Nat) (m : Mode) : emitValue (.numeric 0 (some (n * 2)) m false) = some (List.replicate n 0) := by
  rw [emitValue_numeric]
  cases n with
  | zero => simp [numHex, numHexLen, emitHex, emitPairs]
  | succ n =>
    have hne : ((n + 1) * 2 == 0) = false := by simp
    have h1 : ((n + 1) * 2 + 1) / 2 = n + 1 := by omega
    have h2 : List.replicate ((n + 1) * 2 - 1) '0' ++ ['0'] = List.replicate (2 * (n + 1)) '0' ++ [] := by
      have : (n + 1) * 2 - 1 + 1 = 2 * (n + 1) := by omega
      rw [← this, List.replicate_succ']; simp
    simp only [numHex, numHexLen, getNegative, hne, beq_self_eq_true, if_true, Bool.false_eq_true, if_false,
      Bool.not_false, fmtHex_zero, emitHex, h1]
    rw [h2, emitPairs_zeros]
    rfl

/-! ### FCC: the characters of a string -/

theorem natHexF_two {v : Nat} (h1 : 16 ≤ v) (h2 : v < 256) : natHexF 20 v = [v / 16, v % 16] := by
  have a : ¬ v < 16 := by omega
  have b : v / 16 < 16 := by omega
  simp [natHexF, a, b]

/-- after fix dfad397 (`"{:02X}"` per character) every character below 256 gives exactly one byte;
the old hypothesis `16 ≤ c.toNat` is gone -/
theorem hex_str (s : Str) (h : ∀ c ∈ s, c.toNat < 256) :
    (Value.str s).hex? = some ((s.map Char.toNat).flatMap byteHex) := by
  simp only [Value.hex?, Option.some.injEq]
  induction s with
  | nil => rfl
  | cons c s ih =>
    have hc := h c (by simp)
    simp only [List.flatMap_cons, List.map_cons, fmtHex_byte hc]
    rw [ih (fun x hx => h x (by simp [hx]))]

theorem hexLen_str (s : Str) (h : ∀ c ∈ s, c.toNat < 256) :
    (Value.str s).hexLen? = some (2 * s.length) := by
  simp only [Value.hexLen?, hex_str s h, Option.map_some, length_flatMap_byteHex, List.length_map]

theorem byteLen_str (s : Str) (h : ∀ c ∈ s, c.toNat < 256) :
    (Value.str s).byteLen? = some s.length := by
  simp [Value.byteLen?, hexLen_str s h]

theorem emitValue_str (s : Str) (h : ∀ c ∈ s, c.toNat < 256) :
    emitValue (.str s) = some (s.map Char.toNat) := by
  have := emitHex_byteHex (s.map Char.toNat) (by simpa using fun c hc => h c hc) []
  simp only [emitValue, hexLen_str s h, hex_str s h]
  simpa using this

/-! ### decimal literals -/

/-- a nonempty string of decimal digits -/
def IsDecLit (x : Str) : Prop := x ≠ [] ∧ x.all isDigit = true

instance (x : Str) : Decidable (IsDecLit x) := by unfold IsDecLit; infer_instance

theorem isDigit_ne {c : Char} (h : isDigit c = true) : c ≠ apos ∧ c ≠ '%' ∧ c ≠ '$' ∧ c ≠ '-' ∧ c ≠ ',' := by
  refine ⟨?_, ?_, ?_, ?_, ?_⟩ <;> (rintro rfl; revert h; decide)

theorem numericOfStr_dec {x : Str} (hx : IsDecLit x) (sizeHint : Option Nat) (mode : Mode)
    (hv : parseBase 10 x < 65536) :
    numericOfStr x sizeHint mode =
      .ok (.numeric (parseBase 10 x) (postInit (parseBase 10 x) (initHint sizeHint mode) mode).1
            (postInit (parseBase 10 x) (initHint sizeHint mode) mode).2 false) := by
  obtain ⟨hne, hd⟩ := hx
  cases x with
  | nil => exact absurd rfl hne
  | cons a t =>
    have ha : isDigit a = true := by simp [List.all_cons] at hd; exact hd.1
    obtain ⟨h1, h2, h3, h4, _⟩ := isDigit_ne ha
    unfold numericOfStr
    simp only []
    split
    · rename_i v hc
      split at hc
      · rename_i q c heq
        have : a = q := by injection heq
        subst this
        simp [h1] at hc
      · simp at hc
    · split
      · rename_i heq; injection heq with e _; exact absurd e h2
      · rename_i heq; injection heq with e _; exact absurd e h3
      · rename_i heq; injection heq with e _; exact absurd e h4
      · have hv' : ¬ parseBase 10 (a :: t) > 65535 := by omega
        simp [hd, hv']

theorem numHex_size (i : Nat) (h : Option Nat) (neg : Bool) {w : Nat} (hw : w ≠ 0) :
    numHex i h neg w = fmtHex w (getNegative i neg) := by
  simp [numHex, hw]

/-- one element of a multi-value list: a decimal literal is printed with the field width -/
theorem elemHex_dec {x : Str} (hx : IsDecLit x) {w : Nat} (hw : w ≠ 0) (hv : parseBase 10 x < 65536) :
    elemHex w x = .ok (fmtHex w (parseBase 10 x)) := by
  simp [elemHex, numericOfStr_dec hx none .none hv, numHex_size _ _ _ hw, getNegative]

theorem mapM_elemHex_dec {w : Nat} (hw : w ≠ 0) (lits : List Str)
    (hl : ∀ x ∈ lits, IsDecLit x ∧ parseBase 10 x < 65536) :
    lits.mapM (elemHex w) = .ok (lits.map (fun x => fmtHex w (parseBase 10 x))) := by
  induction lits with
  | nil => rfl
  | cons x t ih =>
    have hx := hl x (by simp)
    rw [List.mapM_cons, elemHex_dec hx.1 hw hx.2, ih (fun y hy => hl y (by simp [hy]))]
    rfl

theorem decLit_no_comma {x : Str} (hx : IsDecLit x) : ',' ∉ x := by
  intro hm
  have := List.all_eq_true.mp hx.2 _ hm
  exact (isDigit_ne this).2.2.2.2 rfl

/-- `multi w "d1,d2,...,dn"` (at least two decimal literals): each literal printed with width `w` -/
theorem multi_dec {w : Nat} (hw : w ≠ 0) (lits : List Str) (h2 : 2 ≤ lits.length)
    (hl : ∀ x ∈ lits, IsDecLit x ∧ parseBase 10 x < 65536)
    (hr : (w == 2 && (lits.map (fun x => fmtHex w (parseBase 10 x))).any (fun h => decide (h.length > 2))) = false) :
    multi w (joinWith ',' lits) = .ok (lits.map (fun x => fmtHex w (parseBase 10 x))) := by
  obtain ⟨a, b, t, rfl⟩ : ∃ a b t, lits = a :: b :: t := by
    match lits, h2 with
    | a :: b :: t, _ => exact ⟨a, b, t, rfl⟩
  have hc := contains_joinWith ',' a b t
  have hs := splitOn_joinWith ',' (a :: b :: t) (by simp) (fun p hp => decLit_no_comma (hl p hp).1)
  have hf : (a :: b :: t).filter (· != []) = a :: b :: t := by
    apply List.filter_eq_self.mpr
    intro p hp
    have := (hl p hp).1.1
    simpa using this
  unfold multi
  rw [hc, hs, hf, mapM_elemHex_dec hw _ hl]
  simp only [Bool.not_true, Bool.false_eq_true, if_false]
  rw [hr]
  simp

theorem multi2_dec (lits : List Str) (h2 : 2 ≤ lits.length)
    (hl : ∀ x ∈ lits, IsDecLit x ∧ parseBase 10 x < 256) :
    multi 2 (joinWith ',' lits) = .ok ((lits.map (parseBase 10)).map byteHex) := by
  rw [multi_dec (by decide) lits h2 (fun x hx => ⟨(hl x hx).1, by have := (hl x hx).2; omega⟩)
    (by
      simp only [beq_self_eq_true, Bool.true_and]
      apply Bool.eq_false_iff.mpr
      intro hany
      obtain ⟨h, hh, hlen⟩ := List.any_eq_true.mp hany
      obtain ⟨x, hx, rfl⟩ := List.mem_map.mp hh
      rw [fmtHex_byte (hl x hx).2] at hlen
      simp [byteHex] at hlen)]
  simp only [List.map_map]
  congr 1
  apply List.map_congr_left
  intro x hx
  exact fmtHex_byte (hl x hx).2

theorem multi4_dec (lits : List Str) (h2 : 2 ≤ lits.length)
    (hl : ∀ x ∈ lits, IsDecLit x ∧ parseBase 10 x < 65536) :
    multi 4 (joinWith ',' lits) = .ok ((lits.map (parseBase 10)).map wordHex) := by
  rw [multi_dec (by decide) lits h2 hl (by simp)]
  simp only [List.map_map]
  congr 1
  apply List.map_congr_left
  intro x hx
  exact fmtHex_word (hl x hx).2

/-! ### `createOperand` for a multi-value line -/

theorem createOperand_multiByte {row : InstrRow} (hp : row.isPseudo = true) (hd : row.isPseudoDefine = false)
    (hmb : row.isMultiByte = true) {s : Str} (hc : s.contains ',' = true) {hs : List Str}
    (hm : multi 2 s = .ok hs) :
    createOperand s row = .ok { kind := .pseudo, text := s, value := .multiByte hs } := by
  have hc' : ',' ∈ s := by simpa using hc
  simp [createOperand, hp, hd, hmb, hc', hm, Except.map]

theorem createOperand_multiWord {row : InstrRow} (hp : row.isPseudo = true) (hd : row.isPseudoDefine = false)
    (hmb : row.isMultiByte = false) (hmw : row.isMultiWord = true) {s : Str} (hc : s.contains ',' = true)
    {hs : List Str} (hm : multi 4 s = .ok hs) :
    createOperand s row = .ok { kind := .pseudo, text := s, value := .multiWord hs } := by
  have hc' : ',' ∈ s := by simpa using hc
  simp [createOperand, hp, hd, hmb, hmw, hc', hm, Except.map]

/-! ### a single decimal literal through `Value.create_from_str` -/

theorem isDigit_isWord {c : Char} (h : isDigit c = true) : isWord c = true := by simp [isWord, h]

theorem takeWhile_all {α} (p : α → Bool) (l : List α) (h : ∀ c ∈ l, p c = true) : l.takeWhile p = l := by
  induction l with
  | nil => rfl
  | cons a t ih => simp [h a (by simp), ih (fun c hc => h c (by simp [hc]))]

theorem dropWhile_all {α} (p : α → Bool) (l : List α) (h : ∀ c ∈ l, p c = true) : l.dropWhile p = [] := by
  induction l with
  | nil => rfl
  | cons a t ih => simp [h a (by simp), ih (fun c hc => h c (by simp [hc]))]

theorem splitExpr_dec {x : Str} (hx : IsDecLit x) : splitExpr x = none := by
  obtain ⟨hne, hd⟩ := hx
  have hall : ∀ c ∈ x, isDigit c = true := List.all_eq_true.mp hd
  cases x with
  | nil => exact absurd rfl hne
  | cons a t =>
    have ha := hall a (by simp)
    have hnd : (a == '$') = false := by simpa using (isDigit_ne ha).2.2.1
    have h1 : (a :: t).takeWhile (· == '$') = [] := by simp [hnd]
    have h2 : (a :: t).dropWhile (· == '$') = a :: t := by simp [hnd]
    have h3 : (a :: t).takeWhile isWord = a :: t :=
      takeWhile_all _ _ (fun c hc => isDigit_isWord (hall c hc))
    have h4 : (a :: t).dropWhile isWord = [] :=
      dropWhile_all _ _ (fun c hc => isDigit_isWord (hall c hc))
    simp only [splitExpr, h2, h3, h4]
    simp

/-- a decimal literal as the whole operand of a non-string, non-16-bit instruction: hint 4, extended -/
theorem createV_dec {x : Str} (hx : IsDecLit x) (hv : parseBase 10 x < 65536) :
    createV x false false = .ok (.numeric (parseBase 10 x) (some 4) .extended false) := by
  have hall : ∀ c ∈ x, isDigit c = true := List.all_eq_true.mp hx.2
  have hcomma : x.contains ',' = false := by
    have := decLit_no_comma hx
    simpa using this
  cases x with
  | nil => exact absurd rfl hx.1
  | cons a t =>
    have ha := hall a (by simp)
    have n1 : (a == '<') = false := by
      have : a ≠ '<' := by rintro rfl; revert ha; decide
      simpa using this
    have n2 : (a == '>') = false := by
      have : a ≠ '>' := by rintro rfl; revert ha; decide
      simpa using this
    have n3 : (a == '#') = false := by
      have : a ≠ '#' := by rintro rfl; revert ha; decide
      simpa using this
    have hnum := numericOfStr_dec hx none .extended hv
    simp only [createV, create, Bool.false_and, Bool.false_eq_true, if_false, if_true, n1, n2, n3,
      splitExpr_dec hx, hcomma, hnum]
    simp [initHint, postInit]


/-- `PseudoOperand(d)` for a decimal literal, for every pseudo row that is not EQU / INCLUDE / END / FCC -/
theorem createOperand_pseudo_dec {row : InstrRow} (hp : row.isPseudo = true) (hd : row.isPseudoDefine = false)
    (hinc : row.isInclude = false) (hend : row.mnemonic ≠ "END") (hsd : row.isStringDefine = false)
    (h16 : row.is16Bit = false) {x : Str} (hx : IsDecLit x) (hv : parseBase 10 x < 65536) :
    createOperand x row =
      .ok { kind := .pseudo, text := x, value := .numeric (parseBase 10 x) (some 4) .extended false } := by
  have hcomma : ',' ∉ x := decLit_no_comma hx
  have hcv := createV_dec hx hv
  simp [createOperand, hp, hd, hinc, hend, hsd, h16, hcomma, hcv]

/-! ### a negative decimal literal -/

theorem numericOfStr_neg {ds : Str} (hx : IsDecLit ds) (sizeHint : Option Nat) (mode : Mode)
    (hv : parseBase 10 ds ≤ 32768) :
    numericOfStr ('-' :: ds) sizeHint mode = .ok (.numeric (parseBase 10 ds) (initHint sizeHint mode) mode true) := by
  obtain ⟨hne, hd⟩ := hx
  have hv' : ¬ parseBase 10 ds > 32768 := by omega
  have hap : ('-' == apos) = false := by decide
  unfold numericOfStr
  simp only []
  split
  · rename_i v hc
    split at hc
    · rename_i q c heq
      have : '-' = q := by injection heq
      subst this
      simp [hap] at hc
    · simp at hc
  · simp [hne, hd, hv']

theorem splitExpr_neg (ds : Str) : splitExpr ('-' :: ds) = none := by
  have h1 : ('-' == '$') = false := by decide
  have h2 : isWord '-' = false := by decide
  simp [splitExpr, h1, h2]

theorem createV_neg {ds : Str} (hx : IsDecLit ds) (hv : parseBase 10 ds ≤ 32768) :
    createV ('-' :: ds) false false = .ok (.numeric (parseBase 10 ds) (some 4) .extended true) := by
  have hcomma : (('-' :: ds).contains ',') = false := by
    have := decLit_no_comma hx
    simp [this]
  have n1 : ('-' == '<') = false := by decide
  have n2 : ('-' == '>') = false := by decide
  have n3 : ('-' == '#') = false := by decide
  have hnum := numericOfStr_neg hx none .extended hv
  simp only [createV, create, Bool.false_and, Bool.false_eq_true, if_false, if_true, n1, n2, n3,
    splitExpr_neg, hcomma, hnum]
  simp [initHint]

theorem createOperand_pseudo_neg {row : InstrRow} (hp : row.isPseudo = true) (hd : row.isPseudoDefine = false)
    (hinc : row.isInclude = false) (hsd : row.isStringDefine = false)
    (h16 : row.is16Bit = false) {ds : Str} (hx : IsDecLit ds) (hv : parseBase 10 ds ≤ 32768) :
    createOperand ('-' :: ds) row =
      .ok { kind := .pseudo, text := '-' :: ds, value := .numeric (parseBase 10 ds) (some 4) .extended true } := by
  have hcomma : ',' ∉ ds := decLit_no_comma hx
  have hcv := createV_neg hx hv
  simp [createOperand, hp, hd, hinc, hsd, h16, hcomma, hcv]

/-! ### FCC: a delimited string -/

/-- `FCC dbodyd`: whatever the delimiter character `d`, the value is the text between the delimiters -/
theorem createOperand_fcc {row : InstrRow} (hp : row.isPseudo = true) (hd : row.isPseudoDefine = false)
    (hmb : row.isMultiByte = false) (hmw : row.isMultiWord = false) (hinc : row.isInclude = false)
    (hsd : row.isStringDefine = true) (d : Char) (body : Str) :
    createOperand (d :: (body ++ [d])) row =
      .ok { kind := .pseudo, text := d :: (body ++ [d]), value := .str body } := by
  have hl : (d :: (body ++ [d])).getLast? = some d := by
    have : d :: (body ++ [d]) = (d :: body) ++ [d] := rfl
    rw [this, List.getLast?_append]; simp
  simp [createOperand, hp, hd, hmb, hmw, hinc, hsd, createV, create, hl]

/-! ### values that are refused -/

theorem translatePseudo_FDB_reject {o : Operand} {row : InstrRow} {i bl : Nat} (hm : row.mnemonic = "FDB")
    (hi : o.value.int? = some i) (hb : o.value.byteLen? = some bl) (hnm : o.value.isMultiWord = false)
    (hge : 65536 ≤ i) : translatePseudo o row = .error .valueType := by
  have h : (i : Int) > 65535 := by omega
  simp [translatePseudo, hm, hi, hb, hnm, numericOfInt, h]
  rfl

theorem translatePseudo_FCB_reject {o : Operand} {row : InstrRow} {i bl : Nat} (hm : row.mnemonic = "FCB")
    (hi : o.value.int? = some i) (hb : o.value.byteLen? = some bl) (hnm : o.value.isMultiByte = false)
    (hge : 65536 ≤ i) : translatePseudo o row = .error .valueType := by
  have h : (i : Int) > 65535 := by omega
  simp [translatePseudo, hm, hi, hb, hnm, numericOfInt, h]
  rfl

end CoCo.Asm
