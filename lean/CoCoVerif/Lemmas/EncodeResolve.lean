/-
Lemmas/EncodeResolve.lean — `Value.resolve` since fix 0f280be (`get_symbol` evaluates an EQU that was defined by an
expression where it is used): the fuelled recursion `resolveF` one level at a time (`resolveStep`, `getSymF`), the
one-level unfolding lemmas the property files use, and the two structural facts about the fuel:

* `resolveF_mono`  — a result `ok r` stays what it is when more fuel is given;
* `resolveF_depth` — a result `ok r` at ANY fuel is already reached with fuel `t.length + 1` (a chain of EQU
  expressions that ends is no longer than the table: a key met twice is a cycle, and a cycle never ends);

from which `resolve_congr_lookup`: `resolve` depends on the table only through `SymTab.get?`.
-/
import CoCoVerif.Model.Values

namespace CoCo.Asm

/-! ### one level of `resolveF` -/

/-- `Value.get_symbol` with `fuel` levels of evaluation left: the table entry, an EQU expression evaluated first -/
def getSymF (fuel : Nat) (t : SymTab) (name : Str) : R Value :=
  match t.get? name with
  | Option.none => .error .other
  | some s => if s.isExpression then resolveF fuel s t else .ok s

/-- `SymbolValue.resolve` once the symbol has been looked up -/
def symPost (s : Value) : R Value :=
  if s.isAddress then (match s with | .address i _ => .ok (.address i .none) | _ => .error .other)
  else if s.isNumeric then
    match s with
    | .numeric i _ _ ng => numericOfInt (if ng then -(i : Int) else i) Option.none .none
    | _ => .error .other
  else .error .other

/-- the lookup of one operand of an expression -/
def lookStep (getSym : Str → R Value) (x : Value) : R Value :=
  match x with
  | .symbol name _ => getSym name
  | x => .ok x

/-- the Python int of `left op right` on the two SIGNED operands; `none` = division by zero -/
def exprArith (op : Char) (li ri : Int) : Option Int :=
  if op == '+' then some (li + ri)
  else if op == '-' then some (li - ri)
  else if op == '*' then some (li * ri)
  else if op == '/' then (if ri = 0 then Option.none else some (Int.tdiv li ri))
  else some 0

/-- `NumericValue("{}".format(left op right), mode=m)` on two numeric operands -/
def exprNum (m : Mode) (lm : Nat) (ln : Bool) (rm : Nat) (rn : Bool) (op : Char) : R Value :=
  match exprArith op (if ln then -(lm : Int) else lm) (if rn then -(rm : Int) else rm) with
  | Option.none => .error .other
  | some z =>
    match numericOfStr (if z < 0 then '-' :: (toString z.natAbs).toList else (toString z.natAbs).toList) Option.none
        (if z > 255 && m == .direct then Mode.extended else m) with
    | .ok nv => .ok nv
    | .error _ => .error .other

/-- `ExpressionValue.resolve` once both operands have been looked up -/
def exprPost (l' r' : Value) (op : Char) (mode : Mode) : R Value :=
  match l', r' with
  | .numeric lm _ _ ln, .numeric rm _ _ rn =>
    exprNum (if l'.isExtendedLike || r'.isExtendedLike then Mode.extended else Mode.direct) lm ln rm rn op
  | _, _ =>
    if l'.isAddress || r'.isAddress then .ok (.expr l' r' op mode true)
    else .error .other

/-- one level of `resolve`, the symbol lookup being given -/
def resolveStep (getSym : Str → R Value) (v : Value) : R Value :=
  match v with
  | .symbol name _ =>
    match getSym name with
    | .error e => .error e
    | .ok s => symPost s
  | .expr l r op mode _ =>
    match lookStep getSym l, lookStep getSym r with
    | .ok l', .ok r' => exprPost l' r' op mode
    | _, _ => .error .other
  | v => .ok v

theorem resolveF_zero (v : Value) (t : SymTab) : resolveF 0 v t = .error .other := rfl

theorem resolveF_succ (n : Nat) (v : Value) (t : SymTab) :
    resolveF (n + 1) v t = resolveStep (getSymF n t) v := by
  cases v <;> rfl

theorem resolve_eq_step (v : Value) (t : SymTab) : v.resolve t = resolveStep (getSymF t.length t) v :=
  resolveF_succ _ _ _

/-! ### the lookup -/

theorem getSymF_none {n : Nat} {t : SymTab} {x : Str} (h : t.get? x = Option.none) :
    getSymF n t x = .error .other := by
  simp [getSymF, h]

theorem getSymF_plain {n : Nat} {t : SymTab} {x : Str} {s : Value} (h : t.get? x = some s)
    (hs : s.isExpression = false) : getSymF n t x = .ok s := by
  simp [getSymF, h, hs]

theorem getSymF_expr {n : Nat} {t : SymTab} {x : Str} {s : Value} (h : t.get? x = some s)
    (hs : s.isExpression = true) : getSymF n t x = resolveF n s t := by
  simp [getSymF, h, hs]

/-! ### one-level unfolding of `Value.resolve` -/

/-- a value that is neither a symbol nor an expression resolves to itself -/
theorem resolve_atom (v : Value) (t : SymTab) (h1 : v.isSymbol = false)
    (h2 : ∀ l r op m b, v ≠ .expr l r op m b) : v.resolve t = .ok v := by
  rw [resolve_eq_step]
  cases v with
  | symbol => simp [Value.isSymbol] at h1
  | expr => exact absurd rfl (h2 _ _ _ _ _)
  | _ => rfl

/-- a symbol whose table entry is NOT an EQU expression: the entry decides, as before fix 0f280be -/
theorem resolve_symbol_of_get {name : Str} {m : Mode} {t : SymTab} {s : Value} (h : t.get? name = some s)
    (hs : s.isExpression = false) : (Value.symbol name m).resolve t = symPost s := by
  rw [resolve_eq_step]; simp only [resolveStep, getSymF_plain h hs]

/-- a symbol whose table entry IS an EQU expression: the expression is evaluated (one level of fuel down) -/
theorem resolve_symbol_of_expr {name : Str} {m : Mode} {t : SymTab} {s : Value} (h : t.get? name = some s)
    (hs : s.isExpression = true) :
    (Value.symbol name m).resolve t =
      (match resolveF t.length s t with | .error e => .error e | .ok s' => symPost s') := by
  rw [resolve_eq_step]; simp only [resolveStep, getSymF_expr h hs]

theorem resolve_symbol_undefined {name : Str} {m : Mode} {t : SymTab} (h : t.get? name = Option.none) :
    (Value.symbol name m).resolve t = .error .other := by
  rw [resolve_eq_step]; simp only [resolveStep, getSymF_none h]

/-- an expression: both operands are looked up, then combined -/
theorem resolve_expr_of_look {l r l' r' : Value} {op : Char} {m : Mode} {b : Bool} {t : SymTab}
    (hl : lookStep (getSymF t.length t) l = .ok l') (hr : lookStep (getSymF t.length t) r = .ok r') :
    (Value.expr l r op m b).resolve t = exprPost l' r' op m := by
  rw [resolve_eq_step]; simp only [resolveStep, hl, hr]

theorem lookStep_atom (gs : Str → R Value) (x : Value) (h : x.isSymbol = false) : lookStep gs x = .ok x := by
  cases x <;> first | rfl | (simp [Value.isSymbol] at h)

theorem lookStep_symbol (gs : Str → R Value) (name : Str) (m : Mode) : lookStep gs (.symbol name m) = gs name := rfl

/-! ### errors of an expression are all `other` -/

theorem mapErr_error {x : R Value} {e : Exn}
    (h : (match x with | .ok nv => (.ok nv : R Value) | .error _ => .error .other) = .error e) : e = .other := by
  cases x with
  | ok v => cases h
  | error e' => cases h; rfl

theorem exprNum_error {m : Mode} {lm rm : Nat} {ln rn : Bool} {op : Char} {e : Exn}
    (h : exprNum m lm ln rm rn op = .error e) : e = .other := by
  unfold exprNum at h
  cases hr : exprArith op (if ln then -(lm : Int) else lm) (if rn then -(rm : Int) else rm) with
  | none => rw [hr] at h; cases h; rfl
  | some z => rw [hr] at h; exact mapErr_error h

theorem exprPost_error {l' r' : Value} {op : Char} {mode : Mode} {e : Exn}
    (h : exprPost l' r' op mode = .error e) : e = .other := by
  unfold exprPost at h
  split at h
  · exact exprNum_error h
  · by_cases ha : (l'.isAddress || r'.isAddress) = true
    · rw [if_pos ha] at h; cases h
    · rw [if_neg ha] at h; cases h; rfl

theorem resolveStep_expr_error {gs : Str → R Value} {l r : Value} {op : Char} {mode : Mode} {b : Bool} {e : Exn}
    (h : resolveStep gs (.expr l r op mode b) = .error e) : e = .other := by
  simp only [resolveStep] at h
  split at h
  · exact exprPost_error h
  · cases h; rfl

theorem resolveF_expr_error {n : Nat} {t : SymTab} {l r : Value} {op : Char} {mode : Mode} {b : Bool} {e : Exn}
    (h : resolveF n (.expr l r op mode b) t = .error e) : e = .other := by
  cases n with
  | zero => cases h; rfl
  | succ n => rw [resolveF_succ] at h; exact resolveStep_expr_error h

theorem isExpression_elim {s : Value} (h : s.isExpression = true) : ∃ l r op m, s = .expr l r op m false := by
  cases s with
  | expr l r op m b =>
    cases b with
    | false => exact ⟨l, r, op, m, rfl⟩
    | true => simp [Value.isExpression] at h
  | _ => simp [Value.isExpression] at h

/-- an EQU expression evaluates to a value or fails with `other` -/
theorem resolveF_isExpression_error {n : Nat} {t : SymTab} {s : Value} (hs : s.isExpression = true) {e : Exn}
    (h : resolveF n s t = .error e) : e = .other := by
  obtain ⟨l, r, op, m, rfl⟩ := isExpression_elim hs
  exact resolveF_expr_error h

theorem getSymF_error {n : Nat} {t : SymTab} {x : Str} {e : Exn} (h : getSymF n t x = .error e) : e = .other := by
  unfold getSymF at h
  split at h
  · cases h; rfl
  · split at h
    · rename_i hs; exact resolveF_isExpression_error hs h
    · cases h

/-! ### monotonicity in the lookup -/

/-- if every successful lookup of `gs` is one of `gs'`, every successful step with `gs` is one with `gs'` -/
theorem resolveStep_mono {gs gs' : Str → R Value} (h : ∀ y s, gs y = .ok s → gs' y = .ok s) {v r : Value}
    (hv : resolveStep gs v = .ok r) : resolveStep gs' v = .ok r := by
  have hlook : ∀ x x', lookStep gs x = .ok x' → lookStep gs' x = .ok x' := by
    intro x x' hx
    cases x <;> first | exact hx | exact h _ _ hx
  cases v with
  | symbol name m =>
    simp only [resolveStep] at hv ⊢
    cases hg : gs name with
    | error e => rw [hg] at hv; cases hv
    | ok s => rw [hg] at hv; rw [h _ _ hg]; exact hv
  | expr l r' op mode b =>
    simp only [resolveStep] at hv ⊢
    cases hl : lookStep gs l with
    | error e => rw [hl] at hv; cases hv
    | ok l1 =>
      cases hr : lookStep gs r' with
      | error e => rw [hl, hr] at hv; cases hv
      | ok r1 => rw [hl, hr] at hv; rw [hlook _ _ hl, hlook _ _ hr]; exact hv
  | _ => exact hv

/-- a result `ok r` is kept when the fuel grows -/
theorem resolveF_mono_succ (t : SymTab) : ∀ (n : Nat) (v r : Value), resolveF n v t = .ok r → resolveF (n + 1) v t = .ok r
  | 0, _, _, h => by cases h
  | n + 1, v, r, h => by
    rw [resolveF_succ] at h ⊢
    refine resolveStep_mono ?_ h
    intro y s hy
    unfold getSymF at hy ⊢
    split at hy
    · cases hy
    · rename_i s0 hs0
      split at hy
      · rename_i he; rw [if_pos he]; exact resolveF_mono_succ t n _ _ hy
      · rename_i he; rw [if_neg he]; exact hy

theorem resolveF_mono {t : SymTab} {n m : Nat} (hnm : n ≤ m) {v r : Value} (h : resolveF n v t = .ok r) :
    resolveF m v t = .ok r := by
  induction hnm with
  | refl => exact h
  | step _ ih => exact resolveF_mono_succ t _ _ _ ih

theorem getSymF_mono {t : SymTab} {n m : Nat} (hnm : n ≤ m) {y : Str} {s : Value} (h : getSymF n t y = .ok s) :
    getSymF m t y = .ok s := by
  unfold getSymF at h ⊢
  split at h
  · cases h
  · split at h
    · rename_i he; rw [if_pos he]; exact resolveF_mono hnm h
    · rename_i he; rw [if_neg he]; exact h

/-! ### the table enters only through `get?` -/

theorem resolveF_congr_lookup {t1 t2 : SymTab} (h : ∀ k, t1.get? k = t2.get? k) :
    ∀ (n : Nat) (v : Value), resolveF n v t1 = resolveF n v t2
  | 0, _ => rfl
  | n + 1, v => by
    rw [resolveF_succ, resolveF_succ]
    have : getSymF n t1 = getSymF n t2 := by
      funext y
      unfold getSymF
      rw [h y]
      split
      · rfl
      · split
        · exact resolveF_congr_lookup h n _
        · rfl
    rw [this]

/-! ### a key removed from the table -/

/-- the table without the entries of key `x` -/
def SymTab.without (t : SymTab) (x : Str) : SymTab := t.filter (fun p => !(p.1 == x))

theorem SymTab.get?_without (t : SymTab) (x k : Str) :
    (t.without x).get? k = if k = x then Option.none else t.get? k := by
  unfold SymTab.without SymTab.get?
  induction t with
  | nil => simp
  | cons p t ih =>
    by_cases hp : p.1 = x
    · have : (!(p.1 == x)) = false := by simp [hp]
      rw [List.filter_cons_of_neg (by simp [hp])]
      rw [ih]
      by_cases hk : k = x
      · simp [hk]
      · have : (p.1 == k) = false := by
          simp only [beq_eq_false_iff_ne, ne_eq]; rintro rfl; exact hk hp
        simp [hk, this]
    · rw [List.filter_cons_of_pos (by simp [hp])]
      by_cases hk : k = x
      · subst hk
        have : (p.1 == k) = false := by simpa using hp
        rw [List.find?_cons, this]
        simp
      · by_cases hpk : p.1 = k
        · simp [hpk, hk]
        · have : (p.1 == k) = false := by simpa using hpk
          rw [List.find?_cons, this, ih, List.find?_cons, this]

theorem SymTab.length_without_lt (t : SymTab) (x : Str) {s : Value} (h : t.get? x = some s) :
    (t.without x).length < t.length := by
  unfold SymTab.without
  unfold SymTab.get? at h
  cases hf : t.find? (·.1 == x) with
  | none => rw [hf] at h; cases h
  | some p =>
    have hmem := List.mem_of_find?_eq_some hf
    have hp := List.find?_some hf
    apply List.length_filter_lt_length_iff_exists.mpr
    exact ⟨p, hmem, by simpa using hp⟩

/-- what succeeds without the key succeeds with it (the key was never looked up) -/
theorem resolveF_of_without (t : SymTab) (x : Str) :
    ∀ (n : Nat) (v r : Value), resolveF n v (t.without x) = .ok r → resolveF n v t = .ok r
  | 0, _, _, h => by cases h
  | n + 1, v, r, h => by
    rw [resolveF_succ] at h ⊢
    refine resolveStep_mono ?_ h
    intro y s hy
    unfold getSymF at hy ⊢
    rw [SymTab.get?_without] at hy
    by_cases hyx : y = x
    · rw [if_pos hyx] at hy; cases hy
    · rw [if_neg hyx] at hy
      split at hy
      · cases hy
      · split at hy
        · rename_i he; rw [if_pos he]; exact resolveF_of_without t x n _ _ hy
        · rename_i he; rw [if_neg he]; exact hy

/-- if the EQU expression `e` of key `x` does not evaluate with less than `n` fuel, nothing that succeeds with at most
`n` fuel looks `x` up -/
theorem resolveF_to_without_aux (t : SymTab) (x : Str) (e : Value) (hx : t.get? x = some e) (he : e.isExpression = true)
    (n : Nat) (hmin : ∀ m, m < n → ∀ s, resolveF m e t ≠ .ok s) :
    ∀ (m : Nat), m ≤ n → ∀ (v r : Value), resolveF m v t = .ok r → resolveF m v (t.without x) = .ok r
  | 0, _, _, _, h => by cases h
  | m + 1, hm, v, r, h => by
    rw [resolveF_succ] at h ⊢
    refine resolveStep_mono ?_ h
    intro y s hy
    by_cases hyx : y = x
    · subst hyx
      rw [getSymF_expr hx he] at hy
      exact absurd hy (hmin m (by omega) s)
    · unfold getSymF at hy ⊢
      rw [SymTab.get?_without, if_neg hyx]
      split at hy
      · cases hy
      · split at hy
        · rename_i he'; rw [if_pos he']
          exact resolveF_to_without_aux t x e hx he n hmin m (by omega) _ _ hy
        · rename_i he'; rw [if_neg he']; exact hy

/-- the EQU expression of key `x`, if it evaluates, evaluates without `x` in the table: a definition that needs itself
never ends -/
theorem resolveF_to_without (t : SymTab) (x : Str) (e : Value) (hx : t.get? x = some e) (he : e.isExpression = true) :
    ∀ (n : Nat) (r : Value), resolveF n e t = .ok r → resolveF n e (t.without x) = .ok r := by
  intro n
  induction n using Nat.strongRecOn with
  | _ n ih =>
    intro r h
    by_cases hex : ∃ m, m < n ∧ ∃ s, resolveF m e t = .ok s
    · obtain ⟨m, hm, s, hs⟩ := hex
      have hs' := resolveF_mono (Nat.le_of_lt hm) hs
      rw [h] at hs'
      cases hs'
      exact resolveF_mono (Nat.le_of_lt hm) (ih m hm _ hs)
    · have hmin : ∀ m, m < n → ∀ s, resolveF m e t ≠ .ok s := by
        intro m hm s hs; exact hex ⟨m, hm, s, hs⟩
      exact resolveF_to_without_aux t x e hx he n hmin n (Nat.le_refl _) _ _ h

/-! ### the depth of a chain of EQU expressions -/

theorem resolveF_depth_aux : ∀ (k : Nat) (t : SymTab), t.length ≤ k →
    (∀ (n : Nat) (y : Str) (s : Value), getSymF n t y = .ok s → getSymF t.length t y = .ok s)
  | 0, t, hk => by
    intro n y s h
    have : t = [] := List.eq_nil_of_length_eq_zero (by omega)
    subst this
    simp [getSymF, SymTab.get?] at h
  | k + 1, t, hk => by
    intro n y s h
    cases hg : t.get? y with
    | none => rw [getSymF_none hg] at h; cases h
    | some e =>
      cases he : e.isExpression with
      | false => rw [getSymF_plain hg he] at h ⊢; exact h
      | true =>
        rw [getSymF_expr hg he] at h ⊢
        -- the chain below `y` lives in the table without `y`
        have h1 := resolveF_to_without t y e hg he n s h
        have hlt := SymTab.length_without_lt t y hg
        have ih := resolveF_depth_aux k (t.without y) (by omega)
        -- so it needs no more than that table's length + 1
        have h2 : resolveF ((t.without y).length + 1) e (t.without y) = .ok s := by
          cases n with
          | zero => cases h1
          | succ n =>
            rw [resolveF_succ] at h1 ⊢
            exact resolveStep_mono (fun y' s' hy' => ih n y' s' hy') h1
        exact resolveF_mono (by omega) (resolveF_of_without t y _ _ _ h2)

/-- a lookup that succeeds at some fuel succeeds at fuel `t.length` -/
theorem getSymF_depth (t : SymTab) (n : Nat) (y : Str) (s : Value) (h : getSymF n t y = .ok s) :
    getSymF t.length t y = .ok s :=
  resolveF_depth_aux t.length t (Nat.le_refl _) n y s h

/-- **the fuel of `Value.resolve` is enough**: what evaluates at any fuel evaluates at fuel `t.length + 1` -/
theorem resolveF_depth (t : SymTab) (n : Nat) (v r : Value) (h : resolveF n v t = .ok r) : v.resolve t = .ok r := by
  cases n with
  | zero => cases h
  | succ n =>
    rw [resolve_eq_step]; rw [resolveF_succ] at h
    exact resolveStep_mono (fun y s hy => getSymF_depth t n y s hy) h

/-- `resolve` against two tables that answer every lookup alike (whatever their lengths) -/
theorem resolve_ok_of_lookup {t1 t2 : SymTab} (h : ∀ k, t1.get? k = t2.get? k) {v r : Value}
    (hv : v.resolve t1 = .ok r) : v.resolve t2 = .ok r := by
  have h1 : resolveF (t1.length + 1) v t2 = .ok r := by rw [← resolveF_congr_lookup h]; exact hv
  exact resolveF_depth t2 _ v r h1

theorem getSymF_length_congr {t1 t2 : SymTab} (h : ∀ k, t1.get? k = t2.get? k) (y : Str) :
    getSymF t1.length t1 y = getSymF t2.length t2 y := by
  have key : ∀ (ta tb : SymTab), (∀ k, ta.get? k = tb.get? k) → ∀ s, getSymF ta.length ta y = .ok s →
      getSymF tb.length tb y = .ok s := by
    intro ta tb hab s hs
    have : getSymF ta.length tb y = .ok s := by
      unfold getSymF at hs ⊢
      rw [← hab y]
      split at hs
      · cases hs
      · split at hs
        · rename_i he; rw [if_pos he, ← resolveF_congr_lookup hab]; exact hs
        · rename_i he; rw [if_neg he]; exact hs
    exact getSymF_depth tb _ y s this
  cases h1 : getSymF t1.length t1 y with
  | ok s => rw [key t1 t2 h s h1]
  | error e =>
    cases h2 : getSymF t2.length t2 y with
    | ok s => rw [key t2 t1 (fun k => (h k).symm) s h2] at h1; cases h1
    | error e' => rw [getSymF_error h1, getSymF_error h2]

/-- **order independence**: `resolve` depends on the table only through what `get?` answers -/
theorem resolve_congr_lookup (v : Value) (t1 t2 : SymTab) (h : ∀ k, t1.get? k = t2.get? k) :
    v.resolve t1 = v.resolve t2 := by
  rw [resolve_eq_step, resolve_eq_step]
  have : getSymF t1.length t1 = getSymF t2.length t2 := funext (getSymF_length_congr h)
  rw [this]

end CoCo.Asm
