/-
Lemmas/Cassette.lean — helper lemmas for C06 / C14 (scanning, block reading, writer shape).
-/
import CoCoVerif.Model.Cassette
import CoCoVerif.Spec.Tape

namespace CoCo.Cas
open CoCo

/-! ### generic list helpers -/

theorem drop_append_len {α} (a b : List α) (n : Nat) (h : n = a.length) : (a ++ b).drop n = b := by
  subst h; simp

theorem take_append_len {α} (a b : List α) (n : Nat) (h : n = a.length) : (a ++ b).take n = a := by
  subst h; simp

/-! ### writer shape -/

theorem padName_length (n : List Nat) : (padName n).length = 8 := by
  unfold padName; simp [List.length_take]; omega

theorem dataBlocksF_fuel (fuel : Nat) (d : Bytes) (h : d.length / 255 + 1 ≤ fuel) :
    dataBlocksF fuel d = dataBlocks d := by
  unfold dataBlocks
  induction fuel generalizing d with
  | zero => omega
  | succ fuel ih =>
    rw [dataBlocksF]
    conv => rhs; rw [dataBlocksF]
    split
    · rfl
    · split
      · rfl
      · rename_i h0 h1
        have hl : (d.drop 255).length / 255 + 1 = d.length / 255 := by
          simp [List.length_drop]; omega
        rw [ih (d.drop 255) (by omega), ← hl]

theorem dataBlocks_eq (d : Bytes) :
    dataBlocks d = if d.length = 0 then [] else if d.length < 255 then block d
                   else block (d.take 255) ++ dataBlocks (d.drop 255) := by
  conv => lhs; unfold dataBlocks; rw [dataBlocksF]
  split
  · rfl
  · split
    · rfl
    · rename_i h0 h1
      rw [dataBlocksF_fuel]
      simp [List.length_drop]; omega

theorem write_eq_flatten (fs : List CFile) : write fs = (fs.map fileBytes).flatten := by
  unfold write
  have : ∀ (acc : Bytes), fs.foldl addFile acc = acc ++ (fs.map fileBytes).flatten := by
    induction fs with
    | nil => intro acc; simp
    | cons f fs ih => intro acc; simp [List.foldl, addFile, ih, List.append_assoc]
  simpa using this []

theorem write_cons (f : CFile) (fs : List CFile) : write (f :: fs) = fileBytes f ++ write fs := by
  simp [write_eq_flatten]

/-! ### scanning -/

theorem skipTo_length {pat l r} (h : skipTo pat l = some r) : r.length ≤ l.length := by
  induction l with
  | nil => simp [skipTo] at h
  | cons b rest ih =>
    simp only [skipTo] at h
    split at h
    · cases h; simp
    · have := ih h; simp; omega

/-- leader bytes in front of a sync pair are skipped -/
theorem skipTo_rep55 (n : Nat) (rest : Bytes) :
    skipTo [0x55, 0x3C] (List.replicate n 0x55 ++ (0x55 :: 0x3C :: rest)) = some (0x55 :: 0x3C :: rest) := by
  induction n with
  | zero => simp [skipTo, List.isPrefixOf]
  | succ n ih =>
    simp only [List.replicate_succ, List.cons_append, skipTo]
    cases n with
    | zero => simp [List.isPrefixOf, skipTo]
    | succ m => simp [List.replicate_succ, List.isPrefixOf]; simpa [List.replicate_succ] using ih

theorem skipTo3_rep55 (n : Nat) (rest : Bytes) :
    skipTo [0x55, 0x3C, 0x00] (List.replicate n 0x55 ++ (0x55 :: 0x3C :: 0x00 :: rest))
      = some (0x55 :: 0x3C :: 0x00 :: rest) := by
  induction n with
  | zero => simp [skipTo, List.isPrefixOf]
  | succ n ih =>
    simp only [List.replicate_succ, List.cons_append, skipTo]
    cases n with
    | zero => simp [List.isPrefixOf, skipTo]
    | succ m => simp [List.replicate_succ, List.isPrefixOf]; simpa [List.replicate_succ] using ih

/-- gap bytes are skipped by any pattern that does not start with 0 -/
theorem skipTo_rep0 (p : Nat) (ps : Bytes) (hp0 : p ≠ 0) (n : Nat) (rest : Bytes) :
    skipTo (p :: ps) (List.replicate n 0 ++ rest) = skipTo (p :: ps) rest := by
  induction n with
  | zero => simp
  | succ n ih =>
    simp only [List.replicate_succ, List.cons_append, skipTo, List.isPrefixOf]
    have : (p == 0) = false := by simpa using hp0
    simp [this, ih]

/-- nothing but leader: no block start -/
theorem skipTo_only55 (ps : Bytes) (n : Nat) :
    skipTo (0x55 :: 0x3C :: ps) (List.replicate n 0x55) = none := by
  induction n with
  | zero => simp [skipTo]
  | succ n ih =>
    simp only [List.replicate_succ, skipTo]
    cases n with
    | zero => simp [List.isPrefixOf, skipTo]
    | succ m => simp [List.replicate_succ, List.isPrefixOf]; simpa [List.replicate_succ] using ih

/-- skipping a whole filler (gap then leader) in front of a block -/
theorem skipTo_filler {g : Bytes} (hg : Spec.Tape.Filler g) (rest : Bytes) :
    skipTo [0x55, 0x3C] (g ++ (0x55 :: 0x3C :: rest)) = some (0x55 :: 0x3C :: rest) := by
  obtain ⟨a, b, rfl⟩ := hg
  rw [List.append_assoc, skipTo_rep0 _ _ (by decide), skipTo_rep55]

theorem skipTo3_filler {g : Bytes} (hg : Spec.Tape.Filler g) (rest : Bytes) :
    skipTo [0x55, 0x3C, 0x00] (g ++ (0x55 :: 0x3C :: 0x00 :: rest)) = some (0x55 :: 0x3C :: 0x00 :: rest) := by
  obtain ⟨a, b, rfl⟩ := hg
  rw [List.append_assoc, skipTo_rep0 _ _ (by decide), skipTo3_rep55]

theorem skipTo3_filler_only {g : Bytes} (hg : Spec.Tape.Filler g) :
    skipTo [0x55, 0x3C, 0x00] g = none := by
  obtain ⟨a, b, rfl⟩ := hg
  rw [skipTo_rep0 _ _ (by decide), skipTo_only55]

/-! ### block reading -/

/-- one framed data block (after any filler) is consumed by one iteration; the payload is arbitrary -/
theorem readBlocksF_frame {g : Bytes} (hg : Spec.Tape.Filler g) (p rest acc : Bytes) (fuel : Nat) :
    readBlocksF (fuel + 1) (g ++ (Spec.Tape.frame 0x01 p ++ rest)) acc
      = readBlocksF fuel rest (acc ++ p) := by
  simp only [Spec.Tape.frame, List.append_assoc, List.cons_append, List.nil_append]
  rw [readBlocksF]
  simp only [skipTo_filler hg]
  simp only [List.drop_succ_cons, List.drop_zero]
  have h1 : ¬ ((1 : Nat) = 0xFF) := by decide
  simp only [h1, if_false, if_true]
  have hlen : ¬ ((p ++ ((1 + p.length + bsum p) % 256 :: 85 :: rest)).length < p.length) := by
    simp
  simp only [hlen, if_false]
  congr 1
  · have : p ++ ((1 + p.length + bsum p) % 256 :: 85 :: rest)
        = (p ++ [(1 + p.length + bsum p) % 256, 85]) ++ rest := by simp
    rw [this]
    exact drop_append_len _ _ _ (by simp)
  · rw [take_append_len _ _ _ rfl]

theorem readBlocksF_eof {g : Bytes} (hg : Spec.Tape.Filler g) (rest acc : Bytes) (fuel : Nat) :
    readBlocksF (fuel + 1) (g ++ (Spec.Tape.frame 0xFF [] ++ rest)) acc = .ok (acc, rest) := by
  simp only [Spec.Tape.frame, List.cons_append, List.nil_append, List.append_nil]
  rw [readBlocksF]
  simp [skipTo_filler hg]

/-- number of blocks in a `DataBlocks` derivation is at most the number of data bytes -/
theorem readBlocksF_dataBlocks {d db : Bytes} (h : Spec.Tape.DataBlocks d db)
    {g₂ : Bytes} (hg₂ : Spec.Tape.Filler g₂) (rest acc : Bytes) (fuel : Nat) (hf : d.length + 1 ≤ fuel) :
    readBlocksF fuel (db ++ (g₂ ++ (Spec.Tape.frame 0xFF [] ++ rest))) acc = .ok (acc ++ d, rest) := by
  induction h generalizing acc fuel with
  | nil =>
    cases fuel with
    | zero => omega
    | succ f => simpa using readBlocksF_eof hg₂ rest acc f
  | @cons p d g bs hp0 hp255 hg _ ih =>
    cases fuel with
    | zero => omega
    | succ f =>
      rw [List.append_assoc, List.append_assoc, readBlocksF_frame hg]
      rw [ih (acc ++ p) f (by simp at hf; omega)]
      simp [List.append_assoc]

end CoCo.Cas
