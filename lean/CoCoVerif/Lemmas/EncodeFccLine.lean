/-
Lemmas/EncodeFccLine.lean — the FCC (string-define) branch of `Statement.parse_line` since fix d74c37d: the string is
taken from the line as it was written, `line[data.start("operands"):].rstrip()` (`rstrip (operandsTail line)`).
`rstrip`, `operandsTail` and `scanLine` on a line `label blank mnemonic blank rest`, and `parseLine` on a string-define
line whose operand text is `d body d rest` (helpers of C05).
-/
import CoCoVerif.Lemmas.EncodeData
import CoCoVerif.Model.Program

namespace CoCo.Asm
open CoCo
open CoCo.Gen (InstrRow)

/-- `rstrip` removes the blanks at the end and nothing else -/
theorem rstrip_append_blanks (s ws : Str) (hs : ∀ c ∈ s.getLast?, isSpace c = false) (hw : ∀ c ∈ ws, isSpace c = true) :
    rstrip (s ++ ws) = s := by
  unfold rstrip
  rw [List.reverse_append, List.dropWhile_append_of_pos (by simpa using hw)]
  have : s.reverse.dropWhile isSpace = s.reverse := by
    cases h : s.reverse with
    | nil => rfl
    | cons a r =>
      have ha : isSpace a = false := hs a (by rw [List.getLast?_eq_head?_reverse, h]; rfl)
      simp [ha]
  rw [this, List.reverse_reverse]

/-- the `operands` group starts after label, blanks, mnemonic, blanks: whatever follows is taken as it is -/
theorem operandsTail_line (label mn rest : Str) (hl : ∀ c ∈ label, isLabelCh c = true) (hm : ∀ c ∈ mn, isWord c = true)
    (hne : mn ≠ []) (hr : ∀ c ∈ rest.head?, isSpace c = false) :
    operandsTail (label ++ ' ' :: (mn ++ ' ' :: rest)) = rest := by
  have hrest : rest.dropWhile isSpace = rest := by
    cases rest with
    | nil => rfl
    | cons a r => simp [hr a (by simp)]
  have hsp : isSpace ' ' = true := by decide
  have hw : isWord ' ' = false := by decide
  have hlc : isLabelCh ' ' = false := by decide
  cases mn with
  | nil => exact absurd rfl hne
  | cons a m =>
    have ha : isSpace a = false := by
      have := hm a (by simp)
      cases hsa : isSpace a with
      | false => rfl
      | true =>
        exfalso
        simp only [isSpace, Bool.or_eq_true, beq_iff_eq] at hsa
        rcases hsa with ((((rfl | rfl) | rfl) | rfl) | rfl) | rfl <;> revert this <;> decide
    unfold operandsTail
    rw [List.dropWhile_append_of_pos hl, List.dropWhile_cons_of_neg (by simp [hlc]),
      List.dropWhile_cons_of_pos hsp]
    have : ((a :: m) ++ ' ' :: rest).dropWhile isSpace = (a :: m) ++ ' ' :: rest := by
      simp [ha]
    rw [this, List.dropWhile_append_of_pos hm, List.dropWhile_cons_of_neg (by simp [hw]),
      List.dropWhile_cons_of_pos hsp, hrest]

theorem findIdx_delim (d : Char) (body rest : Str) (hd : d ∉ body) :
    (body ++ d :: rest).findIdx? (· == d) = some body.length := by
  induction body with
  | nil => simp [List.findIdx?_cons]
  | cons a b ih =>
    have hne : (a == d) = false := by
      simp only [beq_eq_false_iff_ne, ne_eq]; rintro rfl; exact hd (by simp)
    have := ih (fun h => hd (by simp [h]))
    simp [List.findIdx?_cons, hne, this]

theorem take_delim (d : Char) (body rest : Str) : (body ++ d :: rest).take (body.length + 1) = body ++ [d] := by
  induction body with
  | nil => simp
  | cons a b ih => simp [ih]

theorem drop_delim (d : Char) (body rest : Str) : (body ++ d :: rest).drop (body.length + 1) = rest := by
  induction body with
  | nil => simp
  | cons a b ih => simp

theorem strip_delimited (d : Char) (body : Str) (hd : isSpace d = false) :
    strip (d :: (body ++ [d])) = d :: (body ++ [d]) := by
  unfold strip
  rw [List.dropWhile_cons_of_neg (by simp [hd])]
  have : (d :: (body ++ [d])).reverse = d :: (body.reverse ++ [d]) := by simp
  rw [this, List.dropWhile_cons_of_neg (by simp [hd])]
  simp

/-- **FCC takes its string from the line as it was written** (fix d74c37d): when the text from the operand column to the
end of the line (blanks at the end removed) is `d body d rest`, `d` not in `body`, the operand is built from `d body d`
— `body` is ARBITRARY: blanks, runs of blanks, `;` and characters outside the operand class are all kept — and the
comment is `rest` without its blanks and leading semicolons -/
theorem parseLine_fcc {line label mn0 ops cmt : Str} {row : InstrRow} {o : Operand} (d : Char) (body rest : Str)
    (hscan : scanLine line = .asm label mn0 ops cmt) (hrow : findRow (mn0.map upperC) = some row)
    (hsd : row.isStringDefine = true) (hoo : rstrip (operandsTail line) = d :: (body ++ d :: rest))
    (hd : d ∉ body) (hdsp : isSpace d = false) (hc : createOperand (d :: (body ++ [d])) row = .ok o) :
    parseLine line = .ok (some {
      label := label, mnemonic := mn0.map upperC, row := row, operand := o, origText := o.text,
      comment := strip ((strip rest).dropWhile (· == ';')) }) := by
  unfold parseLine
  rw [hscan]
  simp only [hrow, hsd, if_true, hoo]
  have hf : findFrom1 d (d :: (body ++ d :: rest)) = some (body.length + 1) := by
    simp [findFrom1, findIdx_delim d body rest hd]
  rw [hf]
  simp only
  have ht : (d :: (body ++ d :: rest)).take (body.length + 1 + 1) = d :: (body ++ [d]) := by
    rw [List.take_succ_cons, take_delim]
  have hdr : (d :: (body ++ d :: rest)).drop (body.length + 1 + 1) = rest := by
    rw [List.drop_succ_cons, drop_delim]
  rw [ht, hdr, strip_delimited d body hdsp, hc]


theorem isWord_not_space {a : Char} (h : isWord a = true) : isSpace a = false := by
  cases hsa : isSpace a with
  | false => rfl
  | true =>
    exfalso
    simp only [isSpace, Bool.or_eq_true, beq_iff_eq] at hsa
    rcases hsa with ((((rfl | rfl) | rfl) | rfl) | rfl) | rfl <;> revert h <;> decide

theorem isLabelCh_not_space {a : Char} (h : isLabelCh a = true) : isSpace a = false := by
  simp only [isLabelCh, Bool.or_eq_true, beq_iff_eq] at h
  rcases h with h | rfl
  · exact isWord_not_space h
  · decide

theorem dotStarEnd_of_noNewline (s : Str) (h : '\n' ∉ s) : dotStarEnd s = some s := by
  unfold dotStarEnd
  have h1 : (s.getLast? == some '\n') = false := by
    cases hl : s.getLast? with
    | none => rfl
    | some c =>
      have : c ∈ s := List.mem_of_getLast? hl
      have : c ≠ '\n' := by rintro rfl; exact h this
      simpa using this
  simp [h1, h]

/-- the scanner on `label blank mnemonic blank rest` (one blank each, `rest` not starting with a blank): label and
mnemonic are found, the `operands` group is the longest prefix of `rest` in the operand class -/
theorem scanLine_line (label mn rest : Str) (hl : ∀ c ∈ label, isLabelCh c = true) (hm : ∀ c ∈ mn, isWord c = true)
    (hne : mn ≠ []) (hr : ∀ c ∈ rest.head?, isSpace c = false) :
    scanLine (label ++ ' ' :: (mn ++ ' ' :: rest)) =
      (match dotStarEnd (((rest.dropWhile isOperandCh).dropWhile isSpace).dropWhile (· == ';')) with
       | none => .bad
       | some c => .asm label mn (rest.takeWhile isOperandCh) c) := by
  have hrest : rest.dropWhile isSpace = rest := by
    cases rest with
    | nil => rfl
    | cons a r => simp [hr a (by simp)]
  have hsp : isSpace ' ' = true := by decide
  have hw : isWord ' ' = false := by decide
  have hlc : isLabelCh ' ' = false := by decide
  cases mn with
  | nil => exact absurd rfl hne
  | cons a m =>
    have haw : isWord a = true := hm a (by simp)
    have ha : isSpace a = false := isWord_not_space haw
    have hsemi : a ≠ ';' := by rintro rfl; revert haw; decide
    have hall : (label ++ ' ' :: ((a :: m) ++ ' ' :: rest)).all isSpace = false := by
      rw [Bool.eq_false_iff]; intro h
      have := List.all_eq_true.mp h a (by simp)
      rw [ha] at this; cases this
    have hcomment : ¬ ((((label ++ ' ' :: ((a :: m) ++ ' ' :: rest)).dropWhile isSpace).head? == some ';') = true ∧
        (dotStarEnd ((label ++ ' ' :: ((a :: m) ++ ' ' :: rest)).dropWhile isSpace)).isSome) := by
      rintro ⟨h, _⟩
      cases label with
      | nil =>
        simp [hsp, ha] at h
        exact hsemi h
      | cons c l =>
        have hc := hl c (by simp)
        have := isLabelCh_not_space hc
        simp [this] at h
        subst h; revert hc; decide
    have e1 : (label ++ ' ' :: ((a :: m) ++ ' ' :: rest)).takeWhile isLabelCh = label := by
      rw [List.takeWhile_append_of_pos hl]; simp [hlc]
    have e2 : (label ++ ' ' :: ((a :: m) ++ ' ' :: rest)).dropWhile isLabelCh = ' ' :: ((a :: m) ++ ' ' :: rest) := by
      rw [List.dropWhile_append_of_pos hl]; simp [hlc]
    have e3 : (' ' :: ((a :: m) ++ ' ' :: rest)).takeWhile isSpace = [' '] := by simp [hsp, ha]
    have e4 : (' ' :: ((a :: m) ++ ' ' :: rest)).dropWhile isSpace = (a :: m) ++ ' ' :: rest := by simp [hsp, ha]
    have e5 : ((a :: m) ++ ' ' :: rest).takeWhile isWord = a :: m := by
      rw [List.takeWhile_append_of_pos hm]; simp [hw]
    have e6 : ((a :: m) ++ ' ' :: rest).dropWhile isWord = ' ' :: rest := by
      rw [List.dropWhile_append_of_pos hm]; simp [hw]
    have e7 : (' ' :: rest).dropWhile isSpace = rest := by
      rw [List.dropWhile_cons_of_pos hsp, hrest]
    have e8 : ((' ' :: rest).takeWhile isSpace).isEmpty = false := by simp [hsp]
    unfold scanLine
    simp only [hall, Bool.false_eq_true, if_false]
    rw [if_neg hcomment, e1, e2, e3, e4, e5, e6, e7, e8]
    simp
    rfl


theorem not_mem_dropWhile {α} {p : α → Bool} {x : α} {l : List α} (h : x ∉ l) : x ∉ l.dropWhile p :=
  fun hm => h ((List.dropWhile_sublist p).subset hm)

end CoCo.Asm
