/-
Lemmas/EncodeLists.lean — symbols, expressions and labels INSIDE an FCB / FDB list (repair of finding C2, model batch 8):
one-level unfoldings of `evalElem` (what an element that was kept for the symbol table is replaced by) and of
`evalElems` (position by position: literals keep their digits, pending elements are evaluated).  For Props/C05.lean.
-/
import CoCoVerif.Lemmas.EncodeData
import CoCoVerif.Lemmas.EncodeResolve
import CoCoVerif.Model.Program

namespace CoCo.Asm
open CoCo

/-! ### rendering a number at the width of the directive -/

/-- `NumericValue.fit(w).hex()` as `evalElem` uses it: "does not fit" is a diagnostic -/
def renderAt (w : Nat) (n : Nat) (neg : Bool) : Outcome Str :=
  match fitNum n neg w with
  | .ok f => (match f.hex? with | some h => .ok h | none => .internal)
  | .error _ => .diag

/-- two digits: −128..255, a negative number in two's complement -/
theorem renderAt_byte (n : Nat) (neg : Bool) :
    renderAt 2 n neg = if fitsByte n neg then .ok (byteHex (byteField n neg)) else .diag := by
  cases hf : fitsByte n neg
  · simp [renderAt, fitNum_byte_err hf]
  · simp [renderAt, fitNum_byte hf, Value.hex?, numHex, getNegative, fmtHex_byte (byteField_lt hf)]

/-- four digits: −32768..65535 -/
theorem renderAt_word (n : Nat) (neg : Bool) :
    renderAt 4 n neg = if fitsWord n neg then .ok (wordHex (wordField n neg)) else .diag := by
  cases hf : fitsWord n neg
  · simp [renderAt, fitNum_word_err hf]
  · simp [renderAt, fitNum_word hf, Value.hex?, numHex, getNegative, fmtHex_word (wordField_lt hf), wordHex]

/-- a literal is rendered the same way when the line is parsed (`elemHex`) -/
theorem elemHex_eq_renderAt {w : Nat} {x : Str} {i : Nat} {h : Option Nat} {m : Mode} {neg : Bool}
    (hn : numericOfStr x none .none = .ok (.numeric i h m neg)) :
    (match elemHex w x with | .ok s => Outcome.ok s | .error _ => .diag) =
      (match renderAt w i neg with | .internal => .diag | o => o) := by
  simp only [elemHex, hn, renderAt]
  cases fitNum i neg w with
  | error e => rfl
  | ok f => simp only []; cases hh : f.hex? <;> simp

/-! ### `evalElem`, case by case -/

variable {ss : List Stmt} {t : SymTab} {w : Nat} {x : Str}

/-- a text `Value.create_from_str` refuses: a diagnostic -/
theorem evalElem_create_error {e : Exn} (hc : create 4 x false false true = .error e) : evalElem ss t w x = .diag := by
  simp [evalElem, hc]

/-- a value `resolve` refuses (an undefined symbol, an EQU cycle, a division by zero, an unresolved expression) -/
theorem evalElem_resolve_error {v : Value} {e : Exn} (hc : create 4 x false false true = .ok v)
    (hr : v.resolve t = .error e) : evalElem ss t w x = .diag := by
  simp [evalElem, hc, hr]

/-- a value that resolves to a NUMBER (a constant, an expression of constants): the number at the width of the
directive -/
theorem evalElem_numeric {v : Value} {n : Nat} {h : Option Nat} {m : Mode} {neg : Bool}
    (hc : create 4 x false false true = .ok v) (hr : v.resolve t = .ok (.numeric n h m neg)) :
    evalElem ss t w x = renderAt w n neg := by
  simp only [evalElem, hc, hr, Value.isAddress, Value.isAddrExpr, Bool.false_eq_true, if_false, renderAt]
  cases fitNum n neg w with
  | error e => rfl
  | ok f => cases f.hex? <;> rfl

/-- a value that resolves to a LABEL (statement `j`): the address of that statement at the width of the directive -/
theorem evalElem_address {v : Value} {j : Nat} {mo : Mode} {a : Nat} {h : Option Nat} {m : Mode} {neg : Bool}
    (hc : create 4 x false false true = .ok v) (hr : v.resolve t = .ok (.address j mo))
    (ha : addrOf ss j = some (.numeric a h m neg)) : evalElem ss t w x = renderAt w a neg := by
  simp only [evalElem, hc, hr, Value.isAddress, if_true, Value.int?, ha, renderAt]
  cases fitNum a neg w with
  | error e => rfl
  | ok f => cases f.hex? <;> rfl

/-- a label that points at no statement (unreachable: `buildSymTab` only enters indices of statements) -/
theorem evalElem_address_missing {v : Value} {j : Nat} {mo : Mode}
    (hc : create 4 x false false true = .ok v) (hr : v.resolve t = .ok (.address j mo))
    (ha : addrOf ss j = none) : evalElem ss t w x = .internal := by
  simp [evalElem, hc, hr, Value.isAddress, Value.int?, ha]

/-- a value that resolves to a LABEL EXPRESSION (`L1+1`, `L2-L1`): `calculate_address_offset` on the final addresses,
then the width -/
theorem evalElem_addrExpr {v l r : Value} {op : Char} {mo : Mode}
    (hc : create 4 x false false true = .ok v) (hr : v.resolve t = .ok (.expr l r op mo true)) :
    evalElem ss t w x =
      (match addrOffset ss (.expr l r op mo true) with
       | .ok (.numeric n _ _ neg) => renderAt w n neg
       | .ok _ => .diag
       | .diag => .diag
       | .internal => .internal
       | .diverged => .diverged) := by
  simp only [evalElem, hc, hr, Value.isAddress, Value.isAddrExpr, Bool.false_eq_true, if_false, if_true, renderAt]
  cases addrOffset ss (.expr l r op mo true) with
  | ok a =>
    cases a with
    | numeric n h m neg =>
      cases fitNum n neg w with
      | error e => rfl
      | ok f => cases f.hex? <;> rfl
    | _ => rfl
  | _ => rfl

/-- a value that resolves to something without a number (a string …): a diagnostic -/
theorem evalElem_other {v r : Value} (hc : create 4 x false false true = .ok v) (hr : v.resolve t = .ok r)
    (h1 : r.isAddress = false) (h2 : r.isAddrExpr = false) (h3 : r.isNumeric = false) : evalElem ss t w x = .diag := by
  simp only [evalElem, hc, hr, h1, h2, Bool.false_eq_true, if_false]
  cases r <;> simp_all [Value.isNumeric]

/-! ### what `resolve` yields for a symbol -/

/-- a symbol bound to a numeric constant: `NumericValue(symbol.signed())` -/
theorem resolve_symbol_numeric {name : Str} {mo : Mode} {v : Nat} {h : Option Nat} {m : Mode} {neg : Bool}
    (ht : t.get? name = some (.numeric v h m neg)) (hlt : v < 65536) :
    ∃ h' m', (Value.symbol name mo).resolve t = .ok (.numeric v h' m' (neg && decide (0 < v))) := by
  rw [resolve_symbol_of_get ht rfl]
  simp only [symPost, Value.isAddress, Value.isNumeric, Bool.false_eq_true, if_false, if_true]
  refine ⟨(postInit v (initHint none .none) .none).1, (postInit v (initHint none .none) .none).2, ?_⟩
  cases neg
  · have a : ¬ ((v : Int) > 65535) := by omega
    have b : ¬ ((v : Int) < 0) := by omega
    simp [numericOfInt, a, b]
  · have a : ¬ (-(v : Int) > 65535) := by omega
    have e : (-(v : Int)).natAbs = v := by omega
    have d : decide (-(v : Int) < 0) = decide (0 < v) := by
      by_cases h0 : 0 < v <;> simp [h0]
    simp only [numericOfInt, a, if_false, if_true, e, Bool.true_and, d]

/-- a symbol bound to a label -/
theorem resolve_symbol_address {name : Str} {mo : Mode} {j : Nat} {m : Mode}
    (ht : t.get? name = some (.address j m)) : (Value.symbol name mo).resolve t = .ok (.address j .none) := by
  rw [resolve_symbol_of_get ht rfl]
  rfl

/-- the sign `resolve` gives to `-0` does not matter to the rendering -/
theorem renderAt_negZero (w : Nat) (v : Nat) (neg : Bool) : renderAt w v (neg && decide (0 < v)) = renderAt w v neg := by
  cases neg
  · rfl
  · by_cases h0 : 0 < v
    · simp [h0]
    · have : v = 0 := by omega
      subst this
      simp [renderAt, fitNum]

/-! ### `evalElems`, position by position -/

/-- is this element replaced when the lists are evaluated?  (a symbol or an expression that is not a literal) -/
def isPending (w : Nat) (x : Str) : Bool := pendingElem x && (elemHex w x matches .error _)

theorem isPending_of_ok {x h : Str} (he : elemHex w x = .ok h) : isPending w x = false := by
  simp [isPending, he]

theorem isPending_of_not_pending (hp : pendingElem x = false) : isPending w x = false := by
  simp [isPending, hp]

theorem isPending_of_error {e : Exn} (hp : pendingElem x = true) (he : elemHex w x = .error e) : isPending w x = true := by
  simp [isPending, hp, he]

/-- what `elemHexP` stores for an element when the line is parsed: a literal's digits, zeros for a pending element -/
theorem elemHexP_of_isPending (hp : isPending w x = true) : elemHexP w x = .ok (List.replicate w '0') := by
  unfold isPending at hp
  unfold elemHexP
  cases he : elemHex w x with
  | ok h => simp [he] at hp
  | error e => simp [he] at hp; simp [hp]

theorem elemHexP_of_not_isPending (hp : isPending w x = false) : elemHexP w x = elemHex w x := by
  unfold isPending at hp
  unfold elemHexP
  cases he : elemHex w x with
  | ok h => rfl
  | error e =>
    have : pendingElem x = false := by simpa [he] using hp
    simp [this]

theorem encl_evalElems_nil_left (hs : List Str) : evalElems ss t w [] hs = .ok [] := by
  cases hs <;> rfl

theorem encl_evalElems_nil_right (xs : List Str) : evalElems ss t w xs [] = .ok [] := by
  cases xs <;> rfl

/-- the value of position `x` with parse-time digits `h` -/
def elemFinal (ss : List Stmt) (t : SymTab) (w : Nat) (x h : Str) : Outcome Str :=
  if isPending w x then evalElem ss t w x else .ok h

theorem encl_evalElems_cons {xs hs : List Str} {h : Str} :
    evalElems ss t w (x :: xs) (h :: hs) =
      (match elemFinal ss t w x h with
       | .ok h' => (match evalElems ss t w xs hs with | .ok r => .ok (h' :: r) | o => o)
       | .diag => .diag
       | .internal => .internal
       | .diverged => .diverged) := by
  rw [evalElems]
  rfl

/-- a LITERAL position keeps the digits it was given when the line was parsed -/
theorem evalElems_cons_keep {xs hs : List Str} {h : Str} (hp : isPending w x = false) :
    evalElems ss t w (x :: xs) (h :: hs) =
      (match evalElems ss t w xs hs with | .ok r => .ok (h :: r) | o => o) := by
  rw [encl_evalElems_cons]
  simp only [elemFinal, hp, Bool.false_eq_true, if_false]

/-- a PENDING position is evaluated; the first failure, from left to right, is the result -/
theorem evalElems_cons_eval {xs hs : List Str} {h : Str} (hp : isPending w x = true) :
    evalElems ss t w (x :: xs) (h :: hs) =
      (match evalElem ss t w x with
       | .ok h' => (match evalElems ss t w xs hs with | .ok r => .ok (h' :: r) | o => o)
       | .diag => .diag
       | .internal => .internal
       | .diverged => .diverged) := by
  rw [encl_evalElems_cons]
  simp only [elemFinal, hp, if_true]

/-- a list of literals only is left as it is -/
theorem evalElems_literals : ∀ (xs hs : List Str), xs.length = hs.length → (∀ x ∈ xs, isPending w x = false) →
    evalElems ss t w xs hs = .ok hs
  | [], [], _, _ => rfl
  | x :: xs, h :: hs, hl, hp => by
    rw [evalElems_cons_keep (hp x (by simp)),
      evalElems_literals xs hs (by simpa using hl) (fun y hy => hp y (by simp [hy]))]
  | [], _ :: _, hl, _ => by simp at hl
  | _ :: _, [], hl, _ => by simp at hl

/-- success, position by position: the result has the length of the list, a literal position keeps its digits, a
pending position holds the value `evalElem` gives -/
theorem encl_evalElems_ok : ∀ (xs hs r : List Str), xs.length = hs.length → evalElems ss t w xs hs = .ok r →
    r.length = xs.length ∧
    ∀ i (hi : i < xs.length) (hh : i < hs.length) (hr : i < r.length), elemFinal ss t w xs[i] hs[i] = .ok r[i]
  | [], [], r, _, he => by
    simp only [evalElems, Outcome.ok.injEq] at he
    subst he
    exact ⟨rfl, fun i hi => by simp at hi⟩
  | [], _ :: _, _, hl, _ => by simp at hl
  | _ :: _, [], _, hl, _ => by simp at hl
  | x :: xs, h :: hs, r, hl, he => by
    rw [encl_evalElems_cons] at he
    cases hf : elemFinal ss t w x h with
    | ok h' =>
      rw [hf] at he
      cases hr : evalElems ss t w xs hs with
      | ok r' =>
        rw [hr] at he
        simp only [Outcome.ok.injEq] at he
        subst he
        obtain ⟨hlen, hpos⟩ := encl_evalElems_ok xs hs r' (by simpa using hl) hr
        refine ⟨by simp [hlen], ?_⟩
        intro i hi hh hri
        cases i with
        | zero => simpa using hf
        | succ k => simpa using hpos k (by simpa using hi) (by simpa using hh) (by simpa using hri)
      | diag => rw [hr] at he; cases he
      | internal => rw [hr] at he; cases he
      | diverged => rw [hr] at he; cases he
    | diag => rw [hf] at he; cases he
    | internal => rw [hf] at he; cases he
    | diverged => rw [hf] at he; cases he

/-- ... and conversely: if every position has a value, these values are the result -/
theorem evalElems_of_forall : ∀ (xs hs r : List Str), xs.length = hs.length → r.length = xs.length →
    (∀ i (hi : i < xs.length) (hh : i < hs.length) (hr : i < r.length), elemFinal ss t w xs[i] hs[i] = .ok r[i]) →
    evalElems ss t w xs hs = .ok r
  | [], [], [], _, _, _ => rfl
  | [], [], _ :: _, _, hr, _ => by simp at hr
  | [], _ :: _, _, hl, _, _ => by simp at hl
  | _ :: _, [], _, hl, _, _ => by simp at hl
  | _ :: _, _ :: _, [], _, hr, _ => by simp at hr
  | x :: xs, h :: hs, h' :: r, hl, hr, hp => by
    have h0 := hp 0 (by simp) (by simp) (by simp)
    simp only [List.getElem_cons_zero] at h0
    have := evalElems_of_forall xs hs r (by simpa using hl) (by simpa using hr)
      (fun i hi hh hri => by
        have := hp (i + 1) (by simpa using hi) (by simpa using hh) (by simpa using hri)
        simp only [List.getElem_cons_succ] at this
        exact this)
    rw [encl_evalElems_cons, h0, this]

/-- a pending element without a value refuses the list (if nothing before it fails in another way, the result is that
diagnostic; in any case the result is not a success) -/
theorem evalElems_not_ok_of_mem : ∀ (xs hs : List Str), xs.length = hs.length → ∀ i (hi : i < xs.length) (hh : i < hs.length),
    (∀ v, elemFinal ss t w xs[i] hs[i] ≠ .ok v) → ∀ r, evalElems ss t w xs hs ≠ .ok r := by
  intro xs hs hl i hi hh hne r he
  obtain ⟨hlen, hpos⟩ := encl_evalElems_ok xs hs r hl he
  exact hne _ (hpos i hi hh (by omega))

/-! ### what the parser stores, position by position -/

theorem mapM_ok_get {α β} (f : α → R β) : ∀ (l : List α) (r : List β), l.mapM f = .ok r →
    r.length = l.length ∧ ∀ i (hi : i < l.length) (hr : i < r.length), f l[i] = .ok r[i]
  | [], r, h => by
    simp only [List.mapM_nil, pure, Except.pure, Except.ok.injEq] at h
    subst h
    exact ⟨rfl, fun i hi => by simp at hi⟩
  | a :: l, r, h => by
    rw [List.mapM_cons] at h
    cases ha : f a with
    | error e => rw [ha] at h; cases h
    | ok b =>
      rw [ha] at h
      cases hl : l.mapM f with
      | error e => rw [hl] at h; cases h
      | ok r' =>
        rw [hl] at h
        simp only [bind, Except.bind, pure, Except.pure, Except.ok.injEq] at h
        subst h
        obtain ⟨hlen, hpos⟩ := mapM_ok_get f l r' hl
        refine ⟨by simp [hlen], ?_⟩
        intro i hi hr
        cases i with
        | zero => simpa using ha
        | succ k => simpa using hpos k (by simpa using hi) (by simpa using hr)

/-- `multi w value = .ok hs`: one entry per element of the operand text, a literal's digits or `w` zeros for an element
that is kept for the symbol table.  (So `evalElems … (listElems value) hs` runs over lists of the same length.) -/
theorem multi_ok_positions {value : Str} {hs : List Str} (h : multi w value = .ok hs) :
    hs.length = (listElems value).length ∧
    ∀ i (hi : i < (listElems value).length) (hh : i < hs.length),
      (isPending w (listElems value)[i] = true → hs[i] = List.replicate w '0') ∧
      (isPending w (listElems value)[i] = false → elemHex w (listElems value)[i] = .ok hs[i]) := by
  unfold multi at h
  split at h
  · cases h
  · obtain ⟨hlen, hpos⟩ := mapM_ok_get (elemHexP w) _ _ h
    refine ⟨hlen, fun i hi hh => ⟨fun hp => ?_, fun hp => ?_⟩⟩
    · have := hpos i hi hh
      rw [elemHexP_of_isPending hp] at this
      injection this with this
      exact this.symm
    · have := hpos i hi hh
      rw [elemHexP_of_not_isPending hp] at this
      exact this

end CoCo.Asm
