/-
Lemmas/RelocEqu.lean — relocation (C18-R1), part 13 (model batch 4): the pass `evalSyms` over the symbol table.

Since batch 4 an EQU defined by an expression is replaced by its VALUE before the final symbol table is made
(`evalSyms ss5 t t`, then `finalSymTab ss5 t1`).  Under relocation:

* an entry that is not an expression, or an expression of constants (`EquConst`): `evalSym` does not look at the
  statement list at all, the entry is the same in both programs;
* an EQU defined by a LABEL expression (`T EQU L+1`; `EquLabel C`: the entry resolves — against the table, which is the
  same in both programs — to an address expression `x` in the class `C`) has the value `addrOffset ss x`, which moves
  like the operand of a statement with that expression: by `D` (`NumExpr`), by `D` modulo `$10000` (`ModExpr`), not at
  all (`DiffExpr`, `label - label`), by MINUS `D` modulo `$10000` (`NegExpr`, `number - label`).

`EquRel` collects what the final table entries of the two programs have to do with each other, `symtab_reloc_entry`
proves it entry by entry for two accepted programs, `evalSyms_outRel` / `finalSymTab_outRel` give the same outcome kind
when every entry is in one of the classes (`EquCovered`), `evalSyms_const` is the special case of a table without label
EQUs (`NoLabelEqu`).
-/
import CoCoVerif.Lemmas.RelocNeg

namespace CoCo.Asm
open CoCo

/-! ### `calculate_address_offset` looks at the addresses of the statements only -/

/-- the same address (what `fixAll` leaves alone) -/
def SameAddr (s s' : Stmt) : Prop := s'.pkg.address = s.pkg.address

theorem SameButAdditional.sameAddr {s s' : Stmt} (h : SameButAdditional s s') : SameAddr s s' := by
  obtain ⟨v, rfl⟩ := h; rfl

theorem fixAll_sameAddr {ss l l' : List Stmt} {i : Nat} (h : fixAll ss i l = .ok l') : PW SameAddr l l' := by
  obtain ⟨hl, hp⟩ := fixAll_ok h
  refine ⟨hl, ?_⟩
  intro j s s' hs hs'
  obtain ⟨s'', h1, h2⟩ := hp j s hs
  rw [hs'] at h1; cases h1
  exact (fixFit_same h2).sameAddr

section same
variable {as fs : List Stmt}

theorem addrOf_sameAddr (h : PW SameAddr as fs) (j : Nat) : addrOf fs j = addrOf as j := by
  unfold addrOf
  cases hj : as[j]? with
  | none =>
    have : as.length ≤ j := List.getElem?_eq_none_iff.mp hj
    rw [List.getElem?_eq_none_iff.mpr (by rw [h.1]; exact this)]
  | some s =>
    obtain ⟨s', hs', hr⟩ := h.get hj
    rw [hs']
    simp only [Option.map_some, Option.some.injEq]
    exact hr

theorem addrIntOf_sameAddr (h : PW SameAddr as fs) (j : Nat) : addrIntOf fs j = addrIntOf as j := by
  unfold addrIntOf; rw [addrOf_sameAddr h]

theorem addrOperand_sameAddr (h : PW SameAddr as fs) (v : Value) : addrOperand fs v = addrOperand as v := by
  unfold addrOperand
  simp only [addrIntOf_sameAddr h]

theorem addrOffset_sameAddr (h : PW SameAddr as fs) (v : Value) : addrOffset fs v = addrOffset as v := by
  cases v with
  | expr l r op m ae => rw [addrOffset_expr, addrOffset_expr, addrOperand_sameAddr h, addrOperand_sameAddr h]
  | _ => rfl

theorem evalSym_sameAddr (h : PW SameAddr as fs) (t : SymTab) (v : Value) : evalSym fs t v = evalSym as t v := by
  unfold evalSym
  simp only [addrOffset_sameAddr h]

theorem evalSyms_sameAddr (h : PW SameAddr as fs) (t : SymTab) : ∀ (x : SymTab), evalSyms fs t x = evalSyms as t x := by
  intro x
  induction x with
  | nil => rfl
  | cons kv rest ih =>
    obtain ⟨k, v⟩ := kv
    rw [evalSyms_cons, evalSyms_cons, evalSym_sameAddr h, ih]

end same

/-! ### the classes of a table entry -/

/-- the entry is an expression (an EQU defined by an expression) -/
def Value.isEquExpr (v : Value) : Bool := v.isExpression || v.isAddrExpr

/-- the entry is NOT an EQU defined by a label expression: it is no expression at all (a label, an EQU of a number), or
an expression whose value — resolved against the table `t` — is not an address expression (an expression of
constants) -/
def EquConst (t : SymTab) (v : Value) : Prop :=
  v.isEquExpr = true → ∀ x, v.resolve t = .ok x → x.isAddrExpr = false

/-- an EQU (not a label) that is not defined by a label expression -/
def EquPlain (t : SymTab) (v : Value) : Prop := v.isAddress = false ∧ EquConst t v

/-- the entry is an EQU defined by a label expression: it resolves against the table `t` to an address expression in
the class `C` -/
def EquLabel (C : Value → Prop) (t : SymTab) (v : Value) : Prop :=
  v.isEquExpr = true ∧ ∃ x, v.resolve t = .ok x ∧ x.isAddrExpr = true ∧ C x

/-- `number - label`, accepted in the layout `as` (the expression of the statement class `MovedNeg`) -/
def NegExpr (as : List Stmt) (e : Value) : Prop :=
  ∃ l r m t a k nn, e = .expr l r '-' m true ∧ NumLabel as l r t a k nn ∧ signedK k nn - (a : Int) ≤ 65535

/-- no EQU of the table is defined by a label expression -/
def NoLabelEqu (t : SymTab) : Prop := ∀ kv ∈ t, EquConst t kv.2

/-- every entry of the table is a label, an EQU that is not defined by a label expression, or an EQU defined by a label
expression of one of the four classes -/
def EquCovered (D : Nat) (as : List Stmt) (t : SymTab) (v : Value) : Prop :=
  v.isAddress = true ∨ EquPlain t v ∨ EquLabel (NumExpr D as) t v ∨ EquLabel (ModExpr D as) t v ∨
    EquLabel DiffExpr t v ∨ EquLabel (NegExpr as) t v

/-- what the FINAL values `x` (original program) and `x'` (program moved by `D`) of the table entry defined as `v`
have to do with each other: a label moves by `D`; an EQU that is not defined by a label expression stays; an EQU
defined by a label expression moves like that expression -/
def EquRel (D : Nat) (as : List Stmt) (t : SymTab) (v x x' : Value) : Prop :=
  (v.isAddress = true → x' = shiftV D x) ∧
  (EquPlain t v → x' = x) ∧
  (EquLabel (NumExpr D as) t v → x' = shiftV D x) ∧
  (EquLabel (ModExpr D as) t v → x' = shiftVmod D x) ∧
  (EquLabel DiffExpr t v → x' = x) ∧
  (EquLabel (NegExpr as) t v → x' = shiftVneg D x)

theorem equConst_of_not_expr {t : SymTab} {v : Value} (h : ∀ l r op m ae, v ≠ .expr l r op m ae) : EquConst t v := by
  intro he
  cases v <;> first | cases he | exact absurd rfl (h _ _ _ _ _)

theorem equConst_address (t : SymTab) (i : Nat) (m : Mode) : EquConst t (.address i m) :=
  equConst_of_not_expr (by intro _ _ _ _ _ h; cases h)

/-! ### one entry through `evalSym` -/

/-- an EQU defined by a label expression: its value is what `calculate_address_offset` gives -/
theorem evalSym_label (ss : List Stmt) {t : SymTab} {v x : Value} (hv : v.isEquExpr = true)
    (hx : v.resolve t = .ok x) (hC : x.isAddrExpr = true) : evalSym ss t v = addrOffset ss x := by
  unfold Value.isEquExpr at hv
  unfold evalSym
  rw [if_pos hv, hx]
  dsimp only
  rw [if_pos hC]
  cases ho : addrOffset ss x with
  | ok r' => dsimp only; rw [if_pos (addrOffset_isNumeric ho)]
  | _ => rfl

/-- an entry that is not an EQU defined by a label expression does not look at the statements -/
theorem evalSym_const (ss ss' : List Stmt) {t : SymTab} {v : Value} (hp : EquConst t v) :
    evalSym ss' t v = evalSym ss t v := by
  unfold evalSym
  by_cases hv : (v.isExpression || v.isAddrExpr) = true
  · rw [if_pos hv, if_pos hv]
    cases hx : v.resolve t with
    | error e => rfl
    | ok x =>
      dsimp only
      have := hp hv x hx
      rw [if_neg (by rw [this]; simp), if_neg (by rw [this]; simp)]
  · rw [if_neg hv, if_neg hv]

theorem evalSyms_const (ss ss' : List Stmt) (t : SymTab) : ∀ (x : SymTab), (∀ kv ∈ x, EquConst t kv.2) →
    evalSyms ss' t x = evalSyms ss t x := by
  intro x
  induction x with
  | nil => intro _; rfl
  | cons kv rest ih =>
    intro h
    obtain ⟨k, v⟩ := kv
    rw [evalSyms_cons, evalSyms_cons, evalSym_const ss ss' (h (k, v) (by simp)),
      ih (fun kv hkv => h kv (by simp [hkv]))]

/-- what `evalSym` gives for a label EQU is a number -/
theorem evalSym_label_numeric {ss : List Stmt} {t : SymTab} {v x v1 : Value} (hv : v.isEquExpr = true)
    (hx : v.resolve t = .ok x) (hC : x.isAddrExpr = true) (h1 : evalSym ss t v = .ok v1) : v1.isNumeric = true := by
  rw [evalSym_label ss hv hx hC] at h1
  exact addrOffset_isNumeric h1

section classes
variable {D : Nat} {as as' : List Stmt}

theorem addrOffset_numExpr (h : PW (AddrShiftI D) as as') {x : Value} (hc : NumExpr D as x) :
    addrOffset as' x = (addrOffset as x).map (shiftV D) := by
  obtain ⟨l, r, op, m, k, hh, mm, nn, rfl, hother, hop, hside, hb⟩ := hc
  exact addrOffset_reloc_num h l r op m true hother hop hside hb

theorem addrOffset_modExpr (h : PW (AddrShiftI D) as as') {x : Value} (hc : ModExpr D as x) :
    addrOffset as' x = (addrOffset as x).map (shiftVmod D) := by
  obtain ⟨x0, _, e1, e2⟩ := hc.reloc h
  rw [e1, e2]; rfl

theorem addrOffset_diffExpr (h : PW (AddrShiftI D) as as') {x : Value} (hc : DiffExpr x) :
    addrOffset as' x = addrOffset as x := by
  obtain ⟨l, r, m, rfl, hother⟩ := hc
  exact addrOffset_reloc_diff h l r m true hother

theorem addrOffset_negExpr (h : PW (AddrShiftI D) as as') {x : Value} (hc : NegExpr as x) :
    addrOffset as' x = (addrOffset as x).map (shiftVneg D) := by
  obtain ⟨l, r, m, t, a, k, nn, rfl, hl, hb⟩ := hc
  obtain ⟨x0, _, _, e1, e2⟩ := addrCombine_numLabel_minus (D := D) hb
  rw [addrOffset_numLabel hl, addrOffset_numLabel (hl.reloc h), e1, e2]; rfl

/-- `T EQU L+1`, `T EQU L-2`: the value moves by `D` -/
theorem evalSym_reloc_num (h : PW (AddrShiftI D) as as') {t : SymTab} {v : Value}
    (hc : EquLabel (NumExpr D as) t v) : evalSym as' t v = (evalSym as t v).map (shiftV D) := by
  obtain ⟨hv, x, hx, hA, hC⟩ := hc
  rw [evalSym_label as' hv hx hA, evalSym_label as hv hx hA, addrOffset_numExpr h hC]

/-- `T EQU L+N` that both layouts accept: the value moves by `D` modulo `$10000` -/
theorem evalSym_reloc_mod (h : PW (AddrShiftI D) as as') {t : SymTab} {v : Value}
    (hc : EquLabel (ModExpr D as) t v) : evalSym as' t v = (evalSym as t v).map (shiftVmod D) := by
  obtain ⟨hv, x, hx, hA, hC⟩ := hc
  rw [evalSym_label as' hv hx hA, evalSym_label as hv hx hA, addrOffset_modExpr h hC]

/-- `LEN EQU END-START`: the value does not move -/
theorem evalSym_reloc_diff (h : PW (AddrShiftI D) as as') {t : SymTab} {v : Value}
    (hc : EquLabel DiffExpr t v) : evalSym as' t v = evalSym as t v := by
  obtain ⟨hv, x, hx, hA, hC⟩ := hc
  rw [evalSym_label as' hv hx hA, evalSym_label as hv hx hA, addrOffset_diffExpr h hC]

/-- `T EQU $4000-L`: the value moves by MINUS `D` modulo `$10000` -/
theorem evalSym_reloc_neg (h : PW (AddrShiftI D) as as') {t : SymTab} {v : Value}
    (hc : EquLabel (NegExpr as) t v) : evalSym as' t v = (evalSym as t v).map (shiftVneg D) := by
  obtain ⟨hv, x, hx, hA, hC⟩ := hc
  rw [evalSym_label as' hv hx hA, evalSym_label as hv hx hA, addrOffset_negExpr h hC]

end classes

/-! ### same outcome kind -/

/-- two evaluated entries: equal, or both numbers -/
def ValSame (v v' : Value) : Prop := v' = v ∨ (v.isNumeric = true ∧ v'.isNumeric = true)

/-- two evaluated tables: the same keys, entry by entry `ValSame` -/
def TabSame (kv kv' : Str × Value) : Prop := kv'.1 = kv.1 ∧ ValSame kv.2 kv'.2

theorem shiftV_isNumeric (D : Nat) (v : Value) (h : v.isNumeric = true) : (shiftV D v).isNumeric = true := by
  cases v <;> first | rfl | cases h

theorem shiftVmod_isNumeric (D : Nat) (v : Value) (h : v.isNumeric = true) : (shiftVmod D v).isNumeric = true := by
  cases v <;> first | rfl | cases h

theorem shiftVneg_isNumeric (D : Nat) (v : Value) (h : v.isNumeric = true) : (shiftVneg D v).isNumeric = true := by
  cases v <;> first | rfl | cases h

section kind
variable {D : Nat} {as as' : List Stmt}

theorem outRel_map_numeric {f : Value → Value} (hf : ∀ v, v.isNumeric = true → (f v).isNumeric = true)
    {o o' : Outcome Value} (he : o' = o.map f) (hn : ∀ v1, o = .ok v1 → v1.isNumeric = true) :
    OutRel ValSame o o' :=
  OutRel.of_eq_map he (fun v1 h1 => .inr ⟨hn v1 h1, hf v1 (hn v1 h1)⟩)

theorem EquLabel.numeric {C : Value → Prop} {ss : List Stmt} {t : SymTab} {v v1 : Value} (hc : EquLabel C t v)
    (h1 : evalSym ss t v = .ok v1) : v1.isNumeric = true := by
  obtain ⟨hv, x, hx, hA, _⟩ := hc
  exact evalSym_label_numeric hv hx hA h1

/-- one covered entry: the same outcome kind in both layouts -/
theorem evalSym_outRel (h : PW (AddrShiftI D) as as') {t : SymTab} {v : Value} (hc : EquCovered D as t v) :
    OutRel ValSame (evalSym as t v) (evalSym as' t v) := by
  have same : evalSym as' t v = evalSym as t v → OutRel ValSame (evalSym as t v) (evalSym as' t v) := by
    intro he
    rw [he]
    cases evalSym as t v with
    | ok v1 => exact .ok (.inl rfl)
    | diag => exact .diag
    | internal => exact .internal
    | diverged => exact .diverged
  rcases hc with hc | hc | hc | hc | hc | hc
  · cases v with
    | address i m => exact same rfl
    | _ => cases hc
  · exact same (evalSym_const as as' hc.2)
  · exact outRel_map_numeric (shiftV_isNumeric D) (evalSym_reloc_num h hc) (fun _ => hc.numeric)
  · exact outRel_map_numeric (shiftVmod_isNumeric D) (evalSym_reloc_mod h hc) (fun _ => hc.numeric)
  · exact same (evalSym_reloc_diff h hc)
  · exact outRel_map_numeric (shiftVneg_isNumeric D) (evalSym_reloc_neg h hc) (fun _ => hc.numeric)

/-- `evalSyms` on a table all of whose entries are covered: the same outcome kind, the results entry by entry
`TabSame` -/
theorem evalSyms_outRel (h : PW (AddrShiftI D) as as') (t : SymTab) : ∀ (x : SymTab),
    (∀ kv ∈ x, EquCovered D as t kv.2) → OutRel (PW TabSame) (evalSyms as t x) (evalSyms as' t x) := by
  intro x
  induction x with
  | nil => intro _; exact .ok .nil
  | cons kv rest ih =>
    intro hc
    obtain ⟨k, v⟩ := kv
    have h0 := evalSym_outRel h (hc (k, v) (by simp))
    have hrest := ih (fun kv hkv => hc kv (by simp [hkv]))
    rw [evalSyms_cons, evalSyms_cons]
    generalize evalSym as t v = o1 at h0 ⊢
    generalize evalSym as' t v = o1' at h0 ⊢
    generalize evalSyms as t rest = o2 at hrest ⊢
    generalize evalSyms as' t rest = o2' at hrest ⊢
    cases h0 with
    | ok r0 =>
      dsimp only
      cases hrest with
      | ok rr => exact .ok (.cons ⟨rfl, r0⟩ rr)
      | diag => exact .diag
      | internal => exact .internal
      | diverged => exact .diverged
    | diag => exact .diag
    | internal => exact .internal
    | diverged => exact .diverged

/-- the final table of two evaluated tables that are entry by entry `TabSame`: the same outcome kind -/
theorem finalSymTab_outRel {fs fs' : List Stmt} (h : PW (AddrShiftI D) fs fs') : ∀ (t1 t1' : SymTab),
    PW TabSame t1 t1' → OutRel (fun _ _ => True) (finalSymTab fs t1) (finalSymTab fs' t1') := by
  intro t1
  induction t1 with
  | nil => intro t1' hp; rw [hp.nil_left]; exact .ok trivial
  | cons kv rest ih =>
    intro t1' hp
    obtain ⟨kv', rest', rfl, ⟨hk, hv⟩, hr⟩ := hp.cons_left
    obtain ⟨k, v⟩ := kv
    obtain ⟨k', v'⟩ := kv'
    have hrest := ih rest' hr
    rw [finalSymTab, finalSymTab]
    generalize finalSymTab fs rest = o2 at hrest ⊢
    generalize finalSymTab fs' rest' = o2' at hrest ⊢
    cases hrest with
    | ok _ =>
      dsimp only
      rcases hv with hv | ⟨hv1, hv2⟩
      · dsimp only at hv
        rw [hv]
        cases v with
        | address i m =>
          dsimp only
          have := addrOf_isSome_reloc h i
          cases h1 : addrOf fs i <;> cases h2 : addrOf fs' i <;> rw [h1, h2] at this <;>
            first | exact .ok trivial | exact .internal | cases this
        | pyNone => exact .internal
        | _ => exact .ok trivial
      · dsimp only at hv1 hv2
        cases v with
        | numeric a b c d =>
          cases v' with
          | numeric a' b' c' d' => exact .ok trivial
          | _ => cases hv2
        | _ => cases hv1
    | diag => exact .diag
    | internal => exact .internal
    | diverged => exact .diverged

end kind

/-! ### the final table, entry by entry -/

theorem finalVal_numeric (ss : List Stmt) {v : Value} (h : v.isNumeric = true) : finalVal ss v = some v := by
  cases v <;> first | rfl | cases h

theorem finalVal_indep (ss ss' : List Stmt) {v : Value} (h : v.isAddress = false) : finalVal ss' v = finalVal ss v := by
  cases v <;> first | rfl | cases h

/-- entry `j` of the final table is entry `j` of the evaluated table through `finalVal` -/
theorem finalSymTab_getElem? {ss : List Stmt} : ∀ {t r : SymTab}, finalSymTab ss t = .ok r →
    ∀ (j : Nat) (k : Str) (v : Value), t[j]? = some (k, v) → ∃ x, r[j]? = some (k, x) ∧ finalVal ss v = some x := by
  intro t
  induction t with
  | nil => intro r _ j k v hj; simp at hj
  | cons kv rest ih =>
    intro r h j k v hj
    obtain ⟨k0, v0⟩ := kv
    rw [finalSymTab] at h
    cases hr : finalSymTab ss rest with
    | ok r0 =>
      rw [hr] at h
      have key : ∀ w, finalVal ss v0 = some w → r = (k0, w) :: r0 →
          ∃ x, r[j]? = some (k, x) ∧ finalVal ss v = some x := by
        intro w hw hrr
        subst hrr
        cases j with
        | zero => simp at hj; obtain ⟨rfl, rfl⟩ := hj; exact ⟨w, by simp, hw⟩
        | succ j => simpa using ih hr j k v (by simpa using hj)
      cases v0 with
      | address i m =>
        dsimp only at h
        cases ha : addrOf ss i with
        | none => rw [ha] at h; cases h
        | some a => rw [ha] at h; cases h; exact key a ha rfl
      | pyNone => cases h
      | _ => cases h; exact key _ rfl rfl
    | _ => rw [hr] at h; cases h

/-- (d, batch 4) the final symbol tables of two accepted programs, entry by entry.  `as`, `as'` are the layouts (the
statements that enter `fixAll`), `fs`, `fs'` the final statements; the classes are those of the entry `v` of the table
`t` built from the labels, in the layout `as`. -/
theorem symtab_reloc_entry {D : Nat} {as as' fs fs' : List Stmt} (hI : PW (AddrShiftI D) as as')
    (hs : PW SameAddr as fs) (hs' : PW SameAddr as' fs') (hsh : PW (AddrShift D) fs fs')
    {t t1 t1' r r' : SymTab} (e : evalSyms fs t t = .ok t1) (e' : evalSyms fs' t t = .ok t1')
    (f : finalSymTab fs t1 = .ok r) (f' : finalSymTab fs' t1' = .ok r')
    {j : Nat} {k : Str} {v : Value} (hj : t[j]? = some (k, v)) :
    ∃ x x', r[j]? = some (k, x) ∧ r'[j]? = some (k, x') ∧ EquRel D as t v x x' := by
  rw [evalSyms_sameAddr hs] at e
  rw [evalSyms_sameAddr hs'] at e'
  obtain ⟨v1, h1, g1⟩ := evalSyms_getElem? e j k v hj
  obtain ⟨v1', h1', g1'⟩ := evalSyms_getElem? e' j k v hj
  obtain ⟨x, hx, fx⟩ := finalSymTab_getElem? f j k v1 g1
  obtain ⟨x', hx', fx'⟩ := finalSymTab_getElem? f' j k v1' g1'
  refine ⟨x, x', hx, hx', ?_⟩
  -- a label EQU whose value moves by `f`
  have moved : ∀ (g : Value → Value) (C : Value → Prop), (∀ w, w.isNumeric = true → (g w).isNumeric = true) →
      EquLabel C t v → evalSym as' t v = (evalSym as t v).map g → x' = g x := by
    intro g C hg hc he
    have n1 := hc.numeric h1
    rw [h1, h1'] at he
    simp only [Outcome.map_ok, Outcome.ok.injEq] at he
    rw [finalVal_numeric _ n1] at fx
    rw [he, finalVal_numeric _ (hg _ n1)] at fx'
    cases fx; cases fx'; rfl
  have same : v1.isAddress = false → evalSym as' t v = evalSym as t v → x' = x := by
    intro hna he
    rw [h1, h1'] at he
    cases he
    rw [finalVal_indep fs fs' hna, fx] at fx'
    cases fx'; rfl
  refine ⟨?_, ?_, ?_, ?_, ?_, ?_⟩
  · intro hA
    cases v with
    | address i m =>
      rw [evalSym_address] at h1 h1'
      cases h1; cases h1'
      have : finalVal fs' (.address i m) = (finalVal fs (.address i m)).map (shiftV D) := addrOf_reloc hsh i
      rw [fx, fx'] at this
      simpa using this
    | _ => cases hA
  · rintro ⟨hna, hc⟩
    refine same ?_ (evalSym_const as as' hc)
    rcases evalSym_ok_cases h1 with rfl | ⟨hn, _⟩
    · exact hna
    · cases v1 <;> first | rfl | cases hn
  · exact fun hc => moved _ _ (shiftV_isNumeric D) hc (evalSym_reloc_num hI hc)
  · exact fun hc => moved _ _ (shiftVmod_isNumeric D) hc (evalSym_reloc_mod hI hc)
  · intro hc
    refine same ?_ (evalSym_reloc_diff hI hc)
    have := hc.numeric h1
    cases v1 <;> first | rfl | cases this
  · exact fun hc => moved _ _ (shiftVneg_isNumeric D) hc (evalSym_reloc_neg hI hc)

/-! ### a table without label EQUs: the old form of the final table -/

/-- `evalSyms` does not change which entries are labels -/
theorem zipWith_evalSyms {ss : List Stmt} {t : SymTab} (g : Value → Value) : ∀ {x x1 : SymTab},
    evalSyms ss t x = .ok x1 → ∀ (r : SymTab),
    List.zipWith (fun (kv kw : Str × Value) => (kw.1, if kv.2.isAddress then g kw.2 else kw.2)) x1 r =
    List.zipWith (fun (kv kw : Str × Value) => (kw.1, if kv.2.isAddress then g kw.2 else kw.2)) x r := by
  intro x
  induction x with
  | nil => intro x1 h r; rw [evalSyms_nil] at h; cases h; rfl
  | cons kv rest ih =>
    intro x1 h r
    obtain ⟨k, v⟩ := kv
    obtain ⟨v', r', h1, h2, rfl⟩ := evalSyms_ok_cons h
    cases r with
    | nil => rfl
    | cons kw rr =>
      simp only [List.zipWith_cons_cons]
      rw [ih h2 rr]
      have : v'.isAddress = v.isAddress := by
        rcases evalSym_ok_cases h1 with rfl | ⟨hn, l, r0, op, m, ae, rfl⟩
        · rfl
        · cases v' <;> first | rfl | cases hn
      rw [this]

end CoCo.Asm
