/-
Lemmas/RelocSigned.lean — relocation (C18-R1), part 9 (repair batches B2, B3): `label + N` / `label - N` where `N`
is a SIGNED constant (a number written or defined by an EQU with a minus sign counts negatively since B2).

* `LabelNum as l r op t a k nn` (Lemmas/RelocLabel.lean): the two operands `l`, `r` of a label expression are a label
  (statement index `t`, address `a` in the layout `as`) and a number of magnitude `k`, negative iff `nn`; the constant is
  `signedK k nn`; the label is the LEFT operand unless `op` is `+` (`LabelSide`: since B3 `calculate_address_offset`
  combines the operands in the written order).
* closed forms of `addrOffset`, `fixOne`, `fitWidth`, `fixFit` on such an expression — what the model really
  does since B3: for BOTH operators the result `z = a ± c` is rejected above `$FFFF` and reduced modulo `$10000`
  below zero, so the value is `z mod $10000` whenever `z ≤ $FFFF`; a 16-bit operand field (`fit_operand_width`)
  then holds exactly that value.
* the classes `NumExpr` (hence `Moved`, `Unmoved`) in arithmetic terms: `numExpr_plus_iff`, `numExpr_minus_iff`.
-/
import CoCoVerif.Lemmas.RelocAll

namespace CoCo.Asm
open CoCo

/-! ### the class `NumExpr` in arithmetic terms -/

section numExpr
variable {D : Nat} {as : List Stmt} {l r : Value} {t a k : Nat} {nn : Bool}

theorem NumExpr.of_labelNum {op : Char} (h : LabelNum as l r op t a k nn) (m : Mode) (hop : op = '+' ∨ op = '-')
    (hb : ∀ v, addrCombine op a (signedK k nn) = .ok v →
      ∃ z, v = .numeric z (some 4) .extended false ∧ z + D ≤ 65535) :
    NumExpr D as (.expr l r op m true) := by
  obtain ⟨hh, mm, ho⟩ := h.other
  refine ⟨l, r, op, m, k, hh, mm, nn, rfl, ho, hop, h.side, ?_⟩
  rw [addrOffset_labelNum h]
  exact hb

theorem NumExpr.bound_labelNum {op : Char} {m : Mode} (h : LabelNum as l r op t a k nn)
    (hc : NumExpr D as (.expr l r op m true)) :
    ∀ v, addrCombine op a (signedK k nn) = .ok v → ∃ z, v = .numeric z (some 4) .extended false ∧ z + D ≤ 65535 := by
  obtain ⟨l1, r1, op1, m1, k1, hh1, mm1, nn1, he, _, _, _, hb⟩ := hc
  rw [addrOffset_labelNum h] at hb
  exact hb

/-- `label + c` (SIGNED `c`) is in the class iff — unless it is rejected in the original layout already, being above
`$FFFF` — its value `(a + c) mod $10000`, moved by `D`, is at most `$FFFF` (since B3 a negative sum is reduced
modulo `$10000`, exactly like `label - c`) -/
theorem numExpr_plus_iff (h : LabelNum as l r '+' t a k nn) (m : Mode) :
    NumExpr D as (.expr l r '+' m true) ↔
      ((a : Int) + signedK k nn ≤ 65535 → ((a : Int) + signedK k nn) % 65536 + D ≤ 65535) := by
  have h0 : 0 ≤ ((a : Int) + signedK k nn) % 65536 := Int.emod_nonneg _ (by decide)
  constructor
  · intro hc hle
    have hb := hc.bound_labelNum h
    rw [addrCombine_plus_int, if_pos hle] at hb
    obtain ⟨z, hz, hzD⟩ := hb _ rfl
    simp only [Value.numeric.injEq, and_true] at hz
    omega
  · intro hc
    refine NumExpr.of_labelNum h m (.inl rfl) ?_
    intro v hv
    rw [addrCombine_plus_int] at hv
    split at hv
    · rename_i hle
      cases hv
      exact ⟨_, rfl, by have := hc hle; omega⟩
    · cases hv

/-- `label - c` (SIGNED `c`) is in the class iff — unless it is rejected in the original layout, being above `$FFFF`
(since B3; possible with a negative `c`) — its value `(a - c) mod $10000`, moved by `D`, is at most `$FFFF` -/
theorem numExpr_minus_iff (h : LabelNum as l r '-' t a k nn) (m : Mode) :
    NumExpr D as (.expr l r '-' m true) ↔
      ((a : Int) - signedK k nn ≤ 65535 → ((a : Int) - signedK k nn) % 65536 + D ≤ 65535) := by
  have h0 : 0 ≤ ((a : Int) - signedK k nn) % 65536 := Int.emod_nonneg _ (by decide)
  constructor
  · intro hc hle
    have hb := hc.bound_labelNum h
    rw [addrCombine_minus_int, if_pos hle] at hb
    obtain ⟨z, hz, hzD⟩ := hb _ rfl
    simp only [Value.numeric.injEq, and_true] at hz
    omega
  · intro hc
    refine NumExpr.of_labelNum h m (.inr rfl) ?_
    intro v hv
    rw [addrCombine_minus_int] at hv
    split at hv
    · rename_i hle
      cases hv
      exact ⟨_, rfl, by have := hc hle; omega⟩
    · cases hv

end numExpr

/-! ### `fixOne` on `label ± c` in closed form -/

section fixOne
variable {as : List Stmt} {l r : Value} {t a k : Nat} {nn : Bool} {s : Stmt} {m : Mode}

/-- `fix_addresses` on a statement whose operand is `label ± c` (no PCR): the operand field is the result of
`addrCombine` -/
theorem fixOne_labelNum {op : Char} (h : LabelNum as l r op t a k nn) (i : Nat)
    (hk : (s.operand.kind == .relative) = false) (hv : s.operand.value = .expr l r op m true)
    (hn : s.pkg.needsRes = false) :
    fixOne as i s = (addrCombine op a (signedK k nn)).map (withAdditional s) := by
  rw [fixOne_expr_eq _ _ _ hk hv hn, addrOffset_labelNum h]
  cases addrCombine op a (signedK k nn) <;> rfl

/-- `label + c`, value at most `$FFFF`: the value modulo `$10000` -/
theorem fixOne_label_plus_le (h : LabelNum as l r '+' t a k nn) (i : Nat)
    (hk : (s.operand.kind == .relative) = false) (hv : s.operand.value = .expr l r '+' m true)
    (hn : s.pkg.needsRes = false) (h1 : (a : Int) + signedK k nn ≤ 65535) :
    fixOne as i s =
      .ok (withAdditional s (.numeric (((a : Int) + signedK k nn) % 65536).toNat (some 4) .extended false)) := by
  rw [fixOne_labelNum h i hk hv hn, addrCombine_plus_int, if_pos h1]; rfl

/-- `label + c`, value in `0 .. $FFFF` -/
theorem fixOne_label_plus (h : LabelNum as l r '+' t a k nn) (i : Nat)
    (hk : (s.operand.kind == .relative) = false) (hv : s.operand.value = .expr l r '+' m true)
    (hn : s.pkg.needsRes = false) (h0 : 0 ≤ (a : Int) + signedK k nn) (h1 : (a : Int) + signedK k nn ≤ 65535) :
    fixOne as i s = .ok (withAdditional s (.numeric ((a : Int) + signedK k nn).toNat (some 4) .extended false)) := by
  rw [fixOne_labelNum h i hk hv hn, addrCombine_plus_int_nonneg h0 h1]; rfl

/-- `label + c`, value below zero: reduced modulo `$10000` (since B3; before, a NEGATIVE number was stored) -/
theorem fixOne_label_plus_neg (h : LabelNum as l r '+' t a k nn) (i : Nat)
    (hk : (s.operand.kind == .relative) = false) (hv : s.operand.value = .expr l r '+' m true)
    (hn : s.pkg.needsRes = false) (h0 : (a : Int) + signedK k nn < 0) :
    fixOne as i s =
      .ok (withAdditional s (.numeric (((a : Int) + signedK k nn) % 65536).toNat (some 4) .extended false)) :=
  fixOne_label_plus_le h i hk hv hn (by omega)

/-- `label + c`, value above `$FFFF`: rejected -/
theorem fixOne_label_plus_big (h : LabelNum as l r '+' t a k nn) (i : Nat)
    (hk : (s.operand.kind == .relative) = false) (hv : s.operand.value = .expr l r '+' m true)
    (hn : s.pkg.needsRes = false) (h1 : 65535 < (a : Int) + signedK k nn) : fixOne as i s = .diag := by
  rw [fixOne_labelNum h i hk hv hn, addrCombine_plus_int, if_neg (by omega)]; rfl

/-- `label - c`, value at most `$FFFF`: the value modulo `$10000` -/
theorem fixOne_label_minus (h : LabelNum as l r '-' t a k nn) (i : Nat)
    (hk : (s.operand.kind == .relative) = false) (hv : s.operand.value = .expr l r '-' m true)
    (hn : s.pkg.needsRes = false) (h1 : (a : Int) - signedK k nn ≤ 65535) :
    fixOne as i s =
      .ok (withAdditional s (.numeric (((a : Int) - signedK k nn) % 65536).toNat (some 4) .extended false)) := by
  rw [fixOne_labelNum h i hk hv hn, addrCombine_minus_int, if_pos h1]; rfl

/-- `label - c`, value above `$FFFF` (a negative `c`): rejected (since B3) -/
theorem fixOne_label_minus_big (h : LabelNum as l r '-' t a k nn) (i : Nat)
    (hk : (s.operand.kind == .relative) = false) (hv : s.operand.value = .expr l r '-' m true)
    (hn : s.pkg.needsRes = false) (h1 : 65535 < (a : Int) - signedK k nn) : fixOne as i s = .diag := by
  rw [fixOne_labelNum h i hk hv hn, addrCombine_minus_int, if_neg (by omega)]; rfl

end fixOne

/-! ### `fitWidth` on a four-digit field -/

/-- the operand field has four hex digits and `fit_operand_width` looks at it -/
def Field4 (s : Stmt) : Prop :=
  fitSkipped s.row = false ∧
  ∃ a b, s.pkg.opCode.hexLen? = some a ∧ s.pkg.postByte.hexLen? = some b ∧ 2 * s.pkg.size = a + b + 4

theorem Field4.wide {s : Stmt} (h : Field4 s) : FieldWide s := .inr h.2

theorem Field4.withAdditional {s : Stmt} (h : Field4 s) (v : Value) : Field4 (withAdditional s v) := h

/-- `NumericValue.fit(4)`: the numbers `-$8000 .. $FFFF` fit, the field holds them modulo `$10000` -/
theorem fitNum4 (n : Nat) (neg : Bool) :
    fitNum n neg 4 =
      if -32768 ≤ fitInt n neg ∧ fitInt n neg < 65536 then
        .ok (.numeric (fitInt n neg % 65536).toNat (some 4) .extended false)
      else .error .valueType := by
  have e1 : (2 : Int) ^ (4 * 4) = 65536 := by decide
  have e2 : (2 : Int) ^ (4 * 4 - 1) = 32768 := by decide
  unfold fitNum
  change (if -((2 : Int) ^ (4 * 4 - 1)) ≤ fitInt n neg ∧ fitInt n neg < (2 : Int) ^ (4 * 4) then
      numericOfInt (fitInt n neg % (2 : Int) ^ (4 * 4)) (some 4) .none else .error .valueType) = _
  rw [e1, e2]
  split
  · have h0 : 0 ≤ fitInt n neg % 65536 := Int.emod_nonneg _ (by decide)
    have h1 : fitInt n neg % 65536 < 65536 := Int.emod_lt_of_pos _ (by decide)
    generalize fitInt n neg % 65536 = z at h0 h1
    have := numericOfInt_nat (n := z.toNat) (by omega) 4
    rw [Int.toNat_of_nonneg h0] at this
    exact this
  · rfl

/-- `fit_operand_width` on a four-digit field that holds the number `fitInt n neg` -/
theorem fitWidth_field4 {s : Stmt} (hf : Field4 s) {n : Nat} {h : Option Nat} {m : Mode} {neg : Bool}
    (hadd : s.pkg.additional = .numeric n h m neg) :
    fitWidth s =
      if -32768 ≤ fitInt n neg ∧ fitInt n neg < 65536 then
        .ok (withAdditional s (.numeric (fitInt n neg % 65536).toNat (some 4) .extended false))
      else .diag := by
  obtain ⟨hsk, a, b, ha, hb, hsz⟩ := hf
  have hd : 2 * (s.pkg.size : Int) - (a : Int) - (b : Int) = 4 := by omega
  unfold fitWidth
  unfold fitSkipped at hsk
  rw [if_neg (by rw [hsk]; simp), hadd]
  simp only [ha, hb]
  generalize 2 * (s.pkg.size : Int) - (a : Int) - (b : Int) = dg at hd ⊢
  subst hd
  rw [if_pos (.inr rfl), show (4 : Int).toNat = 4 from rfl, fitNum4]
  by_cases hr : -32768 ≤ fitInt n neg ∧ fitInt n neg < 65536
  · rw [if_pos hr, if_pos hr]; rfl
  · rw [if_neg hr, if_neg hr]

/-! ### `fixFit` on `label ± c` in a four-digit field -/

section fixFit
variable {as : List Stmt} {l r : Value} {t a k : Nat} {nn : Bool} {s : Stmt} {m : Mode}

/-- `fit_operand_width` on a four-digit field that holds a value `x` in `0 .. $FFFF` -/
theorem fitWidth_field4_nat {s : Stmt} (hf : Field4 s) {x : Nat} (hx : x < 65536) :
    fitWidth (withAdditional s (.numeric x (some 4) .extended false)) =
      .ok (withAdditional s (.numeric x (some 4) .extended false)) := by
  rw [fitWidth_field4 (hf.withAdditional _) (show (withAdditional s _).pkg.additional = _ from rfl)]
  simp only [fitInt, Bool.false_eq_true, if_false]
  rw [if_pos ⟨by omega, by omega⟩]
  have e : ((x : Nat) : Int) % 65536 = x := by omega
  rw [e]; rfl

/-- `fix_addresses; fit_operand_width` on `label + c` in a four-digit field: accepted iff the value `a + c` is at
most `$FFFF`; the field holds it modulo `$10000` (since B3 there is no lower bound any more: the reduction happens
in `calculate_address_offset` already) -/
theorem fixFit_label_plus (h : LabelNum as l r '+' t a k nn) (i : Nat) (hf : Field4 s)
    (hk : (s.operand.kind == .relative) = false) (hv : s.operand.value = .expr l r '+' m true)
    (hn : s.pkg.needsRes = false) :
    fixFit as i s =
      if (a : Int) + signedK k nn ≤ 65535 then
        .ok (withAdditional s (.numeric (((a : Int) + signedK k nn) % 65536).toNat (some 4) .extended false))
      else .diag := by
  unfold fixFit
  by_cases h1 : (a : Int) + signedK k nn ≤ 65535
  · have p0 : 0 ≤ ((a : Int) + signedK k nn) % 65536 := Int.emod_nonneg _ (by decide)
    have p1 : ((a : Int) + signedK k nn) % 65536 < 65536 := Int.emod_lt_of_pos _ (by decide)
    rw [fixOne_label_plus_le h i hk hv hn h1, if_pos h1]
    exact fitWidth_field4_nat hf (by omega)
  · rw [fixOne_label_plus_big h i hk hv hn (by omega), if_neg h1]

/-- `fix_addresses; fit_operand_width` on `label - c` in a four-digit field: accepted iff `a - c` is at most `$FFFF`
(since B3), the field holds `(a - c) mod $10000` -/
theorem fixFit_label_minus (h : LabelNum as l r '-' t a k nn) (i : Nat) (hf : Field4 s)
    (hk : (s.operand.kind == .relative) = false) (hv : s.operand.value = .expr l r '-' m true)
    (hn : s.pkg.needsRes = false) :
    fixFit as i s =
      if (a : Int) - signedK k nn ≤ 65535 then
        .ok (withAdditional s (.numeric (((a : Int) - signedK k nn) % 65536).toNat (some 4) .extended false))
      else .diag := by
  unfold fixFit
  by_cases h1 : (a : Int) - signedK k nn ≤ 65535
  · have p0 : 0 ≤ ((a : Int) - signedK k nn) % 65536 := Int.emod_nonneg _ (by decide)
    have p1 : ((a : Int) - signedK k nn) % 65536 < 65536 := Int.emod_lt_of_pos _ (by decide)
    rw [fixOne_label_minus h i hk hv hn h1, if_pos h1]
    exact fitWidth_field4_nat hf (by omega)
  · rw [fixOne_label_minus_big h i hk hv hn (by omega), if_neg h1]

end fixFit

/-! ### the emitted bytes of a four-digit field -/

/-- a statement whose four-digit field holds `x`: the code ends with the two bytes of `x`, big endian -/
theorem stmtBytes_field4 {s : Stmt} {x : Nat} {m : Mode} (hx : x < 65536) {bs : Bytes}
    (hb : stmtBytes (withAdditional s (.numeric x (some 4) m false)) = some bs) :
    ∃ pre, bs = pre ++ [x / 256, x % 256] ∧
      ∀ (y : Nat) (m' : Mode), y < 65536 →
        stmtBytes (withAdditional s (.numeric y (some 4) m' false)) = some (pre ++ [y / 256, y % 256]) := by
  unfold stmtBytes at hb
  have e1 : (withAdditional s (.numeric x (some 4) m false)).pkg.opCode = s.pkg.opCode := rfl
  have e2 : (withAdditional s (.numeric x (some 4) m false)).pkg.postByte = s.pkg.postByte := rfl
  have e3 : (withAdditional s (.numeric x (some 4) m false)).pkg.additional = .numeric x (some 4) m false := rfl
  rw [e1, e2, e3, emit_word m hx (.inl rfl)] at hb
  cases ha : emitValue s.pkg.opCode with
  | none => rw [ha] at hb; simp at hb
  | some a =>
    cases hp : emitValue s.pkg.postByte with
    | none => rw [ha, hp] at hb; simp at hb
    | some p =>
      rw [ha, hp] at hb
      simp only [Option.bind_eq_bind, Option.bind_some, Option.pure_def, Option.some.injEq] at hb
      refine ⟨a ++ p, hb.symm, ?_⟩
      intro y m' hy
      unfold stmtBytes
      have f1 : (withAdditional s (.numeric y (some 4) m' false)).pkg.opCode = s.pkg.opCode := rfl
      have f2 : (withAdditional s (.numeric y (some 4) m' false)).pkg.postByte = s.pkg.postByte := rfl
      have f3 : (withAdditional s (.numeric y (some 4) m' false)).pkg.additional = .numeric y (some 4) m' false := rfl
      rw [f1, f2, f3, emit_word m' hy (.inl rfl), ha, hp]
      simp

end CoCo.Asm
