/-
Lemmas/RelocSigned.lean — relocation (C18-R1), part 9 (repair batch B2): `label + N` / `label - N` where `N` is a
SIGNED constant (a number written or defined by an EQU with a minus sign counts negatively since B2).

* `LabelNum as l r t a k nn`: the two operands `l`, `r` of a label expression are a label (statement index `t`,
  address `a` in the layout `as`) and a number of magnitude `k`, negative iff `nn`; the constant is
  `signedK k nn`.
* closed forms of `addrOffset`, `fixOne`, `fitWidth`, `fixFit` on such an expression — what the model really
  does: `label + c` is NOT reduced modulo `$10000` by `calculate_address_offset` (above `$FFFF` it is rejected,
  below zero it is a NEGATIVE number), `label - c` is; a 16-bit operand field (`fit_operand_width`) then holds
  the value modulo `$10000` as long as it is in `-$8000 .. $FFFF`.
* the classes `NumExpr` (hence `Moved`, `Unmoved`) in arithmetic terms: `numExpr_plus_iff`, `numExpr_minus_iff`.
-/
import CoCoVerif.Lemmas.RelocAll

namespace CoCo.Asm
open CoCo

/-! ### the operands of `label ± c` -/

/-- `l`, `r` are a label and a number (in either order): the label is statement `t`, at address `a` in the layout
`as`; the number has magnitude `k` and is negative iff `nn` -/
structure LabelNum (as : List Stmt) (l r : Value) (t a k : Nat) (nn : Bool) : Prop where
  other : ∃ hh mm, (if l.isAddress then r else l) = .numeric k hh mm nn
  idx : (if l.isAddress then l.int? else r.int?) = some t
  addr : addrIntOf as t = some a

/-- the usual spelling: `label ± number` -/
theorem LabelNum.mk' {as : List Stmt} {t a k : Nat} {m0 : Mode} {hh : Option Nat} {mm : Mode} {nn : Bool}
    (h : addrIntOf as t = some a) : LabelNum as (.address t m0) (.numeric k hh mm nn) t a k nn :=
  ⟨⟨hh, mm, rfl⟩, rfl, h⟩

/-- in the moved layout the label is `D` higher, the constant is the same -/
theorem LabelNum.reloc {D : Nat} {as as' : List Stmt} {l r : Value} {t a k : Nat} {nn : Bool}
    (hpw : PW (AddrShiftI D) as as') (h : LabelNum as l r t a k nn) : LabelNum as' l r t (a + D) k nn :=
  ⟨h.other, h.idx, by rw [addrIntOf_reloc hpw, h.addr]; rfl⟩

/-- `calculate_address_offset` on `label ± c`: the arithmetic of `addrCombine` on the label's address and the
SIGNED constant -/
theorem addrOffset_labelNum {as : List Stmt} {l r : Value} {t a k : Nat} {nn : Bool}
    (h : LabelNum as l r t a k nn) (op : Char) (m : Mode) (ae : Bool) :
    addrOffset as (.expr l r op m ae) = addrCombine op a (signedK k nn) := by
  obtain ⟨⟨hh, mm, ho⟩, hi, ha⟩ := h
  rw [addrOffset_expr, ho, hi]
  simp only [addrOther_numeric_signed]
  rw [ha]

/-! ### the class `NumExpr` in arithmetic terms -/

section numExpr
variable {D : Nat} {as : List Stmt} {l r : Value} {t a k : Nat} {nn : Bool}

theorem NumExpr.of_labelNum {op : Char} (h : LabelNum as l r t a k nn) (m : Mode) (hop : op = '+' ∨ op = '-')
    (hb : ∀ v, addrCombine op a (signedK k nn) = .ok v →
      ∃ z, v = .numeric z (some 4) .extended false ∧ z + D ≤ 65535) :
    NumExpr D as (.expr l r op m true) := by
  obtain ⟨hh, mm, ho⟩ := h.other
  refine ⟨l, r, op, m, k, hh, mm, nn, rfl, ho, hop, ?_⟩
  rw [addrOffset_labelNum h]
  exact hb

theorem NumExpr.bound_labelNum {op : Char} {m : Mode} (h : LabelNum as l r t a k nn)
    (hc : NumExpr D as (.expr l r op m true)) :
    ∀ v, addrCombine op a (signedK k nn) = .ok v → ∃ z, v = .numeric z (some 4) .extended false ∧ z + D ≤ 65535 := by
  obtain ⟨l1, r1, op1, m1, k1, hh1, mm1, nn1, he, _, _, hb⟩ := hc
  rw [addrOffset_labelNum h] at hb
  exact hb

/-- `label + c` (SIGNED `c`) is in the class iff — unless it is rejected in the original layout already, being above
`$FFFF` — its value `a + c` is not negative and `a + c + D` is at most `$FFFF` -/
theorem numExpr_plus_iff (h : LabelNum as l r t a k nn) (m : Mode) :
    NumExpr D as (.expr l r '+' m true) ↔
      ((a : Int) + signedK k nn ≤ 65535 → 0 ≤ (a : Int) + signedK k nn ∧ (a : Int) + signedK k nn + D ≤ 65535) := by
  constructor
  · intro hc hle
    have hb := hc.bound_labelNum h
    rw [addrCombine_plus_int, if_pos hle] at hb
    obtain ⟨z, hz, hzD⟩ := hb _ rfl
    simp only [Value.numeric.injEq, true_and, decide_eq_false_iff_not] at hz
    omega
  · intro hc
    refine NumExpr.of_labelNum h m (.inl rfl) ?_
    intro v hv
    rw [addrCombine_plus_int] at hv
    split at hv
    · rename_i hle
      obtain ⟨h0, h1⟩ := hc hle
      cases hv
      refine ⟨((a : Int) + signedK k nn).natAbs, ?_, by omega⟩
      have : ¬ ((a : Int) + signedK k nn < 0) := by omega
      simp [this]
    · cases hv

/-- `label - c` (SIGNED `c`) is in the class iff its value `(a - c) mod $10000`, moved by `D`, is at most `$FFFF` -/
theorem numExpr_minus_iff (h : LabelNum as l r t a k nn) (m : Mode) :
    NumExpr D as (.expr l r '-' m true) ↔ ((a : Int) - signedK k nn) % 65536 + D ≤ 65535 := by
  have h0 : 0 ≤ ((a : Int) - signedK k nn) % 65536 := Int.emod_nonneg _ (by decide)
  constructor
  · intro hc
    have hb := hc.bound_labelNum h
    rw [addrCombine_minus_int] at hb
    obtain ⟨z, hz, hzD⟩ := hb _ rfl
    simp only [Value.numeric.injEq, and_true] at hz
    omega
  · intro hc
    refine NumExpr.of_labelNum h m (.inr rfl) ?_
    intro v hv
    rw [addrCombine_minus_int] at hv
    cases hv
    exact ⟨_, rfl, by omega⟩

end numExpr

/-! ### `fixOne` on `label ± c` in closed form -/

section fixOne
variable {as : List Stmt} {l r : Value} {t a k : Nat} {nn : Bool} {s : Stmt} {m : Mode}

/-- `fix_addresses` on a statement whose operand is `label ± c` (no PCR): the operand field is the result of
`addrCombine` -/
theorem fixOne_labelNum (h : LabelNum as l r t a k nn) (i : Nat) {op : Char}
    (hk : (s.operand.kind == .relative) = false) (hv : s.operand.value = .expr l r op m true)
    (hn : s.pkg.needsRes = false) :
    fixOne as i s = (addrCombine op a (signedK k nn)).map (withAdditional s) := by
  rw [fixOne_expr_eq _ _ _ hk hv hn, addrOffset_labelNum h]
  cases addrCombine op a (signedK k nn) <;> rfl

/-- `label + c`, value in `0 .. $FFFF` -/
theorem fixOne_label_plus (h : LabelNum as l r t a k nn) (i : Nat)
    (hk : (s.operand.kind == .relative) = false) (hv : s.operand.value = .expr l r '+' m true)
    (hn : s.pkg.needsRes = false) (h0 : 0 ≤ (a : Int) + signedK k nn) (h1 : (a : Int) + signedK k nn ≤ 65535) :
    fixOne as i s = .ok (withAdditional s (.numeric ((a : Int) + signedK k nn).toNat (some 4) .extended false)) := by
  rw [fixOne_labelNum h i hk hv hn, addrCombine_plus_int_nonneg h0 h1]; rfl

/-- `label + c`, value below zero: a NEGATIVE number is stored (there is no reduction modulo `$10000` here) -/
theorem fixOne_label_plus_neg (h : LabelNum as l r t a k nn) (i : Nat)
    (hk : (s.operand.kind == .relative) = false) (hv : s.operand.value = .expr l r '+' m true)
    (hn : s.pkg.needsRes = false) (h0 : (a : Int) + signedK k nn < 0) :
    fixOne as i s = .ok (withAdditional s (.numeric (-((a : Int) + signedK k nn)).toNat (some 4) .extended true)) := by
  rw [fixOne_labelNum h i hk hv hn, addrCombine_plus_int, if_pos (by omega)]
  have e : ((a : Int) + signedK k nn).natAbs = (-((a : Int) + signedK k nn)).toNat := by omega
  simp [h0, e]

/-- `label + c`, value above `$FFFF`: rejected -/
theorem fixOne_label_plus_big (h : LabelNum as l r t a k nn) (i : Nat)
    (hk : (s.operand.kind == .relative) = false) (hv : s.operand.value = .expr l r '+' m true)
    (hn : s.pkg.needsRes = false) (h1 : 65535 < (a : Int) + signedK k nn) : fixOne as i s = .diag := by
  rw [fixOne_labelNum h i hk hv hn, addrCombine_plus_int, if_neg (by omega)]; rfl

/-- `label - c`: the value modulo `$10000` -/
theorem fixOne_label_minus (h : LabelNum as l r t a k nn) (i : Nat)
    (hk : (s.operand.kind == .relative) = false) (hv : s.operand.value = .expr l r '-' m true)
    (hn : s.pkg.needsRes = false) :
    fixOne as i s =
      .ok (withAdditional s (.numeric (((a : Int) - signedK k nn) % 65536).toNat (some 4) .extended false)) := by
  rw [fixOne_labelNum h i hk hv hn, addrCombine_minus_int]; rfl

end fixOne

/-! ### `fitWidth` on a four-digit field -/

/-- the operand field has four hex digits and `fit_operand_width` looks at it -/
def Field4 (s : Stmt) : Prop :=
  fitSkipped s.row = false ∧
  ∃ a b, s.pkg.opCode.hexLen? = some a ∧ s.pkg.postByte.hexLen? = some b ∧ 2 * s.pkg.size = a + b + 4

theorem Field4.wide {s : Stmt} (h : Field4 s) : FieldWide s := .inr h.2

theorem Field4.withAdditional {s : Stmt} (h : Field4 s) (v : Value) : Field4 (withAdditional s v) := h

/-- `NumericValue.fit(4)`: the numbers `-$8000 .. $FFFF` fit, the field holds them modulo `$10000` -/
theorem fitNum4 (n : Nat) (neg : Bool) :
    fitNum n neg 4 =
      if -32768 ≤ fitInt n neg ∧ fitInt n neg < 65536 then
        .ok (.numeric (fitInt n neg % 65536).toNat (some 4) .extended false)
      else .error .valueType := by
  have e1 : (2 : Int) ^ (4 * 4) = 65536 := by decide
  have e2 : (2 : Int) ^ (4 * 4 - 1) = 32768 := by decide
  unfold fitNum
  change (if -((2 : Int) ^ (4 * 4 - 1)) ≤ fitInt n neg ∧ fitInt n neg < (2 : Int) ^ (4 * 4) then
      numericOfInt (fitInt n neg % (2 : Int) ^ (4 * 4)) (some 4) .none else .error .valueType) = _
  rw [e1, e2]
  split
  · have h0 : 0 ≤ fitInt n neg % 65536 := Int.emod_nonneg _ (by decide)
    have h1 : fitInt n neg % 65536 < 65536 := Int.emod_lt_of_pos _ (by decide)
    generalize fitInt n neg % 65536 = z at h0 h1
    have := numericOfInt_nat (n := z.toNat) (by omega) 4
    rw [Int.toNat_of_nonneg h0] at this
    exact this
  · rfl

/-- `fit_operand_width` on a four-digit field that holds the number `fitInt n neg` -/
theorem fitWidth_field4 {s : Stmt} (hf : Field4 s) {n : Nat} {h : Option Nat} {m : Mode} {neg : Bool}
    (hadd : s.pkg.additional = .numeric n h m neg) :
    fitWidth s =
      if -32768 ≤ fitInt n neg ∧ fitInt n neg < 65536 then
        .ok (withAdditional s (.numeric (fitInt n neg % 65536).toNat (some 4) .extended false))
      else .diag := by
  obtain ⟨hsk, a, b, ha, hb, hsz⟩ := hf
  have hd : 2 * (s.pkg.size : Int) - (a : Int) - (b : Int) = 4 := by omega
  unfold fitWidth
  unfold fitSkipped at hsk
  rw [if_neg (by rw [hsk]; simp), hadd]
  simp only [ha, hb]
  generalize 2 * (s.pkg.size : Int) - (a : Int) - (b : Int) = dg at hd ⊢
  subst hd
  rw [if_pos (.inr rfl), show (4 : Int).toNat = 4 from rfl, fitNum4]
  by_cases hr : -32768 ≤ fitInt n neg ∧ fitInt n neg < 65536
  · rw [if_pos hr, if_pos hr]; rfl
  · rw [if_neg hr, if_neg hr]

/-! ### `fixFit` on `label ± c` in a four-digit field -/

section fixFit
variable {as : List Stmt} {l r : Value} {t a k : Nat} {nn : Bool} {s : Stmt} {m : Mode}

/-- `fix_addresses; fit_operand_width` on `label + c` in a four-digit field: accepted iff the value `a + c` is in
`-$8000 .. $FFFF`; the field holds it modulo `$10000` -/
theorem fixFit_label_plus (h : LabelNum as l r t a k nn) (i : Nat) (hf : Field4 s)
    (hk : (s.operand.kind == .relative) = false) (hv : s.operand.value = .expr l r '+' m true)
    (hn : s.pkg.needsRes = false) :
    fixFit as i s =
      if -32768 ≤ (a : Int) + signedK k nn ∧ (a : Int) + signedK k nn ≤ 65535 then
        .ok (withAdditional s (.numeric (((a : Int) + signedK k nn) % 65536).toNat (some 4) .extended false))
      else .diag := by
  unfold fixFit
  by_cases h1 : (a : Int) + signedK k nn ≤ 65535
  · by_cases h0 : 0 ≤ (a : Int) + signedK k nn
    · rw [fixOne_label_plus h i hk hv hn h0 h1]
      dsimp only
      rw [fitWidth_field4 (hf.withAdditional _) (show (withAdditional s _).pkg.additional = _ from rfl)]
      simp only [fitInt, Bool.false_eq_true, if_false]
      rw [if_pos ⟨by omega, by omega⟩, if_pos ⟨by omega, h1⟩]
      have e : ((((a : Int) + signedK k nn).toNat : Nat) : Int) = (a : Int) + signedK k nn := by omega
      rw [e]; rfl
    · rw [fixOne_label_plus_neg h i hk hv hn (by omega)]
      dsimp only
      rw [fitWidth_field4 (hf.withAdditional _) (show (withAdditional s _).pkg.additional = _ from rfl)]
      simp only [fitInt, if_true]
      have e : -(((-((a : Int) + signedK k nn)).toNat : Nat) : Int) = (a : Int) + signedK k nn := by omega
      rw [e]
      by_cases h2 : -32768 ≤ (a : Int) + signedK k nn
      · rw [if_pos ⟨h2, by omega⟩, if_pos ⟨h2, h1⟩]; rfl
      · rw [if_neg (fun hc => h2 hc.1), if_neg (fun hc => h2 hc.1)]
  · rw [fixOne_label_plus_big h i hk hv hn (by omega), if_neg (fun hc => h1 hc.2)]

/-- `fix_addresses; fit_operand_width` on `label - c` in a four-digit field: always accepted, the field holds
`(a - c) mod $10000` -/
theorem fixFit_label_minus (h : LabelNum as l r t a k nn) (i : Nat) (hf : Field4 s)
    (hk : (s.operand.kind == .relative) = false) (hv : s.operand.value = .expr l r '-' m true)
    (hn : s.pkg.needsRes = false) :
    fixFit as i s =
      .ok (withAdditional s (.numeric (((a : Int) - signedK k nn) % 65536).toNat (some 4) .extended false)) := by
  have h0 : 0 ≤ ((a : Int) - signedK k nn) % 65536 := Int.emod_nonneg _ (by decide)
  have h1 : ((a : Int) - signedK k nn) % 65536 < 65536 := Int.emod_lt_of_pos _ (by decide)
  unfold fixFit
  rw [fixOne_label_minus h i hk hv hn]
  dsimp only
  rw [fitWidth_field4 (hf.withAdditional _) (show (withAdditional s _).pkg.additional = _ from rfl)]
  simp only [fitInt, Bool.false_eq_true, if_false]
  rw [if_pos ⟨by omega, by omega⟩]
  generalize ((a : Int) - signedK k nn) % 65536 = z at h0 h1
  have e : ((z.toNat : Nat) : Int) % 65536 = z := by omega
  rw [e]; rfl

end fixFit

/-! ### the emitted bytes of a four-digit field -/

/-- a statement whose four-digit field holds `x`: the code ends with the two bytes of `x`, big endian -/
theorem stmtBytes_field4 {s : Stmt} {x : Nat} {m : Mode} (hx : x < 65536) {bs : Bytes}
    (hb : stmtBytes (withAdditional s (.numeric x (some 4) m false)) = some bs) :
    ∃ pre, bs = pre ++ [x / 256, x % 256] ∧
      ∀ (y : Nat) (m' : Mode), y < 65536 →
        stmtBytes (withAdditional s (.numeric y (some 4) m' false)) = some (pre ++ [y / 256, y % 256]) := by
  unfold stmtBytes at hb
  have e1 : (withAdditional s (.numeric x (some 4) m false)).pkg.opCode = s.pkg.opCode := rfl
  have e2 : (withAdditional s (.numeric x (some 4) m false)).pkg.postByte = s.pkg.postByte := rfl
  have e3 : (withAdditional s (.numeric x (some 4) m false)).pkg.additional = .numeric x (some 4) m false := rfl
  rw [e1, e2, e3, emit_word m hx (.inl rfl)] at hb
  cases ha : emitValue s.pkg.opCode with
  | none => rw [ha] at hb; simp at hb
  | some a =>
    cases hp : emitValue s.pkg.postByte with
    | none => rw [ha, hp] at hb; simp at hb
    | some p =>
      rw [ha, hp] at hb
      simp only [Option.bind_eq_bind, Option.bind_some, Option.pure_def, Option.some.injEq] at hb
      refine ⟨a ++ p, hb.symm, ?_⟩
      intro y m' hy
      unfold stmtBytes
      have f1 : (withAdditional s (.numeric y (some 4) m' false)).pkg.opCode = s.pkg.opCode := rfl
      have f2 : (withAdditional s (.numeric y (some 4) m' false)).pkg.postByte = s.pkg.postByte := rfl
      have f3 : (withAdditional s (.numeric y (some 4) m' false)).pkg.additional = .numeric y (some 4) m' false := rfl
      rw [f1, f2, f3, emit_word m' hy (.inl rfl), ha, hp]
      simp

end CoCo.Asm
