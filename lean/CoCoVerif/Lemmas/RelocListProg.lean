/-
Lemmas/RelocListProg.lean — relocation (C18-R1), part 13 (model batch 8): LABEL elements of FCB / FDB lists, whole program.

`Lemmas/RelocListLabel.lean` has the element, the list and the statement (`evalList1_reloc`).  Here the pass `evalLists` over
all statements and `fixAllL` (`fixAll`, then `evalLists` on its result): when the original program gets through the list
pass, so does the program moved by `D`, and the results are related statement by statement by `ListStep` — the pair comes
from a related pair `x`, `x'` of statements that left `fixAll`; a statement that is no list is left alone on both sides, the
field of a list statement of the moved program is `movedList D …` of the statement the original program ends with.

ONE DIRECTION only (original program accepted → moved program accepted): in an FCB list an element `label ± N` that has more
than two digits in the original program may wrap to a two-digit value in the moved one, so "same outcome kind" is not a
theorem for `ListsCovered`.

Also: `ListsCovered` looks at the ADDRESSES of the layout only (`ListsCovered.sameAddr`) and goes from the statements that
enter `fixAll` to those that leave it (`fixAll_listsCovered`).
-/
import CoCoVerif.Lemmas.RelocListLabel

namespace CoCo.Asm
open CoCo

/-- a pair of statements after the list pass (original program: layout `ssA`, moved program: layout `ssB`): they come from
a pair `x`, `x'` related by `R`; `y'` is `x'` itself when `x` is no list, and `x'` with the field `movedList D ssA t y`
when it is -/
def ListStep (R : Stmt → Stmt → Prop) (D : Nat) (ssA ssB : List Stmt) (t : SymTab) (y y' : Stmt) : Prop :=
  ∃ x x', R x x' ∧ ListsCovered D ssA t x ∧ evalList1 t ssA x = .ok y ∧ evalList1 t ssB x' = .ok y' ∧
    y' = (if x.pkg.additional.isList then { x' with pkg := { x'.pkg with additional := movedList D ssA t y } } else x')

section
variable {D : Nat} {ssA ssB : List Stmt} {R : Stmt → Stmt → Prop}

/-- one statement -/
theorem evalList1_step (hR : ListStable R) (h : PW (AddrShiftAny D) ssA ssB) (t : SymTab) {x x' y : Stmt}
    (hx : R x x') (hc : ListsCovered D ssA t x) (hA : evalList1 t ssA x = .ok y) :
    ∃ y', evalList1 t ssB x' = .ok y' ∧ ListStep R D ssA ssB t y y' :=
  ⟨_, evalList1_reloc hR h t hx hc hA, x, x', hx, hc, hA, evalList1_reloc hR h t hx hc hA, rfl⟩

/-- (C18-R1, lists) the list pass over the statements `gs` of the original program and `gs'` of the moved one (related
statement by statement by a `ListStable` relation, the layouts `D` apart): when the pass succeeds on the original program
it succeeds on the moved one, and the results are related by `ListStep` -/
theorem evalLists_reloc (hR : ListStable R) (h : PW (AddrShiftAny D) ssA ssB) (t : SymTab) :
    ∀ (gs gs' ys : List Stmt), (∀ x ∈ gs, ListsCovered D ssA t x) → PW R gs gs' → evalLists t ssA gs = .ok ys →
      ∃ ys', evalLists t ssB gs' = .ok ys' ∧ PW (ListStep R D ssA ssB t) ys ys' := by
  intro gs
  induction gs with
  | nil =>
    intro gs' ys _ hp hA
    rw [evalLists_nil] at hA
    cases hA
    rw [hp.nil_left, evalLists_nil]
    exact ⟨[], rfl, .nil⟩
  | cons x rest ih =>
    intro gs' ys hc hp hA
    obtain ⟨x', rest', rfl, hx, hr⟩ := hp.cons_left
    rw [evalLists_cons] at hA
    cases h1 : evalList1 t ssA x with
    | ok y =>
      rw [h1] at hA
      dsimp only at hA
      cases h2 : evalLists t ssA rest with
      | ok r =>
        rw [h2] at hA
        dsimp only at hA
        cases hA
        obtain ⟨y', e1, s1⟩ := evalList1_step hR h t hx (hc x (by simp)) h1
        obtain ⟨r', e2, s2⟩ := ih rest' r (fun z hz => hc z (by simp [hz])) hr h2
        exact ⟨y' :: r', evalLists_cons_ok e1 e2, .cons s1 s2⟩
      | diag => rw [h2] at hA; cases hA
      | internal => rw [h2] at hA; cases hA
      | diverged => rw [h2] at hA; cases hA
    | diag => rw [h1] at hA; cases hA
    | internal => rw [h1] at hA; cases hA
    | diverged => rw [h1] at hA; cases hA

/-- (C18-R1, lists) `fixAll` and then the list pass: when the original program gets through both, so does the moved
program; `fs`, `fs'` are what `fixAll` gives, the results of the list pass are related by `ListStep` on those layouts -/
theorem fixAllL_reloc (hR : ListStable R) (hS : ∀ x x', R x x' → AddrShiftAny D x x') (t : SymTab) {as as' : List Stmt}
    (h : OutRel (PW R) (fixAll as 0 as) (fixAll as' 0 as'))
    (hc : ∀ fs, fixAll as 0 as = .ok fs → ∀ x ∈ fs, ListsCovered D fs t x)
    {ys : List Stmt} (hA : fixAllL t as = .ok ys) :
    ∃ fs fs' ys', fixAll as 0 as = .ok fs ∧ fixAll as' 0 as' = .ok fs' ∧ PW R fs fs' ∧ evalLists t fs fs = .ok ys ∧
      fixAllL t as' = .ok ys' ∧ PW (ListStep R D fs fs' t) ys ys' := by
  obtain ⟨fs, hf, he⟩ := fixAllL_ok.mp hA
  rw [hf] at h
  generalize hf' : fixAll as' 0 as' = o' at h
  cases h with
  | ok hr =>
    rename_i fs'
    obtain ⟨ys', e, s⟩ := evalLists_reloc hR (hr.mono hS) t fs fs' ys (hc fs hf) hr he
    exact ⟨fs, fs', ys', hf, rfl, hr, he, fixAllL_ok.mpr ⟨fs', hf', e⟩, s⟩

end

/-! ### `ListsCovered` looks at the addresses of the layout only -/

section same
variable {as fs : List Stmt}

theorem elemNum_sameAddr (h : PW SameAddr as fs) (r : Value) : elemNum fs r = elemNum as r := by
  unfold elemNum
  simp only [addrOf_sameAddr h, addrOffset_sameAddr h]

theorem elemVal_sameAddr (h : PW SameAddr as fs) (t : SymTab) (x : Str) : elemVal fs t x = elemVal as t x := by
  unfold elemVal
  simp only [elemNum_sameAddr h]

theorem ModExpr.sameAddr {D : Nat} (h : PW SameAddr as fs) {e : Value} (he : ModExpr D as e) : ModExpr D fs e := by
  obtain ⟨l, r, op, m, t, a, k, nn, rfl, hl, hb⟩ := he
  exact ⟨l, r, op, m, t, a, k, nn, rfl, ⟨hl.other, hl.side, hl.idx, by rw [addrIntOf_sameAddr h]; exact hl.addr⟩, hb⟩

theorem ValueCovered.sameAddr {D : Nat} (h : PW SameAddr as fs) {r : Value} (hc : ValueCovered D as r) :
    ValueCovered D fs r := by
  rcases hc with hc | hc | hc | hc
  · exact .inl hc
  · exact .inr (.inl hc)
  · exact .inr (.inr (.inl (hc.sameAddr h)))
  · exact .inr (.inr (.inr hc))

theorem ElemCovered.sameAddr {D : Nat} (h : PW SameAddr as fs) {t : SymTab} {x : Str} (hc : ElemCovered D as t x) :
    ElemCovered D fs t x := fun v r hv hr => (hc v r hv hr).sameAddr h

theorem ElemFits.sameAddr {D : Nat} (h : PW SameAddr as fs) {t : SymTab} {w : Nat} {x : Str} (hc : ElemFits D as t w x) :
    ElemFits D fs t w x := by
  intro hm z hz
  rw [elemVal_sameAddr h] at hz
  exact hc hm z hz

/-- the layout may be replaced by one with the same addresses -/
theorem ListsCovered.sameAddr {D : Nat} (h : PW SameAddr as fs) {t : SymTab} {s : Stmt} (hc : ListsCovered D as t s) :
    ListsCovered D fs t s :=
  ⟨fun hs e x hx hp => ⟨(hc.1 hs e x hx hp).1.sameAddr h, (hc.1 hs e x hx hp).2.sameAddr h⟩,
   fun hs e x hx hp => (hc.2 hs e x hx hp).sameAddr h⟩

theorem movedElem_sameAddr {D : Nat} (h : PW SameAddr as fs) (t : SymTab) (w : Nat) (x g : Str) :
    movedElem D fs t w x g = movedElem D as t w x g := by
  unfold movedElem
  rw [elemVal_sameAddr h]

theorem movedDigits_sameAddr {D : Nat} (h : PW SameAddr as fs) (t : SymTab) (w : Nat) : ∀ (xs gs : List Str),
    movedDigits D fs t w xs gs = movedDigits D as t w xs gs := by
  intro xs
  induction xs with
  | nil => intro gs; rw [movedDigits_nil_left, movedDigits_nil_left]
  | cons x xs ih =>
    intro gs
    cases gs with
    | nil => rw [movedDigits_nil_right, movedDigits_nil_right]
    | cons g gs => rw [movedDigits_cons, movedDigits_cons, ih gs, movedElem_sameAddr h]

/-- `movedList` may be computed on any layout with the same addresses — e.g. on the final statements -/
theorem movedList_sameAddr {D : Nat} (h : PW SameAddr as fs) (t : SymTab) (y : Stmt) :
    movedList D fs t y = movedList D as t y := by
  unfold movedList
  simp only [movedDigits_sameAddr h]

end same

/-! ### `ListsCovered` from the statements that enter `fixAll` to the statements that leave it -/

theorem fixFit_listsCovered {D : Nat} {L : List Stmt} {t : SymTab} {ss : List Stmt} {i : Nat} {s u : Stmt}
    (hss : ∀ j v, addrOf ss j = some v → v.isNumeric = true) (h : fixFit ss i s = .ok u) (hc : ListsCovered D L t s) :
    ListsCovered D L t u := by
  obtain ⟨r1, r2⟩ := fixFit_list_rev hss h
  obtain ⟨v, rfl⟩ := fixFit_same h
  exact ⟨fun hs e => hc.1 hs (r1 hs e), fun hs e => hc.2 hs (r2 hs e)⟩

/-- the hypothesis of `fixAllL_reloc`, from the statements `as` that enter `fixAll` (layout: `as` itself) -/
theorem fixAll_listsCovered {D : Nat} {t : SymTab} {as fs : List Stmt}
    (hss : ∀ j v, addrOf as j = some v → v.isNumeric = true)
    (hc : ∀ (i : Nat) (s : Stmt), as[i]? = some s → ListsCovered D as t s) (h : fixAll as 0 as = .ok fs) :
    ∀ x ∈ fs, ListsCovered D fs t x := by
  intro x hx
  obtain ⟨hl, hp⟩ := fixAll_ok h
  obtain ⟨j, hj⟩ := List.getElem?_of_mem hx
  have hjl : j < as.length := by
    have := (List.getElem?_eq_some_iff.mp hj).1
    omega
  obtain ⟨s', e1, e2⟩ := hp j as[j] (List.getElem?_eq_getElem hjl)
  rw [hj] at e1; cases e1
  exact (fixFit_listsCovered hss e2 (hc j _ (List.getElem?_eq_getElem hjl))).sameAddr (fixAll_sameAddr h)

end CoCo.Asm
