/-
Lemmas/DiskAddFile.lean — file-length arithmetic and the complete effect of one add_file on the image,
stated in the vocabulary of the Disk BASIC spec (fatAt, dirEntry, granuleBytes, streamOf).
-/
import CoCoVerif.Lemmas.DiskGranules
import CoCoVerif.Lemmas.DiskFat
import CoCoVerif.Props.DiskDefs
namespace CoCo.Dsk
open CoCo Spec.DiskBasic CoCo.Props

/-! ### file arithmetic -/
def fpre (f : CFile) : Bytes := preamble (kindOf f.ftype f.dtype) f.data.length f.load
def fpost (f : CFile) : Option Bytes := postamble (kindOf f.ftype f.dtype) f.exec
def flsb (f : CFile) : Nat := lastSectorBytes f.data.length (fpre f).length (postLen (fpost f))
def flgs (f : CFile) : Nat := lastGranuleSectors f.data.length (fpre f).length (postLen (fpost f))

theorem postLen_eq (p : Option Bytes) : postLen p = (postBytes p).length := by
  cases p <;> rfl

theorem streamOfFile_eq (f : CFile) : streamOfFile f = fpre f ++ f.data ++ postBytes (fpost f) := by
  unfold streamOfFile fpre fpost postBytes; rfl

theorem fpre_length_le (f : CFile) : (fpre f).length ≤ 5 := by
  unfold fpre preamble; cases kindOf f.ftype f.dtype <;> simp

theorem fpost_length_le (f : CFile) : (postBytes (fpost f)).length ≤ 5 := by
  unfold fpost postamble postBytes; cases kindOf f.ftype f.dtype <;> simp

theorem stream_length (f : CFile) :
    (streamOfFile f).length = (fpre f).length + f.data.length + (postBytes (fpost f)).length := by
  rw [streamOfFile_eq]; simp; omega

theorem needs_eq (f : CFile) :
    granulesNeeded f.data.length (fpre f).length (postLen (fpost f)) = needs f := by
  unfold granulesNeeded needs
  rw [stream_length, postLen_eq, G_eq]
  have : f.data.length + (fpre f).length + (postBytes (fpost f)).length
       = (fpre f).length + f.data.length + (postBytes (fpost f)).length := by omega
  rw [this]

theorem needs_pos (f : CFile) : 1 ≤ needs f := by unfold needs; omega

theorem needs_bound (f : CFile) :
    (streamOfFile f).length < needs f * 2304 ∧ (needs f - 1) * 2304 ≤ (streamOfFile f).length := by
  unfold needs; omega

theorem flgs_range (f : CFile) : 1 ≤ flgs f ∧ flgs f ≤ 9 := by
  unfold flgs lastGranuleSectors sectorsNeeded granulesNeeded
  rw [G_eq, bytesPerSector_eq]
  omega

theorem flsb_lt (f : CFile) : flsb f < 256 := by
  unfold flsb lastSectorBytes sectorsNeeded granulesNeeded
  simp only [G_eq, bytesPerSector_eq]
  omega

theorem implied_eq (f : CFile) : impliedLength (needs f) (flgs f) (flsb f) = (streamOfFile f).length := by
  have h1 := flgs_range f
  unfold impliedLength
  have : ¬ flgs f = 0 := by omega
  simp only [this, if_false]
  unfold flgs flsb lastGranuleSectors lastSectorBytes sectorsNeeded granulesNeeded needs
  rw [stream_length, postLen_eq]
  simp only [G_eq, bytesPerSector_eq]
  omega


theorem padUpper_length (n : Nat) (s : List Nat) : (padUpper n s).length = n := by
  unfold padUpper; simp [List.length_take]; omega

theorem dirEntryBytes_length (f : CFile) (a c : Nat) : (dirEntryBytes f a c).length = 32 := by
  unfold dirEntryBytes; simp [padUpper_length]

theorem streamOf_congr {b b' : Bytes} {c : List Nat} (h : ∀ g ∈ c, granuleBytes b' g = granuleBytes b g) :
    streamOf b' c = streamOf b c := by
  unfold streamOf
  congr 1
  exact List.map_congr_left h

/-- the image `add_file` produces from the buffer after allocation -/
def finalImg (f : CFile) (gs : List Nat) (e : Nat) (b1 : Bytes) : Bytes :=
  splice (fatT (writeStream (splice b1 (DIR + e * 32) (dirEntryBytes f (gs.headD 0) (flsb f))) gs (streamOfFile f))
    gs (flgs f)) 78660 (List.replicate 188 0x00)

theorem addFile_unfold (order : List Nat) (b : Bytes) (f : CFile) (h : f.data.length ≤ 65535) :
    addFile order b f =
      match alloc order (needs f) b with
      | .ok (gs, b1) =>
        match findEmptyDir b1 with
        | .ok (some e) =>
          match gs with
          | [] => .internal
          | g0 :: _ =>
            ofOpt (do
              let b2 ← writeBytes b1 (DIR + e * 32) (dirEntryBytes f g0 (flsb f))
              let b3 ← writeToGranules b2 f.data gs (fpre f) (fpost f) true
              let b4 ← writeFat b3 gs (flgs f)
              writeBytes b4 78660 (List.replicate 188 0x00))
        | .ok none => .diag
        | .diag => .diag
        | .internal => .internal
        | .diverged => .diverged
      | .diag => .diag
      | .internal => .internal
      | .diverged => .diverged := by
  unfold addFile
  have : ¬ f.data.length > 65535 := by omega
  simp only [this, if_false]
  rw [← needs_eq]
  rfl

theorem addFile_ok {order : List Nat} {b b1 : Bytes} {f : CFile} {gs : List Nat} {e : Nat}
    (h : f.data.length ≤ 65535) (hb1 : b1.length = 161280) (hlen : gs.length = needs f)
    (hlt : ∀ g ∈ gs, g < 68) (he : e < 72)
    (halloc : alloc order (needs f) b = .ok (gs, b1)) (hdir : findEmptyDir b1 = .ok (some e)) :
    addFile order b f = .ok (finalImg f gs e b1) := by
  rw [addFile_unfold order b f h, halloc]
  simp only [hdir]
  have hn := needs_pos f
  cases gs with
  | nil => simp at hlen; omega
  | cons g0 rest =>
    simp only []
    have hde := dirEntryBytes_length f g0 (flsb f)
    have hin2 : DIR + e * 32 + (dirEntryBytes f g0 (flsb f)).length ≤ b1.length := by
      rw [hde, DIR_eq, hb1]; omega
    have hb2 : (splice b1 (DIR + e * 32) (dirEntryBytes f g0 (flsb f))).length = 161280 := by
      rw [splice_length hin2, hb1]
    have hpre := fpre_length_le f
    have hpost := fpost_length_le f
    have hbound := needs_bound f
    rw [stream_length] at hbound
    have hwtg := writeToGranules_eq (g0 :: rest) _ f.data (fpre f) (fpost f) true hb2 hlt
      (by simp; omega) (by omega) (by rw [hlen]; simp; omega)
    simp only [if_true] at hwtg
    rw [← streamOfFile_eq] at hwtg
    have hb3 := writeStream_length (s := streamOfFile f) hb2 hlt
    have hb4 := fatT_length (g0 :: rest) _ (flgs f) hb3 hlt
    rw [writeBytes_eq hin2]
    simp only [Option.bind_eq_bind, Option.bind_some, hwtg, writeFat_eq _ _ _ hb3 hlt]
    rw [writeBytes_eq (by rw [hb4, List.length_replicate]; omega)]
    rfl


/-- what storing one file does to the image, in the spec's vocabulary -/
structure Effect (b b' : Bytes) (f : CFile) (gs : List Nat) (e : Nat) : Prop where
  len : b'.length = 161280
  fat_other : ∀ g, g < 68 → g ∉ gs → fatAt b' g = fatAt b g
  fat_chain : Encodes b' gs (flgs f)
  dir_other : ∀ k, k < 72 → k ≠ e → dirEntry b' k = dirEntry b k
  dir_new : dirEntry b' e = dirEntryBytes f (gs.headD 0) (flsb f)
  gran_other : ∀ g, g < 68 → g ∉ gs → granuleBytes b' g = granuleBytes b g
  stream : (streamOf b' gs).take (streamOfFile f).length = streamOfFile f
  t17a : (b'.drop 78336).take 256 = (b.drop 78336).take 256
  t17b : (b'.drop 81152).take 1792 = (b.drop 81152).take 1792

theorem finalImg_effect {b b1 : Bytes} {f : CFile} {gs : List Nat} {e : Nat}
    (hb1 : b1.length = 161280) (hlen : gs.length = needs f) (hnd : gs.Nodup)
    (hlt : ∀ g ∈ gs, g < 68) (he : e < 72)
    (hframe : ∀ i, (∀ g ∈ gs, i ≠ FAT + g) → b1[i]? = b[i]?) :
    Effect b (finalImg f gs e b1) f gs e := by
  have hde := dirEntryBytes_length f (gs.headD 0) (flsb f)
  have hin2 : DIR + e * 32 + (dirEntryBytes f (gs.headD 0) (flsb f)).length ≤ b1.length := by
    rw [hde, DIR_eq, hb1]; omega
  have hb2 : (splice b1 (DIR + e * 32) (dirEntryBytes f (gs.headD 0) (flsb f))).length = 161280 := by
    rw [splice_length hin2, hb1]
  have hb3 := writeStream_length (s := streamOfFile f) hb2 hlt
  have hb4 := fatT_length gs _ (flgs f) hb3 hlt
  have hin5 : 78660 + (List.replicate 188 0x00).length ≤
      (fatT (writeStream (splice b1 (DIR + e * 32) (dirEntryBytes f (gs.headD 0) (flsb f))) gs (streamOfFile f))
        gs (flgs f)).length := by rw [hb4, List.length_replicate]; omega
  have hb5 : (finalImg f gs e b1).length = 161280 := by
    unfold finalImg; rw [splice_length hin5, hb4]
  -- frames of the last two steps
  have f54 : ∀ i, (i < 78660 ∨ 78848 ≤ i) → (finalImg f gs e b1)[i]? =
      (fatT (writeStream (splice b1 (DIR + e * 32) (dirEntryBytes f (gs.headD 0) (flsb f))) gs (streamOfFile f))
        gs (flgs f))[i]? := by
    intro i hi
    unfold finalImg
    apply splice_frame hin5
    rw [List.length_replicate]; omega
  have f43 : ∀ i, (∀ g ∈ gs, i ≠ FAT + g) →
      (fatT (writeStream (splice b1 (DIR + e * 32) (dirEntryBytes f (gs.headD 0) (flsb f))) gs (streamOfFile f))
        gs (flgs f))[i]? =
      (writeStream (splice b1 (DIR + e * 32) (dirEntryBytes f (gs.headD 0) (flsb f))) gs (streamOfFile f))[i]? :=
    fun i hi => fatT_frame gs _ _ hb3 hlt i hi
  have f32 : ∀ i, (∀ g ∈ gs, i < seek g ∨ seek g + 2304 ≤ i) →
      (writeStream (splice b1 (DIR + e * 32) (dirEntryBytes f (gs.headD 0) (flsb f))) gs (streamOfFile f))[i]? =
      (splice b1 (DIR + e * 32) (dirEntryBytes f (gs.headD 0) (flsb f)))[i]? :=
    fun i hi => writeStream_frame hb2 hlt i hi
  have f21 : ∀ i, (i < DIR + e * 32 ∨ DIR + e * 32 + 32 ≤ i) →
      (splice b1 (DIR + e * 32) (dirEntryBytes f (gs.headD 0) (flsb f)))[i]? = b1[i]? := by
    intro i hi
    apply splice_frame hin2
    rw [hde]; exact hi
  have fall : ∀ i, (i < 78660 ∨ 78848 ≤ i) → (∀ g ∈ gs, i ≠ FAT + g) →
      (∀ g ∈ gs, i < seek g ∨ seek g + 2304 ≤ i) → (i < DIR + e * 32 ∨ DIR + e * 32 + 32 ≤ i) →
      (finalImg f gs e b1)[i]? = b[i]? := by
    intro i h5 h4 h3 h2
    rw [f54 i h5, f43 i h4, f32 i h3, f21 i h2, hframe i h4]
  have t17 : ∀ i, 78336 ≤ i → i < 82944 → ∀ g ∈ gs, i < seek g ∨ seek g + 2304 ≤ i := by
    intro i h1 h2 g hg
    have := seek_track17 g (hlt g hg)
    omega
  refine ⟨hb5, ?_, ?_, ?_, ?_, ?_, ?_, ?_, ?_⟩
  · -- fat_other
    intro g hg hgn
    apply fatAt_congr
    rw [FAT_eq]
    apply fall
    · omega
    · intro g' hg' e'
      rw [FAT_eq] at e'
      have : g = g' := by omega
      exact hgn (this ▸ hg')
    · exact t17 _ (by omega) (by omega)
    · rw [DIR_eq]; omega
  · -- fat_chain
    apply Encodes_congr gs (flgs f) (b := fatT (writeStream (splice b1 (DIR + e * 32)
      (dirEntryBytes f (gs.headD 0) (flsb f))) gs (streamOfFile f)) gs (flgs f))
    · intro g hg
      apply fatAt_congr
      apply f54
      have := hlt g hg
      rw [FAT_eq]; omega
    · exact fatT_encodes gs _ _ hb3 hlt hnd
  · -- dir_other
    intro k hk hke
    unfold dirEntry dirOff
    apply slice_congr
    intro i h1 h2
    apply fall
    · omega
    · intro g hg; have := hlt g hg; rw [FAT_eq]; omega
    · exact t17 _ (by omega) (by omega)
    · rw [DIR_eq]; omega
  · -- dir_new
    unfold dirEntry dirOff
    have e1 : 78848 + 32 * e = DIR + e * 32 := by rw [DIR_eq]; omega
    rw [e1]
    have : ((finalImg f gs e b1).drop (DIR + e * 32)).take 32 =
        ((splice b1 (DIR + e * 32) (dirEntryBytes f (gs.headD 0) (flsb f))).drop (DIR + e * 32)).take 32 := by
      apply slice_congr
      intro i h1 h2
      rw [DIR_eq] at h1 h2
      rw [f54 i (by omega), f43 i (by intro g hg; have := hlt g hg; rw [FAT_eq]; omega),
        f32 i (t17 _ (by omega) (by omega))]
    rw [this]
    have := splice_read hin2
    rw [hde] at this
    exact this
  · -- gran_other
    intro g hg hgn
    rw [granuleBytes_eq, granuleBytes_eq]
    apply slice_congr
    intro i h1 h2
    have ht := seek_track17 g hg
    apply fall
    · omega
    · intro g' hg'; have := hlt g' hg'; rw [FAT_eq]; omega
    · intro g' hg'
      have hne : g ≠ g' := fun e' => hgn (e' ▸ hg')
      have := seek_disj g g' hg (hlt g' hg') hne
      omega
    · rw [DIR_eq]; omega
  · -- stream
    have hbound := needs_bound f
    have hrd := writeStream_read (b := splice b1 (DIR + e * 32) (dirEntryBytes f (gs.headD 0) (flsb f)))
      (s := streamOfFile f) hnd hlt hb2 (by rw [hlen]; omega)
    have hso : streamOf (finalImg f gs e b1) gs = streamOf (writeStream (splice b1 (DIR + e * 32)
        (dirEntryBytes f (gs.headD 0) (flsb f))) gs (streamOfFile f)) gs := by
      apply streamOf_congr
      intro g hg
      rw [granuleBytes_eq, granuleBytes_eq]
      apply slice_congr
      intro i h1 h2
      have ht := seek_track17 g (hlt g hg)
      rw [f54 i (by omega), f43 i (by intro g' hg'; have := hlt g' hg'; rw [FAT_eq]; omega)]
    rw [hso]; exact hrd
  · -- t17a
    apply slice_congr
    intro i h1 h2
    apply fall
    · omega
    · intro g hg; rw [FAT_eq]; omega
    · exact t17 _ (by omega) (by omega)
    · rw [DIR_eq]; omega
  · -- t17b
    apply slice_congr
    intro i h1 h2
    apply fall
    · omega
    · intro g hg; have := hlt g hg; rw [FAT_eq]; omega
    · exact t17 _ (by omega) (by omega)
    · rw [DIR_eq]; omega


theorem findEmptyDirFrom_some {b : Bytes} (hb : b.length = 161280) :
    ∀ (n s e : Nat), s + n ≤ 72 → findEmptyDirFrom b n s = .ok (some e) →
      s ≤ e ∧ e < s + n ∧ live (dirEntry b e) = false ∧ ∀ k, s ≤ k → k < e → live (dirEntry b k) = true := by
  intro n
  induction n with
  | zero => intro s e _ h; simp [findEmptyDirFrom] at h
  | succ n ih =>
    intro s e hs h
    rw [findEmptyDirFrom, dirEntryInUse_eq hb (by omega)] at h
    cases hl : live (dirEntry b s) with
    | false =>
      rw [hl] at h
      simp only [] at h
      cases h
      exact ⟨by omega, by omega, hl, fun k h1 h2 => by omega⟩
    | true =>
      rw [hl] at h
      simp only [] at h
      obtain ⟨h1, h2, h3, h4⟩ := ih (s + 1) e (by omega) h
      refine ⟨by omega, by omega, h3, ?_⟩
      intro k hk1 hk2
      by_cases e' : k = s
      · subst e'; exact hl
      · exact h4 k (by omega) hk2

theorem findEmptyDirFrom_cases {b : Bytes} (hb : b.length = 161280) :
    ∀ (n s : Nat), s + n ≤ 72 → ∃ r, findEmptyDirFrom b n s = .ok r := by
  intro n
  induction n with
  | zero => intro s _; exact ⟨none, rfl⟩
  | succ n ih =>
    intro s hs
    rw [findEmptyDirFrom, dirEntryInUse_eq hb (by omega)]
    cases live (dirEntry b s) with
    | false => exact ⟨some s, rfl⟩
    | true => exact ih (s + 1) (by omega)

theorem dirEntry_congr {b b' : Bytes} {k : Nat}
    (h : ∀ i, 78848 + 32 * k ≤ i → i < 78848 + 32 * k + 32 → b'[i]? = b[i]?) : dirEntry b' k = dirEntry b k := by
  unfold dirEntry dirOff
  exact slice_congr h

/-- everything `add_file` does when it succeeds -/
theorem addFile_effect {order : List Nat} {b b' : Bytes} {f : CFile} (hb : b.length = 161280)
    (ho : ValidOrder order) (hd : f.data.length ≤ 65535) (hres : addFile order b f = .ok b') :
    ∃ gs e, gs.length = needs f ∧ gs.Nodup ∧ (∀ g ∈ gs, g < 68 ∧ fatAt b g = 0xFF) ∧ e < 72 ∧
      live (dirEntry b e) = false ∧ (∀ k, k < e → live (dirEntry b k) = true) ∧
      Effect b b' f gs e ∧ freeGranules b' + needs f = freeGranules b := by
  rw [addFile_unfold order b f hd] at hres
  split at hres
  · rename_i gs b1 halloc
    obtain ⟨hlen, hnd, hall, hb1, hframe, hmark, hcnt⟩ := alloc_spec ho _ _ _ _ hb halloc
    have hlt : ∀ g ∈ gs, g < 68 := fun g hg => (hall g hg).1
    split at hres
    · rename_i e hdir
      obtain ⟨_, he, hfree, hlive⟩ := findEmptyDirFrom_some hb1 72 0 e (by omega) hdir
      have hok := addFile_ok hd hb1 hlen hlt (by omega) halloc hdir
      rw [addFile_unfold order b f hd, halloc] at hok
      simp only [hdir] at hok
      rw [hok] at hres
      cases hres
      have hdireq : ∀ k, k < 72 → dirEntry b1 k = dirEntry b k := by
        intro k hk
        apply dirEntry_congr
        intro i h1 h2
        apply hframe
        intro g hg
        have := hlt g hg
        rw [FAT_eq]; omega
      have heff := finalImg_effect (b := b) (f := f) (e := e) hb1 hlen hnd hlt (by omega) hframe
      refine ⟨gs, e, hlen, hnd, hall, by omega, ?_, ?_, heff, ?_⟩
      · rw [← hdireq e (by omega)]; exact hfree
      · intro k hk; rw [← hdireq k (by omega)]; exact hlive k (by omega) hk
      · rw [← hcnt]
        congr 1
        unfold freeGranules
        congr 1
        apply List.filter_congr
        intro g hg
        have hg68 : g < 68 := by simpa using hg
        by_cases hin : g ∈ gs
        · have h1 := Encodes_ne_free gs (flgs f) (flgs_range f).2 hlt heff.fat_chain g hin
          have h2 := hmark g hin
          simp [h1, h2]
        · rw [heff.fat_other g hg68 hin]
          have : fatAt b1 g = fatAt b g := by
            apply fatAt_congr
            apply hframe
            intro g' hg' e'
            have : g = g' := by omega
            exact hin (this ▸ hg')
          rw [this]
    all_goals cases hres
  all_goals cases hres

end CoCo.Dsk

