/-
Lemmas/RelocAddr.lean — relocation (C18-R1), part 1: address assignment.

Two statement lists that enter `assignAddrs` and differ only in the numeric value of their preset
(ORG) addresses, all of them moved by `D`, come out of `assignAddrs` with every address moved by `D`.
Two levels:
* `AddrShiftI` (integer level): sizes equal, `address.int` moves by `D`.  No side condition at all.
* `AddrShift` (value level): the address VALUES are `.numeric a h m false` / `.numeric (a+D) h m false`
  with the same hint and mode.  This needs `256 ≤ a` for the addresses `assignAddrs` creates itself
  (`numV a` is a one-byte DIRECT value below 256, known finding A11).
-/
import CoCoVerif.Lemmas.LayoutEval
import CoCoVerif.Lemmas.FrontFix
import CoCoVerif.Lemmas.EncodeHex

namespace CoCo.Asm
open CoCo

/-! ### helpers on `PW` -/

theorem PW.uncons {α β : Type} {R : α → β → Prop} {a : α} {b : β} {l : List α} {l' : List β}
    (h : PW R (a :: l) (b :: l')) : R a b ∧ PW R l l' :=
  ⟨h.2 0 a b (by simp) (by simp),
   by have := h.1; simpa using this,
   fun j s s' h1 h2 => h.2 (j + 1) s s' (by simpa using h1) (by simpa using h2)⟩

theorem PW.nil_left {α β : Type} {R : α → β → Prop} {l' : List β} (h : PW R [] l') : l' = [] :=
  List.eq_nil_of_length_eq_zero (by simpa using h.1)

theorem PW.cons_left {α β : Type} {R : α → β → Prop} {a : α} {l : List α} {l' : List β}
    (h : PW R (a :: l) l') : ∃ b r, l' = b :: r ∧ R a b ∧ PW R l r := by
  cases l' with
  | nil => have := h.1; simp at this
  | cons b r => exact ⟨b, r, rfl, h.uncons⟩

theorem PW.nil_right {α β : Type} {R : α → β → Prop} {l : List α} (h : PW R l []) : l = [] :=
  List.eq_nil_of_length_eq_zero (by have := h.1; simpa using this.symm)

theorem PW.cons_right {α β : Type} {R : α → β → Prop} {b : β} {l : List α} {r : List β}
    (h : PW R l (b :: r)) : ∃ a l0, l = a :: l0 ∧ R a b ∧ PW R l0 r := by
  cases l with
  | nil => have := h.1; simp at this
  | cons a l0 => exact ⟨a, l0, rfl, h.uncons⟩

theorem PW.flip {α β : Type} {R : α → β → Prop} {l : List α} {l' : List β} (h : PW R l l') :
    PW (fun b a => R a b) l' l :=
  ⟨h.1.symm, fun j s s' h1 h2 => h.2 j s' s h2 h1⟩

theorem PW.and {α β : Type} {R S : α → β → Prop} {l : List α} {l' : List β} (h1 : PW R l l') (h2 : PW S l l') :
    PW (fun a b => R a b ∧ S a b) l l' :=
  ⟨h1.1, fun j s s' a b => ⟨h1.2 j s s' a b, h2.2 j s s' a b⟩⟩

/-! ### definitions -/

/-- move a numeric value by `D` (addresses are numeric values) -/
def shiftV (D : Nat) : Value → Value
  | .numeric a h m n => .numeric (a + D) h m n
  | v => v

@[simp] theorem shiftV_numeric (D a : Nat) (h : Option Nat) (m : Mode) (n : Bool) :
    shiftV D (.numeric a h m n) = .numeric (a + D) h m n := rfl

/-- relation between the statements that ENTER `assignAddrs`: same size; either both without an
address, or both with a numeric preset address, the second one `D` higher -/
def OrgShift (D : Nat) (s s' : Stmt) : Prop :=
  s'.pkg.size = s.pkg.size ∧
  ((s.pkg.address = .none ∧ s'.pkg.address = .none) ∨
   (∃ o h m n, s.pkg.address = .numeric o h m n ∧ s'.pkg.address = .numeric (o + D) h m n))

/-- integer-level relation between the statements that LEAVE `assignAddrs` -/
def AddrShiftI (D : Nat) (s s' : Stmt) : Prop :=
  s'.pkg.size = s.pkg.size ∧ ∃ a, addrNat s = some a ∧ addrNat s' = some (a + D)

/-- a "wide" address value: numeric, not negative, rendered with two bytes (hint 4, or no hint and at
least 256), and `a + D` still inside the 64K space -/
def WideAddr (D : Nat) (v v' : Value) : Prop :=
  ∃ a h m, v = .numeric a h m false ∧ v' = .numeric (a + D) h m false ∧
    (h = some 4 ∨ (h = none ∧ 256 ≤ a)) ∧ a + D < 65536

/-- value-level relation between the statements that leave `assignAddrs` -/
def AddrShift (D : Nat) (s s' : Stmt) : Prop :=
  s'.pkg.size = s.pkg.size ∧ WideAddr D s.pkg.address s'.pkg.address

theorem WideAddr.shiftV {D : Nat} {v v' : Value} (h : WideAddr D v v') : v' = shiftV D v := by
  obtain ⟨a, hh, m, rfl, rfl, _, _⟩ := h; rfl

theorem AddrShift.toI {D : Nat} {s s' : Stmt} (h : AddrShift D s s') : AddrShiftI D s s' := by
  obtain ⟨h1, a, hh, m, h2, h3, _, _⟩ := h
  exact ⟨h1, a, by simp [addrNat, h2, Value.int?], by simp [addrNat, h3, Value.int?]⟩

/-- the preset addresses are ORG-like: hint 4, not negative (what `ORG $hhhh` produces) -/
def OrgWide (s : Stmt) : Prop :=
  s.pkg.address = .none ∨ ∃ o m, s.pkg.address = .numeric o (some 4) m false

/-! ### `assignAddrs` one step -/

theorem assignAddrs_none {s : Stmt} {rest : List Stmt} {a : Nat} (h : s.pkg.address = .none) :
    assignAddrs (s :: rest) a =
      (match numV a with
       | .ok v => (match assignAddrs rest (a + s.pkg.size) with
                   | .ok r => .ok ({ s with pkg := { s.pkg with address := v } } :: r) | o => o)
       | .error _ => .diag) := by
  rw [assignAddrs]; simp [h, Value.isNone]; rfl

theorem assignAddrs_numeric {s : Stmt} {rest : List Stmt} {a o : Nat} {hh : Option Nat} {m : Mode} {n : Bool}
    (h : s.pkg.address = .numeric o hh m n) :
    assignAddrs (s :: rest) a =
      (match assignAddrs rest (o + s.pkg.size) with | .ok r => .ok (s :: r) | o => o) := by
  rw [assignAddrs]; simp [h, Value.isNone, Value.int?]; rfl

/-- a list that starts with a preset statement is laid out independently of the start address -/
theorem assignAddrs_head_preset {s : Stmt} {rest : List Stmt} {o : Nat} {hh : Option Nat} {m : Mode} {n : Bool}
    (h : s.pkg.address = .numeric o hh m n) (a b : Nat) :
    assignAddrs (s :: rest) a = assignAddrs (s :: rest) b := by
  rw [assignAddrs_numeric h, assignAddrs_numeric h]

theorem numV_ok_iff (a : Nat) : (∃ v, numV a = .ok v) ↔ a < 65536 := by
  unfold numV numericOfInt
  constructor
  · rintro ⟨v, h⟩
    split at h
    · cases h
    · omega
  · intro h
    rw [if_neg (by omega)]
    exact ⟨_, rfl⟩

theorem numV_error {a : Nat} (h : ¬ a < 65536) : ∃ e, numV a = .error e := by
  unfold numV numericOfInt
  rw [if_pos (by omega)]
  exact ⟨_, rfl⟩

/-! ### integer level -/

/-- from the relocated layout back to the original one: no side condition -/
theorem assignAddrs_reloc_bwd (D : Nat) : ∀ (ss ss' : List Stmt) (a : Nat) (as' : List Stmt),
    PW (OrgShift D) ss ss' → assignAddrs ss' (a + D) = .ok as' →
    ∃ as, assignAddrs ss a = .ok as ∧ PW (AddrShiftI D) as as' := by
  intro ss
  induction ss with
  | nil =>
    intro ss' a as' hpw h
    rw [hpw.nil_left] at h
    simp [assignAddrs] at h; subst h
    exact ⟨[], rfl, .nil⟩
  | cons s rest ih =>
    intro ss' a as' hpw h
    obtain ⟨s', rest', rfl, ⟨hsz, hcase⟩, hrest⟩ := hpw.cons_left
    rcases hcase with ⟨h0, h0'⟩ | ⟨o, hh, m, n, h0, h0'⟩
    · rw [assignAddrs_none h0'] at h
      rw [assignAddrs_none h0]
      cases hv' : numV (a + D) with
      | error e => rw [hv'] at h; cases h
      | ok v' =>
        rw [hv'] at h; dsimp only at h
        have hlt : a < 65536 := by have := (numV_ok_iff (a + D)).mp ⟨v', hv'⟩; omega
        obtain ⟨v, hv⟩ := (numV_ok_iff a).mpr hlt
        rw [hv]; dsimp only
        cases hr' : assignAddrs rest' (a + D + s'.pkg.size) with
        | ok r' =>
          rw [hr'] at h; cases h
          have e : a + D + s'.pkg.size = (a + s.pkg.size) + D := by rw [hsz]; omega
          rw [e] at hr'
          obtain ⟨r, hr, hpr⟩ := ih _ _ _ hrest hr'
          rw [hr]
          refine ⟨_, rfl, .cons ⟨hsz, a, ?_, ?_⟩ hpr⟩
          · simpa [addrNat] using numV_int hv
          · simpa [addrNat] using numV_int hv'
        | _ => rw [hr'] at h; cases h
    · rw [assignAddrs_numeric h0'] at h
      rw [assignAddrs_numeric h0]
      cases hr' : assignAddrs rest' (o + D + s'.pkg.size) with
      | ok r' =>
        rw [hr'] at h; cases h
        have e : o + D + s'.pkg.size = (o + s.pkg.size) + D := by rw [hsz]; omega
        rw [e] at hr'
        obtain ⟨r, hr, hpr⟩ := ih _ _ _ hrest hr'
        rw [hr]
        exact ⟨_, rfl, .cons ⟨hsz, o, by simp [addrNat, h0, Value.int?], by simp [addrNat, h0', Value.int?]⟩ hpr⟩
      | _ => rw [hr'] at h; cases h

/-- from the original layout to the relocated one: every address must stay below `$10000` -/
theorem assignAddrs_reloc_fwd (D : Nat) : ∀ (ss ss' : List Stmt) (a : Nat) (as : List Stmt),
    PW (OrgShift D) ss ss' → assignAddrs ss a = .ok as →
    (∀ s ∈ as, ∀ n, addrNat s = some n → n + D < 65536) →
    ∃ as', assignAddrs ss' (a + D) = .ok as' ∧ PW (AddrShiftI D) as as' := by
  intro ss
  induction ss with
  | nil =>
    intro ss' a as hpw h _
    rw [hpw.nil_left]
    simp [assignAddrs] at h; subst h
    exact ⟨[], rfl, .nil⟩
  | cons s rest ih =>
    intro ss' a as hpw h hb
    obtain ⟨s', rest', rfl, ⟨hsz, hcase⟩, hrest⟩ := hpw.cons_left
    rcases hcase with ⟨h0, h0'⟩ | ⟨o, hh, m, n, h0, h0'⟩
    · rw [assignAddrs_none h0] at h
      rw [assignAddrs_none h0']
      cases hv : numV a with
      | error e => rw [hv] at h; cases h
      | ok v =>
        rw [hv] at h; dsimp only at h
        cases hr : assignAddrs rest (a + s.pkg.size) with
        | ok r =>
          rw [hr] at h; cases h
          have hlt : a + D < 65536 :=
            hb { s with pkg := { s.pkg with address := v } } (by simp) a (by simpa [addrNat] using numV_int hv)
          obtain ⟨v', hv'⟩ := (numV_ok_iff (a + D)).mpr hlt
          rw [hv']; dsimp only
          obtain ⟨r', hr', hpr⟩ := ih _ _ _ hrest hr (fun x hx => hb x (by simp [hx]))
          have e : a + D + s'.pkg.size = (a + s.pkg.size) + D := by rw [hsz]; omega
          rw [e, hr']
          refine ⟨_, rfl, .cons ⟨hsz, a, ?_, ?_⟩ hpr⟩
          · simpa [addrNat] using numV_int hv
          · simpa [addrNat] using numV_int hv'
        | _ => rw [hr] at h; cases h
    · rw [assignAddrs_numeric h0] at h
      rw [assignAddrs_numeric h0']
      cases hr : assignAddrs rest (o + s.pkg.size) with
      | ok r =>
        rw [hr] at h; cases h
        obtain ⟨r', hr', hpr⟩ := ih _ _ _ hrest hr (fun x hx => hb x (by simp [hx]))
        have e : o + D + s'.pkg.size = (o + s.pkg.size) + D := by rw [hsz]; omega
        rw [e, hr']
        exact ⟨_, rfl, .cons ⟨hsz, o, by simp [addrNat, h0, Value.int?], by simp [addrNat, h0', Value.int?]⟩ hpr⟩
      | _ => rw [hr] at h; cases h

/-! ### value level -/

/-- when both layouts exist, presets are ORG-like, and the running address is at least `$100`, the address
VALUES correspond (same hint, same mode) -/
theorem assignAddrs_reloc_wide (D : Nat) : ∀ (ss ss' : List Stmt) (a : Nat) (as as' : List Stmt),
    PW (OrgShift D) ss ss' → (∀ s ∈ ss, OrgWide s) →
    (256 ≤ a ∨ ∃ s0 r0 o h m n, ss = s0 :: r0 ∧ s0.pkg.address = .numeric o h m n) →
    (∀ s ∈ ss, ∀ o h m n, s.pkg.address = .numeric o h m n → 256 ≤ o ∧ o + D < 65536) →
    assignAddrs ss a = .ok as → assignAddrs ss' (a + D) = .ok as' → PW (AddrShift D) as as' := by
  intro ss
  induction ss with
  | nil =>
    intro ss' a as as' hpw _ _ _ h h'
    rw [hpw.nil_left] at h'
    simp [assignAddrs] at h h'; subst h h'
    exact .nil
  | cons s rest ih =>
    intro ss' a as as' hpw hw ha ho h h'
    obtain ⟨s', rest', rfl, ⟨hsz, hcase⟩, hrest⟩ := hpw.cons_left
    have hw' : ∀ x ∈ rest, OrgWide x := fun x hx => hw x (by simp [hx])
    have ho' : ∀ x ∈ rest, ∀ o h m n, x.pkg.address = .numeric o h m n → 256 ≤ o ∧ o + D < 65536 :=
      fun x hx => ho x (by simp [hx])
    rcases hcase with ⟨h0, h0'⟩ | ⟨o, hh, m, n, h0, h0'⟩
    · have ha256 : 256 ≤ a := by
        rcases ha with ha | ⟨s0, r0, o, hh, m, n, he, h1⟩
        · exact ha
        · cases he; rw [h0] at h1; cases h1
      rw [assignAddrs_none h0] at h
      rw [assignAddrs_none h0'] at h'
      cases hv : numV a with
      | error e => rw [hv] at h; cases h
      | ok v =>
        rw [hv] at h; dsimp only at h
        cases hv' : numV (a + D) with
        | error e => rw [hv'] at h'; cases h'
        | ok v' =>
          rw [hv'] at h'; dsimp only at h'
          cases hr : assignAddrs rest (a + s.pkg.size) with
          | ok r =>
            rw [hr] at h; cases h
            cases hr' : assignAddrs rest' (a + D + s'.pkg.size) with
            | ok r' =>
              rw [hr'] at h'; cases h'
              have e : a + D + s'.pkg.size = (a + s.pkg.size) + D := by rw [hsz]; omega
              rw [e] at hr'
              have hlt : a + D < 65536 := (numV_ok_iff (a + D)).mp ⟨v', hv'⟩
              rw [numV_word ha256 (by omega)] at hv
              rw [numV_word (by omega) hlt] at hv'
              cases hv; cases hv'
              refine .cons ⟨hsz, a, none, .extended, rfl, rfl, .inr ⟨rfl, ha256⟩, hlt⟩
                (ih _ _ _ _ hrest hw' (.inl (by omega)) ho' hr hr')
            | _ => rw [hr'] at h'; cases h'
          | _ => rw [hr] at h; cases h
    · rw [assignAddrs_numeric h0] at h
      rw [assignAddrs_numeric h0'] at h'
      obtain ⟨ho256, hoD⟩ := ho s (by simp) o hh m n h0
      have hshape : hh = some 4 ∧ n = false := by
        rcases hw s (by simp) with h1 | ⟨o1, m1, h1⟩
        · rw [h0] at h1; cases h1
        · rw [h0] at h1; cases h1; exact ⟨rfl, rfl⟩
      obtain ⟨rfl, rfl⟩ := hshape
      cases hr : assignAddrs rest (o + s.pkg.size) with
      | ok r =>
        rw [hr] at h; cases h
        cases hr' : assignAddrs rest' (o + D + s'.pkg.size) with
        | ok r' =>
          rw [hr'] at h'; cases h'
          have e : o + D + s'.pkg.size = (o + s.pkg.size) + D := by rw [hsz]; omega
          rw [e] at hr'
          exact .cons ⟨hsz, o, some 4, m, h0, h0', .inl rfl, hoD⟩
            (ih _ _ _ _ hrest hw' (.inl (by omega)) ho' hr hr')
        | _ => rw [hr'] at h'; cases h'
      | _ => rw [hr] at h; cases h

/-! ### lookups in the two layouts -/

section lookups
variable {D : Nat} {as as' : List Stmt}

theorem AddrShiftI.sizes (h : PW (AddrShiftI D) as as') : PW (fun s s' => s'.pkg.size = s.pkg.size) as as' :=
  h.mono (fun _ _ r => r.1)

theorem sumSize_reloc (h : PW (AddrShiftI D) as as') (lo hi : Nat) : sumSize as' lo hi = sumSize as lo hi :=
  sumSize_congr (AddrShiftI.sizes h) lo hi

theorem addrIntOf_eq (ss : List Stmt) (j : Nat) : addrIntOf ss j = (ss[j]?).bind addrNat := by
  unfold addrIntOf addrOf addrNat
  cases ss[j]? <;> rfl

/-- the address of statement `j` as a number: moved by `D` -/
theorem addrIntOf_reloc (h : PW (AddrShiftI D) as as') (j : Nat) :
    addrIntOf as' j = (addrIntOf as j).map (· + D) := by
  rw [addrIntOf_eq, addrIntOf_eq]
  cases hj : as[j]? with
  | none =>
    have : as.length ≤ j := List.getElem?_eq_none_iff.mp hj
    rw [List.getElem?_eq_none_iff.mpr (by rw [h.1]; exact this)]; rfl
  | some s =>
    obtain ⟨s', hs', _, a, h1, h2⟩ := h.get hj
    simp [hs', h1, h2]

/-- the address VALUE of statement `j`: moved by `D` -/
theorem addrOf_reloc (h : PW (AddrShift D) as as') (j : Nat) :
    addrOf as' j = (addrOf as j).map (shiftV D) := by
  unfold addrOf
  cases hj : as[j]? with
  | none =>
    have : as.length ≤ j := List.getElem?_eq_none_iff.mp hj
    rw [List.getElem?_eq_none_iff.mpr (by rw [h.1]; exact this)]; rfl
  | some s =>
    obtain ⟨s', hs', _, hw⟩ := h.get hj
    simp [hs', hw.shiftV]

theorem addrOf_isSome_reloc (h : PW (AddrShiftI D) as as') (j : Nat) :
    (addrOf as' j).isSome = (addrOf as j).isSome := by
  unfold addrOf
  cases hj : as[j]? with
  | none =>
    have : as.length ≤ j := List.getElem?_eq_none_iff.mp hj
    rw [List.getElem?_eq_none_iff.mpr (by rw [h.1]; exact this)]
  | some s =>
    obtain ⟨s', hs', _⟩ := h.get hj
    simp [hs']

end lookups

end CoCo.Asm
