/-
Lemmas/LayoutTerm.lean — termination of the PCR size loop (`pcrLoop`) and absence of the
`diverged` outcome in every stage of `assemble`.
-/
import CoCoVerif.Model.Program

namespace CoCo.Asm
open CoCo

/-- number of statements whose size is still undecided -/
def unfixed (ss : List Stmt) : Nat := ss.countP (fun s => !s.fixedSize)

theorem unfixed_le_length (ss : List Stmt) : unfixed ss ≤ ss.length := List.countP_le_length

theorem allFixed_iff_unfixed (ss : List Stmt) : allFixed ss = true ↔ unfixed ss = 0 := by
  simp [allFixed, unfixed, List.countP_eq_zero]

/-! ### settle / determine -/

theorem settle_fixedSize {s s' : Stmt} {e h c} (hs : settle s e h c = some s') : s'.fixedSize = true := by
  unfold settle at hs
  cases hp : orPost s c with
  | none => simp [hp] at hs
  | some pb => simp [hp] at hs; subst hs; rfl

/-- case form of `determine` -/
theorem determine_cases (ss : List Stmt) (i : Nat) (s : Stmt) :
    determine ss i s = .diag ∨ determine ss i s = .internal ∨ determine ss i s = .ok s ∨
    ∃ e h c s', settle s e h c = some s' ∧ determine ss i s = .ok s' := by
  unfold determine
  split
  · rename_i c0 c1 _
    -- fix 8dc2b21/316e504: `label * k` / `label / k` is settled on the 16-bit form at once
    by_cases hfo : exprForces s.pkg.additional = true
    · rw [if_pos hfo]
      cases hs : settle s 2 4 c1 with
      | none => simp
      | some s' => right; right; right; exact ⟨_, _, _, _, hs, rfl⟩
    rw [if_neg hfo]
    split
    · simp
    · split
      · simp
      · rename_i rel _ _
        dsimp only
        generalize (if rel ≤ i then sumSizes ss rel i else sumSizes ss i rel) = pr
        generalize (if rel ≤ i then s.pkg.size - 1 else 0) + exprExtra s.pkg.additional = adj
        generalize (if rel ≤ i then 128 else 127) = lim
        obtain ⟨mn, mx⟩ := pr
        dsimp only
        by_cases h1 : mn + 2 + adj ≤ lim ∧ mx + 2 + adj ≤ lim
        · rw [if_pos h1]
          cases hs : settle s 1 2 c0 with
          | none => simp
          | some s' => right; right; right; exact ⟨_, _, _, _, hs, rfl⟩
        · rw [if_neg h1]
          by_cases h2 : mn + 2 + adj > lim ∧ mx + 2 + adj > lim
          · rw [if_pos h2]
            cases hs : settle s 2 4 c1 with
            | none => simp
            | some s' => right; right; right; exact ⟨_, _, _, _, hs, rfl⟩
          · rw [if_neg h2]; simp
  · simp
  · simp

theorem determine_ok_fixedOrSame {ss : List Stmt} {i : Nat} {s s' : Stmt} (h : determine ss i s = .ok s') :
    s'.fixedSize = true ∨ s' = s := by
  rcases determine_cases ss i s with h1 | h1 | h1 | ⟨e, hh, c, s'', hs, h1⟩ <;> rw [h1] at h <;> cases h
  · exact Or.inr rfl
  · exact Or.inl (settle_fixedSize hs)

theorem determine_not_diverged (ss : List Stmt) (i : Nat) (s : Stmt) : determine ss i s ≠ .diverged := by
  intro h
  rcases determine_cases ss i s with h1 | h1 | h1 | ⟨e, hh, c, s'', hs, h1⟩ <;> rw [h1] at h <;> cases h

/-! ### `set` and `unfixed` -/

theorem unfixed_set {ss : List Stmt} {i : Nat} {s s' : Stmt} (hi : ss[i]? = some s)
    (hs : s.fixedSize = false) :
    unfixed (ss.set i s') + (if s'.fixedSize then 1 else 0) = unfixed ss := by
  induction ss generalizing i with
  | nil => simp at hi
  | cons a r ih =>
    cases i with
    | zero =>
      simp at hi; subst hi
      simp only [List.set_cons_zero, unfixed, List.countP_cons, hs]
      cases s'.fixedSize <;> simp
    | succ j =>
      simp at hi
      have := ih hi
      simp only [List.set_cons_succ, unfixed, List.countP_cons] at this ⊢
      omega

/-! ### pcrPass -/

theorem pcrPass_spec (n : Nat) (ss : List Stmt) (i : Nat) (p : Bool) {ss' : List Stmt} {p' : Bool}
    (h : pcrPass n ss i p = .ok (ss', p')) :
    ss'.length = ss.length ∧ unfixed ss' ≤ unfixed ss ∧
      (p' = true → p = true ∨ unfixed ss' < unfixed ss) := by
  induction n generalizing ss i p with
  | zero => simp [pcrPass] at h; obtain ⟨rfl, rfl⟩ := h; simp
  | succ n ih =>
    unfold pcrPass at h
    split at h
    · simp at h; obtain ⟨rfl, rfl⟩ := h; simp
    · rename_i s hs
      split at h
      · exact ih _ _ _ h
      · rename_i hfx
        have hfx : s.fixedSize = false := by simpa using hfx
        split at h
        · rename_i s' hd
          obtain ⟨h1, h2, h3⟩ := ih _ _ _ h
          have hset := unfixed_set (s' := s') hs hfx
          refine ⟨by simpa using h1, ?_, ?_⟩
          · omega
          · intro hp
            rcases h3 hp with h3 | h3
            · rcases (Bool.or_eq_true _ _).mp h3 with h3 | h3
              · exact Or.inl h3
              · right; simp [h3] at hset; omega
            · right; omega
        · cases h
        · cases h
        · cases h

theorem pcrPass_not_diverged (n : Nat) (ss : List Stmt) (i : Nat) (p : Bool) :
    pcrPass n ss i p ≠ .diverged := by
  induction n generalizing ss i p with
  | zero => simp [pcrPass]
  | succ n ih =>
    unfold pcrPass
    split
    · simp
    · split
      · exact ih _ _ _
      · split
        · exact ih _ _ _
        · simp
        · simp
        · rename_i hd; exact absurd hd (determine_not_diverged _ _ _)

/-! ### forceFirst -/

theorem forceFirst_spec {ss ss' : List Stmt} (h : forceFirst ss = some ss') :
    unfixed ss' < unfixed ss ∨ (allFixed ss = true ∧ ss' = ss) := by
  induction ss generalizing ss' with
  | nil => simp [forceFirst] at h; subst h; right; simp [allFixed]
  | cons s r ih =>
    unfold forceFirst at h
    split at h
    · rename_i hf
      cases hr : forceFirst r with
      | none => simp [hr] at h
      | some r' =>
        simp [hr] at h; subst h
        rcases ih hr with h1 | ⟨h1, h2⟩
        · left; simp only [unfixed, List.countP_cons] at h1 ⊢; omega
        · right; subst h2; simp [allFixed, hf] at h1 ⊢; exact h1
    · rename_i hf
      have hf : s.fixedSize = false := by simpa using hf
      split at h
      · rename_i c0 c1 _
        cases hs : settle s 2 4 c1 with
        | none => simp [hs] at h
        | some s' =>
          simp [hs] at h; subst h
          have := settle_fixedSize hs
          left; simp [unfixed, List.countP_cons, hf, this]
      · cases h

/-! ### pcrLoop -/

theorem pcrLoop_not_diverged_of_fuel (fuel : Nat) (ss : List Stmt) (h : unfixed ss ≤ fuel) :
    pcrLoop fuel ss ≠ .diverged := by
  induction fuel generalizing ss with
  | zero =>
    have : allFixed ss = true := (allFixed_iff_unfixed ss).mpr (by omega)
    simp [pcrLoop, this]
  | succ fuel ih =>
    unfold pcrLoop
    split
    · simp
    · rename_i hnf
      have hpos : unfixed ss ≠ 0 := fun h0 => hnf ((allFixed_iff_unfixed ss).mpr h0)
      split
      · rename_i ss' hp
        obtain ⟨_, h2, h3⟩ := pcrPass_spec _ _ _ _ hp
        have := h3 rfl
        simp at this
        exact ih _ (by omega)
      · rename_i ss' hp
        obtain ⟨_, h2, _⟩ := pcrPass_spec _ _ _ _ hp
        split
        · rename_i ss'' hff
          rcases forceFirst_spec hff with h4 | ⟨h4, h5⟩
          · exact ih _ (by omega)
          · subst h5
            exact ih _ (by have := (allFixed_iff_unfixed _).mp h4; omega)
        · simp
      · simp
      · simp
      · rename_i hd; exact absurd hd (pcrPass_not_diverged _ _ _ _)

theorem pcrLoop_not_diverged (ss : List Stmt) : pcrLoop (ss.length + 1) ss ≠ .diverged :=
  pcrLoop_not_diverged_of_fuel _ _ (by have := unfixed_le_length ss; omega)

/-! ### parsing and INCLUDE expansion -/

theorem parseLine_cases (l : Str) : (∃ r, parseLine l = .ok r) ∨ parseLine l = .diag := by
  unfold parseLine
  split
  · exact Or.inl ⟨_, rfl⟩
  · exact Or.inl ⟨_, rfl⟩
  · exact Or.inr rfl
  · dsimp only
    split
    · exact Or.inr rfl
    · split
      · split
        · exact Or.inr rfl
        · split
          · exact Or.inl ⟨_, rfl⟩
          · exact Or.inr rfl
      · split
        · exact Or.inl ⟨_, rfl⟩
        · exact Or.inr rfl

theorem parseLines_cases (ls : List Str) : (∃ r, parseLines ls = .ok r) ∨ parseLines ls = .diag := by
  induction ls with
  | nil => exact Or.inl ⟨_, rfl⟩
  | cons l ls ih =>
    unfold parseLines
    rcases parseLine_cases l with ⟨r, h⟩ | h <;> rw [h]
    · cases r with
      | none => exact ih
      | some s =>
        rcases ih with ⟨r, h⟩ | h <;> rw [h]
        · exact Or.inl ⟨_, rfl⟩
        · exact Or.inr rfl
    · exact Or.inr rfl

theorem expand_not_diverged (fs : Files) (fuel : Nat) (inc : List Str) (ss : List Stmt) :
    expand fs fuel inc ss ≠ .diverged := by
  induction fuel generalizing inc ss with
  | zero => simp [expand]
  | succ fuel ih =>
    rw [expand]
    induction ss with
    | nil => simp [expand.go]
    | cons s rest ihr =>
      rw [expand.go]
      split
      · split
        · simp
        · split
          · simp
          · rename_i lines _
            rcases parseLines_cases lines with ⟨r, h⟩ | h <;> rw [h]
            · dsimp only
              cases he : expand fs fuel (inc ++ [s.operand.text]) r with
              | ok e =>
                dsimp only
                cases hg : expand.go fs fuel inc rest with
                | ok r => simp
                | diag => simp
                | internal => simp
                | diverged => exact absurd hg ihr
              | diag => simp
              | internal => simp
              | diverged => exact absurd he (ih _ _)
            · simp
      · cases hg : expand.go fs fuel inc rest with
        | ok r => simp
        | diag => simp
        | internal => simp
        | diverged => exact absurd hg ihr

end CoCo.Asm
