/-
Lemmas/EncodeSpecial.lean — the register-operand instructions (`SpecialOperand`): TFR / EXG by
exhaustive evaluation, PSHS / PULS / PSHU / PULU for arbitrary register lists; and a boolean
reflection of `Encodes` used for finite checks and examples.
-/
import CoCoVerif.Lemmas.EncodeDecode
import CoCoVerif.Lemmas.EncodeSplit
import CoCoVerif.Lemmas.EncodeClasses

namespace CoCo.Asm
open CoCo CoCo.Spec.MC6809
open CoCo.Gen (InstrRow)

/-! ### boolean reflection -/

/-- the bytes a translated package emits after `fitWidth` (`none`: rejected, or `get_binary_array` fails) -/
def fittedBytes (r : InstrRow) (pkg : Pkg) : Option Bytes :=
  match fitPkg r pkg with
  | .ok p' => pkgBytes p'
  | _ => none

theorem fittedBytes_some {r : InstrRow} {pkg : Pkg} {bytes : Bytes} (h : fittedBytes r pkg = some bytes) :
    ∃ p', fitPkg r pkg = .ok p' ∧ pkgBytes p' = some bytes := by
  unfold fittedBytes at h
  split at h
  · exact ⟨_, by assumption, h⟩
  · cases h

/-- decidable version of `Encodes` -/
def encCheck (o : Operand) (r : InstrRow) (operand : Spec.MC6809.Operand) : Bool :=
  match translateOperand o r with
  | .ok pkg =>
    match fittedBytes r pkg with
    | some bytes => !pkg.needsRes && bytes.length == pkg.size &&
        decide (decode bytes = some (⟨opOf r.mnemonic, operand⟩, bytes.length))
    | none => false
  | .error _ => false

theorem encodes_of_check {o : Operand} {r : InstrRow} {operand : Spec.MC6809.Operand}
    (h : encCheck o r operand = true) : Encodes o r operand := by
  unfold encCheck at h
  split at h
  · rename_i pkg ht
    split at h
    · rename_i bytes hb
      simp only [Bool.and_eq_true, beq_iff_eq, decide_eq_true_eq, Bool.not_eq_true'] at h
      obtain ⟨p', hf, hb'⟩ := fittedBytes_some hb
      exact ⟨pkg, bytes, ht, h.1.1, emitted_of_fitPkg hf hb', h.1.2, h.2⟩
    · exact absurd h (by simp)
  · exact absurd h (by simp)

/-- size and bytes of a translated and fitted operand (for finding witnesses) -/
def sizeAndBytes (o : Operand) (r : InstrRow) : Option (Nat × Bytes) :=
  match translateOperand o r with
  | .ok pkg => (fittedBytes r pkg).map (fun b => (pkg.size, b))
  | .error _ => none

/-! ### TFR / EXG -/

theorem translateSpecial_text (o o' : Operand) (row : InstrRow) (h : o.text = o'.text) :
    translateSpecial o row = translateSpecial o' row := by
  unfold translateSpecial
  rw [h]

/-- the datasheet's register codes of the TFR / EXG post byte -/
def dsPairCode (x : String) : Nat :=
  if x = "D" then 0 else if x = "X" then 1 else if x = "Y" then 2 else if x = "U" then 3 else if x = "S" then 4
  else if x = "PC" then 5 else if x = "A" then 8 else if x = "B" then 9 else if x = "CC" then 10 else 11

/-- the datasheet accepts a register pair iff both have the same width -/
def dsPairOk (a b : String) : Bool := decide (dsPairCode a ≥ 8) == decide (dsPairCode b ≥ 8)

def pairOperand (a b : String) : Operand := { kind := .special, text := a.toList ++ ',' :: b.toList, value := .none }

def isErr {α : Type} : R α → Bool | .error _ => true | .ok _ => false

/-- all 100 pairs, both instructions: accepted exactly when the datasheet accepts, and then round trips -/
theorem tfr_exg_check : ∀ r ∈ Gen.instructions, (r.mnemonic = "TFR" ∨ r.mnemonic = "EXG") →
    ∀ a ∈ Gen.registers, ∀ b ∈ Gen.registers,
      (if dsPairOk a b then encCheck (pairOperand a b) r (.pair (dsPairCode a) (dsPairCode b))
       else isErr (translateOperand (pairOperand a b) r)) = true := by
  decide +kernel

/-! ### PSHS / PULS / PSHU / PULU -/

/-- the instruction's own stack pointer (`u`: PSHU / PULU) and the other one, which bit $40 stands for -/
def ownSP (u : Bool) : Str := if u then str "U" else str "S"
def otherSP (u : Bool) : Str := if u then str "S" else str "U"

/-- the post byte the model computes for a register list (`other`: the name bit $40 stands for) -/
def pshMask (other : Str) (regs : List Str) : Nat := regs.foldl (fun acc r => acc ||| regMaskPshPul other r) 0

theorem isReg_mem {x : Str} (h : isReg x = true) : ∃ y ∈ Gen.registers, y.toList = x := by
  simp only [isReg, List.any_eq_true, beq_iff_eq] at h
  exact h

theorem registers_facts : ∀ y ∈ Gen.registers, ',' ∉ y.toList ∧ y.toList ≠ [] ∧
    ∀ u : Bool, regMaskPshPul (otherSP u) y.toList < 256 := by
  decide

theorem isReg_facts {x : Str} (h : isReg x = true) : ',' ∉ x ∧ x ≠ [] ∧ ∀ u : Bool, regMaskPshPul (otherSP u) x < 256 := by
  obtain ⟨y, hy, rfl⟩ := isReg_mem h
  exact registers_facts y hy

theorem foldl_or_lt (f : Str → Nat) (regs : List Str) (hf : ∀ x ∈ regs, f x < 256) (a : Nat) (ha : a < 256) :
    regs.foldl (fun acc r => acc ||| f r) a < 256 := by
  induction regs generalizing a with
  | nil => simpa using ha
  | cons x t ih =>
    simp only [List.foldl_cons]
    exact ih (fun y hy => hf y (by simp [hy])) _ (Nat.or_lt_two_pow (n := 8) ha (hf x (by simp)))

theorem pshMask_lt (u : Bool) (regs : List Str) (h : ∀ x ∈ regs, isReg x = true) : pshMask (otherSP u) regs < 256 :=
  foldl_or_lt _ regs (fun x hx => (isReg_facts (h x hx)).2.2 u) 0 (by omega)

theorem joinWith_ne_nil (c : Char) (regs : List Str) (hne : regs ≠ []) (h : ∀ x ∈ regs, x ≠ []) :
    joinWith c regs ≠ [] := by
  cases regs with
  | nil => exact absurd rfl hne
  | cons a t =>
    have ha := h a (by simp)
    cases t with
    | nil => simpa [joinWith] using ha
    | cons b t => simp [joinWith, ha]

/-- a list of registers none of which is the instruction's own stack pointer (`u`: PSHU / PULU, read off the
mnemonic by `hu`): the post byte is the OR of the masks, bit $40 standing for the other stack pointer -/
theorem translateSpecial_psh {o : Operand} {r : InstrRow} {c : Nat} {regs : List Str} (u : Bool)
    (hm : (r.mnemonic == "PSHS" || r.mnemonic == "PSHU" || r.mnemonic == "PULS" || r.mnemonic == "PULU") = true)
    (hu : (r.mnemonic == "PSHS" || r.mnemonic == "PULS") = !u)
    (hm2 : (r.mnemonic == "EXG" || r.mnemonic == "TFR") = false)
    (hc : r.imm = some c) (hc' : c < 65536)
    (ht : o.text = joinWith ',' regs) (hne : regs ≠ []) (hreg : ∀ x ∈ regs, isReg x = true ∧ x ≠ ownSP u) :
    translateSpecial o r = .ok { opCode := opv c, postByte := .numeric (pshMask (otherSP u) regs) (some 2) .direct false,
                                 size := r.immSz, maxSize := r.immSz } := by
  have hreg1 : ∀ x ∈ regs, isReg x = true := fun x hx => (hreg x hx).1
  have hsplit : splitOn ',' o.text = regs := by
    rw [ht]; exact splitOn_joinWith ',' regs hne (fun x hx => (isReg_facts (hreg1 x hx)).1)
  have hempty : o.text.isEmpty = false := by
    have := joinWith_ne_nil ',' regs hne (fun x hx => (isReg_facts (hreg1 x hx)).2.1)
    rw [ht]; cases hj : joinWith ',' regs with
    | nil => exact absurd hj this
    | cons _ _ => rfl
  have hn := numV_byte (pshMask_lt u regs hreg1)
  unfold pshMask at hn
  have hno : ¬ ∃ x, x ∈ regs ∧ (isReg x = true → x = ownSP u) := by
    rintro ⟨x, hx, hi⟩
    exact (hreg x hx).2 (hi (hreg x hx).1)
  cases u
  · simp only [Bool.not_false] at hu
    simp only [ownSP, otherSP, Bool.false_eq_true, if_false] at hno hn ⊢
    simp only [translateSpecial, hm, hu, hm2, hsplit, hempty, hc, opVal_ok hc']
    simp [hn]
    rw [if_neg hno]
    rfl
  · simp only [Bool.not_true] at hu
    simp only [ownSP, otherSP, if_true] at hno hn ⊢
    simp only [translateSpecial, hm, hu, hm2, hsplit, hempty, hc, opVal_ok hc']
    simp [hn]
    rw [if_neg hno]
    rfl

/-- a list that names the instruction's own stack pointer (`PSHS S`, `PULU A,U`) or something that is no register
is rejected (fix A10) -/
theorem translateSpecial_psh_reject {o : Operand} {r : InstrRow} (u : Bool)
    (hm : (r.mnemonic == "PSHS" || r.mnemonic == "PSHU" || r.mnemonic == "PULS" || r.mnemonic == "PULU") = true)
    (hu : (r.mnemonic == "PSHS" || r.mnemonic == "PULS") = !u)
    (hbad : ∃ x ∈ splitOn ',' o.text, isReg x = false ∨ x = ownSP u) :
    translateSpecial o r = .error .operandType := by
  have hyes : ∃ x, x ∈ splitOn ',' o.text ∧ (isReg x = true → x = ownSP u) := by
    obtain ⟨x, hx, hb⟩ := hbad
    refine ⟨x, hx, fun hi => ?_⟩
    rcases hb with hb | hb
    · rw [hb] at hi; cases hi
    · exact hb
  cases he : o.text.isEmpty
  · cases u
    · simp only [Bool.not_false] at hu
      simp only [ownSP, Bool.false_eq_true, if_false] at hyes
      simp only [translateSpecial, hm, hu, he]
      simp
      rw [if_pos hyes]
      rfl
    · simp only [Bool.not_true] at hu
      simp only [ownSP, if_true] at hyes
      simp only [translateSpecial, hm, hu, he]
      simp
      rw [if_pos hyes]
      rfl
  · simp only [translateSpecial, hm, he]
    rfl

/-- the datasheet's push/pull post-byte bits that do not depend on the stack -/
def stackBits : List (Str × Nat) :=
  [(str "CC", 1), (str "A", 2), (str "B", 4), (str "D", 6), (str "DP", 8), (str "X", 0x10), (str "Y", 0x20),
   (str "PC", 0x80)]

/-- datasheet bit of a register name; bit 6 is the OTHER stack pointer (`uStack`: PSHU / PULU);
`none`: not a legal operand of that instruction -/
def dsBit (uStack : Bool) (x : Str) : Option Nat :=
  if x = str "U" then (if uStack then none else some 0x40)
  else if x = str "S" then (if uStack then some 0x40 else none)
  else (stackBits.find? (·.1 == x)).map (·.2)

/-- the datasheet post byte of a register list -/
def dsMask (uStack : Bool) (regs : List Str) : Nat :=
  regs.foldl (fun acc x => acc ||| (dsBit uStack x).getD 0) 0

theorem stackBits_facts : ∀ e ∈ stackBits, isReg e.1 = true ∧ e.1 ≠ str "S" ∧ e.1 ≠ str "U" ∧
    ∀ u : Bool, regMaskPshPul (otherSP u) e.1 = e.2 := by decide

/-- on every register the datasheet allows for that instruction the model's bit is the datasheet's, and the register
passes the model's check (it is a register and not the instruction's own stack pointer) -/
theorem dsBit_model {u : Bool} {x : Str} {b : Nat} (h : dsBit u x = some b) :
    isReg x = true ∧ x ≠ ownSP u ∧ regMaskPshPul (otherSP u) x = b := by
  unfold dsBit at h
  by_cases hU : x = str "U"
  · subst hU
    cases u <;> simp at h
    subst h
    exact ⟨by decide, by decide, by decide⟩
  · by_cases hS : x = str "S"
    · subst hS
      cases u <;> simp [hU] at h
      subst h
      exact ⟨by decide, by decide, by decide⟩
    · simp only [hU, hS, if_false, Option.map_eq_some_iff] at h
      obtain ⟨e, he, rfl⟩ := h
      have h1 := List.find?_some he
      have h2 := List.mem_of_find?_eq_some he
      have : e.1 = x := by simpa using h1
      subst this
      obtain ⟨f1, f2, f3, f4⟩ := stackBits_facts e h2
      exact ⟨f1, by cases u <;> simpa [ownSP], f4 u⟩

/-- the converse: what the datasheet does not allow, the model rejects -/
theorem dsBit_none {u : Bool} {x : Str} (h : dsBit u x = none) : isReg x = false ∨ x = ownSP u := by
  unfold dsBit at h
  by_cases hU : x = str "U"
  · subst hU; cases u <;> simp at h; exact Or.inr rfl
  · by_cases hS : x = str "S"
    · subst hS; cases u <;> simp [hU] at h; exact Or.inr rfl
    · left
      simp only [hU, hS, if_false, Option.map_eq_none_iff] at h
      cases hreg : isReg x
      · rfl
      · exfalso
        obtain ⟨y, hy, rfl⟩ := isReg_mem hreg
        revert y
        decide

theorem foldl_mask_eq (u : Bool) (regs : List Str) (h : ∀ x ∈ regs, (dsBit u x).isSome) (a : Nat) :
    regs.foldl (fun acc r => acc ||| regMaskPshPul (otherSP u) r) a =
      regs.foldl (fun acc x => acc ||| (dsBit u x).getD 0) a := by
  induction regs generalizing a with
  | nil => rfl
  | cons x t ih =>
    have h1 := h x (by simp)
    obtain ⟨b, hb⟩ := Option.isSome_iff_exists.mp h1
    simp only [List.foldl_cons, hb, Option.getD_some, (dsBit_model hb).2.2]
    exact ih (fun y hy => h y (by simp [hy])) _

theorem pshMask_eq_dsMask (u : Bool) (regs : List Str) (h : ∀ x ∈ regs, (dsBit u x).isSome) :
    pshMask (otherSP u) regs = dsMask u regs := foldl_mask_eq u regs h 0

/-- every register list the datasheet allows for the instruction (S in a PSHU / PULU list included, since repair
A10) is encoded with the datasheet's post byte -/
theorem enc_psh {o : Operand} {r : InstrRow} {c : Nat} {regs : List Str} (u : Bool)
    (hk : o.kind = .special)
    (hm : (r.mnemonic == "PSHS" || r.mnemonic == "PSHU" || r.mnemonic == "PULS" || r.mnemonic == "PULU") = true)
    (hu : (r.mnemonic == "PSHS" || r.mnemonic == "PULS") = !u)
    (hm2 : (r.mnemonic == "EXG" || r.mnemonic == "TFR") = false)
    (hc : r.imm = some c) (hlk : lookup c = some (opOf r.mnemonic, .list)) (hs : r.immSz = opcodeLen c + 1)
    (ht : o.text = joinWith ',' regs) (hne : regs ≠ [])
    (hreg : ∀ x ∈ regs, (dsBit u x).isSome) :
    Encodes o r (.list (dsMask u regs)) := by
  have hreg' : ∀ x ∈ regs, isReg x = true ∧ x ≠ ownSP u := by
    intro x hx
    obtain ⟨b, hb⟩ := Option.isSome_iff_exists.mp (hreg x hx)
    exact ⟨(dsBit_model hb).1, (dsBit_model hb).2.1⟩
  have htr := translateSpecial_psh u hm hu hm2 hc (cell_lt hlk) ht hne hreg'
  have hp := pshMask_lt u regs (fun x hx => (hreg' x hx).1)
  rw [pshMask_eq_dsMask u regs hreg] at htr hp
  refine encodes_of (pb := [dsMask u regs]) hlk (by simpa [translateOperand, hk] using htr) rfl rfl
    (emit_hint2 _ hp) rfl (by simp [hs]) ?_
  simp [decodeTail]

end CoCo.Asm
